import RaftProofs.ClusterReadF
import RaftProofs.RaftNodeC10
import RaftProps.C13b

/-!
Cluster-level flow control (C13), part H: **a heartbeat queued during a call advertises at most the
`matched` index the node's tracker holds for the addressee when the call ends** (`HM`).

Heartbeats are only queued by `bcast_heartbeat_with_ctx` (`send_heartbeat`, raft.rs:855), the last thing
`step_leader` does for `MsgBeat` / a safe `MsgReadIndex` and all `ping` does; everything else queues no
heartbeat (`NHb`: the frame lemmas `RF` / `RS` of the ReadIndex layer, `RaftProofs/ClusterRead{A,B,C,F}`,
say so for the sending / replication helpers, the leader handlers and the role changes; the remaining
functions are traversed here).
-/
namespace RaftModel
namespace Raft
namespace FH
open RD

/-- no heartbeat has been queued since `a` -/
def NHb (a r : Raft) : Prop := ∀ x ∈ r.msgs, x.msgType = .msgHeartbeat → x ∈ a.msgs

/-- every heartbeat queued since `a` advertises at most the `matched` index that `r` holds for its
addressee -/
def HM (a r : Raft) : Prop := ∀ x ∈ r.msgs, x.msgType = .msgHeartbeat →
  x ∈ a.msgs ∨ ∃ pr, r.prs.get x.to = some pr ∧ x.commit ≤ pr.matched

theorem NHb.rfl {a : Raft} : NHb a a := fun _ h _ => h

theorem NHb.hm {a r : Raft} (h : NHb a r) : HM a r := fun x hx ht => .inl (h x hx ht)

theorem NHb.of_rd {a r r' : Raft} (h : NHb a r) (hrd : rdOf r'.msgs = rdOf r.msgs) : NHb a r' := by
  intro x hx ht
  have : x ∈ rdOf r'.msgs := mem_rdOf.2 ⟨hx, by simp [isRd, ht, rdT]⟩
  rw [hrd] at this
  exact h x (mem_rdOf.1 this).1 ht

theorem NHb.rf {a r r' : Raft} (h : NHb a r) (hf : RF r r') : NHb a r' := h.of_rd hf.rd
theorem NHb.rs {a r r' : Raft} (h : NHb a r) (hs : RS r r') : NHb a r' := h.of_rd hs.rd

theorem NHb.post_rf {a r : Raft} {x : Res Raft} (h : NHb a r)
    (hx : Res.Post (fun y => RF r y) x) : Res.Post (NHb a) x :=
  Res.post_mono hx (fun _ hy => h.rf hy)

theorem NHb.post_rs {a r : Raft} {x : Res Raft} (h : NHb a r)
    (hx : Res.Post (fun y => RS r y) x) : Res.Post (NHb a) x :=
  Res.post_mono hx (fun _ hy => h.rs hy)

theorem NHb.post_rf1 {a r : Raft} {β : Type} {x : Res (Raft × β)} (h : NHb a r)
    (hx : Res.Post (fun y => RF r y.1) x) : Res.Post (fun y => NHb a y.1) x :=
  Res.post_mono hx (fun _ hy => h.rf hy)

theorem NHb.send {a r : Raft} (h : NHb a r) (m : Message) (hm : m.msgType ≠ .msgHeartbeat) :
    Res.Post (NHb a) (r.send m) := by
  apply Res.post_intro
  intro r' hs
  rw [send_eq r r' m hs]
  intro x hx ht
  rcases List.mem_append.1 hx with g | g
  · exact h x g ht
  · rw [List.mem_singleton.1 g, sendFill_msgType] at ht
    exact absurd ht hm

theorem reset_msgs (r : Raft) (t : Nat) : (r.reset t).msgs = r.msgs := by
  unfold reset mapProgress resetRandomizedElectionTimeout abortLeaderTransfer
  simp only []
  split <;> rfl

theorem NHb.becomeFollower {a r : Raft} (h : NHb a r) (t l : Nat) :
    NHb a (r.becomeFollower t l) := by
  intro x hx ht
  have : (r.becomeFollower t l).msgs = r.msgs := by
    unfold Raft.becomeFollower; exact reset_msgs r t
  rw [this] at hx
  exact h x hx ht

/-! ### read-index answers -/

theorem handleReadyReadIndex_nhb {a r : Raft} (h : NHb a r) (req : Message) (index : Nat) :
    Res.Post (fun x => NHb a x.1 ∧ ∀ m, x.2 = some m → m.msgType = .msgReadIndexResp)
      (r.handleReadyReadIndex req index) := by
  unfold handleReadyReadIndex
  split
  · split
    · trivial
    · exact ⟨h, fun m hm => by cases hm⟩
  · exact ⟨h, fun m hm => by cases hm; rfl⟩

theorem foldl_nhb {a : Raft} {β : Type} (g : Raft → β → Res Raft)
    (hg : ∀ r b, NHb a r → Res.Post (NHb a) (g r b)) :
    ∀ (l : List β) (acc : Res Raft), Res.Post (NHb a) acc →
      Res.Post (NHb a) (l.foldl (fun acc b => acc.bind (fun r => g r b)) acc) := by
  intro l
  induction l with
  | nil => intro acc h; exact h
  | cons b rest ih =>
    intro acc h
    simp only [List.foldl_cons]
    apply ih
    exact Res.post_bind h (fun x hx => hg x b hx)

theorem respondReadStates_nhb {a r : Raft} (h : NHb a r) (rss : List ReadIndexStatus) :
    Res.Post (NHb a) (r.respondReadStates rss) := by
  unfold respondReadStates
  refine foldl_nhb _ ?_ _ _ h
  intro r1 rs h1
  exact Res.post_bind (handleReadyReadIndex_nhb h1 _ _) (fun x hx => by
    obtain ⟨r2, om⟩ := x
    dsimp only at hx ⊢
    split
    · rename_i m'
      exact hx.1.send _ (by rw [hx.2 m' rfl]; intro hc; cases hc)
    · exact hx.1)

theorem advance_nhb {a : Raft} (r : Raft) (ro0 : ReadOnly) (ctx : Bytes) (h : NHb a r) :
    Res.Post (NHb a) ((ro0.advance ctx).bind (fun (ro, rss) =>
      ({ r with readOnly := ro } : Raft).respondReadStates rss)) := by
  cases hadv : ro0.advance ctx with
  | ok p =>
    obtain ⟨ro, rss⟩ := p
    exact respondReadStates_nhb (r := { r with readOnly := ro }) h rss
  | err e => trivial
  | panic s => trivial

/-! ### leader side -/

theorem handleHeartbeatResponse_nhb {a r : Raft} (h : NHb a r) (m : Message) :
    Res.Post (NHb a) (r.handleHeartbeatResponse m) := by
  unfold handleHeartbeatResponse
  split
  · exact h
  · dsimp only
    refine Res.post_bind (P := fun _ => True) ?_ (fun pr1 _ => ?_)
    · split
      · split <;> trivial
      · trivial
    · refine Res.post_bind (P := NHb a) ?_ (fun r1 h1 => ?_)
      · split
        · exact Res.post_bind (sendAppendPr_rf r m.frm pr1) (fun x hx => h.rf hx)
        · exact h
      · split
        · exact h1
        · split
          · exact h1
          · split
            · exact advance_nhb r1 _ _ h1
            · exact h1

/-- `bcast_heartbeat_with_ctx`: every heartbeat it queues advertises at most the addressee's `matched` -/
theorem bcastHeartbeatWithCtx_hm {a r : Raft} (h : HM a r) (ctx : Option Bytes) :
    Res.Post (HM a) (r.bcastHeartbeatWithCtx ctx) := by
  unfold bcastHeartbeatWithCtx forEachPeer
  have key : ∀ (l : List Nat) (acc : Res Raft), Res.Post (HM a) acc →
      Res.Post (HM a) (l.foldl (fun (acc : Res Raft) id =>
        acc.bind (fun r =>
          if id = r.id then .ok r
          else match r.prs.get id with
            | none => .ok r
            | some pr => ((r.sendHeartbeat id pr ctx).bind (fun r => .ok (r, pr))).bind
                (fun (r, pr) => .ok { r with prs := r.prs.set id pr }))) acc) := by
    intro l
    induction l with
    | nil => intro acc hacc; exact hacc
    | cons id rest ih =>
      intro acc hacc
      simp only [List.foldl_cons]
      apply ih
      refine Res.post_bind hacc (fun r1 h1 => ?_)
      split
      · exact h1
      · split
        · exact h1
        · rename_i pr hg
          rw [RaftProps.C13.C13_heartbeat_commit]
          show HM a _
          intro x hx ht
          dsimp only at hx ⊢
          rcases List.mem_append.1 hx with g | g
          · rcases h1 x g ht with c | ⟨pr', c1, c2⟩
            · exact .inl c
            · right
              by_cases hto : x.to = id
              · rw [hto] at c1 ⊢
                rw [hg] at c1; cases c1
                exact ⟨pr, ProgressTracker.get_set_self _ _ _ _ hg, c2⟩
              · exact ⟨pr', by rw [ProgressTracker.get_set_ne _ _ _ _ hto]; exact c1, c2⟩
          · right
            rw [List.mem_singleton.1 g]
            exact ⟨pr, ProgressTracker.get_set_self _ _ _ _ hg,
              (RaftProps.C13.C13_heartbeat_commit_le r1 id pr ctx).2⟩
  exact key _ _ h

theorem bcastHeartbeat_hm {a r : Raft} (h : HM a r) : Res.Post (HM a) r.bcastHeartbeat := by
  unfold bcastHeartbeat
  exact bcastHeartbeatWithCtx_hm h _

theorem ping_hm {a r : Raft} (h : HM a r) : Res.Post (HM a) r.ping := by
  unfold ping
  split
  · exact bcastHeartbeat_hm h
  · exact h

/-- the postcondition of `step` and `step_leader`: `HM`, and no heartbeat at all unless the message is a
`MsgBeat` or a `MsgReadIndex` -/
abbrev SQ (a : Raft) (m : Message) : Raft × Option RaftError → Prop := fun x =>
  HM a x.1 ∧ (m.msgType ≠ .msgBeat → m.msgType ≠ .msgReadIndex → NHb a x.1)

theorem SQ.of_nhb {a r : Raft} {m : Message} {e : Option RaftError} (h : NHb a r) : SQ a m (r, e) :=
  ⟨h.hm, fun _ _ => h⟩

theorem stepLeader_sq {a r : Raft} (h : NHb a r) (m : Message) :
    Res.Post (SQ a m) (r.stepLeader m) := by
  unfold stepLeader
  split
  · rename_i hty
    exact Res.post_bind (bcastHeartbeat_hm h.hm) (fun x hx => ⟨hx, fun hc => absurd hty hc⟩)
  · simp only []
    have h1 : NHb a r.checkQuorumActive.1 := h.rf (checkQuorumActive_rf r)
    split
    · exact SQ.of_nhb (h1.becomeFollower _ _)
    · exact SQ.of_nhb h1
  · split
    · trivial
    · split
      · exact SQ.of_nhb h
      · split
        · exact SQ.of_nhb h
        · have hf : NHb a (r.filterProposal 0 m.entries).1 := h.rf (filterProposal_rf m.entries r 0)
          split
          · rename_i r1 heq
            rw [heq] at hf; exact SQ.of_nhb hf
          · rename_i r1 es heq
            rw [heq] at hf
            split
            · rename_i r2 heq2
              exact SQ.of_nhb (hf.rf (Res.Post.of_eq (appendEntry_rf r1 es) heq2 :))
            · rename_i r2 heq2
              have h2 : NHb a r2 := hf.rf (Res.Post.of_eq (appendEntry_rf r1 es) heq2 :)
              exact Res.post_bind (bcastAppend_rf r2) (fun x hx => SQ.of_nhb (h2.rf hx))
            · trivial
            · trivial
  · rename_i hty
    split
    · trivial
    · trivial
    · exact ⟨h.hm, fun _ hc => absurd hty hc⟩
    · have hans : ∀ r1 : Raft, NHb a r1 → Res.Post (SQ a m)
          ((r1.handleReadyReadIndex m r1.raftLog.committed).bind (fun (r, om) =>
            match om with
            | some m' => (r.send m').bind (fun r => .ok (r, none))
            | none => .ok (r, none))) := by
        intro r1 h1
        refine Res.post_bind (handleReadyReadIndex_nhb h1 _ _) (fun x hx => ?_)
        obtain ⟨r2, om⟩ := x
        dsimp only at hx ⊢
        split
        · rename_i m'
          exact Res.post_bind (hx.1.send _ (by rw [hx.2 m' rfl]; intro hc; cases hc))
            (fun y hy => SQ.of_nhb hy)
        · exact SQ.of_nhb hx.1
      simp only []
      split
      · exact hans r h
      · split
        · split
          · trivial
          · refine Res.post_bind (P := fun _ => True) ?_ (fun ro _ => ?_)
            · cases r.readOnly.addRequest r.raftLog.committed m r.id <;> trivial
            · exact Res.post_bind
                (bcastHeartbeatWithCtx_hm (r := { r with readOnly := ro }) h.hm _)
                (fun x hx => ⟨hx, fun _ hc => absurd hty hc⟩)
        · exact hans r h
  · exact Res.post_bind (handleAppendResponse_rf r m) (fun x hx => SQ.of_nhb (h.rf hx))
  · exact Res.post_bind (handleHeartbeatResponse_nhb h m) (fun x hx => SQ.of_nhb hx)
  · exact SQ.of_nhb (h.rf (handleSnapshotStatus_rf r m))
  · exact SQ.of_nhb (h.rf (handleUnreachable_rf r m))
  · exact Res.post_bind (handleTransferLeader_rf r m) (fun x hx => SQ.of_nhb (h.rf hx))
  · exact SQ.of_nhb h

/-! ### configuration changes -/

theorem postConfChange_nhb {a r : Raft} (h : NHb a r) :
    Res.Post (fun x => NHb a x.1) r.postConfChange := by
  unfold postConfChange
  simp only []
  split
  · exact NHb.becomeFollower (r := { r with promotable := Joint.contains r.prs.voters r.id }) h _ _
  · split
    · exact h
    · have hr1 : Res.Post (NHb a)
          (match ({ r with promotable := Joint.contains r.prs.voters r.id } : Raft).maybeCommit with
            | .ok (r, true) => r.bcastAppend
            | .ok (r, false) =>
              r.forEachPeer (fun r id pr =>
                (r.maybeSendAppend id pr false).bind (fun (r, pr, _) => .ok (r, pr)))
            | .err e => .err e
            | .panic s => .panic s : Res Raft) := by
        split
        · rename_i r1 heq
          have h1 : NHb a r1 := NHb.rf (r := { r with promotable := Joint.contains r.prs.voters r.id })
            h (Res.Post.of_eq (maybeCommit_rf _) heq :)
          exact h1.post_rf (bcastAppend_rf r1)
        · rename_i r1 heq
          have h1 : NHb a r1 := NHb.rf (r := { r with promotable := Joint.contains r.prs.voters r.id })
            h (Res.Post.of_eq (maybeCommit_rf _) heq :)
          exact h1.post_rf (forEachPeer_rf r1 _ (fun r id pr =>
            Res.post_bind (maybeSendAppend_rf r id pr false) (fun x hx => hx)))
        · trivial
        · trivial
      refine Res.post_bind hr1 (fun r1 h1 => ?_)
      have hr2 : Res.Post (NHb a)
          (match r1.readOnly.lastPendingRequestCtx with
            | none => .ok r1
            | some ctx =>
              match (r1.readOnly.recvAck r1.id ctx).2 with
              | some acks =>
                if ({ r1 with readOnly := (r1.readOnly.recvAck r1.id ctx).1 } : Raft).prs.hasQuorum acks then
                  (({ r1 with readOnly := (r1.readOnly.recvAck r1.id ctx).1 } : Raft).readOnly.advance ctx).bind
                    (fun (ro, rss) =>
                      ({ ({ r1 with readOnly := (r1.readOnly.recvAck r1.id ctx).1 } : Raft) with
                          readOnly := ro } : Raft).respondReadStates rss)
                else .ok { r1 with readOnly := (r1.readOnly.recvAck r1.id ctx).1 }
              | none => .ok { r1 with readOnly := (r1.readOnly.recvAck r1.id ctx).1 } : Res Raft) := by
        split
        · exact h1
        · split
          · split
            · exact advance_nhb r1 _ _ h1
            · exact h1
          · exact h1
      refine Res.post_bind hr2 (fun r2 h2 => ?_)
      show NHb a _
      split
      · split
        · exact h2
        · exact h2
      · exact h2

theorem applyConfChange_nhb {a r : Raft} (h : NHb a r) (cc : ConfChangeV2) :
    Res.Post (fun x => NHb a x.1) (r.applyConfChange cc) := by
  unfold applyConfChange
  simp only []
  split
  · exact h
  · exact Res.post_bind (postConfChange_nhb (by exact h)) (fun x hx => hx)

/-! ### follower / candidate side -/

theorem handleHeartbeat_nhb {a r : Raft} (h : NHb a r) (m : Message) :
    Res.Post (NHb a) (r.handleHeartbeat m) := by
  unfold handleHeartbeat
  split
  · trivial
  · trivial
  · simp only []
    split
    · exact NHb.post_rf (by exact h) (sendRequestSnapshot_rf _)
    · refine NHb.send (by exact h) _ ?_
      intro hc; cases hc

theorem restore_nhb {a r : Raft} (h : NHb a r) (snap : Snapshot) :
    Res.Post (fun x => NHb a x.1) (r.restore snap) := by
  unfold restore
  simp only []
  split
  · exact h
  · split
    · split
      · trivial
      · exact h.becomeFollower _ _
    · split
      · exact h
      · split
        · trivial
        · trivial
        · split
          · exact h
          · trivial
          · trivial
        · split
          · trivial
          · trivial
          · split
            · trivial
            · rename_i prs hres
              refine Res.post_bind (postConfChange_nhb (by exact h)) (fun x hx => ?_)
              obtain ⟨r2, cs2⟩ := x
              dsimp only at hx ⊢
              split
              · trivial
              · split
                · trivial
                · split
                  · trivial
                  · refine Res.post_bind (P := fun _ => True) ?_ (fun b _ => hx)
                    cases (‹Progress›.maybeUpdate _) <;> trivial

theorem handleSnapshot_nhb {a r : Raft} (h : NHb a r) (m : Message) :
    Res.Post (NHb a) (r.handleSnapshot m) := by
  unfold handleSnapshot
  refine Res.post_bind (restore_nhb h _) (fun x hx => ?_)
  obtain ⟨r1, ok⟩ := x
  dsimp only at hx ⊢
  split
  · exact hx.send _ (by intro hc; cases hc)
  · exact hx.send _ (by intro hc; cases hc)

theorem stepCandidate_nhb {a r : Raft} (h : NHb a r) (m : Message) :
    Res.Post (fun x => NHb a x.1) (r.stepCandidate m) := by
  unfold stepCandidate
  split
  · exact h
  · split
    · trivial
    · exact Res.post_bind (handleAppendEntries_rf _ m) (fun x hx => (h.becomeFollower _ _).rf hx)
  · split
    · trivial
    · exact Res.post_bind (handleHeartbeat_nhb (h.becomeFollower _ _) m) (fun x hx => hx)
  · split
    · trivial
    · exact Res.post_bind (handleSnapshot_nhb (h.becomeFollower _ _) m) (fun x hx => hx)
  · split
    · exact h
    · split
      · exact h
      · refine Res.post_bind (poll_rs r _ _ _) (fun x hx => ?_)
        obtain ⟨r1, res⟩ := x
        dsimp only at hx ⊢
        exact Res.post_bind (maybeCommitByVote_rs r1 m) (fun y hy => (h.rs hx).rs hy)
  · split
    · exact h
    · split
      · exact h
      · refine Res.post_bind (poll_rs r _ _ _) (fun x hx => ?_)
        obtain ⟨r1, res⟩ := x
        dsimp only at hx ⊢
        exact Res.post_bind (maybeCommitByVote_rs r1 m) (fun y hy => (h.rs hx).rs hy)
  · exact h

theorem stepFollower_nhb {a r : Raft} (h : NHb a r) (m : Message) :
    Res.Post (fun x => NHb a x.1) (r.stepFollower m) := by
  unfold stepFollower
  split
  · rename_i hty
    split
    · exact h
    · split
      · exact h
      · exact Res.post_bind (h.send _ (by show m.msgType ≠ _; rw [hty]; intro hc; cases hc))
          (fun x hx => hx)
  · exact Res.post_bind (handleAppendEntries_rf _ m)
      (fun x hx => NHb.rf (r := { r with electionElapsed := 0, leaderId := m.frm }) h hx)
  · exact Res.post_bind
      (handleHeartbeat_nhb (r := { r with electionElapsed := 0, leaderId := m.frm }) h m)
      (fun x hx => hx)
  · exact Res.post_bind
      (handleSnapshot_nhb (r := { r with electionElapsed := 0, leaderId := m.frm }) h m)
      (fun x hx => hx)
  · rename_i hty
    split
    · exact h
    · exact Res.post_bind (h.send _ (by show m.msgType ≠ _; rw [hty]; intro hc; cases hc))
        (fun x hx => hx)
  · split
    · exact Res.post_bind (hup_rs r true) (fun x hx => h.rs hx)
    · exact h
  · rename_i hty
    split
    · exact h
    · exact Res.post_bind (h.send _ (by show m.msgType ≠ _; rw [hty]; intro hc; cases hc))
        (fun x hx => hx)
  · split
    · simp only []
      split
      · exact h
      · trivial
      · trivial
    · exact h
  · exact h

/-! ### `step`, `tick` -/

theorem step_sq {a r : Raft} (h : NHb a r) (m : Message) : Res.Post (SQ a m) (r.step m) := by
  unfold step
  split
  · trivial
  · trivial
  · rename_i r1 heq
    exact SQ.of_nhb (h.rs (Res.Post.of_eq (stepTerm_rs r m) heq :).1)
  · rename_i r1 heq
    have h1 : NHb a r1 := h.rs (Res.Post.of_eq (stepTerm_rs r m) heq :).1
    split
    · exact Res.post_bind (hup_rs r1 false) (fun x hx => SQ.of_nhb (h1.rs hx))
    · split
      · rename_i r2 heq2
        exact SQ.of_nhb (h1.rs (Res.Post.of_eq (stepVote_rs r1 m) heq2 :))
      · trivial
      · trivial
    · split
      · rename_i r2 heq2
        exact SQ.of_nhb (h1.rs (Res.Post.of_eq (stepVote_rs r1 m) heq2 :))
      · trivial
      · trivial
    · split
      · exact Res.post_mono (stepCandidate_nhb h1 m) (fun x hx => SQ.of_nhb hx)
      · exact Res.post_mono (stepCandidate_nhb h1 m) (fun x hx => SQ.of_nhb hx)
      · exact Res.post_mono (stepFollower_nhb h1 m) (fun x hx => SQ.of_nhb hx)
      · exact stepLeader_sq h1 m

theorem stepIgnore_hm {a r : Raft} (h : NHb a r) (m : Message) :
    Res.Post (HM a) (r.stepIgnore m) := by
  unfold stepIgnore
  exact Res.post_bind (step_sq h m) (fun x hx => hx.1)

theorem stepIgnore_nhb {a r : Raft} (h : NHb a r) (m : Message) (h1 : m.msgType ≠ .msgBeat)
    (h2 : m.msgType ≠ .msgReadIndex) : Res.Post (NHb a) (r.stepIgnore m) := by
  unfold stepIgnore
  exact Res.post_bind (step_sq h m) (fun x hx => hx.2 h1 h2)

theorem tickElection_hm {a r : Raft} (h : NHb a r) :
    Res.Post (fun x => HM a x.1) r.tickElection := by
  unfold tickElection
  simp only []
  split
  · exact h.hm
  · exact Res.post_bind (stepIgnore_hm (r := { r with electionElapsed := 0 }) h _) (fun x hx => hx)

theorem tickHeartbeat_hm {a r : Raft} (h : NHb a r) :
    Res.Post (fun x => HM a x.1) r.tickHeartbeat := by
  unfold tickHeartbeat
  simp only []
  refine Res.post_bind (P := fun x => NHb a x.1) ?_ (fun x hx => ?_)
  · split
    · refine Res.post_bind (P := fun x => NHb a x.1) ?_ (fun x hx => ?_)
      · split
        · exact Res.post_bind
            (stepIgnore_nhb (by exact h) _ (by intro hc; simp [newMessage] at hc)
              (by intro hc; simp [newMessage] at hc))
            (fun x hx => hx)
        · exact h
      · obtain ⟨r1, b⟩ := x
        dsimp only at hx ⊢
        split
        · exact hx
        · exact hx
    · exact h
  · obtain ⟨r1, b⟩ := x
    dsimp only at hx ⊢
    split
    · exact hx.hm
    · split
      · exact Res.post_bind (stepIgnore_hm (r := { r1 with heartbeatElapsed := 0 }) hx _)
          (fun y hy => hy)
      · exact hx.hm

theorem tick_hm {a r : Raft} (h : NHb a r) : Res.Post (fun x => HM a x.1) r.tick := by
  unfold tick
  split
  · exact tickElection_hm h
  · exact tickElection_hm h
  · exact tickElection_hm h
  · exact tickHeartbeat_hm h

theorem rawStep_hm {a r : Raft} (h : NHb a r) (m : Message) :
    Res.Post (fun x => HM a x.1) (RawNode.step r m) := by
  unfold RawNode.step
  split
  · exact h.hm
  · split
    · exact Res.post_mono (step_sq h m) (fun x hx => hx.1)
    · exact h.hm

end FH
end Raft
end RaftModel
