import RaftProofs.ClusterSnap2A

/-!
Commit safety of `ClusterSem`, towards snapshots, part 2B: **one delivery of a `MsgSnapshot` at a
node, completely** (`snap_call`): the message is not handled (nothing changes), or `handle_snapshot`
runs on a follower of the message's term — the storage is untouched, exactly one accepting
`MsgAppendResponse` is queued, and the log is kept (commit index unchanged, or fast-forwarded to the
snapshot index the log holds with the snapshot's term) or replaced by the snapshot
(`RaftLog::restore`).
-/
namespace RaftModel
namespace Raft
namespace CC
open Node

/-- the three things `handle_snapshot` can do to the log of a follower -/
inductive SnapCase (l l' : RaftLog) (sn : Snapshot) (x : Message) : Prop
  /-- a stale snapshot, or one that does not name this node: nothing changes -/
  | kept (hu : l'.unstable = l.unstable) (hp : l'.persisted = l.persisted)
      (hc : l'.committed = l.committed) (hx : x.index = l'.committed)
  /-- the log holds the snapshot's last entry: the commit index is fast-forwarded -/
  | ffwd (hu : l'.unstable = l.unstable) (hp : l'.persisted = l.persisted)
      (hle : l.committed ≤ sn.metadata.index) (hc : l'.committed = sn.metadata.index)
      (hm : l.matchTerm sn.metadata.index sn.metadata.term = .ok true)
      (hl : sn.metadata.index ≤ l.lastIndex) (hx : x.index = l'.committed)
  /-- the log is replaced by the snapshot -/
  | restored (hle : l.committed ≤ sn.metadata.index)
      (hm : l.matchTerm sn.metadata.index sn.metadata.term ≠ .ok true)
      (hu : l'.unstable = l.unstable.restore sn) (hc : l'.committed = sn.metadata.index)
      (hp : l'.persisted = if l.committed < l.persisted then l.committed else l.persisted)
      (hx : x.index = sn.metadata.index)

/-- the outcome of delivering the `MsgSnapshot` `m` to a node (`st → st'`) -/
inductive SnapOut (st st' : NState) (rnd : Option Nat) (m : Message) : Prop
  /-- not handled -/
  | skip (hr : st'.raft = { st.raft with nextRand := rnd })
  /-- handled by a follower of the message's term -/
  | handled (x : Message)
      (hs : st'.raft.state = .follower) (ht : m.term = st'.raft.term ∨ m.term = 0)
      (hle : st.raft.term ≤ st'.raft.term) (hid : st'.raft.id = st.raft.id)
      (hq : st'.raft.msgs = st.raft.msgs ++ [x]) (hack : isAck x) (hto : x.to = m.frm)
      (hfrm : x.frm = st'.raft.id) (hxt : x.term = st'.raft.term)
      (hsto : st'.raft.raftLog.store = st.raft.raftLog.store)
      (hcase : SnapCase st.raft.raftLog st'.raft.raftLog m.snapshot x)

theorem restore_eq {l l' : RaftLog} {sn : Snapshot} (h : l.restore sn = .ok l') :
    l'.unstable = l.unstable.restore sn ∧ l'.committed = sn.metadata.index ∧
    l'.persisted = (if l.committed < l.persisted then l.committed else l.persisted) ∧
    l'.store = l.store ∧ l'.applied = l.applied := by
  unfold RaftLog.restore at h
  split at h
  · cases h
  · cases h; exact ⟨rfl, rfl, rfl, rfl, rfl⟩

theorem snap_call {st st' : NState} {rnd : Option Nat} {m : Message} {res : OpRes}
    (hm : m.msgType = .msgSnapshot) (hreq : st.raft.pendingRequestSnapshot = 0)
    (h : Node.call st rnd (.step m) = .ok (res, st')) : SnapOut st st' rnd m := by
  unfold Node.call at h
  simp only [applyOp] at h
  obtain ⟨raft, e, hx, hr⟩ := CV.unitRes_ok h
  unfold RawNode.step at hx
  split at hx
  · cases hx; exact .skip hr
  · split at hx
    · rcases step_snap_unfold hm hx with ⟨r0, h0, hs0, hsl, htm, hprs⟩ | h1
      · have hsl' : SameLog ({ st.raft with nextRand := rnd } : Raft) r0 := hsl
        unfold Raft.handleSnapshot at h0
        obtain ⟨⟨r1, b⟩, hres, h2⟩ := Res.bind_eq_ok h0
        have hreq0 : r0.pendingRequestSnapshot = 0 := by rw [hprs]; exact hreq
        obtain ⟨f1, f2, f3, f4, f5, fcase⟩ := restore_full hs0 hreq0 hres
        -- the log of `r0` is the log of `st`, up to the apply limit
        have hlog : r0.raftLog.store = st.raft.raftLog.store ∧
            r0.raftLog.unstable = st.raft.raftLog.unstable ∧
            r0.raftLog.committed = st.raft.raftLog.committed ∧
            r0.raftLog.persisted = st.raft.raftLog.persisted ∧
            (∀ i t, r0.raftLog.matchTerm i t = st.raft.raftLog.matchTerm i t) ∧
            r0.raftLog.lastIndex = st.raft.raftLog.lastIndex := by
          rcases hsl'.2.2.2 with e1 | e1
          · rw [e1]; exact ⟨rfl, rfl, rfl, rfl, fun _ _ => rfl, rfl⟩
          · rw [e1]
            exact ⟨rfl, rfl, rfl, rfl, (c04_log_limit_irrelevant _ 0).2.1, rfl⟩
        obtain ⟨g1, g2, g3, g4, g5, g6⟩ := hlog
        have key : ∀ (x0 : Message), x0.msgType = .msgAppendResponse → x0.frm = 0 →
            x0.reject = false → x0.to = m.frm →
            r1.send x0 = .ok raft →
            SnapCase st.raft.raftLog r1.raftLog m.snapshot (r1.sendFill x0) →
            SnapOut st st' rnd m := by
          intro x0 hty hfr hrej hto hsend hcase
          have heq := send_eq _ _ _ hsend
          obtain ⟨k1, k2, k3, k4, k5⟩ := sendFill_ack r1 x0 hty hfr
          refine .handled (r1.sendFill x0) ?_ ?_ ?_ ?_ ?_ ⟨by rw [sendFill_msgType]; exact hty,
            by rw [k5]; exact hrej⟩ (by rw [k4]; exact hto) ?_ ?_ ?_ ?_
          · rw [hr, heq]; show r1.state = _; rw [f3]; exact hs0
          · rw [hr, heq]; show m.term = r1.term ∨ _; rw [f2]; exact htm
          · rw [hr, heq]; show _ ≤ r1.term; rw [f2]; exact hsl'.2.2.1
          · rw [hr, heq]; show r1.id = _; rw [f4]; exact hsl'.2.1
          · rw [hr, heq]; show r1.msgs ++ _ = _; rw [f1, hsl'.1]
          · rw [hr, heq]; exact k1
          · rw [hr, heq]; exact k2
          · rw [hr, heq]; show r1.raftLog.store = _; rw [f5]; exact g1
          · rw [hr, heq]; exact hcase
        rcases fcase with ⟨hb, c1, c2, _, c4⟩ | ⟨hb, c1, c2, c3⟩
        · subst hb
          simp only [Bool.false_eq_true, if_false] at h2
          refine key _ rfl rfl rfl rfl h2 ?_
          obtain ⟨_, _, k3, _, _⟩ := sendFill_ack r1
            ({ msgType := .msgAppendResponse, to := m.frm, index := r1.raftLog.committed } : Message)
            rfl rfl
          rcases c4 with c | ⟨d1, d2, d3, d4⟩
          · exact .kept (by rw [c1, g2]) (by rw [c2, g4]) (by rw [c, g3]) k3
          · exact .ffwd (by rw [c1, g2]) (by rw [c2, g4]) (by rw [← g3]; exact d1) d2
              (by rw [← g5]; exact d3) (by rw [← g6]; exact d4) k3
        · subst hb
          simp only [if_true] at h2
          refine key _ rfl rfl rfl rfl h2 ?_
          obtain ⟨_, _, k3, _, _⟩ := sendFill_ack r1
            ({ msgType := .msgAppendResponse, to := m.frm, index := r1.raftLog.lastIndex } : Message)
            rfl rfl
          obtain ⟨q1, q2, q3, _, _⟩ := restore_eq c3
          have hlast : r1.raftLog.lastIndex = m.snapshot.metadata.index :=
            RaftProps.C20.restore_lastIndex _ _ _ c3
          exact .restored (by rw [← g3]; exact c1) (by rw [← g5]; exact c2) (by rw [q1, g2]) q2
            (by rw [q3, g3, g4]) (by rw [k3]; exact hlast)
      · exact .skip (by rw [hr, h1])
    · cases hx; exact .skip hr

/-- **the effect of `persist_snap`**: nothing (no pending snapshot, or a snapshot the storage refuses
as out of date), or the pending snapshot `sn` is installed: the storage holds nothing but the
snapshot — with commit index `sn.index` and term `max` of the stored term and the snapshot's —, the
snapshot is no longer pending, `persisted` is at least the snapshot index; the logical log, the commit
index and everything else of the node are untouched -/
inductive PersistOut (st st' : NState) (rnd : Option Nat) : Prop
  | noop (hr : st'.raft = { st.raft with nextRand := rnd })
  | done (sn : Snapshot) (L : RaftLog) (hpend : st.raft.raftLog.unstable.snapshot = some sn)
      (hr : st'.raft = { st.raft with nextRand := rnd, raftLog := L })
      (hinv : L.Inv) (habs : L.abs = st.raft.raftLog.abs)
      (hc : L.committed = st.raft.raftLog.committed)
      (hp : L.persisted = max st.raft.raftLog.persisted sn.metadata.index)
      (hus : L.unstable.snapshot = none) (hue : L.unstable.entries = st.raft.raftLog.unstable.entries)
      (hents : L.store.entries = []) (hmeta : L.store.snapshotMetadata = sn.metadata)
      (hhs : L.store.hardState = { st.raft.raftLog.store.hardState with
        term := max st.raft.raftLog.store.hardState.term sn.metadata.term,
        commit := sn.metadata.index })

theorem persist_out {st st' : NState} {rnd : Option Nat} {res : OpRes}
    (hinv : st.raft.raftLog.Inv) (h : Node.call st rnd .persistSnap = .ok (res, st')) :
    PersistOut st st' rnd := by
  unfold Node.call at h
  simp only [applyOp] at h
  unfold Node.persistSnap at h
  simp only [] at h
  split at h
  · cases h; exact .noop rfl
  · rename_i sn hsn
    have hsn' : st.raft.raftLog.unstable.snapshot = some sn := hsn
    split at h
    · cases h; exact .noop rfl
    · cases h
    · rename_i store hap
      have hap' : st.raft.raftLog.store.applySnapshot sn = .ok store := hap
      split at h
      · cases h
      · cases h
      · rename_i l hl
        split at h
        · rename_i raft hop
          cases h
          have hge : st.raft.raftLog.store.firstIndex ≤ sn.metadata.index := by
            unfold MemStorage.applySnapshot at hap'
            dsimp only at hap'
            split at hap'
            · cases hap'
            · omega
          have hstore : store = { st.raft.raftLog.store with
              snapshotMetadata := sn.metadata,
              hardState := { st.raft.raftLog.store.hardState with
                term := max st.raft.raftLog.store.hardState.term sn.metadata.term,
                commit := sn.metadata.index },
              entries := [], confState := sn.metadata.confState } := by
            unfold MemStorage.applySnapshot at hap'
            dsimp only at hap'
            split at hap'
            · cases hap'
            · cases hap'; rfl
          unfold Raft.onPersistSnap at hop
          split at hop
          · rename_i l2 b hmp
            cases hop
            have hps : st.raft.raftLog.persistSnapshot = .ok l2 := by
              unfold RaftLog.persistSnapshot
              rw [hsn']
              simp only []
              rw [hap']
              simp only []
              have hl' : ({ st.raft.raftLog with store := store } : RaftLog).stableSnap
                  sn.metadata.index = .ok l := hl
              rw [hl']
              simp only []
              have hmp' : l.maybePersistSnap sn.metadata.index = .ok (l2, b) := hmp
              rw [hmp']
            obtain ⟨l3, e3, i3, a3, c3, _, p3, u3, ue3⟩ :=
              RaftProps.C14.persistSnapshot_ok hinv sn hsn' hge
            rw [hps] at e3
            cases e3
            have hst2 : l2.store = store := by
              rw [RaftModel.C06.maybePersistSnap_store hmp, RaftModel.C06.stableSnap_store hl]
            exact .done sn l2 hsn' rfl i3 a3 c3 p3 u3 ue3 (by rw [hst2, hstore])
              (by rw [hst2, hstore]) (by rw [hst2, hstore])
          · cases hop
          · cases hop
        · cases h
        · cases h

/-- what the delivery of a `MsgSnapshot` queues: at most one accepting append response -/
theorem SnapOut.msgs {st st' : NState} {rnd : Option Nat} {m : Message} (h : SnapOut st st' rnd m) :
    ∀ x ∈ st'.raft.msgs, x ∈ st.raft.msgs ∨ isAck x := by
  intro x hx
  cases h with
  | skip hr => rw [hr] at hx; exact .inl hx
  | handled y _ _ _ _ hq hack _ _ _ _ _ =>
    rw [hq] at hx
    rcases List.mem_append.1 hx with c | c
    · exact .inl c
    · rw [List.mem_singleton.1 c]; exact .inr hack

/-- `persist_snap` leaves the queue alone -/
theorem PersistOut.msgs {st st' : NState} {rnd : Option Nat} (h : PersistOut st st' rnd) :
    st'.raft.msgs = st.raft.msgs := by
  cases h with
  | noop hr => rw [hr]
  | done _ _ _ hr _ _ _ _ _ _ _ _ _ => rw [hr]

end CC
end Raft
end RaftModel
