import RaftProofs.ClusterSnap5K

/-!
[Copy of `ClusterSnap2L.lean` for the development `Snap5` (with `request_snapshot`): `NoReq` is replaced by
`ReqOk`, `SnapCase.restored` is widened — see `ClusterSnap5A.lean`, `RaftProps/C01i.lean`.]

Commit safety of `ClusterSem` with compaction and snapshots, part 2L: two invariants about snapshot
points that the snapshot cases of the main induction need:

* `snap_lt`: a snapshot point whose term is forgotten (a compaction point) lies **strictly below** the
  commit index (of the logical log) resp. the recorded commit index (of the storage) — so a snapshot a
  node restores, which is not below its commit index, never sits on such a point;
* `pend_ok`: a pending snapshot is all there is of the logical log (nothing was appended behind it), and
  its index is the commit index.
-/
namespace RaftModel
namespace Cluster
namespace Snap5
open Node Raft Raft.CC RaftProps.C02 RaftProps.C05 Snap

variable {cfg : JointConfig} {c0 : Nat} {h : List Sys}

/-- `commit_apply k` writes the commit index `k` into the storage only when the storage holds index
`k` -/
theorem commitApply_hs_cond {st st' : NState} {rnd : Option Nat} {k : Nat} {res : OpRes}
    (h : Node.call st rnd (.commitApply k) = .ok (res, st')) :
    st'.raft.raftLog.store.hardState.commit = st.raft.raftLog.store.hardState.commit ∨
    (st'.raft.raftLog.store.hardState.commit = k ∧ st'.raft.raftLog.store.firstIndex ≤ k) := by
  unfold Node.call at h
  have hrefl : CV.VInv st.raft CV.mLocal ({ st.raft with nextRand := rnd } : Raft) :=
    (CV.VInv.refl st.raft CV.mLocal).vf (by simp [CV.VF, CV.ncore])
  simp only [applyOp, Node.commitApply] at h
  split at h
  · rename_i r2 hb
    rw [Res.bind_eq_ok_iff] at hb
    obtain ⟨r1, h1, h2⟩ := hb
    have hv1 : CV.VInv st.raft CV.mLocal r1 := by
      split at h1
      · split at h1
        · cases h1; exact hrefl.vf (CV.reduceUncommittedSize_vf _ _)
        · cases h1; exact hrefl
        · cases h1
      · cases h1; exact hrefl
    have hv2 : CV.VInv st.raft CV.mLocal r2 :=
      hv1.vf (Res.Post.of_eq (CV.commitApply_vf _ _) h2)
    cases h
    split
    · rename_i hcond
      right
      exact ⟨rfl, hcond.1⟩
    · left
      show r2.raftLog.store.hardState.commit = _
      rw [hv2.hs]
  · cases h
  · cases h

/-- a compaction point lies strictly below the (recorded) commit index -/
structure SnapLt (c0 : Nat) (st : NState) : Prop where
  log : st.raft.raftLog.abs.snapTerm = none → c0 < st.raft.raftLog.abs.snapIdx →
    st.raft.raftLog.abs.snapIdx < st.raft.raftLog.committed
  sto : (storeLog st.raft.raftLog.store).snapTerm = none →
    c0 < (storeLog st.raft.raftLog.store).snapIdx →
    (storeLog st.raft.raftLog.store).snapIdx < st.raft.raftLog.store.hardState.commit

theorem compactTo_none (g : LLog) (k : Nat) :
    (g.compactTo k = g) ∨ ((g.compactTo k).snapIdx = k ∧ g.snapIdx < k) := by
  unfold LLog.compactTo
  split
  · exact .inl rfl
  · exact .inr ⟨rfl, by omega⟩

theorem snap_lt (H : Hyp3a cfg c0 h) : ∀ (n : Nat) (s : Sys), h[n]? = some s →
    ∀ v st, s.node v = some st → SnapLt c0 st := by
  have H2 := H.toHyp2w
  refine hist_induct h _ ?_ ?_
  · intro s h0 v st hv
    have hf0 := H.first0 s h0 v st hv
    obtain ⟨_, sto, hboot, hwf, _, _⟩ := H.init s h0
    obtain ⟨c, rnd, hb⟩ := hboot v st hv
    obtain ⟨_, habs, hsl⟩ := boot_log c _ rnd st (hwf v st hv).1 hb
    have hs : (storeLog st.raft.raftLog.store).snapIdx = c0 := by
      show st.raft.raftLog.store.firstIndex - 1 = c0
      rw [hf0]; rfl
    refine ⟨fun _ hc => ?_, fun _ hc => ?_⟩
    · rw [habs, ← hsl, hs] at hc; omega
    · rw [hs] at hc; omega
  · intro n a b ha hb ih v stb hvb
    obtain ⟨k, stk, stk', hka, hkb, hoth, hs⟩ := H2.stp ha hb
    by_cases hvk : v = k
    · subst hvk
      rw [hkb] at hvb; cases hvb
      obtain ⟨il, is⟩ := ih v stk hka
      have oa := node_ok H2 ha hka
      have ob := node_ok H2 hb hkb
      cases hs with
      | call rnd op res hop hco _ hns hpn _ hcall _ hpn' hcs =>
        obtain ⟨hsrc, hse, hhs⟩ := call_more H2 ha hka hop hco hns hpn hcall
        have hcle := hsrc.1
        -- the logical log
        have hlog : stb.raft.raftLog.abs.snapTerm = none → c0 < stb.raft.raftLog.abs.snapIdx →
            stb.raft.raftLog.abs.snapIdx < stb.raft.raftLog.committed := by
          cases call_step H2 ha hka hop hco hns hpn hcall with
          | same hl => rw [hl]; intro h1 h2; have := il h1 h2; omega
          | grew es hg =>
            have e1 : stb.raft.raftLog.abs.snapIdx = stk.raft.raftLog.abs.snapIdx := by rw [hg.abs]
            have e2 : stb.raft.raftLog.abs.snapTerm = stk.raft.raftLog.abs.snapTerm := by rw [hg.abs]
            rw [e1, e2]; intro h1 h2; have := il h1 h2; omega
          | acc m _ _ _ hacc _ _ _ _ =>
            rw [hacc.snap.1, hacc.snap.2]; intro h1 h2; have := il h1 h2; omega
          | compacted j ho =>
            rw [ho.abs, ho.committed]
            rcases compactTo_none stk.raft.raftLog.abs (j - 1) with c | ⟨c1, c2⟩
            · rw [c]; exact il
            · intro _ _; rw [c1]; have := ho.ok.1; omega
        refine ⟨hlog, ?_⟩
        rcases hse with c | c | ⟨j, c, ho⟩
        · rw [c.storeLog]
          intro h1 h2
          have h3 := is h1 h2
          rcases hhs with d | ⟨j, rfl, d⟩ | ⟨_, _⟩
          · rw [d]; exact h3
          · rcases commitApply_hs_cond hcall with e | ⟨e1, e2⟩
            · rw [e]; exact h3
            · rw [e1]
              have : stb.raft.raftLog.store.firstIndex = stk.raft.raftLog.store.firstIndex := by
                unfold MemStorage.firstIndex; rw [c.1, c.2]
              rw [this] at e2
              show stk.raft.raftLog.store.firstIndex - 1 < j
              have := oa.inv.storeWF.first_pos
              omega
          · rename_i d2; rw [d2]; exact h3
        · subst c
          obtain ⟨u1, _, u3, _⟩ := stabilize_out oa.inv hpn hcall
          have heq := abs_eq_storeLog ob.inv hpn' u1
          have hcm : stb.raft.raftLog.store.hardState.commit =
              stk.raft.raftLog.store.hardState.commit := by
            rcases hhs with d | ⟨j, d, _⟩ | ⟨_, d⟩
            · rw [d]
            · cases d
            · exact d
          rw [← heq, u3, hcm, ← oa.sidx hpn, ← oa.sterm hpn]
          exact is
        · cases c
          rw [ho.sto, ho.hs]
          rcases compactTo_none (storeLog stk.raft.raftLog.store) (j - 1) with c | ⟨c1, c2⟩
          · rw [c]; exact is
          · intro _ _; rw [c1]; have := hcs j rfl; omega
      | snap rnd m hm _ hty hpn hout _ =>
        cases hout with
        | skip hr =>
          have e : stb.raft.raftLog = stk.raft.raftLog := by rw [hr]
          exact ⟨by rw [e]; exact il, by rw [e]; exact is⟩
        | handled x _ _ _ _ _ _ _ _ _ hsto hcase =>
          refine ⟨?_, by rw [hsto]; exact is⟩
          cases hcase with
          | kept hu _ hc _ => rw [abs_of_eq hsto hu, hc]; exact il
          | ffwd hu _ hle hc _ _ _ =>
            rw [abs_of_eq hsto hu, hc]; intro h1 h2; have := il h1 h2; omega
          | restored _ _ hu _ _ _ =>
            intro h1
            rw [RaftLog.abs_some (sn := m.snapshot) (by rw [hu]; rfl)] at h1
            cases h1
      | psnap rnd _ hout _ _ =>
        cases hout with
        | noop hr =>
          have e : stb.raft.raftLog = stk.raft.raftLog := by rw [hr]
          exact ⟨by rw [e]; exact il, by rw [e]; exact is⟩
        | done sn L hp0 hr _ habs hcm _ _ _ hents hmeta _ =>
          refine ⟨?_, ?_⟩
          · rw [hr]; show L.abs.snapTerm = none → c0 < L.abs.snapIdx → L.abs.snapIdx < L.committed
            rw [habs, hcm]; exact il
          · intro h1
            have hsl : storeLog stb.raft.raftLog.store =
                { snapIdx := sn.metadata.index, snapTerm := some sn.metadata.term, ents := [] } := by
              rw [hr]; exact storeLog_snap hents hmeta
            rw [hsl] at h1; cases h1
      | send _ _ _ hsame _ _ => exact ⟨by rw [hsame.1]; exact il, by rw [hsame.1]; exact is⟩
      | restart c rnd hboot _ _ =>
        have hbt := CV.boot_booted c _ rnd stb hboot
        obtain ⟨_, habs, hsl⟩ := boot_log c _ rnd stb oa.inv.storeWF hboot
        refine ⟨?_, by rw [hsl, hbt.hs]; exact is⟩
        rw [habs]
        intro h1 h2
        have h3 := is h1 h2
        rcases boot_committed c _ rnd stb hboot with e | ⟨e0, _⟩
        · rw [e]; exact h3
        · rw [e0] at h3
          have : ({} : HardState).commit = 0 := rfl
          omega
    · rw [hoth v hvk] at hvb
      exact ih v stb hvb

/-- the snapshot point of a storage above `c0` is not beyond the commit index the storage records -/
theorem store_snap_le (H : Hyp3a cfg c0 h) : ∀ (n : Nat) (s : Sys), h[n]? = some s →
    ∀ v st, s.node v = some st → c0 < (storeLog st.raft.raftLog.store).snapIdx →
      (storeLog st.raft.raftLog.store).snapIdx ≤ st.raft.raftLog.store.hardState.commit := by
  have H2 := H.toHyp2w
  refine hist_induct h _ ?_ ?_
  · intro s h0 v st hv hc
    have hs : (storeLog st.raft.raftLog.store).snapIdx = c0 := by
      show st.raft.raftLog.store.firstIndex - 1 = c0
      rw [H.first0 s h0 v st hv]; rfl
    omega
  · intro n a b ha hb ih v stb hvb
    obtain ⟨k, stk, stk', hka, hkb, hoth, hs⟩ := H2.stp ha hb
    by_cases hvk : v = k
    · subst hvk
      rw [hkb] at hvb; cases hvb
      have is := ih v stk hka
      have oa := node_ok H2 ha hka
      have ob := node_ok H2 hb hkb
      cases hs with
      | call rnd op res hop hco _ hns hpn _ hcall _ hpn' hcs =>
        obtain ⟨_, hse, hhs⟩ := call_more H2 ha hka hop hco hns hpn hcall
        rcases hse with c | c | ⟨j, c, ho⟩
        · rw [c.storeLog]
          intro h2
          have h3 := is h2
          rcases hhs with d | ⟨j, rfl, d⟩ | ⟨_, d2⟩
          · rw [d]; exact h3
          · rcases commitApply_hs_cond hcall with e | ⟨e1, e2⟩
            · rw [e]; exact h3
            · rw [e1]
              have : stb.raft.raftLog.store.firstIndex = stk.raft.raftLog.store.firstIndex := by
                unfold MemStorage.firstIndex; rw [c.1, c.2]
              rw [this] at e2
              show stk.raft.raftLog.store.firstIndex - 1 ≤ j
              omega
          · rw [d2]; exact h3
        · subst c
          obtain ⟨u1, _, u3, _⟩ := stabilize_out oa.inv hpn hcall
          have heq := abs_eq_storeLog ob.inv hpn' u1
          have hcm : stb.raft.raftLog.store.hardState.commit =
              stk.raft.raftLog.store.hardState.commit := by
            rcases hhs with d | ⟨j, d, _⟩ | ⟨_, d⟩
            · rw [d]
            · cases d
            · exact d
          rw [← heq, u3, hcm, ← oa.sidx hpn]
          exact is
        · cases c
          rw [ho.sto, ho.hs]
          rcases compactTo_none (storeLog stk.raft.raftLog.store) (j - 1) with c | ⟨c1, c2⟩
          · rw [c]; exact is
          · intro _; rw [c1]; have := hcs j rfl; omega
      | snap rnd m hm _ hty hpn hout _ =>
        cases hout with
        | skip hr =>
          have e : stb.raft.raftLog = stk.raft.raftLog := by rw [hr]
          rw [e]; exact is
        | handled x _ _ _ _ _ _ _ _ _ hsto _ => rw [hsto]; exact is
      | psnap rnd _ hout _ _ =>
        cases hout with
        | noop hr =>
          have e : stb.raft.raftLog = stk.raft.raftLog := by rw [hr]
          rw [e]; exact is
        | done sn L hp0 hr _ _ _ _ _ _ hents hmeta hhs =>
          intro _
          have hsl : storeLog stb.raft.raftLog.store =
              { snapIdx := sn.metadata.index, snapTerm := some sn.metadata.term, ents := [] } := by
            rw [hr]; exact storeLog_snap hents hmeta
          rw [hsl, hr]
          show sn.metadata.index ≤ L.store.hardState.commit
          rw [hhs]
          exact Nat.le_refl _
      | send _ _ _ hsame _ _ => rw [hsame.1]; exact is
      | restart c rnd hboot _ _ =>
        have hbt := CV.boot_booted c _ rnd stb hboot
        obtain ⟨_, _, hsl⟩ := boot_log c _ rnd stb oa.inv.storeWF hboot
        rw [hsl, hbt.hs]; exact is
    · rw [hoth v hvk] at hvb
      exact ih v stb hvb

/-- a pending snapshot is all there is of the logical log, at the commit index -/
theorem pend_ok (H : Hyp3a cfg c0 h) : ∀ (n : Nat) (s : Sys), h[n]? = some s →
    ∀ v st sn, s.node v = some st → st.raft.raftLog.unstable.snapshot = some sn →
      st.raft.raftLog.unstable.entries = [] ∧ st.raft.raftLog.committed = sn.metadata.index ∧
      c0 < sn.metadata.index ∧ st.raft.raftLog.persisted ≤ sn.metadata.index := by
  have H2 := H.toHyp2w
  refine hist_induct h _ ?_ ?_
  · intro s h0 v st sn hv hp
    rw [H.pend0 s h0 v st hv] at hp; cases hp
  · intro n a b ha hb ih v stb sn hvb hp
    obtain ⟨k, stk, stk', hka, hkb, hoth, hs⟩ := H2.stp ha hb
    by_cases hvk : v = k
    · subst hvk
      rw [hkb] at hvb; cases hvb
      cases hs with
      | call _ _ _ _ _ _ _ _ _ _ _ hpn' _ => rw [hpn'] at hp; cases hp
      | snap rnd m hm _ hty hpn hout _ =>
        cases hout with
        | skip hr => rw [hr] at hp; rw [hpn] at hp; cases hp
        | handled x _ _ _ _ _ _ _ _ _ hsto hcase =>
          cases hcase with
          | kept hu _ _ _ => rw [hu, hpn] at hp; cases hp
          | ffwd hu _ _ _ _ _ _ => rw [hu, hpn] at hp; cases hp
          | restored hle _ hu hc hper _ =>
            rw [hu] at hp ⊢
            have : m.snapshot = sn := by
              have : some m.snapshot = some sn := hp
              cases this; rfl
            subst this
            refine ⟨rfl, hc, H.snapidx a (mem_of_get ha) m hm hty, ?_⟩
            rw [hper]
            split <;> omega
      | psnap rnd _ hout _ _ =>
        cases hout with
        | noop hr => rw [hr] at hp ⊢; exact ih v stk sn hka hp
        | done sn' L _ hr _ _ _ _ hus _ _ _ _ => rw [hr] at hp; rw [hus] at hp; cases hp
      | send _ _ _ hsame _ _ => rw [hsame.1] at hp ⊢; exact ih v stk sn hka hp
      | restart c rnd hboot _ hpn' => rw [hpn'] at hp; cases hp
    · rw [hoth v hvk] at hvb
      exact ih v stb sn hvb hp

end Snap5
end Cluster
end RaftModel
