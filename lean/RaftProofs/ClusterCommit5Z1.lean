import RaftProofs.ClusterCommit5Z

/-!
Cluster-level commit safety **with `batch_append`**, part 5Z1: `nolone` (no joint quorum fits into one
node) implies C05d's `MultiVoter` (two different voters), so the bundles above `Hyp2wB` need not ask for
it separately.
-/
namespace RaftModel
namespace ClusterB
open Cluster

theorem isQuorum_of_subset {vs Q : List Nat} (hne : vs ≠ []) (hsub : ∀ v ∈ vs, v ∈ Q) :
    IsQuorum vs Q := by
  unfold IsQuorum majority
  have hc : vs.countP (fun v => decide (v ∈ Q)) = vs.length := by
    rw [List.countP_eq_length]
    intro v hv
    exact decide_eq_true (hsub v hv)
  rw [hc]
  have : 0 < vs.length := List.length_pos_iff.2 hne
  omega

/-- **`nolone` implies `MultiVoter`** -/
theorem multiVoter_of_nolone {cfg : JointConfig}
    (hnl : ∀ i Q, IsJointQuorum cfg Q → ∃ k ∈ Q, k ≠ i) : MultiVoter cfg := by
  have hQ : IsJointQuorum cfg (cfg.incoming ++ cfg.outgoing) :=
    ⟨fun hne => isQuorum_of_subset hne (fun v hv => List.mem_append_left _ hv),
     fun hne => isQuorum_of_subset hne (fun v hv => List.mem_append_right _ hv)⟩
  have hc : ∀ k, k ∈ cfg.incoming ++ cfg.outgoing → Joint.contains cfg k = true := by
    intro k hk
    unfold Joint.contains
    rcases List.mem_append.1 hk with c | c
    · simp [c]
    · simp [c]
  obtain ⟨a, ha, _⟩ := hnl 0 _ hQ
  obtain ⟨b, hb, hab⟩ := hnl a _ hQ
  exact ⟨a, b, fun e => hab e.symm, hc a ha, hc b hb⟩

end ClusterB
end RaftModel
