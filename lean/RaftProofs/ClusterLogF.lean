import RaftProofs.ClusterLogE

/-!
Cluster-level Log Matching, helper lemmas part F: role and term transitions of one call (`RT`): the
term never decreases; a node that is candidate of term `t` afterwards was candidate of `t` before or
had a smaller term; a node that is leader of `t` afterwards was leader or candidate of `t` before or
had a smaller term.  (So: once a node has left the candidate / leader roles of a term it can never
lead that term again without a restart.)
-/
namespace RaftModel
namespace Raft

structure RT (a r : Raft) : Prop where
  le : a.term ≤ r.term
  cand : r.state = .candidate → a.term < r.term ∨ (a.term = r.term ∧ a.state = .candidate)
  lead : r.state = .leader →
    a.term < r.term ∨ (a.term = r.term ∧ (a.state = .candidate ∨ a.state = .leader))

theorem RT.rfl {r : Raft} : RT r r :=
  ⟨Nat.le_refl _, fun h => .inr ⟨Eq.refl _, h⟩, fun h => .inr ⟨Eq.refl _, .inr h⟩⟩

theorem RT.ts {a r r' : Raft} (h0 : RT a r) (ht : r'.term = r.term) (hs : r'.state = r.state) :
    RT a r' :=
  ⟨by rw [ht]; exact h0.le, by rw [ht, hs]; exact h0.cand, by rw [ht, hs]; exact h0.lead⟩

theorem RT.frame {a r r' : Raft} (h0 : RT a r) (hf : Frame r r') : RT a r' :=
  h0.ts hf.term hf.state

/-- any state reached with a term not smaller, in the follower or pre-candidate role -/
theorem RT.quiet {a r r' : Raft} (h0 : RT a r) (ht : r.term ≤ r'.term)
    (hs : r'.state = .follower ∨ r'.state = .preCandidate) : RT a r' :=
  ⟨Nat.le_trans h0.le ht,
   fun h => (by rcases hs with hs | hs <;> rw [hs] at h <;> cases h),
   fun h => (by rcases hs with hs | hs <;> rw [hs] at h <;> cases h)⟩

theorem RT.raised {a r r' : Raft} (h0 : RT a r) (ht : r.term < r'.term) : RT a r' :=
  ⟨(by have := h0.le; omega), fun _ => .inl (by have := h0.le; omega),
   fun _ => .inl (by have := h0.le; omega)⟩

/-- from the candidate or leader role to the leader role at the same term -/
theorem RT.win {a r r' : Raft} (h0 : RT a r) (hs : r.state = .candidate ∨ r.state = .leader)
    (ht : r'.term = r.term) (hl : r'.state = .leader) : RT a r' := by
  refine ⟨(by rw [ht]; exact h0.le), fun h => (by rw [hl] at h; cases h), fun _ => ?_⟩
  rw [ht]
  rcases hs with hs | hs
  · rcases h0.cand hs with c | ⟨c1, c2⟩
    · exact .inl c
    · exact .inr ⟨c1, .inl c2⟩
  · exact h0.lead hs

theorem becomeFollower_rt {a r : Raft} (t l : Nat) (h0 : RT a r) (ht : r.term ≤ t) :
    RT a (r.becomeFollower t l) :=
  h0.quiet (by rw [(becomeFollower_term_vote r t l).1]; exact ht)
    (.inl (RaftProps.C16.becomeFollower_proj r t l).1)

theorem becomeFollower_same_rt {a r : Raft} (l : Nat) (h0 : RT a r) :
    RT a (r.becomeFollower r.term l) := becomeFollower_rt _ _ h0 (Nat.le_refl _)

theorem becomeLeader_rt {a r r' : Raft} (h : r.becomeLeader = .ok r') (h0 : RT a r)
    (hs : r.state ≠ .preCandidate) : RT a r' := by
  obtain ⟨h1, h2⟩ := RaftProps.C16.becomeLeader_term h
  have hnf : r.state ≠ .follower := by
    intro hc
    unfold Raft.becomeLeader at h
    rw [if_pos hc] at h
    cases h
  refine h0.win ?_ h1 h2
  cases hst : r.state
  · exact absurd hst hnf
  · exact .inl rfl
  · exact .inr rfl
  · exact absurd hst hs

theorem pollWith_rt {a r r' : Raft} {onPreWin : Raft → Res Raft} {frm : Nat} {t : MsgType}
    {v : Bool} {res : VoteResult}
    (hpre : ∀ r r', RT a r → onPreWin r = .ok r' → RT a r')
    (h0 : RT a r) (h : pollWith onPreWin r frm t v = .ok (r', res)) : RT a r' := by
  unfold Raft.pollWith at h
  simp only at h
  generalize hres : (r.prs.recordVote frm v).tallyVotes.2.2 = res0 at h
  have h0' : RT a ({ r with prs := r.prs.recordVote frm v } : Raft) := h0.frame (by frame_triv)
  cases res0 with
  | won =>
    simp only at h
    split at h
    · rw [Res.bind_eq_ok_iff] at h
      obtain ⟨r2, h1, h2⟩ := h
      cases h2
      exact hpre _ _ h0' h1
    · rename_i hpc
      rw [Res.bind_eq_ok_iff] at h
      obtain ⟨r2, h1, h2⟩ := h
      cases h2
      rw [Res.bind_eq_ok_iff] at h1
      obtain ⟨r3, h3, h4⟩ := h1
      exact (becomeLeader_rt h3 h0' hpc).frame (bcastAppend_frame h4 Frame.rfl)
  | lost =>
    simp only at h
    cases h
    exact becomeFollower_same_rt 0 h0'
  | pending =>
    simp only at h
    cases h
    exact h0'

theorem campaignWith_rt {a r r' : Raft}
    {poll : Raft → Nat → MsgType → Bool → Res (Raft × VoteResult)} {ct : CampaignType}
    (hpoll : ∀ r frm t v r' res, RT a r → poll r frm t v = .ok (r', res) → RT a r')
    (h0 : RT a r) (h : campaignWith poll r ct = .ok r') : RT a r' := by
  unfold Raft.campaignWith at h
  rw [Res.bind_eq_ok_iff] at h
  obtain ⟨⟨r1, vm, t⟩, h1, h2⟩ := h
  have hl1 : RT a r1 := by
    split at h1
    · rw [Res.bind_eq_ok_iff] at h1
      obtain ⟨r0, h3, h4⟩ := h1
      split at h4
      · cases h4
      · cases h4
        have := RaftProps.C16.becomePreCandidate_proj h3
        subst this
        exact h0.quiet (Nat.le_refl _) (.inr rfl)
    · rw [Res.bind_eq_ok_iff] at h1
      obtain ⟨r0, h3, h4⟩ := h1
      cases h4
      obtain ⟨e1, _, _⟩ := RaftProps.C16.becomeCandidate_proj h3
      exact h0.raised (by omega)
  simp only at h2
  rw [Res.bind_eq_ok_iff] at h2
  obtain ⟨⟨r2, res⟩, h5, h6⟩ := h2
  simp only at h6
  have hl2 := hpoll _ _ _ _ _ _ hl1 h5
  split at h6
  · cases h6; exact hl2
  · exact hl2.frame (RaftProps.C16.sendVoteRequests_frame h6 Frame.rfl)

theorem campaignAfterPreVote_rt {a r r' : Raft} (h0 : RT a r)
    (h : r.campaignAfterPreVote = .ok r') : RT a r' := by
  unfold Raft.campaignAfterPreVote at h
  refine campaignWith_rt ?_ h0 h
  intro r1 frm t v r2 res hl hp
  exact pollWith_rt (fun _ _ _ hc => by cases hc) hl hp

theorem poll_rt {a r r' : Raft} {frm : Nat} {t : MsgType} {v : Bool} {res : VoteResult}
    (h0 : RT a r) (h : r.poll frm t v = .ok (r', res)) : RT a r' := by
  unfold Raft.poll at h
  exact pollWith_rt (fun _ _ hl hc => campaignAfterPreVote_rt hl hc) h0 h

theorem campaign_rt {a r r' : Raft} {ct : CampaignType} (h0 : RT a r)
    (h : r.campaign ct = .ok r') : RT a r' := by
  unfold Raft.campaign at h
  exact campaignWith_rt (fun _ _ _ _ _ _ hl hp => poll_rt hl hp) h0 h

theorem hup_rt {a r r' : Raft} {tl : Bool} (h0 : RT a r) (h : r.hup tl = .ok r') : RT a r' := by
  unfold Raft.hup at h
  split at h
  · cases h; exact h0
  · split at h
    · cases h; exact h0
    · split at h
      · cases h
      · cases h
      · cases h; exact h0
      · split at h
        · cases h; exact h0
        · split at h
          · exact campaign_rt h0 h
          · split at h
            · exact campaign_rt h0 h
            · exact campaign_rt h0 h

theorem maybeCommitByVote_rt {a r r' : Raft} {m : Message} (h : r.maybeCommitByVote m = .ok r')
    (h0 : RT a r) : RT a r' := by
  rcases RaftProps.C16.maybeCommitByVote_cases h Frame.rfl with c | c
  · exact h0.frame c
  · exact h0.quiet (by rw [c.term]; exact Nat.le_refl _) (.inl c.state)

theorem stepVote_rt {a r r' : Raft} {m : Message} (h : r.stepVote m = .ok r') (h0 : RT a r) :
    RT a r' := by
  have ho := (RaftProps.C16.stepVote_outcome h).1
  rcases ho.role with ⟨c1, _⟩ | ⟨_, c2, _⟩
  · exact ⟨by rw [ho.term]; exact h0.le, by rw [ho.term, c1]; exact h0.cand,
      by rw [ho.term, c1]; exact h0.lead⟩
  · exact h0.quiet (by rw [ho.term]; exact Nat.le_refl _) (.inl c2)

theorem stepTerm_rt {a r r' : Raft} {m : Message} {b : Bool} (h : r.stepTerm m = .ok (r', b))
    (h0 : RT a r) : RT a r' := by
  rcases RaftProps.C16.stepTerm_cases h with c | ⟨c, _, _, _, _, l, c2⟩
  · exact h0.frame c
  · rw [c2]; exact becomeFollower_rt _ _ h0 (by omega)

theorem stepLeader_rt {a r r' : Raft} {m : Message} {e : Option RaftError}
    (h : r.stepLeader m = .ok (r', e)) (h0 : RT a r) : RT a r' := by
  have key : Frame r r' → RT a r' := fun hf => h0.frame hf
  unfold Raft.stepLeader at h
  split at h
  · apply key; frame_auto h [bcastHeartbeat_frame]
  · simp only [Raft.checkQuorumActive] at h
    cases hq : (r.prs.quorumRecentlyActive r.id).2
    · simp only [hq, Bool.not_false, if_true] at h
      cases h
      exact becomeFollower_same_rt (r := { r with prs := _ }) 0 (h0.frame (by frame_triv))
    · simp only [hq, Bool.not_true, Bool.false_eq_true, if_false] at h
      cases h; exact h0.frame (by frame_triv)
  · apply key
    frame_auto h [appendEntry_frame, bcastAppend_frame, filterProposal_frame]
  · apply key
    frame_auto h [handleReadyReadIndex_frame, send_frame, bcastHeartbeatWithCtx_frame]
  · apply key
    frame_auto h [handleAppendResponse_frame]
  · apply key
    frame_auto h [handleHeartbeatResponse_frame]
  · cases h; exact key (handleSnapshotStatus_frame Frame.rfl)
  · cases h; exact key (handleUnreachable_frame Frame.rfl)
  · apply key
    frame_auto h [handleTransferLeader_frame]
  · cases h; exact h0

theorem stepFollower_rt {a r r' : Raft} {m : Message} {e : Option RaftError}
    (hs : r.state = .follower) (h : r.stepFollower m = .ok (r', e)) (h0 : RT a r) : RT a r' := by
  have key : Frame r r' → RT a r' := fun hf => h0.frame hf
  unfold Raft.stepFollower at h
  split at h
  · apply key; frame_auto h [send_frame]
  · rw [Res.bind_eq_ok_iff] at h
    obtain ⟨r1, h1, h2⟩ := h
    cases h2
    have hf := handleAppendEntries_frame h1 Frame.rfl
    exact h0.ts hf.term hf.state
  · rw [Res.bind_eq_ok_iff] at h
    obtain ⟨r1, h1, h2⟩ := h
    cases h2
    have hf := handleHeartbeat_frame h1 Frame.rfl
    exact h0.ts hf.term hf.state
  · rw [Res.bind_eq_ok_iff] at h
    obtain ⟨r1, h1, h2⟩ := h
    cases h2
    have hf := handleSnapshot_frame (by exact hs) h1 Frame.rfl
    exact h0.ts hf.term hf.state
  · apply key; frame_auto h [send_frame]
  · split at h
    · rw [Res.bind_eq_ok_iff] at h
      obtain ⟨r1, h1, h2⟩ := h
      cases h2
      exact hup_rt h0 h1
    · cases h; exact h0
  · apply key; frame_auto h [send_frame]
  · split at h
    · simp only [] at h
      split at h
      · cases h; exact key (by frame_triv)
      · cases h
      · cases h
    · cases h; exact h0
  · cases h; exact h0

theorem stepCandidate_rt {a r r' : Raft} {m : Message} {e : Option RaftError}
    (h : r.stepCandidate m = .ok (r', e)) (h0 : RT a r) : RT a r' := by
  have hbf : ∀ l, r.term = m.term → RT a (r.becomeFollower m.term l) := by
    intro l ht; rw [← ht]; exact becomeFollower_same_rt l h0
  have hfs : ∀ l, (r.becomeFollower m.term l).state = .follower :=
    fun l => (RaftProps.C16.becomeFollower_proj r m.term l).1
  unfold Raft.stepCandidate at h
  split at h
  · cases h; exact h0
  · split at h
    · cases h
    · rename_i ht
      have ht' : r.term = m.term := Classical.byContradiction (fun hc => ht hc)
      rw [Res.bind_eq_ok_iff] at h
      obtain ⟨r1, h1, h2⟩ := h
      cases h2
      exact (hbf _ ht').frame (handleAppendEntries_frame h1 Frame.rfl)
  · split at h
    · cases h
    · rename_i ht
      have ht' : r.term = m.term := Classical.byContradiction (fun hc => ht hc)
      rw [Res.bind_eq_ok_iff] at h
      obtain ⟨r1, h1, h2⟩ := h
      cases h2
      exact (hbf _ ht').frame (handleHeartbeat_frame h1 Frame.rfl)
  · split at h
    · cases h
    · rename_i ht
      have ht' : r.term = m.term := Classical.byContradiction (fun hc => ht hc)
      rw [Res.bind_eq_ok_iff] at h
      obtain ⟨r1, h1, h2⟩ := h
      cases h2
      exact (hbf _ ht').frame (handleSnapshot_frame (hfs _) h1 Frame.rfl)
  all_goals
    first
    | (cases h; exact h0)
    | (split at h
       · cases h; exact h0
       · split at h
         · cases h; exact h0
         · rw [Res.bind_eq_ok_iff] at h
           obtain ⟨⟨r1, res⟩, h1, h2⟩ := h
           simp only [] at h2
           rw [Res.bind_eq_ok_iff] at h2
           obtain ⟨r2, h3, h4⟩ := h2
           cases h4
           exact maybeCommitByVote_rt h3 (poll_rt h0 h1))

/-- **`Raft::step`: role and term transitions** -/
theorem step_rt {r r' : Raft} {m : Message} {e : Option RaftError}
    (h : r.step m = .ok (r', e)) : RT r r' := by
  unfold Raft.step at h
  split at h
  · cases h
  · cases h
  · rename_i r1 ht
    cases h
    exact stepTerm_rt ht RT.rfl
  · rename_i r1 ht
    have hl1 : RT r r1 := stepTerm_rt ht RT.rfl
    split at h
    · rw [Res.bind_eq_ok_iff] at h
      obtain ⟨r2, h1, h2⟩ := h
      cases h2
      exact hup_rt hl1 h1
    · split at h
      · rename_i r2 hv
        cases h; exact stepVote_rt hv hl1
      · cases h
      · cases h
    · split at h
      · rename_i r2 hv
        cases h; exact stepVote_rt hv hl1
      · cases h
      · cases h
    · split at h
      · exact stepCandidate_rt h hl1
      · exact stepCandidate_rt h hl1
      · rename_i hst
        exact stepFollower_rt hst h hl1
      · exact stepLeader_rt h hl1

theorem stepIgnore_rt {r r' : Raft} {m : Message} (h : r.stepIgnore m = .ok r') : RT r r' := by
  unfold Raft.stepIgnore at h
  obtain ⟨⟨r1, e⟩, hs, h⟩ := Res.bind_eq_ok h
  cases h
  exact step_rt hs

theorem RT.trans {a b c : Raft} (h1 : RT a b) (h2 : RT b c) : RT a c := by
  refine ⟨Nat.le_trans h1.le h2.le, fun hc => ?_, fun hc => ?_⟩
  · rcases h2.cand hc with d | ⟨d1, d2⟩
    · left; have := h1.le; omega
    · rcases h1.cand d2 with e | ⟨e1, e2⟩
      · left; omega
      · right; exact ⟨e1.trans d1, e2⟩
  · rcases h2.lead hc with d | ⟨d1, d2⟩
    · left; have := h1.le; omega
    · rcases d2 with d2 | d2
      · rcases h1.cand d2 with e | ⟨e1, e2⟩
        · left; omega
        · right; exact ⟨e1.trans d1, .inl e2⟩
      · rcases h1.lead d2 with e | ⟨e1, e2⟩
        · left; omega
        · right; exact ⟨e1.trans d1, e2⟩

/-- a start state that differs in fields `RT` does not read -/
theorem RT.rebase {a r r' : Raft} (h : RT r r') (hs : r.state = a.state) (ht : r.term = a.term) :
    RT a r' := by
  refine ⟨by rw [← ht]; exact h.le, ?_, ?_⟩
  · rw [← ht, ← hs]; exact h.cand
  · rw [← ht, ← hs]; exact h.lead

theorem tick_rt {r r' : Raft} {b : Bool} (h : r.tick = .ok (r', b)) : RT r r' := by
  unfold Raft.tick at h
  have hel : r.tickElection = .ok (r', b) → RT r r' := by
    intro hel
    unfold Raft.tickElection at hel
    simp only at hel
    split at hel
    · cases hel; exact RT.rfl.frame (by frame_triv)
    · obtain ⟨r3, h3, hel⟩ := Res.bind_eq_ok hel
      cases hel
      exact (stepIgnore_rt h3).rebase rfl rfl
  split at h
  · exact hel h
  · exact hel h
  · exact hel h
  · unfold Raft.tickHeartbeat at h
    simp only at h
    obtain ⟨⟨r1, b1⟩, h1, h⟩ := Res.bind_eq_ok h
    have hl1 : RT r r1 := by
      split at h1
      · obtain ⟨⟨r2, b2⟩, h2, h1⟩ := Res.bind_eq_ok h1
        have hl2 : RT r r2 := by
          split at h2
          · obtain ⟨r3, h3, h2⟩ := Res.bind_eq_ok h2
            cases h2
            exact (stepIgnore_rt h3).rebase rfl rfl
          · cases h2; exact RT.rfl.frame (by frame_triv)
        simp only at h1
        split at h1
        · cases h1; exact hl2.frame (by unfold Raft.abortLeaderTransfer; frame_triv)
        · cases h1; exact hl2
      · cases h1; exact RT.rfl.frame (by frame_triv)
    simp only at h
    split at h
    · cases h; exact hl1
    · split at h
      · obtain ⟨r3, h3, h⟩ := Res.bind_eq_ok h
        cases h
        exact hl1.trans ((stepIgnore_rt h3).rebase rfl rfl)
      · cases h; exact hl1

theorem postConfChange_rt {r r' : Raft} {cs : ConfState}
    (h : r.postConfChange = .ok (r', cs)) : RT r r' := by
  unfold Raft.postConfChange at h
  simp only at h
  split at h
  · cases h
    exact becomeFollower_same_rt (r := { r with promotable := _ }) 0 (RT.rfl.frame (by frame_triv))
  · split at h
    · cases h; exact RT.rfl.frame (by frame_triv)
    · refine RT.rfl.frame ?_
      obtain ⟨r1, hr1, h⟩ := Res.bind_eq_ok h
      have h1 : Frame r r1 := by
        split at hr1
        · rename_i r3 hm
          exact bcastAppend_frame hr1 (maybeCommit_frame hm (by frame_triv))
        · rename_i r3 hm
          refine forEachPeer_frame ?_ hr1 (maybeCommit_frame hm (by frame_triv))
          intro r id pr r' pr' hh hh0
          frame_auto hh [maybeSendAppend_frame]
        · cases hr1
        · cases hr1
      obtain ⟨r2, hr2, h⟩ := Res.bind_eq_ok h
      have h2 : Frame r r2 := by
        have h0 := h1
        frame_auto hr2 [respondReadStates_frame]
      have h0 := h2
      frame_auto h [send_frame]

theorem applyConfChange_rt {r r' : Raft} {cc : ConfChangeV2} {res : Except ErrKind ConfState}
    (h : r.applyConfChange cc = .ok (r', res)) : RT r r' := by
  unfold Raft.applyConfChange at h
  frame_dec h
  all_goals first
    | exact RT.rfl
    | (rename_i a hx; exact RT.rebase (r := { r with prs := _ }) (postConfChange_rt (cs := a.2) hx) rfl rfl)

end Raft
end RaftModel
