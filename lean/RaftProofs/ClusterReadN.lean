import RaftProofs.ClusterReadM
import RaftProofs.ClusterCommit3H

/-!
Cluster-level ReadIndex safety, part N: **a concrete history** (kernel-evaluated) that satisfies every
hypothesis of the read layer (`RdHyp`) and in which a leader answers a `read_index` request after a
heartbeat round.

The history of `C01_cluster_nonvacuous` (voters 1, 2, 3; node 1 leads term 1 and has committed index 1
with node 2's acknowledgement) continued by five steps: `read_index([7])` on node 1 (registered with
read index 1, heartbeats with the context are queued), node 1 hands its queue to the transport, node 2 is
delivered the heartbeat and queues its response, node 2 hands its queue to the transport, node 1 is
delivered the response — the acknowledgements `{1, 2}` are a quorum — and produces the read state
`([7], 1)`.
-/
namespace RaftModel
namespace Cluster
open Node Raft Raft.CC Raft.RD RaftProps.C02 RaftProps.C05

def c08x_ctx : Bytes := [7]
def c08x_a9 := c02x_st (Node.call c01x_a8 none (.readIndex c08x_ctx))
def c08x_a10 := c02x_st (Node.call c08x_a9 none .drain)
/-- the heartbeat for node 2 that carries the context -/
def c08x_hb := (c08x_a9.raft.msgs.filter (fun x => x.msgType == .msgHeartbeat && x.to == 2)).head!
def c08x_b7 := c02x_st (Node.call c01x_b6 none (.step c08x_hb))
def c08x_b8 := c02x_st (Node.call c08x_b7 none .drain)
/-- node 2's heartbeat response -/
def c08x_hbr := c08x_b7.raft.msgs.head!
def c08x_a11 := c02x_st (Node.call c08x_a10 none (.step c08x_hbr))

def c08x_s15 : Sys := c01x_s14.setNode 1 c08x_a9
def c08x_s16 : Sys :=
  { (c08x_s15.setNode 1 c08x_a10) with net := c08x_s15.net ++ c08x_a9.raft.msgs }
def c08x_s17 : Sys := c08x_s16.setNode 2 c08x_b7
def c08x_s18 : Sys :=
  { (c08x_s17.setNode 2 c08x_b8) with net := c08x_s17.net ++ c08x_b7.raft.msgs }
def c08x_s19 : Sys := c08x_s18.setNode 1 c08x_a11

def c08x_hist : List Sys :=
  c01x_hist ++ [c08x_s15, c08x_s16, c08x_s17, c08x_s18, c08x_s19]

theorem c08x_hb_mem : c08x_hb ∈ c08x_a9.raft.msgs :=
  (List.mem_filter.1 (c02x_head_mem _ (by decide))).1

set_option maxRecDepth 100000 in
theorem c08x_ksteps : Chained KStep c08x_hist := by
  refine ⟨?_, ?_, ?_, ?_, ?_, ?_, ?_, ?_, ?_, ?_, ?_, ?_, ?_, ?_, ?_, ?_, ?_, ?_, ?_, trivial⟩
  · exact KStep.call _ 1 (c02x_boot 1) c02x_a1 none .campaign _ rfl rfl
      (fun k hc => by cases hc) (fun k hc => by cases hc) (c02x_out _ (by decide))
  · exact KStep.call _ 1 c02x_a1 c02x_a2 none .stabilize _ rfl rfl
      (fun k hc => by cases hc) (fun k hc => by cases hc) (c02x_out _ (by decide))
  · exact KStep.send _ 1 c02x_a2 c02x_a3 rfl ⟨by decide, by decide⟩
      (fun _ => ⟨by decide, rfl⟩) rfl
  · exact KStep.deliver _ 2 (c02x_boot 2) c02x_b1 none c02x_req _ rfl
      (c02x_head_mem _ (by decide)) (by decide) (c02x_out _ (by decide))
  · exact KStep.call _ 2 c02x_b1 c02x_b2 none .stabilize _ rfl rfl
      (fun k hc => by cases hc) (fun k hc => by cases hc) (c02x_out _ (by decide))
  · exact KStep.send _ 2 c02x_b2 c02x_b3 rfl ⟨by decide, by decide⟩
      (fun _ => ⟨by decide, rfl⟩) rfl
  · exact KStep.deliver _ 1 c02x_a3 c02x_a4 none c02x_resp _ rfl
      (List.mem_append_right _ (c02x_head_mem _ (by decide))) (by decide) (c02x_out _ (by decide))
  · exact KStep.call _ 1 c02x_a4 c05x_a5 none .stabilize _ rfl rfl
      (fun k hc => by cases hc) (fun k hc => by cases hc) (c02x_out _ (by decide))
  · exact KStep.send _ 1 c05x_a5 c05x_a6 rfl ⟨by decide, by decide⟩
      (fun _ => ⟨by decide, rfl⟩) rfl
  · exact KStep.deliver _ 2 c02x_b3 c05x_b4 none c05x_app _ rfl
      (List.mem_append_right _ (c02x_head_mem _ (by decide))) (by decide) (c02x_out _ (by decide))
  · exact KStep.call _ 1 c05x_a6 c01x_a7 none (.onPersistEntries 1 1) _ rfl rfl
      (fun k hc => by cases hc) (fun k hc => by cases hc) (c02x_out _ (by decide))
  · exact KStep.call _ 2 c05x_b4 c01x_b5 none .stabilize _ rfl rfl
      (fun k hc => by cases hc) (fun k hc => by cases hc) (c02x_out _ (by decide))
  · exact KStep.send _ 2 c01x_b5 c01x_b6 rfl ⟨by decide, by decide⟩
      (fun _ => ⟨by decide, rfl⟩) rfl
  · exact KStep.deliver _ 1 c01x_a7 c01x_a8 none c01x_ack _ rfl
      (List.mem_append_right _ (c02x_head_mem _ (by decide))) (by decide) (c02x_out _ (by decide))
  -- the read
  · exact KStep.call _ 1 c01x_a8 c08x_a9 none (.readIndex c08x_ctx) _ rfl rfl
      (fun k hc => by cases hc) (fun k hc => by cases hc) (c02x_out _ (by decide))
  · exact KStep.send _ 1 c08x_a9 c08x_a10 rfl ⟨by decide, by decide⟩
      (fun hc => absurd (by decide) hc) rfl
  · exact KStep.deliver _ 2 c01x_b6 c08x_b7 none c08x_hb _ rfl
      (List.mem_append_right _ c08x_hb_mem) (by decide) (c02x_out _ (by decide))
  · exact KStep.send _ 2 c08x_b7 c08x_b8 rfl ⟨by decide, by decide⟩
      (fun _ => ⟨by decide, rfl⟩) rfl
  · exact KStep.deliver _ 1 c08x_a10 c08x_a11 none c08x_hbr _ rfl
      (List.mem_append_right _ (c02x_head_mem _ (by decide))) (by decide) (c02x_out _ (by decide))

theorem c08x_history : History c08x_hist := by
  have := chained_history [] c02x_s0 (History.init _ c02x_init) _
    (Chained.mono (fun _ _ hc => hc.step) _ c08x_ksteps)
  simpa [c08x_hist, c01x_hist, c05x_hist, c02x_hist] using this

/-- the state-wise hypotheses: those of the commit layer, `Safe`, no `MsgReadIndex` in the transport -/
def c08x_chk (s : Sys) : Bool :=
  c01x_chk s && s.nodes.all (fun p => decide (p.2.raft.readOnly.option = .safe)) &&
  s.net.all (fun x => decide (x.msgType ≠ .msgReadIndex))

set_option maxRecDepth 100000 in
theorem c08x_chk_all : ∀ s ∈ c08x_hist, c08x_chk s = true := by
  intro s hs
  simp only [c08x_hist, c01x_hist, c05x_hist, c02x_hist, List.cons_append, List.nil_append,
    List.mem_cons, List.not_mem_nil, or_false] at hs
  rcases hs with rfl | rfl | rfl | rfl | rfl | rfl | rfl | rfl | rfl | rfl | rfl | rfl | rfl |
    rfl | rfl | rfl | rfl | rfl | rfl | rfl <;> decide

theorem c08x_chk_ok (s : Sys) (h : c08x_chk s = true) :
    c01x_chk s = true ∧ (∀ i st, s.node i = some st → st.raft.readOnly.option = .safe) ∧
    ∀ x ∈ s.net, x.msgType ≠ .msgReadIndex := by
  unfold c08x_chk at h
  simp only [Bool.and_eq_true] at h
  obtain ⟨⟨h1, h2⟩, h3⟩ := h
  refine ⟨h1, fun i st hi => ?_, fun x hx => ?_⟩
  · rw [List.all_eq_true] at h2
    exact of_decide_eq_true (h2 _ (c02_lookup_mem s.nodes i st hi))
  · rw [List.all_eq_true] at h3
    exact of_decide_eq_true (h3 x hx)

set_option maxRecDepth 100000 in
/-- the history satisfies every hypothesis of the commit layer -/
theorem c08x_hyp3 : Hyp3 c02x_cfg 0 c08x_hist := by
  have h0 : c08x_hist[0]? = some c02x_s0 := rfl
  have hall := fun s hs => c01x_chk_ok s (c08x_chk_ok s (c08x_chk_all s hs)).1
  have hnode : ∀ s ∈ c08x_hist, ∀ i st, s.node i = some st →
      st.raft.raftLog.unstable.snapshot = none ∧ st.raft.raftLog.store.firstIndex = 1 ∧
      (st.raft.raftLog.abs.snapTerm = some 0 ∨ st.raft.raftLog.abs.snapTerm = none) := by
    intro s hs i st hi
    have := (hall s hs).2.2.2 i st hi
    unfold c01x_nodeOk at this
    simp only [Bool.and_eq_true, Bool.or_eq_true, decide_eq_true_eq, Option.isNone_iff_eq_none] at this
    exact ⟨this.1.1, this.1.2, this.2⟩
  refine ⟨⟨⟨⟨c08x_history, fun s hs => (hall s hs).1, by decide, by decide, by decide, ?_,
    chained_at _ c08x_ksteps, fun s hs => (hall s hs).2.1, fun s hs x hx => ((hall s hs).2.2.1 x hx).1⟩,
    c01x_nolone, fun s hs i st hi => ⟨(hnode s hs i st hi).1, (hnode s hs i st hi).2.1⟩, ?_⟩,
    fun s hs x hx => ((hall s hs).2.2.1 x hx).2.1⟩,
    fun s hs x hx => ((hall s hs).2.2.1 x hx).2.2, ?_⟩
  · intro s hs
    rw [h0] at hs; cases hs
    exact c05x_initOk
  · intro s hs i st hi
    rw [h0] at hs; cases hs
    have hm := c02_lookup_mem _ i st hi
    simp only [c02x_s0, List.mem_cons, Prod.mk.injEq, List.not_mem_nil, or_false] at hm
    rcases hm with ⟨rfl, rfl⟩ | ⟨rfl, rfl⟩ | ⟨rfl, rfl⟩ <;> decide
  · intro s hs i st hi t0 ht0 j st0 _
    rcases (hnode s (mem_of_get hs) i st hi).2.2 with c | c
    · rw [c] at ht0; cases ht0; exact Nat.zero_le _
    · rw [c] at ht0; cases ht0

/-! ### the registrations of the history -/

/-- every context pending at a node of `b` was pending at that node in `a` -/
def c08x_noReg (a b : Sys) : Bool :=
  b.nodes.all (fun p => p.2.raft.readOnly.pendingReadIndex.all (fun q =>
    match a.nodes.lookup p.1 with
    | some st => st.raft.readOnly.pendingReadIndex.any (fun q' => q'.1 == q.1)
    | none => true))

theorem c08x_noReg_ok {a b : Sys} (h : c08x_noReg a b = true) {i : Nat} {st st' : NState}
    {K : Bytes} (ha : a.node i = some st) (hb : b.node i = some st')
    (hnot : ∀ rs, (K, rs) ∉ st.raft.readOnly.pendingReadIndex)
    (hin : ∃ rs, (K, rs) ∈ st'.raft.readOnly.pendingReadIndex) : False := by
  obtain ⟨rs, hrs⟩ := hin
  unfold c08x_noReg at h
  rw [List.all_eq_true] at h
  have h1 := h _ (c02_lookup_mem b.nodes i st' hb)
  rw [List.all_eq_true] at h1
  have h2 := h1 _ hrs
  have ha' : a.nodes.lookup i = some st := ha
  simp only [ha'] at h2
  rw [List.any_eq_true] at h2
  obtain ⟨q', hq', he⟩ := h2
  have : q'.1 = K := by simpa using he
  exact hnot q'.2 (by rw [← this]; exact hq')

/-- all consecutive pairs but the one at position 14 (counted from `k`) register nothing -/
def c08x_pairs : Nat → List Sys → Bool
  | k, a :: b :: t => (k == 14 || c08x_noReg a b) && c08x_pairs (k + 1) (b :: t)
  | _, _ => true

theorem c08x_pairs_at : ∀ (l : List Sys) (k : Nat), c08x_pairs k l = true →
    ∀ (n : Nat) (a b : Sys), l[n]? = some a → l[n + 1]? = some b → k + n ≠ 14 →
      c08x_noReg a b = true := by
  intro l
  induction l with
  | nil => intro k _ n a b ha; simp at ha
  | cons x t ih =>
    intro k hk n a b ha hb hne
    cases t with
    | nil =>
      cases n with
      | zero => simp at hb
      | succ n => simp at ha
    | cons y t' =>
      simp only [c08x_pairs, Bool.and_eq_true, Bool.or_eq_true, beq_iff_eq] at hk
      cases n with
      | zero =>
        simp at ha hb
        subst ha; subst hb
        rcases hk.1 with c | c
        · omega
        · exact c
      | succ n =>
        exact ih (k + 1) hk.2 n a b (by simpa using ha) (by simpa using hb) (by omega)

set_option maxRecDepth 100000 in
theorem c08x_pairs_ok : c08x_pairs 0 c08x_hist = true := by decide

/-- every pending context of `s` is `c08x_ctx` -/
def c08x_keys (s : Sys) : Bool :=
  s.nodes.all (fun p => p.2.raft.readOnly.pendingReadIndex.all (fun q => q.1 == c08x_ctx))

set_option maxRecDepth 100000 in
theorem c08x_keys15 : c08x_keys c08x_s15 = true := by decide

/-- the only registration of the history: `read_index([7])` at step 14 -/
theorem c08x_reg_only {n i : Nat} {K : Bytes} (h : RegAt c08x_hist n i K) :
    n = 14 ∧ K = c08x_ctx := by
  obtain ⟨a, b, st, st', rnd, res, h1, h2, h3, h4, h5, h6, h7⟩ := h
  have hb' : b.node i = some st' := by rw [h5]; exact node_setNode_self a i st'
  by_cases hn : n = 14
  · refine ⟨hn, ?_⟩
    subst hn
    have e : c08x_hist[14 + 1]? = some c08x_s15 := rfl
    rw [e] at h2; cases h2
    obtain ⟨rs, hrs⟩ := h7
    have hk := c08x_keys15
    unfold c08x_keys at hk
    rw [List.all_eq_true] at hk
    have h1' := hk _ (c02_lookup_mem _ i st' hb')
    rw [List.all_eq_true] at h1'
    simpa using h1' _ hrs
  · exact (c08x_noReg_ok (c08x_pairs_at _ 0 c08x_pairs_ok n a b h1 h2 (by omega)) h3 hb' h6 h7).elim

/-- **the history satisfies every hypothesis of the read layer** -/
theorem c08x_rdhyp : RdHyp c02x_cfg 0 c08x_hist :=
  { toHyp3w := c08x_hyp3.toHyp3w
    norir := c08x_hyp3.toHyp2.norir
    safe := fun s hs => (c08x_chk_ok s (c08x_chk_all s hs)).2.1
    nori := fun s hs => (c08x_chk_ok s (c08x_chk_all s hs)).2.2
    uniq := fun n1 n2 _ _ _ h1 h2 => by rw [(c08x_reg_only h1).1, (c08x_reg_only h2).1]
    nonempty := fun _ _ _ h => by rw [(c08x_reg_only h).2]; decide }

set_option maxRecDepth 100000 in
/-- the `read_index([7])` call of step 14 on node 1 registers the request -/
theorem c08x_regAt : RegAt c08x_hist 14 1 c08x_ctx := by
  refine ⟨c01x_s14, c08x_s15, c01x_a8, c08x_a9, none, _, rfl, rfl, rfl,
    c02x_out _ (by decide), rfl, ?_, ⟨_, List.mem_singleton.2 rfl⟩⟩
  intro rs hrs
  have : c01x_a8.raft.readOnly.pendingReadIndex = [] := by decide
  rw [this] at hrs
  cases hrs

end Cluster
end RaftModel
