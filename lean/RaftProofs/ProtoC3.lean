import RaftProofs.ProtoCDefs

/-!
The **commit layer** of P, clause group `InvC3`: quorum evidence of every leader commit (`cq`), commit
soundness of every node's volatile / pending-image / durable state (`cm`, `cmi`, `cmd`) and of the
carriers of commit indexes (`capp`, `chb`, `csn`, `ccl`) hold initially and are preserved by every
event of P, given the full invariant of the pre-state.
-/
namespace RaftModel.P

/-! ### small helpers -/

theorem termAt_gt_len {l : List LEntry} {k : Nat} (h : l.length < k) : termAt l k = 0 := by
  unfold termAt
  split
  · rfl
  · rw [List.getElem?_eq_none (by omega)]

theorem termAt_ge_one {l : List LEntry} {k : Nat} (h0 : 0 < k) (hk : k ≤ l.length)
    (hl : ∀ e ∈ l, 1 ≤ e.term) : 1 ≤ termAt l k := by
  have hx : l[k - 1]? = some (l[k - 1]'(by omega)) := List.getElem?_eq_getElem (by omega)
  rw [termAt_pos h0 _ hx]
  exact hl _ (List.getElem_mem _)

/-- `maybe_append` under the guard of `recvApp` keeps the committed prefix -/
theorem mergeAt_take_commit (l es : List LEntry) (pos c : Nat) (hpos : pos ≤ l.length)
    (hg : conflictAt l pos es = 0 ∨ c < conflictAt l pos es) : (mergeAt l pos es).take c = l.take c := by
  have hp := mergeAt_prefix es l pos hpos
  rcases hg with h0 | hgt
  · rw [hp.1 h0]
  · exact take_of_take_eq (hp.2 (by omega)).2 (by omega)

theorem CmtPre.mono_term {s : PSys} {t t' k : Nat} {l : List LEntry} (h : CmtPre s t k l) (ht : t ≤ t') :
    CmtPre s t' k l := by
  rcases h with h | ⟨p, hp, h1, h2, h3⟩
  · exact Or.inl h
  · exact Or.inr ⟨p, hp, h1, by omega, h3⟩

/-! ### transport along a step: `cmts`/`acks` only grow, ghost logs change by `Grow` -/

theorem CmtPre.grow {s s' : PSys} {t k : Nat} {l : List LEntry} (h : CmtPre s t k l)
    (h3 : InvC3 s) (g : Grow s s') (hcs : ∀ p ∈ s.cmts, p ∈ s'.cmts) : CmtPre s' t k l := by
  rcases h with h | ⟨p, hp, h1, h2, h4⟩
  · exact Or.inl h
  · have hq := h3.cq p hp
    have hlen := hq.2.1
    refine Or.inr ⟨p, hcs p hp, h1, h2, ?_⟩
    rw [g.take_eq hq.2.2.2.1 (by omega)]; exact h4

/-- a prefix that agrees with the log of an elected leader of `t` up to an index covered by a commit of
a term not beyond `t` is a committed prefix -/
theorem CmtPre.of_cmtd {s : PSys} (hB : InvB s) (hC : InvC s) {t k : Nat} {l : List LEntry}
    (hc : Cmtd s t k) (hel : Elected s t) (hl : l.take k = (s.llog t).take k) : CmtPre s t k l := by
  rcases hc with h | ⟨p, hp, h1, h2⟩
  · exact Or.inl h
  · exact Or.inr ⟨p, hp, h1, h2, by rw [hl]; exact cmt_prefix_le hB hC.c3 hC.lc hp h2 hel h1⟩

/-- the general frame lemma: node `i` replaced by `n`, commits / acknowledgements / carriers extended,
ghost history grown (`hee` is the clause `ee` of `InvB`) -/
theorem invC3_gen (s s' : PSys) (h3 : InvC3 s) (hee : ∀ ec ∈ s.ecfgs, Elected s ec.1) (g : Grow s s')
    (i : Nat) (n : PNode)
    (hn : s'.nodes = upd s.nodes i n)
    (hcs : ∀ p ∈ s.cmts, p ∈ s'.cmts) (has : ∀ a ∈ s.acks, a ∈ s'.acks)
    (ge : ∀ t, Elected s t → s'.elog t = s.elog t)
    (hccs : ∀ x ∈ s.ccfgs, x ∈ s'.ccfgs)
    (hcc : s'.ccfgs.map (·.1) = s'.cmts)
    (hgd : ∀ pc ∈ s'.ccfgs, ∀ ec ∈ s'.ecfgs, pc.1.1 < ec.1 → (pc ∈ s.ccfgs ∧ ec ∈ s.ecfgs) ∨
        (adjOk pc.2 ec.2 = true ∨ (s'.elog ec.1).take pc.1.2 = (s'.llog pc.1.1).take pc.1.2))
    (hcq : ∀ p ∈ s'.cmts, p ∈ s.cmts ∨ (0 < p.2 ∧ p.2 ≤ (s'.llog p.1).length ∧
        termAt (s'.llog p.1) p.2 = p.1 ∧ Elected s' p.1 ∧
        ∃ cfg q, (p, cfg) ∈ s'.ccfgs ∧ cfg.isQuorum q = true ∧
          ∀ v ∈ q, ∃ a ∈ s'.acks, a.term = p.1 ∧ a.frm = v ∧ p.2 ≤ a.idx))
    (hcm : CmtPre s' n.term n.commit n.log)
    (hcmi : ∀ im ∈ n.pending, CmtPre s' im.term im.commit im.log)
    (hcmd : CmtPre s' n.dterm n.dcommit n.dlog)
    (happ : ∀ m ∈ s'.apps, m ∈ s.apps ∨ Cmtd s' m.term m.commit)
    (hhb : ∀ m ∈ s'.hbs, m ∈ s.hbs ∨ (Elected s' m.term ∧ Cmtd s' m.term m.commit ∧
        (m.commit = 0 ∨ ∃ a ∈ s'.acks, a.term = m.term ∧ a.frm = m.to ∧ m.commit ≤ a.idx)))
    (hsn : ∀ m ∈ s'.snaps, m ∈ s.snaps ∨ (Elected s' m.term ∧ Cmtd s' m.term m.idx ∧
        m.idx ≤ (s'.llog m.term).length ∧ m.pre = (s'.llog m.term).take m.idx ∧
        m.sterm = termAt (s'.llog m.term) m.idx))
    (hcl : ∀ m ∈ s'.claims, m ∈ s.claims ∨ (m.idx = 0 ∨ ∃ p ∈ s'.cmts, m.idx ≤ p.2 ∧ p.1 ≤ m.cterm ∧
        m.term = termAt (s'.llog p.1) m.idx)) : InvC3 s' := by
  have hnode : ∀ j, j ≠ i → s'.nodes j = s.nodes j := by intro j hj; rw [hn]; simp [upd, hj]
  have hnodei : s'.nodes i = n := by rw [hn]; simp [upd]
  have tr : ∀ t k l, CmtPre s t k l → CmtPre s' t k l := fun _ _ _ h => h.grow h3 g hcs
  have trd : ∀ t k, Cmtd s t k → Cmtd s' t k := fun _ _ h => h.mono hcs
  constructor
  · intro p hp
    rcases hcq p hp with hp' | hp'
    · obtain ⟨a1, a2, a3, a4, cfg, q, hpc, hq, hall⟩ := h3.cq p hp'
      refine ⟨a1, Nat.le_trans a2 (g.len_le a4), ?_, g.el _ a4, cfg, q, hccs _ hpc, hq, ?_⟩
      · rw [g.termAt_eq a4 a2]; exact a3
      · intro v hv
        obtain ⟨a, ha, h1⟩ := hall v hv
        exact ⟨a, has a ha, h1⟩
    · exact hp'
  · exact hcc
  · intro pc hpc ec hec hlt
    rcases hgd pc hpc ec hec hlt with ⟨h1, h2⟩ | h
    · rcases h3.gd pc h1 ec h2 hlt with a | a
      · exact Or.inl a
      · have hpm : pc.1 ∈ s.cmts := by
          rw [← h3.cc]; exact List.mem_map.2 ⟨pc, h1, rfl⟩
        have hq := h3.cq pc.1 hpm
        right
        rw [ge _ (hee ec h2), g.take_eq hq.2.2.2.1 hq.2.1]; exact a
    · exact h
  · intro j
    by_cases hj : j = i
    · subst hj; rw [hnodei]; exact hcm
    · rw [hnode j hj]; exact tr _ _ _ (h3.cm j)
  · intro j
    by_cases hj : j = i
    · subst hj; rw [hnodei]; exact hcmi
    · rw [hnode j hj]; exact fun im him => tr _ _ _ (h3.cmi j im him)
  · intro j
    by_cases hj : j = i
    · subst hj; rw [hnodei]; exact hcmd
    · rw [hnode j hj]; exact tr _ _ _ (h3.cmd j)
  · intro m hm
    rcases happ m hm with h | h
    · exact trd _ _ (h3.capp m h)
    · exact h
  · intro m hm
    rcases hhb m hm with h | h
    · obtain ⟨e1, e2, e3⟩ := h3.chb m h
      refine ⟨g.el _ e1, trd _ _ e2, ?_⟩
      rcases e3 with e3 | ⟨a, ha, e3⟩
      · exact Or.inl e3
      · exact Or.inr ⟨a, has a ha, e3⟩
    · exact h
  · intro m hm
    rcases hsn m hm with h | h
    · obtain ⟨e1, e2, e3, e4, e5⟩ := h3.csn m h
      refine ⟨g.el _ e1, trd _ _ e2, Nat.le_trans e3 (g.len_le e1), ?_, ?_⟩
      · rw [g.take_eq e1 e3]; exact e4
      · rw [g.termAt_eq e1 e3]; exact e5
    · exact h
  · intro m hm
    rcases hcl m hm with h | h
    · rcases h3.ccl m h with e | ⟨p, hp, e1, e2, e3⟩
      · exact Or.inl e
      · have hq := h3.cq p hp
        have hlen := hq.2.1
        exact Or.inr ⟨p, hcs p hp, e1, e2, by rw [g.termAt_eq hq.2.2.2.1 (by omega)]; exact e3⟩
    · exact h

/-- the frame lemma for a step that changes neither the leader commits nor the configuration ghosts nor
the election logs -/
theorem invC3_gen0 (s s' : PSys) (h3 : InvC3 s) (hee : ∀ ec ∈ s.ecfgs, Elected s ec.1) (g : Grow s s')
    (i : Nat) (n : PNode)
    (hn : s'.nodes = upd s.nodes i n)
    (hcs : ∀ p ∈ s.cmts, p ∈ s'.cmts) (has : ∀ a ∈ s.acks, a ∈ s'.acks)
    (hcq : ∀ p ∈ s'.cmts, p ∈ s.cmts ∨ (0 < p.2 ∧ p.2 ≤ (s'.llog p.1).length ∧
        termAt (s'.llog p.1) p.2 = p.1 ∧ Elected s' p.1 ∧
        ∃ cfg q, (p, cfg) ∈ s'.ccfgs ∧ cfg.isQuorum q = true ∧
          ∀ v ∈ q, ∃ a ∈ s'.acks, a.term = p.1 ∧ a.frm = v ∧ p.2 ≤ a.idx))
    (hcm : CmtPre s' n.term n.commit n.log)
    (hcmi : ∀ im ∈ n.pending, CmtPre s' im.term im.commit im.log)
    (hcmd : CmtPre s' n.dterm n.dcommit n.dlog)
    (happ : ∀ m ∈ s'.apps, m ∈ s.apps ∨ Cmtd s' m.term m.commit)
    (hhb : ∀ m ∈ s'.hbs, m ∈ s.hbs ∨ (Elected s' m.term ∧ Cmtd s' m.term m.commit ∧
        (m.commit = 0 ∨ ∃ a ∈ s'.acks, a.term = m.term ∧ a.frm = m.to ∧ m.commit ≤ a.idx)))
    (hsn : ∀ m ∈ s'.snaps, m ∈ s.snaps ∨ (Elected s' m.term ∧ Cmtd s' m.term m.idx ∧
        m.idx ≤ (s'.llog m.term).length ∧ m.pre = (s'.llog m.term).take m.idx ∧
        m.sterm = termAt (s'.llog m.term) m.idx))
    (hcl : ∀ m ∈ s'.claims, m ∈ s.claims ∨ (m.idx = 0 ∨ ∃ p ∈ s'.cmts, m.idx ≤ p.2 ∧ p.1 ≤ m.cterm ∧
        m.term = termAt (s'.llog p.1) m.idx))
    (hcmts : s'.cmts = s.cmts := by rfl) (hccfgs : s'.ccfgs = s.ccfgs := by rfl)
    (hecfgs : s'.ecfgs = s.ecfgs := by rfl) (helog : s'.elog = s.elog := by rfl) : InvC3 s' :=
  invC3_gen s s' h3 hee g i n hn hcs has (fun t _ => by rw [helog])
    (by rw [hccfgs]; exact fun x hx => hx) (by rw [hccfgs, hcmts]; exact h3.cc)
    (by rw [hccfgs, hecfgs]; exact fun pc hpc ec hec _ => Or.inl ⟨hpc, hec⟩)
    hcq hcm hcmi hcmd happ hhb hsn hcl

/-- the frame lemma for a step that changes node `i` only -/
theorem invC3_node (s s' : PSys) (h3 : InvC3 s) (hee : ∀ ec ∈ s.ecfgs, Elected s ec.1) (i : Nat) (n : PNode)
    (hn : s'.nodes = upd s.nodes i n) (hll : s'.llog = s.llog) (hel : s'.elected = s.elected)
    (hcmts : s'.cmts = s.cmts) (hacks : s'.acks = s.acks) (happs : s'.apps = s.apps)
    (hhbs : s'.hbs = s.hbs) (hsn : s'.snaps = s.snaps) (hcl : s'.claims = s.claims)
    (hcm : CmtPre s n.term n.commit n.log)
    (hcmi : ∀ im ∈ n.pending, CmtPre s im.term im.commit im.log)
    (hcmd : CmtPre s n.dterm n.dcommit n.dlog)
    (hccfgs : s'.ccfgs = s.ccfgs := by rfl) (hecfgs : s'.ecfgs = s.ecfgs := by rfl)
    (helog : s'.elog = s.elog := by rfl) : InvC3 s' := by
  have g : Grow s s' := Grow.refl' hll hel
  have hcs : ∀ p ∈ s.cmts, p ∈ s'.cmts := by rw [hcmts]; exact fun p hp => hp
  refine invC3_gen0 s s' h3 hee g i n hn hcs (by rw [hacks]; exact fun a ha => ha)
    (by rw [hcmts]; exact fun p hp => Or.inl hp) (hcm.grow h3 g hcs)
    (fun im him => (hcmi im him).grow h3 g hcs) (hcmd.grow h3 g hcs)
    (by rw [happs]; exact fun m hm => Or.inl hm) (by rw [hhbs]; exact fun m hm => Or.inl hm)
    (by rw [hsn]; exact fun m hm => Or.inl hm) (by rw [hcl]; exact fun m hm => Or.inl hm)
    hcmts hccfgs hecfgs helog

/-- releasing a message does not touch the clauses -/
theorem invC3_addReleased (s : PSys) (m : OMsg) (h3 : InvC3 s) (hee : ∀ ec ∈ s.ecfgs, Elected s ec.1) :
    InvC3 (addReleased s m) := by
  cases m with
  | voteReq t c lt li =>
    exact invC3_gen0 s _ h3 hee (Grow.refl' rfl rfl) 0 (s.nodes 0) (upd_self _ _).symm (fun p hp => hp)
      (fun a ha => ha) (fun p hp => Or.inl hp) (h3.cm 0) (h3.cmi 0) (h3.cmd 0) (fun m hm => Or.inl hm)
      (fun m hm => Or.inl hm) (fun m hm => Or.inl hm) (fun m hm => Or.inl hm)
  | grant t v c gh =>
    exact invC3_gen0 s _ h3 hee (Grow.refl' rfl rfl) 0 (s.nodes 0) (upd_self _ _).symm (fun p hp => hp)
      (fun a ha => ha) (fun p hp => Or.inl hp) (h3.cm 0) (h3.cmi 0) (h3.cmd 0) (fun m hm => Or.inl hm)
      (fun m hm => Or.inl hm) (fun m hm => Or.inl hm) (fun m hm => Or.inl hm)
  | ack t f idx pre =>
    exact invC3_gen0 s _ h3 hee (Grow.refl' rfl rfl) 0 (s.nodes 0) (upd_self _ _).symm (fun p hp => hp)
      (fun a ha => List.mem_cons_of_mem _ ha) (fun p hp => Or.inl hp) (h3.cm 0) (h3.cmi 0) (h3.cmd 0)
      (fun m hm => Or.inl hm) (fun m hm => Or.inl hm) (fun m hm => Or.inl hm) (fun m hm => Or.inl hm)

/-! ### initial state -/

theorem invC3_init (c0 : Cfg) : InvC3 init := by
  constructor
  · intro p hp; simp [init] at hp
  · rfl
  · intro pc hpc; simp [init] at hpc
  · intro i; exact Or.inl rfl
  · intro i im him; simp [init] at him
  · intro i; exact Or.inl rfl
  · intro m hm; simp [init] at hm
  · intro m hm; simp [init] at hm
  · intro m hm; simp [init] at hm
  · intro m hm; simp [init] at hm

/-! ### one lemma per event -/

section events
variable (s s' : PSys)

theorem invC3_bump (i t : Nat) (h : applyEvent s (.bump i t) = .ok s') (hB : InvB s) (hC : InvC s) : InvC3 s' := by
  simp only [applyEvent, ok] at h
  split at h
  · rename_i hg; cases h
    exact invC3_node s _ hC.c3 hB.ee i _ rfl rfl rfl rfl rfl rfl rfl rfl rfl
      ((hC.c3.cm i).mono_term (Nat.le_of_lt hg.2)) (hC.c3.cmi i) (hC.c3.cmd i)
  · cases h

theorem invC3_campaign (i : Nat) (h : applyEvent s (.campaign i) = .ok s') (hB : InvB s) (hC : InvC s) : InvC3 s' := by
  simp only [applyEvent, ok] at h
  split at h
  · cases h
    exact invC3_node s _ hC.c3 hB.ee i _ rfl rfl rfl rfl rfl rfl rfl rfl rfl
      (hC.c3.cm i) (hC.c3.cmi i) (hC.c3.cmd i)
  · cases h

theorem invC3_grant (i c : Nat) (h : applyEvent s (.grant i c) = .ok s') (hB : InvB s) (hC : InvC s) : InvC3 s' := by
  simp only [applyEvent, ok] at h
  split at h
  · split at h
    · cases h
      exact invC3_node s _ hC.c3 hB.ee i _ rfl rfl rfl rfl rfl rfl rfl rfl rfl
        (hC.c3.cm i) (hC.c3.cmi i) (hC.c3.cmd i)
    · cases h
  · cases h

theorem invC3_rdy (i : Nat) (h : applyEvent s (.rdy i) = .ok s') (hB : InvB s) (hC : InvC s) : InvC3 s' := by
  simp only [applyEvent, ok] at h
  split at h
  · cases h
    refine invC3_node s _ hC.c3 hB.ee i _ rfl rfl rfl rfl rfl rfl rfl rfl rfl
      (hC.c3.cm i) ?_ (hC.c3.cmd i)
    intro im him
    simp only [List.mem_append, List.mem_singleton] at him
    rcases him with him | him
    · exact hC.c3.cmi i im him
    · subst him; exact hC.c3.cm i
  · cases h

theorem invC3_persist (i k : Nat) (h : applyEvent s (.persist i k) = .ok s') (hB : InvB s) (hC : InvC s) : InvC3 s' := by
  simp only [applyEvent, ok] at h
  split at h
  · split at h
    · rename_i im him
      cases h
      have hmem : im ∈ (s.nodes i).pending := List.mem_of_getElem? him
      exact invC3_node s _ hC.c3 hB.ee i _ rfl rfl rfl rfl rfl rfl rfl rfl rfl
        (hC.c3.cm i) (fun x hx => hC.c3.cmi i x (List.mem_of_mem_drop hx)) (hC.c3.cmi i im hmem)
    · cases h
  · cases h

theorem invC3_release (i : Nat) (key : OMsg) (h : applyEvent s (.release i key) = .ok s') (hB : InvB s) (hC : InvC s) :
    InvC3 s' := by
  simp only [applyEvent, ok] at h
  split at h
  · split at h
    · split at h
      · cases h; exact invC3_addReleased s _ hC.c3 hB.ee
      · cases h
    · cases h
  · split at h
    · split at h
      · split at h
        · cases h
          refine invC3_addReleased _ _ ?_ hB.ee
          exact invC3_node s _ hC.c3 hB.ee i _ rfl rfl rfl rfl rfl rfl rfl rfl rfl
            (hC.c3.cm i) (hC.c3.cmi i) (hC.c3.cmd i)
        · cases h
      · cases h
    · cases h

theorem invC3_crash (i : Nat) (h : applyEvent s (.crash i) = .ok s') (hB : InvB s) (hC : InvC s) : InvC3 s' := by
  simp only [applyEvent, ok] at h
  split at h
  · cases h
    exact invC3_node s _ hC.c3 hB.ee i _ rfl rfl rfl rfl rfl rfl rfl rfl rfl
      (hC.c3.cm i) (by intro im him; simp at him) (hC.c3.cmd i)
  · cases h

theorem invC3_restart (i : Nat) (h : applyEvent s (.restart i) = .ok s') (hB : InvB s) (hC : InvC s) : InvC3 s' := by
  simp only [applyEvent, ok] at h
  split at h
  · cases h
    exact invC3_node s _ hC.c3 hB.ee i _ rfl rfl rfl rfl rfl rfl rfl rfl rfl
      (hC.c3.cmd i) (by intro im him; simp at him) (hC.c3.cmd i)
  · cases h

theorem invC3_win (i : Nat) (cfg : Cfg) (q : List Nat) (h : applyEvent s (.win i cfg q) = .ok s')
    (hV : InvV (vsys s)) (hL : InvL s) (hB : InvB s) (hC : InvC s) (g : Grow s s') : InvC3 s' := by
  obtain ⟨hrole, hq, hall, _, hs', _, hadj, hw⟩ := win_guard h
  have hf := win_fresh s hV hL i cfg q hrole hq hall hadj
  subst hs'
  have h3 := hC.c3
  refine invC3_gen s _ h3 hB.ee g i _ rfl (fun p hp => hp) (fun a ha => ha) ?_ (fun x hx => hx) h3.cc ?_
    (fun p hp => Or.inl hp)
    ((h3.cm i).grow h3 g (fun p hp => hp)) (fun im him => (h3.cmi i im him).grow h3 g (fun p hp => hp))
    ((h3.cmd i).grow h3 g (fun p hp => hp)) (fun m hm => Or.inl hm) (fun m hm => Or.inl hm)
    (fun m hm => Or.inl hm) (fun m hm => Or.inl hm)
  · intro t ht
    have hne : t ≠ (s.nodes i).term := by intro he; rw [he] at ht; exact hf ht
    show updT s.elog (s.nodes i).term (s.nodes i).log t = s.elog t
    simp [updT, hne]
  · intro pc hpc ec hec hlt
    rcases List.mem_cons.1 hec with e | e
    · subst e
      right
      have hlt' : pc.1.1 < (s.nodes i).term := hlt
      have e1 : updT s.elog (s.nodes i).term (s.nodes i).log (s.nodes i).term = (s.nodes i).log := by
        simp [updT]
      have e2 : updT s.llog (s.nodes i).term (s.nodes i).log pc.1.1 = s.llog pc.1.1 := by
        simp [updT, Nat.ne_of_lt hlt']
      show adjOk pc.2 cfg = true ∨
        (updT s.elog (s.nodes i).term (s.nodes i).log (s.nodes i).term).take pc.1.2 =
          (updT s.llog (s.nodes i).term (s.nodes i).log pc.1.1).take pc.1.2
      rw [e1, e2]
      exact hw pc hpc hlt'
    · exact Or.inl ⟨hpc, e⟩

theorem invC3_stepDown (i : Nat) (h : applyEvent s (.stepDown i) = .ok s') (hB : InvB s) (hC : InvC s) : InvC3 s' := by
  simp only [applyEvent, ok] at h
  split at h
  · cases h
    exact invC3_node s _ hC.c3 hB.ee i _ rfl rfl rfl rfl rfl rfl rfl rfl rfl
      (hC.c3.cm i) (hC.c3.cmi i) (hC.c3.cmd i)
  · cases h

theorem invC3_leaderAppend (i : Nat) (e : LEntry) (h : applyEvent s (.leaderAppend i e) = .ok s')
    (hB : InvB s) (hC : InvC s) (g : Grow s s') : InvC3 s' := by
  have h3 := hC.c3
  simp only [applyEvent, ok] at h
  split at h
  · cases h
    have hcm : CmtPre s (s.nodes i).term (s.nodes i).commit ((s.nodes i).log ++ [e]) := by
      rcases h3.cm i with h0 | ⟨p, hp, p1, p2, p3⟩
      · exact Or.inl h0
      · have hq := (h3.cq p hp).2.1
        have hlen := len_of_take_eq p3 (by omega)
        exact Or.inr ⟨p, hp, p1, p2, by rw [List.take_append_of_le_length hlen]; exact p3⟩
    exact invC3_gen0 s _ h3 hB.ee g i _ rfl (fun p hp => hp) (fun a ha => ha) (fun p hp => Or.inl hp)
      (hcm.grow h3 g (fun p hp => hp)) (fun im him => (h3.cmi i im him).grow h3 g (fun p hp => hp))
      ((h3.cmd i).grow h3 g (fun p hp => hp)) (fun m hm => Or.inl hm) (fun m hm => Or.inl hm)
      (fun m hm => Or.inl hm) (fun m hm => Or.inl hm)
  · cases h

theorem invC3_sendApp (i : Nat) (m : App) (h : applyEvent s (.sendApp i m) = .ok s') (hB : InvB s) (hC : InvC s) :
    InvC3 s' := by
  have h3 := hC.c3
  simp only [applyEvent, ok] at h
  split at h
  · rename_i hg; cases h
    have hcd : Cmtd s m.term m.commit := by
      rw [hg.2.2.1]; exact (h3.cm i).cmtd.mono_idx hg.2.2.2.2.2.2.2
    refine invC3_gen0 s _ h3 hB.ee (Grow.refl' rfl rfl) i (s.nodes i) (upd_self _ _).symm (fun p hp => hp)
      (fun a ha => ha) (fun p hp => Or.inl hp) (h3.cm i) (h3.cmi i) (h3.cmd i) ?_
      (fun m hm => Or.inl hm) (fun m hm => Or.inl hm) (fun m hm => Or.inl hm)
    intro m' hm'
    rcases List.mem_cons.1 hm' with e | e
    · subst e; exact Or.inr hcd
    · exact Or.inl e
  · cases h

theorem invC3_recvApp (i : Nat) (m : App) (h : applyEvent s (.recvApp i m) = .ok s') (hB : InvB s) (hC : InvC s) :
    InvC3 s' := by
  have h3 := hC.c3
  simp only [applyEvent, ok] at h
  split at h
  · rename_i hg; cases h
    have hcm : CmtPre s (s.nodes i).term (s.nodes i).commit (mergeAt (s.nodes i).log m.prev m.es) := by
      rcases h3.cm i with h0 | ⟨p, hp, p1, p2, p3⟩
      · exact Or.inl h0
      · refine Or.inr ⟨p, hp, p1, p2, ?_⟩
        rw [mergeAt_take_commit _ _ _ _ hg.2.2.2.2.1 hg.2.2.2.2.2.2]; exact p3
    exact invC3_node s _ h3 hB.ee i _ rfl rfl rfl rfl rfl rfl rfl rfl rfl hcm (h3.cmi i) (h3.cmd i)
  · cases h

theorem invC3_ackCommitted (i : Nat) (h : applyEvent s (.ackCommitted i) = .ok s') (hB : InvB s) (hC : InvC s) :
    InvC3 s' := by
  simp only [applyEvent, ok] at h
  split at h
  · cases h
    exact invC3_node s _ hC.c3 hB.ee i _ rfl rfl rfl rfl rfl rfl rfl rfl rfl
      (hC.c3.cm i) (hC.c3.cmi i) (hC.c3.cmd i)
  · cases h

theorem invC3_ackSelf (i idx : Nat) (h : applyEvent s (.ackSelf i idx) = .ok s') (hB : InvB s) (hC : InvC s) :
    InvC3 s' := by
  simp only [applyEvent, ok] at h
  split at h
  · cases h
    exact invC3_node s _ hC.c3 hB.ee i _ rfl rfl rfl rfl rfl rfl rfl rfl rfl
      (hC.c3.cm i) (hC.c3.cmi i) (hC.c3.cmd i)
  · cases h

theorem invC3_commitLeader (i c : Nat) (cfg : Cfg) (q : List Nat)
    (h : applyEvent s (.commitLeader i c cfg q) = .ok s') (hV : InvV (vsys s)) (hL : InvL s)
    (hB : InvB s) (hC : InvC s) : InvC3 s' := by
  have h3 := hC.c3
  obtain ⟨_, hrole, hlt, hlen, hta, hq, hall, _, hlater, hs'⟩ := commitLeader_guard h
  subst hs'
  have hll := hL.ll i hrole
  have hel : Elected s (s.nodes i).term := ⟨i, (hV.ld i hrole).1⟩
  have hcs : ∀ p ∈ s.cmts, p ∈ ((s.nodes i).term, c) :: s.cmts := fun p hp => List.mem_cons_of_mem _ hp
  have g : Grow s { s with nodes := upd s.nodes i { s.nodes i with commit := c },
                           cmts := ((s.nodes i).term, c) :: s.cmts,
                           ccfgs := (((s.nodes i).term, c), cfg) :: s.ccfgs } :=
    Grow.refl' rfl rfl
  refine invC3_gen s _ h3 hB.ee g i _ rfl hcs (fun a ha => ha) (fun _ _ => rfl)
    (fun x hx => List.mem_cons_of_mem _ hx) (congrArg (List.cons ((s.nodes i).term, c)) h3.cc) ?_ ?_ ?_
    (fun im him => (h3.cmi i im him).grow h3 g hcs) ((h3.cmd i).grow h3 g hcs)
    (fun m hm => Or.inl hm) (fun m hm => Or.inl hm) (fun m hm => Or.inl hm) (fun m hm => Or.inl hm)
  · intro pc hpc ec hec hlt'
    rcases List.mem_cons.1 hpc with e | e
    · subst e
      right
      rcases hlater ec hec hlt' with a | a
      · exact Or.inl a
      · exact Or.inr (a.trans (congrArg (List.take c) hll))
    · exact Or.inl ⟨e, hec⟩
  · intro p hp
    rcases List.mem_cons.1 hp with e | e
    · subst e
      right
      refine ⟨?_, ?_, ?_, hel, cfg, q, List.mem_cons_self, hq, hall⟩
      · show 0 < c
        omega
      · show c ≤ (s.llog (s.nodes i).term).length
        rw [← hll]; exact hlen
      · show termAt (s.llog (s.nodes i).term) c = (s.nodes i).term
        rw [← hll]; exact hta
    · exact Or.inl e
  · exact Or.inr ⟨((s.nodes i).term, c), List.mem_cons_self, Nat.le_refl _, Nat.le_refl _, by
      show (s.nodes i).log.take c = (s.llog (s.nodes i).term).take c
      rw [← hll]⟩

theorem invC3_commitApp (i c : Nat) (m : App) (h : applyEvent s (.commitApp i c m) = .ok s')
    (hL : InvL s) (hB : InvB s) (hC : InvC s) : InvC3 s' := by
  have h3 := hC.c3
  simp only [applyEvent, ok] at h
  split at h
  · rename_i hg; cases h
    have hm : m ∈ s.apps := by simpa [List.contains_iff_mem] using hg.2.1
    have hok := hL.msg m hm
    have hlen := hok.len
    have hLL : PFL s.llog (s.llog m.term) := hL.pfl _ (listsOf_llog s m.term)
    have hanchor : termAt (s.nodes i).log m.prev = termAt (s.llog m.term) m.prev := by
      rw [hg.2.2.2.2.2.2.2.1]; exact hok.anchor
    have hprev : m.prev ≤ (s.nodes i).log.length := by
      by_cases hp : m.prev ≤ (s.nodes i).log.length
      · exact hp
      · exfalso
        have h0 := termAt_gt_len (l := (s.nodes i).log) (k := m.prev) (by omega)
        have h1 := termAt_ge_one (l := s.llog m.term) (k := m.prev) (by omega) (by omega)
          (fun e he => (hL.lterm _ e he).1)
        omega
    have hpre := anchor_take (keep_log s hL i) hLL hprev (by omega) hanchor
    have htk := noconflict_take s.llog (s.llog m.term) hLL m.es (s.nodes i).log m.prev (keep_log s hL i)
      hprev hpre hok.slice hok.len hg.2.2.2.2.2.2.2.2
    have htc := take_of_take_eq htk hg.2.2.2.2.2.1
    have hcm : CmtPre s m.term c (s.nodes i).log :=
      CmtPre.of_cmtd hB hC ((h3.capp m hm).mono_idx hg.2.2.2.2.1) hok.hl htc
    rw [hg.2.2.1] at hcm
    exact invC3_node s _ h3 hB.ee i _ rfl rfl rfl rfl rfl rfl rfl rfl rfl hcm (h3.cmi i) (h3.cmd i)
  · cases h

theorem invC3_commitHB (i c : Nat) (m : HB) (h : applyEvent s (.commitHB i c m) = .ok s')
    (hA : InvA s) (hB : InvB s) (hC : InvC s) : InvC3 s' := by
  have h3 := hC.c3
  simp only [applyEvent, ok] at h
  split at h
  · rename_i hg; cases h
    have hm : m ∈ s.hbs := by simpa [List.contains_iff_mem] using hg.2.1
    obtain ⟨hel, hcd, hak⟩ := h3.chb m hm
    have hlt := hg.2.2.2.2.1
    have hle := hg.2.2.2.2.2.1
    rcases hak with hak | ⟨a, ha, a1, a2, a3⟩
    · omega
    · have hd := hA.sub a ha
      rw [a2, hg.2.2.2.1] at hd
      have ho := hA.o1 i hg.1 _ hd rfl
      have hret := hC.c1.ret i _ _ _ _ ho c (by omega) (by rw [a1, hg.2.2.1]; exact NCle_self _ _ _)
      have hcm : CmtPre s m.term c (s.nodes i).log :=
        CmtPre.of_cmtd hB hC (hcd.mono_idx hle) hel (by rw [hret, a1])
      rw [hg.2.2.1] at hcm
      exact invC3_node s _ h3 hB.ee i _ rfl rfl rfl rfl rfl rfl rfl rfl rfl hcm (h3.cmi i) (h3.cmd i)
  · cases h

theorem invC3_commitClaim (i : Nat) (m : Claim) (h : applyEvent s (.commitClaim i m) = .ok s')
    (hL : InvL s) (hB : InvB s) (hC : InvC s) : InvC3 s' := by
  have h3 := hC.c3
  simp only [applyEvent, ok] at h
  split at h
  · rename_i hg; cases h
    have hany := hg.2.1
    simp only [List.any_eq_true, decide_eq_true_eq] at hany
    obtain ⟨cl, hcl, c1, c2, c3⟩ := hany
    have hlt := hg.2.2.1
    rcases h3.ccl cl hcl with h0 | ⟨p, hp, p1, p2, p3⟩
    · omega
    · have hq := (h3.cq p hp).2.1
      have hta : termAt (s.nodes i).log m.idx = termAt (s.llog p.1) m.idx := by
        rw [hg.2.2.2.2, ← c2, p3, c1]
      have htk := anchor_take (keep_log s hL i) (hL.pfl _ (listsOf_llog s p.1)) hg.2.2.2.1 (by omega) hta
      have hcm : CmtPre s (s.nodes i).term m.idx (s.nodes i).log :=
        Or.inr ⟨p, hp, by omega, by omega, htk⟩
      exact invC3_node s _ h3 hB.ee i _ rfl rfl rfl rfl rfl rfl rfl rfl rfl hcm (h3.cmi i) (h3.cmd i)
  · cases h

theorem invC3_sendHB (i to c : Nat) (h : applyEvent s (.sendHB i to c) = .ok s')
    (hV : InvV (vsys s)) (hB : InvB s) (hC : InvC s) : InvC3 s' := by
  have h3 := hC.c3
  simp only [applyEvent, ok] at h
  split at h
  · rename_i hg; cases h
    have hel : Elected s (s.nodes i).term := ⟨i, (hV.ld i hg.2.1).1⟩
    have hcd : Cmtd s (s.nodes i).term c := (h3.cm i).cmtd.mono_idx hg.2.2.1
    have hak : c = 0 ∨ ∃ a ∈ s.acks, a.term = (s.nodes i).term ∧ a.frm = to ∧ c ≤ a.idx := by
      rcases hg.2.2.2 with h0 | h1
      · exact Or.inl h0
      · simp only [List.any_eq_true, decide_eq_true_eq] at h1
        exact Or.inr h1
    refine invC3_gen0 s _ h3 hB.ee (Grow.refl' rfl rfl) i (s.nodes i) (upd_self _ _).symm (fun p hp => hp)
      (fun a ha => ha) (fun p hp => Or.inl hp) (h3.cm i) (h3.cmi i) (h3.cmd i) (fun m hm => Or.inl hm)
      ?_ (fun m hm => Or.inl hm) (fun m hm => Or.inl hm)
    intro m' hm'
    rcases List.mem_cons.1 hm' with e | e
    · subst e; exact Or.inr ⟨hel, hcd, hak⟩
    · exact Or.inl e
  · cases h

theorem invC3_claim (i idx : Nat) (h : applyEvent s (.claim i idx) = .ok s') (hB : InvB s) (hC : InvC s) :
    InvC3 s' := by
  have h3 := hC.c3
  simp only [applyEvent, ok] at h
  split at h
  · rename_i hg; cases h
    have hle := hg.2.1
    have hcl : idx = 0 ∨ ∃ p ∈ s.cmts, idx ≤ p.2 ∧ p.1 ≤ (s.nodes i).term ∧
        termAt (s.nodes i).log idx = termAt (s.llog p.1) idx := by
      rcases h3.cm i with h0 | ⟨p, hp, p1, p2, p3⟩
      · exact Or.inl (by omega)
      · exact Or.inr ⟨p, hp, by omega, p2, termAt_of_take_eq p3 hle⟩
    refine invC3_gen0 s _ h3 hB.ee (Grow.refl' rfl rfl) i (s.nodes i) (upd_self _ _).symm (fun p hp => hp)
      (fun a ha => ha) (fun p hp => Or.inl hp) (h3.cm i) (h3.cmi i) (h3.cmd i) (fun m hm => Or.inl hm)
      (fun m hm => Or.inl hm) (fun m hm => Or.inl hm) ?_
    intro m' hm'
    rcases List.mem_cons.1 hm' with e | e
    · subst e; exact Or.inr hcl
    · exact Or.inl e
  · cases h

theorem invC3_sendSnap (i idx : Nat) (h : applyEvent s (.sendSnap i idx) = .ok s')
    (hV : InvV (vsys s)) (hL : InvL s) (hB : InvB s) (hC : InvC s) : InvC3 s' := by
  have h3 := hC.c3
  simp only [applyEvent, ok] at h
  split at h
  · rename_i hg; cases h
    have hel : Elected s (s.nodes i).term := ⟨i, (hV.ld i hg.2.1).1⟩
    have hcd : Cmtd s (s.nodes i).term idx := (h3.cm i).cmtd.mono_idx hg.2.2.1
    have hll := hL.ll i hg.2.1
    have hlen : idx ≤ (s.llog (s.nodes i).term).length := by rw [← hll]; exact hg.2.2.2
    have htk : (s.nodes i).log.take idx = (s.llog (s.nodes i).term).take idx := by rw [← hll]
    have hta : termAt (s.nodes i).log idx = termAt (s.llog (s.nodes i).term) idx := by rw [← hll]
    refine invC3_gen0 s _ h3 hB.ee (Grow.refl' rfl rfl) i (s.nodes i) (upd_self _ _).symm (fun p hp => hp)
      (fun a ha => ha) (fun p hp => Or.inl hp) (h3.cm i) (h3.cmi i) (h3.cmd i) (fun m hm => Or.inl hm)
      (fun m hm => Or.inl hm) ?_ (fun m hm => Or.inl hm)
    intro m' hm'
    rcases List.mem_cons.1 hm' with e | e
    · subst e; exact Or.inr ⟨hel, hcd, hlen, htk, hta⟩
    · exact Or.inl e
  · cases h

theorem invC3_installSnap (i t idx sterm : Nat) (h : applyEvent s (.installSnap i t idx sterm) = .ok s')
    (hB : InvB s) (hC : InvC s) : InvC3 s' := by
  have h3 := hC.c3
  simp only [applyEvent, ok] at h
  split at h
  · rename_i m hm
    split at h
    · rename_i hg; cases h
      have hmem : m ∈ s.snaps := List.mem_of_find?_eq_some hm
      obtain ⟨e1, e2, e3, e4, e5⟩ := h3.csn m hmem
      have hcm : CmtPre s m.term m.idx m.pre :=
        CmtPre.of_cmtd hB hC e2 e1 (by rw [e4, List.take_take, Nat.min_self])
      rw [hg.2.1] at hcm
      exact invC3_node s _ h3 hB.ee i _ rfl rfl rfl rfl rfl rfl rfl rfl rfl hcm (h3.cmi i) (h3.cmd i)
    · cases h
  · cases h

theorem invC3_commitSnap (i t idx sterm : Nat) (h : applyEvent s (.commitSnap i t idx sterm) = .ok s')
    (hL : InvL s) (hB : InvB s) (hC : InvC s) : InvC3 s' := by
  have h3 := hC.c3
  simp only [applyEvent, ok] at h
  split at h
  · rename_i m hm
    split at h
    · rename_i hg; cases h
      have hmem : m ∈ s.snaps := List.mem_of_find?_eq_some hm
      obtain ⟨e1, e2, e3, e4, e5⟩ := h3.csn m hmem
      have hta : termAt (s.nodes i).log m.idx = termAt (s.llog m.term) m.idx := by
        rw [hg.2.2.2.2]; exact e5
      have htk := anchor_take (keep_log s hL i) (hL.pfl _ (listsOf_llog s m.term)) hg.2.2.2.1 e3 hta
      have hcm : CmtPre s m.term m.idx (s.nodes i).log := CmtPre.of_cmtd hB hC e2 e1 htk
      rw [hg.2.1] at hcm
      exact invC3_node s _ h3 hB.ee i _ rfl rfl rfl rfl rfl rfl rfl rfl rfl hcm (h3.cmi i) (h3.cmd i)
    · cases h
  · cases h

theorem invC3_bootstrap (i donor idx : Nat) (h : applyEvent s (.bootstrap i donor idx) = .ok s')
    (hB : InvB s) (hC : InvC s) : InvC3 s' := by
  have h3 := hC.c3
  simp only [applyEvent, ok] at h
  split at h
  · rename_i hg; cases h
    obtain ⟨_, _, _, _, _, _, _, _, _, _, _, _, h13, h14, _, _⟩ := hg
    have hcm : CmtPre s (s.nodes donor).dterm idx ((s.nodes donor).dlog.take idx) := by
      rcases h3.cmd donor with h0 | ⟨p, hp, p1, p2, p3⟩
      · exact Or.inl (by omega)
      · refine Or.inr ⟨p, hp, by omega, p2, ?_⟩
        rw [List.take_take, Nat.min_self]
        exact take_of_take_eq p3 h14
    exact invC3_node s _ h3 hB.ee i _ rfl rfl rfl rfl rfl rfl rfl rfl rfl hcm (h3.cmi i) hcm
  · cases h

end events

/-! ### the step theorem -/

theorem invC3_step (c0 : Cfg) (s s' : PSys) (e : Event) (h : applyEvent s e = .ok s')
    (hV : InvV (vsys s)) (hV' : InvV (vsys s')) (hR : InvR s) (hR' : InvR s')
    (hL : InvL s) (hL' : InvL s') (hA : InvA s) (hA' : InvA s')
    (hB : InvB s) (hB' : InvB s') (hC : InvC s) (g : Grow s s') : InvC3 s' := by
  cases e with
  | read r =>
    simp only [applyEvent, ok] at h
    split at h
    · cases h
      exact ⟨hC.c3.cq, hC.c3.cc, hC.c3.gd, hC.c3.cm, hC.c3.cmi, hC.c3.cmd, hC.c3.capp, hC.c3.chb,
        hC.c3.csn, hC.c3.ccl⟩
    · cases h
  | bump i t => exact invC3_bump s s' i t h hB hC
  | campaign i => exact invC3_campaign s s' i h hB hC
  | grant i c => exact invC3_grant s s' i c h hB hC
  | rdy i => exact invC3_rdy s s' i h hB hC
  | persist i k => exact invC3_persist s s' i k h hB hC
  | release i key => exact invC3_release s s' i key h hB hC
  | crash i => exact invC3_crash s s' i h hB hC
  | restart i => exact invC3_restart s s' i h hB hC
  | win i cfg q => exact invC3_win s s' i cfg q h hV hL hB hC g
  | stepDown i => exact invC3_stepDown s s' i h hB hC
  | leaderAppend i e => exact invC3_leaderAppend s s' i e h hB hC g
  | sendApp i m => exact invC3_sendApp s s' i m h hB hC
  | recvApp i m => exact invC3_recvApp s s' i m h hB hC
  | ackCommitted i => exact invC3_ackCommitted s s' i h hB hC
  | ackSelf i idx => exact invC3_ackSelf s s' i idx h hB hC
  | commitLeader i c cfg q => exact invC3_commitLeader s s' i c cfg q h hV hL hB hC
  | commitApp i c m => exact invC3_commitApp s s' i c m h hL hB hC
  | commitHB i c m => exact invC3_commitHB s s' i c m h hA hB hC
  | commitClaim i m => exact invC3_commitClaim s s' i m h hL hB hC
  | sendHB i to c => exact invC3_sendHB s s' i to c h hV hB hC
  | claim i idx => exact invC3_claim s s' i idx h hB hC
  | sendSnap i idx => exact invC3_sendSnap s s' i idx h hV hL hB hC
  | installSnap i t idx sterm => exact invC3_installSnap s s' i t idx sterm h hB hC
  | commitSnap i t idx sterm => exact invC3_commitSnap s s' i t idx sterm h hL hB hC
  | bootstrap i donor idx => exact invC3_bootstrap s s' i donor idx h hB hC

end RaftModel.P
