import RaftProofs.ClusterCommit5c2V

/-!
Cluster-level commit safety **with `batch_append`** (copy of `ClusterCommit2W.lean` over the bundles without `NoBatch`), part 2W: the induction step for **retention in the logical log**
(`retm_step`): a node that has acknowledged a commit event still holds the committed entry after the
step.
-/
namespace RaftModel
namespace ClusterB
open Node Raft Raft.CC RaftProps.C02 RaftProps.C05 Raft.CB Raft.Bt Cluster

variable {cfg : JointConfig} {c0 : Nat} {h : List Sys}

/-- a node that acknowledged an event has reached the event's term -/
theorem acked_term (H : Hyp2wB cfg c0 h) {n : Nat} {a : Sys} (ha : h[n]? = some a) {E : Ev}
    (hE : E.ok h) {v : Nat} {st : NState} (hv : a.node v = some st) (hk : AckedMem a n E v st) :
    E.t ≤ st.raft.term := by
  obtain ⟨_, _, hc0⟩ := Ev.leaderLog H hE
  obtain ⟨hq, hn⟩ := ack_inv H n a ha
  rcases hk with ⟨x, hx, hack, hfrm, hterm, hidx⟩ | ⟨hvl, hlt, _⟩
  · have hx0 : x.index ≠ 0 := by omega
    rcases hx with c | c
    · have := ((hn x c hack hx0).1 st (by rw [hfrm]; exact hv)).1
      omega
    · have := (hq v st hv x c hack hx0).2.1
      omega
  · obtain ⟨a', b', sta, stb, ha', hb', hla, hlb, hs, ht, _⟩ := hE
    have hfl := leader_floor H (mem_of_get hb') (k := E.l) (τ := E.t) ⟨stb, hlb, hs, ht⟩
    obtain ⟨st2, h1, h2, _⟩ := hfl.later H.hist hb' ha (by omega)
    rw [← hvl, hv] at h1; cases h1
    exact h2

/-- **the sender of an accepted batch agrees with a log that holds the committed entry**: wherever the
sender's log (a leader's log of the event's term or a later one) holds an entry up to the committed
index, the node's log holds the same entry -/
theorem compat_has (H : Hyp2wB cfg c0 h) {n : Nat} (S : SAll h c0 n) {a : Sys} (ha : h[n]? = some a)
    {v : Nat} {st : NState} (hv : a.node v = some st) {E : Ev} (hE : E.ok h)
    (hh : Has st.raft.raftLog.abs E.c E.t) {τ : Nat} {L : LLog} (hL : LeaderLog h n τ L)
    (hle : E.t ≤ τ) :
    ∀ j, j ≤ E.c → ∀ e, L.entryAt j = some e → st.raft.raftLog.abs.entryAt j = some e := by
  intro j hj e he
  by_cases hlt : E.t < τ
  · have hLh := ll_has H S hL hE hle (fun hc => by omega)
    rw [eq_ll H ha hv hL hh hLh j hj]; exact he
  · have heq : τ = E.t := by omega
    subst heq
    obtain ⟨hEl, hEh, _⟩ := Ev.leaderLog H hE
    obtain ⟨eE, heE, _⟩ := id hEh
    rw [eq_ll H ha hv hEl hh hEh j hj, ← ll_eq H hL hEl (L.entryAt_lt he).2
      (Nat.le_trans hj (E.gE.entryAt_lt heE).2)]
    exact he

/-- `AckedMem` before the step, from `AckedMem` after it, for a node that did not queue the
acknowledgement in this step and is not the leader committing in this step -/
theorem acked_back {n : Nat} {a b : Sys} {E : Ev} {v : Nat} {st st' : NState}
    (hnet : ∀ x ∈ b.net, x ∈ a.net ∨ x ∈ st.raft.msgs)
    (hq : ∀ x ∈ st'.raft.msgs, x ∈ st.raft.msgs) (hne : E.nE ≠ n)
    (hk : AckedMem b (n + 1) E v st') : AckedMem a n E v st := by
  rcases hk with ⟨x, hx, h2⟩ | ⟨h1, h2, h3⟩
  · left
    refine ⟨x, ?_, h2⟩
    rcases hx with c | c
    · rcases hnet x c with d | d
      · exact .inl d
      · exact .inr d
    · exact .inr (hq x c)
  · exact .inr ⟨h1, by omega, h3⟩

theorem retm_step (H : Hyp3aB cfg c0 h) {n : Nat} (S : SAll h c0 n) {a b : Sys}
    (ha : h[n]? = some a) (hb : h[n + 1]? = some b) :
    ∀ E : Ev, E.ok h → ∀ v st', b.node v = some st' → AckedMem b (n + 1) E v st' →
      Has st'.raft.raftLog.abs E.c E.t := by
  intro E hE v st' hvb hk
  have H2 := H.toHyp2wB
  have Sa := S n a (Nat.le_refl _) ha
  obtain ⟨hEl, hEh, hc0⟩ := Ev.leaderLog H2 hE
  obtain ⟨k, stk, stk', hka, hkb, hoth, hs⟩ := stp_of H2 ha hb
  by_cases hvk : v = k
  · subst hvk
    rw [hkb] at hvb; cases hvb
    cases hs with
    | restart c rnd hboot hnet =>
      have hbt := CV.boot_booted c _ rnd st' hboot
      have hst := (hist_all H.hist).1 a (mem_of_get ha)
      obtain ⟨_, habs, _⟩ := boot_log c _ rnd st' (node_okB H2 ha hka).inv.storeWF hboot
      -- the acknowledgement is in the transport, or the event is an earlier one
      have hne : E.nE ≠ n := by
        intro he
        obtain ⟨a', b', sta, stb, ha', hb', hla, hlb, hsl, _⟩ := hE
        rw [he] at ha' hb'
        rw [ha] at ha'; cases ha'
        rw [hb] at hb'; cases hb'
        have := ev_at_step ⟨a, b, sta, stb, by rw [he]; exact ha, by rw [he]; exact hb, hla, hlb,
          hsl, by assumption⟩ (by rw [he]; exact ha) (by rw [he]; exact hb) hoth
        rw [this, hkb] at hlb; cases hlb
        rw [hbt.state] at hsl; cases hsl
      have hdur : AckedDur a n E v := by
        rcases hk with ⟨x, hx, h2⟩ | ⟨h1, h2, h3⟩
        · left
          rcases hx with c | c
          · rw [hnet] at c; exact ⟨x, c, h2⟩
          · rw [hbt.msgs] at c; cases c
        · exact .inr ⟨h1, by omega, h3⟩
      rw [habs]
      exact Sa.rets E hE v stk hka hdur
    | send hp hu hq hsame hnet =>
      have hne : E.nE ≠ n := by
        intro he
        obtain ⟨a', b', sta, stb, ha', hb', hla, hlb, _, _, hc, _⟩ := hE
        rw [he] at ha' hb'
        rw [ha] at ha'; cases ha'
        rw [hb] at hb'; cases hb'
        by_cases hl : E.l = v
        · rw [hl, hka] at hla; cases hla
          rw [hl, hkb] at hlb; cases hlb
          rw [hsame.1] at hc; omega
        · rw [hoth E.l hl, hla] at hlb; cases hlb; omega
      have := acked_back (a := a) (st := stk) (fun x hx => by
        rw [hnet] at hx; exact List.mem_append.1 hx) (fun x hx => by rw [hq] at hx; cases hx) hne hk
      rw [hsame.1]
      exact Sa.retm E hE v stk hka this
    | call rnd op res hop hnc hca hcall hnet =>
      by_cases hold : AckedMem a n E v stk
      · have hh := Sa.retm E hE v stk hka hold
        cases call_step H2 ha hb hka hkb hnet hop hnc hcall with
        | same hl => rw [hl]; exact hh
        | grew es hg => exact Has.appended hg hh
        | acc m hm hty hto hacc _ _ _ ht =>
          obtain ⟨L, cL, src⟩ := app_src H S ha hm hty
          have hterm : E.t ≤ m.term := by
            have h1 := acked_term H2 ha hE hka hold
            have h2 := (call_factsB H2 ha hb hka hkb hnet hop hnc hcall).2.1.rt.le
            rcases ht with c | c
            · omega
            · exact absurd c src.tnz
          have hcomp := compat_has H2 S ha hka hE hh src.ll hterm
          exact Has.of_eq (hacc.keep src.contig src.ents hcomp E.c (Nat.le_refl _)) hh
      · -- the acknowledgement is new, or the event is this very step
        rcases hk with ⟨x, hx, hack, hfrm, hterm, hidx⟩ | ⟨h1, h2, h3⟩
        · have hx0 : x.index ≠ 0 := by omega
          have hxq : x ∈ st'.raft.msgs ∧ x ∉ stk.raft.msgs := by
            rcases hx with c | c
            · rw [hnet] at c
              exact absurd (.inl ⟨x, .inl c, hack, hfrm, hterm, hidx⟩) hold
            · exact ⟨c, fun d => hold (.inl ⟨x, .inr d, hack, hfrm, hterm, hidx⟩)⟩
          obtain ⟨_, f2, _, m, _, hm, hty, hmt, hcase⟩ :=
            fresh_ack2 H2 ha hb hka hkb hnet hop hnc hcall hxq.1 hxq.2 hack hx0
          obtain ⟨L, cL, src⟩ := app_src H S ha hm hty
          rcases hcase with ⟨hacc, hxi⟩ | ⟨hl, hxi, _⟩
          · -- accepted: the new log is the sender's up to the end of the batch
            have hanc := anchor_eq H ha hka hm hty src hacc.anchor
            have hag := hacc.agree src.contig src.ents hanc
            have hLh : Has L E.c E.t :=
              ll_has H2 S src.ll hE (by rw [hmt, hterm]; exact Nat.le_refl _)
                (fun _ => by have := src.last; omega)
            exact Has.of_eq (hag E.c (by omega)) hLh
          · -- the commit index was acknowledged: it is covered by a past event
            rw [hl]
            rcases Sa.nctm v stk hka with c | ⟨E0, hE0, hp0, hc1, _, hq0⟩
            · omega
            · have := ctf H2 S hE0 hE hp0 (by omega)
                (fun _ => ⟨L, by rw [← hterm, ← hmt]; exact src.ll⟩)
              exact hq0.has (by omega) this
        · have hne : E.nE = n := by
            apply Classical.byContradiction
            intro hne
            exact hold (.inr ⟨h1, by omega, h3⟩)
          obtain ⟨a', b', sta, stb, ha', hb', hla, hlb, _, _, _, _, hg, _⟩ := id hE
          rw [hne, hb] at hb'; cases hb'
          rw [← h1, hkb] at hlb; cases hlb
          rw [← hg]; exact hEh
  · have hva : a.node v = some st' := by rw [← hoth v hvk]; exact hvb
    obtain ⟨o1, _, _⟩ := sm_other H2 ha hb Sa hka hs hvk hva
    have hne : E.nE ≠ n ∨ E.l ≠ v := by
      by_cases he : E.nE = n
      · right
        have := ev_at_step hE (by rw [he]; exact ha) (by rw [he]; exact hb) hoth
        rw [this]; exact fun hc => hvk hc.symm
      · exact .inl he
    refine Sa.retm E hE v st' hva ?_
    rcases hk with ⟨x, hx, hack, hfrm, hterm, hidx⟩ | ⟨h1, h2, h3⟩
    · exact .inl ⟨x, o1 x hx hack (by omega) hfrm, hack, hfrm, hterm, hidx⟩
    · rcases hne with c | c
      · exact .inr ⟨h1, by omega, h3⟩
      · exact absurd h1.symm c

end ClusterB
end RaftModel
