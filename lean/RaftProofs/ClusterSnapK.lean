import RaftProofs.ClusterSnapJ

/-!
Commit safety of `ClusterSem` with log compaction, part K: the hypotheses of the main induction
(`Snap.Hyp3`), the term recorded for a snapshot point is the initial one or forgotten (`snapTerm_const`,
`Hyp3.snapt`), and **no entry is ahead of its holder's term** for the ghost logs (`term_le`, the
ghost-log version of `ClusterCommit2Q`).
-/
namespace RaftModel
namespace Cluster
namespace Snap
open Node Raft Raft.CC RaftProps.C02 RaftProps.C05

/-- **the hypotheses of the main induction** on top of `Hyp2w` (as `Cluster.Hyp3a`) — two facts about
the messages of the transport that the induction uses (both are *derived* from the other hypotheses in
`RaftProofs/ClusterSnap3C.lean`: `Hyp3w → Hyp3a`), and one hypothesis on the initial state:
* `anch`: a `MsgAppend` is anchored inside its sender's log (`log_term ≠ 0` unless the anchor is not
  above the common initial snapshot point);
* `rirs`: a `MsgReadIndexResp` was sent by a leader of its term whose commit index covered its index;
* `snapt0`: the term an initial storage records for the common snapshot point `c0` is not above the
  initial term of any node. -/
structure Hyp3a (cfg : JointConfig) (c0 : Nat) (h : List Sys) : Prop extends Hyp2w cfg c0 h where
  anch : ∀ s ∈ h, ∀ x ∈ s.net, x.msgType = .msgAppend → x.logTerm ≠ 0 ∨ x.index ≤ c0
  rirs : ∀ n s, h[n]? = some s → ∀ x ∈ s.net, x.msgType = .msgReadIndexResp → RirSrc h n x
  snapt0 : ∀ s0, h[0]? = some s0 → ∀ i sti, s0.node i = some sti → ∀ t0,
    sti.raft.raftLog.abs.snapTerm = some t0 → ∀ j stj, s0.node j = some stj → t0 ≤ stj.raft.term

/-- **the hypotheses of the commit layer with compaction, without proof gaps about the transport**:
`Hyp2w` and the hypothesis `snapt0` on the initial state (`anch` and `rirs` of `Hyp3a` are derived) -/
structure Hyp3w (cfg : JointConfig) (c0 : Nat) (h : List Sys) : Prop extends Hyp2w cfg c0 h where
  snapt0 : ∀ s0, h[0]? = some s0 → ∀ i sti, s0.node i = some sti → ∀ t0,
    sti.raft.raftLog.abs.snapTerm = some t0 → ∀ j stj, s0.node j = some stj → t0 ≤ stj.raft.term

/-- **the hypotheses of the main induction as first stated** (`RaftProps/C01e.lean`) on top of `Hyp2`
(as `Cluster.Hyp3`), with the two former proof gaps `norir` (in `Hyp2`) and `anch`:
* `anch` (**proof gap**): a `MsgAppend` is anchored inside its sender's log (`log_term ≠ 0` unless the
  anchor is not above the common initial snapshot point);
* `snapt0` (a hypothesis on the initial state): the term an initial storage records for the common
  snapshot point `c0` is not above the initial term of any node. -/
structure Hyp3 (cfg : JointConfig) (c0 : Nat) (h : List Sys) : Prop extends Hyp2 cfg c0 h where
  anch : ∀ s ∈ h, ∀ x ∈ s.net, x.msgType = .msgAppend → x.logTerm ≠ 0 ∨ x.index ≤ c0
  snapt0 : ∀ s0, h[0]? = some s0 → ∀ i sti, s0.node i = some sti → ∀ t0,
    sti.raft.raftLog.abs.snapTerm = some t0 → ∀ j stj, s0.node j = some stj → t0 ≤ stj.raft.term

variable {cfg : JointConfig} {c0 : Nat} {h : List Sys}

theorem Hyp3.toHyp2w (H : Hyp3 cfg c0 h) : Hyp2w cfg c0 h := H.toHyp2.toHyp2w

theorem Hyp3.toHyp3a (H : Hyp3 cfg c0 h) : Hyp3a cfg c0 h :=
  { toHyp2w := H.toHyp2w, anch := H.anch, snapt0 := H.snapt0,
    rirs := fun n s hn x hx hty => absurd hty (H.norir s (mem_of_get hn) x hx) }

theorem Hyp3.toHyp3w (H : Hyp3 cfg c0 h) : Hyp3w cfg c0 h :=
  { toHyp2w := H.toHyp2w, snapt0 := H.snapt0 }

/-- the term recorded for the snapshot point is the initial one, or forgotten (after a compaction) -/
theorem snapTerm_const (H : Hyp2w cfg c0 h) : ∀ (n : Nat) (s : Sys), h[n]? = some s →
    ∀ v st, s.node v = some st → ∃ s0 st0, h[0]? = some s0 ∧ s0.node v = some st0 ∧
      (st.raft.raftLog.abs.snapTerm = st0.raft.raftLog.abs.snapTerm ∨
        st.raft.raftLog.abs.snapTerm = none) := by
  refine hist_induct h _ ?_ ?_
  · intro s h0 v st hv
    exact ⟨s, st, h0, hv, .inl rfl⟩
  · intro n a b ha hb ih v stb hvb
    obtain ⟨sta, hva⟩ := step_node_back (H.steps n a b ha hb).step v stb hvb
    obtain ⟨s0, st0, h0, hv0, he⟩ := ih v sta hva
    refine ⟨s0, st0, h0, hv0, ?_⟩
    have keep : stb.raft.raftLog.abs.snapTerm = sta.raft.raftLog.abs.snapTerm →
        stb.raft.raftLog.abs.snapTerm = st0.raft.raftLog.abs.snapTerm ∨
          stb.raft.raftLog.abs.snapTerm = none := by
      intro hk; rw [hk]; exact he
    cases node_step H ha hb hva hvb with
    | same hl => exact keep (by rw [hl])
    | grew es hg => exact keep (by rw [hg.abs])
    | acc m _ _ _ hacc _ _ _ _ => exact keep hacc.snap.2
    | restart hl _ _ => exact keep (by rw [hl]; exact (node_ok H ha hva).sterm)
    | compacted k ho =>
      rw [ho.abs]
      unfold LLog.compactTo
      split
      · exact he
      · exact .inr rfl

/-- the term a node records for its snapshot point is not above the initial term of any node -/
theorem Hyp3a.snapt (H : Hyp3a cfg c0 h) : ∀ s ∈ h, ∀ i st, s.node i = some st → ∀ t0,
    st.raft.raftLog.abs.snapTerm = some t0 →
    ∀ s0, h[0]? = some s0 → ∀ j st0, s0.node j = some st0 → t0 ≤ st0.raft.term := by
  intro s hs i st hi t0 ht0 s0 h0 j st0 hj
  obtain ⟨n, hn⟩ := List.mem_iff_getElem?.1 hs
  obtain ⟨s0', sti, h0', hi0, he⟩ := snapTerm_const H.toHyp2w n s hn i st hi
  rw [h0] at h0'; cases h0'
  rcases he with he | he
  · exact H.snapt0 s0 h0 i sti hi0 t0 (by rw [← he]; exact ht0) j st0 hj
  · rw [he] at ht0; cases ht0

theorem Hyp3.snapt (H : Hyp3 cfg c0 h) : ∀ s ∈ h, ∀ i st, s.node i = some st → ∀ t0,
    st.raft.raftLog.abs.snapTerm = some t0 →
    ∀ s0, h[0]? = some s0 → ∀ j st0, s0.node j = some st0 → t0 ≤ st0.raft.term :=
  H.toHyp3a.snapt

/-- a known snapshot term sits at the common initial snapshot point -/
theorem snapTerm_c0 (H : Hyp2w cfg c0 h) : ∀ (n : Nat) (s : Sys), h[n]? = some s →
    ∀ v st, s.node v = some st → ∀ t, st.raft.raftLog.abs.snapTerm = some t →
      st.raft.raftLog.abs.snapIdx = c0 := by
  refine hist_induct h _ ?_ ?_
  · intro s h0 v st hv t _
    have o := node_ok H h0 hv
    rw [← o.sidx]
    show st.raft.raftLog.store.firstIndex - 1 = c0
    rw [H.first0 s h0 v st hv]; rfl
  · intro n a b ha hb ih v stb hvb t ht
    obtain ⟨sta, hva⟩ := step_node_back (H.steps n a b ha hb).step v stb hvb
    have oa := node_ok H ha hva
    cases node_step H ha hb hva hvb with
    | same hl => rw [hl] at ht ⊢; exact ih v sta hva t ht
    | grew es hg => rw [hg.abs] at ht ⊢; exact ih v sta hva t ht
    | acc m _ _ _ hacc _ _ _ _ =>
      rw [hacc.snap.2] at ht; rw [hacc.snap.1]; exact ih v sta hva t ht
    | restart hl _ _ =>
      rw [hl] at ht ⊢
      rw [oa.sterm] at ht; rw [oa.sidx]; exact ih v sta hva t ht
    | compacted k ho =>
      rw [ho.abs] at ht ⊢
      unfold LLog.compactTo at ht ⊢
      split at ht
      · rename_i hle; rw [if_pos hle]; exact ih v sta hva t ht
      · cases ht

/-- **no entry is ahead of its holder's term** — for the ghost logs -/
structure TermLe (h : List Sys) (c0 : Nat) (s : Sys) : Prop where
  log : ∀ i st, s.node i = some st → ∀ e ∈ (FL h c0 st).ents, e.term ≤ st.raft.term
  sto : ∀ i st, s.node i = some st → ∀ e ∈ (FS h c0 st).ents,
    e.term ≤ st.raft.raftLog.store.hardState.term
  que : ∀ i st, s.node i = some st → ∀ x ∈ st.raft.msgs, x.msgType = .msgAppend →
    ∀ e ∈ x.entries, e.term ≤ x.term
  net : ∀ x ∈ s.net, x.msgType = .msgAppend → ∀ e ∈ x.entries, e.term ≤ x.term

/-- membership in a gap-free log, by `entryAt` -/
theorem mem_of_eqAll {F G : LLog} (hF : F.Contig) (heq : ∀ k, F.entryAt k = G.entryAt k) {e : Entry}
    (he : e ∈ F.ents) : e ∈ G.ents :=
  G.entryAt_mem (by rw [← heq]; exact hF.entryAt_of_mem he)

theorem term_le (H : Hyp2w cfg c0 h) : ∀ (n : Nat) (s : Sys), h[n]? = some s → TermLe h c0 s := by
  refine hist_induct h _ ?_ ?_
  · intro s h0
    have hinit := hist_init H.hist s h0
    obtain ⟨hnet, sto, hboot, hwf, _, hbound⟩ := H.init s h0
    have key : ∀ i st, s.node i = some st →
        st.raft.term = (sto i).hardState.term ∧
        st.raft.raftLog.store.hardState = (sto i).hardState ∧
        (∀ e ∈ (FL h c0 st).ents, e ∈ (sto i).entries) ∧
        (∀ e ∈ (FS h c0 st).ents, e ∈ (sto i).entries) := by
      intro i st hi
      obtain ⟨c, rnd, hb⟩ := hboot i st hi
      have hbt := CV.boot_booted c _ rnd st hb
      obtain ⟨hinv, h2, h3⟩ := boot_log c _ rnd st (hwf i st hi).1 hb
      have I := node_full H 0 s h0 i st hi
      have hs : (storeLog st.raft.raftLog.store).snapIdx = c0 := by
        show st.raft.raftLog.store.firstIndex - 1 = c0
        rw [H.first0 s h0 i st hi]; rfl
      have hself : Full (HistChain h) c0 (storeLog st.raft.raftLog.store)
          (storeLog st.raft.raftLog.store) :=
        Full.self hs (storeLog_contig hinv.storeWF) (hist_store h0 hi)
      have e2 : ∀ k, (FS h c0 st).entryAt k = (storeLog (sto i)).entryAt k := by
        intro k; rw [← h3]; exact fl_eq (hist_agree H) hself k
      have e1 : ∀ k, (FL h c0 st).entryAt k = (storeLog (sto i)).entryAt k := by
        intro k
        rw [← h2]
        exact fl_eq (hist_agree H) (Full.self (by rw [h2, ← h3]; exact hs) (abs_Contig hinv)
          (hist_log h0 hi)) k
      exact ⟨hbt.term, hbt.hs, fun e he => mem_of_eqAll I.log.contig e1 he,
        fun e he => mem_of_eqAll I.sto.contig e2 he⟩
    refine ⟨fun i st hi e he => ?_, fun i st hi e he => ?_, fun i st hi x hx => ?_,
      fun x hx => ?_⟩
    · obtain ⟨k1, _, k3, _⟩ := key i st hi
      rw [k1]; exact hbound i i st st hi hi e (k3 e he)
    · obtain ⟨_, k2, _, k4⟩ := key i st hi
      rw [k2]; exact hbound i i st st hi hi e (k4 e he)
    · rw [init_queue hinit i st hi] at hx; cases hx
    · rw [hnet] at hx; cases hx
  · intro n a b ha hb ih
    obtain ⟨k, stk, stk', hka, hkb, hoth, hs⟩ := stp_of H ha hb
    have oa := node_ok H ha hka
    have ob := node_ok H hb hkb
    have Ia := node_full H n a ha k stk hka
    have Ib := node_full H (n + 1) b hb k stk' hkb
    -- the nodes that do not step, and the transport
    have hnode : ∀ i st, b.node i = some st → (i = k ∧ st = stk') ∨ (i ≠ k ∧ a.node i = some st) := by
      intro i st hi
      by_cases hik : i = k
      · subst hik; rw [hkb] at hi; cases hi; exact .inl ⟨rfl, rfl⟩
      · rw [hoth i hik] at hi; exact .inr ⟨hik, hi⟩
    have hnet : ∀ x ∈ b.net, x.msgType = .msgAppend → ∀ e ∈ x.entries, e.term ≤ x.term := by
      intro x hx hty
      rcases hs.net_sub x hx with c | c
      · exact ih.net x c hty
      · exact ih.que k stk hka x c hty
    suffices hk : (∀ e ∈ (FL h c0 stk').ents, e.term ≤ stk'.raft.term) ∧
        (∀ e ∈ (FS h c0 stk').ents, e.term ≤ stk'.raft.raftLog.store.hardState.term) ∧
        (∀ x ∈ stk'.raft.msgs, x.msgType = .msgAppend → ∀ e ∈ x.entries, e.term ≤ x.term) by
      obtain ⟨k1, k2, k3⟩ := hk
      refine ⟨fun i st hi => ?_, fun i st hi => ?_, fun i st hi => ?_, hnet⟩
      · rcases hnode i st hi with ⟨_, rfl⟩ | ⟨_, c⟩
        · exact k1
        · exact ih.log i st c
      · rcases hnode i st hi with ⟨_, rfl⟩ | ⟨_, c⟩
        · exact k2
        · exact ih.sto i st c
      · rcases hnode i st hi with ⟨_, rfl⟩ | ⟨_, c⟩
        · exact k3
        · exact ih.que i st c
    cases hs with
    | restart c rnd hboot _ =>
      have hbt := CV.boot_booted c _ rnd stk' hboot
      obtain ⟨_, habs, hsl⟩ := boot_log c _ rnd stk' oa.inv.storeWF hboot
      refine ⟨?_, ?_, ?_⟩
      · rw [FL_restart habs, hbt.term]; exact ih.sto k stk hka
      · rw [FS_same hsl, hbt.hs]; exact ih.sto k stk hka
      · intro x hx; rw [hbt.msgs] at hx; cases hx
    | send hp hu hq hsame _ =>
      refine ⟨?_, ?_, ?_⟩
      · rw [FL_same (st := stk) (by rw [hsame.1]), hsame.2.1]; exact ih.log k stk hka
      · rw [FS_same (st := stk) (by rw [hsame.1]), hsame.1]; exact ih.sto k stk hka
      · intro x hx; rw [hq] at hx; cases hx
    | call rnd op res hop hco hca hcall _ =>
      obtain ⟨g, hL, hq, _, hid⟩ := call_facts H ha hka hop hco hcall
      obtain ⟨_, hse, hhs⟩ := call_more H ha hka hop hco hcall
      -- the ghost log
      have hlog : ∀ e ∈ (FL h c0 stk').ents, e.term ≤ stk'.raft.term := by
        intro e he
        have hold : ∀ e ∈ (FL h c0 stk).ents, e.term ≤ stk'.raft.term :=
          fun e he => Nat.le_trans (ih.log k stk hka e he) hL.rt.le
        have he' := Ib.log.contig.entryAt_of_mem he
        cases fcall_step H ha hb hka hkb hop hco hcall with
        | same hl _ => exact hold e (mem_of_eqAll Ib.log.contig hl he)
        | grew es hg hl hnew =>
          by_cases hi : e.index ≤ stk.raft.raftLog.abs.lastIndex
          · rw [hl _ hi] at he'
            exact hold e ((FL h c0 stk).entryAt_mem he')
          · exact Nat.le_of_eq (hg.terms e (hnew _ e he' (by omega)))
        | acc m hm hty hto hacc _ _ _ _ ht =>
          rcases hacc.cases with c | ⟨_, _, c⟩
          · exact hold e (mem_of_eqAll Ib.log.contig c he)
          · rcases c e.index e he' with d | d
            · exact hold e ((FL h c0 stk).entryAt_mem d)
            · have := ih.net m hm hty e d
              rcases ht with t1 | t1 <;> omega
      -- the ghost stored log
      have hsto : ∀ e ∈ (FS h c0 stk').ents,
          e.term ≤ stk'.raft.raftLog.store.hardState.term := by
        intro e he
        by_cases hst : op = .stabilize
        · subst hst
          obtain ⟨k1, k2, k3, _, k5, _⟩ := stabilize_out oa.inv oa.snap hcall
          rw [k2.1, k5]
          rw [← FL_eq_FS ob k1, FL_same k3] at he
          exact ih.log k stk hka e he
        · have hterm : stk'.raft.raftLog.store.hardState.term =
              stk.raft.raftLog.store.hardState.term := by
            rcases hhs with d | ⟨j, _, d⟩ | ⟨d, _⟩
            · rw [d]
            · rw [d]
            · exact absurd d hst
          rw [hterm]
          rcases hse with c | c | ⟨j, _, ho⟩
          · rw [FS_same c.storeLog] at he; exact ih.sto k stk hka e he
          · exact absurd c hst
          · obtain ⟨_, l2⟩ := ho.lt oa.inv
            have hF2 := (Ia.sto.compact l2).congr ho.sto
            exact ih.sto k stk hka e (mem_of_eqAll Ib.sto.contig (fl_eq (hist_agree H) hF2) he)
      -- the queue
      have hque : ∀ x ∈ stk'.raft.msgs, x.msgType = .msgAppend →
          ∀ e ∈ x.entries, e.term ≤ x.term := by
        intro x hx hty e he
        rcases g.qlk x hx (by rw [hty]; rfl) with c | c
        · exact ih.que k stk hka x c hty e he
        · rcases hq x hx hty with d | d
          · exact ih.que k stk hka x d hty e he
          · rw [c.term]
            exact hlog e ((FL h c0 stk').entryAt_mem (Ib.log.entry (subw_entries d e he)))
      exact ⟨hlog, hsto, hque⟩

end Snap
end Cluster
end RaftModel
