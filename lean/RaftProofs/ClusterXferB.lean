import RaftProofs.ClusterXferA
import RaftProofs.ClusterCommit4M

/-!
Cluster-level leadership transfer (C17c), part B: **provenance of the `MsgTimeoutNow` messages of a
history** (`tn_prov`: each was queued by a node that led the message's term, for an addressee whose
progress had `matched = last_index` at that moment), and **what stands behind that `matched`**
(`tn_backed`): an accepting `MsgAppendResponse` of the addressee for the leader's term that covers the
leader's whole log is in the transport; when the addressee queued it, its log held the leader's whole
log; and its *storage* holds the leader's whole log in every state in which the response is in the
transport and the stored term is still the leader's term.
-/
namespace RaftModel
namespace Cluster
open Node Raft Raft.CC RaftProps.C02 RaftProps.C05

variable {cfg : JointConfig} {c0 : Nat} {h : List Sys}

/-- what is recorded about a `MsgTimeoutNow` when it is queued: the node that queues it leads the
message's term, and its progress for the addressee has `matched = last_index` -/
def TnGen (h : List Sys) (n i : Nat) (x : Message) : Prop :=
  ∃ s st pr, h[n]? = some s ∧ s.node i = some st ∧ st.raft.state = .leader ∧
    x.term = st.raft.term ∧ x.frm = i ∧ st.raft.prs.get x.to = some pr ∧
    pr.matched = st.raft.raftLog.lastIndex

/-- **provenance of the `MsgTimeoutNow` messages** (queues and transport) -/
theorem tn_prov (H : Hyp cfg h) : ∀ (n : Nat) (s : Sys), h[n]? = some s →
    (∀ i st, s.node i = some st → ∀ x ∈ st.raft.msgs, x.msgType = .msgTimeoutNow →
      Gen (TnGen h) n i x) ∧
    (∀ x ∈ s.net, x.msgType = .msgTimeoutNow → ∃ i, Gen (TnGen h) n i x) := by
  refine provenance h H.hist H.steps (fun x => x.msgType = .msgTimeoutNow) (TnGen h) ?_
  intro n a b i st st' rnd op res _ hb _ hi' hcall _ _ _ x hx hK
  rcases XF.call_tn st st' rnd op res hcall x hx hK with c | ⟨c1, c2, c3, pr, c4, c5⟩
  · exact .inl c
  · have hid := (((hist_all H.hist).1 b (mem_of_get hb)).ids i st' hi').1
    exact .inr ⟨b, st', pr, hb, hi', c1, c2, c3.trans hid, c4, c5⟩

/-- the source of a `MsgTimeoutNow` found anywhere in `h[n]` -/
theorem tn_source (H : Hyp cfg h) {n : Nat} {s : Sys} (hn : h[n]? = some s) {x : Message}
    (hx : x ∈ s.net ∨ ∃ i st, s.node i = some st ∧ x ∈ st.raft.msgs)
    (hty : x.msgType = .msgTimeoutNow) :
    ∃ (n0 : Nat) (s0 : Sys) (stL : NState) (pr : Progress), n0 ≤ n ∧ h[n0]? = some s0 ∧
      s0.node x.frm = some stL ∧ stL.raft.state = .leader ∧ stL.raft.term = x.term ∧
      stL.raft.prs.get x.to = some pr ∧ pr.matched = stL.raft.raftLog.lastIndex := by
  have hp := tn_prov H n s hn
  have key : ∃ i, Gen (TnGen h) n i x := by
    rcases hx with hx | ⟨i, st, hi, hx⟩
    · exact hp.2 x hx hty
    · exact ⟨i, hp.1 i st hi x hx hty⟩
  obtain ⟨i, n0, hle, s0, stL, pr, h1, h2, h3, h4, h5, h6, h7⟩ := key
  subst h5
  exact ⟨n0, s0, stL, pr, hle, h1, h2, h3, h4.symm, h6, h7⟩

/-- the acknowledgement that stands behind `matched = last_index` of a leader's progress for `j`:
`a` is an accepting `MsgAppendResponse` of `j` for the leader's term `t` that covers the leader's last
index `li`; `j` queued it at `h[n1]`, `n1 ≤ n0`, in term `t`, with a log that held the leader's log `gL`
up to `li`; and the storage of `j` holds `gL` up to `li` wherever `a` is in the transport and the stored
term of `j` is `t` -/
def XferAck (h : List Sys) (n0 : Nat) (s0 : Sys) (j t li : Nat) (gL : LLog) (a : Message) : Prop :=
  a ∈ s0.net ∧ a.msgType = .msgAppendResponse ∧ a.reject = false ∧ a.frm = j ∧ a.term = t ∧
  li ≤ a.index ∧
  (∃ (n1 : Nat) (s1 : Sys) (stj : NState), n1 ≤ n0 ∧ h[n1]? = some s1 ∧ s1.node j = some stj ∧
    a ∈ stj.raft.msgs ∧
    stj.raft.term = t ∧ ∀ k, k ≤ li → stj.raft.raftLog.abs.entryAt k = gL.entryAt k) ∧
  (∀ (m : Nat) (s' : Sys) (stj : NState), h[m]? = some s' → a ∈ s'.net → s'.node j = some stj →
    stj.raft.raftLog.store.hardState.term = t →
    ∀ k, k ≤ li → (storeLog stj.raft.raftLog.store).entryAt k = gL.entryAt k)

/-- **what backs a leader's `matched = last_index`** for a peer `j` -/
theorem matched_backed (H : Hyp3w cfg c0 h) {n0 : Nat} {s0 : Sys} (hn0 : h[n0]? = some s0)
    {l : Nat} {stL : NState} (hl : s0.node l = some stL) (hs : stL.raft.state = .leader)
    {j : Nat} {pr : Progress} (hg : stL.raft.prs.get j = some pr)
    (hm : pr.matched = stL.raft.raftLog.lastIndex) :
    stL.raft.raftLog.lastIndex ≤ c0 ∨
    (j = l ∧ stL.raft.raftLog.lastIndex ≤ stL.raft.raftLog.persisted) ∨
    ∃ a, XferAck h n0 s0 j stL.raft.term stL.raft.raftLog.lastIndex stL.raft.raftLog.abs a := by
  have H2 := H.toHyp2w
  have Ha := H.toHyp3a
  have ol := node_ok H2 hn0 hl
  have hLL : LeaderLog h n0 stL.raft.term stL.raft.raftLog.abs :=
    ⟨n0, s0, l, stL, Nat.le_refl _, hn0, hl, hs, rfl, rfl⟩
  have hmok := (H2.toHyp.mokc n0 s0 hn0 l stL hl).h hs j pr.matched (mfun_of_get hg)
  rw [hm] at hmok
  rcases hmok with c | ⟨c1, c2⟩ | ⟨a, ha, hack, hfrm, hterm, hidx⟩
  · left; omega
  · right; left
    exact ⟨c1.trans ol.id, c2⟩
  · by_cases hc : a.index ≤ c0
    · left; omega
    · right; right
      have hx0 : a.index ≠ 0 := by omega
      have htnz := ((ack_inv H2 n0 s0 hn0).2 a ha hack hx0).2
      have hterm' : a.term = stL.raft.term := by
        rcases hterm with c | c
        · exact c
        · exact absurd c htnz
      -- every promise about `a` reaches the leader's log at `h[n0]`
      have fin : ∀ {m : Nat} {g : LLog}, Promise h m a g →
          ∀ k, k ≤ stL.raft.raftLog.lastIndex → g.entryAt k = stL.raft.raftLog.abs.entryAt k := by
        intro m g ⟨L', hL', hle, heq⟩ k hk
        rw [heq k (by omega)]
        rw [hterm'] at hL'
        exact ll_eq H2 hL' hLL (by omega) (by rw [← ol.inv.lastIndex_abs]; exact hk)
      obtain ⟨i, n1, hn1, s1, st1, h1, h2, h3, h4, h5⟩ :=
        (ack_prov H2 n0 s0 hn0).2 a ha ⟨hack, hx0⟩
      have hij : i = j := h5.symm.trans hfrm
      subst hij
      have hp := (sm_all Ha h1).a2m i st1 h2 a (.inr h3) hack h5 (by omega) h4
      refine ⟨a, ha, hack.1, hack.2, hfrm, hterm', hidx,
        ⟨n1, s1, st1, hn1, h1, h2, h3, h4.symm.trans hterm', fin hp⟩, ?_⟩
      intro m s' stj hm' has hj hst
      exact fin ((sm_all Ha hm').a2s i stj hj a has hack hfrm (by omega) (hterm'.trans hst.symm))

/-- the transport only grows along a history -/
theorem hist_net_mono (hh : History h) {n n' : Nat} {s s' : Sys} (hn : h[n]? = some s)
    (hn' : h[n']? = some s') (hle : n ≤ n') : ∀ x ∈ s.net, x ∈ s'.net :=
  steps_net ((hist_all hh).2.2 n n' s s' hle hn hn')

end Cluster
end RaftModel
