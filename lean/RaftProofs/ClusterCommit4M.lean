import RaftProofs.ClusterCommit3H
import RaftProofs.ClusterCommit4L

/-!
Cluster-level commit safety, part 4M: **a concrete history with a read-index round trip**
(kernel-evaluated) that satisfies every hypothesis of the commit layer without gaps (`Hyp3w`), in which
a `MsgReadIndexResp` **is** in the transport and a follower moves its commit index by it.

The history of `RaftProofs/ClusterCommit3H.lean` (node 1 leads term 1 and has committed index 1 with
the acknowledgement of node 2) continued by eleven steps: node 3 is delivered the `MsgAppend` with the
leader's entry and persists it; its application asks for a read index (`read_index`), the forwarded
`MsgReadIndex` reaches node 1, which records the pending read at its commit index 1 and broadcasts
heartbeats carrying the context; node 2 obeys its heartbeat and answers; with that answer node 1 has a
quorum for the read and queues the `MsgReadIndexResp(index = 1, term = 1)` for node 3; node 3 — whose
commit index is still 0 (its heartbeat, with `commit = min(matched, committed) = 0`, was never
delivered) — receives it and commits index 1 (`maybe_commit(1, 1)`).
-/
namespace RaftModel
namespace Cluster
open Node Raft Raft.CC RaftProps.C02 RaftProps.C05

/-- the `MsgAppend` for node 3 that node 1 sent when it was elected -/
def c01y_app3 := c05x_a5.raft.msgs.tail.head!
def c01y_c1 := c02x_st (Node.call (c02x_boot 3) none (.step c01y_app3))
def c01y_c2 := c02x_st (Node.call c01y_c1 none .stabilize)
def c01y_c3 := c02x_st (Node.call c01y_c2 none (.readIndex [7]))
def c01y_c4 := c02x_st (Node.call c01y_c3 none .drain)
/-- the forwarded `MsgReadIndex` of node 3 -/
def c01y_ri := c01y_c3.raft.msgs.tail.head!
def c01y_a9 := c02x_st (Node.call c01x_a8 none (.step c01y_ri))
def c01y_a10 := c02x_st (Node.call c01y_a9 none .drain)
/-- the heartbeat for node 2 that carries the read context -/
def c01y_hb := c01y_a9.raft.msgs.tail.head!
def c01y_b7 := c02x_st (Node.call c01x_b6 none (.step c01y_hb))
def c01y_b8 := c02x_st (Node.call c01y_b7 none .drain)
def c01y_hbr := c01y_b7.raft.msgs.head!
def c01y_a11 := c02x_st (Node.call c01y_a10 none (.step c01y_hbr))
def c01y_a12 := c02x_st (Node.call c01y_a11 none .drain)
/-- the `MsgReadIndexResp` for node 3 -/
def c01y_rir := c01y_a11.raft.msgs.head!
def c01y_c5 := c02x_st (Node.call c01y_c4 none (.step c01y_rir))

def c01y_s15 : Sys := c01x_s14.setNode 3 c01y_c1
def c01y_s16 : Sys := c01y_s15.setNode 3 c01y_c2
def c01y_s17 : Sys := c01y_s16.setNode 3 c01y_c3
def c01y_s18 : Sys :=
  { (c01y_s17.setNode 3 c01y_c4) with net := c01y_s17.net ++ c01y_c3.raft.msgs }
def c01y_s19 : Sys := c01y_s18.setNode 1 c01y_a9
def c01y_s20 : Sys :=
  { (c01y_s19.setNode 1 c01y_a10) with net := c01y_s19.net ++ c01y_a9.raft.msgs }
def c01y_s21 : Sys := c01y_s20.setNode 2 c01y_b7
def c01y_s22 : Sys :=
  { (c01y_s21.setNode 2 c01y_b8) with net := c01y_s21.net ++ c01y_b7.raft.msgs }
def c01y_s23 : Sys := c01y_s22.setNode 1 c01y_a11
def c01y_s24 : Sys :=
  { (c01y_s23.setNode 1 c01y_a12) with net := c01y_s23.net ++ c01y_a11.raft.msgs }
def c01y_s25 : Sys := c01y_s24.setNode 3 c01y_c5

def c01y_tail : List Sys :=
  [c01y_s15, c01y_s16, c01y_s17, c01y_s18, c01y_s19, c01y_s20, c01y_s21, c01y_s22, c01y_s23,
   c01y_s24, c01y_s25]

def c01y_hist : List Sys := c01x_hist ++ c01y_tail

theorem tail_head_mem (l : List Message) (h : l.tail ≠ []) : l.tail.head! ∈ l :=
  List.mem_of_mem_tail (c02x_head_mem _ h)

set_option maxRecDepth 100000 in
theorem c01y_ksteps : Chained KStep (c01x_s14 :: c01y_tail) := by
  refine ⟨?_, ?_, ?_, ?_, ?_, ?_, ?_, ?_, ?_, ?_, ?_, trivial⟩
  · exact KStep.deliver _ 3 (c02x_boot 3) c01y_c1 none c01y_app3 _ rfl
      (List.mem_append_left _ (List.mem_append_right _ (tail_head_mem _ (by decide))))
      (by decide) (c02x_out _ (by decide))
  · exact KStep.call _ 3 c01y_c1 c01y_c2 none .stabilize _ rfl rfl
      (fun k hc => by cases hc) (fun k hc => by cases hc) (c02x_out _ (by decide))
  · exact KStep.call _ 3 c01y_c2 c01y_c3 none (.readIndex [7]) _ rfl rfl
      (fun k hc => by cases hc) (fun k hc => by cases hc) (c02x_out _ (by decide))
  · exact KStep.send _ 3 c01y_c3 c01y_c4 rfl ⟨by decide, by decide⟩
      (fun _ => ⟨by decide, rfl⟩) rfl
  · exact KStep.deliver _ 1 c01x_a8 c01y_a9 none c01y_ri _ rfl
      (List.mem_append_right _ (tail_head_mem _ (by decide))) (by decide) (c02x_out _ (by decide))
  · exact KStep.send _ 1 c01y_a9 c01y_a10 rfl ⟨by decide, by decide⟩
      (fun _ => ⟨by decide, rfl⟩) rfl
  · exact KStep.deliver _ 2 c01x_b6 c01y_b7 none c01y_hb _ rfl
      (List.mem_append_right _ (tail_head_mem _ (by decide))) (by decide) (c02x_out _ (by decide))
  · exact KStep.send _ 2 c01y_b7 c01y_b8 rfl ⟨by decide, by decide⟩
      (fun _ => ⟨by decide, rfl⟩) rfl
  · exact KStep.deliver _ 1 c01y_a10 c01y_a11 none c01y_hbr _ rfl
      (List.mem_append_right _ (c02x_head_mem _ (by decide))) (by decide) (c02x_out _ (by decide))
  · exact KStep.send _ 1 c01y_a11 c01y_a12 rfl ⟨by decide, by decide⟩
      (fun _ => ⟨by decide, rfl⟩) rfl
  · exact KStep.deliver _ 3 c01y_c4 c01y_c5 none c01y_rir _ rfl
      (List.mem_append_right _ (c02x_head_mem _ (by decide))) (by decide) (c02x_out _ (by decide))

theorem chained_append {R : Sys → Sys → Prop} : ∀ (l : List Sys) (s : Sys) (t : List Sys),
    Chained R (l ++ [s]) → Chained R (s :: t) → Chained R (l ++ s :: t) := by
  intro l
  induction l with
  | nil => intro s t _ h2; exact h2
  | cons x l ih =>
    intro s t h1 h2
    cases l with
    | nil => exact ⟨h1.1, h2⟩
    | cons y l' => exact ⟨h1.1, ih s t h1.2 h2⟩

theorem c01y_hist_eq : c01y_hist =
    (c05x_hist ++ [c01x_s11, c01x_s12, c01x_s13]) ++ c01x_s14 :: c01y_tail := by
  simp [c01y_hist, c01x_hist]

theorem c01y_ksteps_all : Chained KStep c01y_hist := by
  rw [c01y_hist_eq]
  refine chained_append _ _ _ ?_ c01y_ksteps
  have := c01x_ksteps
  simpa [c01x_hist] using this

theorem c01y_history : History c01y_hist := by
  rw [c01y_hist_eq]
  refine chained_history _ c01x_s14 ?_ _ (Chained.mono (fun _ _ hc => hc.step) _ c01y_ksteps)
  have := c01x_history
  simpa [c01x_hist] using this

/-- what `Hyp3w` assumes about one message of the transport -/
def c01y_msgOk (x : Message) : Prop := x.msgType ≠ .msgSnapshot

instance (x : Message) : Decidable (c01y_msgOk x) := by unfold c01y_msgOk; infer_instance

def c01y_chk (s : Sys) : Bool :=
  c02x_fixed s && c05x_nobatch s && s.net.all (fun x => decide (c01y_msgOk x)) &&
  s.nodes.all (fun p => c01x_nodeOk p.2)

theorem c01y_chk_ok (s : Sys) (h : c01y_chk s = true) :
    FixedCfg c02x_cfg s ∧ NoBatch s ∧ (∀ x ∈ s.net, c01y_msgOk x) ∧
    ∀ i st, s.node i = some st → c01x_nodeOk st = true := by
  unfold c01y_chk at h
  simp only [Bool.and_eq_true] at h
  obtain ⟨⟨⟨h1, h2⟩, h3⟩, h4⟩ := h
  refine ⟨c02x_fixed_ok s h1, c05x_nobatch_ok s h2, fun x hx => ?_, fun i st hi => ?_⟩
  · rw [List.all_eq_true] at h3
    exact of_decide_eq_true (h3 x hx)
  · rw [List.all_eq_true] at h4
    exact h4 _ (c02_lookup_mem s.nodes i st hi)

set_option maxRecDepth 100000 in
theorem c01y_chk_tail : ∀ s ∈ c01y_tail, c01y_chk s = true := by
  intro s hs
  simp only [c01y_tail, List.mem_cons, List.not_mem_nil, or_false] at hs
  rcases hs with rfl | rfl | rfl | rfl | rfl | rfl | rfl | rfl | rfl | rfl | rfl <;> decide

theorem c01y_chk_all : ∀ s ∈ c01y_hist, c01y_chk s = true := by
  intro s hs
  rcases List.mem_append.1 hs with c | c
  · have h1 := c01x_chk_all s c
    unfold c01x_chk at h1
    unfold c01y_chk
    simp only [Bool.and_eq_true] at h1 ⊢
    obtain ⟨⟨⟨a1, a2⟩, a3⟩, a4⟩ := h1
    refine ⟨⟨⟨a1, a2⟩, ?_⟩, a4⟩
    rw [List.all_eq_true] at a3 ⊢
    intro x hx
    exact decide_eq_true (of_decide_eq_true (a3 x hx)).1
  · exact c01y_chk_tail s c

/-- **the history satisfies every hypothesis of the commit layer without gaps** -/
theorem c01y_hyp3w : Hyp3w c02x_cfg 0 c01y_hist := by
  have h0 : c01y_hist[0]? = some c02x_s0 := rfl
  have hall := fun s hs => c01y_chk_ok s (c01y_chk_all s hs)
  have hnode : ∀ s ∈ c01y_hist, ∀ i st, s.node i = some st →
      st.raft.raftLog.unstable.snapshot = none ∧ st.raft.raftLog.store.firstIndex = 1 ∧
      (st.raft.raftLog.abs.snapTerm = some 0 ∨ st.raft.raftLog.abs.snapTerm = none) := by
    intro s hs i st hi
    have := (hall s hs).2.2.2 i st hi
    unfold c01x_nodeOk at this
    simp only [Bool.and_eq_true, Bool.or_eq_true, decide_eq_true_eq, Option.isNone_iff_eq_none] at this
    exact ⟨this.1.1, this.1.2, this.2⟩
  refine ⟨⟨⟨c01y_history, fun s hs => (hall s hs).1, by decide, by decide, by decide, ?_,
    chained_at _ c01y_ksteps_all, fun s hs => (hall s hs).2.1, fun s hs x hx => (hall s hs).2.2.1 x hx⟩,
    c01x_nolone, fun s hs i st hi => ⟨(hnode s hs i st hi).1, (hnode s hs i st hi).2.1⟩, ?_⟩, ?_⟩
  · intro s hs
    rw [h0] at hs; cases hs
    exact c05x_initOk
  · intro s hs i st hi
    rw [h0] at hs; cases hs
    have hm := c02_lookup_mem _ i st hi
    simp only [c02x_s0, List.mem_cons, Prod.mk.injEq, List.not_mem_nil, or_false] at hm
    rcases hm with ⟨rfl, rfl⟩ | ⟨rfl, rfl⟩ | ⟨rfl, rfl⟩ <;> decide
  · intro s hs i st hi t0 ht0 j st0 _
    rcases (hnode s (mem_of_get hs) i st hi).2.2 with c | c
    · rw [c] at ht0; cases ht0; exact Nat.zero_le _
    · rw [c] at ht0; cases ht0


/-! ### the `Snapshot` progress state is reachable under `Hyp3w`

Three more steps: the application of node 2 calls `request_snapshot`, the rejecting `MsgAppendResponse`
with the request reaches node 1, which queues a `MsgSnapshot` for node 2 and moves its progress to
`Snapshot` — a message it can never hand to the transport in a history without snapshot traffic. -/

def c01z_b9 := c02x_st (Node.call c01y_b8 none .requestSnapshot)
def c01z_b10 := c02x_st (Node.call c01z_b9 none .drain)
def c01z_rq := c01z_b9.raft.msgs.head!
def c01z_a13 := c02x_st (Node.call c01y_a12 none (.step c01z_rq))

def c01z_s26 : Sys := c01y_s25.setNode 2 c01z_b9
def c01z_s27 : Sys :=
  { (c01z_s26.setNode 2 c01z_b10) with net := c01z_s26.net ++ c01z_b9.raft.msgs }
def c01z_s28 : Sys := c01z_s27.setNode 1 c01z_a13

def c01z_tail : List Sys := [c01z_s26, c01z_s27, c01z_s28]
def c01z_hist : List Sys := c01y_hist ++ c01z_tail

set_option maxRecDepth 100000 in
theorem c01z_ksteps : Chained KStep (c01y_s25 :: c01z_tail) := by
  refine ⟨?_, ?_, ?_, trivial⟩
  · exact KStep.call _ 2 c01y_b8 c01z_b9 none .requestSnapshot _ rfl rfl
      (fun k hc => by cases hc) (fun k hc => by cases hc) (c02x_out _ (by decide))
  · exact KStep.send _ 2 c01z_b9 c01z_b10 rfl ⟨by decide, by decide⟩
      (fun _ => ⟨by decide, rfl⟩) rfl
  · exact KStep.deliver _ 1 c01y_a12 c01z_a13 none c01z_rq _ rfl
      (List.mem_append_right _ (c02x_head_mem _ (by decide))) (by decide) (c02x_out _ (by decide))

theorem c01z_hist_eq : c01z_hist =
    (c01x_hist ++ [c01y_s15, c01y_s16, c01y_s17, c01y_s18, c01y_s19, c01y_s20, c01y_s21, c01y_s22,
      c01y_s23, c01y_s24]) ++ c01y_s25 :: c01z_tail := by
  simp [c01z_hist, c01y_hist, c01y_tail]

theorem c01z_ksteps_all : Chained KStep c01z_hist := by
  rw [c01z_hist_eq]
  refine chained_append _ _ _ ?_ c01z_ksteps
  have := c01y_ksteps_all
  simpa [c01y_hist, c01y_tail] using this

theorem c01z_history : History c01z_hist := by
  rw [c01z_hist_eq]
  refine chained_history _ c01y_s25 ?_ _ (Chained.mono (fun _ _ hc => hc.step) _ c01z_ksteps)
  have := c01y_history
  simpa [c01y_hist, c01y_tail] using this

set_option maxRecDepth 100000 in
theorem c01z_chk_tail : ∀ s ∈ c01z_tail, c01y_chk s = true := by
  intro s hs
  simp only [c01z_tail, List.mem_cons, List.not_mem_nil, or_false] at hs
  rcases hs with rfl | rfl | rfl <;> decide

theorem c01z_chk_all : ∀ s ∈ c01z_hist, c01y_chk s = true := by
  intro s hs
  rcases List.mem_append.1 hs with c | c
  · exact c01y_chk_all s c
  · exact c01z_chk_tail s c

theorem c01z_hyp3w : Hyp3w c02x_cfg 0 c01z_hist := by
  have h0 : c01z_hist[0]? = some c02x_s0 := rfl
  have hall := fun s hs => c01y_chk_ok s (c01z_chk_all s hs)
  have hnode : ∀ s ∈ c01z_hist, ∀ i st, s.node i = some st →
      st.raft.raftLog.unstable.snapshot = none ∧ st.raft.raftLog.store.firstIndex = 1 ∧
      (st.raft.raftLog.abs.snapTerm = some 0 ∨ st.raft.raftLog.abs.snapTerm = none) := by
    intro s hs i st hi
    have := (hall s hs).2.2.2 i st hi
    unfold c01x_nodeOk at this
    simp only [Bool.and_eq_true, Bool.or_eq_true, decide_eq_true_eq, Option.isNone_iff_eq_none] at this
    exact ⟨this.1.1, this.1.2, this.2⟩
  refine ⟨⟨⟨c01z_history, fun s hs => (hall s hs).1, by decide, by decide, by decide, ?_,
    chained_at _ c01z_ksteps_all, fun s hs => (hall s hs).2.1, fun s hs x hx => (hall s hs).2.2.1 x hx⟩,
    c01x_nolone, fun s hs i st hi => ⟨(hnode s hs i st hi).1, (hnode s hs i st hi).2.1⟩, ?_⟩, ?_⟩
  · intro s hs
    rw [h0] at hs; cases hs
    exact c05x_initOk
  · intro s hs i st hi
    rw [h0] at hs; cases hs
    have hm := c02_lookup_mem _ i st hi
    simp only [c02x_s0, List.mem_cons, Prod.mk.injEq, List.not_mem_nil, or_false] at hm
    rcases hm with ⟨rfl, rfl⟩ | ⟨rfl, rfl⟩ | ⟨rfl, rfl⟩ <;> decide
  · intro s hs i st hi t0 ht0 j st0 _
    rcases (hnode s (mem_of_get hs) i st hi).2.2 with c | c
    · rw [c] at ht0; cases ht0; exact Nat.zero_le _
    · rw [c] at ht0; cases ht0

end Cluster
end RaftModel
