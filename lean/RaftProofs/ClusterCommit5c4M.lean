import RaftProofs.ClusterCommit5c4L
import RaftProofs.ClusterCommit5Z1
import RaftProofs.ClusterCommit4M

/-!
Cluster-level commit safety **with `batch_append`**, part 5c4M: **a concrete history with batching on**
(kernel-evaluated) that satisfies every hypothesis of the commit layer without `NoBatch` (`Hyp3wB`), in
which `try_batching` glues the entries of two proposals onto a queued `MsgAppend` and the leader then
commits them with the acknowledgement of that batched message.

The history of `RaftProofs/ClusterCommit3H.lean` (node 1 leads term 1 and has committed index 1 with the
acknowledgement of node 2; its queue holds an entry-less `MsgAppend(index 1, log_term 1, commit 1)` for
node 2) continued by ten steps: the application of node 1 calls `set_batch_append(true)`, proposes twice
(each proposal is glued onto the queued append, which then carries entries 2 and 3), persists and reports
its own entries, and sends; node 2 is delivered the batched append, persists, and sends its
acknowledgement (index 3); its delivery takes the commit index of node 1 from 1 to 3.
-/
namespace RaftModel
namespace ClusterB
open Node Raft Raft.CC Cluster RaftProps.C02 RaftProps.C05

def c01w_a9 := c02x_st (Node.call c01x_a8 none (.setBatchAppend true))
def c01w_a10 := c02x_st (Node.call c01w_a9 none (.propose [] [1]))
def c01w_a11 := c02x_st (Node.call c01w_a10 none (.propose [] [2]))
def c01w_a12 := c02x_st (Node.call c01w_a11 none .stabilize)
def c01w_a13 := c02x_st (Node.call c01w_a12 none (.onPersistEntries 3 1))
def c01w_a14 := c02x_st (Node.call c01w_a13 none .drain)
/-- the batched `MsgAppend` for node 2: anchor (1, 1), entries 2 and 3 -/
def c01w_app := c01w_a13.raft.msgs.head!
def c01w_b7 := c02x_st (Node.call c01x_b6 none (.step c01w_app))
def c01w_b8 := c02x_st (Node.call c01w_b7 none .stabilize)
def c01w_b9 := c02x_st (Node.call c01w_b8 none .drain)
def c01w_ack := c01w_b8.raft.msgs.head!
def c01w_a15 := c02x_st (Node.call c01w_a14 none (.step c01w_ack))

def c01w_s15 : Sys := c01x_s14.setNode 1 c01w_a9
def c01w_s16 : Sys := c01w_s15.setNode 1 c01w_a10
def c01w_s17 : Sys := c01w_s16.setNode 1 c01w_a11
def c01w_s18 : Sys := c01w_s17.setNode 1 c01w_a12
def c01w_s19 : Sys := c01w_s18.setNode 1 c01w_a13
def c01w_s20 : Sys :=
  { (c01w_s19.setNode 1 c01w_a14) with net := c01w_s19.net ++ c01w_a13.raft.msgs }
def c01w_s21 : Sys := c01w_s20.setNode 2 c01w_b7
def c01w_s22 : Sys := c01w_s21.setNode 2 c01w_b8
def c01w_s23 : Sys :=
  { (c01w_s22.setNode 2 c01w_b9) with net := c01w_s22.net ++ c01w_b8.raft.msgs }
def c01w_s24 : Sys := c01w_s23.setNode 1 c01w_a15

def c01w_tail : List Sys :=
  [c01w_s15, c01w_s16, c01w_s17, c01w_s18, c01w_s19, c01w_s20, c01w_s21, c01w_s22, c01w_s23,
   c01w_s24]

def c01w_hist : List Sys := c01x_hist ++ c01w_tail

set_option maxRecDepth 100000 in
theorem c01w_ksteps : Chained KStep (c01x_s14 :: c01w_tail) := by
  refine ⟨?_, ?_, ?_, ?_, ?_, ?_, ?_, ?_, ?_, ?_, trivial⟩
  · exact KStep.call _ 1 c01x_a8 c01w_a9 none (.setBatchAppend true) _ rfl rfl
      (fun k hc => by cases hc) (fun k hc => by cases hc) (c02x_out _ (by decide))
  · exact KStep.call _ 1 c01w_a9 c01w_a10 none (.propose [] [1]) _ rfl rfl
      (fun k hc => by cases hc) (fun k hc => by cases hc) (c02x_out _ (by decide))
  · exact KStep.call _ 1 c01w_a10 c01w_a11 none (.propose [] [2]) _ rfl rfl
      (fun k hc => by cases hc) (fun k hc => by cases hc) (c02x_out _ (by decide))
  · exact KStep.call _ 1 c01w_a11 c01w_a12 none .stabilize _ rfl rfl
      (fun k hc => by cases hc) (fun k hc => by cases hc) (c02x_out _ (by decide))
  · exact KStep.call _ 1 c01w_a12 c01w_a13 none (.onPersistEntries 3 1) _ rfl rfl
      (fun k hc => by cases hc) (fun k hc => by cases hc) (c02x_out _ (by decide))
  · exact KStep.send _ 1 c01w_a13 c01w_a14 rfl ⟨by decide, by decide⟩
      (fun _ => ⟨by decide, rfl⟩) rfl
  · exact KStep.deliver _ 2 c01x_b6 c01w_b7 none c01w_app _ rfl
      (List.mem_append_right _ (c02x_head_mem _ (by decide))) (by decide) (c02x_out _ (by decide))
  · exact KStep.call _ 2 c01w_b7 c01w_b8 none .stabilize _ rfl rfl
      (fun k hc => by cases hc) (fun k hc => by cases hc) (c02x_out _ (by decide))
  · exact KStep.send _ 2 c01w_b8 c01w_b9 rfl ⟨by decide, by decide⟩
      (fun _ => ⟨by decide, rfl⟩) rfl
  · exact KStep.deliver _ 1 c01w_a14 c01w_a15 none c01w_ack _ rfl
      (List.mem_append_right _ (c02x_head_mem _ (by decide))) (by decide) (c02x_out _ (by decide))

theorem c01w_hist_eq : c01w_hist =
    (c05x_hist ++ [c01x_s11, c01x_s12, c01x_s13]) ++ c01x_s14 :: c01w_tail := by
  simp [c01w_hist, c01x_hist]

theorem c01w_ksteps_all : Chained KStep c01w_hist := by
  rw [c01w_hist_eq]
  refine chained_append _ _ _ ?_ c01w_ksteps
  have := c01x_ksteps
  simpa [c01x_hist] using this

theorem c01w_history : History c01w_hist := by
  rw [c01w_hist_eq]
  refine chained_history _ c01x_s14 ?_ _ (Chained.mono (fun _ _ hc => hc.step) _ c01w_ksteps)
  have := c01x_history
  simpa [c01x_hist] using this

/-- what `Hyp3wB` assumes about one state: fixed voters, no `MsgSnapshot` in the transport or in a
queue, the shape of the nodes -/
def c01w_chk (s : Sys) : Bool :=
  c02x_fixed s && s.net.all (fun x => decide (x.msgType ≠ .msgSnapshot)) &&
  s.nodes.all (fun p => c01x_nodeOk p.2 &&
    p.2.raft.msgs.all (fun y => decide (y.msgType ≠ .msgSnapshot)))

theorem c01w_chk_ok (s : Sys) (h : c01w_chk s = true) :
    FixedCfg c02x_cfg s ∧ (∀ x ∈ s.net, x.msgType ≠ .msgSnapshot) ∧
    ∀ i st, s.node i = some st → c01x_nodeOk st = true ∧
      ∀ y ∈ st.raft.msgs, y.msgType ≠ .msgSnapshot := by
  unfold c01w_chk at h
  simp only [Bool.and_eq_true] at h
  obtain ⟨⟨h1, h3⟩, h4⟩ := h
  refine ⟨c02x_fixed_ok s h1, fun x hx => ?_, fun i st hi => ?_⟩
  · rw [List.all_eq_true] at h3
    exact of_decide_eq_true (h3 x hx)
  · rw [List.all_eq_true] at h4
    have := h4 _ (c02_lookup_mem s.nodes i st hi)
    simp only [Bool.and_eq_true] at this
    refine ⟨this.1, fun y hy => ?_⟩
    have h5 := this.2
    rw [List.all_eq_true] at h5
    exact of_decide_eq_true (h5 y hy)

set_option maxRecDepth 100000 in
theorem c01w_chk_all : ∀ s ∈ c01w_hist, c01w_chk s = true := by
  intro s hs
  simp only [c01w_hist, c01w_tail, c01x_hist, c05x_hist, c02x_hist, List.cons_append,
    List.nil_append, List.mem_cons, List.not_mem_nil, or_false] at hs
  rcases hs with rfl | rfl | rfl | rfl | rfl | rfl | rfl | rfl | rfl | rfl | rfl | rfl | rfl |
    rfl | rfl | rfl | rfl | rfl | rfl | rfl | rfl | rfl | rfl | rfl | rfl <;> decide

/-- **the history satisfies every hypothesis of the commit layer without `NoBatch`** -/
theorem c01w_hyp3wB : Hyp3wB c02x_cfg 0 c01w_hist := by
  have h0 : c01w_hist[0]? = some c02x_s0 := rfl
  have hall := fun s hs => c01w_chk_ok s (c01w_chk_all s hs)
  have hnode : ∀ s ∈ c01w_hist, ∀ i st, s.node i = some st →
      st.raft.raftLog.unstable.snapshot = none ∧ st.raft.raftLog.store.firstIndex = 1 ∧
      (st.raft.raftLog.abs.snapTerm = some 0 ∨ st.raft.raftLog.abs.snapTerm = none) := by
    intro s hs i st hi
    have := ((hall s hs).2.2 i st hi).1
    unfold c01x_nodeOk at this
    simp only [Bool.and_eq_true, Bool.or_eq_true, decide_eq_true_eq, Option.isNone_iff_eq_none] at this
    exact ⟨this.1.1, this.1.2, this.2⟩
  refine
    { hist := c01w_history, fix := fun s hs => (hall s hs).1, ne := by decide, nd1 := by decide,
      nd2 := by decide, init := ?_, steps := chained_at _ c01w_ksteps_all,
      nosnap := fun s hs x hx => (hall s hs).2.1 x hx, mv := multiVoter_of_nolone c01x_nolone,
      nolone := c01x_nolone,
      shape := fun s hs i st hi => ⟨(hnode s hs i st hi).1, (hnode s hs i st hi).2.1⟩,
      initc := ?_, c0z := rfl, snapt0 := ?_,
      nosq := fun s hs i st hi => ((hall s hs).2.2 i st hi).2 }
  · intro s hs
    rw [h0] at hs; cases hs
    exact c05x_initOk
  · intro s hs i st hi
    rw [h0] at hs; cases hs
    have hm := c02_lookup_mem _ i st hi
    simp only [c02x_s0, List.mem_cons, Prod.mk.injEq, List.not_mem_nil, or_false] at hm
    rcases hm with ⟨rfl, rfl⟩ | ⟨rfl, rfl⟩ | ⟨rfl, rfl⟩ <;> decide
  · intro s hs i st hi t0 ht0 j st0 _
    rcases (hnode s (mem_of_get hs) i st hi).2.2 with c | c
    · rw [c] at ht0; cases ht0; exact Nat.zero_le _
    · rw [c] at ht0; cases ht0

end ClusterB
end RaftModel
