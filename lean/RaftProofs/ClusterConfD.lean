import RaftProofs.ClusterConfC

/-!
C09 at the cluster level, part D: labelled steps of `ClusterSem` (who did what), traces, and what one
step / a trace does to the tracker view of a node.  `LStep` has exactly the premises of
`Cluster.Step`; the label only names the constructor and its arguments, so that "the segment contains
no restart of `i`" or "the changes node `i` applied, in order" can be said.
-/
namespace RaftModel
namespace Cluster
open Node Raft

/-- who did what in one step of the cluster -/
inductive Label where
  | call (i : Nat) (rnd : Option Nat) (op : NodeOp)
  | deliver (i : Nat) (rnd : Option Nat) (m : Message)
  | send (i : Nat)
  | restart (i : Nat) (c : Config) (rnd : Option Nat)

/-- the node a step acts on -/
def Label.node : Label → Nat
  | .call i _ _ => i
  | .deliver i _ _ => i
  | .send i => i
  | .restart i _ _ => i

/-- `Cluster.Step` with its label -/
inductive LStep : Sys → Label → Sys → Prop where
  | call (s : Sys) (i : Nat) (st st' : NState) (rnd : Option Nat) (op : NodeOp) (res : OpRes) :
      s.node i = some st → appOp op = true → Node.call st rnd op = .ok (res, st') →
      LStep s (.call i rnd op) (s.setNode i st')
  | deliver (s : Sys) (i : Nat) (st st' : NState) (rnd : Option Nat) (m : Message) (res : OpRes) :
      s.node i = some st → m ∈ s.net → m.to = i → Node.call st rnd (.step m) = .ok (res, st') →
      LStep s (.deliver i rnd m) (s.setNode i st')
  | send (s : Sys) (i : Nat) (st st' : NState) :
      s.node i = some st → hsPersisted st → Node.call st none .drain = .ok (.ok, st') →
      LStep s (.send i) { (s.setNode i st') with net := s.net ++ st.raft.msgs }
  | restart (s : Sys) (i : Nat) (st st' : NState) (c : Config) (rnd : Option Nat) :
      s.node i = some st → c.id = i → Node.boot c st.raft.raftLog.store rnd = .ok (.ok st') →
      LStep s (.restart i c rnd) (s.setNode i st')

theorem step_iff_lstep {s s' : Sys} : Step s s' ↔ ∃ l, LStep s l s' := by
  constructor
  · intro h
    cases h with
    | call i st st' rnd op res h1 h2 h3 => exact ⟨_, .call s i st st' rnd op res h1 h2 h3⟩
    | deliver i st st' rnd m res h1 h2 h3 h4 => exact ⟨_, .deliver s i st st' rnd m res h1 h2 h3 h4⟩
    | send i st st' h1 h2 h3 => exact ⟨_, .send s i st st' h1 h2 h3⟩
    | restart i st st' c rnd h1 h2 h3 => exact ⟨_, .restart s i st st' c rnd h1 h2 h3⟩
  · rintro ⟨l, h⟩
    cases h with
    | call i st st' rnd op res h1 h2 h3 => exact .call s i st st' rnd op res h1 h2 h3
    | deliver i st st' rnd m res h1 h2 h3 h4 => exact .deliver s i st st' rnd m res h1 h2 h3 h4
    | send i st st' h1 h2 h3 => exact .send s i st st' h1 h2 h3
    | restart i st st' c rnd h1 h2 h3 => exact .restart s i st st' c rnd h1 h2 h3

/-- a labelled run -/
inductive Trace : Sys → List Label → Sys → Prop where
  | refl (s : Sys) : Trace s [] s
  | tail (a b c : Sys) (ls : List Label) (l : Label) : Trace a ls b → LStep b l c → Trace a (ls ++ [l]) c

theorem steps_trace {s s' : Sys} (h : Steps s s') : ∃ ls, Trace s ls s' := by
  induction h with
  | refl => exact ⟨[], .refl _⟩
  | tail b c _ hs ih =>
    obtain ⟨ls, ht⟩ := ih
    obtain ⟨l, hl⟩ := step_iff_lstep.1 hs
    exact ⟨ls ++ [l], .tail _ _ _ _ _ ht hl⟩

/-- any two states of a history, the earlier first, are joined by a labelled run -/
theorem hist_trace {h : List Sys} (hh : History h) (i j : Nat) (s s' : Sys) (hij : i ≤ j)
    (hi : h[i]? = some s) (hj : h[j]? = some s') : ∃ ls, Trace s ls s' :=
  steps_trace ((hist_all hh).2.2 i j s s' hij hi hj)

/-- what a labelled step does to node `k`: every node other than the acting one is untouched -/
theorem lstep_other {s s' : Sys} {l : Label} (h : LStep s l s') (k : Nat) (hk : k ≠ l.node) :
    s'.node k = s.node k := by
  cases h with
  | call i st st' rnd op res => exact node_setNode_ne s i k st' hk
  | deliver i st st' rnd m res => exact node_setNode_ne s i k st' hk
  | send i st st' => exact node_setNode_ne s i k st' hk
  | restart i st st' c rnd => exact node_setNode_ne s i k st' hk

/-- the effect of a labelled step on node `k`'s tracker view -/
def StepConf (l : Label) (k : Nat) (st st' : NState) : Prop :=
  match l with
  | .call i _ (.applyConfChange cc) =>
    if i = k then st'.raft.prs.toCC = RaftProps.C12.step st.raft.prs.toCC (RaftProps.C09.opOf cc)
    else st'.raft.prs.toCC = st.raft.prs.toCC
  | .call _ _ _ => st'.raft.prs.toCC = st.raft.prs.toCC
  | .deliver i _ m =>
    st'.raft.prs.toCC = st.raft.prs.toCC ∨
      (i = k ∧ m.msgType = .msgSnapshot ∧ ConfRestored m.snapshot.metadata.confState st'.raft)
  | .send _ => st'.raft.prs.toCC = st.raft.prs.toCC
  | .restart i _ _ =>
    if i = k then ConfRestored st.raft.raftLog.store.confState st'.raft
    else st'.raft.prs.toCC = st.raft.prs.toCC

theorem lstep_conf {s s' : Sys} {l : Label} (h : LStep s l s') (k : Nat) (st st' : NState)
    (h1 : s.node k = some st) (h2 : s'.node k = some st') : StepConf l k st st' := by
  by_cases hk : k = l.node
  · cases h with
    | call i stx stx' rnd op res g1 g2 g3 =>
      have hk' : k = i := hk
      subst hk'
      rw [node_setNode_self] at h2
      cases h2
      rw [h1] at g1; cases g1
      have hc := call_conf st st' rnd op res g3
      cases op <;> first
        | exact hc
        | (simp only [StepConf, if_true]; exact hc)
        | (cases g2)
    | deliver i stx stx' rnd m res g1 g2 g3 g4 =>
      have hk' : k = i := hk
      subst hk'
      rw [node_setNode_self] at h2
      cases h2
      rw [h1] at g1; cases g1
      have hc := call_conf st st' rnd (.step m) res g4
      rcases hc with hc | ⟨hm, hc⟩
      · exact .inl hc
      · exact .inr ⟨rfl, hm, hc⟩
    | send i stx stx' g1 g2 g3 =>
      have hk' : k = i := hk
      subst hk'
      have h2' : (s.setNode k stx').node k = some st' := h2
      rw [node_setNode_self] at h2'
      cases h2'
      rw [h1] at g1; cases g1
      exact call_conf st st' none .drain _ g3
    | restart i stx stx' c rnd g1 g2 g3 =>
      have hk' : k = i := hk
      subst hk'
      rw [node_setNode_self] at h2
      cases h2
      rw [h1] at g1; cases g1
      simp only [StepConf, if_true]
      exact boot_conf c _ rnd st' g3
  · have := lstep_other h k hk
    rw [this, h1] at h2
    cases h2
    have hne : ¬ l.node = k := fun e => hk e.symm
    cases l with
    | call i rnd op =>
      have hne' : ¬ i = k := hne
      cases op <;> first
        | rfl
        | (simp only [StepConf, if_neg hne'])
    | deliver i rnd m => exact .inl rfl
    | send i => rfl
    | restart i c rnd =>
      have hne' : ¬ i = k := hne
      simp only [StepConf, if_neg hne']

/-- the changes node `i` applied along a run, in order -/
def appliedBy (i : Nat) : List Label → List ConfChangeV2
  | [] => []
  | .call j _ (.applyConfChange cc) :: ls => if j = i then cc :: appliedBy i ls else appliedBy i ls
  | _ :: ls => appliedBy i ls

theorem appliedBy_append (i : Nat) (l1 l2 : List Label) :
    appliedBy i (l1 ++ l2) = appliedBy i l1 ++ appliedBy i l2 := by
  induction l1 with
  | nil => rfl
  | cons x xs ih =>
    cases x with
    | call j rnd op =>
      cases op <;> simp only [List.cons_append, appliedBy, ih]
      split <;> simp
    | deliver j rnd m => simp only [List.cons_append, appliedBy, ih]
    | send j => simp only [List.cons_append, appliedBy, ih]
    | restart j c rnd => simp only [List.cons_append, appliedBy, ih]

/-- node `i` is neither restarted nor given a `MsgSnapshot` along the run -/
def ReconfFree (i : Nat) (ls : List Label) : Prop :=
  ∀ l ∈ ls, (∀ c rnd, l ≠ .restart i c rnd) ∧ (∀ rnd m, l = .deliver i rnd m → m.msgType ≠ .msgSnapshot)

theorem lstep_node_some {s s' : Sys} {l : Label} (h : LStep s l s') (i : Nat) (st' : NState)
    (hn : s'.node i = some st') : ∃ st, s.node i = some st := by
  by_cases hk : i = l.node
  · cases h with
    | call j st _ _ _ _ g1 => exact ⟨st, by rw [show i = j from hk]; exact g1⟩
    | deliver j st _ _ _ _ g1 => exact ⟨st, by rw [show i = j from hk]; exact g1⟩
    | send j st _ g1 => exact ⟨st, by rw [show i = j from hk]; exact g1⟩
    | restart j st _ _ _ g1 => exact ⟨st, by rw [show i = j from hk]; exact g1⟩
  · rw [lstep_other h i hk] at hn
    exact ⟨st', hn⟩

/-- **along a run on which node `i` is neither restarted nor sent a snapshot, its tracker view at the
end is the fold of the changer (`C12.step`) over the changes it applied, in order, from the view at
the start** -/
theorem trace_conf {s s' : Sys} {ls : List Label} (ht : Trace s ls s') (i : Nat)
    (hfree : ReconfFree i ls) (st st' : NState) (h1 : s.node i = some st)
    (h2 : s'.node i = some st') :
    st'.raft.prs.toCC =
      RaftProps.C09.configOf st.raft.prs.toCC ((appliedBy i ls).map RaftProps.C09.opOf) := by
  induction ht generalizing st' with
  | refl =>
    rw [h1] at h2; cases h2; rfl
  | tail b c ls l hab hbc ih =>
    obtain ⟨stb, hb⟩ := lstep_node_some hbc i st' h2
    have hfree' : ReconfFree i ls := fun x hx => hfree x (List.mem_append_left _ hx)
    have hl := hfree l (List.mem_append_right _ (List.mem_singleton.2 rfl))
    have ihb := ih hfree' stb hb
    have hc := lstep_conf hbc i stb st' hb h2
    rw [appliedBy_append, List.map_append]
    unfold RaftProps.C09.configOf RaftProps.C12.runOps
    rw [List.foldl_append]
    have ihb' : stb.raft.prs.toCC = List.foldl RaftProps.C12.step st.raft.prs.toCC
        ((appliedBy i ls).map RaftProps.C09.opOf) := ihb
    rw [← ihb']
    cases l with
    | call j rnd op =>
      cases op with
      | applyConfChange cc =>
        simp only [StepConf] at hc
        simp only [appliedBy]
        by_cases hj : j = i
        · rw [if_pos hj] at hc ⊢
          simpa using hc
        · rw [if_neg hj] at hc ⊢
          simpa using hc
      | _ => simp only [appliedBy, List.map_nil, List.foldl_nil]; exact hc
    | deliver j rnd m =>
      rcases hc with hc | ⟨hj, hm, _⟩
      · simpa [appliedBy] using hc
      · subst hj
        exact absurd hm (hl.2 rnd m rfl)
    | send j => simp only [appliedBy, List.map_nil, List.foldl_nil]; exact hc
    | restart j c rnd =>
      simp only [StepConf] at hc
      by_cases hj : j = i
      · subst hj
        exact absurd rfl (hl.1 c rnd)
      · rw [if_neg hj] at hc
        simpa [appliedBy] using hc

end Cluster
end RaftModel
