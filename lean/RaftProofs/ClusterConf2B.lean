import RaftProofs.RaftNodeC04
import RaftProofs.RaftNodeC09

/-!
C09 at the cluster level, second series, part B: **the apply cursor `raft_log.applied` is untouched by
every function of `src/raft.rs` that `Raft::step` and `Raft::tick` reach** (its only writers are
`commit_apply` and `Raft::new`).  Scripted copy of the commit-index frame of
`RaftProofs/RaftNodeC04.lean` (`CP P r` = `P r.raftLog.committed`, lines 156–950) with `committed`
replaced by `applied`: `AP P r` is `P r.raftLog.applied`, and EVERY function satisfies the anchored
rule `f r = .ok r' → AP P r → AP P r'` for every `P` (for the commit index only the upward closed `P`
survive the committing functions; the apply cursor is never moved).  The `…_spec` lemmas of the
original (where the commit index goes) become `…_applied` (the cursor stays).
-/
namespace RaftModel
namespace Raft
namespace Ap

structure AP (P : Nat → Prop) (r : Raft) : Prop where
  h : P r.raftLog.applied

/-- any structure update that keeps `raft_log` keeps the commit index -/
theorem AP.mk' {P : Nat → Prop} {r : Raft} {x1 x2 x3 : Nat} {x4 : List ReadState} {x6 x7 x8 : Nat}
    {x9 : StateRole} {x10 : Bool} {x11 : Nat} {x12 : Option Nat} {x13 : Nat} {x14 : ReadOnly}
    {x15 x16 : Nat} {x17 x18 x19 x20 x21 : Bool} {x22 x23 x24 x25 x26 : Nat} {x27 : Int}
    {x28 : UncommittedState} {x29 : Nat} {x30 : ProgressTracker} {x31 : List Message}
    {x32 : Option Nat} (h0 : AP P r) :
    AP P { term := x1, vote := x2, id := x3, readStates := x4, raftLog := r.raftLog,
           maxInflight := x6, maxMsgSize := x7, pendingRequestSnapshot := x8, state := x9,
           promotable := x10, leaderId := x11, leadTransferee := x12, pendingConfIndex := x13,
           readOnly := x14, electionElapsed := x15, heartbeatElapsed := x16, checkQuorum := x17,
           preVote := x18, skipBcastCommit := x19, batchAppend := x20,
           disableProposalForwarding := x21, heartbeatTimeout := x22, electionTimeout := x23,
           randomizedElectionTimeout := x24, minElectionTimeout := x25, maxElectionTimeout := x26,
           priority := x27, uncommittedState := x28, maxCommittedSizePerReady := x29, prs := x30,
           msgs := x31, nextRand := x32 } := ⟨h0.h⟩

theorem AP.of_eq {P : Nat → Prop} {r r' : Raft} (h : r'.raftLog.applied = r.raftLog.applied)
    (h0 : AP P r) : AP P r' := ⟨by rw [h]; exact h0.h⟩

/-- decompose `h : f … = .ok …`, then chain the anchored lemmas in the list -/
macro "ap_auto" h:ident "[" ls:Lean.Parser.Tactic.SolveByElim.arg,* "]" : tactic =>
  `(tactic| (frame_dec $h:ident <;> (try injections) <;> (try subst_vars) <;>
      (solve_by_elim (maxDepth := 14) only [*, $ls,*, AP.mk'])))

/-! ### sending: the commit index is untouched -/

theorem send_ap {P : Nat → Prop} {r r' : Raft} {m : Message} (h : r.send m = .ok r')
    (h0 : AP P r) : AP P r' := by
  rw [send_eq r r' m h]; exact ⟨h0.h⟩

theorem prepareSendSnapshot_ap {P : Nat → Prop} {r r' : Raft} {m m' : Message} {pr pr' : Progress}
    {to : Nat} {b : Bool} (h : r.prepareSendSnapshot m pr to = .ok (r', m', pr', b))
    (h0 : AP P r) : AP P r' := by
  unfold Raft.prepareSendSnapshot at h
  have hs : ∀ i, (r.raftLog.snapshot i).1.applied = r.raftLog.applied := by
    intro i
    unfold RaftLog.snapshot
    split
    · split
      · rfl
      · rfl
    · rfl
  split at h
  · cases h; exact h0
  · simp only at h
    split at h
    · cases h; exact AP.of_eq (hs _) h0
    · cases h
    · cases h
    · split at h
      · cases h
      · cases h; exact AP.of_eq (hs _) h0

theorem tryBatching_ap {P : Nat → Prop} {r r' : Raft} {to : Nat} {pr pr' : Progress}
    {ents : List Entry} {b : Bool} (h : r.tryBatching to pr ents = .ok (r', pr', b))
    (h0 : AP P r) : AP P r' := by
  unfold Raft.tryBatching at h
  ap_auto h [send_ap]

theorem maybeSendAppend_ap {P : Nat → Prop} {r r' : Raft} {to : Nat} {pr pr' : Progress}
    {ae b : Bool} (h : r.maybeSendAppend to pr ae = .ok (r', pr', b)) (h0 : AP P r) :
    AP P r' := by
  unfold Raft.maybeSendAppend at h
  ap_auto h [send_ap, prepareSendSnapshot_ap, tryBatching_ap]

theorem sendAppendPr_ap {P : Nat → Prop} {r r' : Raft} {to : Nat} {pr pr' : Progress}
    (h : r.sendAppendPr to pr = .ok (r', pr')) (h0 : AP P r) : AP P r' := by
  unfold Raft.sendAppendPr at h
  ap_auto h [maybeSendAppend_ap]

theorem sendAppendAggressivelyPr_ap {P : Nat → Prop} {r' : Raft} {to : Nat} {pr' : Progress} :
    ∀ (fuel : Nat) (r : Raft) (pr : Progress),
      sendAppendAggressivelyPr fuel r to pr = .ok (r', pr') → AP P r → AP P r' := by
  intro fuel
  induction fuel with
  | zero => intro r pr h; simp [sendAppendAggressivelyPr] at h
  | succ n ih =>
    intro r pr h h0
    unfold sendAppendAggressivelyPr at h
    split at h
    · rename_i r1 pr1 hm
      exact ih r1 pr1 h (maybeSendAppend_ap hm h0)
    · rename_i r1 pr1 hm
      cases h; exact maybeSendAppend_ap hm h0
    · cases h
    · cases h

theorem sendHeartbeat_ap {P : Nat → Prop} {r r' : Raft} {to : Nat} {pr : Progress}
    {ctx : Option Bytes} (h : r.sendHeartbeat to pr ctx = .ok r') (h0 : AP P r) : AP P r' := by
  unfold Raft.sendHeartbeat at h
  exact send_ap h h0

theorem sendAppend_ap {P : Nat → Prop} {r r' : Raft} {to : Nat}
    (h : r.sendAppend to = .ok r') (h0 : AP P r) : AP P r' := by
  unfold Raft.sendAppend at h
  ap_auto h [sendAppendPr_ap]

theorem sendAppendAggressively_ap {P : Nat → Prop} {r r' : Raft} {to : Nat}
    (h : r.sendAppendAggressively to = .ok r') (h0 : AP P r) : AP P r' := by
  unfold Raft.sendAppendAggressively at h
  ap_auto h [sendAppendAggressivelyPr_ap]

theorem sendTimeoutNow_ap {P : Nat → Prop} {r r' : Raft} {to : Nat}
    (h : r.sendTimeoutNow to = .ok r') (h0 : AP P r) : AP P r' := by
  unfold Raft.sendTimeoutNow at h
  exact send_ap h h0

theorem foldl_ap {α : Type} {P : Nat → Prop} {r' : Raft} (step : Res Raft → α → Res Raft)
    (hstep : ∀ acc x r1, step acc x = .ok r1 → ∃ r0, acc = .ok r0 ∧ (AP P r0 → AP P r1)) :
    ∀ (l : List α) (acc : Res Raft), l.foldl step acc = .ok r' →
      (∀ r, acc = .ok r → AP P r) → AP P r' := by
  intro l
  induction l with
  | nil => intro acc h h0; exact h0 r' h
  | cons x rest ih =>
    intro acc h h0
    simp only [List.foldl_cons] at h
    refine ih (step acc x) h ?_
    intro r1 h1
    obtain ⟨r0, e0, hf⟩ := hstep acc x r1 h1
    exact hf (h0 r0 e0)

theorem forEachPeer_ap {P : Nat → Prop} {r r' : Raft}
    {f : Raft → Nat → Progress → Res (Raft × Progress)}
    (hf : ∀ r id pr r' pr', f r id pr = .ok (r', pr') → AP P r → AP P r')
    (h : r.forEachPeer f = .ok r') (h0 : AP P r) : AP P r' := by
  unfold Raft.forEachPeer at h
  refine foldl_ap _ ?_ _ _ h (by intro r1 e; cases e; exact h0)
  intro acc id r1 h1
  cases acc with
  | err e => cases h1
  | panic s => cases h1
  | ok r0 =>
    refine ⟨r0, rfl, fun h0 => ?_⟩
    change (if id = r0.id then Res.ok r0 else _) = _ at h1
    ap_auto h1 [hf]

theorem bcastAppend_ap {P : Nat → Prop} {r r' : Raft} (h : r.bcastAppend = .ok r')
    (h0 : AP P r) : AP P r' := by
  unfold Raft.bcastAppend at h
  exact forEachPeer_ap (fun r id pr r' pr' h => sendAppendPr_ap h) h h0

theorem bcastHeartbeatWithCtx_ap {P : Nat → Prop} {r r' : Raft} {ctx : Option Bytes}
    (h : r.bcastHeartbeatWithCtx ctx = .ok r') (h0 : AP P r) : AP P r' := by
  unfold Raft.bcastHeartbeatWithCtx at h
  refine forEachPeer_ap (fun r id pr r' pr' h h0 => ?_) h h0
  ap_auto h [sendHeartbeat_ap]

theorem bcastHeartbeat_ap {P : Nat → Prop} {r r' : Raft} (h : r.bcastHeartbeat = .ok r')
    (h0 : AP P r) : AP P r' := by
  unfold Raft.bcastHeartbeat at h
  exact bcastHeartbeatWithCtx_ap h h0

/-! ### commit, append, read index -/

theorem modifyProgress_ap {P : Nat → Prop} {r : Raft} {id : Nat} {f : Progress → Progress}
    (h0 : AP P r) : AP P (r.modifyProgress id f) := ⟨h0.h⟩

theorem mapProgress_ap {P : Nat → Prop} {r : Raft} {f : Nat → Progress → Progress}
    (h0 : AP P r) : AP P (r.mapProgress f) := ⟨h0.h⟩

theorem maybeCommit_ap {P : Nat → Prop} {r r' : Raft} {b : Bool} (h : r.maybeCommit = .ok (r', b))
    (h0 : AP P r) : AP P r' := by
  obtain ⟨mci, gc, _, h1 | h1⟩ := Raft.maybeCommit_spec h
  · obtain ⟨_, _, _, _, rfl⟩ := h1
    exact ⟨h0.h⟩
  · obtain ⟨_, rfl⟩ := h1; exact h0

theorem maybeIncreaseUncommittedSize_ap {P : Nat → Prop} {r r' : Raft} {es : List Entry} {b : Bool}
    (h : r.maybeIncreaseUncommittedSize es = (r', b)) (h0 : AP P r) : AP P r' := by
  unfold Raft.maybeIncreaseUncommittedSize at h
  split at h
  cases h
  exact ⟨h0.h⟩

theorem appendEntry_applied {r r' : Raft} {es : List Entry} {b : Bool}
    (h : r.appendEntry es = .ok (r', b)) : r'.raftLog.applied = r.raftLog.applied := by
  unfold Raft.appendEntry at h
  split at h
  · cases h; rfl
  · rename_i r1 hm
    have e1 : r1 = { r with uncommittedState := r1.uncommittedState } := by
      unfold Raft.maybeIncreaseUncommittedSize at hm
      split at hm
      cases hm; rfl
    simp only at h
    split at h
    · rename_i log n ha
      cases h
      have := c09_append_applied ha
      rw [e1] at this ⊢
      exact this
    · cases h
    · cases h

theorem appendEntry_ap {P : Nat → Prop} {r r' : Raft} {es : List Entry} {b : Bool}
    (h : r.appendEntry es = .ok (r', b)) (h0 : AP P r) : AP P r' :=
  AP.of_eq (appendEntry_applied h) h0

theorem handleReadyReadIndex_ap {P : Nat → Prop} {r r' : Raft} {req : Message} {i : Nat}
    {om : Option Message} (h : r.handleReadyReadIndex req i = .ok (r', om)) (h0 : AP P r) :
    AP P r' := by
  unfold Raft.handleReadyReadIndex at h
  ap_auto h [send_ap]

theorem respondReadStates_ap {P : Nat → Prop} {r r' : Raft} {rss : List ReadIndexStatus}
    (h : r.respondReadStates rss = .ok r') (h0 : AP P r) : AP P r' := by
  unfold Raft.respondReadStates at h
  refine foldl_ap _ ?_ _ _ h (by intro r1 e; cases e; exact h0)
  intro acc rs r1 h1
  cases acc with
  | err e => cases h1
  | panic s => cases h1
  | ok r0 =>
    refine ⟨r0, rfl, fun h0 => ?_⟩
    change (r0.handleReadyReadIndex rs.req rs.index).bind _ = _ at h1
    ap_auto h1 [handleReadyReadIndex_ap, send_ap]

/-! ### leader side -/

theorem checkQuorumActive_ap {P : Nat → Prop} {r r' : Raft} {b : Bool}
    (h : r.checkQuorumActive = (r', b)) (h0 : AP P r) : AP P r' := by
  unfold Raft.checkQuorumActive at h
  split at h
  cases h
  exact ⟨h0.h⟩

theorem handleAppendResponseAccepted_ap {P : Nat → Prop} {r r' : Raft} {m : Message} {pr : Progress}
    {op : Bool} (h : r.handleAppendResponseAccepted m pr op = .ok r')
    (h0 : AP P r) : AP P r' := by
  unfold Raft.handleAppendResponseAccepted at h
  ap_auto h [maybeCommit_ap, bcastAppend_ap, sendAppend_ap, sendAppendAggressively_ap,
    sendTimeoutNow_ap]

theorem handleAppendResponse_ap {P : Nat → Prop} {r r' : Raft} {m : Message}
    (h : r.handleAppendResponse m = .ok r') (h0 : AP P r) :
    AP P r' := by
  unfold Raft.handleAppendResponse at h
  ap_auto h [handleAppendResponseAccepted_ap, sendAppend_ap]

theorem handleHeartbeatResponse_ap {P : Nat → Prop} {r r' : Raft} {m : Message}
    (h : r.handleHeartbeatResponse m = .ok r') (h0 : AP P r) : AP P r' := by
  unfold Raft.handleHeartbeatResponse at h
  ap_auto h [sendAppendPr_ap, respondReadStates_ap]

theorem handleTransferLeader_ap {P : Nat → Prop} {r r' : Raft} {m : Message}
    (h : r.handleTransferLeader m = .ok r') (h0 : AP P r) : AP P r' := by
  unfold Raft.handleTransferLeader at h
  repeat' (first | split at h | (simp only at h; split at h))
  all_goals ap_auto h [sendTimeoutNow_ap, sendAppendPr_ap]

theorem handleSnapshotStatus_ap {P : Nat → Prop} {r : Raft} {m : Message} (h0 : AP P r) :
    AP P (r.handleSnapshotStatus m) := by
  unfold Raft.handleSnapshotStatus
  split
  · exact h0
  · split
    · exact h0
    · exact ⟨h0.h⟩

theorem handleUnreachable_ap {P : Nat → Prop} {r : Raft} {m : Message} (h0 : AP P r) :
    AP P (r.handleUnreachable m) := by
  unfold Raft.handleUnreachable
  split
  · exact h0
  · split
    · exact ⟨h0.h⟩
    · exact h0

theorem filterProposalEntry_ap {P : Nat → Prop} {r r' : Raft} {i : Nat} {e e' : Entry}
    (h : r.filterProposalEntry i e = some (r', e')) (h0 : AP P r) : AP P r' := by
  unfold Raft.filterProposalEntry at h
  ap_auto h [send_ap]

theorem filterProposal_ap {P : Nat → Prop} : ∀ (es : List Entry) (r r' : Raft) (i : Nat)
    (oes : Option (List Entry)), r.filterProposal i es = (r', oes) → AP P r → AP P r' := by
  intro es
  induction es with
  | nil => intro r r' i oes h h0; simp [Raft.filterProposal] at h; rw [← h.1]; exact h0
  | cons e es ih =>
    intro r r' i oes h h0
    unfold Raft.filterProposal at h
    split at h
    · cases h; exact h0
    · rename_i r1 e1 h1
      have h2 := filterProposalEntry_ap h1 h0
      split at h
      · rename_i r2 es2 h3
        cases h; exact ih _ _ _ _ h3 h2
      · rename_i r2 h3
        cases h; exact ih _ _ _ _ h3 h2

/-! ### role changes -/

theorem reset_raftLog (r : Raft) (t : Nat) : (r.reset t).raftLog = r.raftLog := by
  unfold Raft.reset
  simp only [Raft.mapProgress, Raft.abortLeaderTransfer, Raft.resetRandomizedElectionTimeout]
  split <;> rfl

theorem reset_ap {P : Nat → Prop} {r : Raft} {t : Nat} (h0 : AP P r) : AP P (r.reset t) := by
  exact AP.of_eq (by rw [reset_raftLog]) h0

theorem becomeFollower_applied (r : Raft) (t l : Nat) :
    (r.becomeFollower t l).raftLog.applied = r.raftLog.applied := by
  unfold Raft.becomeFollower
  simp only [reset_raftLog]

theorem becomeFollower_raftLog (r : Raft) (t l : Nat) :
    (r.becomeFollower t l).raftLog = { r.raftLog with maxApplyUnpersistedLogLimit := 0 } := by
  unfold Raft.becomeFollower
  simp only [reset_raftLog]

/-- the log queries do not read `max_apply_unpersisted_log_limit` -/
theorem c04_log_limit_irrelevant (l : RaftLog) (n : Nat) :
    (∀ i, ({ l with maxApplyUnpersistedLogLimit := n } : RaftLog).term i = l.term i) ∧
    (∀ i t, ({ l with maxApplyUnpersistedLogLimit := n } : RaftLog).matchTerm i t = l.matchTerm i t) ∧
    ({ l with maxApplyUnpersistedLogLimit := n } : RaftLog).lastIndex = l.lastIndex :=
  ⟨fun _ => rfl, fun _ _ => rfl, rfl⟩

theorem becomeFollower_ap {P : Nat → Prop} {r : Raft} {t l : Nat} (h0 : AP P r) :
    AP P (r.becomeFollower t l) := AP.of_eq (becomeFollower_applied r t l) h0

/- from here on the unifier must not look inside `reset` / `become_follower` (it would, when
`solve_by_elim` tries `becomeFollower_ap` against a structure update) -/
seal Raft.reset Raft.becomeFollower

theorem becomeCandidate_ap {P : Nat → Prop} {r r' : Raft} (h : r.becomeCandidate = .ok r')
    (h0 : AP P r) : AP P r' := by
  unfold Raft.becomeCandidate at h
  frame_dec h
  exact AP.mk' (reset_ap h0)

theorem becomePreCandidate_ap {P : Nat → Prop} {r r' : Raft} (h : r.becomePreCandidate = .ok r')
    (h0 : AP P r) : AP P r' := by
  unfold Raft.becomePreCandidate at h
  ap_auto h [reset_ap]

theorem becomeLeader_ap {P : Nat → Prop} {r r' : Raft} (h : r.becomeLeader = .ok r')
    (h0 : AP P r) : AP P r' := by
  unfold Raft.becomeLeader at h
  ap_auto h [reset_ap, appendEntry_ap]

/-! ### campaigning: the commit index is untouched -/

theorem sendVoteRequests_ap {P : Nat → Prop} {r r' : Raft} {ct : CampaignType} {vm : MsgType}
    {t : Nat} (h : r.sendVoteRequests ct vm t = .ok r') (h0 : AP P r) : AP P r' := by
  unfold Raft.sendVoteRequests at h
  split at h
  · cases h
  · cases h
  · split at h
    · cases h
    · cases h
    · refine foldl_ap _ ?_ _ _ h (by intro r1 e; cases e; exact h0)
      intro acc id r1 h1
      cases acc with
      | err e => cases h1
      | panic s => cases h1
      | ok r0 =>
        refine ⟨r0, rfl, fun h0 => ?_⟩
        change (if id = r0.id then Res.ok r0 else _) = _ at h1
        ap_auto h1 [send_ap]

theorem pollWith_ap {P : Nat → Prop} {onPreWin : Raft → Res Raft}
    (hp : ∀ r r', onPreWin r = .ok r' → AP P r → AP P r')
    {r r' : Raft} {frm : Nat} {t : MsgType} {v : Bool} {res : VoteResult}
    (h : pollWith onPreWin r frm t v = .ok (r', res)) (h0 : AP P r) : AP P r' := by
  unfold Raft.pollWith at h
  ap_auto h [hp, becomeLeader_ap, bcastAppend_ap, becomeFollower_ap]

theorem campaignWith_ap {P : Nat → Prop}
    {poll : Raft → Nat → MsgType → Bool → Res (Raft × VoteResult)}
    (hp : ∀ r f t v r' res, poll r f t v = .ok (r', res) → AP P r → AP P r')
    {r r' : Raft} {ct : CampaignType} (h : campaignWith poll r ct = .ok r') (h0 : AP P r) :
    AP P r' := by
  unfold Raft.campaignWith at h
  simp only at h
  obtain ⟨⟨r1, vm, t⟩, hs, h⟩ := Res.bind_eq_ok h
  have h1 : AP P r1 := by
    ap_auto hs [becomePreCandidate_ap, becomeCandidate_ap]
  obtain ⟨⟨r2, res⟩, hp2, h⟩ := Res.bind_eq_ok h
  have h2 := hp _ _ _ _ _ _ hp2 h1
  ap_auto h [sendVoteRequests_ap]

theorem campaignAfterPreVote_ap {P : Nat → Prop} {r r' : Raft}
    (h : r.campaignAfterPreVote = .ok r') (h0 : AP P r) : AP P r' := by
  unfold Raft.campaignAfterPreVote at h
  refine campaignWith_ap (fun r f t v r' res hh => pollWith_ap ?_ hh) h h0
  intro r r' hh; cases hh

theorem poll_ap {P : Nat → Prop} {r r' : Raft} {frm : Nat} {t : MsgType} {v : Bool}
    {res : VoteResult} (h : r.poll frm t v = .ok (r', res)) (h0 : AP P r) : AP P r' := by
  unfold Raft.poll at h
  exact pollWith_ap (fun _ _ hh => campaignAfterPreVote_ap hh) h h0

theorem campaign_ap {P : Nat → Prop} {r r' : Raft} {ct : CampaignType}
    (h : r.campaign ct = .ok r') (h0 : AP P r) : AP P r' := by
  unfold Raft.campaign at h
  exact campaignWith_ap (fun _ _ _ _ _ _ hh => poll_ap hh) h h0

theorem hup_ap {P : Nat → Prop} {r r' : Raft} {b : Bool} (h : r.hup b = .ok r') (h0 : AP P r) :
    AP P r' := by
  unfold Raft.hup at h
  ap_auto h [campaign_ap]

/-! ### follower side -/

theorem maybeCommitByVote_applied {r r' : Raft} {m : Message}
    (h : r.maybeCommitByVote m = .ok r') : r'.raftLog.applied = r.raftLog.applied := by
  unfold Raft.maybeCommitByVote at h
  split at h
  · cases h; rfl
  · simp only at h
    split at h
    · cases h; rfl
    · split at h
      · cases h
      · cases h
      · cases h; rfl
      · rename_i log hm
        have ha : log.applied = r.raftLog.applied := c09_maybeCommit_applied hm
        split at h
        · cases h; exact ha
        · split at h
          · cases h
          · cases h
          · cases h
            exact (becomeFollower_applied _ _ _).trans ha
          · cases h; exact ha

theorem maybeCommitByVote_ap {P : Nat → Prop} {r r' : Raft} {m : Message}
    (h : r.maybeCommitByVote m = .ok r') (h0 : AP P r) : AP P r' :=
  AP.of_eq (maybeCommitByVote_applied h) h0

theorem sendRequestSnapshot_ap {P : Nat → Prop} {r r' : Raft} (h : r.sendRequestSnapshot = .ok r')
    (h0 : AP P r) : AP P r' := by
  unfold Raft.sendRequestSnapshot at h
  ap_auto h [send_ap]

theorem appendConflict_applied {l l' : RaftLog} {idx ci : Nat} {es : List Entry}
    (h : l.appendConflict idx ci es = .ok l') : l'.applied = l.applied := by
  unfold RaftLog.appendConflict at h
  split at h
  · cases h
  · split at h
    · cases h
    · split at h
      · rename_i l1 n1 ha
        have := c09_append_applied ha
        cases h
        split
        · exact this
        · exact this
      · cases h
      · cases h

theorem maybeAppend_applied {l l' : RaftLog} {idx term c : Nat} {ents : List Entry}
    {res : Option (Nat × Nat)} (h : l.maybeAppend idx term c ents = .ok (l', res)) :
    l'.applied = l.applied := by
  unfold RaftLog.maybeAppend at h
  split at h
  · cases h; rfl
  · split at h
    · rename_i ci hfc
      simp only at h
      generalize hl1 : (if ci = 0 then Res.ok l
        else if ci ≤ l.committed then Res.panic "raft_log.maybe_append.conflict_committed"
        else l.appendConflict idx ci ents) = x1 at h
      cases x1 with
      | err e => cases h
      | panic s => cases h
      | ok l1 =>
        simp only at h
        have hc1 : l1.applied = l.applied := by
          split at hl1
          · cases hl1; rfl
          · split at hl1
            · cases hl1
            · exact appendConflict_applied hl1
        split at h
        · rename_i l2 hl2
          cases h
          rw [c09_commitTo_applied hl2, hc1]
        · cases h
        · cases h
    · cases h
    · cases h
  · cases h
  · cases h

theorem handleAppendEntries_applied {r r' : Raft} {m : Message}
    (h : r.handleAppendEntries m = .ok r') : r'.raftLog.applied = r.raftLog.applied := by
  unfold Raft.handleAppendEntries at h
  split at h
  · exact (sendRequestSnapshot_ap (P := fun x => x = r.raftLog.applied) h ⟨rfl⟩).h
  · split at h
    · exact (send_ap (P := fun x => x = r.raftLog.applied) h ⟨rfl⟩).h
    · split at h
      · cases h
      · cases h
      · rename_i log ci last hm
        exact (send_ap (P := fun x => x = r.raftLog.applied) h ⟨maybeAppend_applied hm⟩).h
      · rename_i log hm
        have e0 : log.applied = r.raftLog.applied := maybeAppend_applied hm
        simp only at h
        split at h
        · cases h
        · cases h
        · cases h
        · first
          | exact (send_ap (P := fun x => x = r.raftLog.applied) h ⟨e0⟩).h
          | exact (send_ap (P := fun x => x = r.raftLog.applied) h ⟨rfl⟩).h

theorem handleAppendEntries_ap {P : Nat → Prop} {r r' : Raft} {m : Message}
    (h : r.handleAppendEntries m = .ok r') (h0 : AP P r) : AP P r' :=
  AP.of_eq (handleAppendEntries_applied h) h0

theorem handleHeartbeat_applied {r r' : Raft} {m : Message} (h : r.handleHeartbeat m = .ok r') :
    r'.raftLog.applied = r.raftLog.applied := by
  unfold Raft.handleHeartbeat at h
  split at h
  · cases h
  · cases h
  · rename_i log hc
    simp only at h
    have e1 : r'.raftLog.applied = log.applied := by
      split at h
      · exact (sendRequestSnapshot_ap (P := fun x => x = log.applied) h ⟨rfl⟩).h
      · exact (send_ap (P := fun x => x = log.applied) h ⟨rfl⟩).h
    rw [e1]; exact c09_commitTo_applied hc

theorem handleHeartbeat_ap {P : Nat → Prop} {r r' : Raft} {m : Message}
    (h : r.handleHeartbeat m = .ok r') (h0 : AP P r) : AP P r' :=
  AP.of_eq (handleHeartbeat_applied h) h0

/-- away from the leader role `post_conf_change` only recomputes `promotable` -/
theorem postConfChange_nonleader_ap {P : Nat → Prop} {r r' : Raft} {cs : ConfState}
    (hs : r.state ≠ .leader) (h : r.postConfChange = .ok (r', cs)) (h0 : AP P r) : AP P r' := by
  unfold Raft.postConfChange at h
  have hb : (r.state == StateRole.leader) = false := by
    cases hst : r.state <;> simp_all
  simp only [hb, Bool.and_false, hs, ne_eq, not_false_eq_true, true_or, if_true, if_false,
    Bool.false_eq_true] at h
  ap_auto h [send_ap]

/-- `post_conf_change` (raft.rs:2743) on any node: the commit index does not decrease (a leader
re-evaluates `maybe_commit` under the new configuration) -/
theorem postConfChange_ap {P : Nat → Prop} {r r' : Raft} {cs : ConfState}
    (h : r.postConfChange = .ok (r', cs)) (h0 : AP P r) :
    AP P r' := by
  unfold Raft.postConfChange at h
  simp only at h
  split at h
  · cases h; exact becomeFollower_ap (AP.mk' h0)
  · split at h
    · cases h; exact AP.mk' h0
    · obtain ⟨r1, hr1, h⟩ := Res.bind_eq_ok h
      have h1 : AP P r1 := by
        split at hr1
        · rename_i r3 hm
          exact bcastAppend_ap hr1 (maybeCommit_ap hm (AP.mk' h0))
        · rename_i r3 hm
          refine forEachPeer_ap ?_ hr1 (maybeCommit_ap hm (AP.mk' h0))
          intro r id pr r' pr' hh hh0
          ap_auto hh [maybeSendAppend_ap]
        · cases hr1
        · cases hr1
      obtain ⟨r2, hr2, h⟩ := Res.bind_eq_ok h
      have h2 : AP P r2 := by
        ap_auto hr2 [respondReadStates_ap]
      ap_auto h [send_ap]

theorem restore_applied {r r' : Raft} {snap : Snapshot} {b : Bool}
    (h : r.restore snap = .ok (r', b)) : r'.raftLog.applied = r.raftLog.applied := by
  unfold Raft.restore at h
  simp only at h
  split at h
  · cases h; rfl
  · split at h
    · split at h
      · cases h
      · cases h; exact becomeFollower_applied _ _ _
    · rename_i hst
      have hf : r.state = .follower := by
        apply Classical.byContradiction; intro hc; exact hst hc
      split at h
      · cases h; rfl
      · split at h
        · cases h
        · cases h
        · split at h
          · rename_i log hc
            cases h
            exact c09_commitTo_applied hc
          · cases h
          · cases h
        · split at h
          · cases h
          · cases h
          · rename_i log hl
            have hc1 : log.applied = r.raftLog.applied := by
              unfold RaftLog.restore at hl
              split at hl
              · cases hl
              · cases hl; rfl
            split at h
            · cases h
            · rename_i prs hprs
              obtain ⟨⟨r1, cs1⟩, hpc, h⟩ := Res.bind_eq_ok h
              have e1 : r1.raftLog.applied = log.applied :=
                (postConfChange_nonleader_ap (P := fun x => x = log.applied)
                  (by show r.state ≠ .leader; rw [hf]; simp) hpc ⟨rfl⟩).h
              simp only at h
              split at h
              · cases h
              · split at h
                · cases h
                · split at h
                  · cases h
                  · obtain ⟨⟨pr1, b1⟩, _, h⟩ := Res.bind_eq_ok h
                    cases h
                    show r1.raftLog.applied = _
                    rw [e1, hc1]

theorem restore_ap {P : Nat → Prop} {r r' : Raft} {snap : Snapshot} {b : Bool}
    (h : r.restore snap = .ok (r', b)) (h0 : AP P r) : AP P r' :=
  AP.of_eq (restore_applied h) h0

theorem handleSnapshot_applied {r r' : Raft} {m : Message} (h : r.handleSnapshot m = .ok r') :
    ∃ r1 b, r.restore m.snapshot = .ok (r1, b) ∧ r'.raftLog.applied = r1.raftLog.applied := by
  unfold Raft.handleSnapshot at h
  obtain ⟨⟨r1, b⟩, hr, h⟩ := Res.bind_eq_ok h
  refine ⟨r1, b, hr, ?_⟩
  simp only at h
  split at h
  · exact (send_ap (P := fun x => x = r1.raftLog.applied) h ⟨rfl⟩).h
  · exact (send_ap (P := fun x => x = r1.raftLog.applied) h ⟨rfl⟩).h

theorem handleSnapshot_ap {P : Nat → Prop} {r r' : Raft} {m : Message}
    (h : r.handleSnapshot m = .ok r') (h0 : AP P r) :
    AP P r' := by
  obtain ⟨r1, b, hr, e⟩ := handleSnapshot_applied h
  exact AP.of_eq e (restore_ap hr h0)

/-! ### the dispatchers -/

seal Raft.handleSnapshotStatus Raft.handleUnreachable

theorem stepLeader_ap {P : Nat → Prop} {r r' : Raft} {m : Message} {e : Option RaftError}
    (h : r.stepLeader m = .ok (r', e)) (h0 : AP P r) :
    AP P r' := by
  unfold Raft.stepLeader at h
  split at h
  case h_4 =>
    ap_auto h [handleReadyReadIndex_ap, send_ap, bcastHeartbeatWithCtx_ap]
  all_goals ap_auto h [bcastHeartbeat_ap, checkQuorumActive_ap, becomeFollower_ap, filterProposal_ap,
    appendEntry_ap, bcastAppend_ap, handleReadyReadIndex_ap, send_ap, bcastHeartbeatWithCtx_ap,
    handleAppendResponse_ap, handleHeartbeatResponse_ap, handleSnapshotStatus_ap,
    handleUnreachable_ap, handleTransferLeader_ap]

theorem stepCandidate_ap {P : Nat → Prop} {r r' : Raft} {m : Message} {e : Option RaftError}
    (h : r.stepCandidate m = .ok (r', e)) (h0 : AP P r) :
    AP P r' := by
  unfold Raft.stepCandidate at h
  ap_auto h [becomeFollower_ap, handleAppendEntries_ap, handleHeartbeat_ap, handleSnapshot_ap,
    poll_ap, maybeCommitByVote_ap]

theorem stepFollower_ap {P : Nat → Prop} {r r' : Raft} {m : Message} {e : Option RaftError}
    (h : r.stepFollower m = .ok (r', e)) (h0 : AP P r) :
    AP P r' := by
  unfold Raft.stepFollower at h
  split at h
  case h_8 =>
    split at h
    · simp only at h
      split at h
      · rename_i log b hm
        cases h
        exact AP.of_eq (r := r) (c09_maybeCommit_applied hm) h0
      · cases h
      · cases h
    · cases h; exact h0
  all_goals ap_auto h [send_ap, handleAppendEntries_ap, handleHeartbeat_ap, handleSnapshot_ap,
    hup_ap]

theorem stepTerm_ap {P : Nat → Prop} {r r' : Raft} {m : Message} {b : Bool}
    (h : r.stepTerm m = .ok (r', b)) (h0 : AP P r) : AP P r' := by
  unfold Raft.stepTerm at h
  ap_auto h [send_ap, becomeFollower_ap]

theorem stepVote_ap {P : Nat → Prop} {r r' : Raft} {m : Message}
    (h : r.stepVote m = .ok r') (h0 : AP P r) : AP P r' := by
  unfold Raft.stepVote Raft.stepVoteGrant Raft.stepVoteReject at h
  ap_auto h [send_ap, maybeCommitByVote_ap]

theorem step_ap {P : Nat → Prop} {r r' : Raft} {m : Message} {e : Option RaftError}
    (h : r.step m = .ok (r', e)) (h0 : AP P r) : AP P r' := by
  unfold Raft.step at h
  ap_auto h [stepTerm_ap, hup_ap, stepVote_ap, stepCandidate_ap, stepFollower_ap,
    stepLeader_ap]

theorem stepIgnore_ap {P : Nat → Prop} {r r' : Raft} {m : Message}
    (h : r.stepIgnore m = .ok r') (h0 : AP P r) : AP P r' := by
  unfold Raft.stepIgnore at h
  ap_auto h [step_ap]

theorem tickElection_ap {P : Nat → Prop} {r r' : Raft} {b : Bool}
    (h : r.tickElection = .ok (r', b)) (h0 : AP P r) :
    AP P r' := by
  unfold Raft.tickElection at h
  ap_auto h [stepIgnore_ap]

theorem tickHeartbeat_ap {P : Nat → Prop} {r r' : Raft} {b : Bool}
    (h : r.tickHeartbeat = .ok (r', b)) (h0 : AP P r) :
    AP P r' := by
  unfold Raft.tickHeartbeat at h
  ap_auto h [stepIgnore_ap]

theorem tick_ap {P : Nat → Prop} {r r' : Raft} {b : Bool}
    (h : r.tick = .ok (r', b)) (h0 : AP P r) : AP P r' := by
  unfold Raft.tick at h
  ap_auto h [tickElection_ap, tickHeartbeat_ap]

end Ap
end Raft
end RaftModel
