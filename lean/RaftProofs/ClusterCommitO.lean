import RaftProofs.ClusterCommitN

/-!
Cluster-level commit safety, helper lemmas part O: the steps of the emulated application
(`stabilize`, `persist_snap`, `commit_apply`, `compact`, …) and **one call of a node as `G`**
(`call_g`).
-/
namespace RaftModel
namespace Raft
namespace CC
open VoteOb Node

theorem G.rebase {A : Nat → Nat → Nat → Prop} {a a' r : Raft} {m : Message} (h : G A a' m r)
    (hid : a'.id = a.id) (hc : a'.raftLog.committed = a.raftLog.committed)
    (hm : a'.msgs = a.msgs) : G A a m r :=
  ⟨h.id.trans hid, h.mok, fun hs => by rw [← hc]; exact h.lc hs,
    fun x hx hty => by rw [← hm]; exact h.qlk x hx hty,
    fun x hx hty => by rw [← hm]; exact h.qak x hx hty,
    fun x hx hty => by rw [← hm]; exact h.qvk x hx hty,
    fun x hx hty => by rw [← hm]; exact h.qrq x hx hty⟩

/-- `G` reads only `id`, `state`, `term`, `raftLog`, `prs` and `msgs` of the current state -/
theorem G.of_fields {A : Nat → Nat → Nat → Prop} {a r r' : Raft} {m : Message} (h0 : G A a m r)
    (e1 : r'.id = r.id) (e2 : r'.state = r.state) (e3 : r'.term = r.term)
    (e4 : r'.raftLog = r.raftLog) (e5 : r'.prs = r.prs) (e6 : r'.msgs = r.msgs) : G A a m r' := by
  refine ⟨e1.trans h0.id, ⟨?_⟩, ?_, ?_, ?_, ?_, ?_⟩
  · rw [e2, e5, e1, e4, e3]; exact h0.mok.h
  · rw [e2, e4]; unfold LCok; rw [e5, e4, e3]; exact h0.lc
  · intro x hx hty
    rw [e6] at hx
    exact (h0.qlk x hx hty).imp (fun g => g) (fun g =>
      ⟨e2.trans g.lead, g.term.trans e3.symm, g.frm.trans e1.symm,
        by rw [e4]; exact g.app, by rw [e4, e3]; exact g.hb⟩)
  · intro x hx hty
    rw [e6] at hx
    exact (h0.qak x hx hty).imp (fun g => g) (fun g =>
      ⟨g.term.trans e3.symm, g.frm.trans e1.symm, by rw [e2, e4]; exact g.src⟩)
  · intro x hx hty
    rw [e6] at hx
    exact (h0.qvk x hx hty).imp (fun g => g) (fun g => by unfold VkOK at *; rw [e4, e3]; exact g)
  · intro x hx hty
    rw [e6] at hx
    exact (h0.qrq x hx hty).imp (fun g => g) (fun g =>
      ⟨g.term.trans e3.symm, by rw [e4]; exact g.last, by rw [e4]; exact g.lt⟩)

theorem stableEntries_cursors {l l' : RaftLog} {i t : Nat} (h : l.stableEntries i t = .ok l') :
    l'.committed = l.committed ∧ l'.persisted = l.persisted ∧ l'.store = l.store := by
  unfold RaftLog.stableEntries at h
  split at h
  · cases h; exact ⟨rfl, rfl, rfl⟩
  · cases h
  · cases h

theorem stabilise_cursors {l l' : RaftLog} (h : l.stabilise = .ok l') :
    l'.committed = l.committed ∧ l'.persisted = l.persisted := by
  unfold RaftLog.stabilise at h
  split at h
  · cases h; exact ⟨rfl, rfl⟩
  · split at h
    · obtain ⟨e1, e2, _⟩ := stableEntries_cursors h
      exact ⟨e1, e2⟩
    · cases h
    · cases h

/-- what `stabilize` leaves of the `Raft` state: everything but the log's representation -/
theorem stabilize_shape {st st' : NState} {res : OpRes} (h : Node.stabilize st = .ok (res, st')) :
    ∃ L, st'.raft = { st.raft with raftLog := L } ∧ L.committed = st.raft.raftLog.committed ∧
      L.persisted = st.raft.raftLog.persisted := by
  unfold Node.stabilize at h
  simp only [] at h
  split at h
  · rename_i l hl0
    have hl : st.raft.raftLog.stabilise = .ok l := hl0
    cases h
    obtain ⟨e1, e2⟩ := stabilise_cursors hl
    exact ⟨_, rfl, e1, e2⟩
  · cases h
  · cases h

theorem stableSnap_cursors {l l' : RaftLog} {i : Nat} (h : l.stableSnap i = .ok l') :
    l'.committed = l.committed ∧ l'.persisted = l.persisted := by
  unfold RaftLog.stableSnap at h
  split at h
  · cases h; exact ⟨rfl, rfl⟩
  · cases h
  · cases h

theorem maybePersistSnap_cursors {l l' : RaftLog} {i : Nat} {b : Bool}
    (h : l.maybePersistSnap i = .ok (l', b)) :
    l'.committed = l.committed ∧ l.persisted ≤ l'.persisted := by
  unfold RaftLog.maybePersistSnap at h
  split at h
  · rename_i hlt
    split at h
    · cases h
    · split at h
      · cases h
      · cases h; exact ⟨rfl, Nat.le_of_lt hlt⟩
  · cases h; exact ⟨rfl, Nat.le_refl _⟩

theorem persistSnap_shape {st st' : NState} {res : OpRes} (h : Node.persistSnap st = .ok (res, st')) :
    ∃ L, st'.raft = { st.raft with raftLog := L } ∧ L.committed = st.raft.raftLog.committed ∧
      st.raft.raftLog.persisted ≤ L.persisted := by
  unfold Node.persistSnap at h
  simp only [] at h
  split at h
  · cases h; exact ⟨_, rfl, rfl, Nat.le_refl _⟩
  · split at h
    · cases h; exact ⟨_, rfl, rfl, Nat.le_refl _⟩
    · cases h
    · rename_i store _
      split at h
      · cases h
      · cases h
      · rename_i l hl
        obtain ⟨e1, e2⟩ := stableSnap_cursors hl
        split at h
        · rename_i raft hr
          cases h
          unfold Raft.onPersistSnap at hr
          split at hr
          · rename_i log b hm
            cases hr
            obtain ⟨e3, e4⟩ := maybePersistSnap_cursors hm
            exact ⟨_, rfl, e3.trans e1, by rw [← e2] at *; exact e4⟩
          · cases hr
          · cases hr
        · cases h
        · cases h

/-- a local message stepped by a wrapper of `RawNode`, re-anchored to the call's tag -/
theorem localStep_g {A : Nat → Nat → Nat → Prop} {r r' : Raft} {mm m : Message}
    {e : Option RaftError}
    (hA : ∀ j t x y, y ≤ x → A j t x → A j t y) (hnb : r.batchAppend = false) (hmok : MOK A r)
    (h1 : mm.msgType ≠ .msgSnapshot) (h2 : mm.msgType ≠ .msgAppendResponse)
    (h3 : mm.msgType ≠ .msgAppend) (h : r.step mm = .ok (r', e)) : G A r m r' :=
  (step_g hA hnb h1 (noAck_local h2) h (G.start hmok) Old.rfl rfl).reanchor h3

theorem localStepIgnore_g {A : Nat → Nat → Nat → Prop} {r r' : Raft} {mm m : Message}
    (hA : ∀ j t x y, y ≤ x → A j t x → A j t y) (hnb : r.batchAppend = false) (hmok : MOK A r)
    (h1 : mm.msgType ≠ .msgSnapshot) (h2 : mm.msgType ≠ .msgAppendResponse)
    (h3 : mm.msgType ≠ .msgAppend) (h : r.stepIgnore mm = .ok r') : G A r m r' := by
  unfold Raft.stepIgnore at h
  obtain ⟨⟨r1, e⟩, hs, h⟩ := Res.bind_eq_ok h
  cases h
  exact localStep_g hA hnb hmok h1 h2 h3 hs

/-- a call that only re-represents the log (nothing queued, commit index kept) -/
theorem relog_g {A : Nat → Nat → Nat → Prop} {r : Raft} {m : Message} {L : RaftLog}
    (hmok : MOK A r) (hc : L.committed = r.raftLog.committed)
    (hp : r.raftLog.persisted ≤ L.persisted) : G A r m { r with raftLog := L } :=
  ((G.start hmok).old_relog (r' := { r with raftLog := L }) Old.rfl rfl rfl rfl rfl rfl rfl hc hp).1

theorem nodeCommitApply_g {A : Nat → Nat → Nat → Prop} {st st' : NState} {m : Message} {k : Nat}
    {res : OpRes} (hmok : MOK A st.raft) (h : Node.commitApply st k = .ok (res, st')) :
    G A st.raft m st'.raft ∧ Old st.raft st'.raft := by
  unfold Node.commitApply at h
  simp only [] at h
  split at h
  · rename_i r2 hb
    obtain ⟨r1, h1, h2⟩ := Res.bind_eq_ok hb
    have g1 : G A st.raft m r1 ∧ Old st.raft r1 ∧
        r1.raftLog.committed = st.raft.raftLog.committed := by
      have red : ∀ ents, G A st.raft m (st.raft.reduceUncommittedSize ents) ∧
          Old st.raft (st.raft.reduceUncommittedSize ents) ∧
          (st.raft.reduceUncommittedSize ents).raftLog.committed = st.raft.raftLog.committed := by
        intro ents
        unfold Raft.reduceUncommittedSize
        split
        · exact ⟨G.start hmok, Old.rfl, rfl⟩
        · exact ⟨G.mk' (G.start hmok), Old.mk' Old.rfl, rfl⟩
      split at h1
      · split at h1
        · cases h1; exact red _
        · cases h1; exact ⟨G.start hmok, Old.rfl, rfl⟩
        · cases h1
      · cases h1; exact ⟨G.start hmok, Old.rfl, rfl⟩
    obtain ⟨g2, o2, c2⟩ := commitApplyInternal_g h2 g1.1 g1.2.1 g1.2.2
    cases h
    split
    · dsimp only
      have := g2.old_relog (r' := withStore r2 (fun s =>
        { s with hardState := { s.hardState with commit := k }, confState := st.appCs })) o2 c2
        rfl rfl rfl rfl rfl rfl (Nat.le_refl _)
      exact ⟨this.1, this.2.1⟩
    · exact ⟨g2, o2⟩
  · cases h
  · cases h

end CC
end Raft
end RaftModel
