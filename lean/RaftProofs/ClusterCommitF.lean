import RaftProofs.ClusterCommitE

/-!
Cluster-level commit safety, helper lemmas part F: `append_entry`, `become_leader`, `maybe_commit` and
`handle_append_response` (the only place where a peer's `matched` grows).
-/
namespace RaftModel
namespace Raft
namespace CC

theorem append_persisted {l l' : RaftLog} {es : List Entry} {n : Nat}
    (h : l.append es = .ok (l', n)) : l'.persisted = l.persisted := by
  unfold RaftLog.append at h
  split at h
  · cases h; rfl
  · split at h
    · cases h
    · split at h
      · cases h
      · split at h
        · cases h; rfl
        · cases h
        · cases h

theorem appendEntry_persisted {r r' : Raft} {es : List Entry} {b : Bool}
    (h : r.appendEntry es = .ok (r', b)) : r'.raftLog.persisted = r.raftLog.persisted := by
  unfold Raft.appendEntry at h
  split at h
  · cases h; rfl
  · rename_i r1 hm
    have e1 : r1.raftLog = r.raftLog := by
      unfold Raft.maybeIncreaseUncommittedSize at hm
      split at hm
      cases hm; rfl
    simp only at h
    split at h
    · rename_i log n ha
      cases h
      rw [e1] at ha
      exact append_persisted ha
    · cases h
    · cases h

/-- `append_entry` with nothing queued yet and the commit index still the one of the start -/
theorem appendEntry_g {A : Nat → Nat → Nat → Prop} {a r r' : Raft} {m : Message} {es : List Entry}
    {b : Bool} (h : r.appendEntry es = .ok (r', b)) (h0 : G A a m r) (ho : Old a r)
    (hcm : r.raftLog.committed = a.raftLog.committed) :
    G A a m r' ∧ Old a r' ∧ r'.raftLog.committed = a.raftLog.committed := by
  obtain ⟨e1, e2, e3, e4, e5⟩ := appendEntry_spec h
  obtain ⟨e6, _, _⟩ := appendEntry_fields h
  have e7 := appendEntry_persisted h
  have ho' : Old a r' := by unfold Old; rw [e6]; exact ho
  refine ⟨G.of_old ho' (e3.trans h0.id) ⟨?_⟩ (fun _ => .inl (e1.trans hcm)), ho', e1.trans hcm⟩
  rw [e5, e2, e3, e7, e4]
  exact h0.mok.h

theorem becomeLeader_g {A : Nat → Nat → Nat → Prop} {a r r' : Raft} {m : Message}
    (h : r.becomeLeader = .ok r') (h0 : G A a m r) (ho : Old a r)
    (hcm : r.raftLog.committed = a.raftLog.committed) :
    G A a m r' ∧ Old a r' ∧ r'.raftLog.committed = a.raftLog.committed ∧ r'.state = .leader := by
  unfold Raft.becomeLeader at h
  split at h
  · cases h
  · simp only [] at h
    split at h
    · cases h
    · split at h
      · cases h
      · rename_i pr hg
        split at h
        · rename_i r2 ha
          cases h
          obtain ⟨e1, e2, e3, e4, e5⟩ := appendEntry_spec ha
          obtain ⟨e6, _, _⟩ := appendEntry_fields ha
          have e7 := appendEntry_persisted ha
          have ho' : Old a r' := by
            unfold Old; rw [e6]; exact ho.reset r.term
          have hcm' : r'.raftLog.committed = a.raftLog.committed := by
            rw [e1]
            show (r.reset r.term).raftLog.committed = _
            rw [reset_raftLog]; exact hcm
          have hid : r'.id = r.id := by rw [e3]; exact reset_id r r.term
          refine ⟨G.of_old ho' (hid.trans h0.id) ⟨fun _ j x hx => ?_⟩ (fun _ => .inl hcm'), ho', hcm',
            e5⟩
          rw [e2] at hx
          have hm : mfun ((r.reset r.term).prs.set (r.reset r.term).id pr.becomeReplicate) =
              mfun (r.reset r.term).prs :=
            mfun_set _ _ _ (fun old ho => by
              have : (r.reset r.term).prs.get (r.reset r.term).id = some pr := hg
              rw [this] at ho; cases ho; rfl)
          have hx' : mfun (r.reset r.term).prs j = some x := by rw [← hm]; exact hx
          rcases reset_mfun r r.term j x hx' with g | ⟨g1, g2⟩
          · exact .inl g
          · right; left
            refine ⟨g1.trans hid.symm, ?_⟩
            rw [e7]
            show x ≤ (r.reset r.term).raftLog.persisted
            rw [reset_raftLog]; exact Nat.le_of_eq g2
        · cases h
        · cases h
        · cases h

/-- the commit index moves up (and nothing else of the log): `commit_to` / `maybe_commit` -/
theorem G.commitUp {A : Nat → Nat → Nat → Prop} {a r r' : Raft} {m : Message} {c : Nat}
    (h0 : G A a m r) (hid : r'.id = r.id) (hs : r'.state = r.state) (ht : r'.term = r.term)
    (hp : mfun r'.prs = mfun r.prs) (hq : r'.msgs = r.msgs)
    (hl : r'.raftLog = { r.raftLog with committed := c }) (hc : r.raftLog.committed ≤ c)
    (hlc : r'.state = .leader → LCok r') : G A a m r' := by
  have e4 : r'.raftLog.committed = c := by rw [hl]
  have e6 : r'.raftLog.term = r.raftLog.term := by rw [hl]; rfl
  have e7 : r'.raftLog.persisted = r.raftLog.persisted := by rw [hl]
  have e8 : r'.raftLog.lastIndex = r.raftLog.lastIndex := by rw [hl]; rfl
  have e9 : r'.raftLog.lastTerm = r.raftLog.lastTerm := by rw [hl]; rfl
  refine ⟨hid.trans h0.id, ⟨?_⟩, fun h => .inr (hlc h), ?_, ?_, ?_, ?_⟩
  · rw [hs, hp, hid, e7, ht]; exact h0.mok.h
  · intro x hx hty
    rw [hq] at hx
    rcases h0.qlk x hx hty with g | g
    · exact .inl g
    · right
      exact ⟨hs.trans g.lead, g.term.trans ht.symm, g.frm.trans hid.symm,
        fun hh => by rw [e4, e6]; exact ⟨Nat.le_trans (g.app hh).1 hc, (g.app hh).2⟩,
        fun hh => by rw [e4, ht]; exact ⟨Nat.le_trans (g.hb hh).1 hc, (g.hb hh).2⟩⟩
  · intro x hx hty
    rw [hq] at hx
    rcases h0.qak x hx hty with g | g
    · exact .inl g
    · right
      refine ⟨g.term.trans ht.symm, g.frm.trans hid.symm, ?_⟩
      rcases g.src with d | ⟨d1, d2, d3, d4⟩
      · exact .inl d
      · right
        refine ⟨hs.trans d1, d2, d3, ?_⟩
        rcases d4 with d | d
        · left; rw [e4]; omega
        · exact .inr d
  · intro x hx hty
    rw [hq] at hx
    rcases h0.qvk x hx hty with g | g
    · exact .inl g
    · right
      unfold VkOK at *
      rcases g with g | ⟨g1, g2⟩
      · exact .inl g
      · right; rw [e4, e6, ht]; exact ⟨by omega, g2⟩
  · intro x hx hty
    rw [hq] at hx
    rcases h0.qrq x hx hty with g | g
    · exact .inl g
    · right; exact ⟨g.term.trans ht.symm, g.last.trans e8.symm, e9.trans g.lt⟩

theorem maybeCommit_g {A : Nat → Nat → Nat → Prop} {a r r' : Raft} {m : Message} {b : Bool}
    (h : r.maybeCommit = .ok (r', b)) (h0 : G A a m r) : G A a m r' := by
  cases b with
  | false =>
    obtain ⟨mci, gc, _, hh | hh⟩ := maybeCommit_spec h
    · cases hh.1
    · rw [hh.2]; exact h0
  | true =>
    obtain ⟨mci, gc, hm, e1, e2, e3, e4, _, ⟨Q, hQ, hQm⟩, e5, e6⟩ :=
      RaftProps.C04.C04_leader_commit_rule r r' h
    have hshape : r' = ({ r with raftLog := { r.raftLog with committed := mci } } : Raft).modifyProgress
        r.id (fun pr => pr.updateCommitted mci) := by
      unfold Raft.maybeCommit at h
      rw [hm] at h
      simp only [] at h
      split at h
      · cases h
      · cases h
      · rename_i log hl
        cases h
        have : log = { r.raftLog with committed := mci } := by
          have := e5
          simp only [modifyProgress] at this
          exact this
        subst this
        rfl
      · cases h
    have hp : mfun r'.prs = mfun r.prs := by
      rw [hshape]
      exact mfun_modifyProgress _ _ _ (fun pr => updateCommitted_matched pr mci)
    have hv : r'.prs.voters = r.prs.voters := by rw [hshape]; rfl
    refine h0.commitUp (by rw [hshape]; rfl) (by rw [hshape]; rfl) e6 hp (by rw [hshape]; rfl) e5
      (Nat.le_of_lt e2) (fun _ => ?_)
    refine ⟨⟨Q, by rw [hv]; exact hQ, fun v hv' => ?_⟩, ?_⟩
    · obtain ⟨pr, hg, hle⟩ := hQm v hv'
      refine ⟨pr.matched, ?_, by rw [e1]; exact hle⟩
      rw [hp]; exact mfun_of_get hg
    · rw [e1, e6, e5]
      exact e4

end CC
end Raft
end RaftModel
