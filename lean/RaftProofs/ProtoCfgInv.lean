import RaftProofs.ProtoCfgK

/-!
`InvCfg` holds in every reachable state of PC.
-/
namespace RaftModel.P

theorem invCfg_init : InvCfg cinit := by
  constructor
  · intro a c1 c2 h; simp [cinit] at h
  · intro a c h; simp [cinit] at h
  · intro p hp; simp [cinit, init] at hp
  · intro x hx; simp [cinit] at hx
  · simp [cinit, init]
  · intro pc hpc; simp [cinit, init] at hpc
  · intro x hx; simp [cinit] at hx
  · simp [cinit, CvOk]
  · intro p hp; simp [cinit] at hp
  · intro r hr; simp [cinit, init] at hr
  · intro r hr; simp [cinit, init] at hr

/-- the count of membership changes committed by a recorded leader commit is stable -/
theorem cc_stable {s s' : PSys} (g : Grow s s') (h3 : InvC3 s) {p : Nat × Nat} (hp : p ∈ s.cmts) :
    ccOf s'.llog p = ccOf s.llog p := by
  obtain ⟨_, hlen, _, hel, _⟩ := h3.cq p hp
  unfold ccOf
  rw [g.take_eq hel hlen]

/-- frame: `base` makes a step that leaves the configuration ghosts, the leader commits and the
election logs alone -/
theorem invCfg_frame (S : CSys) (b : PSys) (hC : InvCfg S) (h3 : InvC3 S.base) (g : Grow S.base b)
    (hec : b.ecfgs = S.base.ecfgs) (hcc : b.ccfgs = S.base.ccfgs) (hcm : b.cmts = S.base.cmts)
    (hel : b.elog = S.base.elog) (hak : ∀ a ∈ S.base.acks, a ∈ b.acks)
    (hRd : InvRd S.base)
    (hak' : b.acks = S.base.acks ∨ ∃ x, b.acks = x :: S.base.acks)
    (hiss : b.rd.issued = S.base.rd.issued ∨
      ∃ rid i, b.rd.issued = ⟨rid, i, S.base.cmts.length, S.base.acks.length⟩ :: S.base.rd.issued) :
    InvCfg { S with base := b } := by
  have hlen : S.cvs.length = S.base.cmts.length := by rw [← hC.c1m, List.length_map]
  have hiss' : ∀ r ∈ b.rd.issued, r ∈ S.base.rd.issued ∨
      (r.ncm = S.base.cmts.length ∧ r.nak = S.base.acks.length) := by
    intro r hr
    rcases hiss with h | ⟨rid, i, h⟩
    · rw [h] at hr; exact Or.inl hr
    · rw [h] at hr
      rcases List.mem_cons.1 hr with hr | hr
      · subst hr; exact Or.inr ⟨rfl, rfl⟩
      · exact Or.inl hr
  constructor
  · exact hC.t0a
  · exact hC.t0s
  · intro p hp
    simp only at hp
    rw [hec] at hp
    exact hC.e1 p hp
  · intro x hx
    obtain ⟨h1, h2, h3'⟩ := hC.e2 x hx
    refine ⟨g.el _ h1, ?_, ?_⟩
    · simp only; rw [hel]; exact h2
    · rcases h3' with h0 | ⟨p, hp, hlt, hle⟩
      · exact Or.inl h0
      · refine Or.inr ⟨p, ?_, hlt, ?_⟩
        · simp only; rw [hcm]; exact hp
        · simp only; rw [cc_stable g h3 hp]; exact hle
  · simp only; rw [hcm]; exact hC.c1m
  · intro pc hpc
    simp only at hpc
    rw [hcc] at hpc
    exact hC.c1 pc hpc
  · intro x hx
    obtain ⟨cfg, q, h1, h2, h3'⟩ := hC.cq x hx
    refine ⟨cfg, q, h1, h2, ?_⟩
    intro v hv
    obtain ⟨a, ha, h4⟩ := h3' v hv
    exact ⟨a, hak a ha, h4⟩
  · exact CvOk.congr (fun x hx => cc_stable g h3 (cvs_mem_cmts hC hx)) hC.c2
  · exact hC.c3
  · intro r hr pc hpc
    have e1 : ccfgsAt b r.ncm = ccfgsAt S.base r.ncm := by unfold ccfgsAt; rw [hcc]
    rw [e1] at hpc
    rcases hiss' r hr with hr | ⟨h1, _⟩
    · exact hC.rc r hr pc hpc
    · rw [h1] at hpc ⊢
      rw [← ccfgs_length h3, ccfgsAt_full] at hpc
      obtain ⟨x, hx, hv⟩ := hC.c1 pc hpc
      refine ⟨x, ?_, hv⟩
      show (pc.1, x) ∈ S.cvs.drop (S.cvs.length - S.base.cmts.length)
      rw [hlen, Nat.sub_self, List.drop_zero]; exact hx
  · intro r hr x hx
    have hx' : x ∈ cvsAt S r.ncm := hx
    rcases hiss' r hr with hr | ⟨h1, h2⟩
    · have e2 : acksAt b r.nak = acksAt S.base r.nak := acksAt_stable hak' (hRd.bnd r hr).2
      rw [e2]
      exact hC.rq r hr x hx'
    · have e2 : acksAt b r.nak = S.base.acks := by
        rw [h2, acksAt_stable hak' (Nat.le_refl _), acksAt_full]
      rw [e2]
      exact hC.cq x (cvsAt_sub hx')

/-- a new version is appended to the table: adjacent (both ways) to the last one, meeting itself -/
theorem invCfg_push (S : CSys) (hC : InvCfg S) (cfg : Cfg) (hs : adjOk cfg cfg = true)
    (hp : ∀ a prev, a + 1 = S.vtab.length → S.vtab[a]? = some prev → adj2 prev cfg = true) :
    InvCfg { S with vtab := S.vtab ++ [cfg] } := by
  have hkeep : ∀ (a : Nat) c, S.vtab[a]? = some c → (S.vtab ++ [cfg])[a]? = some c := by
    intro a c h
    have hlt := (List.getElem?_eq_some_iff.mp h).1
    rw [List.getElem?_append_left hlt]; exact h
  constructor
  · intro a c1 c2 h1 h2
    simp only at h1 h2
    by_cases ha : a + 1 < S.vtab.length
    · rw [List.getElem?_append_left (by omega)] at h1
      rw [List.getElem?_append_left ha] at h2
      exact hC.t0a a c1 c2 h1 h2
    · by_cases ha' : a + 1 = S.vtab.length
      · rw [List.getElem?_append_left (by omega)] at h1
        rw [List.getElem?_append_right (by omega)] at h2
        have : a + 1 - S.vtab.length = 0 := by omega
        rw [this] at h2
        simp at h2
        subst h2
        exact hp a c1 ha' h1
      · exfalso
        have : (S.vtab ++ [cfg]).length ≤ a + 1 := by simp; omega
        rw [List.getElem?_eq_none this] at h2
        cases h2
  · intro a c h
    simp only at h
    by_cases ha : a < S.vtab.length
    · rw [List.getElem?_append_left ha] at h
      exact hC.t0s a c h
    · rw [List.getElem?_append_right (by omega)] at h
      have hm := List.mem_of_getElem? h
      simp at hm
      subst hm; exact hs
  · intro p hp'
    obtain ⟨m, h1, h2⟩ := hC.e1 p hp'
    exact ⟨m, h1, hkeep _ _ h2⟩
  · exact hC.e2
  · exact hC.c1m
  · intro pc hpc
    obtain ⟨j, h1, h2⟩ := hC.c1 pc hpc
    exact ⟨j, h1, hkeep _ _ h2⟩
  · intro x hx
    obtain ⟨c, q, h1, h2⟩ := hC.cq x hx
    exact ⟨c, q, hkeep _ _ h1, h2⟩
  · exact hC.c2
  · exact hC.c3
  · intro r hr pc hpc
    obtain ⟨x, h1, h2⟩ := hC.rc r hr pc hpc
    exact ⟨x, h1, hkeep _ _ h2⟩
  · intro r hr x hx
    obtain ⟨c, q, h1, h2⟩ := hC.rq r hr x hx
    exact ⟨c, q, hkeep _ _ h1, h2⟩

theorem invCfg_win (S S' : CSys) (i : Nat) (cfg : Cfg) (q : List Nat) (applied : Nat)
    (h : applyEventC S (.win i cfg q applied) = .ok S') (hI : InvAll S.base) (hC : InvCfg S) : InvCfg S' := by
  simp only [applyEventC] at h
  split at h
  · rename_i hloc
    obtain ⟨happ, hcnt, hv⟩ := hloc
    split at h
    · rename_i b hb
      cases h
      have g := grow_step S.base b _ hI.v hI.l hb
      obtain ⟨hrole, hq, hall, _, hs', _, hadj, _⟩ := win_guard hb
      have hf := win_fresh S.base hI.v hI.l i cfg q hrole hq hall hadj
      have hne : ∀ t, Elected S.base t → t ≠ (S.base.nodes i).term := fun t ht he => hf (he ▸ ht)
      have hcm : b.cmts = S.base.cmts := by rw [hs']
      have hacks : b.acks = S.base.acks := by rw [hs']
      have hccf : b.ccfgs = S.base.ccfgs := by rw [hs']
      have hecf : b.ecfgs = ((S.base.nodes i).term, cfg) :: S.base.ecfgs := by rw [hs']
      have helog : ∀ t, t ≠ (S.base.nodes i).term → b.elog t = S.base.elog t := by
        intro t ht; rw [hs']; simp only [updT, ht, if_false]
      have helog' : b.elog (S.base.nodes i).term = (S.base.nodes i).log := by
        rw [hs']; simp only [updT, if_true]
      have hel' : Elected b (S.base.nodes i).term := ⟨i, by rw [hs']; exact List.mem_cons_self⟩
      constructor
      · exact hC.t0a
      · exact hC.t0s
      · intro p hp
        simp only at hp
        rw [hecf] at hp
        rcases List.mem_cons.1 hp with hp | hp
        · subst hp
          exact ⟨_, List.mem_cons_self, hv⟩
        · obtain ⟨m, h1, h2⟩ := hC.e1 p hp
          exact ⟨m, List.mem_cons_of_mem _ h1, h2⟩
      · intro x hx
        simp only at hx
        rcases List.mem_cons.1 hx with hx | hx
        · subst hx
          refine ⟨hel', ?_, ?_⟩
          · simp only; rw [helog']; exact hcnt
          · simp only
            rcases hI.c.c3.cm i with h0 | ⟨p, hp, h1, h2, h3⟩
            · left
              have : applied = 0 := by omega
              rw [this]; simp [confCount]
            · right
              have hpel := (hI.c.c3.cq p hp).2.2.2.1
              have hpne := hne p.1 hpel
              refine ⟨p, by rw [hcm]; exact hp, by omega, ?_⟩
              rw [cc_stable g hI.c.c3 hp]
              unfold ccOf
              rw [confCount_of_take_eq h3 happ]
              exact confCount_take_mono _ (by omega)
        · obtain ⟨h1, h2, h3⟩ := hC.e2 x hx
          refine ⟨g.el _ h1, ?_, ?_⟩
          · simp only; rw [helog _ (hne _ h1)]; exact h2
          · rcases h3 with h0 | ⟨p, hp, hlt, hle⟩
            · exact Or.inl h0
            · refine Or.inr ⟨p, ?_, hlt, ?_⟩
              · simp only; rw [hcm]; exact hp
              · simp only; rw [cc_stable g hI.c.c3 hp]; exact hle
      · simp only; rw [hcm]; exact hC.c1m
      · intro pc hpc
        simp only at hpc
        rw [hccf] at hpc
        exact hC.c1 pc hpc
      · intro x hx
        simp only; rw [hacks]
        exact hC.cq x hx
      · exact CvOk.congr (fun x hx => cc_stable g hI.c.c3 (cvs_mem_cmts hC hx)) hC.c2
      · intro p hp e he het
        simp only at hp he
        rcases List.mem_cons.1 he with he | he
        · exfalso
          subst he
          have hpel := (hI.c.c3.cq p.1 (cvs_mem_cmts hC hp)).2.2.2.1
          exact hne _ hpel het.symm
        · exact hC.c3 p hp e he het
      · intro r hr pc hpc
        have hrd : b.rd = S.base.rd := by rw [hs']
        have e1 : ccfgsAt b r.ncm = ccfgsAt S.base r.ncm := by unfold ccfgsAt; rw [hccf]
        simp only at hr hpc
        rw [hrd] at hr; rw [e1] at hpc
        exact hC.rc r hr pc hpc
      · intro r hr x hx
        have hrd : b.rd = S.base.rd := by rw [hs']
        have e2 : acksAt b r.nak = acksAt S.base r.nak := by unfold acksAt; rw [hacks]
        simp only at hr
        rw [hrd] at hr
        simp only; rw [e2]
        exact hC.rq r hr x hx
    · cases h
  · cases h

theorem invCfg_commit (S S' : CSys) (i c : Nat) (cfg : Cfg) (q : List Nat) (applied : Nat)
    (h : applyEventC S (.commitLeader i c cfg q applied) = .ok S') (hI : InvAll S.base) (hRd : InvRd S.base)
    (hC : InvCfg S) : InvCfg S' := by
  have hlenc : S.cvs.length = S.base.cmts.length := by rw [← hC.c1m, List.length_map]
  simp only [applyEventC] at h
  split at h
  · rename_i hloc
    obtain ⟨happ, hcnt, hv, hmono⟩ := hloc
    split at h
    · rename_i b hb
      cases h
      obtain ⟨_, hrole, _, _, _, hq, hacks, _, _, hs'⟩ := commitLeader_guard hb
      have hll : (S.base.nodes i).log = S.base.llog (S.base.nodes i).term := hI.l.ll i hrole
      have hllog : b.llog = S.base.llog := by rw [hs']
      have helog : b.elog = S.base.elog := by rw [hs']
      have hecf : b.ecfgs = S.base.ecfgs := by rw [hs']
      have hak : b.acks = S.base.acks := by rw [hs']
      have hcm : b.cmts = ((S.base.nodes i).term, c) :: S.base.cmts := by rw [hs']
      have hccf : b.ccfgs = (((S.base.nodes i).term, c), cfg) :: S.base.ccfgs := by rw [hs']
      have hel : ∀ t, Elected S.base t → Elected b t := by
        rintro t ⟨j, hj⟩; exact ⟨j, by rw [hs']; exact hj⟩
      constructor
      · exact hC.t0a
      · exact hC.t0s
      · intro p hp
        simp only at hp
        rw [hecf] at hp
        exact hC.e1 p hp
      · intro x hx
        obtain ⟨h1, h2, h3⟩ := hC.e2 x hx
        refine ⟨hel _ h1, ?_, ?_⟩
        · simp only; rw [helog]; exact h2
        · rcases h3 with h0 | ⟨p, hp, hlt, hle⟩
          · exact Or.inl h0
          · refine Or.inr ⟨p, ?_, hlt, ?_⟩
            · simp only; rw [hcm]; exact List.mem_cons_of_mem _ hp
            · simp only; rw [hllog]; exact hle
      · simp only [List.map_cons]; rw [hcm, hC.c1m]
      · intro pc hpc
        simp only at hpc
        rw [hccf] at hpc
        rcases List.mem_cons.1 hpc with hpc | hpc
        · subst hpc
          exact ⟨_, List.mem_cons_self, hv⟩
        · obtain ⟨j, h1, h2⟩ := hC.c1 pc hpc
          exact ⟨j, List.mem_cons_of_mem _ h1, h2⟩
      · intro x hx
        simp only at hx ⊢
        rw [hak]
        rcases List.mem_cons.1 hx with hx | hx
        · subst hx
          exact ⟨cfg, q, hv, hq, hacks⟩
        · exact hC.cq x hx
      · simp only; rw [hllog]
        refine ⟨hC.c2, ?_, ?_⟩
        · simp only [ccOf]; rw [← hll]; exact hcnt
        · simp only
          rcases hI.c.c3.cm i with h0 | ⟨p, hp, h1, h2, h3⟩
          · left
            have : applied = 0 := by omega
            rw [this]; simp [confCount]
          · right
            obtain ⟨r, hr, hr1⟩ := cmts_mem_cvs hC hp
            refine ⟨r, hr, by rw [hr1]; exact h2, ?_⟩
            rw [hr1]
            unfold ccOf
            rw [confCount_of_take_eq h3 happ]
            exact confCount_take_mono _ (by omega)
      · intro p hp e he het
        simp only at hp he
        rcases List.mem_cons.1 hp with hp | hp
        · subst hp
          simp only [verMono, Bool.and_eq_true, List.all_eq_true, Bool.or_eq_true, bne_iff_ne, ne_eq,
            decide_eq_true_eq] at hmono
          rcases hmono.1 e he with h1 | h1
          · exact absurd het h1
          · exact h1
        · exact hC.c3 p hp e he het
      · intro r hr pc hpc
        have hrd : b.rd = S.base.rd := by rw [hs']
        simp only at hr hpc
        rw [hrd] at hr
        have hb := (hRd.bnd r hr).1
        have e1 : ccfgsAt b r.ncm = ccfgsAt S.base r.ncm :=
          ccfgsAt_stable (Or.inr ⟨_, hccf⟩) (by rw [ccfgs_length hI.c.c3]; exact hb)
        rw [e1] at hpc
        obtain ⟨x, hx, hxv⟩ := hC.rc r hr pc hpc
        refine ⟨x, ?_, hxv⟩
        show (pc.1, x) ∈ (_ :: S.cvs).drop ((_ :: S.cvs).length - r.ncm)
        rw [drop_cons_stable _ _ _ (by rw [hlenc]; exact hb)]
        exact hx
      · intro r hr x hx
        have hrd : b.rd = S.base.rd := by rw [hs']
        simp only at hr
        rw [hrd] at hr
        have hb := (hRd.bnd r hr).1
        have hx' : x ∈ (_ :: S.cvs).drop ((_ :: S.cvs).length - r.ncm) := hx
        rw [drop_cons_stable _ _ _ (by rw [hlenc]; exact hb)] at hx'
        have e2 : acksAt b r.nak = acksAt S.base r.nak := by unfold acksAt; rw [hak]
        simp only; rw [e2]
        exact hC.rq r hr x hx'
    · cases h
  · cases h

theorem invCfg_step (S S' : CSys) (e : CEvent) (h : applyEventC S e = .ok S') (hI : InvAll S.base)
    (hRd : InvRd S.base) (hC : InvCfg S) : InvCfg S' := by
  cases e with
  | base e =>
    simp only [applyEventC] at h
    split at h
    · cases h
    · rename_i hw
      split at h
      · rename_i b hb
        cases h
        have hw' : isWinOrCommit e = false := by simpa using hw
        obtain ⟨h1, h2, h3, h4, h5⟩ := base_shape S.base b e hw' hb
        exact invCfg_frame S b hC hI.c.c3 (grow_step S.base b e hI.v hI.l hb) h1 h2 h3 h4 h5 hRd
          (step_shape S.base b e hb).2.2.1 (issued_shape S.base b e hb)
      · cases h
  | cfgInit cfg =>
    simp only [applyEventC] at h
    split at h
    · rename_i hg
      cases h
      have := invCfg_push S hC cfg hg.2 (by
        intro a prev ha; rw [hg.1] at ha; simp at ha)
      rw [hg.1] at this
      exact this
    · cases h
  | applyConf i idx cfg =>
    simp only [applyEventC] at h
    split at h
    · rename_i hg
      split at h
      · split at h
        · cases h; exact hC
        · cases h
      · rename_i hnlt
        split at h
        · rename_i prev hprev
          split at h
          · rename_i hadj
            cases h
            refine invCfg_push S hC cfg hadj.2 ?_
            intro a p ha hp
            have hlen : confCount ((S.base.nodes i).log.take idx) = S.vtab.length := by omega
            rw [hlen] at hprev
            have : S.vtab.length - 1 = a := by omega
            rw [this, hp] at hprev
            injection hprev with hprev
            rw [hprev]; exact hadj.1
          · cases h
        · cases h
    · cases h
  | win i cfg q applied => exact invCfg_win S S' i cfg q applied h hI hC
  | commitLeader i c cfg q applied => exact invCfg_commit S S' i c cfg q applied h hI hRd hC
  | resp i rid idx cfg applied | rstate j rid idx cfg applied =>
    simp only [applyEventC] at h
    split at h
    · split at h
      · rename_i b hb
        cases h
        obtain ⟨h1, h2, h3, h4, h5⟩ := read_cfgshape S.base b _ hb
        exact invCfg_frame S b hC hI.c.c3 (grow_step S.base b _ hI.v hI.l hb) h1 h2 h3 h4 h5 hRd
          (step_shape S.base b _ hb).2.2.1 (issued_shape S.base b _ hb)
      · cases h
    · cases h

/-- **`InvCfg` holds in every reachable state of PC** -/
theorem invCfg_reach {S : CSys} (h : ReachPC S) : InvCfg S := by
  induction h with
  | init => exact invCfg_init
  | step e hr hs ih =>
    exact invCfg_step _ _ e hs (invAll_reachR _ (reach_base hr)) (invRd_reachR _ (reach_base hr)) ih

end RaftModel.P
