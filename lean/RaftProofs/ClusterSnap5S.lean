import RaftProofs.ClusterSnap5R

/-!
[Copy of `ClusterSnap2S.lean` for the development `Snap5` (with `request_snapshot`): `NoReq` is replaced by
`ReqOk`, `SnapCase.restored` is widened — see `ClusterSnap5A.lean`, `RaftProps/C01i.lean`.]

Commit safety of `ClusterSem` with compaction and snapshots, part 2S (as `ClusterSnapR`): an up-to-date
log holds the committed entry in its ghost log (`upto_has`), and the induction step for **leader
completeness** (`lc_step`).  A log that ends at a snapshot point beyond the common initial one has, as its
last term, the term of the ghost entry at that point, which was an entry of a real log of the past
(`NodeFull.pastL`).
-/
namespace RaftModel
namespace Cluster
namespace Snap5
open Node Raft Raft.CC RaftProps.C02 RaftProps.C05 Snap

variable {cfg : JointConfig} {c0 : Nat} {h : List Sys}

/-- **an up-to-date log holds the committed entry** (in its ghost log) -/
theorem upto_has (H : Hyp3a cfg c0 h) {n : Nat} (S : SAll h c0 n) {a : Sys} (ha : h[n]? = some a)
    {v : Nat} {st : NState} (hv : a.node v = some st) {E : Ev} (hE : E.ok h) {lt : Nat}
    (hlt : st.raft.raftLog.lastTerm = .ok lt)
    (hup : E.t < lt ∨ (lt = E.t ∧ E.c ≤ st.raft.raftLog.lastIndex)) :
    Has (FL h c0 st) E.c E.t := by
  have H2 := H.toHyp2w
  have o := node_ok H2 ha hv
  have I := (ghost_inv H2 n a ha).node v st hv
  obtain ⟨_, _, hc0⟩ := Ev.leaderLog H2 hE
  obtain ⟨aE, bE, staE, stbE, _, hbE, _, hlbE, hslE, htlE, _⟩ := id hE
  have hleads : leads bE E.l E.t := ⟨stbE, hlbE, hslE, htlE⟩
  rw [o.inv.lastTerm_abs] at hlt
  rw [o.inv.lastIndex_abs] at hup
  by_cases hc : c0 < st.raft.raftLog.abs.lastIndex
  · obtain ⟨e, he, helt⟩ := I.log.lastTerm hlt hc
    subst helt
    obtain ⟨m0, sm, loc0, g0, hm0, hsm, hat0, hg0⟩ := I.pastL _ e he
    obtain ⟨s0, h0, hprov⟩ := entry_prov H2
    rcases hprov m0 sm hsm loc0 g0 hat0 _ e hg0 with hini | hborn
    · have := init_entry_term H2 h0 hini hbE hleads
      omega
    · obtain ⟨m, s, l, stl, hm', hs, hl, hsl, htl, hel, htail⟩ := hborn
      have hm : m ≤ n := Nat.le_trans hm' hm0
      have Il := (ghost_inv H2 m s hs).node l stl hl
      have heq := flogs_eq_below H2 ha hs hv hl he (Il.log.entry hel) rfl
      have hLl : LeaderLog h c0 n e.term (FL h c0 stl) := ⟨m, s, l, stl, hm, hs, hl, hsl, htl, rfl⟩
      have hreachL := (stl.raft.raftLog.abs.entryAt_lt hel)
      rcases hup with c | ⟨c1, c2⟩
      · have hLh := (S m s hm hs).lc E hE l stl hl hsl (by rw [htl]; exact c)
        obtain ⟨ec, hec, hect⟩ := id hLh
        have hle : E.c ≤ st.raft.raftLog.abs.lastIndex := by
          apply Classical.byContradiction
          intro hnle
          rw [Il.log.ents E.c (by omega)] at hec
          have := htail E.c ec hec (by omega)
          omega
        exact Has.of_eq (heq E.c hle) hLh
      · have hLh : Has (FL h c0 stl) E.c E.t :=
          ll_has H2 S (by rw [← c1]; exact hLl) hE (Nat.le_refl _)
            (fun _ => by rw [Il.log.last]; omega)
        exact Has.of_eq (heq E.c c2) hLh
  · -- an empty log at the common snapshot point: its last term is below every led term
    exfalso
    rcases st.raft.raftLog.abs.lastTerm_cases with ⟨_, e, he, _⟩ | ⟨c1, c2⟩
    · have := st.raft.raftLog.abs.entryAt_lt he
      have := I.log.le
      omega
    · have hst := c2 lt hlt
      have hsi : st.raft.raftLog.abs.snapIdx = c0 := by
        have := I.log.le
        omega
      obtain ⟨s0, h0, _⟩ := H2.inv_at
      have hex : ∃ st0, s0.node E.l = some st0 :=
        node_back_steps ((hist_all H.hist).2.2 0 (E.nE + 1) s0 bE (Nat.zero_le _) h0 hbE) E.l stbE
          hlbE
      obtain ⟨st0, hl0⟩ := hex
      have h1 := H.snapt a (mem_of_get ha) v st hv hsi lt hst s0 h0 E.l st0 hl0
      have h2 := lead_above_init H2 h0 hl0 hbE hleads
      omega

theorem lc_step (H : Hyp3a cfg c0 h) {n : Nat} (S : SAll h c0 n) {a b : Sys}
    (ha : h[n]? = some a) (hb : h[n + 1]? = some b) :
    ∀ E : Ev, E.ok h → ∀ l st', b.node l = some st' → st'.raft.state = .leader →
      E.t < st'.raft.term → Has (FL h c0 st') E.c E.t := by
  intro E hE l st' hlb hlead hEt
  have H2 := H.toHyp2w
  have Sa := S n a (Nat.le_refl _) ha
  obtain ⟨k, stk, stk', hka, hkb, hoth, hs⟩ := H2.stp ha hb
  by_cases hlk : l = k
  · subst hlk
    have hkb' := hkb
    rw [hkb] at hlb; cases hlb
    cases hs with
    | restart c rnd hboot hnet _ =>
      rw [(CV.boot_booted c _ rnd st' hboot).state] at hlead; cases hlead
    | snap rnd m hm hto hty hpn hout hnet =>
      cases hout with
      | skip hr =>
        rw [FL_same (st := stk) (by rw [hr])]
        exact Sa.lc E hE l stk hka (by rw [hr] at hlead; exact hlead) (by rw [hr] at hEt; exact hEt)
      | handled x hsf => rw [hsf] at hlead; cases hlead
    | psnap rnd hp hout hpend hnet =>
      obtain ⟨_, p2, p3⟩ := persist_same hout
      rw [FL_same (persist_abs hout)]
      exact Sa.lc E hE l stk hka (by rw [← p3]; exact hlead) (by rw [← p2]; exact hEt)
    | send hp hu hq hsame hnet _ =>
      rw [FL_same (st := stk) (by rw [hsame.1])]
      exact Sa.lc E hE l stk hka (by rw [← hsame.2.2]; exact hlead) (by rw [← hsame.2.1]; exact hEt)
    | call rnd op res hop hnc hca hns hpn hss hcall hnet _ _ =>
      have hL := (call_facts H2 ha hka hop hnc hns hpn hcall).2.1
      have hcs := fcall_step H2 ha hb hka hkb' hop hnc hns hpn hcall
      have keepHas : Has (FL h c0 stk) E.c E.t → Has (FL h c0 st') E.c E.t := by
        intro hh
        cases hcs with
        | same hl _ => exact Has.of_eq (hl _) hh
        | grew es hg hl _ =>
          refine Has.of_eq (hl _ ?_) hh
          obtain ⟨e, he, _⟩ := hh
          rw [← fl_last H2 ha hka]; exact ((FL h c0 stk).entryAt_lt he).2
        | acc m _ _ _ _ _ _ _ hsf _ => rw [hsf] at hlead; cases hlead
      have hall := hist_all H.hist
      have I1a := hall.1 a (mem_of_get ha)
      have I1b := hall.1 b (mem_of_get hb)
      have I2b := hall.2.1 cfg H.fix b (mem_of_get hb)
      obtain ⟨Q1, hQ1, hq1⟩ := I2b.lead l st' hkb' hlead
      -- the new leader's own vote request for its term is in the transport
      have hreq : ∃ q ∈ a.net, q.msgType = .msgRequestVote ∧ q.frm = l ∧ q.term = st'.raft.term := by
        obtain ⟨j, hj, hjl⟩ := H.nolone l Q1 hQ1
        rcases hq1 j hj with c | ⟨g, hg, g1, g2, g3, g4, g5⟩
        · exact absurd c hjl
        · have hrv : CV.isRVm g = true := by simp [CV.isRVm, g1, g2]
          obtain ⟨stj, _, hok, _⟩ := I1b.net g hg hrv
          obtain ⟨q, hq, q1, q2, q3⟩ := hok.2.2.2.2 g1
          rw [hnet] at hq
          exact ⟨q, hq, q1, by rw [q2, g4], by rw [q3, g5]⟩
      obtain ⟨q0, hq0, q0ty, q0frm, q0term⟩ := hreq
      have hq0le := req_term_le H2 ha hka (.inl hq0) q0ty q0frm
      rcases hL.rt.lead hlead with c | ⟨c1, c2⟩
      · omega
      rcases c2 with c2 | c2
      · -- the candidate of term `T` wins the election in this step
        obtain ⟨aE, bE, staE, stbE, haE, hbE, hlaE, hlbE, hslE, htlE, _, _, _, _, _, hc0, _, _, Q2, hQ2,
            hq2⟩ :=
          Ev.facts H2 hE
        obtain ⟨v, _, hv1, hv2⟩ := joint_quorums_intersect cfg Q1 Q2 (.inl H.ne) hQ1 hQ2
        -- the voter `v` is bound to the term
        have hfloor : ∃ stv, a.node v = some stv ∧ FloorAt a v st'.raft.term := by
          rcases hq1 v hv1 with c | ⟨g, hg, g1, g2, g3, g4, g5⟩
          · subst c
            refine ⟨stk, hka, fun st2 h2 => ?_⟩
            rw [hka] at h2; cases h2
            have hrv : CV.isRVm q0 = true := by simp [CV.isRVm, q0ty]
            obtain ⟨stq, h1, _, hges⟩ := I1a.net q0 hq0 hrv
            rw [q0frm, hka] at h1; cases h1
            refine ⟨Nat.le_of_eq c1.symm, ?_⟩
            rcases hges with d | ⟨d, _⟩ <;> omega
          · rw [hnet] at hg
            have hrv : CV.isRVm g = true := by simp [CV.isRVm, g1, g2]
            obtain ⟨stv, h1, hok, hges⟩ := I1a.net g hg hrv
            rw [g3] at h1
            refine ⟨stv, h1, fun st2 h2 => ?_⟩
            rw [h1] at h2; cases h2
            constructor
            · rcases hok.2.2.2.1 with d | ⟨d, _⟩ <;> omega
            · rcases hges with d | ⟨d, _⟩ <;> omega
        obtain ⟨stv, hva, hfl⟩ := hfloor
        -- `v` has acknowledged the event by now
        have hacked : AckedMem a n E v stv := by
          rcases hq2 v hv2 with ⟨c1', c2'⟩ | ⟨x, hx, hack, hxf, hxt, hxi⟩
          · right
            refine ⟨c1', ?_, c2'⟩
            apply Classical.byContradiction
            intro hnlt
            have hsteps := hall.2.2 n (E.nE + 1) a bE (by omega) ha hbE
            have := (hfl.steps hsteps) stbE (by rw [c1']; exact hlbE)
            omega
          · have hx0 : x.index ≠ 0 := by omega
            have hxt' : x.term = E.t := by
              rcases hxt with d | d
              · exact d
              · exact absurd d ((ack_inv H2 E.nE aE haE).2 x hx hack hx0).2
            left
            rcases Nat.le_total E.nE n with hle | hle
            · exact ⟨x, .inl (steps_net (hall.2.2 E.nE n aE a hle haE ha) x hx), hack, hxf, hxt', hxi⟩
            · obtain ⟨d, hd⟩ := Nat.exists_eq_add_of_le hle
              rw [hd] at haE
              have := ack_fwd H2 hack hx0 hxf (by rw [hxt']; exact hEt) d n a aE ha haE hfl (.inl hx)
              rcases this with c | ⟨st2, h2, c⟩
              · exact ⟨x, .inl c, hack, hxf, hxt', hxi⟩
              · rw [hva] at h2; cases h2
                exact ⟨x, .inr c, hack, hxf, hxt', hxi⟩
        by_cases hvl : v = l
        · subst hvl
          rw [hka] at hva; cases hva
          exact keepHas (Sa.retm E hE v stk hka hacked)
        · -- a granted vote of `v`
          rcases hq1 v hv1 with c | ⟨g, hg, g1, g2, g3, g4, g5⟩
          · exact absurd c hvl
          · rw [hnet] at hg
            have hnl : ¬ LedBy h n g.term := by
              rintro ⟨m', s', l'', hm'le, hs', hl''⟩
              obtain ⟨stl, h1, h2, h3⟩ := id hl''
              obtain ⟨d, hd⟩ := Nat.exists_eq_add_of_le hm'le
              have hb' : h[m' + (d + 1)]? = some b := by rw [← hb]; congr 1; omega
              have := (leader_log_ext H2 hs' hb' h1 hkb' h2 hlead h3 g5.symm).1
              subst this
              have ha' : h[m' + d]? = some a := by rw [← hd]; exact ha
              exact led_not_cand H2 hs' hl'' d a ha' stk hka ⟨c2, by rw [c1, g5]⟩
            obtain ⟨q, hq, q1, q2, q3, hup⟩ :=
              Sa.g1 E hE v stv g hva (.inl hg) ⟨g1, g2⟩ g3 (by rw [g5]; exact hEt) hacked hnl
            have hri := req_inv H2 n a ha l stk hka c2 q (.inl hq) q1 (by rw [q2, g4])
              (by rw [q3, g5, c1])
            refine keepHas (upto_has H S ha hka hE hri.2 ?_)
            rcases hup with d | ⟨d1, d2⟩
            · exact .inl d
            · exact .inr ⟨d1, by rw [← hri.1]; exact d2⟩
      · exact keepHas (Sa.lc E hE l stk hka c2 (by rw [c1]; exact hEt))
  · have hla : a.node l = some st' := by rw [← hoth l hlk]; exact hlb
    exact Sa.lc E hE l st' hla hlead hEt


end Snap5
end Cluster
end RaftModel
