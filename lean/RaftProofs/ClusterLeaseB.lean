import RaftProofs.ClusterLeaseA

/-!
Cluster-level lease theorem (C16, second half), helper lemmas part B: the anchored per-call invariant
`LInv a m r` ("`r` is an intermediate state of a call that started in `a` with input message `m`") —
what the queue gained (`Emit`), where a new `MsgTimeoutNow` can come from, where the recorded
pre-vote grants of a pre-candidate come from, and what can end a leadership — and its preservation
by the role changes, `poll`, `campaign`, `hup`, `maybe_commit_by_vote`.
-/
namespace RaftModel
namespace Raft
namespace LS
open VoteOb

/-- the lease test of the term preamble of `step` (raft.rs:1363-1384) drops the request `m` -/
def Dropped (a : Raft) (m : Message) : Prop :=
  m.term ≠ 0 ∧ a.term < m.term ∧ m.context ≠ campaignTransfer ∧ a.checkQuorum = true ∧
    a.leaderId ≠ 0 ∧ a.electionElapsed < a.electionTimeout

/-- the delivered message is a granted pre-vote response of `j` for the pre-campaign of term `t` -/
def PBack (m : Message) (t j : Nat) : Prop :=
  m.msgType = .msgRequestPreVoteResponse ∧ m.reject = false ∧ m.frm = j ∧ m.term = t + 1

/-- a message queued during the call (`tm`: the node's term now) -/
def Emit (a : Raft) (m : Message) (tm : Nat) (x : Message) : Prop :=
  ((x.msgType = .msgRequestVote ∨ x.msgType = .msgRequestPreVote) → x.context = campaignTransfer →
    m.msgType = .msgTimeoutNow) ∧
  (x.term ≤ tm ∨ x.msgType = .msgRequestPreVote ∨
    (x.msgType = .msgRequestPreVoteResponse ∧ x.reject = false ∧ x.frm = a.id ∧
      m.msgType = .msgRequestPreVote ∧ x.term = m.term ∧ ¬ Dropped a m))

/-- no new `MsgTimeoutNow` in the queue -/
def NT (a r : Raft) : Prop := ∀ x ∈ r.msgs, x.msgType = .msgTimeoutNow → Old a.msgs x

/-- the two messages that can make a leader send `MsgTimeoutNow` -/
def isTA (m : Message) : Prop := m.msgType = .msgTransferLeader ∨ m.msgType = .msgAppendResponse

theorem Emit.congr {a : Raft} {m : Message} {tm : Nat} {x y : Message} (h : hd y = hd x)
    (he : Emit a m tm y) : Emit a m tm x := by
  unfold hd at h
  injection h with h1 h2
  injection h2 with h2 h3
  injection h3 with h3 h4
  injection h4 with h4 h5
  unfold Emit at *
  rw [← h1, ← h2, ← h3, ← h4, ← h5]; exact he

theorem Emit.mono {a : Raft} {m : Message} {tm tm' : Nat} {x : Message} (h : tm ≤ tm')
    (he : Emit a m tm x) : Emit a m tm' x :=
  ⟨he.1, he.2.imp (fun g => Nat.le_trans g h) (fun g => g)⟩

theorem Emit.of_plain {a : Raft} {m : Message} {tm : Nat} {x : Message} (hp : Plain tm x) :
    Emit a m tm x := by
  refine ⟨fun hx => ?_, Or.inl hp.2⟩
  have := hp.1
  rcases hx with hx | hx <;> rw [hx] at this <;> cases this

theorem hd_type {x y : Message} (h : hd y = hd x) : y.msgType = x.msgType := by
  unfold hd at h; injection h

/-- the per-call invariant -/
structure LInv (a : Raft) (m : Message) (r : Raft) : Prop where
  id : r.id = a.id
  tm : a.term ≤ r.term
  msgs : ∀ x ∈ r.msgs, Old a.msgs x ∨ Emit a m r.term x
  tn : NT a r ∨ (isTA m ∧ r.leadTransferee ≠ none)
  pc : r.state = .preCandidate → ∀ j, (j, true) ∈ r.prs.votes →
    j = a.id ∨ PBack m r.term j ∨ (a.state = .preCandidate ∧ a.term = r.term ∧ (j, true) ∈ a.prs.votes)
  ld : a.state = .leader → (r.state = .leader ∧ r.term = a.term) ∨ a.term < r.term ∨ r.leaderId = 0

theorem LInv.refl (a : Raft) (m : Message) : LInv a m a :=
  ⟨rfl, Nat.le_refl _, fun _ hx => Or.inl (Old.of_mem hx), Or.inl (fun _ hx _ => Old.of_mem hx),
   fun hs _ hj => Or.inr (Or.inr ⟨hs, rfl, hj⟩), fun hl => Or.inl ⟨hl, rfl⟩⟩

theorem LInv.nt {a r : Raft} {m : Message} (h : LInv a m r) (hm : ¬ isTA m) : NT a r :=
  h.tn.resolve_right (fun c => hm c.1)

/-- a plain step -/
theorem LInv.mf {a r r' : Raft} {m : Message} (h : LInv a m r) (hf : MF r r') : LInv a m r' := by
  refine ⟨hf.id.trans h.id, by rw [hf.term]; exact h.tm, ?_, ?_, ?_, ?_⟩
  · intro x hx
    rw [hf.term]
    rcases hf.msgs x hx with ⟨y, hy, e⟩ | hp
    · rcases h.msgs y hy with ⟨z, hz, e'⟩ | he
      · exact Or.inl ⟨z, hz, e'.trans e⟩
      · exact Or.inr (he.congr e)
    · exact Or.inr (Emit.of_plain hp)
  · rcases h.tn with hn | ⟨h1, h2⟩
    · left
      intro x hx ht
      rcases hf.msgs x hx with ⟨y, hy, e⟩ | hp
      · obtain ⟨z, hz, e'⟩ := hn y hy (by rw [hd_type e]; exact ht)
        exact ⟨z, hz, e'.trans e⟩
      · exact absurd ht (plainT_tn hp.1)
    · exact Or.inr ⟨h1, by rw [hf.lt]; exact h2⟩
  · rw [hf.state, hf.term, hf.votes]; exact h.pc
  · rw [hf.state, hf.term, hf.leaderId]; exact h.ld

/-- a step that keeps the queue and the identity and does not lower the term -/
theorem LInv.upd {a r r' : Raft} {m : Message} (h : LInv a m r) (hid : r'.id = r.id)
    (htm : r.term ≤ r'.term) (hmsgs : r'.msgs = r.msgs)
    (htn : NT a r ∨ (isTA m ∧ r'.leadTransferee ≠ none))
    (hpc : r'.state = .preCandidate → ∀ j, (j, true) ∈ r'.prs.votes →
      j = a.id ∨ PBack m r'.term j ∨
        (a.state = .preCandidate ∧ a.term = r'.term ∧ (j, true) ∈ a.prs.votes))
    (hld : a.state = .leader →
      (r'.state = .leader ∧ r'.term = a.term) ∨ a.term < r'.term ∨ r'.leaderId = 0) :
    LInv a m r' := by
  refine ⟨hid.trans h.id, Nat.le_trans h.tm htm, ?_, ?_, hpc, hld⟩
  · intro x hx
    rw [hmsgs] at hx
    exact (h.msgs x hx).imp (fun g => g) (Emit.mono htm)
  · rcases htn with hn | hn
    · left; intro x hx; rw [hmsgs] at hx; exact hn x hx
    · exact Or.inr hn

theorem ld_of_lt {a r : Raft} (h : a.term < r.term) :
    a.state = .leader → (r.state = .leader ∧ r.term = a.term) ∨ a.term < r.term ∨ r.leaderId = 0 :=
  fun _ => Or.inr (Or.inl h)

/-! ### `reset` and the role changes -/

theorem reset_all (r : Raft) (t : Nat) :
    (r.reset t).id = r.id ∧ (r.reset t).term = t ∧ (r.reset t).state = r.state ∧
    (r.reset t).leaderId = 0 ∧ (r.reset t).leadTransferee = none ∧ (r.reset t).msgs = r.msgs ∧
    (r.reset t).prs.votes = [] := by
  unfold reset
  simp only [mapProgress, abortLeaderTransfer, resetRandomizedElectionTimeout,
    ProgressTracker.resetVotes]
  split <;> simp_all

theorem becomeFollower_all (r : Raft) (t l : Nat) :
    (r.becomeFollower t l).id = r.id ∧ (r.becomeFollower t l).term = t ∧
    (r.becomeFollower t l).state = .follower ∧ (r.becomeFollower t l).leaderId = l ∧
    (r.becomeFollower t l).leadTransferee = none ∧ (r.becomeFollower t l).msgs = r.msgs ∧
    (r.becomeFollower t l).prs.votes = [] := by
  obtain ⟨h1, h2, _, _, h5, h6, h7⟩ := reset_all r t
  unfold becomeFollower
  exact ⟨h1, h2, rfl, rfl, h5, h6, h7⟩

theorem becomeFollower_linv {a r : Raft} {m : Message} (h : LInv a m r) (hnt : NT a r) (t l : Nat)
    (ht : r.term ≤ t) (hld : a.state = .leader → a.term < t ∨ l = 0) :
    LInv a m (r.becomeFollower t l) := by
  obtain ⟨h1, h2, h3, h4, _, h6, _⟩ := becomeFollower_all r t l
  refine h.upd h1 (by rw [h2]; exact ht) h6 (Or.inl hnt) ?_ ?_
  · intro hs; rw [h3] at hs; cases hs
  · intro hl
    rcases hld hl with g | g
    · exact Or.inr (Or.inl (by rw [h2]; exact g))
    · exact Or.inr (Or.inr (by rw [h4]; exact g))

theorem becomeCandidate_linv {a r r' : Raft} {m : Message} (h : LInv a m r) (hnt : NT a r)
    (hc : r.becomeCandidate = .ok r') : LInv a m r' ∧ r'.term = r.term + 1 ∧ r'.state = .candidate := by
  unfold becomeCandidate at hc
  split at hc
  · cases hc
  · split at hc
    · cases hc
    · cases hc
      obtain ⟨h1, h2, _, _, _, h6, _⟩ := reset_all r (r.term + 1)
      have htm : (r.reset (r.term + 1)).term = r.term + 1 := h2
      refine ⟨h.upd h1 (by show r.term ≤ (r.reset (r.term + 1)).term; omega) h6 (Or.inl hnt) ?_ ?_,
        h2, rfl⟩
      · intro hs; cases hs
      · intro _
        refine Or.inr (Or.inl ?_)
        show a.term < (r.reset (r.term + 1)).term
        have := h.tm; omega

theorem becomePreCandidate_linv {a r r' : Raft} {m : Message} (h : LInv a m r)
    (hc : r.becomePreCandidate = .ok r') :
    LInv a m r' ∧ r'.term = r.term ∧ r'.state = .preCandidate ∧ r'.prs.votes = [] := by
  have e := RaftProps.C16.becomePreCandidate_proj hc
  subst e
  refine ⟨h.upd rfl (Nat.le_refl _) rfl ?_ ?_ ?_, rfl, rfl, rfl⟩
  · exact h.tn
  · intro _ j hj; cases hj
  · intro _; exact Or.inr (Or.inr rfl)

/-- a step to the leader role that keeps queue, identity and term -/
theorem LInv.lead_upd {a r r' : Raft} {m : Message} (h : LInv a m r) (hnt : NT a r)
    (hid : r'.id = r.id) (htm : r'.term = r.term) (hmsgs : r'.msgs = r.msgs)
    (hs : r'.state = .leader) : LInv a m r' := by
  refine h.upd hid (by rw [htm]; exact Nat.le_refl _) hmsgs (Or.inl hnt) ?_ ?_
  · intro hc; rw [hs] at hc; cases hc
  · intro _
    rw [htm]
    rcases Nat.lt_or_ge a.term r.term with g | g
    · exact Or.inr (Or.inl g)
    · exact Or.inl ⟨hs, Nat.le_antisymm g h.tm⟩

theorem becomeLeader_linv {a r r' : Raft} {m : Message} (h : LInv a m r) (hnt : NT a r)
    (hc : r.becomeLeader = .ok r') : LInv a m r' ∧ r'.term = r.term := by
  unfold becomeLeader at hc
  split at hc
  · cases hc
  · simp only at hc
    split at hc
    · cases hc
    · split at hc
      · cases hc
      · rename_i pr _
        obtain ⟨h1, h2, _, _, _, h6, _⟩ := reset_all r r.term
        split at hc
        · rename_i r1 ha
          cases hc
          have hf := appendEntry_mf ha MF.rf
          have key : ∀ r2 : Raft, MF r2 r' → r2.id = r.id → r2.term = r.term → r2.msgs = r.msgs →
              r2.state = .leader → LInv a m r' ∧ r'.term = r.term :=
            fun r2 e5 e1 e2 e3 e4 => ⟨(h.lead_upd hnt e1 e2 e3 e4).mf e5, e5.term.trans e2⟩
          exact key _ hf h1 h2 h6 rfl
        · cases hc
        · cases hc
        · cases hc

/-! ### `poll`, `campaign`, `hup` -/

/-- recording a vote -/
theorem LInv.voted {a r : Raft} {m : Message} (h : LInv a m r) (frm : Nat) (v : Bool)
    (hfv : r.state = .preCandidate → v = true → frm = a.id ∨ PBack m r.term frm) :
    LInv a m (voted r frm v) := by
  refine h.upd rfl (Nat.le_refl _) rfl h.tn ?_ h.ld
  intro hs j hj
  rcases CV.mem_recordVote r.prs frm v j hj with e | ⟨e1, e2⟩
  · exact h.pc hs j e
  · rcases hfv hs e2 with g | g
    · exact Or.inl (e1.trans g)
    · exact Or.inr (Or.inl (by rw [e1]; exact g))

theorem pollWith_linv {a : Raft} {m : Message} (hm : ¬ isTA m) (onPreWin : Raft → Res Raft)
    {r r' : Raft} {frm : Nat} {t : MsgType} {v : Bool} {res : VoteResult} (h : LInv a m r)
    (hfv : r.state = .preCandidate → v = true → frm = a.id ∨ PBack m r.term frm)
    (hp : ∀ r1 r2, LInv a m r1 → r1.state = .preCandidate → onPreWin r1 = .ok r2 →
      LInv a m r2 ∧ r1.term ≤ r2.term)
    (hpoll : pollWith onPreWin r frm t v = .ok (r', res)) : LInv a m r' ∧ r.term ≤ r'.term := by
  obtain ⟨_, p2⟩ := c02_pollWith_cases hpoll
  have hv := h.voted frm v hfv
  rcases p2 with ⟨_, hpc, hf⟩ | ⟨_, _, hwon⟩ | ⟨_, e⟩ | ⟨_, e⟩
  · exact hp (voted r frm v) r' hv hpc hf
  · unfold wonBy at hwon
    rw [Res.bind_eq_ok_iff] at hwon
    obtain ⟨r1, hb, hbc⟩ := hwon
    obtain ⟨h1, h2⟩ := becomeLeader_linv hv (hv.nt hm) hb
    have hf := bcastAppend_mf hbc MF.rf
    exact ⟨h1.mf hf, by rw [hf.term, h2]; exact Nat.le_refl _⟩
  · subst e
    refine ⟨becomeFollower_linv hv (hv.nt hm) r.term 0 (Nat.le_refl _) (fun _ => Or.inr rfl), ?_⟩
    rw [(becomeFollower_all _ _ _).2.1]; exact Nat.le_refl _
  · subst e
    exact ⟨hv, Nat.le_refl _⟩

/-- the vote requests of a campaign -/
theorem sendVoteRequests_linv {a r r' : Raft} {m : Message} {ct : CampaignType} {vm : MsgType}
    {term : Nat} (h : LInv a m r)
    (hvm : vm = .msgRequestPreVote ∨ (vm = .msgRequestVote ∧ term ≤ r.term)) (hterm : term ≠ 0)
    (hct : ct = .transfer → m.msgType = .msgTimeoutNow)
    (hs : r.sendVoteRequests ct vm term = .ok r') : LInv a m r' ∧ r'.term = r.term := by
  have hvm' : vm = .msgRequestVote ∨ vm = .msgRequestPreVote := by
    rcases hvm with g | g
    · exact Or.inr g
    · exact Or.inl g.1
  obtain ⟨lt, c, cterm, _, _, e⟩ := c02_sendVoteRequests_spec hvm' hterm hs
  subst e
  refine ⟨⟨h.id, h.tm, ?_, ?_, h.pc, h.ld⟩, rfl⟩
  · intro x hx
    rcases List.mem_append.1 hx with g | g
    · exact h.msgs x g
    · right
      simp only [List.mem_map] at g
      obtain ⟨to, _, e⟩ := g
      subst e
      refine ⟨fun _ hc => ?_, ?_⟩
      · apply hct
        apply Classical.byContradiction
        intro hne
        have : (voteReq r vm ct term c cterm lt to).context = [] := by
          unfold voteReq; simp [hne]
        rw [this] at hc
        exact absurd hc (by decide)
      · rcases hvm with g | g
        · exact Or.inr (Or.inl g)
        · exact Or.inl g.2
  · rcases h.tn with hn | hn
    · left
      intro x hx ht
      rcases List.mem_append.1 hx with g | g
      · exact hn x g ht
      · simp only [List.mem_map] at g
        obtain ⟨to, _, e⟩ := g
        subst e
        have : vm = .msgTimeoutNow := ht
        rcases hvm' with g | g <;> rw [g] at this <;> cases this
    · exact Or.inr hn

theorem campaignWith_linv {a : Raft} {m : Message} (hm : ¬ isTA m)
    (poll : Raft → Nat → MsgType → Bool → Res (Raft × VoteResult))
    (hpoll : ∀ r1 r2 t res, LInv a m r1 → poll r1 r1.id t true = .ok (r2, res) →
      LInv a m r2 ∧ r1.term ≤ r2.term)
    {r r' : Raft} {ct : CampaignType} (h : LInv a m r)
    (hct : ct = .transfer → m.msgType = .msgTimeoutNow)
    (hc : campaignWith poll r ct = .ok r') : LInv a m r' ∧ r.term ≤ r'.term := by
  unfold campaignWith at hc
  dsimp only at hc
  rw [Res.bind_eq_ok_iff] at hc
  obtain ⟨⟨r1, vm, term⟩, hstart, hrest⟩ := hc
  have hst : LInv a m r1 ∧ r.term ≤ r1.term ∧ term ≠ 0 ∧
      (vm = .msgRequestPreVote ∨ (vm = .msgRequestVote ∧ term ≤ r1.term)) := by
    split at hstart
    · rw [Res.bind_eq_ok_iff] at hstart
      obtain ⟨r0, hb, hx⟩ := hstart
      obtain ⟨g1, g2, _, _⟩ := becomePreCandidate_linv h hb
      split at hx
      · cases hx
      · cases hx
        exact ⟨g1, by rw [g2]; exact Nat.le_refl _, by simp, Or.inl rfl⟩
    · rw [Res.bind_eq_ok_iff] at hstart
      obtain ⟨r0, hb, hx⟩ := hstart
      cases hx
      obtain ⟨g1, g2, _⟩ := becomeCandidate_linv h (h.nt hm) hb
      exact ⟨g1, by omega, by omega, Or.inr ⟨rfl, Nat.le_refl _⟩⟩
  obtain ⟨k1, k2, k3, k4⟩ := hst
  dsimp only at hrest
  rw [Res.bind_eq_ok_iff] at hrest
  obtain ⟨⟨r2, res⟩, hp, hfin⟩ := hrest
  obtain ⟨q1, q2⟩ := hpoll _ _ _ _ k1 hp
  dsimp only at hfin
  split at hfin
  · cases hfin; exact ⟨q1, Nat.le_trans k2 q2⟩
  · have hvm : vm = .msgRequestPreVote ∨ (vm = .msgRequestVote ∧ term ≤ r2.term) :=
      k4.imp (fun g => g) (fun g => ⟨g.1, Nat.le_trans g.2 q2⟩)
    obtain ⟨w1, w2⟩ := sendVoteRequests_linv q1 hvm k3 hct hfin
    exact ⟨w1, by rw [w2]; exact Nat.le_trans k2 q2⟩

theorem campaignAfterPreVote_linv {a r r' : Raft} {m : Message} (hm : ¬ isTA m) (h : LInv a m r)
    (hc : r.campaignAfterPreVote = .ok r') : LInv a m r' ∧ r.term ≤ r'.term := by
  unfold campaignAfterPreVote at hc
  refine campaignWith_linv hm _ (fun r1 r2 t res g1 g2 => ?_) h (fun hx => by cases hx) hc
  exact pollWith_linv hm _ g1 (fun _ _ => Or.inl g1.id) (fun _ _ _ _ hx => by cases hx) g2

theorem poll_linv {a : Raft} {m : Message} (hm : ¬ isTA m) {r r' : Raft} {frm : Nat} {t : MsgType}
    {v : Bool} {res : VoteResult} (h : LInv a m r)
    (hfv : r.state = .preCandidate → v = true → frm = a.id ∨ PBack m r.term frm)
    (hpoll : r.poll frm t v = .ok (r', res)) : LInv a m r' ∧ r.term ≤ r'.term := by
  unfold poll at hpoll
  exact pollWith_linv hm _ h hfv (fun r1 r2 g1 _ g3 => campaignAfterPreVote_linv hm g1 g3) hpoll

theorem campaign_linv {a r r' : Raft} {m : Message} (hm : ¬ isTA m) {ct : CampaignType}
    (h : LInv a m r) (hct : ct = .transfer → m.msgType = .msgTimeoutNow)
    (hc : r.campaign ct = .ok r') : LInv a m r' ∧ r.term ≤ r'.term := by
  unfold campaign at hc
  refine campaignWith_linv hm _ (fun r1 r2 t res g1 g2 => ?_) h hct hc
  exact poll_linv hm g1 (fun _ _ => Or.inl g1.id) g2

theorem hup_linv {a r r' : Raft} {m : Message} (hm : ¬ isTA m) {tr : Bool} (h : LInv a m r)
    (htr : tr = true → m.msgType = .msgTimeoutNow) (hc : r.hup tr = .ok r') :
    LInv a m r' ∧ r.term ≤ r'.term := by
  rcases c02_hup_cases hc with e | ⟨_, _, ct, hcamp, hct, _⟩
  · subst e; exact ⟨h, Nat.le_refl _⟩
  · exact campaign_linv hm h (fun g => htr (hct.1 g)) hcamp

/-! ### `maybe_commit_by_vote` -/

theorem maybeCommitByVote_linv {a r r' : Raft} {m : Message} (hm : ¬ isTA m) (m' : Message)
    (h : LInv a m r) (hc : r.maybeCommitByVote m' = .ok r') : LInv a m r' ∧ r'.term = r.term := by
  unfold maybeCommitByVote at hc
  split at hc
  · cases hc; exact ⟨h, rfl⟩
  · simp only at hc
    split at hc
    · cases hc; exact ⟨h, rfl⟩
    · split at hc
      · cases hc
      · cases hc
      · cases hc; exact ⟨h, rfl⟩
      · rename_i log _
        have hl : LInv a m ({ r with raftLog := log } : Raft) := h.mf (MF.mk' MF.rf)
        split at hc
        · cases hc; exact ⟨hl, rfl⟩
        · split at hc
          · cases hc
          · cases hc
          · cases hc
            refine ⟨becomeFollower_linv hl (hl.nt hm) r.term 0 (Nat.le_refl _) (fun _ => Or.inr rfl), ?_⟩
            exact (becomeFollower_all _ _ _).2.1
          · cases hc; exact ⟨hl, rfl⟩

end LS
end Raft
end RaftModel
