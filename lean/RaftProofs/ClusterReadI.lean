import RaftProofs.ClusterReadH

/-!
Cluster-level ReadIndex safety, part I: the first two cluster invariants of the read path.

* `pend_ok`: every pending request was issued locally (`req.from = 0`, filed under its own context) and
  every acknowledgement counted for it is the node's own or backed by a `MsgHeartbeatResponse` with
  that context and the node's term in the (monotone) transport;
* `occ_issued`: a non-empty context occurs somewhere in a state (pending, queued, in a heartbeat or
  heartbeat response of a queue or of the transport, in a read state) only after a `read_index` call
  has registered it.
-/
namespace RaftModel
namespace Cluster
open Node Raft Raft.CC Raft.RD RaftProps.C02 RaftProps.C05

variable {cfg : JointConfig} {c0 : Nat} {h : List Sys}

/-- a heartbeat response of `u` for the context `K` and the term `t` (or without term) is in `net` -/
def HbrIn (net : List Message) (u : Nat) (K : Bytes) (t : Nat) : Prop :=
  ∃ x ∈ net, x.msgType = .msgHeartbeatResponse ∧ x.frm = u ∧ x.context = K ∧ (x.term = t ∨ x.term = 0)

theorem HbrIn.mono {net net' : List Message} (hsub : ∀ x ∈ net, x ∈ net') {u t : Nat} {K : Bytes}
    (h : HbrIn net u K t) : HbrIn net' u K t := by
  obtain ⟨x, h1, h2⟩ := h
  exact ⟨x, hsub x h1, h2⟩

structure PendOk (s : Sys) : Prop where
  req : ∀ v st, s.node v = some st → ∀ K rs, (K, rs) ∈ st.raft.readOnly.pendingReadIndex →
    reqCtx rs.req = some K ∧ rs.req.frm = 0
  acks : ∀ v st, s.node v = some st → ∀ K rs, (K, rs) ∈ st.raft.readOnly.pendingReadIndex →
    ∀ u ∈ rs.acks, u = v ∨ HbrIn s.net u K st.raft.term

/-- the nodes of `a.setNode k st'` -/
theorem node_cases {a : Sys} {k v : Nat} {st' stv : NState}
    (hv : (a.setNode k st').node v = some stv) :
    (v = k ∧ stv = st') ∨ (v ≠ k ∧ a.node v = some stv) := by
  rw [node_setNode] at hv
  split at hv
  · rename_i e; cases hv; exact .inl ⟨e, rfl⟩
  · rename_i e; exact .inr ⟨e, hv⟩

/-- a group in which no quorum fits into one node is not a singleton -/
theorem not_singleton (H : Hyp2w cfg c0 h) {s : Sys} (hs : s ∈ h) {i : Nat} {st : NState}
    (hi : s.node i = some st) : st.raft.prs.isSingleton = false := by
  have hv := H.fix s hs i st hi
  cases hsing : st.raft.prs.isSingleton with
  | false => rfl
  | true =>
    exfalso
    unfold ProgressTracker.isSingleton at hsing
    simp only [Bool.and_eq_true, List.isEmpty_iff, beq_iff_eq] at hsing
    obtain ⟨h1, h2⟩ := hsing
    have e1 : cfg.outgoing = [] := by rw [← hv]; exact h1
    have e2 : cfg.incoming.length = 1 := by rw [← hv]; exact h2
    obtain ⟨x, hx⟩ : ∃ x, cfg.incoming = [x] := by
      cases hc : cfg.incoming with
      | nil => rw [hc] at e2; cases e2
      | cons x t =>
        cases t with
        | nil => exact ⟨x, rfl⟩
        | cons y t' => rw [hc] at e2; simp at e2
    have hQ : IsJointQuorum cfg [x] := by
      refine ⟨fun _ => ?_, fun hne => absurd e1 hne⟩
      unfold IsQuorum
      rw [hx]
      simp [majority]
    obtain ⟨k, hk, hne⟩ := H.nolone x [x] hQ
    exact hne (List.mem_singleton.1 hk)

theorem pend_ok (H : RdHyp cfg c0 h) : ∀ (n : Nat) (s : Sys), h[n]? = some s → PendOk s := by
  have H2 := H.toHyp3w.toHyp2w
  refine hist_induct h _ ?_ ?_
  · intro s h0
    have hinit := hist_init H2.hist s h0
    have hf : ∀ v st, s.node v = some st → Fresh st.raft := by
      intro v st hv
      obtain ⟨c, store, rnd, _, hb⟩ := hinit.2 v st hv
      exact boot_fresh c store rnd st hb
    refine ⟨fun v st hv K rs hm => ?_, fun v st hv K rs hm => ?_⟩
    · rw [(hf v st hv).1] at hm; cases hm
    · rw [(hf v st hv).1] at hm; cases hm
  · intro n a b ha hb ih
    have hid : ∀ v st, a.node v = some st → st.raft.id = v :=
      fun v st hv => (node_ok H2 ha hv).id
    cases rd_step H ha hb with
    | call k st st' m hk hbe hm ho =>
      subst hbe
      refine ⟨fun v stv hv K rs hmem => ?_, fun v stv hv K rs hmem u hu => ?_⟩
      · rcases node_cases hv with ⟨e1, e2⟩ | ⟨_, e2⟩
        · subst e1; subst e2
          obtain ⟨_, ⟨rs0, g1, g2, _⟩, _⟩ := ho.pend K rs hmem
          rw [g2]; exact ih.req v st hk K rs0 g1
        · exact ih.req v stv e2 K rs hmem
      · rcases node_cases hv with ⟨e1, e2⟩ | ⟨_, e2⟩
        · subst e1; subst e2
          obtain ⟨g0, _, g3⟩ := ho.pend K rs hmem
          rcases g3 u hu with c | c | ⟨rsA, c1, c2⟩
          · exact .inl (c.trans (hid v st hk))
          · right
            rcases hm with q | ⟨q, _⟩
            · rw [c.1] at q; cases q
            · exact ⟨m, q, c.1, c.2.1, c.2.2.1, by rw [g0]; exact c.2.2.2⟩
          · rw [g0]; exact ih.acks v st hk K rsA c1 u c2
        · exact ih.acks v stv e2 K rs hmem u hu
    | read k st st' K' rnd res hk hbe hcall ho =>
      subst hbe
      have key : (∀ K rs, (K, rs) ∈ st'.raft.readOnly.pendingReadIndex →
            reqCtx rs.req = some K ∧ rs.req.frm = 0) ∧
          (∀ K rs, (K, rs) ∈ st'.raft.readOnly.pendingReadIndex →
            ∀ u ∈ rs.acks, u = k ∨ HbrIn a.net u K st'.raft.term) := by
        cases ho with
        | frame hf =>
          rw [hf.ro, hf.term]
          exact ⟨ih.req k st hk, ih.acks k st hk⟩
        | now hs =>
          exfalso
          rcases hs with c | c
          · rw [not_singleton H2 (mem_of_get ha) hk] at c; cases c
          · exact c (H.safe a (mem_of_get ha) k st hk)
        | reg hl hc ro hadd hcore hmsgs =>
          have e1 : st'.raft.readOnly = ro := congrArg RCore.ro hcore
          have e2 : st'.raft.term = st.raft.term := congrArg RCore.term hcore
          rw [e1, e2]
          rcases addRequest_spec hadd with ⟨q1, _⟩ | ⟨_, _, q3, _⟩
          · rw [q1]; exact ⟨ih.req k st hk, ih.acks k st hk⟩
          · rw [q3]
            constructor
            · intro K rs hmem
              rcases List.mem_append.1 hmem with g | g
              · exact ih.req k st hk K rs g
              · rw [List.mem_singleton] at g
                injection g with g1 g2
                subst g1; subst g2
                exact ⟨rfl, rfl⟩
            · intro K rs hmem u hu
              rcases List.mem_append.1 hmem with g | g
              · exact ih.acks k st hk K rs g u hu
              · rw [List.mem_singleton] at g
                injection g with g1 g2
                subst g2
                left
                rw [List.mem_singleton] at hu
                rw [hu]; exact hid k st hk
      refine ⟨fun v stv hv K rs hmem => ?_, fun v stv hv K rs hmem u hu => ?_⟩
      · rcases node_cases hv with ⟨e1, e2⟩ | ⟨_, e2⟩
        · subst e1; subst e2; exact key.1 K rs hmem
        · exact ih.req v stv e2 K rs hmem
      · rcases node_cases hv with ⟨e1, e2⟩ | ⟨_, e2⟩
        · subst e1; subst e2; exact key.2 K rs hmem u hu
        · exact ih.acks v stv e2 K rs hmem u hu
    | send k st st' hk hbe hst =>
      subst hbe
      have hsub : ∀ x ∈ a.net, x ∈ a.net ++ st.raft.msgs := fun x hx => List.mem_append_left _ hx
      refine ⟨fun v stv hv K rs hmem => ?_, fun v stv hv K rs hmem u hu => ?_⟩
      · have hv' : (a.setNode k st').node v = some stv := hv
        rcases node_cases hv' with ⟨e1, e2⟩ | ⟨_, e2⟩
        · subst e1; subst e2
          rw [hst] at hmem
          exact ih.req v st hk K rs hmem
        · exact ih.req v stv e2 K rs hmem
      · have hv' : (a.setNode k st').node v = some stv := hv
        rcases node_cases hv' with ⟨e1, e2⟩ | ⟨_, e2⟩
        · subst e1; subst e2
          rw [hst] at hmem ⊢
          exact (ih.acks v st hk K rs hmem u hu).imp (fun g => g) (fun g => g.mono hsub)
        · exact (ih.acks v stv e2 K rs hmem u hu).imp (fun g => g) (fun g => g.mono hsub)
    | restart k st st' hk hbe hf hq =>
      subst hbe
      refine ⟨fun v stv hv K rs hmem => ?_, fun v stv hv K rs hmem u hu => ?_⟩
      · rcases node_cases hv with ⟨e1, e2⟩ | ⟨_, e2⟩
        · subst e1; subst e2; rw [hf.1] at hmem; cases hmem
        · exact ih.req v stv e2 K rs hmem
      · rcases node_cases hv with ⟨e1, e2⟩ | ⟨_, e2⟩
        · subst e1; subst e2; rw [hf.1] at hmem; cases hmem
        · exact ih.acks v stv e2 K rs hmem u hu

end Cluster
end RaftModel
