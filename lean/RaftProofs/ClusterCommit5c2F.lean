import RaftProofs.ClusterCommit5c2E

/-!
Cluster-level commit safety **with `batch_append`** (copy of `ClusterCommit2F.lean` over `Hyp2wB`), part 2F: **where entries come from** (`entry_prov`): an entry sits in the
log of the leader of its term at the moment it was created — with nothing but entries of that term
behind it —, or it was there from the start, with a term below every term that is ever led.
-/
namespace RaftModel
namespace ClusterB
open Node Raft Raft.CC Raft.CB Raft.Bt Cluster RaftProps.C02 RaftProps.C05

variable {cfg : JointConfig} {c0 : Nat} {h : List Sys}

/-- the entry `e` at index `q` was created by the leader of its term: at `h[m]` that leader's log
holds it, followed only by entries of the same term -/
def Born (h : List Sys) (N q : Nat) (e : Entry) : Prop :=
  ∃ m s l st, m ≤ N ∧ h[m]? = some s ∧ s.node l = some st ∧ st.raft.state = .leader ∧
    st.raft.term = e.term ∧ st.raft.raftLog.abs.entryAt q = some e ∧
    ∀ k e', st.raft.raftLog.abs.entryAt k = some e' → q ≤ k → e'.term = e.term

theorem entry_prov (H : Hyp2wB cfg c0 h) :
    ∃ s0, h[0]? = some s0 ∧ ∀ (n : Nat) (s : Sys), h[n]? = some s → ∀ loc g, At s loc g →
      ∀ q e, g.entryAt q = some e → EntriesOf s0 e ∨ Born h n q e := by
  obtain ⟨s0, h0, hall⟩ := H.inv_at
  refine ⟨s0, h0, ?_⟩
  refine hist_induct h _ ?_ ?_
  · intro s hs loc g hat q e he
    rw [h0] at hs; cases hs
    exact .inl ⟨loc, g, q, hat, he⟩
  · intro n a b ha hb ih loc' g' hat q e he
    have I := hall a (mem_of_get ha)
    have hstep := H.steps n a b ha hb
    obtain ⟨κ, st, st', pers, crash, T⟩ := trans_of_cstepB H.toHypB ha hb
    rcases T.prov loc' g' hat q e he with ⟨loc, g, hA, hE, _⟩ | ⟨_, hl, ht, hi, hL, _⟩
    · rcases ih loc g hA q e hE with c | ⟨m, s, l, stl, c1, c2⟩
      · exact .inl c
      · exact .inr ⟨m, s, l, stl, Nat.le_succ_of_le c1, c2⟩
    · right
      refine ⟨n + 1, b, κ, st', Nat.le_refl _, hb, T.hk', hl, ht.symm, hL, fun k e' hk hqk => ?_⟩
      rcases nodeRelB H.toHypB ha hb κ st st' T.hk T.hk' with c | c
      · rw [ht]
        refine c.own hl k e' hk ?_
        rw [← (I.inv κ st T.hk).lastIndex_abs]; omega
      · obtain ⟨_, st2, cf, rnd, _, _, h3, h4⟩ := c
        have := T.hk'
        rw [h4, node_setNode_self] at this
        cases this
        rw [(CV.boot_booted cf _ rnd st' h3).state] at hl; cases hl

theorem node_back_steps {s s' : Sys} (hs : Steps s s') (l : Nat) :
    ∀ st', s'.node l = some st' → ∃ st, s.node l = some st := by
  induction hs with
  | refl => intro st' h; exact ⟨st', h⟩
  | tail b c _ hbc ih =>
    intro st' h
    obtain ⟨stb, hb⟩ := step_node_back hbc l st' h
    exact ih stb hb

/-- the initial term of node `l` is below every term it ever leads -/
theorem lead_above_init (H : Hyp2wB cfg c0 h) {s0 : Sys} (h0 : h[0]? = some s0) {l : Nat}
    {st0 : NState} (hl0 : s0.node l = some st0) {n : Nat} {s : Sys} (hn : h[n]? = some s) {t : Nat}
    (hl : leads s l t) : st0.raft.term < t := by
  obtain ⟨_, sto, hboot, _, _, _⟩ := H.init s0 h0
  obtain ⟨c, rnd, hb⟩ := hboot l st0 hl0
  have hbt := CV.boot_booted c _ rnd st0 hb
  have hd0 : Dead s0 l st0.raft.term :=
    ⟨st0, hl0, by rw [hbt.hs, ← hbt.term]; exact Nat.le_refl _, .inr ⟨rfl, .inl hbt.state⟩⟩
  have hd : Dead s l st0.raft.term := Dead.later H n 0 s0 s h0 (by rw [Nat.zero_add]; exact hn) hd0
  obtain ⟨st, hk, hst, htm⟩ := hl
  obtain ⟨st2, hk2, _, hd2⟩ := hd
  rw [hk] at hk2; cases hk2
  rcases hd2 with c | ⟨c, c2⟩
  · omega
  · rcases c2 with c2 | c2 <;> rw [hst] at c2 <;> cases c2

/-- an entry of the initial state has a term below every term that is ever led -/
theorem init_entry_term (H : Hyp2wB cfg c0 h) {s0 : Sys} (h0 : h[0]? = some s0) {e : Entry}
    (he : EntriesOf s0 e) {n : Nat} {s : Sys} (hn : h[n]? = some s) {l t : Nat}
    (hl : leads s l t) : e.term < t := by
  obtain ⟨hnet, sto, hboot, hwf, _, hbound⟩ := H.init s0 h0
  -- the leader already ran in the initial state
  have hex : ∃ st0, s0.node l = some st0 := by
    obtain ⟨st, hk, _⟩ := hl
    exact node_back_steps ((hist_all H.hist).2.2 0 n s0 s (Nat.zero_le _) h0 hn) l st hk
  obtain ⟨st0, hl0⟩ := hex
  have hlt := lead_above_init H h0 hl0 hn hl
  obtain ⟨c, rnd, hb⟩ := hboot l st0 hl0
  have hbt := CV.boot_booted c _ rnd st0 hb
  obtain ⟨loc, g, i, hat, hge⟩ := he
  -- every chain of the initial state is a stored log
  have hchain : ∃ j stj, s0.node j = some stj ∧ g = storeLog (sto j) := by
    cases loc with
    | log j =>
      obtain ⟨stj, h1, h2⟩ := hat
      obtain ⟨cj, rj, hbj⟩ := hboot j stj h1
      exact ⟨j, stj, h1, h2.trans (boot_log cj _ rj stj (hwf j stj h1).1 hbj).2.1⟩
    | store j =>
      obtain ⟨stj, h1, h2⟩ := hat
      obtain ⟨cj, rj, hbj⟩ := hboot j stj h1
      exact ⟨j, stj, h1, h2.trans (boot_log cj _ rj stj (hwf j stj h1).1 hbj).2.2⟩
    | queue j =>
      obtain ⟨stj, x, h1, hx, _⟩ := hat
      obtain ⟨cj, rj, hbj⟩ := hboot j stj h1
      rw [(CV.boot_booted cj _ rj stj hbj).msgs] at hx
      cases hx
    | net =>
      obtain ⟨x, hx, _⟩ := hat
      rw [hnet] at hx
      cases hx
  obtain ⟨j, stj, hj, hg⟩ := hchain
  subst hg
  have := hbound j l stj st0 hj hl0 e ((storeLog (sto j)).entryAt_mem hge)
  rw [hbt.term] at hlt
  omega

end ClusterB
end RaftModel
