import RaftProofs.ClusterLogG

/-!
Cluster-level Log Matching, helper lemmas part H: `compact`, `RawNode::new`, and **one call of a node
(any `NodeOp` the cluster semantics uses) as an effect** (`call_lstep`).
-/
namespace RaftModel
namespace Raft
open Node

/-! ### `compact` -/

theorem compact_eff {r : Raft} {k : Nat} {store : MemStorage} {m : Message} (hinv : r.raftLog.Inv)
    (hc : CompactOk r.raftLog k) (h : r.raftLog.store.compact k = .ok store) :
    Eff r (withStore r (fun _ => store)) m := by
  have hps := hinv.persisted_le_store
  obtain ⟨l', hcs, hinv', habs1, habs2, hun, _, _, _, _, hsl⟩ :=
    RaftProps.C14.compactStore_ok hinv k hc.1 (by have := hc.2; omega) (.inl (by have := hc.2; omega))
  have hl' : l' = { r.raftLog with store := store } := by
    unfold RaftLog.compactStore at hcs
    rw [h] at hcs
    cases hcs; rfl
  subst hl'
  have hlast : ({ r.raftLog with store := store } : RaftLog).lastIndex = r.raftLog.lastIndex := by
    unfold RaftLog.lastIndex
    dsimp only
    rw [show store.lastIndex = r.raftLog.store.lastIndex from hsl]
  have hsub : Sub ({ r.raftLog with store := store } : RaftLog).abs r.raftLog.abs ∧
      ∀ i e, r.raftLog.abs.entryAt i = some e →
        ({ r.raftLog with store := store } : RaftLog).abs.snapIdx < i →
        ({ r.raftLog with store := store } : RaftLog).abs.entryAt i = some e := by
    cases hs : r.raftLog.unstable.snapshot with
    | none =>
      rw [habs1 hs]
      have hkl : k - 1 ≤ r.raftLog.abs.lastIndex := by
        rw [← hinv.lastIndex_abs]; have := hinv.committed_le_last; have := hc.1; omega
      refine ⟨Sub.compactTo _ _ hkl, ?_⟩
      intro i e he hi
      rw [LLog.compactTo_entryAt _ _ _ hkl]
      by_cases hle : k - 1 ≤ r.raftLog.abs.snapIdx
      · have hl := (r.raftLog.abs.entryAt_lt he).1
        rw [if_neg (by omega)]; exact he
      · have : (r.raftLog.abs.compactTo (k - 1)).snapIdx = k - 1 := by
          unfold LLog.compactTo; rw [if_neg hle]
        rw [this] at hi
        rw [if_neg (by omega)]; exact he
    | some sn =>
      rw [habs2 sn hs]
      exact ⟨Sub.refl _, fun i e he _ => he⟩
  exact ⟨hinv', .inl (storeLog_compact hinv.storeWF k (by have := hc.2; omega) h), .inl hsub.1,
    fun x hx _ => .inl hx,
    fun _ _ _ => ⟨Nat.le_of_eq hlast.symm, hsub.2⟩⟩

/-! ### `RawNode::new` -/

/-- **what a freshly booted node's log is**: the storage's own log, over the same storage -/
theorem raftNew_log (c : Config) (store : MemStorage) (rnd : Option Nat) (r : Raft)
    (hw : store.WF) (h : Raft.new c store rnd = .ok (.ok r)) :
    r.raftLog.Inv ∧ r.raftLog.abs = storeLog store ∧ r.raftLog.store.entries = store.entries ∧
    r.raftLog.store.snapshotMetadata = store.snapshotMetadata := by
  unfold Raft.new at h
  split at h
  · cases h
  · dsimp only at h
    split at h
    · cases h
    · cases h
    · rename_i log hnew
      obtain ⟨l0, e0, hinv0, _, hst0⟩ := RaftLog.Inv.new hw c.maxApplyUnpersistedLogLimit
      rw [hnew] at e0
      cases e0
      have habs0 := abs_new hw hnew
      split at h
      · cases h
      · rename_i prs _
        rw [CV.postConfChange_follower_eq _ rfl] at h
        simp only [Res.bind] at h
        split at h
        · cases h
        · generalize hr1 : (if store.initialState.1 ≠ {} then
            Raft.loadState _ store.initialState.1 else Res.ok _) = r1 at h
          cases r1 with
          | ok b =>
            dsimp only [Res.bind] at h
            generalize hr2 : (if c.applied > 0 then b.commitApplyInternal c.applied true
              else Res.ok b) = r2 at h
            cases r2 with
            | ok d =>
              dsimp only [Res.bind] at h
              cases h
              -- after `load_state`
              have hb : LogSameS log b.raftLog ∧ b.state = .follower := by
                by_cases hhs : store.hardState ≠ {}
                · have hhs' : store.initialState.1 ≠ {} := hhs
                  rw [if_pos hhs'] at hr1
                  change Raft.loadState _ store.hardState = _ at hr1
                  unfold Raft.loadState at hr1
                  split at hr1
                  · cases hr1
                  · rename_i hrange
                    cases hr1
                    have h1 : ¬ store.hardState.commit < log.committed := fun hx => hrange (.inl hx)
                    have h2 : ¬ log.lastIndex < store.hardState.commit := fun hx => hrange (.inr hx)
                    have hd := hinv0.dummy_le_committed
                    refine ⟨⟨⟨rfl, rfl, fun _ => ?_, by show log.committed ≤ store.hardState.commit; omega⟩,
                      rfl, rfl⟩, rfl⟩
                    exact hinv0.set_cursors store.hardState.commit log.persisted log.applied
                      (by omega) (by omega) hinv0.persisted_lt_off hinv0.persisted_le_store
                · have hhs' : ¬ store.initialState.1 ≠ {} := hhs
                  rw [if_neg hhs'] at hr1
                  cases hr1
                  exact ⟨LogSameS.rfl, rfl⟩
              obtain ⟨hb1, hb2⟩ := hb
              have hinvb : b.raftLog.Inv := hb1.same.inv hinv0
              -- after `commit_apply_internal`
              have hd : LogSameS b.raftLog d.raftLog := by
                by_cases hca : c.applied > 0
                · rw [if_pos hca] at hr2
                  have hvf := Res.Post.of_eq (CV.commitApplyInternal_vf _ _ _) hr2
                  rcases commitApplyInternal_k hinvb hr2 with c1 | ⟨es, c1⟩
                  · exact c1.ls
                  · have := c1.app.leader
                    rw [hvf.state, hb2] at this
                    cases this
                · rw [if_neg hca] at hr2
                  cases hr2; exact LogSameS.rfl
              have hf : LogSameS d.raftLog (d.becomeFollower d.term 0).raftLog := by
                rw [RaftProps.C20.becomeFollower_raftLog]; exact logS_limit _ 0
              have hall := (hb1.trans hd).trans hf
              refine ⟨hall.same.inv hinv0, hall.same.abs.trans habs0, ?_, ?_⟩
              · rw [hall.ents, hst0]
              · rw [hall.smeta, hst0]
            | err e => cases h
            | panic s => cases h
          | err e => cases h
          | panic s => cases h

theorem boot_log (c : Config) (store : MemStorage) (rnd : Option Nat) (st : NState)
    (hw : store.WF) (h : Node.boot c store rnd = .ok (.ok st)) :
    st.raft.raftLog.Inv ∧ st.raft.raftLog.abs = storeLog store ∧
    storeLog st.raft.raftLog.store = storeLog store := by
  unfold Node.boot at h
  split at h
  · rename_i raft hn
    cases h
    unfold RawNode.new at hn
    split at hn
    · cases hn
    · obtain ⟨h1, h2, h3, h4⟩ := raftNew_log c store rnd raft hw hn
      exact ⟨h1, h2, storeLog_eq_of_core h3 h4⟩
  · cases h
  · cases h
  · cases h

/-! ### one call of a node -/

/-- the effect of one call on a node: log / storage / queue (`Eff`) and role / term (`RT`) -/
structure LStep (a r : Raft) (m : Message) : Prop where
  eff : Eff a r m
  rt : RT a r

theorem LStep.rebaseRand {a r : Raft} {m : Message} {rnd : Option Nat}
    (h : LStep ({ a with nextRand := rnd } : Raft) r m) : LStep a r m :=
  ⟨h.eff.rebase rfl rfl rfl rfl, h.rt.rebase rfl rfl⟩

theorem LStep.of_k0 {a r : Raft} {m : Message} (hinv : a.raftLog.Inv) (h : K0 a r)
    (ht : r.term = a.term) (hs : r.state = a.state) : LStep a r m :=
  ⟨h.eff hinv, RT.rfl.ts ht hs⟩

theorem LStep.of_fields {a r : Raft} {m : Message} (hinv : a.raftLog.Inv)
    (hl : r.raftLog = a.raftLog) (hm : r.msgs = a.msgs) (ht : r.term = a.term)
    (hs : r.state = a.state) : LStep a r m :=
  ⟨Eff.of_fields hinv hl hm, RT.rfl.ts ht hs⟩

theorem rawStep_lstep {r r' : Raft} {m : Message} {e : Option RaftError} (hinv : r.raftLog.Inv)
    (hnb : r.batchAppend = false) (hw : m.msgType = .msgAppend → MsgOk m)
    (h : RawNode.step r m = .ok (r', e)) : LStep r r' m := by
  unfold RawNode.step at h
  split at h
  · cases h; exact LStep.of_fields hinv rfl rfl rfl rfl
  · split at h
    · exact ⟨step_eff hinv hnb hw h, step_rt h⟩
    · cases h; exact LStep.of_fields hinv rfl rfl rfl rfl

/-- a call that steps a message built by the application (never a `MsgAppend`) -/
theorem localStep_lstep {r r' : Raft} {m m' : Message} {e : Option RaftError}
    (hinv : r.raftLog.Inv) (hnb : r.batchAppend = false) (hm : m.msgType ≠ .msgAppend)
    (h : r.step m = .ok (r', e)) : LStep r r' m' :=
  ⟨(step_eff hinv hnb (fun hc => absurd hc hm) h).retag hm, step_rt h⟩

theorem localStepIgnore_lstep {r r' : Raft} {m m' : Message}
    (hinv : r.raftLog.Inv) (hnb : r.batchAppend = false) (hm : m.msgType ≠ .msgAppend)
    (h : r.stepIgnore m = .ok r') : LStep r r' m' :=
  ⟨(stepIgnore_eff hinv hnb (fun hc => absurd hc hm) h).retag hm, stepIgnore_rt h⟩

/-- **one call of a node** — every `NodeOp` the cluster semantics uses (`step` for a delivered
message, and the application's calls), for a node whose log satisfies the representation invariant
and that does not batch; a delivered `MsgAppend` is well-numbered with real terms; `compact` obeys
the storage contract -/
theorem call_lstep (st st' : NState) (rnd : Option Nat) (op : NodeOp) (res : OpRes)
    (hinv : st.raft.raftLog.Inv) (hnb : st.raft.batchAppend = false)
    (hop : op ≠ .drain ∧ ∀ m, op ≠ .rstep m)
    (hw : ∀ m, op = .step m → m.msgType = .msgAppend → MsgOk m)
    (hc : ∀ k, op = .compact k → CompactOk st.raft.raftLog k)
    (h : Node.call st rnd op = .ok (res, st')) : LStep st.raft st'.raft (CV.opMsg op) := by
  unfold Node.call at h
  have hinv' : ({ st.raft with nextRand := rnd } : Raft).raftLog.Inv := hinv
  have hnb' : ({ st.raft with nextRand := rnd } : Raft).batchAppend = false := hnb
  apply LStep.rebaseRand (rnd := rnd)
  cases op with
  | tick =>
    simp only [applyOp] at h
    split at h
    · rename_i raft b heq
      cases h
      exact ⟨tick_eff hinv' hnb' heq, tick_rt heq⟩
    · cases h
    · cases h
  | step m =>
    simp only [applyOp] at h
    obtain ⟨raft, e, hx, hr⟩ := CV.unitRes_ok h
    rw [hr]
    exact rawStep_lstep hinv' hnb' (hw m rfl) hx
  | rstep m => exact absurd rfl (hop.2 m)
  | propose c d =>
    simp only [applyOp] at h
    obtain ⟨raft, e, hx, hr⟩ := CV.unitRes_ok h
    rw [hr]
    exact localStep_lstep hinv' hnb' (by intro hc; cases hc) hx
  | proposeCc t c d =>
    simp only [applyOp] at h
    obtain ⟨raft, e, hx, hr⟩ := CV.unitRes_ok h
    rw [hr]
    exact localStep_lstep hinv' hnb' (by intro hc; cases hc) hx
  | readIndex c =>
    simp only [applyOp] at h
    obtain ⟨raft, hx, hr⟩ := CV.okRes_ok h
    rw [hr]
    exact localStepIgnore_lstep hinv' hnb' (by intro hc; cases hc) hx
  | transferLeader x =>
    simp only [applyOp] at h
    obtain ⟨raft, hx, hr⟩ := CV.okRes_ok h
    rw [hr]
    exact localStepIgnore_lstep hinv' hnb' (by intro hc; cases hc) hx
  | campaign =>
    simp only [applyOp] at h
    obtain ⟨raft, e, hx, hr⟩ := CV.unitRes_ok h
    rw [hr]
    exact localStep_lstep hinv' hnb' (by intro hc; cases hc) hx
  | ping =>
    simp only [applyOp] at h
    obtain ⟨raft, hx, hr⟩ := CV.okRes_ok h
    rw [hr]
    have hvf := Res.Post.of_eq (CV.ping_vf _) hx
    exact LStep.of_k0 hinv' (ping_k hx K.rfl hinv' hnb') hvf.term hvf.state
  | requestSnapshot =>
    simp only [applyOp] at h
    obtain ⟨raft, e, hx, hr⟩ := CV.unitRes_ok h
    rw [hr]
    have hvf := Res.Post.of_eq (P := fun x => CV.VF _ x.1) (CV.requestSnapshot_vf _) hx
    exact LStep.of_k0 hinv' (requestSnapshot_k hx K.rfl hinv' hnb') hvf.term hvf.state
  | reportUnreachable x =>
    simp only [applyOp] at h
    obtain ⟨raft, hx, hr⟩ := CV.okRes_ok h
    rw [hr]
    exact localStepIgnore_lstep hinv' hnb' (by intro hc; cases hc) hx
  | reportSnapshot x f =>
    simp only [applyOp] at h
    obtain ⟨raft, hx, hr⟩ := CV.okRes_ok h
    rw [hr]
    exact localStepIgnore_lstep hinv' hnb' (by intro hc; cases hc) hx
  | applyConfChange cc =>
    simp only [applyOp] at h
    split at h
    · rename_i raft cs heq
      cases h
      exact ⟨(applyConfChange_k heq K.rfl hinv' hnb').eff hinv', applyConfChange_rt heq⟩
    · rename_i raft e heq
      cases h
      exact ⟨(applyConfChange_k heq K.rfl hinv' hnb').eff hinv', applyConfChange_rt heq⟩
    · cases h
    · cases h
  | stabilize =>
    simp only [applyOp] at h
    obtain ⟨h1, h2⟩ := stabilize_eff (st := { st with raft := { st.raft with nextRand := rnd } }) hinv' h
    exact ⟨h1, h2⟩
  | onPersistEntries i t =>
    simp only [applyOp] at h
    obtain ⟨raft, hx, hr⟩ := CV.okRes_ok h
    rw [hr]
    have hvf := Res.Post.of_eq (CV.onPersistEntries_vf _ _ _) hx
    exact LStep.of_k0 hinv' (onPersistEntries_k hinv' hnb' hx) hvf.term hvf.state
  | persistSnap =>
    simp only [applyOp] at h
    obtain ⟨h1, h2⟩ := persistSnap_eff (st := { st with raft := { st.raft with nextRand := rnd } }) hinv' h
    exact ⟨h1, h2⟩
  | commitApply k =>
    simp only [applyOp] at h
    obtain ⟨h1, h2⟩ := commitApply_eff (st := { st with raft := { st.raft with nextRand := rnd } }) hinv' h
    exact ⟨h1, h2⟩
  | compact k =>
    simp only [applyOp] at h
    split at h
    · rename_i store hcomp
      cases h
      exact ⟨compact_eff hinv' (hc k rfl) hcomp, RT.rfl.ts rfl rfl⟩
    · cases h
    · cases h
  | drain => exact absurd rfl hop.1
  | triggerSnap =>
    simp only [applyOp] at h
    cases h
    exact ⟨Eff.of_store_core hinv' _ rfl rfl rfl rfl, RT.rfl.ts rfl rfl⟩
  | triggerLog b =>
    simp only [applyOp] at h
    cases h
    exact ⟨Eff.of_store_core hinv' _ rfl rfl rfl rfl, RT.rfl.ts rfl rfl⟩
  | setPriority p =>
    simp only [applyOp] at h
    cases h
    exact LStep.of_fields hinv' rfl rfl rfl rfl
  | setBatchAppend b =>
    simp only [applyOp] at h
    cases h
    exact LStep.of_fields hinv' rfl rfl rfl rfl
  | skipBcastCommit b =>
    simp only [applyOp] at h
    cases h
    exact LStep.of_fields hinv' rfl rfl rfl rfl
  | setCheckQuorum b =>
    simp only [applyOp] at h
    cases h
    exact LStep.of_fields hinv' rfl rfl rfl rfl
  | adjustMaxInflight id cap =>
    simp only [applyOp] at h
    obtain ⟨raft, hx, hr⟩ := CV.okRes_ok h
    rw [hr]
    have hvf := Res.Post.of_eq (CV.adjustMaxInflightMsgs_vf _ _ _) hx
    exact LStep.of_k0 hinv' (adjustMaxInflightMsgs_k hx K.rfl hinv' hnb') hvf.term hvf.state
  | maybeFreeInflightBuffers =>
    simp only [applyOp] at h
    cases h
    exact LStep.of_fields hinv' rfl rfl rfl rfl
  | enableGroupCommit b =>
    simp only [applyOp] at h
    obtain ⟨raft, hx, hr⟩ := CV.okRes_ok h
    rw [hr]
    have hvf := Res.Post.of_eq (CV.enableGroupCommit_vf _ _) hx
    exact LStep.of_k0 hinv' (enableGroupCommit_k hx K.rfl hinv' hnb') hvf.term hvf.state
  | assignCommitGroups v =>
    simp only [applyOp] at h
    obtain ⟨raft, hx, hr⟩ := CV.okRes_ok h
    rw [hr]
    have hvf := Res.Post.of_eq (CV.assignCommitGroups_vf _ _) hx
    exact LStep.of_k0 hinv' (assignCommitGroups_k hx K.rfl hinv' hnb') hvf.term hvf.state
  | clearCommitGroup =>
    simp only [applyOp] at h
    cases h
    exact LStep.of_fields hinv' rfl rfl rfl rfl
  | checkGroupCommitConsistent =>
    simp only [applyOp] at h
    split at h
    · cases h; exact LStep.of_fields hinv' rfl rfl rfl rfl
    · cases h; exact LStep.of_fields hinv' rfl rfl rfl rfl
    · cases h
    · cases h
  | setMaxApplyUnpersistedLogLimit x =>
    simp only [applyOp] at h
    cases h
    refine LStep.of_k0 hinv' ?_ rfl rfl
    exact ⟨logS_limit _ x, rfl, fun y hy _ => .inl hy⟩
  | setMaxCommittedSizePerReady x =>
    simp only [applyOp] at h
    cases h
    exact LStep.of_fields hinv' rfl rfl rfl rfl
  | onEntriesFetched to term aggr =>
    rcases CV.onEntriesFetched_ok h with h | ⟨-, -, -, raft, hx, h⟩
    · cases h; exact LStep.of_fields hinv' rfl rfl rfl rfl
    · cases h
      rcases hx with hx | hx
      · have hvf := Res.Post.of_eq (CV.sendAppendAggressively_vf _ _) hx
        exact LStep.of_k0 hinv' (sendAppendAggressively_k hx K.rfl hinv' hnb') hvf.term hvf.state
      · have hvf := Res.Post.of_eq (CV.sendAppend_vf _ _) hx
        exact LStep.of_k0 hinv' (sendAppend_k hx K.rfl hinv' hnb') hvf.term hvf.state

end Raft
end RaftModel
