import RaftProofs.ClusterCommit5cU

/-!
Cluster-level commit safety **with `batch_append`** (copy of `ClusterCommitV.lean` over `Hyp2wB`), part V: **Log Matching across time** — any two lists of entries that sit
anywhere in any two states of a history agree (same index and term ⇒ same entry, same predecessor
term).  The entries of a term are created by its one leader, which holds every index of its term and
whose term is in its storage from the moment it leads (so a restart cannot bring it back below).
-/
namespace RaftModel
namespace ClusterB
open Node Raft Raft.CC Raft.CB Raft.Bt Cluster RaftProps.C02 RaftProps.C05

variable {cfg : JointConfig} {c0 : Nat} {h : List Sys}

/-- the transition a contract-abiding step of the history induces, batching on or off
(`trans_of_cstep` without `NoBatch`; the step is given by its position in the history) -/
theorem trans_of_cstepB (H : HypB cfg h) {n : Nat} {a b : Sys} (ha : h[n]? = some a)
    (hb : h[n + 1]? = some b) :
    ∃ k st st' pers crash, Trans a b k st st' pers crash := by
  obtain ⟨s0, _, hall⟩ := H.invL
  have I := hall a (mem_of_get ha)
  have callCase : ∀ (k : Nat) (st st' : NState) (rnd : Option Nat) (op : NodeOp) (res : OpRes),
      a.node k = some st → (appOp op = true ∨ ∃ m, op = .step m ∧ m ∈ a.net ∧ m.to = k) →
      (∀ j, op = .compact j → CompactOk st.raft.raftLog j) →
      Node.call st rnd op = .ok (res, st') → b = a.setNode k st' →
      ∃ k st st' pers crash, Trans a b k st st' pers crash := by
    intro k st st' rnd op res hk hop hc hcall hs'
    subst hs'
    have hsane := H.sane _ (mem_of_get hb)
    have hself : (a.setNode k st').node k = some st' := node_setNode_self a k st'
    have hop1 : appOp op = true ∨ ∃ m, op = .step m ∧ m ∈ a.net := by
      rcases hop with g | ⟨m, g1, g2, _⟩
      · exact .inl g
      · exact .inr ⟨m, g1, g2⟩
    have hw : ∀ m, op = .step m → m.msgType = .msgAppend → MsgOk m := by
      intro m hm hty
      rcases hop1 with h1 | ⟨m', h1, h2⟩
      · rw [hm] at h1; cases h1
      · rw [hm] at h1; cases h1
        exact I.msgOk h2 hty
    have hp := (H.prov0 ha hb hk hself rfl hop hcall).2
    have hL := call_lstep_b st st' rnd op res (I.inv k st hk) hp (op_ok hop) hw hc hcall
    exact ⟨k, st, st', _, _, trans_call_b I hk hop1 hcall hL
      (fun x hx hty => hsane.notWeird hself hx hty)⟩
  cases H.csteps n a b ha hb with
  | call i st st' rnd op res h1 h2 h3 h4 =>
    exact callCase i st st' rnd op res h1 (.inl h2) h3 h4 rfl
  | deliver i st st' rnd m res h1 h2 h3 h4 =>
    exact callCase i st st' rnd (.step m) res h1 (.inr ⟨m, rfl, h2, h3⟩)
      (fun j hc => by cases hc) h4 rfl
  | send i st st' h1 h2 h3 => exact ⟨i, st, st', _, _, trans_send I h1 h2 h3⟩
  | restart i st st' c rnd h1 _ h3 => exact ⟨i, st, st', _, _, trans_restart I h1 h3⟩

theorem owner_uniq (H : Hyp2wB cfg c0 h) : ∀ i j t, Owner h i t → Owner h j t → i = j :=
  owner_unique cfg H.ne H.nd1 H.nd2 h H.hist H.fix

theorem step_node_back {s s' : Sys} (hs : Step s s') (i : Nat) (st' : NState)
    (hn : s'.node i = some st') : ∃ st, s.node i = some st := by
  have key : ∀ (k : Nat) (stk st0 : NState), s.node k = some st0 →
      (s.setNode k stk).node i = some st' → ∃ st, s.node i = some st := by
    intro k stk st0 hk hi
    rw [node_setNode] at hi
    split at hi
    · rename_i hik; subst hik; exact ⟨st0, hk⟩
    · exact ⟨st', hi⟩
  cases hs with
  | call k st stk rnd op res h1 => exact key k stk st h1 hn
  | deliver k st stk rnd m res h1 => exact key k stk st h1 hn
  | send k st stk h1 => exact key k stk st h1 hn
  | restart k st stk c rnd h1 => exact key k stk st h1 hn

/-- `τ` is a lower bound of the in-memory and of the stored term of node `k`, if it runs -/
def FloorAt (s : Sys) (k τ : Nat) : Prop :=
  ∀ st, s.node k = some st → τ ≤ st.raft.term ∧ τ ≤ st.raft.raftLog.store.hardState.term

theorem FloorAt.step {s s' : Sys} {k τ : Nat} (hstep : Step s s') (hf : FloorAt s k τ) :
    FloorAt s' k τ := by
  intro st' hk'
  obtain ⟨st, hk⟩ := step_node_back hstep k st' hk'
  obtain ⟨h1, h2⟩ := hf st hk
  obtain ⟨st2, hk2, h3, h4⟩ := (TermFloor.step hstep ⟨st, hk, h1, h2⟩ : TermFloor s' k τ)
  rw [hk'] at hk2; cases hk2
  exact ⟨h3, h4⟩

theorem FloorAt.steps {s s' : Sys} {k τ : Nat} (hs : Steps s s') (hf : FloorAt s k τ) :
    FloorAt s' k τ := by
  induction hs with
  | refl => exact hf
  | tail b c _ hbc ih => exact ih.step hbc

/-- **the term floor of the owner**: wherever an entry of term `τ` sits, the node that leads `τ`
(somewhere in the history) has `τ` as a floor of its term, in memory and in the storage -/
theorem entry_floor (H : Hyp2wB cfg c0 h) :
    ∀ (n : Nat) (s : Sys), h[n]? = some s → ∀ loc g, At s loc g → ∀ i e, g.entryAt i = some e →
      ∀ k, Owner h k e.term → FloorAt s k e.term := by
  obtain ⟨s0, h0, hall⟩ := H.inv_at
  refine hist_induct h _ ?_ ?_
  · intro s hs loc g hat i e he k hown st hk
    rw [h0] at hs; cases hs
    have I := hall s0 (mem_of_get h0)
    obtain ⟨_, sto, hboot, _, _, _⟩ := H.init s0 h0
    obtain ⟨c, rnd, hb⟩ := hboot k st hk
    have hbt := CV.boot_booted c _ rnd st hb
    have hnc : ¬ CanLead st.raft e.term := fun hc => I.fresh k e.term st hown hk hc loc g hat i e he rfl
    have hge : e.term ≤ st.raft.term := by
      apply Classical.byContradiction
      intro hlt
      exact hnc (.inl (by omega))
    exact ⟨hge, by rw [hbt.hs, ← hbt.term]; exact hge⟩
  · intro n a b ha hb ih loc' g' hat i e he k hown
    have I := hall a (mem_of_get ha)
    have hstep := H.steps n a b ha hb
    obtain ⟨κ, st, st', pers, crash, T⟩ := trans_of_cstepB H.toHypB ha hb
    rcases T.prov loc' g' hat i e he with ⟨loc, g, hA, hE, _⟩ | ⟨_, hl, ht, _⟩
    · exact (ih loc g hA i e hE k hown).step hstep.step
    · -- a fresh entry: its owner is the node that just appended it, which leads the term
      have hlead : leads b κ e.term := ⟨st', T.hk', hl, ht.symm⟩
      have hk : k = κ := owner_uniq H k κ e.term hown ⟨b, mem_of_get hb, hlead⟩
      subst hk
      obtain ⟨st2, h1, h2, h3⟩ := leader_floor H (mem_of_get hb) hlead
      intro st3 hk3
      rw [h1] at hk3; cases hk3
      exact ⟨h2, h3⟩

end ClusterB
end RaftModel
