import RaftProofs.ClusterCommit5c3C

/-!
Cluster-level commit safety **with `batch_append`** (copy of `ClusterCommit3D.lean` over the bundles without `NoBatch`), part 3D: the induction steps for **retention in the storage**
(`rets_step`) and for **the promise of an acknowledgement in the storage** (`a2s_step`).
-/
namespace RaftModel
namespace ClusterB
open Node Raft Raft.CC RaftProps.C02 RaftProps.C05 Raft.CB Raft.Bt Cluster

variable {cfg : JointConfig} {c0 : Nat} {h : List Sys}

/-- a step that leaves the commit index of every node alone is not a commit event -/
theorem not_ev_of_same {E : Ev} (hE : E.ok h) {n : Nat} {a b : Sys} (ha : h[n]? = some a)
    (hb : h[n + 1]? = some b)
    (hsame : ∀ v sta stb, a.node v = some sta → b.node v = some stb →
      stb.raft.state = .leader → stb.raft.raftLog.committed ≤ sta.raft.raftLog.committed) :
    E.nE ≠ n := by
  intro he
  obtain ⟨a', b', sta, stb, ha', hb', hla, hlb, hsl, _, hc, _⟩ := hE
  rw [he] at ha' hb'
  rw [ha] at ha'; cases ha'
  rw [hb] at hb'; cases hb'
  have := hsame E.l sta stb hla hlb hsl
  omega

theorem rets_step (H : Hyp3aB cfg c0 h) {n : Nat} (S : SAll h c0 n) {a b : Sys}
    (ha : h[n]? = some a) (hb : h[n + 1]? = some b) :
    ∀ E : Ev, E.ok h → ∀ v st', b.node v = some st' → AckedDur b (n + 1) E v →
      Has (storeLog st'.raft.raftLog.store) E.c E.t := by
  intro E hE v st' hvb hk
  have H2 := H.toHyp2wB
  have Sa := S n a (Nat.le_refl _) ha
  obtain ⟨_, hEh, hc0⟩ := Ev.leaderLog H2 hE
  obtain ⟨k, stk, stk', hka, hkb, hoth, hs⟩ := stp_of H2 ha hb
  by_cases hvk : v = k
  · subst hvk
    have hkb' := hkb
    rw [hkb] at hvb; cases hvb
    have oa := node_okB H2 ha hka
    have ob := node_okB H2 hb hkb'
    -- in a step that is not a commit, `AckedDur` comes from before or from the queue
    have back : E.nE ≠ n → (∀ x ∈ b.net, x ∈ a.net ∨ x ∈ stk.raft.msgs) →
        AckedDur a n E v ∨ ∃ x ∈ stk.raft.msgs, isAck x ∧ x.frm = v ∧ x.term = E.t ∧ E.c ≤ x.index := by
      intro hne hnet
      rcases hk with ⟨x, hx, h2⟩ | ⟨h1, h2, h3⟩
      · rcases hnet x hx with c | c
        · exact .inl (.inl ⟨x, c, h2⟩)
        · exact .inr ⟨x, c, h2⟩
      · exact .inl (.inr ⟨h1, by omega, h3⟩)
    cases hs with
    | restart c rnd hboot hnet =>
      have hbt := CV.boot_booted c _ rnd st' hboot
      obtain ⟨_, _, hsl⟩ := boot_log c _ rnd st' oa.inv.storeWF hboot
      have hne : E.nE ≠ n := by
        refine not_ev_of_same hE ha hb (fun w sta stb hwa hwb hl => ?_)
        by_cases hw : w = v
        · subst hw
          rw [hkb'] at hwb; cases hwb
          rw [hbt.state] at hl; cases hl
        · rw [hoth w hw, hwa] at hwb; cases hwb; exact Nat.le_refl _
      rw [hsl]
      rcases back hne (fun x hx => by rw [hnet] at hx; exact .inl hx) with c | ⟨x, hx, _⟩
      · exact Sa.rets E hE v stk hka c
      · exact Sa.rets E hE v stk hka (by
          rcases hk with ⟨y, hy, h2⟩ | ⟨h1, h2, h3⟩
          · rw [hnet] at hy; exact .inl ⟨y, hy, h2⟩
          · exact .inr ⟨h1, by omega, h3⟩)
    | send hp hu hq hsame hnet =>
      have hne : E.nE ≠ n := by
        refine not_ev_of_same hE ha hb (fun w sta stb hwa hwb _ => ?_)
        by_cases hw : w = v
        · subst hw
          rw [hkb'] at hwb; cases hwb
          rw [hka] at hwa; cases hwa
          rw [hsame.1]; exact Nat.le_refl _
        · rw [hoth w hw, hwa] at hwb; cases hwb; exact Nat.le_refl _
      rw [hsame.1]
      rcases back hne (fun x hx => by rw [hnet] at hx; exact List.mem_append.1 hx) with
        c | ⟨x, hx, hack, hfrm, hterm, hidx⟩
      · exact Sa.rets E hE v stk hka c
      · -- the acknowledgement leaves the queue: nothing of the log is unstable
        have hh := Sa.retm E hE v stk hka (.inl ⟨x, .inr hx, hack, hfrm, hterm, hidx⟩)
        by_cases hl : stk.raft.state = .leader
        · have := leader_no_ack H2 ha hka hl x hx hack
          omega
        · obtain ⟨u1, u2⟩ := hu hl
          exact Has.of_eq (oa.inv.abs_store_all u2 u1 E.c).symm hh
    | call rnd op res hop hnc hca hcall hnet =>
      obtain ⟨_, hse, _⟩ := call_moreB H2 ha hb hka hkb hnet hop hnc hcall
      have hmem : Has st'.raft.raftLog.abs E.c E.t :=
        retm_step H S ha hb E hE v st' hkb' hk.mem
      by_cases hst : op = .stabilize
      · subst hst
        obtain ⟨k1, _⟩ := stabilize_out oa.inv oa.snap hcall
        exact Has.of_eq (ob.inv.abs_store_all ob.snap k1 E.c).symm hmem
      · have hsl : storeLog st'.raft.raftLog.store = storeLog stk.raft.raftLog.store := by
          rcases hse with c | c
          · exact c.se.storeLog
          · exact absurd c hst
        rcases hk with ⟨x, hx, h2⟩ | ⟨h1, h2, h3⟩
        · rw [hnet] at hx
          rw [hsl]
          exact Sa.rets E hE v stk hka (.inl ⟨x, hx, h2⟩)
        · by_cases hne : E.nE = n
          · -- the commit event of this step: the index is persisted
            obtain ⟨a', b', sta, stb, ha', hb', hla, hlb, _, _, _, _, _, hp⟩ := id hE
            rw [hne, hb] at hb'; cases hb'
            rw [← h1, hkb'] at hlb; cases hlb
            rw [hp] at h3
            exact Has.of_eq (ob.inv.abs_store_persisted ob.snap h3).symm hmem
          · rw [hsl]
            exact Sa.rets E hE v stk hka (.inr ⟨h1, by omega, h3⟩)
  · have hva : a.node v = some st' := by rw [← hoth v hvk]; exact hvb
    obtain ⟨_, o2, _⟩ := sm_other H2 ha hb Sa hka hs hvk hva
    refine Sa.rets E hE v st' hva ?_
    rcases hk with ⟨x, hx, hack, hfrm, hterm, hidx⟩ | ⟨h1, h2, h3⟩
    · exact .inl ⟨x, o2 x hx hack (by omega) hfrm, hack, hfrm, hterm, hidx⟩
    · by_cases he : E.nE = n
      · have := ev_at_step hE (by rw [he]; exact ha) (by rw [he]; exact hb) hoth
        exact absurd (h1.trans this) hvk
      · exact .inr ⟨h1, by omega, h3⟩

theorem a2s_step (H : Hyp3aB cfg c0 h) {n : Nat} (S : SAll h c0 n) {a b : Sys}
    (ha : h[n]? = some a) (hb : h[n + 1]? = some b) :
    ∀ v st', b.node v = some st' → ∀ x ∈ b.net, isAck x → x.frm = v → c0 < x.index →
      x.term = st'.raft.raftLog.store.hardState.term →
      Promise h (n + 1) x (storeLog st'.raft.raftLog.store) := by
  intro v st' hvb x hx hack hfrm hidx hterm
  have H2 := H.toHyp2wB
  have Sa := S n a (Nat.le_refl _) ha
  have hx0 : x.index ≠ 0 := by omega
  obtain ⟨k, stk, stk', hka, hkb, hoth, hs⟩ := stp_of H2 ha hb
  by_cases hvk : v = k
  · subst hvk
    have hkb' := hkb
    rw [hkb] at hvb; cases hvb
    have oa := node_okB H2 ha hka
    have ob := node_okB H2 hb hkb'
    cases hs with
    | restart c rnd hboot hnet =>
      have hbt := CV.boot_booted c _ rnd st' hboot
      obtain ⟨_, _, hsl⟩ := boot_log c _ rnd st' oa.inv.storeWF hboot
      rw [hnet] at hx
      rw [hsl]
      exact (Sa.a2s v stk hka x hx hack hfrm hidx (by rw [hterm, hbt.hs])).mono (Nat.le_succ _)
    | send hp hu hq hsame hnet =>
      rw [hnet] at hx
      rw [hsame.1] at hterm ⊢
      rcases List.mem_append.1 hx with c | c
      · exact (Sa.a2s v stk hka x c hack hfrm hidx hterm).mono (Nat.le_succ _)
      · obtain ⟨L, hl, hreach, heq⟩ :=
          Sa.a2m v stk hka x (.inr c) hack hfrm hidx (by rw [hterm, hp.1])
        by_cases hl' : stk.raft.state = .leader
        · have := leader_no_ack H2 ha hka hl' x c hack
          omega
        · obtain ⟨u1, u2⟩ := hu hl'
          exact ⟨L, hl.mono (Nat.le_succ _), hreach,
            fun j hj => (oa.inv.abs_store_all u2 u1 j).symm.trans (heq j hj)⟩
    | call rnd op res hop hnc hca hcall hnet =>
      obtain ⟨_, hse, hhs⟩ := call_moreB H2 ha hb hka hkb hnet hop hnc hcall
      rw [hnet] at hx
      by_cases hst : op = .stabilize
      · subst hst
        obtain ⟨k1, k2, k3, _, k5, _⟩ := stabilize_out oa.inv oa.snap hcall
        obtain ⟨L, hl, hreach, heq⟩ :=
          Sa.a2m v stk hka x (.inl hx) hack hfrm hidx (by rw [hterm, k2.1, k5])
        refine ⟨L, hl.mono (Nat.le_succ _), hreach, fun j hj => ?_⟩
        rw [← ob.inv.abs_store_all ob.snap k1 j, k3]
        exact heq j hj
      · have hsl : storeLog st'.raft.raftLog.store = storeLog stk.raft.raftLog.store := by
          rcases hse with c | c
          · exact c.se.storeLog
          · exact absurd c hst
        have hterm' : x.term = stk.raft.raftLog.store.hardState.term := by
          rcases hhs with c | ⟨j, _, c⟩ | ⟨c, _⟩
          · rw [hterm, c]
          · rw [hterm, c]
          · exact absurd c hst
        rw [hsl]
        exact (Sa.a2s v stk hka x hx hack hfrm hidx hterm').mono (Nat.le_succ _)
  · have hva : a.node v = some st' := by rw [← hoth v hvk]; exact hvb
    obtain ⟨_, o2, _⟩ := sm_other H2 ha hb Sa hka hs hvk hva
    exact (Sa.a2s v st' hva x (o2 x hx hack hx0 hfrm) hack hfrm hidx hterm).mono (Nat.le_succ _)

end ClusterB
end RaftModel
