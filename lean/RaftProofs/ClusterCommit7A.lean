import RaftProofs.ClusterCommit6C

/-!
Cluster-level commit safety with `batch_append`, with queued `MsgSnapshot`s allowed (C01l), part 7A:
**the bundle `Hyp3wL`** of `RaftProps/C01l.lean` = `Hyp3wK` (`ClusterCommit6B.lean`) **without the field
`mute`**, i.e. C01d's `Hyp3w` without `NoBatch`, plus `c0z : c0 = 0`.

`Hyp3wL` does **not** imply `Hyp3wK`: `ClusterCommit7B.lean` exhibits a history (kernel-evaluated) under
`Hyp3wL` in which somebody batches and `SaneQ` fails.  What is proved here is the comparison of the bundles
and the conditional `Hyp3wL.toHyp3wK_partial` (with `mute` as an explicit hypothesis).
-/
namespace RaftModel
namespace ClusterB
open Node Raft Raft.CC Raft.CP RaftProps.C02 RaftProps.C05 Raft.CB Raft.Bt Cluster

/-- **the hypotheses of the commit layer with `batch_append` and queued `MsgSnapshot`s allowed, nothing
assumed about queues**: `Hyp3wK` without `mute` -/
structure Hyp3wL (cfg : JointConfig) (c0 : Nat) (h : List Sys) : Prop where
  hist : History h
  fix : ∀ s ∈ h, FixedCfg cfg s
  ne : cfg.incoming ≠ []
  nd1 : cfg.incoming.Nodup
  nd2 : cfg.outgoing.Nodup
  init : ∀ s : Sys, h[0]? = some s → InitOk s
  steps : ∀ (n : Nat) (a b : Sys), h[n]? = some a → h[n + 1]? = some b → KStep a b
  nosnap : ∀ s ∈ h, NoSnapNet s
  nolone : ∀ i Q, IsJointQuorum cfg Q → ∃ k ∈ Q, k ≠ i
  shape : ∀ s ∈ h, ∀ i st, s.node i = some st →
    st.raft.raftLog.unstable.snapshot = none ∧ st.raft.raftLog.store.firstIndex = c0 + 1
  initc : ∀ s : Sys, h[0]? = some s → ∀ i st, s.node i = some st → st.raft.raftLog.committed = c0
  c0z : c0 = 0
  snapt0 : ∀ s0, h[0]? = some s0 → ∀ i sti, s0.node i = some sti → ∀ t0,
    sti.raft.raftLog.abs.snapTerm = some t0 → ∀ j stj, s0.node j = some stj → t0 ≤ stj.raft.term

variable {cfg : JointConfig} {c0 : Nat} {h : List Sys}

/-- C01k's bundle is a special case (forget `mute`) -/
theorem Hyp3wK.toHyp3wL (H : Hyp3wK cfg c0 h) : Hyp3wL cfg c0 h :=
  { hist := H.hist, fix := H.fix, ne := H.ne, nd1 := H.nd1, nd2 := H.nd2, init := H.init,
    steps := H.steps, nosnap := H.nosnap, nolone := H.nolone, shape := H.shape, initc := H.initc,
    c0z := H.c0z, snapt0 := H.snapt0 }

/-- **conditional**: `Hyp3wL` and `mute` give `Hyp3wK` (the field cannot be derived:
`c01l_not_hyp3wK`, `ClusterCommit7B.lean`) -/
theorem Hyp3wL.toHyp3wK_partial (H : Hyp3wL cfg c0 h)
    (mute : (∀ s ∈ h, NoBatch s) ∨ (∀ s ∈ h, SaneQ s)) : Hyp3wK cfg c0 h :=
  { hist := H.hist, fix := H.fix, ne := H.ne, nd1 := H.nd1, nd2 := H.nd2, init := H.init,
    steps := H.steps, nosnap := H.nosnap, nolone := H.nolone, shape := H.shape, initc := H.initc,
    c0z := H.c0z, snapt0 := H.snapt0, mute := mute }

/-- C01d's bundle with `c0 = 0` is a special case -/
theorem Hyp3wL.of_hyp3w {cfg : JointConfig} {h : List Sys} (H : Hyp3w cfg 0 h) : Hyp3wL cfg 0 h :=
  (Hyp3wK.of_hyp3w H).toHyp3wL

/-- the bundle is closed under non-empty prefixes -/
theorem Hyp3wL.take (H : Hyp3wL cfg c0 h) {k : Nat} (hk : 0 < k) : Hyp3wL cfg c0 (h.take k) where
  hist := History.take H.hist k hk
  fix := fun s hs => H.fix s (List.mem_of_mem_take hs)
  ne := H.ne
  nd1 := H.nd1
  nd2 := H.nd2
  init := fun s h0 => H.init s (get_take h0).1
  steps := fun n a b ha hb => H.steps n a b (get_take ha).1 (get_take hb).1
  nosnap := fun s hs => H.nosnap s (List.mem_of_mem_take hs)
  nolone := H.nolone
  shape := fun s hs => H.shape s (List.mem_of_mem_take hs)
  initc := fun s h0 => H.initc s (get_take h0).1
  c0z := H.c0z
  snapt0 := fun s0 h0 => H.snapt0 s0 (get_take h0).1

end ClusterB
end RaftModel
