import RaftProofs.ClusterSnap5U

/-!
[Copy of `ClusterSnap2V.lean` for the development `Snap5` (with `request_snapshot`): `NoReq` is replaced by
`ReqOk`, `SnapCase.restored` is widened — see `ClusterSnap5A.lean`, `RaftProps/C01i.lean`.]

Commit safety of `ClusterSem` with compaction and snapshots, part 2V: **a concrete history with a real
snapshot** (kernel-evaluated) that satisfies every hypothesis of this development (`Snap5.Hyp3`).

The history of `ClusterSnapU` up to the state in which node 1, leader of term 1, has commit index 2
(entries 1 and 2, acknowledged by node 2; node 3 has heard nothing yet), continued by eleven steps:
the application of node 1 records the commit index (`commit_apply 2`), **compacts its log up to
index 2** (`compact 2`: entry 1 is gone) and sends; node 3 is delivered the first `MsgAppend` (entry 1),
persists and sends its acknowledgement for index 1; node 1 is delivered it, cannot send entry 2 with its
anchor (the term of index 1 is compacted away) and **queues a `MsgSnapshot` (index 2, term 1)**, which it
sends; node 3 is delivered it and **restores the snapshot** (its entry 1 is replaced, its commit index
is 2), installs it in its storage (`persist_snap`) and sends its acknowledgement for index 2.
-/
namespace RaftModel
namespace Cluster
namespace Snap5
open Node Raft Raft.CC RaftProps.C02 RaftProps.C05 Snap

/-- the steps of the development without compaction, in histories without snapshots, are steps of
this one -/
theorem KStep.of_old {a b : Sys} (hs : Cluster.KStep a b)
    (ha : ∀ i st, a.node i = some st → st.raft.raftLog.unstable.snapshot = none)
    (hb : ∀ i st, b.node i = some st → st.raft.raftLog.unstable.snapshot = none ∧
      ∀ x ∈ st.raft.msgs, x.msgType ≠ .msgSnapshot) : KStep a b := by
  cases hs with
  | call i st st' rnd op res h1 h2 h3 h4 h5 =>
    obtain ⟨p1, p2⟩ := hb i st' (node_setNode_self a i st')
    exact .call a i st st' rnd op res h1 h2 (fun k hk => absurd hk (h3 k)) h4
      (fun _ hc => absurd (ha i st h1) hc) (fun hc => absurd (ha i st h1) hc) (fun _ => p1)
      (fun k hk => absurd hk (h3 k)) (fun x hx _ hty => absurd hty (p2 x hx)) h5
  | deliver i st st' rnd m res h1 h2 h3 h4 =>
    obtain ⟨p1, p2⟩ := hb i st' (node_setNode_self a i st')
    exact .deliver a i st st' rnd m res h1 h2 h3 (ha i st h1) (fun _ => p1)
      (fun x hx _ hty => absurd hty (p2 x hx)) h4
  | send i st st' h1 h2 h3 h4 => exact .send a i st st' h1 h2 h3 h4
  | restart i st st' c rnd h1 h2 h3 =>
    exact .restart a i st st' c rnd h1 h2 h3 (hb i st' (node_setNode_self a i st')).1

/-- **the hypotheses of the development without compaction and snapshots** (`Cluster.Hyp3`, C01c)
**imply those of this one** for the histories in which no node queues a `MsgSnapshot` and
`request_snapshot` is not used -/
theorem Hyp3.of_old {cfg : JointConfig} {c0 : Nat} {h : List Sys} (H : Cluster.Hyp3 cfg c0 h)
    (hq : ∀ s ∈ h, ∀ i st, s.node i = some st → ∀ x ∈ st.raft.msgs, x.msgType ≠ .msgSnapshot)
    (hr : ∀ s ∈ h, ReqOk s) : Hyp3 cfg c0 h :=
  { hist := H.hist, fix := H.fix, ne := H.ne, nd1 := H.nd1, nd2 := H.nd2, init := H.init,
    steps := fun n a b ha hb => KStep.of_old (H.steps n a b ha hb)
      (fun i st hi => (H.shape a (mem_of_get ha) i st hi).1)
      (fun i st hi => ⟨(H.shape b (mem_of_get hb) i st hi).1, hq b (mem_of_get hb) i st hi⟩),
    nb := H.nb, reqok := hr, nolone := H.nolone,
    first0 := fun s h0 i st hi => (H.shape s (mem_of_get h0) i st hi).2,
    initc := H.initc, norir := H.norir,
    pend0 := fun s h0 i st hi => (H.shape s (mem_of_get h0) i st hi).1,
    anch := H.anch, snapt0 := H.snapt0,
    snapidx := fun s hs x hx hty => absurd hty (H.nosnap s hs x hx) }

theorem Chained.with {R : Sys → Sys → Prop} {P : Sys → Prop} : ∀ l : List Sys, Chained R l →
    (∀ s ∈ l, P s) → Chained (fun a b => R a b ∧ P a ∧ P b) l := by
  intro l
  induction l with
  | nil => intro _ _; trivial
  | cons x t ih =>
    intro hc hp
    cases t with
    | nil => trivial
    | cons y t' =>
      exact ⟨⟨hc.1, hp x List.mem_cons_self, hp y (List.mem_cons_of_mem _ List.mem_cons_self)⟩,
        ih hc.2 (fun s hs => hp s (List.mem_cons_of_mem _ hs))⟩

/-! ### the states -/

def sx_a14 := c02x_st (Node.call cx_a13 none (.commitApply 2))
def sx_a15 := c02x_st (Node.call sx_a14 none (.compact 2))
def sx_a16 := c02x_st (Node.call sx_a15 none .drain)
/-- the first `MsgAppend` of node 1 for node 3 (entry 1) -/
def sx_app := cx_s22.net[4]!
def sx_c1 := c02x_st (Node.call (c02x_boot 3) none (.step sx_app))
def sx_c2 := c02x_st (Node.call sx_c1 none .stabilize)
def sx_c3 := c02x_st (Node.call sx_c2 none .drain)
/-- the acknowledgement of node 3 for index 1 -/
def sx_ack := sx_c2.raft.msgs.head!
def sx_a17 := c02x_st (Node.call sx_a16 none (.step sx_ack))
def sx_a18 := c02x_st (Node.call sx_a17 none .drain)
/-- the `MsgSnapshot` (index 2, term 1) of node 1 for node 3 -/
def sx_snap := sx_a17.raft.msgs.head!
/-- node 3 with the snapshot pending -/
def sx_c4 := c02x_st (Node.call sx_c3 none (.step sx_snap))
/-- node 3 with the snapshot installed -/
def sx_c5 := c02x_st (Node.call sx_c4 none .persistSnap)
def sx_c6 := c02x_st (Node.call sx_c5 none .drain)

def sx_t1 : Sys := cx_s22.setNode 1 sx_a14
def sx_t2 : Sys := sx_t1.setNode 1 sx_a15
def sx_t3 : Sys := { (sx_t2.setNode 1 sx_a16) with net := sx_t2.net ++ sx_a15.raft.msgs }
def sx_t4 : Sys := sx_t3.setNode 3 sx_c1
def sx_t5 : Sys := sx_t4.setNode 3 sx_c2
def sx_t6 : Sys := { (sx_t5.setNode 3 sx_c3) with net := sx_t5.net ++ sx_c2.raft.msgs }
def sx_t7 : Sys := sx_t6.setNode 1 sx_a17
def sx_t8 : Sys := { (sx_t7.setNode 1 sx_a18) with net := sx_t7.net ++ sx_a17.raft.msgs }
def sx_t9 : Sys := sx_t8.setNode 3 sx_c4
def sx_t10 : Sys := sx_t9.setNode 3 sx_c5
def sx_t11 : Sys := { (sx_t10.setNode 3 sx_c6) with net := sx_t10.net ++ sx_c5.raft.msgs }

def sx_mid : List Sys := [cx_s15, cx_s16, cx_s17, cx_s18, cx_s19, cx_s20, cx_s21, cx_s22]
def sx_tail : List Sys :=
  [sx_t1, sx_t2, sx_t3, sx_t4, sx_t5, sx_t6, sx_t7, sx_t8, sx_t9, sx_t10, sx_t11]
/-- the part without compaction and snapshots -/
def sx_pre : List Sys := c01x_hist ++ sx_mid
def sx_hist : List Sys := sx_pre ++ sx_tail

/-! ### the part without compaction and snapshots -/

set_option maxRecDepth 100000 in
theorem sx_mid_steps : Chained Cluster.KStep (c01x_s14 :: sx_mid) := by
  refine ⟨?_, ?_, ?_, ?_, ?_, ?_, ?_, ?_, trivial⟩
  · exact Cluster.KStep.call _ 1 c01x_a8 cx_a9 none (.propose [] [1]) _ rfl rfl
      (fun k hc => by cases hc) (fun k hc => by cases hc) (c02x_out _ (by decide))
  · exact Cluster.KStep.call _ 1 cx_a9 cx_a10 none .stabilize _ rfl rfl
      (fun k hc => by cases hc) (fun k hc => by cases hc) (c02x_out _ (by decide))
  · exact Cluster.KStep.call _ 1 cx_a10 cx_a11 none (.onPersistEntries 2 1) _ rfl rfl
      (fun k hc => by cases hc) (fun k hc => by cases hc) (c02x_out _ (by decide))
  · exact Cluster.KStep.send _ 1 cx_a11 cx_a12 rfl ⟨by decide, by decide⟩
      (fun hc => absurd (by decide) hc) rfl
  · exact Cluster.KStep.deliver _ 2 c01x_b6 cx_b7 none cx_app _ rfl
      (List.mem_append_right _ (getIdx_mem _ 1 (by decide))) (by decide) (c02x_out _ (by decide))
  · exact Cluster.KStep.call _ 2 cx_b7 cx_b8 none .stabilize _ rfl rfl
      (fun k hc => by cases hc) (fun k hc => by cases hc) (c02x_out _ (by decide))
  · exact Cluster.KStep.send _ 2 cx_b8 cx_b9 rfl ⟨by decide, by decide⟩
      (fun _ => ⟨by decide, rfl⟩) rfl
  · exact Cluster.KStep.deliver _ 1 cx_a12 cx_a13 none cx_ack _ rfl
      (List.mem_append_right _ (c02x_head_mem _ (by decide))) (by decide) (c02x_out _ (by decide))

theorem sx_pre_old : Chained Cluster.KStep sx_pre :=
  chained_append (c05x_hist ++ [c01x_s11, c01x_s12, c01x_s13]) c01x_s14 sx_mid
    (by simpa [c01x_hist] using c01x_ksteps) sx_mid_steps

/-- no snapshot is pending, none is queued -/
def sx_preOk (s : Sys) : Bool :=
  s.nodes.all (fun p => p.2.raft.raftLog.unstable.snapshot.isNone &&
    p.2.raft.msgs.all (fun x => decide (x.msgType ≠ .msgSnapshot)))

theorem sx_preOk_ok (s : Sys) (h : sx_preOk s = true) :
    ∀ i st, s.node i = some st → st.raft.raftLog.unstable.snapshot = none ∧
      ∀ x ∈ st.raft.msgs, x.msgType ≠ .msgSnapshot := by
  intro i st hi
  unfold sx_preOk at h
  rw [List.all_eq_true] at h
  have := h _ (c02_lookup_mem s.nodes i st hi)
  simp only [Bool.and_eq_true, List.all_eq_true] at this
  exact ⟨by simpa [Option.isNone_iff_eq_none] using this.1,
    fun x hx => of_decide_eq_true (this.2 x hx)⟩

set_option maxRecDepth 100000 in
theorem sx_preOk_all : ∀ s ∈ sx_pre, sx_preOk s = true := by
  intro s hs
  simp only [sx_pre, sx_mid, c01x_hist, c05x_hist, c02x_hist, List.cons_append, List.nil_append,
    List.mem_cons, List.not_mem_nil, or_false, List.append_assoc] at hs
  rcases hs with rfl | rfl | rfl | rfl | rfl | rfl | rfl | rfl | rfl | rfl | rfl | rfl | rfl |
    rfl | rfl | rfl | rfl | rfl | rfl | rfl | rfl | rfl | rfl <;> decide

theorem sx_pre_steps : Chained KStep sx_pre :=
  Chained.mono (fun a b hc => KStep.of_old hc.1 (fun i st hi => (sx_preOk_ok a hc.2.1 i st hi).1)
    (sx_preOk_ok b hc.2.2)) _ (Chained.with _ sx_pre_old sx_preOk_all)

/-! ### compaction, snapshot, restoration, installation -/

/-- a queue without `MsgSnapshot` -/
theorem snapSend_of_none {st st' : NState}
    (h : st'.raft.msgs.all (fun x => decide (x.msgType ≠ .msgSnapshot)) = true) :
    SnapSend st st' := by
  intro x hx _ hty
  rw [List.all_eq_true] at h
  exact absurd hty (of_decide_eq_true (h x hx))

set_option maxRecDepth 100000 in
theorem sx_tail_steps : Chained KStep (cx_s22 :: sx_tail) := by
  refine ⟨?_, ?_, ?_, ?_, ?_, ?_, ?_, ?_, ?_, ?_, ?_, trivial⟩
  · -- the application of node 1 records the commit index 2
    exact KStep.call _ 1 cx_a13 sx_a14 none (.commitApply 2) _ rfl rfl
      (fun k hc => by cases hc) (fun k hc => by cases hc; exact ⟨by decide, by decide, by decide⟩)
      (fun hc => by cases hc) (fun hc => absurd (by decide) hc) (fun _ => by decide)
      (fun k hc => by cases hc) (snapSend_of_none (by decide)) (c02x_out _ (by decide))
  · -- … and compacts up to index 2
    exact KStep.call _ 1 sx_a14 sx_a15 none (.compact 2) _ rfl rfl
      (fun k hc => by cases hc; exact ⟨by decide, by decide⟩) (fun k hc => by cases hc)
      (fun hc => by cases hc) (fun hc => absurd (by decide) hc) (fun _ => by decide)
      (fun k hc => by cases hc; decide) (snapSend_of_none (by decide)) (c02x_out _ (by decide))
  · exact KStep.send _ 1 sx_a15 sx_a16 rfl ⟨by decide, by decide⟩
      (fun hc => absurd (by decide) hc) rfl
  · -- node 3 is delivered entry 1
    exact KStep.deliver _ 3 (c02x_boot 3) sx_c1 none sx_app _ rfl
      (List.mem_append_left _ (getIdx_mem _ 4 (by decide))) (by decide) (by decide)
      (fun _ => by decide) (snapSend_of_none (by decide)) (c02x_out _ (by decide))
  · exact KStep.call _ 3 sx_c1 sx_c2 none .stabilize _ rfl rfl
      (fun k hc => by cases hc) (fun k hc => by cases hc)
      (fun hc => by cases hc) (fun hc => absurd (by decide) hc) (fun _ => by decide)
      (fun k hc => by cases hc) (snapSend_of_none (by decide)) (c02x_out _ (by decide))
  · exact KStep.send _ 3 sx_c2 sx_c3 rfl ⟨by decide, by decide⟩
      (fun _ => ⟨by decide, by decide⟩) rfl
  · -- node 1 is delivered the acknowledgement for index 1 and queues the snapshot of its storage
    refine KStep.deliver _ 1 sx_a16 sx_a17 none sx_ack _ rfl
      (List.mem_append_right _ (c02x_head_mem _ (by decide))) (by decide) (by decide)
      (fun _ => by decide) ?_ (c02x_out _ (by decide))
    intro x hx _ _
    have : x = sx_snap := by
      have hq : sx_a17.raft.msgs = [sx_snap] := by decide
      rw [hq] at hx
      exact List.mem_singleton.1 hx
    subst this
    decide
  · exact KStep.send _ 1 sx_a17 sx_a18 rfl ⟨by decide, by decide⟩
      (fun hc => absurd (by decide) hc) rfl
  · -- node 3 is delivered the snapshot and restores it
    exact KStep.deliver _ 3 sx_c3 sx_c4 none sx_snap _ rfl
      (List.mem_append_right _ (c02x_head_mem _ (by decide))) (by decide) (by decide)
      (fun hc => absurd (by decide) hc) (snapSend_of_none (by decide)) (c02x_out _ (by decide))
  · -- … and installs it
    exact KStep.call _ 3 sx_c4 sx_c5 none .persistSnap _ rfl rfl
      (fun k hc => by cases hc) (fun k hc => by cases hc)
      (fun _ _ => ⟨by decide, by decide⟩) (fun _ => rfl) (fun hc => absurd hc (by decide))
      (fun k hc => by cases hc) (snapSend_of_none (by decide)) (c02x_out _ (by decide))
  · exact KStep.send _ 3 sx_c5 sx_c6 rfl ⟨by decide, by decide⟩
      (fun _ => ⟨by decide, by decide⟩) rfl

theorem sx_ksteps : Chained KStep sx_hist :=
  chained_append (c01x_hist ++ [cx_s15, cx_s16, cx_s17, cx_s18, cx_s19, cx_s20, cx_s21]) cx_s22
    sx_tail (by simpa [sx_pre, sx_mid] using sx_pre_steps) sx_tail_steps

theorem sx_history : History sx_hist := by
  have := chained_history [] c02x_s0 (History.init _ c02x_init) _
    (Chained.mono (fun _ _ hc => hc.step) _ sx_ksteps)
  simpa [sx_hist, sx_pre, sx_mid, c01x_hist, c05x_hist, c02x_hist] using this

/-! ### the hypotheses -/

/-- what is assumed about a message of the transport -/
def sx_msgOk (x : Message) : Prop :=
  x.msgType ≠ .msgReadIndexResp ∧ (x.msgType = .msgAppend → x.logTerm ≠ 0 ∨ x.index ≤ 0) ∧
  (x.msgType = .msgSnapshot → 0 < x.snapshot.metadata.index)

instance (x : Message) : Decidable (sx_msgOk x) := by unfold sx_msgOk; infer_instance

def sx_chk (s : Sys) : Bool :=
  c02x_fixed s && c05x_nobatch s && s.net.all (fun x => decide (sx_msgOk x)) &&
  s.nodes.all (fun p => decide (p.2.raft.pendingRequestSnapshot = 0))

theorem sx_chk_ok (s : Sys) (h : sx_chk s = true) :
    FixedCfg c02x_cfg s ∧ NoBatch s ∧ (∀ x ∈ s.net, sx_msgOk x) ∧ ReqOk s := by
  unfold sx_chk at h
  simp only [Bool.and_eq_true] at h
  obtain ⟨⟨⟨h1, h2⟩, h3⟩, h4⟩ := h
  refine ⟨c02x_fixed_ok s h1, c05x_nobatch_ok s h2, fun x hx => ?_, fun i st hi => ?_⟩
  · rw [List.all_eq_true] at h3
    exact of_decide_eq_true (h3 x hx)
  · rw [List.all_eq_true] at h4
    intro hne
    exact absurd (of_decide_eq_true (h4 _ (c02_lookup_mem s.nodes i st hi))) hne

set_option maxRecDepth 100000 in
theorem sx_chk_all : ∀ s ∈ sx_hist, sx_chk s = true := by
  intro s hs
  simp only [sx_hist, sx_pre, sx_mid, sx_tail, c01x_hist, c05x_hist, c02x_hist, List.cons_append,
    List.nil_append, List.mem_cons, List.not_mem_nil, or_false, List.append_assoc] at hs
  rcases hs with rfl | rfl | rfl | rfl | rfl | rfl | rfl | rfl | rfl | rfl | rfl | rfl | rfl |
    rfl | rfl | rfl | rfl | rfl | rfl | rfl | rfl | rfl | rfl | rfl | rfl | rfl | rfl | rfl | rfl |
    rfl | rfl | rfl | rfl | rfl <;> decide

set_option maxRecDepth 100000 in
/-- **the history satisfies every hypothesis of the commit layer with compaction and snapshots** -/
theorem sx_hyp3 : Hyp3 c02x_cfg 0 sx_hist := by
  have h0 : sx_hist[0]? = some c02x_s0 := rfl
  have hall := fun s hs => sx_chk_ok s (sx_chk_all s hs)
  have hboot : ∀ i st, c02x_s0.node i = some st →
      (i = 1 ∧ st = c02x_boot 1) ∨ (i = 2 ∧ st = c02x_boot 2) ∨ (i = 3 ∧ st = c02x_boot 3) := by
    intro i st hi
    have hm := c02_lookup_mem _ i st hi
    simp only [c02x_s0, List.mem_cons, Prod.mk.injEq, List.not_mem_nil, or_false] at hm
    rcases hm with ⟨rfl, rfl⟩ | ⟨rfl, rfl⟩ | ⟨rfl, rfl⟩
    · exact .inl ⟨rfl, rfl⟩
    · exact .inr (.inl ⟨rfl, rfl⟩)
    · exact .inr (.inr ⟨rfl, rfl⟩)
  refine ⟨⟨⟨sx_history, fun s hs => (hall s hs).1, by decide, by decide, by decide, ?_,
    chained_at _ sx_ksteps, fun s hs => (hall s hs).2.1, fun s hs => (hall s hs).2.2.2⟩,
    c01x_nolone, ?_, ?_, fun s hs x hx => ((hall s hs).2.2.1 x hx).1, ?_⟩,
    fun s hs x hx => ((hall s hs).2.2.1 x hx).2.1, ?_,
    fun s hs x hx => ((hall s hs).2.2.1 x hx).2.2⟩
  · intro s hs
    rw [h0] at hs; cases hs
    exact c05x_initOk
  · intro s hs i st hi
    rw [h0] at hs; cases hs
    rcases hboot i st hi with ⟨rfl, rfl⟩ | ⟨rfl, rfl⟩ | ⟨rfl, rfl⟩ <;> decide
  · intro s hs i st hi
    rw [h0] at hs; cases hs
    rcases hboot i st hi with ⟨rfl, rfl⟩ | ⟨rfl, rfl⟩ | ⟨rfl, rfl⟩ <;> decide
  · intro s hs i st hi
    rw [h0] at hs; cases hs
    rcases hboot i st hi with ⟨rfl, rfl⟩ | ⟨rfl, rfl⟩ | ⟨rfl, rfl⟩ <;> decide
  · intro s hs i st hi t0 ht0 j st0 _
    rw [h0] at hs; cases hs
    have hz : ∀ i, i = 1 ∨ i = 2 ∨ i = 3 → (c02x_boot i).raft.raftLog.abs.snapTerm = some 0 := by
      intro i hi
      rcases hi with rfl | rfl | rfl <;> decide
    have : t0 = 0 := by
      rcases hboot i st hi with ⟨rfl, rfl⟩ | ⟨rfl, rfl⟩ | ⟨rfl, rfl⟩
      · rw [hz 1 (.inl rfl)] at ht0; cases ht0; rfl
      · rw [hz 2 (.inr (.inl rfl))] at ht0; cases ht0; rfl
      · rw [hz 3 (.inr (.inr rfl))] at ht0; cases ht0; rfl
    omega

end Snap5
end Cluster
end RaftModel
