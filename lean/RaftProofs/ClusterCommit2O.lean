import RaftProofs.ClusterCommit2N

/-!
Cluster-level commit safety, part 2O: `call_src` — the commit index over one call of the node.
-/
namespace RaftModel
namespace Raft
namespace CC
open Node CV RaftProps.C04

theorem enableGroupCommit_cle {r r' : Raft} {b : Bool} (h : r.enableGroupCommit b = .ok r') :
    r.raftLog.committed ≤ r'.raftLog.committed := by
  have h0 : CP (fun x => r.raftLog.committed ≤ x) r := ⟨Nat.le_refl _⟩
  unfold Raft.enableGroupCommit at h
  have : CP (fun x => r.raftLog.committed ≤ x) r' := by
    c04_auto h [maybeCommit_cle, bcastAppend_cp]
  exact this.h

theorem assignCommitGroups_cle {r r' : Raft} {ids : List (Nat × Nat)}
    (h : r.assignCommitGroups ids = .ok r') : r.raftLog.committed ≤ r'.raftLog.committed := by
  unfold Raft.assignCommitGroups at h
  simp only at h
  obtain ⟨r1, h1, h⟩ := Res.bind_eq_ok h
  have key : ∀ (ids : List (Nat × Nat)) (acc : Res Raft) (r1 : Raft),
      (∀ x, acc = .ok x → x.raftLog.committed = r.raftLog.committed) →
      ids.foldl (fun (acc : Res Raft) (p : Nat × Nat) =>
        acc.bind (fun r =>
          if p.2 = 0 then .panic "raft.assign_commit_groups.assert"
          else .ok (r.modifyProgress p.1 (fun pr => { pr with commitGroupId := p.2 })))) acc
        = .ok r1 →
      r1.raftLog.committed = r.raftLog.committed := by
    intro ids
    induction ids with
    | nil => intro acc r1 hacc hf; exact hacc r1 hf
    | cons p ps ih =>
      intro acc r1 hacc hf
      rw [List.foldl_cons] at hf
      refine ih _ r1 ?_ hf
      intro x hx
      obtain ⟨y, hy, hx⟩ := Res.bind_eq_ok hx
      split at hx
      · cases hx
      · cases hx
        exact hacc y hy
  have k1 := key ids (.ok r) r1 (fun x hx => by cases hx; rfl) h1
  have h0 : CP (fun x => r.raftLog.committed ≤ x) r1 := ⟨by rw [k1]; exact Nat.le_refl _⟩
  have : CP (fun x => r.raftLog.committed ≤ x) r' := by
    c04_auto h [maybeCommit_cle, bcastAppend_cp]
  exact this.h

theorem applyConfChange_src {r r' : Raft} {cc : ConfChangeV2} {res : Except ErrKind ConfState}
    (h : r.applyConfChange cc = .ok (r', res)) :
    r'.raftLog.committed = r.raftLog.committed ∨ r'.state = .leader ∨ r.state ≠ .leader := by
  unfold Raft.applyConfChange at h
  simp only at h
  split at h
  · cases h; exact .inl rfl
  · obtain ⟨⟨r1, cs⟩, h1, h⟩ := Res.bind_eq_ok h
    cases h
    rcases Res.Post.of_eq (postConfChange_cases _) h1 with ⟨_, _, e⟩ | e | ⟨r2, hf, e⟩
    · left
      have e' : r1 = _ := e
      rw [e', becomeFollower_committed]
    · left
      have e' : r1 = _ := e
      rw [e']
    · by_cases hs : r.state = .leader
      · right; left
        have e' : r1 = _ := e
        have h2 : r2.state = .leader := hf.state.trans hs
        rw [e']
        split
        · split
          · exact h2
          · exact h2
        · exact h2
      · exact .inr (.inr hs)

/-- the shape of the conclusion of `call_src` -/
def Src (st st' : NState) (op : NodeOp) : Prop :=
  st.raft.raftLog.committed ≤ st'.raft.raftLog.committed ∧
  (st'.raft.raftLog.committed = st.raft.raftLog.committed ∨ st'.raft.state = .leader ∨
    ∃ m r1, op = .step m ∧ LS st.raft r1 ∧
      CommitEvidence r1.raftLog m st'.raft.raftLog.committed ∧ VRecv m st'.raft)

theorem Src.of_eq {st st' : NState} {op : NodeOp}
    (h : st'.raft.raftLog.committed = st.raft.raftLog.committed) : Src st st' op :=
  ⟨Nat.le_of_eq h.symm, .inl h⟩

/-- a call whose effect keeps the role, commits only as leader, and never un-commits -/
theorem Src.of_nl {st st' : NState} {op : NodeOp}
    (hle : st.raft.raftLog.committed ≤ st'.raft.raftLog.committed)
    (hst : st'.raft.state = st.raft.state)
    (hnl : st.raft.state ≠ .leader → st'.raft.raftLog.committed = st.raft.raftLog.committed) :
    Src st st' op := by
  refine ⟨hle, ?_⟩
  by_cases hs : st.raft.state = .leader
  · exact .inr (.inl (hst.trans hs))
  · exact .inl (hnl hs)

/-- **the commit index over one call** -/
theorem call_src (st st' : NState) (rnd : Option Nat) (op : NodeOp) (res : OpRes)
    (hinv : st.raft.raftLog.Inv) (hop : op ≠ .drain ∧ ∀ m, op ≠ .rstep m)
    (hc : ∀ k, op ≠ .compact k) (hsn : st.raft.raftLog.unstable.snapshot = none)
    (h : Node.call st rnd op = .ok (res, st')) : Src st st' op := by
  unfold Node.call at h
  have hinv' : ({ st.raft with nextRand := rnd } : Raft).raftLog.Inv := hinv
  have ofEq : ∀ {r : Raft},
      r.raftLog.committed = ({ st.raft with nextRand := rnd } : Raft).raftLog.committed →
      st'.raft = r → Src st st' op := fun he hr => Src.of_eq (by rw [hr]; exact he)
  cases op with
  | tick =>
    simp only [applyOp] at h
    split at h
    · rename_i raft b heq
      cases h
      exact ofEq (tick_ceq heq) rfl
    · cases h
    · cases h
  | step m =>
    simp only [applyOp] at h
    obtain ⟨raft, e, hx, hr⟩ := unitRes_ok h
    unfold RawNode.step at hx
    split at hx
    · cases hx; exact ofEq rfl hr
    · split at hx
      · rcases step_src hinv' hx with c | ⟨hlt, ⟨_, c, _⟩ | ⟨r1, c1, _, c3, c4⟩⟩
        · exact ofEq c hr
        · refine ⟨by rw [hr]; exact Nat.le_of_lt hlt, .inr (.inl (by rw [hr]; exact c))⟩
        · refine ⟨by rw [hr]; exact Nat.le_of_lt hlt, .inr (.inr ⟨m, r1, rfl, c1, ?_, ?_⟩)⟩
          · rw [hr]; exact c3
          · rw [hr]; exact c4
      · cases hx; exact ofEq rfl hr
  | rstep m => exact absurd rfl (hop.2 m)
  | propose c d =>
    simp only [applyOp] at h
    obtain ⟨raft, e, hx, hr⟩ := unitRes_ok h
    exact ofEq (step_quiet_ceq (quiet_of (by intro hc; cases hc) (by intro hc; cases hc)
      (by intro hc; cases hc) rfl (by intro hc; cases hc) (by intro hc; cases hc)) hx) hr
  | proposeCc t c d =>
    simp only [applyOp] at h
    obtain ⟨raft, e, hx, hr⟩ := unitRes_ok h
    exact ofEq (step_quiet_ceq (quiet_of (by intro hc; cases hc) (by intro hc; cases hc)
      (by intro hc; cases hc) rfl (by intro hc; cases hc) (by intro hc; cases hc)) hx) hr
  | readIndex c =>
    simp only [applyOp] at h
    obtain ⟨raft, hx, hr⟩ := okRes_ok h
    exact ofEq (stepIgnore_quiet_ceq (quiet_of (by intro hc; cases hc) (by intro hc; cases hc)
      (by intro hc; cases hc) rfl (by intro hc; cases hc) (by intro hc; cases hc)) hx) hr
  | transferLeader x =>
    simp only [applyOp] at h
    obtain ⟨raft, hx, hr⟩ := okRes_ok h
    exact ofEq (stepIgnore_quiet_ceq (quiet_of (by intro hc; cases hc) (by intro hc; cases hc)
      (by intro hc; cases hc) rfl (by intro hc; cases hc) (by intro hc; cases hc)) hx) hr
  | campaign =>
    simp only [applyOp] at h
    obtain ⟨raft, e, hx, hr⟩ := unitRes_ok h
    exact ofEq (step_quiet_ceq (quiet_of (by intro hc; cases hc) (by intro hc; cases hc)
      (by intro hc; cases hc) rfl (by intro hc; cases hc) (by intro hc; cases hc)) hx) hr
  | ping =>
    simp only [applyOp] at h
    obtain ⟨raft, hx, hr⟩ := okRes_ok h
    have h0 : CP (fun x => x = st.raft.raftLog.committed) ({ st.raft with nextRand := rnd } : Raft) :=
      ⟨rfl⟩
    have : CP (fun x => x = st.raft.raftLog.committed) raft := by
      unfold RawNode.ping Raft.ping at hx
      c04_auto hx [bcastHeartbeat_cp]
    exact ofEq this.h hr
  | requestSnapshot =>
    simp only [applyOp] at h
    obtain ⟨raft, e, hx, hr⟩ := unitRes_ok h
    have h0 : CP (fun x => x = st.raft.raftLog.committed) ({ st.raft with nextRand := rnd } : Raft) :=
      ⟨rfl⟩
    have : CP (fun x => x = st.raft.raftLog.committed) raft := by
      unfold RawNode.requestSnapshot Raft.requestSnapshot at hx
      c04_auto hx [sendRequestSnapshot_cp]
    exact ofEq this.h hr
  | reportUnreachable x =>
    simp only [applyOp] at h
    obtain ⟨raft, hx, hr⟩ := okRes_ok h
    exact ofEq (stepIgnore_quiet_ceq (quiet_of (by intro hc; cases hc) (by intro hc; cases hc)
      (by intro hc; cases hc) rfl (by intro hc; cases hc) (by intro hc; cases hc)) hx) hr
  | reportSnapshot x f =>
    simp only [applyOp] at h
    obtain ⟨raft, hx, hr⟩ := okRes_ok h
    exact ofEq (stepIgnore_quiet_ceq (quiet_of (by intro hc; cases hc) (by intro hc; cases hc)
      (by intro hc; cases hc) rfl (by intro hc; cases hc) (by intro hc; cases hc)) hx) hr
  | applyConfChange cc =>
    simp only [applyOp] at h
    split at h
    · rename_i raft cs heq
      cases h
      have hm := C04_commit_monotone_applyConfChange _ _ cc _ heq
      refine ⟨hm, ?_⟩
      rcases applyConfChange_src heq with c | c | c
      · exact .inl c
      · exact .inr (.inl c)
      · have := applyConfChange_nl (r := ({ st.raft with nextRand := rnd } : Raft)) c heq
        exact .inl this
    · rename_i raft e heq
      cases h
      have hm := C04_commit_monotone_applyConfChange _ _ cc _ heq
      refine ⟨hm, ?_⟩
      rcases applyConfChange_src heq with c | c | c
      · exact .inl c
      · exact .inr (.inl c)
      · have := applyConfChange_nl (r := ({ st.raft with nextRand := rnd } : Raft)) c heq
        exact .inl this
    · cases h
    · cases h
  | stabilize =>
    simp only [applyOp] at h
    obtain ⟨L, e1, e2, _⟩ := stabilize_shape h
    exact Src.of_eq (by rw [e1]; exact e2)
  | onPersistEntries i t =>
    simp only [applyOp] at h
    obtain ⟨raft, hx, hr⟩ := okRes_ok h
    have hvf := Res.Post.of_eq (onPersistEntries_vf _ _ _) hx
    have a1 := C04_commit_monotone_onPersistEntries _ _ i t hx
    have a2 := hvf.state
    have a3 := fun hs => onPersistEntries_nl (r := ({ st.raft with nextRand := rnd } : Raft)) hs hx
    exact Src.of_nl (by rw [hr]; exact a1) (by rw [hr]; exact a2)
      (fun hs => by rw [hr]; exact a3 hs)
  | persistSnap =>
    simp only [applyOp] at h
    unfold Node.persistSnap at h
    simp only [] at h
    have hsn' : ({ st.raft with nextRand := rnd } : Raft).raftLog.unstable.snapshot = none := hsn
    rw [hsn'] at h
    simp only [] at h
    cases h
    exact Src.of_eq rfl
  | commitApply k =>
    simp only [applyOp, Node.commitApply] at h
    split at h
    · rename_i r2 hb
      rw [Res.bind_eq_ok_iff] at hb
      obtain ⟨r1, h1, h2⟩ := hb
      have e1 : r1.raftLog = ({ st.raft with nextRand := rnd } : Raft).raftLog := by
        split at h1
        · split at h1
          · cases h1
            unfold Raft.reduceUncommittedSize
            split <;> rfl
          · cases h1; rfl
          · cases h1
        · cases h1; rfl
      have e2 := C04_commitApply_keeps_commit r1 r2 k h2
      cases h
      refine Src.of_eq ?_
      split
      · show r2.raftLog.committed = _; rw [e2, e1]
      · show r2.raftLog.committed = _; rw [e2, e1]
    · cases h
    · cases h
  | compact k => exact absurd rfl (hc k)
  | drain => exact absurd rfl hop.1
  | triggerSnap =>
    simp only [applyOp] at h
    cases h; exact Src.of_eq rfl
  | triggerLog b =>
    simp only [applyOp] at h
    cases h; exact Src.of_eq rfl
  | setPriority p =>
    simp only [applyOp] at h
    cases h; exact Src.of_eq rfl
  | setBatchAppend b =>
    simp only [applyOp] at h
    cases h; exact Src.of_eq rfl
  | skipBcastCommit b =>
    simp only [applyOp] at h
    cases h; exact Src.of_eq rfl
  | setCheckQuorum b =>
    simp only [applyOp] at h
    cases h; exact Src.of_eq rfl
  | adjustMaxInflight id cap =>
    simp only [applyOp] at h
    obtain ⟨raft, hx, hr⟩ := okRes_ok h
    have : raft.raftLog = ({ st.raft with nextRand := rnd } : Raft).raftLog := by
      unfold Raft.adjustMaxInflightMsgs at hx
      split at hx
      · cases hx; rfl
      · split at hx
        · cases hx; rfl
        · cases hx
    exact ofEq (by rw [this]) hr
  | maybeFreeInflightBuffers =>
    simp only [applyOp] at h
    cases h; exact Src.of_eq rfl
  | enableGroupCommit b =>
    simp only [applyOp] at h
    obtain ⟨raft, hx, hr⟩ := okRes_ok h
    have hvf := Res.Post.of_eq (enableGroupCommit_vf _ _) hx
    have a1 := enableGroupCommit_cle hx
    have a2 := hvf.state
    have a3 := fun hs => enableGroupCommit_nl (r := ({ st.raft with nextRand := rnd } : Raft)) hs hx
    exact Src.of_nl (by rw [hr]; exact a1) (by rw [hr]; exact a2)
      (fun hs => by rw [hr]; exact a3 hs)
  | assignCommitGroups v =>
    simp only [applyOp] at h
    obtain ⟨raft, hx, hr⟩ := okRes_ok h
    have hvf := Res.Post.of_eq (assignCommitGroups_vf _ _) hx
    have a1 := assignCommitGroups_cle hx
    have a2 := hvf.state
    have a3 := fun hs => assignCommitGroups_nl (r := ({ st.raft with nextRand := rnd } : Raft)) hs hx
    exact Src.of_nl (by rw [hr]; exact a1) (by rw [hr]; exact a2)
      (fun hs => by rw [hr]; exact a3 hs)
  | clearCommitGroup =>
    simp only [applyOp] at h
    cases h; exact Src.of_eq rfl
  | checkGroupCommitConsistent =>
    simp only [applyOp] at h
    split at h
    · cases h; exact Src.of_eq rfl
    · cases h; exact Src.of_eq rfl
    · cases h
    · cases h
  | setMaxApplyUnpersistedLogLimit x =>
    simp only [applyOp] at h
    cases h; exact Src.of_eq rfl
  | setMaxCommittedSizePerReady x =>
    simp only [applyOp] at h
    cases h; exact Src.of_eq rfl
  | onEntriesFetched to term aggr =>
    rcases onEntriesFetched_ok h with h | ⟨-, -, -, raft, hx, h⟩
    · cases h; exact Src.of_eq rfl
    · cases h
      have h0 : CP (fun x => x = st.raft.raftLog.committed) ({ st.raft with nextRand := rnd } : Raft) :=
        ⟨rfl⟩
      rcases hx with hx | hx
      · exact ofEq (sendAppendAggressively_cp hx h0).h rfl
      · exact ofEq (sendAppend_cp hx h0).h rfl

end CC
end Raft
end RaftModel
