import RaftModel.Inflights

/-!
Helper lemmas for C18: the ring-buffer invariant, absence of panics, and the refinement of every
ring operation to the FIFO specification.
-/
namespace RaftModel
namespace Inflights

/-- position of the `k`-th oldest element in the ring (the code's "increase index and maybe rotate") -/
def widx (s : Inflights) (k : Nat) : Nat :=
  if s.cap ≤ s.start + k then s.start + k - s.cap else s.start + k

/-- `contents` with the modulus spelled as the conditional subtraction the code performs -/
def items (s : Inflights) : List Nat :=
  (List.range s.count).map fun k => (s.buffer[s.widx k]?).getD 0

structure Inv (s : Inflights) : Prop where
  count_le : s.count ≤ s.cap
  start_lt : s.start < s.cap ∨ s.start = 0
  len_le : s.buffer.length ≤ s.cap
  noWrap : s.start + s.count ≤ s.cap → s.start + s.count ≤ s.buffer.length
  wrap : s.cap < s.start + s.count → s.buffer.length = s.cap
  pend : ∀ c, s.incomingCap = some c → 0 < s.count ∧ c < s.cap
  unalloc : s.alloc = false → s.buffer = []

theorem widx_eq_mod (s : Inflights) (k : Nat) (hs : s.start < s.cap) (hk : k ≤ s.cap) :
    s.widx k = (s.start + k) % s.cap := by
  unfold widx
  split
  · rename_i h
    by_cases h2 : s.start + k - s.cap < s.cap
    · have : s.start + k = (s.start + k - s.cap) + s.cap := by omega
      rw [this, Nat.add_mod_right, Nat.mod_eq_of_lt h2]
      omega
    · omega
  · rw [Nat.mod_eq_of_lt (by omega)]

theorem items_eq_contents (s : Inflights) (h : Inv s) : s.items = s.contents := by
  unfold items contents
  apply List.map_congr_left
  intro k hk
  have hk' : k < s.count := by simpa using hk
  have hc := h.count_le
  rcases h.start_lt with hs | hs
  · rw [widx_eq_mod s k hs (by omega)]
  · have : s.widx k = (s.start + k) % s.cap := by
      have hk2 : k < s.cap := by omega
      unfold widx; rw [hs]; simp only [Nat.zero_add]
      rw [Nat.mod_eq_of_lt hk2, if_neg (by omega)]
    rw [this]

@[simp] theorem items_length (s : Inflights) : s.items.length = s.count := by
  simp [items]

theorem items_getElem? (s : Inflights) (k : Nat) :
    s.items[k]? = if k < s.count then some ((s.buffer[s.widx k]?).getD 0) else none := by
  unfold items
  simp only [List.getElem?_map]
  by_cases hk : k < s.count
  · simp [hk]
  · simp [hk]

theorem widx_lt (s : Inflights) (h : Inv s) (k : Nat) (hk : k < s.count) :
    s.widx k < s.buffer.length := by
  have h1 := h.count_le; have h2 := h.start_lt; have h3 := h.len_le
  have h4 := h.noWrap; have h5 := h.wrap
  unfold widx
  split <;> omega

theorem inv_new (c : Nat) : Inv (new c) := by
  constructor <;> simp [new]

/-- abstraction function: what the ring means as a FIFO -/
def abs (s : Inflights) : Fifo := { items := s.items, cap := s.cap, pending := s.incomingCap }

theorem full_abs (s : Inflights) : s.full = s.abs.full := by
  simp [full, Fifo.full, abs]

/-- two rings with the same count whose slots agree on the window have the same items -/
theorem items_congr (s t : Inflights) (hc : t.count = s.count)
    (h : ∀ k, k < s.count → (t.buffer[t.widx k]?).getD 0 = (s.buffer[s.widx k]?).getD 0) :
    t.items = s.items := by
  apply List.ext_getElem?
  intro k
  rw [items_getElem?, items_getElem?, hc]
  by_cases hk : k < s.count
  · simp only [hk, if_true]; rw [h k hk]
  · simp [hk]

theorem reset_refines (s : Inflights) (_h : Inv s) :
    Inv s.reset ∧ s.reset.abs = s.abs.reset := by
  refine ⟨?_, ?_⟩
  · constructor <;> simp [reset]
  · simp [reset, abs, Fifo.reset, items]

theorem maybeFreeBuffer_refines (s : Inflights) (h : Inv s) :
    Inv s.maybeFreeBuffer ∧ s.maybeFreeBuffer.abs = s.abs := by
  unfold maybeFreeBuffer
  split
  · rename_i hc
    refine ⟨?_, ?_⟩
    · constructor <;> simp [hc]
      intro c hcc; have := h.pend c hcc; omega
    · simp [abs, items, hc]
  · exact ⟨h, rfl⟩

theorem items_eq_nil_iff (s : Inflights) : s.items = [] ↔ s.count = 0 := by
  rw [← List.length_eq_zero_iff, items_length]

theorem setCap_refines (s : Inflights) (h : Inv s) (n : Nat) :
    ∃ s', s.setCap n = .ok s' ∧ Inv s' ∧ s'.abs = s.abs.setCap n := by
  have h1 := h.count_le; have h2 := h.start_lt; have h3 := h.len_le
  have h4 := h.noWrap; have h5 := h.wrap
  unfold setCap
  by_cases hcn : s.cap = n
  · rw [if_pos hcn]
    refine ⟨_, rfl, ?_, ?_⟩
    · constructor <;> simp <;> first | assumption | exact h.unalloc | omega
    · have : s.abs.cap ≤ n := by simp [abs]; omega
      simp only [Fifo.setCap, if_pos this]
      simp [abs, hcn, items, widx]
  · rw [if_neg hcn]
    by_cases hlt : s.cap < n
    · rw [if_pos hlt]
      have hle : s.abs.cap ≤ n := by simp [abs]; omega
      by_cases hw : s.start + s.count ≤ s.cap
      · rw [if_pos hw]
        refine ⟨_, rfl, ?_, ?_⟩
        · constructor <;> simp <;> first | exact h.unalloc | omega
        · simp only [Fifo.setCap, if_pos hle]
          simp only [abs, Fifo.mk.injEq, and_true]
          apply items_congr
          · rfl
          · intro k hk
            have : widx { s with cap := n, incomingCap := none } k = s.widx k := by
              simp only [widx]
              rw [if_neg (by omega), if_neg (by omega)]
            rw [this]
      · rw [if_neg hw]
        have hlen : s.buffer.length = s.cap := h5 (by omega)
        have hst : s.start < s.cap := by omega
        rw [if_neg (by omega), if_neg (by omega), if_neg (by omega), if_neg (by omega),
          if_neg (by omega)]
        refine ⟨_, rfl, ?_, ?_⟩
        · constructor <;> simp <;> omega
        · simp only [Fifo.setCap, if_pos hle]
          simp only [abs, Fifo.mk.injEq, and_true]
          apply items_congr
          · rfl
          · intro k hk
            simp only [widx, Nat.zero_add]
            rw [if_neg (by omega)]
            by_cases hk2 : k < s.cap - s.start
            · rw [if_neg (by omega)]
              rw [List.getElem?_append_left (by simp; omega), List.getElem?_drop]
            · rw [if_pos (by omega)]
              rw [List.getElem?_append_right (by simp; omega), List.getElem?_take]
              simp only [List.length_drop]
              rw [if_pos (by omega)]
              congr 2
              omega
    · rw [if_neg hlt]
      have hnle : ¬ s.abs.cap ≤ n := by simp [abs]; omega
      by_cases hc0 : s.count = 0
      · rw [if_pos hc0]
        refine ⟨_, rfl, ?_, ?_⟩
        · cases ha : s.alloc
          · have hb := h.unalloc ha
            constructor <;> simp [hc0, hb]
          · constructor <;> simp [hc0]
        · have : s.abs.items = [] := by simp [abs, items_eq_nil_iff, hc0]
          simp only [Fifo.setCap, if_neg hnle, if_pos this]
          simp [abs, items, hc0]
      · rw [if_neg hc0]
        refine ⟨_, rfl, ?_, ?_⟩
        · constructor <;> simp <;> first | exact h.unalloc | omega
        · have : ¬ s.abs.items = [] := by simp [abs, items_eq_nil_iff, hc0]
          simp only [Fifo.setCap, if_neg hnle, if_neg this]
          simp [abs, items, widx]

theorem add_full (s : Inflights) (x : Nat) (hf : s.full = true) :
    s.add x = .error "inflights.add.full" := by
  simp [add, hf]

theorem not_full_lt (s : Inflights) (h : Inv s) (hf : s.full = false) : s.count < s.cap := by
  have h1 := h.count_le
  simp only [full, Bool.or_eq_false_iff, beq_eq_false_iff_ne] at hf
  omega

theorem widx_cases (s : Inflights) (k : Nat) :
    (s.cap ≤ s.start + k ∧ s.widx k = s.start + k - s.cap) ∨
    (s.start + k < s.cap ∧ s.widx k = s.start + k) := by
  unfold widx; split
  · left; exact ⟨by assumption, rfl⟩
  · right; exact ⟨by omega, rfl⟩

/-- the state `add` produces when it does not panic -/
def put (s : Inflights) (x : Nat) : Inflights :=
  { s with
    buffer := if s.widx s.count = s.buffer.length then s.buffer ++ [x]
              else s.buffer.set (s.widx s.count) x,
    count := s.count + 1,
    alloc := if s.alloc then true else decide (0 < s.cap) }

theorem put_widx (s : Inflights) (x k : Nat) : (s.put x).widx k = s.widx k := rfl

theorem add_eq_put (s : Inflights) (h : Inv s) (x : Nat) (hf : s.full = false) :
    s.add x = .ok (s.put x) := by
  have h1 := h.count_le; have h2 := h.start_lt; have h3 := h.len_le
  have h4 := h.noWrap; have h5 := h.wrap
  have hlt := not_full_lt s h hf
  have hbuf : (if s.alloc then s.buffer else []) = s.buffer := by
    cases ha : s.alloc
    · simp [h.unalloc ha]
    · simp
  have hdbg : (!s.alloc && (s.count ≠ 0 || s.start ≠ 0 || s.incomingCap.isSome)) = false := by
    cases ha : s.alloc
    · have hb := h.unalloc ha
      rw [hb] at h4 h5 h3
      simp only [List.length_nil] at h4 h5 h3
      have hc : s.count = 0 := by omega
      have hs : s.start = 0 := by omega
      have hi : s.incomingCap = none := by
        cases hic : s.incomingCap with
        | none => rfl
        | some c => have := (h.pend c hic).1; omega
      simp [hc, hs, hi]
    · simp
  unfold add
  rw [hf, hdbg]
  simp only [Bool.false_eq_true, if_false, hbuf]
  have hnext : (if s.cap ≤ s.start + s.count then s.start + s.count - s.cap else s.start + s.count)
      = s.widx s.count := rfl
  rw [hnext]
  have hnl : s.widx s.count ≤ s.buffer.length := by
    rcases widx_cases s s.count with ⟨a, b⟩ | ⟨a, b⟩ <;> omega
  rw [if_neg (by omega)]
  rfl

theorem put_inv (s : Inflights) (h : Inv s) (x : Nat) (hlt : s.count < s.cap) : Inv (s.put x) := by
  have h1 := h.count_le; have h2 := h.start_lt; have h3 := h.len_le
  have h4 := h.noWrap; have h5 := h.wrap
  have hw := widx_cases s s.count
  have hlen : (s.put x).buffer.length =
      if s.widx s.count = s.buffer.length then s.buffer.length + 1 else s.buffer.length := by
    simp only [put]; split <;> simp
  constructor
  · simp [put]; omega
  · exact h2
  · rw [hlen]; simp only [put]; split <;> omega
  · rw [hlen]; simp only [put]; split <;> omega
  · rw [hlen]; simp only [put]; split <;> omega
  · intro c hc; have := h.pend c hc; simp [put]; omega
  · simp only [put]; intro ha
    split at ha
    · simp at ha
    · simp only [decide_eq_false_iff_not] at ha; omega

theorem put_items (s : Inflights) (h : Inv s) (x : Nat) (hlt : s.count < s.cap) :
    (s.put x).items = s.items ++ [x] := by
  have h1 := h.count_le; have h2 := h.start_lt; have h3 := h.len_le
  have h4 := h.noWrap; have h5 := h.wrap
  have hw := widx_cases s s.count
  have hnl : s.widx s.count ≤ s.buffer.length := by omega
  apply List.ext_getElem?
  intro k
  rw [items_getElem?, List.getElem?_append, items_length, put_widx]
  have hcnt : (s.put x).count = s.count + 1 := rfl
  rw [hcnt]
  by_cases hk : k < s.count
  · rw [if_pos (by omega), if_pos hk, items_getElem?, if_pos hk]
    have hkl := widx_lt s h k hk
    have hne : s.widx s.count ≠ s.widx k := by
      rcases widx_cases s k with ⟨a, b⟩ | ⟨a, b⟩ <;> omega
    simp only [put]
    split
    · rw [List.getElem?_append_left hkl]
    · rw [List.getElem?_set_ne hne]
  · by_cases hk2 : k = s.count
    · subst hk2
      rw [if_pos (by omega), if_neg (by omega)]
      simp only [Nat.sub_self, List.getElem?_cons_zero, put]
      split
      · rename_i he
        rw [he, List.getElem?_append_right (by omega)]; simp
      · rw [List.getElem?_set_self (by omega)]; simp
    · rw [if_neg (by omega), if_neg hk]
      rw [List.getElem?_eq_none (by simp; omega)]

theorem add_refines (s : Inflights) (h : Inv s) (x : Nat) (hf : s.full = false) :
    ∃ s', s.add x = .ok s' ∧ Inv s' ∧ s'.abs = s.abs.add x := by
  have hlt := not_full_lt s h hf
  refine ⟨_, add_eq_put s h x hf, put_inv s h x hlt, ?_⟩
  simp only [abs, Fifo.add, put_items s h x hlt]
  rfl

theorem buffer_at (s : Inflights) (h : Inv s) (k : Nat) (hk : k < s.count) :
    s.buffer[s.widx k]? = some ((s.buffer[s.widx k]?).getD 0) := by
  have := widx_lt s h k hk
  simp [List.getElem?_eq_getElem this]

theorem items_drop (s : Inflights) (i : Nat) (hi : i < s.count) :
    s.items.drop i = (s.buffer[s.widx i]?).getD 0 :: s.items.drop (i + 1) := by
  have hl : i < s.items.length := by simpa using hi
  rw [List.drop_eq_getElem_cons hl]
  congr 1
  have := items_getElem? s i
  rw [if_pos hi, List.getElem?_eq_getElem hl] at this
  exact Option.some.inj this

theorem widx_succ (s : Inflights) (h : Inv s) (i : Nat) (hi : i < s.count) :
    (if s.cap ≤ s.widx i + 1 then s.widx i + 1 - s.cap else s.widx i + 1) = s.widx (i + 1) := by
  have h1 := h.count_le; have h2 := h.start_lt
  rcases widx_cases s i with ⟨a, b⟩ | ⟨a, b⟩ <;>
    rcases widx_cases s (i + 1) with ⟨c, d⟩ | ⟨c, d⟩ <;> split <;> omega

theorem freeLoop_spec (s : Inflights) (h : Inv s) (to : Nat) :
    ∀ n i, i + n = s.count →
      freeLoop s.buffer s.cap to n (s.widx i) i =
        .ok (s.widx (i + ((s.items.drop i).takeWhile (fun b => decide (b ≤ to))).length),
             i + ((s.items.drop i).takeWhile (fun b => decide (b ≤ to))).length) := by
  intro n
  induction n with
  | zero =>
    intro i hi
    have : s.items.drop i = [] := by
      apply List.drop_of_length_le; simp; omega
    simp [freeLoop, this]
  | succ n ih =>
    intro i hi
    have hic : i < s.count := by omega
    simp only [freeLoop]
    rw [buffer_at s h i hic, items_drop s i hic]
    simp only
    by_cases hb : to < (s.buffer[s.widx i]?).getD 0
    · rw [if_pos hb]
      have : ¬ ((s.buffer[s.widx i]?).getD 0 ≤ to) := by omega
      simp [List.takeWhile_cons, this]
    · rw [if_neg hb, widx_succ s h i hic, ih (i + 1) (by omega)]
      have : (s.buffer[s.widx i]?).getD 0 ≤ to := by omega
      simp only [List.takeWhile_cons, this, decide_true, if_true, List.length_cons]
      have e : ∀ t, i + 1 + t = i + (t + 1) := by intro t; omega
      rw [e]

theorem dropWhile_eq_drop_takeWhile {α} (p : α → Bool) (l : List α) :
    l.dropWhile p = l.drop (l.takeWhile p).length := by
  induction l with
  | nil => rfl
  | cons a l ih =>
    by_cases ha : p a
    · simp [List.dropWhile_cons, List.takeWhile_cons, ha, ih]
    · simp [List.dropWhile_cons, List.takeWhile_cons, ha]

theorem takeWhile_length_le {α} (p : α → Bool) (l : List α) : (l.takeWhile p).length ≤ l.length := by
  induction l with
  | nil => simp
  | cons a l ih => simp only [List.takeWhile_cons]; split <;> simp <;> omega

/-- the state after freeing the `t` oldest elements (before a deferred capacity is applied) -/
def dropN (s : Inflights) (t : Nat) : Inflights := { s with count := s.count - t, start := s.widx t }

theorem dropN_inv (s : Inflights) (h : Inv s) (t : Nat) (ht : t ≤ s.count)
    (hp : s.incomingCap = none ∨ t < s.count) : Inv (s.dropN t) := by
  have h1 := h.count_le; have h2 := h.start_lt; have h3 := h.len_le
  have h4 := h.noWrap; have h5 := h.wrap
  have hw := widx_cases s t
  constructor
  · simp [dropN]; omega
  · simp only [dropN]; omega
  · exact h3
  · simp only [dropN]; omega
  · simp only [dropN]; omega
  · intro c hcc
    simp only [dropN] at hcc
    have := h.pend c hcc
    rcases hp with hp | hp
    · rw [hp] at hcc; cases hcc
    · simp only [dropN]; omega
  · exact h.unalloc

theorem dropN_items (s : Inflights) (h : Inv s) (t : Nat) (ht : t ≤ s.count) :
    (s.dropN t).items = s.items.drop t := by
  have h1 := h.count_le; have h2 := h.start_lt
  apply List.ext_getElem?
  intro k
  rw [items_getElem?, List.getElem?_drop, items_getElem?]
  have hc : (s.dropN t).count = s.count - t := rfl
  rw [hc]
  by_cases hk : k < s.count - t
  · rw [if_pos hk, if_pos (by omega)]
    have hw : (s.dropN t).widx k = s.widx (t + k) := by
      have e1 : (s.dropN t).widx k =
          if s.cap ≤ s.widx t + k then s.widx t + k - s.cap else s.widx t + k := rfl
      rw [e1]
      rcases widx_cases s t with ⟨a, b⟩ | ⟨a, b⟩ <;>
        rcases widx_cases s (t + k) with ⟨c, d⟩ | ⟨c, d⟩ <;> split <;> omega
    rw [hw]; rfl
  · rw [if_neg hk, if_neg (by omega)]

theorem freeTo_refines (s : Inflights) (h : Inv s) (to : Nat) :
    ∃ s', s.freeTo to = .ok s' ∧ Inv s' ∧ s'.abs = s.abs.freeTo to := by
  have h1 := h.count_le; have h2 := h.start_lt
  unfold freeTo
  by_cases hc0 : s.count = 0
  · rw [if_pos hc0]
    refine ⟨s, rfl, h, ?_⟩
    have hi : s.items = [] := (items_eq_nil_iff s).2 hc0
    have hp : s.incomingCap = none := by
      cases hic : s.incomingCap with
      | none => rfl
      | some c => have := (h.pend c hic).1; omega
    simp [abs, Fifo.freeTo, Fifo.drained, hi, hp]
  · rw [if_neg hc0]
    have hpos : 0 < s.count := by omega
    have hw0 : s.widx 0 = s.start := by
      rcases widx_cases s 0 with ⟨a, b⟩ | ⟨a, b⟩ <;> omega
    have hb0 := buffer_at s h 0 hpos
    rw [hw0] at hb0
    rw [hb0]
    simp only
    have hitems := items_drop s 0 hpos
    rw [hw0, List.drop_zero] at hitems
    by_cases hlt : to < (s.buffer[s.start]?).getD 0
    · rw [if_pos hlt]
      refine ⟨s, rfl, h, ?_⟩
      have : ¬ ((s.buffer[s.start]?).getD 0 ≤ to) := by omega
      simp only [abs, Fifo.freeTo]
      rw [hitems, List.dropWhile_cons]
      simp only [this, decide_false, Bool.false_eq_true, if_false]
      simp [Fifo.drained]
    · rw [if_neg hlt]
      have hloop := freeLoop_spec s h to s.count 0 (by omega)
      rw [hw0] at hloop
      rw [hloop]
      simp only [Nat.zero_add, List.drop_zero]
      generalize ht : (List.takeWhile (fun b => decide (b ≤ to)) s.items).length = t
      have htle : t ≤ s.count := by
        rw [← ht, ← items_length s]; exact takeWhile_length_le _ _
      have hdw : s.items.dropWhile (fun b => decide (b ≤ to)) = s.items.drop t := by
        rw [dropWhile_eq_drop_takeWhile, ht]
      have hd : ({ s with count := s.count - t, start := s.widx t } : Inflights) = s.dropN t := rfl
      rw [hd]
      have hcnt : (s.dropN t).count = s.count - t := rfl
      have hinc : (s.dropN t).incomingCap = s.incomingCap := rfl
      by_cases hz : s.count - t = 0
      · rw [if_pos hz]
        have hnil : s.items.drop t = [] := by
          apply List.drop_of_length_le; simp; omega
        cases hic : s.incomingCap with
        | none =>
          refine ⟨_, rfl, dropN_inv s h t htle (Or.inl hic), ?_⟩
          simp only [abs, Fifo.freeTo, hdw, dropN_items s h t htle, hnil, Fifo.drained, hinc, hic]
          rfl
        | some c =>
          refine ⟨_, rfl, ?_, ?_⟩
          · constructor <;> simp [hz]
          · simp only [abs, Fifo.freeTo, hdw, hnil, Fifo.drained, hic]
            simp [items, hz]
      · rw [if_neg hz]
        refine ⟨_, rfl, dropN_inv s h t htle (Or.inr (by omega)), ?_⟩
        have hne : s.items.drop t ≠ [] := by
          intro hh
          have := congrArg List.length hh
          simp at this; omega
        simp only [abs, Fifo.freeTo, hdw, dropN_items s h t htle, hinc]
        cases hdr : s.items.drop t with
        | nil => exact absurd hdr hne
        | cons a l => simp [Fifo.drained]; rfl

theorem freeFirstOne_refines (s : Inflights) (h : Inv s) :
    ∃ s', s.freeFirstOne = .ok s' ∧ Inv s' ∧ s'.abs = s.abs.freeFirstOne := by
  have h1 := h.count_le; have h2 := h.start_lt
  unfold freeFirstOne
  by_cases hc : 0 < s.count
  · rw [if_pos hc]
    have hw0 : s.widx 0 = s.start := by
      rcases widx_cases s 0 with ⟨a, b⟩ | ⟨a, b⟩ <;> omega
    have hb0 := buffer_at s h 0 hc
    rw [hw0] at hb0
    rw [hb0]
    simp only
    have hitems := items_drop s 0 hc
    rw [hw0, List.drop_zero] at hitems
    obtain ⟨s', e, i, a⟩ := freeTo_refines s h ((s.buffer[s.start]?).getD 0)
    refine ⟨s', e, i, ?_⟩
    rw [a]
    simp only [Fifo.freeFirstOne, abs]
    rw [hitems]
  · rw [if_neg hc]
    refine ⟨s, rfl, h, ?_⟩
    have hi : s.items = [] := (items_eq_nil_iff s).2 (by omega)
    simp [abs, Fifo.freeFirstOne, hi]

end Inflights
end RaftModel
