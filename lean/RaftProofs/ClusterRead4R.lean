import RaftProofs.ClusterRead4P
import RaftProofs.ClusterRead4Q

/-!
Cluster-level ReadIndex safety for **forwarded** reads, part 4R: the concrete history `c08z_hist`
satisfies the WHOLE bundle `RdHypF` — `once`, `uniqc` and `nonempty` are discharged with the decidable
necessary conditions of part 4Q evaluated on every step: step 16 is the only step that can be read as the
delivery of a `MsgReadIndex`, step 14 the only one that can be read as a `read_index` call (of `[9]`).
-/
namespace RaftModel
namespace Cluster
open Node Raft Raft.CC RaftProps.C02 RaftProps.C05

/-- a check on the step `h[n] → h[n+1]` -/
def stepChk (h : List Sys) (f : Sys → Sys → Bool) (n : Nat) : Bool :=
  match h[n]?, h[n + 1]? with
  | some a, some b => f a b
  | _, _ => false

theorem stepChk_eq {h : List Sys} {f : Sys → Sys → Bool} {n : Nat} {a b : Sys}
    (h1 : h[n]? = some a) (h2 : h[n + 1]? = some b) : stepChk h f n = f a b := by
  simp [stepChk, h1, h2]

theorem range_all {N : Nat} {p : Nat → Bool} (h : (List.range N).all p = true) {n : Nat}
    (hn : n < N) : p n = true :=
  List.all_eq_true.1 h n (List.mem_range.2 hn)

set_option maxRecDepth 1000000 in
/-- no step but step 16 can be read as the delivery of a `MsgReadIndex` -/
theorem c08z_dchk_all :
    (List.range 23).all (fun n => n == 16 || !stepChk c08z_hist R4.dChk n) = true := by decide

set_option maxRecDepth 1000000 in
/-- no step but step 14 can be read as a `read_index` call -/
theorem c08z_rchk_all :
    (List.range 23).all (fun n => n == 14 || !stepChk c08z_hist R4.rChk n) = true := by decide

theorem c08z_len : c08z_hist.length = 24 := by decide

theorem c08z_deliver_at {n k : Nat} {m : Message} (hty : m.msgType = .msgReadIndex)
    (hd : DeliverAt c08z_hist n k m) : n = 16 := by
  obtain ⟨a, b, h1, h2, hc⟩ := R4.dChk_of_deliver c08z_hyp3w c08z_safe hty hd
  have hn : n < 23 := by
    have := (List.getElem?_eq_some_iff.1 h2).1
    rw [c08z_len] at this
    omega
  have := range_all c08z_dchk_all hn
  simp only [stepChk_eq h1 h2, hc, Bool.not_true, Bool.or_false, beq_iff_eq] at this
  exact this

theorem c08z_call_step {n i : Nat} {K : Bytes} (hc : ReadCallAt c08z_hist n i K) : n = 14 := by
  obtain ⟨a, b, h1, h2, hc⟩ := R4.rChk_of_call c08z_hyp3w c08z_safe hc
  have hn : n < 23 := by
    have := (List.getElem?_eq_some_iff.1 h2).1
    rw [c08z_len] at this
    omega
  have := range_all c08z_rchk_all hn
  simp only [stepChk_eq h1 h2, hc, Bool.not_true, Bool.or_false, beq_iff_eq] at this
  exact this

set_option maxRecDepth 100000 in
/-- the `read_index` call of step 14 is `read_index([9])` -/
theorem c08z_call_ctx {i : Nat} {K : Bytes} (hc : ReadCallAt c08z_hist 14 i K) : K = c08y_K := by
  obtain ⟨a, b, st, st', rnd, res, h1, h2, h3, hcall, h5⟩ := hc
  have e1 : c08z_hist[14]? = some c01x_s14 := rfl
  have e2 : c08z_hist[14 + 1]? = some c08y_s15 := rfl
  rw [e1] at h1; cases h1
  rw [e2] at h2; cases h2
  have hh : c08y_s15.nodes.head? = some (i, st') := by rw [h5]; rfl
  have hh2 : c08y_s15.nodes.head? = some (2, c08y_b7) := rfl
  rw [hh2] at hh
  injection hh with hh
  injection hh with hi hst
  subst hi; subst hst
  have e3 : c01x_s14.node 2 = some c01x_b6 := rfl
  rw [e3] at h3; cases h3
  cases R4.call_riOut hcall with
  | frame hf => exact absurd hf.rd (by decide)
  | fwd _ _ _ hmsgs =>
    have m1 : c08y_b7.raft.msgs = [c08y_fwd] := by decide
    have m2 : c01x_b6.raft.msgs = [] := by decide
    rw [m1, m2] at hmsgs
    simp only [List.nil_append, List.cons.injEq, and_true] at hmsgs
    have q := (Raft.RD.R4.sendFill_ri c01x_b6.raft
      { msgType := .msgReadIndex, to := c01x_b6.raft.leaderId, entries := [{ data := K }] } rfl).2.1
    rw [← hmsgs] at q
    have q2 : c08y_fwd.entries = [{ data := c08y_K }] := by decide
    rw [q2] at q
    simp only [List.cons.injEq, and_true] at q
    exact (congrArg Entry.data q).symm
  | now hs => exact absurd hs (by decide)
  | reg hl _ _ _ _ _ => exact absurd hl (by decide)

/-- **the concrete history satisfies the whole bundle `RdHypF`** -/
theorem c08z_rdHypF : RdHypF c02x_cfg 0 c08z_hist :=
  { toHyp3w := c08z_hyp3w
    safe := c08z_safe
    once := fun n1 n2 _ _ hty d1 d2 => by
      rw [c08z_deliver_at hty d1, c08z_deliver_at hty d2]
    uniqc := fun n1 n2 _ _ _ c1 c2 => by
      rw [c08z_call_step c1, c08z_call_step c2]
    nonempty := fun n i K c => by
      have e := c08z_call_step c
      subst e
      rw [c08z_call_ctx c]
      decide }

end Cluster
end RaftModel
