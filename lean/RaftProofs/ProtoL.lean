import RaftProofs.ProtoVStep
import RaftProofs.ProtoQuorum
import RaftProofs.ProtoLog

/-!
The **log layer** of P: every list of entries that exists anywhere in the system (volatile and
durable logs, pending images, acknowledged prefixes, snapshots, append messages) is a
*prefix-from-leader* list with respect to the ghost leader logs `llog`; leaders' logs are the ghost
logs of their terms; ghost logs only grow by extension.  Consequence: Log Matching for every pair
of lists, in every reachable state.
-/
namespace RaftModel.P

/-- every list of entries held inside one node: logs, images, acknowledged prefixes (generated,
covered by an image, covered by the durable image), voters' logs recorded with generated grants -/
def nodeLists (n : PNode) (l : List LEntry) : Prop :=
  l = n.log ∨ l = n.dlog ∨
  (∃ im ∈ n.pending, l = im.log ∨ ∃ t f idx, OMsg.ack t f idx l ∈ im.acks) ∨
  (∃ t f idx, OMsg.ack t f idx l ∈ n.outbox) ∨
  (∃ t f idx, OMsg.ack t f idx l ∈ n.dacks) ∨
  (∃ t v c gh, OMsg.grant t v c gh ∈ n.outbox ∧ gh.vlog = l)

/-- every list of entries that exists in the system -/
def listsOf (s : PSys) (l : List LEntry) : Prop :=
  (∃ i, nodeLists (s.nodes i) l) ∨
  (∃ a ∈ s.acks, l = a.pre) ∨ (∃ m ∈ s.snaps, l = m.pre) ∨ (∃ t, l = s.llog t) ∨
  (∃ p ∈ s.rgv, l = p.2.vlog) ∨ (∃ t, l = s.elog t)

theorem listsOf_log (s : PSys) (i : Nat) : listsOf s (s.nodes i).log := Or.inl ⟨i, Or.inl rfl⟩
theorem listsOf_dlog (s : PSys) (i : Nat) : listsOf s (s.nodes i).dlog := Or.inl ⟨i, Or.inr (Or.inl rfl)⟩
theorem listsOf_acks (s : PSys) (a : Ack) (h : a ∈ s.acks) : listsOf s a.pre := Or.inr (Or.inl ⟨a, h, rfl⟩)
theorem listsOf_snap (s : PSys) (m : Snap) (h : m ∈ s.snaps) : listsOf s m.pre := Or.inr (Or.inr (Or.inl ⟨m, h, rfl⟩))
theorem listsOf_llog (s : PSys) (t : Nat) : listsOf s (s.llog t) := Or.inr (Or.inr (Or.inr (Or.inl ⟨t, rfl⟩)))

/-- a released append is a slice of the ghost log of its term, anchored in it -/
structure MsgOk (s : PSys) (m : App) : Prop where
  hl : ∃ j, (m.term, j) ∈ s.elected
  len : m.prev + m.es.length ≤ (s.llog m.term).length
  slice : m.es = ((s.llog m.term).drop m.prev).take m.es.length
  anchor : m.prevTerm = termAt (s.llog m.term) m.prev

structure InvL (s : PSys) : Prop where
  pfl : ∀ l, listsOf s l → PFL s.llog l
  msg : ∀ m ∈ s.apps, MsgOk s m
  lterm : ∀ t e, e ∈ s.llog t → 1 ≤ e.term ∧ e.term ≤ t
  nole : ∀ t, (∀ j, (t, j) ∉ s.elected) → s.llog t = []
  ll : ∀ i, (s.nodes i).role = 2 → (s.nodes i).log = s.llog (s.nodes i).term
  tle : ∀ i, (∀ e ∈ (s.nodes i).log, e.term ≤ (s.nodes i).term) ∧
             (∀ e ∈ (s.nodes i).dlog, e.term ≤ (s.nodes i).dterm) ∧
             (∀ im ∈ (s.nodes i).pending, ∀ e ∈ im.log, e.term ≤ im.term)
  stle : ∀ m ∈ s.snaps, ∀ e ∈ m.pre, e.term ≤ m.term
  cand : ∀ i, (s.nodes i).role = 1 → ((s.nodes i).term, i) ∉ s.elected
  pos : ∀ i, (s.nodes i).role ≠ 0 → 0 < (s.nodes i).term

theorem invL_init : InvL init := by
  constructor
  · intro l hl
    have : l = [] := by
      rcases hl with ⟨i, hn⟩ | ⟨a, ha, _⟩ | ⟨m, hm, _⟩ | ⟨t, h⟩ | ⟨p, hp, _⟩ | ⟨t, h⟩
      · rcases hn with h | h | ⟨im, him, _⟩ | ⟨t, f, idx, h⟩ | ⟨t, f, idx, h⟩ | ⟨t, v, c, gh, h, _⟩
        · simpa [init] using h
        · simpa [init] using h
        · simp [init] at him
        · simp [init] at h
        · simp [init] at h
        · simp [init] at h
      · simp [init] at ha
      · simp [init] at hm
      · simpa [init] using h
      · simp [init] at hp
      · simpa [init] using h
    rw [this]; exact PFL_nil _
  · intro m hm; simp [init] at hm
  · intro t e he; simp [init] at he
  · intro t _; rfl
  · intro i h; simp [init] at h
  · intro i; simp [init]
  · intro m hm; simp [init] at hm
  · intro i h; simp [init] at h
  · intro i h; simp [init] at h

/-- an entry of a PFL list has a positive term bounded by its own term's leader log -/
theorem pfl_term_pos {s : PSys} (h : InvL s) {l : List LEntry} (hl : PFL s.llog l) {e : LEntry}
    (he : e ∈ l) : 1 ≤ e.term := by
  obtain ⟨i, hi⟩ := List.getElem?_of_mem he
  have := PFL_mem hl i e hi
  exact (h.lterm e.term e (List.mem_of_getElem? this)).1

/-- **Log Matching** for any two lists of the system -/
theorem logMatching_of_invL {s : PSys} (h : InvL s) (l1 l2 : List LEntry) (h1 : listsOf s l1)
    (h2 : listsOf s l2) (k : Nat) (x y : LEntry) (hx : l1[k]? = some x) (hy : l2[k]? = some y)
    (ht : x.term = y.term) : l1.take (k + 1) = l2.take (k + 1) :=
  PFL_agree (h.pfl l1 h1) (h.pfl l2 h2) hx hy ht

/-! ### frame lemma: a step that does not touch the ghost logs and elections -/

theorem invL_node (s : PSys) (h : InvL s) (i : Nat) (n : PNode) (s' : PSys)
    (hn : s'.nodes = upd s.nodes i n) (hll : s'.llog = s.llog) (hel : s'.elected = s.elected)
    (helog : s'.elog = s.elog)
    (hacks : ∀ a ∈ s'.acks, a ∈ s.acks ∨ PFL s.llog a.pre)
    (hsn : ∀ m ∈ s'.snaps, m ∈ s.snaps ∨ (PFL s.llog m.pre ∧ ∀ e ∈ m.pre, e.term ≤ m.term))
    (happs : ∀ m ∈ s'.apps, m ∈ s.apps ∨ MsgOk s m)
    (hrgv : ∀ p ∈ s'.rgv, p ∈ s.rgv ∨ PFL s.llog p.2.vlog)
    (hnl : ∀ l, nodeLists n l → PFL s.llog l)
    (hlogt : ∀ e ∈ n.log, e.term ≤ n.term)
    (hdlogt : ∀ e ∈ n.dlog, e.term ≤ n.dterm)
    (hpend : ∀ im ∈ n.pending, ∀ e ∈ im.log, e.term ≤ im.term)
    (hrole : n.role = 2 → n.log = s.llog n.term)
    (hcand : n.role = 1 → (n.term, i) ∉ s.elected)
    (hpos : n.role ≠ 0 → 0 < n.term) : InvL s' := by
  have hnode : ∀ j, j ≠ i → s'.nodes j = s.nodes j := by intro j hj; rw [hn]; simp [upd, hj]
  have hnodei : s'.nodes i = n := by rw [hn]; simp [upd]
  constructor
  · intro l hl
    rw [hll]
    rcases hl with ⟨j, hj⟩ | ⟨a, ha, hj⟩ | ⟨m, hm, hj⟩ | ⟨t, hj⟩ | ⟨p, hp, hj⟩ | ⟨t, hj⟩
    · by_cases hji : j = i
      · subst hji; rw [hnodei] at hj; exact hnl l hj
      · rw [hnode j hji] at hj; exact h.pfl l (Or.inl ⟨j, hj⟩)
    · rcases hacks a ha with ha' | ha'
      · rw [hj]; exact h.pfl _ (listsOf_acks s a ha')
      · rw [hj]; exact ha'
    · rcases hsn m hm with hm' | hm'
      · rw [hj]; exact h.pfl _ (listsOf_snap s m hm')
      · rw [hj]; exact hm'.1
    · rw [hll] at hj; rw [hj]; exact h.pfl _ (listsOf_llog s t)
    · rcases hrgv p hp with hp' | hp'
      · exact h.pfl l (Or.inr (Or.inr (Or.inr (Or.inr (Or.inl ⟨p, hp', hj⟩)))))
      · rw [hj]; exact hp'
    · rw [helog] at hj; exact h.pfl l (Or.inr (Or.inr (Or.inr (Or.inr (Or.inr ⟨t, hj⟩)))))
  · intro m hm
    have : MsgOk s m := by
      rcases happs m hm with h1 | h1
      · exact h.msg m h1
      · exact h1
    exact ⟨by rw [hel]; exact this.hl, by rw [hll]; exact this.len, by rw [hll]; exact this.slice,
      by rw [hll]; exact this.anchor⟩
  · intro t e he; rw [hll] at he; exact h.lterm t e he
  · intro t ht; rw [hll]; rw [hel] at ht; exact h.nole t ht
  · intro j hr
    by_cases hji : j = i
    · subst hji; rw [hnodei] at hr ⊢; rw [hll]; exact hrole hr
    · rw [hnode j hji] at hr ⊢; rw [hll]; exact h.ll j hr
  · intro j
    by_cases hji : j = i
    · subst hji; rw [hnodei]
      exact ⟨hlogt, hdlogt, hpend⟩
    · rw [hnode j hji]; exact h.tle j
  · intro m hm
    rcases hsn m hm with hm' | hm'
    · exact h.stle m hm'
    · exact hm'.2
  · intro j hr
    rw [hel]
    by_cases hji : j = i
    · subst hji; rw [hnodei] at hr ⊢; exact hcand hr
    · rw [hnode j hji] at hr ⊢; exact h.cand j hr
  · intro j hr
    by_cases hji : j = i
    · subst hji; rw [hnodei] at hr ⊢; exact hpos hr
    · rw [hnode j hji] at hr ⊢; exact h.pos j hr

/-- every list inside node `i` is prefix-from-leader -/
theorem keep_node (s : PSys) (h : InvL s) (i : Nat) : ∀ l, nodeLists (s.nodes i) l → PFL s.llog l :=
  fun l hl => h.pfl l (Or.inl ⟨i, hl⟩)
theorem keep_log (s : PSys) (h : InvL s) (i : Nat) : PFL s.llog (s.nodes i).log := h.pfl _ (listsOf_log s i)
theorem keep_dlog (s : PSys) (h : InvL s) (i : Nat) : PFL s.llog (s.nodes i).dlog := h.pfl _ (listsOf_dlog s i)

end RaftModel.P
