import RaftProofs.ClusterCommit5c2G

/-!
Cluster-level commit safety **with `batch_append`** (copy of `ClusterCommit2H.lean` over `Hyp2wB`), part 2H: commit events bundled (`Ev`), and the vocabulary of the main
induction: a node has acknowledged an event (`AckedMem`, `AckedDur`), a vote request is at least
`(t, c)` (`UpTo`), a term was led (`LedBy`), a granted real vote (`isGrant`).
-/
namespace RaftModel
namespace ClusterB
open Node Raft Raft.CC Raft.CB Raft.Bt Cluster RaftProps.C02 RaftProps.C05

/-- a commit event, bundled -/
structure Ev where
  nE : Nat
  l : Nat
  t : Nat
  c : Nat
  gE : LLog
  pE : Nat

def Ev.ok (h : List Sys) (E : Ev) : Prop := CommitEv h E.nE E.l E.t E.c E.gE E.pE

/-- node `v` (state `st` in `s = h[n]`) has acknowledged the event's index for the event's term — the
response is in the transport or still queued —, or is the committing leader itself, after the event,
with the index persisted -/
def AckedMem (s : Sys) (n : Nat) (E : Ev) (v : Nat) (st : NState) : Prop :=
  (∃ a, (a ∈ s.net ∨ a ∈ st.raft.msgs) ∧ isAck a ∧ a.frm = v ∧ a.term = E.t ∧ E.c ≤ a.index) ∨
  (v = E.l ∧ E.nE < n ∧ E.c ≤ E.pE)

/-- … durably: the response is in the transport -/
def AckedDur (s : Sys) (n : Nat) (E : Ev) (v : Nat) : Prop :=
  (∃ a, a ∈ s.net ∧ isAck a ∧ a.frm = v ∧ a.term = E.t ∧ E.c ≤ a.index) ∨
  (v = E.l ∧ E.nE < n ∧ E.c ≤ E.pE)

theorem AckedDur.mem {s : Sys} {n : Nat} {E : Ev} {v : Nat} {st : NState} (h : AckedDur s n E v) :
    AckedMem s n E v st :=
  h.imp (fun ⟨a, h1, h2⟩ => ⟨a, .inl h1, h2⟩) (fun g => g)

/-- the request's `(log_term, index)` is at least `(t, c)` -/
def UpTo (q : Message) (c t : Nat) : Prop := t < q.logTerm ∨ (q.logTerm = t ∧ c ≤ q.index)

/-- some node leads term `T` in a state `h[m']`, `m' ≤ m` -/
def LedBy (h : List Sys) (m T : Nat) : Prop := ∃ m' s l, m' ≤ m ∧ h[m']? = some s ∧ leads s l T

/-- a granted real vote -/
def isGrant (g : Message) : Prop := g.msgType = .msgRequestVoteResponse ∧ g.reject = false

end ClusterB
end RaftModel
