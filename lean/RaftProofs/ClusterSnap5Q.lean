import RaftProofs.ClusterSnap5P

/-!
[Copy of `ClusterSnap2Q.lean` for the development `Snap5` (with `request_snapshot`): `NoReq` is replaced by
`ReqOk`, `SnapCase.restored` is widened — see `ClusterSnap5A.lean`, `RaftProps/C01i.lean`.]

Commit safety of `ClusterSem` with compaction and snapshots, part 2Q (as `ClusterSnapP`): the induction
steps for **retention in the storage** (`rets_step`) and for **the promise of an acknowledgement in the
storage** (`a2s_step`).
-/
namespace RaftModel
namespace Cluster
namespace Snap5
open Node Raft Raft.CC RaftProps.C02 RaftProps.C05 Snap

variable {cfg : JointConfig} {c0 : Nat} {h : List Sys}

theorem rets_step (H : Hyp3a cfg c0 h) {n : Nat} (S : SAll h c0 n) {a b : Sys}
    (ha : h[n]? = some a) (hb : h[n + 1]? = some b) :
    ∀ E : Ev, E.ok h → ∀ v st', b.node v = some st' → AckedDur b (n + 1) E v →
      Has (FS h c0 st') E.c E.t := by
  intro E hE v st' hvb hk
  have H2 := H.toHyp2w
  have Sa := S n a (Nat.le_refl _) ha
  obtain ⟨_, hEh, hc0⟩ := Ev.leaderLog H2 hE
  obtain ⟨k, stk, stk', hka, hkb, hoth, hs⟩ := H2.stp ha hb
  by_cases hvk : v = k
  · subst hvk
    have hkb' := hkb
    rw [hkb] at hvb; cases hvb
    have oa := node_ok H2 ha hka
    have ob := node_ok H2 hb hkb'
    -- in a step that is not a commit, `AckedDur` comes from before or from the queue
    have back : E.nE ≠ n → (∀ x ∈ b.net, x ∈ a.net ∨ x ∈ stk.raft.msgs) →
        AckedDur a n E v ∨ ∃ x ∈ stk.raft.msgs, isAck x ∧ x.frm = v ∧ x.term = E.t ∧ E.c ≤ x.index := by
      intro hne hnet
      rcases hk with ⟨x, hx, h2⟩ | ⟨h1, h2, h3⟩
      · rcases hnet x hx with c | c
        · exact .inl (.inl ⟨x, c, h2⟩)
        · exact .inr ⟨x, c, h2⟩
      · exact .inl (.inr ⟨h1, by omega, h3⟩)
    cases hs with
    | restart c rnd hboot hnet _ =>
      have hbt := CV.boot_booted c _ rnd st' hboot
      obtain ⟨_, _, hsl⟩ := boot_log c _ rnd st' oa.inv.storeWF hboot
      have hne : E.nE ≠ n := by
        refine not_ev_of_same hE ha hb (fun w sta stb hwa hwb hl => ?_)
        by_cases hw : w = v
        · subst hw
          rw [hkb'] at hwb; cases hwb
          rw [hbt.state] at hl; cases hl
        · rw [hoth w hw, hwa] at hwb; cases hwb; exact Nat.le_refl _
      rw [FS_same hsl]
      rcases back hne (fun x hx => by rw [hnet] at hx; exact .inl hx) with c | ⟨x, hx, _⟩
      · exact Sa.rets E hE v stk hka c
      · exact Sa.rets E hE v stk hka (by
          rcases hk with ⟨y, hy, h2⟩ | ⟨h1, h2, h3⟩
          · rw [hnet] at hy; exact .inl ⟨y, hy, h2⟩
          · exact .inr ⟨h1, by omega, h3⟩)
    | send hp hu hq hsame hnet _ =>
      have hne : E.nE ≠ n := by
        refine not_ev_of_same hE ha hb (fun w sta stb hwa hwb _ => ?_)
        by_cases hw : w = v
        · subst hw
          rw [hkb'] at hwb; cases hwb
          rw [hka] at hwa; cases hwa
          rw [hsame.1]; exact Nat.le_refl _
        · rw [hoth w hw, hwa] at hwb; cases hwb; exact Nat.le_refl _
      rw [FS_same (st := stk) (by rw [hsame.1])]
      rcases back hne (fun x hx => by rw [hnet] at hx; exact List.mem_append.1 hx) with
        c | ⟨x, hx, hack, hfrm, hterm, hidx⟩
      · exact Sa.rets E hE v stk hka c
      · -- the acknowledgement leaves the queue: nothing of the log is unstable
        have hh := Sa.retm E hE v stk hka (.inl ⟨x, .inr hx, hack, hfrm, hterm, hidx⟩)
        by_cases hl : stk.raft.state = .leader
        · have := leader_no_ack H2 ha hka hl x hx hack
          omega
        · obtain ⟨u1, u2⟩ := hu hl
          rw [← FL_eq_FS oa u2 u1]; exact hh
    | psnap rnd hp hout hpend hnet =>
      have hne := not_ev_at hE ha hb hka hkb' hoth (.inr (Nat.le_of_eq (persist_same hout).1))
      have hdur : AckedDur a n E v := by
        rcases hk with ⟨y, hy, h2⟩ | ⟨h1, h2, h3⟩
        · rw [hnet] at hy; exact .inl ⟨y, hy, h2⟩
        · exact .inr ⟨h1, by omega, h3⟩
      cases hout with
      | noop hr =>
        rw [FS_same (st := stk) (by rw [hr])]
        exact Sa.rets E hE v stk hka hdur
      | done sn L hp0 hr hinvL habs hcm hper hus hue hents hmeta hhs =>
        have Ib := (ghost_inv H2 (n + 1) b hb).node v st' hkb'
        have Ia := (ghost_inv H2 n a ha).node v stk hka
        have hpk := pend_ok H n a ha v stk sn hka hp0
        have hpnone : st'.raft.raftLog.unstable.snapshot = none := by rw [hr]; exact hus
        have hidx : st'.raft.raftLog.abs.snapIdx = sn.metadata.index := by
          rw [hr]; show L.abs.snapIdx = _; rw [habs, RaftLog.abs_some hp0]
        have hfl : FL h c0 st' = FL h c0 stk := FL_same (by rw [hr]; exact habs)
        have hh := Sa.retm E hE v stk hka hdur.mem
        obtain ⟨e, he, het⟩ := hh
        have hlast : E.c ≤ sn.metadata.index := by
          have h1 := ((FL h c0 stk).entryAt_lt he).2
          rw [Ia.log.last, RaftLog.abs_some hp0, hpk.1] at h1
          exact h1
        exact ⟨e, by rw [← Ib.pre hpnone E.c (by rw [hidx]; exact hlast), hfl]; exact he, het⟩
    | snap rnd m hm hto hty hpn hout hnet =>
      have hdur : E.nE ≠ n → AckedDur a n E v := by
        intro hne
        rcases hk with ⟨y, hy, h2⟩ | ⟨h1, h2, h3⟩
        · rw [hnet] at hy; exact .inl ⟨y, hy, h2⟩
        · exact .inr ⟨h1, by omega, h3⟩
      cases hout with
      | skip hr =>
        have hne := not_ev_at hE ha hb hka hkb' hoth (.inr (by rw [hr]; exact Nat.le_refl _))
        rw [FS_same (st := stk) (by rw [hr])]
        exact Sa.rets E hE v stk hka (hdur hne)
      | handled x hsf _ _ _ _ _ _ _ _ hsto _ =>
        have hne := not_ev_at hE ha hb hka hkb' hoth (.inl (by rw [hsf]; intro hc; cases hc))
        rw [FS_same (st := stk) (by rw [hsto])]
        exact Sa.rets E hE v stk hka (hdur hne)
    | call rnd op res hop hnc hca hns hpn hss hcall hnet hpn' _ =>
      obtain ⟨_, hse, _⟩ := call_more H2 ha hka hop hnc hns hpn hcall
      have hmem : Has (FL h c0 st') E.c E.t :=
        retm_step H S ha hb E hE v st' hkb' hk.mem
      by_cases hst : op = .stabilize
      · subst hst
        obtain ⟨k1, _⟩ := stabilize_out oa.inv hpn hcall
        rw [← FL_eq_FS ob hpn' k1]; exact hmem
      · have Ia := (ghost_inv H2 n a ha).node v stk hka
        have Ib := (ghost_inv H2 (n + 1) b hb).node v st' hkb'
        have hfs : ∀ j, (FS h c0 st').entryAt j = (FS h c0 stk).entryAt j := by
          rcases hse with c | c | ⟨j, _, ho⟩
          · intro j; rw [FS_same c.storeLog]
          · exact absurd c hst
          · obtain ⟨_, l2⟩ := ho.lt oa.inv
            exact fl_eq (hist_agree H2) ((Ia.sto.compact l2).congr ho.sto)
        rcases hk with ⟨x, hx, h2⟩ | ⟨h1, h2, h3⟩
        · rw [hnet] at hx
          exact Has.of_eq (hfs _) (Sa.rets E hE v stk hka (.inl ⟨x, hx, h2⟩))
        · by_cases hne : E.nE = n
          · -- the commit event of this step: the index is persisted
            obtain ⟨a', b', sta, stb, ha', hb', hla, hlb, _, _, _, _, _, hp⟩ := id hE
            rw [hne, hb] at hb'; cases hb'
            rw [← h1, hkb'] at hlb; cases hlb
            rw [hp] at h3
            exact Has.of_eq (Ib.persisted ob hpn' h3).symm hmem
          · exact Has.of_eq (hfs _) (Sa.rets E hE v stk hka (.inr ⟨h1, by omega, h3⟩))
  · have hva : a.node v = some st' := by rw [← hoth v hvk]; exact hvb
    obtain ⟨_, o2, _⟩ := sm_other H2 ha hb Sa hka hs hvk hva
    refine Sa.rets E hE v st' hva ?_
    rcases hk with ⟨x, hx, hack, hfrm, hterm, hidx⟩ | ⟨h1, h2, h3⟩
    · exact .inl ⟨x, o2 x hx hack (by omega) hfrm, hack, hfrm, hterm, hidx⟩
    · by_cases he : E.nE = n
      · have := ev_at_step hE (by rw [he]; exact ha) (by rw [he]; exact hb) hoth
        exact absurd (h1.trans this) hvk
      · exact .inr ⟨h1, by omega, h3⟩

theorem a2s_step (H : Hyp3a cfg c0 h) {n : Nat} (S : SAll h c0 n) {a b : Sys}
    (ha : h[n]? = some a) (hb : h[n + 1]? = some b) :
    ∀ v st', b.node v = some st' → ∀ x ∈ b.net, isAck x → x.frm = v → c0 < x.index →
      x.term = st'.raft.raftLog.store.hardState.term →
      Promise h c0 (n + 1) x (FS h c0 st') := by
  intro v st' hvb x hx hack hfrm hidx hterm
  have H2 := H.toHyp2w
  have Sa := S n a (Nat.le_refl _) ha
  have hx0 : x.index ≠ 0 := by omega
  obtain ⟨k, stk, stk', hka, hkb, hoth, hs⟩ := H2.stp ha hb
  by_cases hvk : v = k
  · subst hvk
    have hkb' := hkb
    rw [hkb] at hvb; cases hvb
    have oa := node_ok H2 ha hka
    have ob := node_ok H2 hb hkb'
    cases hs with
    | restart c rnd hboot hnet _ =>
      have hbt := CV.boot_booted c _ rnd st' hboot
      obtain ⟨_, _, hsl⟩ := boot_log c _ rnd st' oa.inv.storeWF hboot
      rw [hnet] at hx
      rw [FS_same hsl]
      exact (Sa.a2s v stk hka x hx hack hfrm hidx (by rw [hterm, hbt.hs])).mono (Nat.le_succ _)
    | send hp hu hq hsame hnet _ =>
      rw [hnet] at hx
      rw [hsame.1] at hterm
      rw [FS_same (st := stk) (by rw [hsame.1])]
      rcases List.mem_append.1 hx with c | c
      · exact (Sa.a2s v stk hka x c hack hfrm hidx hterm).mono (Nat.le_succ _)
      · obtain ⟨L, hl, hreach, heq⟩ :=
          Sa.a2m v stk hka x (.inr c) hack hfrm hidx (by rw [hterm, hp.1])
        by_cases hl' : stk.raft.state = .leader
        · have := leader_no_ack H2 ha hka hl' x c hack
          omega
        · obtain ⟨u1, u2⟩ := hu hl'
          exact ⟨L, hl.mono (Nat.le_succ _), hreach,
            fun j hj => by rw [← FL_eq_FS oa u2 u1]; exact heq j hj⟩
    | psnap rnd hp hout hpend hnet =>
      rw [hnet] at hx
      cases hout with
      | noop hr =>
        rw [FS_same (st := stk) (by rw [hr])]
        exact (Sa.a2s v stk hka x hx hack hfrm hidx (by rw [hterm, hr])).mono (Nat.le_succ _)
      | done sn L hp0 hr hinvL habs hcm hper hus hue hents hmeta hhs =>
        have Ib := (ghost_inv H2 (n + 1) b hb).node v st' hkb'
        have Ia := (ghost_inv H2 n a ha).node v stk hka
        have hpk := pend_ok H n a ha v stk sn hka hp0
        have hpnone : st'.raft.raftLog.unstable.snapshot = none := by rw [hr]; exact hus
        have hidx' : st'.raft.raftLog.abs.snapIdx = sn.metadata.index := by
          rw [hr]; show L.abs.snapIdx = _; rw [habs, RaftLog.abs_some hp0]
        have hfl : FL h c0 st' = FL h c0 stk := FL_same (by rw [hr]; exact habs)
        -- the stored term is the node's term
        have hst : st'.raft.raftLog.store.hardState.term = stk.raft.term := by
          have h1 := (term_le H (n + 1) b hb).sle v st' hkb'
          have h2 : st'.raft.raftLog.store.hardState.term =
              max stk.raft.raftLog.store.hardState.term sn.metadata.term := by rw [hr, hhs]
          have h3 : st'.raft.term = stk.raft.term := by rw [hr]
          rw [h2, h3] at h1
          rw [h2, hp.1]
          have := Nat.le_max_left stk.raft.term sn.metadata.term
          rw [hp.1] at h1
          omega
        obtain ⟨L1, hl1, hreach, heq1⟩ :=
          Sa.a2m v stk hka x (.inl hx) hack hfrm hidx (by rw [hterm, hst])
        refine ⟨L1, hl1.mono (Nat.le_succ _), hreach, fun j hj => ?_⟩
        -- the acknowledged index lies within the snapshot
        have hxl : x.index ≤ sn.metadata.index := by
          obtain ⟨e, he⟩ := L1.entryAt_exists (i := x.index) (by rw [hl1.snap H2]; exact hidx) hreach
          rw [← heq1 x.index (Nat.le_refl _)] at he
          have h1 := ((FL h c0 stk).entryAt_lt he).2
          rw [Ia.log.last, RaftLog.abs_some hp0, hpk.1] at h1
          exact h1
        rw [← Ib.pre hpnone j (by rw [hidx']; omega), hfl]
        exact heq1 j hj
    | snap rnd m hm hto hty hpn hout hnet =>
      rw [hnet] at hx
      cases hout with
      | skip hr =>
        rw [FS_same (st := stk) (by rw [hr])]
        exact (Sa.a2s v stk hka x hx hack hfrm hidx (by rw [hterm, hr])).mono (Nat.le_succ _)
      | handled y _ _ _ _ _ _ _ _ _ hsto _ =>
        rw [FS_same (st := stk) (by rw [hsto])]
        exact (Sa.a2s v stk hka x hx hack hfrm hidx (by rw [hterm, hsto])).mono (Nat.le_succ _)
    | call rnd op res hop hnc hca hns hpn hss hcall hnet hpn' _ =>
      obtain ⟨_, hse, hhs⟩ := call_more H2 ha hka hop hnc hns hpn hcall
      rw [hnet] at hx
      by_cases hst : op = .stabilize
      · subst hst
        obtain ⟨k1, k2, k3, _, k5, _⟩ := stabilize_out oa.inv hpn hcall
        obtain ⟨L, hl, hreach, heq⟩ :=
          Sa.a2m v stk hka x (.inl hx) hack hfrm hidx (by rw [hterm, k2.1, k5])
        refine ⟨L, hl.mono (Nat.le_succ _), hreach, fun j hj => ?_⟩
        rw [← FL_eq_FS ob hpn' k1, FL_same k3]
        exact heq j hj
      · have Ia := (ghost_inv H2 n a ha).node v stk hka
        have hfs : ∀ j, (FS h c0 st').entryAt j = (FS h c0 stk).entryAt j := by
          rcases hse with c | c | ⟨j, _, ho⟩
          · intro j; rw [FS_same c.storeLog]
          · exact absurd c hst
          · obtain ⟨_, l2⟩ := ho.lt oa.inv
            exact fl_eq (hist_agree H2) ((Ia.sto.compact l2).congr ho.sto)
        have hterm' : x.term = stk.raft.raftLog.store.hardState.term := by
          rcases hhs with c | ⟨j, _, c⟩ | ⟨c, _⟩
          · rw [hterm, c]
          · rw [hterm, c]
          · exact absurd c hst
        obtain ⟨L, q1, q2, q3⟩ := (Sa.a2s v stk hka x hx hack hfrm hidx hterm').mono (Nat.le_succ n)
        exact ⟨L, q1, q2, fun j hj => (hfs j).trans (q3 j hj)⟩
  · have hva : a.node v = some st' := by rw [← hoth v hvk]; exact hvb
    obtain ⟨_, o2, _⟩ := sm_other H2 ha hb Sa hka hs hvk hva
    exact (Sa.a2s v st' hva x (o2 x hx hack hx0 hfrm) hack hfrm hidx hterm).mono (Nat.le_succ _)



end Snap5
end Cluster
end RaftModel
