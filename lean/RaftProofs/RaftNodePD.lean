import RaftProps.C14b
import RaftProps.C05b
import RaftProps.C13b
import RaftProofs.RaftNodeC04
import RaftProofs.RaftNodeC05
import RaftProofs.RaftNodeC09

/-!
Helper lemmas for `RaftProps/PDGuards.lean`: the scan of `has_unapplied_conf_changes` against the
logical log, and what `maybe_send_append` / `bcast_append` do to the queue of `MsgAppend`s.
-/
namespace RaftModel

/-- the `j`-th entry of the logical range `[lo, hi)` is the entry at raft index `lo + j` -/
theorem LLog.range_getElem? (g : LLog) (lo hi j : Nat) (hlo : g.firstIndex ≤ lo) (hj : lo + j < hi) :
    (g.range lo hi)[j]? = g.entryAt (lo + j) := by
  unfold LLog.range LLog.entryAt
  simp only [LLog.firstIndex] at hlo ⊢
  rw [List.getElem?_take, if_pos (by omega), List.getElem?_drop, if_neg (by omega)]
  congr 1
  omega

namespace Raft
open RaftProps.C14

/-- **the scan of `has_unapplied_conf_changes` against the logical log**: for a log satisfying the
representation invariant, a range `[lo, hi)` inside the log and enough fuel (one page holds at least
one entry), `scan` never fails, and it answers `true` exactly when some entry with index in
`[lo, hi)` is a membership-change entry -/
theorem scanConf_spec (l : RaftLog) (hinv : l.Inv) (hi page : Nat) (hhi : hi ≤ l.lastIndex + 1) :
    ∀ fuel lo, l.firstIndex ≤ lo → hi - lo < fuel →
      ∃ b, scanConf l hi page fuel lo = .ok b ∧
        (b = true ↔ ∃ i e, lo ≤ i ∧ i < hi ∧ l.abs.entryAt i = some e ∧ isConfEntry e = true) := by
  intro fuel
  induction fuel with
  | zero => intro lo _ h; omega
  | succ fuel ih =>
    intro lo hlo hfuel
    unfold scanConf
    by_cases hlt : lo < hi
    · rw [if_pos hlt, slice_ok hinv lo hi (some page) false (by simp) hlo (by omega) hhi]
      obtain ⟨hcon, hlen⟩ := range_contig hinv lo hi hlo (by omega) hhi
      obtain ⟨⟨k, hk⟩, hnon, _⟩ := RaftModel.limitSize_spec (l.abs.range lo hi) (some page)
      have hne : l.abs.range lo hi ≠ [] := by
        intro hn; rw [hn] at hlen; simp at hlen; omega
      have hfa : l.abs.firstIndex ≤ lo := by rw [← hinv.firstIndex_abs]; exact hlo
      generalize hE : limitSize (l.abs.range lo hi) (some page) = E at hk hnon
      have hEn : E.length ≤ hi - lo := by
        rw [hk, List.length_take]; omega
      have hEj : ∀ j, j < E.length → E[j]? = l.abs.entryAt (lo + j) := by
        intro j hj
        rw [hk, List.getElem?_take, if_pos (by rw [hk, List.length_take] at hj; omega)]
        exact LLog.range_getElem? _ lo hi j hfa (by omega)
      cases E with
      | nil => exact absurd rfl (hnon hne)
      | cons e0 rest =>
        simp only []
        by_cases hany : (e0 :: rest).any isConfEntry = true
        · rw [if_pos hany]
          refine ⟨true, rfl, ?_⟩
          simp only [true_iff]
          obtain ⟨x, hx, hxc⟩ := List.any_eq_true.1 hany
          obtain ⟨j, hj, hjx⟩ := List.getElem_of_mem hx
          refine ⟨lo + j, x, by omega, by omega, ?_, hxc⟩
          rw [← hEj j hj, List.getElem?_eq_some_iff]
          exact ⟨hj, hjx⟩
        · rw [if_neg hany]
          have hpos : 0 < (e0 :: rest).length := by simp
          obtain ⟨b, hb, hiff⟩ := ih (lo + (e0 :: rest).length) (by omega) (by omega)
          refine ⟨b, hb, hiff.trans ⟨?_, ?_⟩⟩
          · rintro ⟨i, e, h1, h2, h3, h4⟩
            exact ⟨i, e, by omega, h2, h3, h4⟩
          · rintro ⟨i, e, h1, h2, h3, h4⟩
            by_cases hin : i < lo + (e0 :: rest).length
            · exfalso
              apply hany
              have := hEj (i - lo) (by omega)
              rw [show lo + (i - lo) = i by omega, h3] at this
              exact List.any_eq_true.2 ⟨e, List.mem_of_getElem? this, h4⟩
            · exact ⟨i, e, by omega, h2, h3, h4⟩
    · rw [if_neg hlt]
      refine ⟨false, rfl, ?_⟩
      simp only [Bool.false_eq_true, false_iff]
      rintro ⟨i, _, h1, h2, _⟩
      omega


/-! ### the queue of `MsgAppend`s -/

theorem sendFill_commit (r : Raft) (m : Message) : (r.sendFill m).commit = m.commit := by
  unfold Raft.sendFill
  simp only
  split <;> split <;> split <;> rfl

/-- anchored: `r` has the commit index of `a`, and every `MsgAppend` in `r`'s queue either was
already in `a`'s queue or carries `a`'s commit index -/
def AQ (a r : Raft) : Prop :=
  r.raftLog.committed = a.raftLog.committed ∧
  ∀ m ∈ r.msgs, m.msgType = .msgAppend → m ∈ a.msgs ∨ m.commit = a.raftLog.committed

theorem AQ.rfl {r : Raft} : AQ r r := ⟨Eq.refl _, fun _ hm _ => .inl hm⟩

/-- one step: the commit index is kept and every queued `MsgAppend` is old or carries it -/
theorem AQ.step {a r r' : Raft} (h0 : AQ a r) (hc : r'.raftLog.committed = r.raftLog.committed)
    (hm : ∀ m ∈ r'.msgs, m.msgType = .msgAppend → m ∈ r.msgs ∨ m.commit = r.raftLog.committed) :
    AQ a r' := by
  refine ⟨hc.trans h0.1, fun m hmem hty => ?_⟩
  rcases hm m hmem hty with h | h
  · exact h0.2 m h hty
  · exact .inr (h.trans h0.1)

/-- any structure update that keeps `raftLog` and `msgs` keeps `AQ` -/
theorem AQ.mk' {a r : Raft} {x1 x2 x3 : Nat} {x4 : List ReadState} {x6 x7 x8 : Nat}
    {x9 : StateRole} {x10 : Bool} {x11 : Nat}
    {x12 : Option Nat} {x13 : Nat} {x14 : ReadOnly} {x15 x16 : Nat} {x17 x18 x19 x20 x21 : Bool}
    {x22 x23 x24 x25 x26 : Nat} {x27 : Int} {x28 : UncommittedState} {x29 : Nat}
    {x30 : ProgressTracker} {x32 : Option Nat} (h0 : AQ a r) :
    AQ a { term := x1, vote := x2, id := x3, readStates := x4, raftLog := r.raftLog,
           maxInflight := x6, maxMsgSize := x7, pendingRequestSnapshot := x8, state := x9,
           promotable := x10, leaderId := x11, leadTransferee := x12,
           pendingConfIndex := x13, readOnly := x14, electionElapsed := x15,
           heartbeatElapsed := x16, checkQuorum := x17, preVote := x18,
           skipBcastCommit := x19, batchAppend := x20, disableProposalForwarding := x21,
           heartbeatTimeout := x22, electionTimeout := x23, randomizedElectionTimeout := x24,
           minElectionTimeout := x25, maxElectionTimeout := x26, priority := x27,
           uncommittedState := x28, maxCommittedSizePerReady := x29, prs := x30, msgs := r.msgs,
           nextRand := x32 } := h0

macro "aq_pre" h:ident : tactic =>
  `(tactic| (frame_dec $h:ident <;> (iterate 2 (try (apply AQ.mk')))))

macro "aq_auto" h:ident "[" ls:Lean.Parser.Tactic.SolveByElim.arg,* "]" : tactic =>
  `(tactic| (aq_pre $h:ident <;> (solve_by_elim (maxDepth := 14) [AQ.rfl, $ls,*, AQ.mk'])))

/-- `prepare_send_snapshot` does not touch the queue -/
theorem prepareSendSnapshot_msgs {r r1 : Raft} {m m1 : Message} {pr pr1 : Progress} {to : Nat}
    {b : Bool} (h : r.prepareSendSnapshot m pr to = .ok (r1, m1, pr1, b)) :
    r1.msgs = r.msgs ∧ (b = true → m1.msgType = .msgSnapshot) := by
  unfold Raft.prepareSendSnapshot at h
  split at h
  · cases h; exact ⟨rfl, fun hb => nomatch hb⟩
  · simp only [] at h
    split at h
    · cases h; exact ⟨rfl, fun hb => nomatch hb⟩
    · cases h
    · cases h
    · split at h
      · cases h
      · cases h; exact ⟨rfl, fun _ => rfl⟩

/-- the snapshot path of `maybe_send_append` queues at most a `MsgSnapshot` -/
theorem viaSnapshot_msgs {r r' : Raft} {to : Nat} {pr pr' : Progress} {sent : Bool}
    (h : RaftProps.C13.viaSnapshot r to pr = .ok (r', pr', sent)) :
    r'.msgs = r.msgs ∨ ∃ msg, r'.msgs = r.msgs ++ [msg] ∧ msg.msgType = .msgSnapshot := by
  unfold RaftProps.C13.viaSnapshot at h
  split at h
  · rename_i r1 m1 pr1 heq
    obtain ⟨h1, h2⟩ := prepareSendSnapshot_msgs heq
    rw [Res.bind_eq_ok_iff] at h
    obtain ⟨r2, hs, h4⟩ := h
    cases h4
    rw [send_eq _ _ _ hs]
    exact .inr ⟨_, by rw [← h1], (RaftProps.C05.c05_sendFill_to_type r1 m1).2.trans (h2 rfl)⟩
  · rename_i r1 m1 pr1 heq
    cases h
    exact .inl (prepareSendSnapshot_msgs heq).1
  · cases h
  · cases h

/-- **`maybe_send_append`**: the commit index is kept, and every `MsgAppend` in the queue afterwards
is one that was queued before, or carries the commit index — the freshly queued one
(`prepare_send_entries`, with or without entries) and the one `try_batching` extended alike -/
theorem maybeSendAppend_aq {a r r' : Raft} {to : Nat} {pr pr' : Progress} {ae b : Bool}
    (h : r.maybeSendAppend to pr ae = .ok (r', pr', b)) (h0 : AQ a r) : AQ a r' := by
  have hc : r'.raftLog.committed = r.raftLog.committed :=
    (maybeSendAppend_cp (P := fun x => x = r.raftLog.committed) h ⟨rfl⟩).h
  refine h0.step hc ?_
  rcases RaftProps.C13.C13_send_classification r r' to pr pr' ae b h with
    ⟨_, he, _⟩ | ⟨_, _, _, t, es, _, _, _, _, _, hcase⟩ | ⟨_, _, he, _⟩ | ⟨_, _, hv⟩
  · rw [he]; exact fun m hm _ => .inl hm
  · rcases hcase with ⟨_, htb⟩ | ⟨_, he⟩
    · obtain ⟨pre, msg, post, h1, _, _, _, h2, _⟩ :=
        (RaftProps.C13.C13_batching r r' to pr pr' es true htb).2.1 rfl
      intro m hm _
      rw [h2] at hm
      rw [h1]
      rcases List.mem_append.1 hm with hm | hm
      · exact .inl (List.mem_append_left _ hm)
      · rcases List.mem_cons.1 hm with hm | hm
        · right; rw [hm]; rfl
        · exact .inl (List.mem_append_right _ (List.mem_cons_of_mem _ hm))
    · intro m hm _
      rw [he] at hm
      rcases List.mem_append.1 hm with hm | hm
      · exact .inl hm
      · right
        rw [List.mem_singleton.1 hm]; rfl
  · rw [he]; exact fun m hm _ => .inl hm
  · rcases viaSnapshot_msgs hv with he | ⟨msg, he, hty⟩
    · rw [he]; exact fun m hm _ => .inl hm
    · intro m hm hm2
      rw [he] at hm
      rcases List.mem_append.1 hm with hm | hm
      · exact .inl hm
      · rw [List.mem_singleton.1 hm, hty] at hm2; cases hm2

theorem sendAppendPr_aq {a r r' : Raft} {to : Nat} {pr pr' : Progress}
    (h : r.sendAppendPr to pr = .ok (r', pr')) (h0 : AQ a r) : AQ a r' := by
  unfold Raft.sendAppendPr at h
  aq_auto h [maybeSendAppend_aq]

theorem sendAppend_aq {a r r' : Raft} {to : Nat}
    (h : r.sendAppend to = .ok r') (h0 : AQ a r) : AQ a r' := by
  unfold Raft.sendAppend at h
  aq_auto h [sendAppendPr_aq]

theorem sendAppendAggressivelyPr_aq {a r' : Raft} {to : Nat} {pr' : Progress} :
    ∀ (fuel : Nat) (r : Raft) (pr : Progress),
      sendAppendAggressivelyPr fuel r to pr = .ok (r', pr') → AQ a r → AQ a r' := by
  intro fuel
  induction fuel with
  | zero => intro r pr h; simp [sendAppendAggressivelyPr] at h
  | succ n ih =>
    intro r pr h h0
    unfold sendAppendAggressivelyPr at h
    split at h
    · rename_i r1 pr1 hm
      exact ih r1 pr1 h (maybeSendAppend_aq hm h0)
    · rename_i r1 pr1 hm
      cases h; exact maybeSendAppend_aq hm h0
    · cases h
    · cases h

theorem sendAppendAggressively_aq {a r r' : Raft} {to : Nat}
    (h : r.sendAppendAggressively to = .ok r') (h0 : AQ a r) : AQ a r' := by
  unfold Raft.sendAppendAggressively at h
  aq_auto h [sendAppendAggressivelyPr_aq]

theorem foldl_aq {α : Type} {a r' : Raft} (step : Res Raft → α → Res Raft)
    (hstep : ∀ acc x r1, step acc x = .ok r1 → ∃ r0, acc = .ok r0 ∧ (AQ a r0 → AQ a r1)) :
    ∀ (l : List α) (acc : Res Raft), l.foldl step acc = .ok r' →
      (∀ r, acc = .ok r → AQ a r) → AQ a r' := by
  intro l
  induction l with
  | nil => intro acc h h0; exact h0 r' h
  | cons x rest ih =>
    intro acc h h0
    simp only [List.foldl_cons] at h
    refine ih (step acc x) h ?_
    intro r1 h1
    obtain ⟨r0, e0, hf⟩ := hstep acc x r1 h1
    exact hf (h0 r0 e0)

theorem forEachPeer_aq {a r r' : Raft} {f : Raft → Nat → Progress → Res (Raft × Progress)}
    (hf : ∀ r id pr r' pr', f r id pr = .ok (r', pr') → AQ a r → AQ a r')
    (h : r.forEachPeer f = .ok r') (h0 : AQ a r) : AQ a r' := by
  unfold Raft.forEachPeer at h
  refine foldl_aq _ ?_ _ _ h (by intro r1 e; cases e; exact h0)
  intro acc id r1 h1
  cases acc with
  | err e => cases h1
  | panic s => cases h1
  | ok r0 =>
    refine ⟨r0, rfl, fun h0 => ?_⟩
    change (if id = r0.id then Res.ok r0 else _) = _ at h1
    aq_auto h1 [hf]

/-- **`bcast_append`**: every `MsgAppend` queued (or extended) by the broadcast carries the commit
index the leader has at that moment -/
theorem bcastAppend_aq {a r r' : Raft} (h : r.bcastAppend = .ok r') (h0 : AQ a r) : AQ a r' := by
  unfold Raft.bcastAppend at h
  exact forEachPeer_aq (fun r id pr r' pr' h => sendAppendPr_aq h) h h0


/-! ### entry points other than `step` on a leader: the logical log is not touched -/

/-- `post_conf_change` (raft.rs:2743) in every role keeps the logical log -/
theorem postConfChange_ls {a r r' : Raft} {cs : ConfState}
    (h : r.postConfChange = .ok (r', cs)) (h0 : LS a r) : LS a r' := by
  unfold Raft.postConfChange at h
  simp only at h
  split at h
  · cases h; exact becomeFollower_ls _ _ (LS.mk' h0)
  · split at h
    · cases h; exact LS.mk' h0
    · obtain ⟨r1, hr1, h⟩ := Res.bind_eq_ok h
      have h1 : LS a r1 := by
        split at hr1
        · rename_i r3 hm
          exact bcastAppend_ls hr1 (maybeCommit_ls hm (LS.mk' h0))
        · rename_i r3 hm
          refine forEachPeer_ls ?_ hr1 (maybeCommit_ls hm (LS.mk' h0))
          intro r id pr r' pr' hh hh0
          ls_auto hh [maybeSendAppend_ls]
        · cases hr1
        · cases hr1
      obtain ⟨r2, hr2, h⟩ := Res.bind_eq_ok h
      have h2 : LS a r2 := by
        ls_auto hr2 [respondReadStates_ls]
      ls_auto h [send_ls]

/-- `apply_conf_change` (raft.rs:2834) keeps the logical log -/
theorem applyConfChange_ls {a r r' : Raft} {cc : ConfChangeV2} {res : Except ErrKind ConfState}
    (h : r.applyConfChange cc = .ok (r', res)) (h0 : LS a r) : LS a r' := by
  unfold Raft.applyConfChange at h
  ls_auto h [postConfChange_ls]

/-- `ping` (raft.rs:915) keeps the logical log -/
theorem ping_ls {a r r' : Raft} (h : r.ping = .ok r') (h0 : LS a r) : LS a r' := by
  unfold Raft.ping at h
  ls_auto h [bcastHeartbeat_ls]

/-- `on_persist_entries` (raft.rs:1060) keeps the logical log, `pending_conf_index` and the apply
cursor: it moves `persisted`, and on a leader possibly the commit index -/
theorem onPersistEntries_abs {r r' : Raft} {index term : Nat}
    (h : r.onPersistEntries index term = .ok r') :
    r'.raftLog.abs = r.raftLog.abs ∧ r'.raftLog.lastIndex = r.raftLog.lastIndex ∧
    r'.pendingConfIndex = r.pendingConfIndex ∧ r'.raftLog.applied = r.raftLog.applied := by
  unfold Raft.onPersistEntries at h
  split at h
  · cases h
  · cases h
  · rename_i log update hmp
    have hshape : log = r.raftLog ∨ log = { r.raftLog with persisted := index } := by
      unfold RaftLog.maybePersist at hmp
      simp only [] at hmp
      repeat' (split at hmp)
      all_goals first
        | (injection hmp with hmp; injection hmp with hmp _; subst hmp; exact .inl rfl)
        | (injection hmp with hmp; injection hmp with hmp _; subst hmp; exact .inr rfl)
        | (exfalso; cases hmp)
    have habs : log.abs = r.raftLog.abs ∧ log.lastIndex = r.raftLog.lastIndex ∧
        log.applied = r.raftLog.applied := by
      rcases hshape with hs | hs <;> rw [hs] <;> exact ⟨rfl, rfl, rfl⟩
    simp only [] at h
    have hl : LS ({ r with raftLog := log } : Raft) r' := by
      have h0 : LS ({ r with raftLog := log } : Raft) ({ r with raftLog := log } : Raft) := LS.rfl
      ls_auto h [maybeCommit_ls, bcastAppend_ls]
    have hc : CF ({ r with raftLog := log } : Raft) r' := by
      have h0 : CF ({ r with raftLog := log } : Raft) ({ r with raftLog := log } : Raft) := CF.rfl
      cf_auto h [maybeCommit_cf, bcastAppend_cf]
    exact ⟨hl.abs.trans habs.1, hl.last.trans habs.2.1, hc.1, hc.2.trans habs.2.2⟩

/-- `on_persist_snap` (raft.rs:1089) only moves `persisted` -/
theorem onPersistSnap_abs {r r' : Raft} {index : Nat} (h : r.onPersistSnap index = .ok r') :
    r'.raftLog.abs = r.raftLog.abs ∧ r'.raftLog.lastIndex = r.raftLog.lastIndex ∧
    r'.pendingConfIndex = r.pendingConfIndex ∧ r'.raftLog.applied = r.raftLog.applied := by
  unfold Raft.onPersistSnap at h
  split at h
  · rename_i log b hmp
    cases h
    unfold RaftLog.maybePersistSnap at hmp
    split at hmp
    · split at hmp
      · cases hmp
      · split at hmp
        · cases hmp
        · cases hmp; exact ⟨rfl, rfl, rfl, rfl⟩
    · cases hmp; exact ⟨rfl, rfl, rfl, rfl⟩
  · cases h
  · cases h

/-- `step` on a message type that cannot change the log keeps the logical log (anchored) -/
theorem stepIgnore_quiet_ls {a r r' : Raft} {m : Message} (hinv : a.raftLog.Inv)
    (hm : RaftProps.C05.logChanging m.msgType = false) (h : r.stepIgnore m = .ok r')
    (h0 : LS a r) : LS a r' := by
  unfold Raft.stepIgnore at h
  obtain ⟨⟨r1, e⟩, hs, h⟩ := Res.bind_eq_ok h
  cases h
  refine h0.trans ?_
  rcases step_log (h0.inv hinv) hs with c | ⟨c, _⟩ | ⟨c, _⟩ | ⟨c, _⟩ | ⟨c, _⟩
  · exact c
  · rw [c] at hm; cases hm
  · rcases c with c | c | c | c <;> rw [c] at hm <;> cases hm
  · rw [c] at hm; cases hm
  · rw [c] at hm; cases hm

theorem stepIgnore_checkQuorum_ls {a r r' : Raft} {to : Nat} {frm : Option Nat} (hinv : a.raftLog.Inv)
    (h : r.stepIgnore (newMessage to .msgCheckQuorum frm) = .ok r') (h0 : LS a r) : LS a r' :=
  stepIgnore_quiet_ls hinv rfl h h0

theorem stepIgnore_beat_ls {a r r' : Raft} {to : Nat} {frm : Option Nat} (hinv : a.raftLog.Inv)
    (h : r.stepIgnore (newMessage to .msgBeat frm) = .ok r') (h0 : LS a r) : LS a r' :=
  stepIgnore_quiet_ls hinv rfl h h0

/-- `tick` on a leader (`tick_heartbeat`, raft.rs:1121: `MsgCheckQuorum`, `MsgBeat`) keeps the
logical log -/
theorem tick_leader_ls {r r' : Raft} {b : Bool} (hinv : r.raftLog.Inv) (hs : r.state = .leader)
    (h : r.tick = .ok (r', b)) : LS r r' := by
  unfold Raft.tick at h
  rw [hs] at h
  simp only at h
  unfold Raft.tickHeartbeat at h
  simp only at h
  obtain ⟨⟨r1, b1⟩, h1, h⟩ := Res.bind_eq_ok h
  have hl1 : LS r r1 := by
    split at h1
    · obtain ⟨⟨r2, b2⟩, h2, h1⟩ := Res.bind_eq_ok h1
      have hl2 : LS r r2 := by
        split at h2
        · obtain ⟨r3, h3, h2⟩ := Res.bind_eq_ok h2
          cases h2
          exact stepIgnore_checkQuorum_ls hinv h3 (LS.mk' LS.rfl)
        · cases h2; exact LS.mk' LS.rfl
      simp only at h1
      split at h1
      · cases h1; exact LS.mk' hl2
      · cases h1; exact hl2
    · cases h1; exact LS.mk' LS.rfl
  simp only at h
  split at h
  · cases h; exact hl1
  · split at h
    · obtain ⟨r3, h3, h⟩ := Res.bind_eq_ok h
      cases h
      exact stepIgnore_beat_ls hinv h3 (LS.mk' hl1)
    · cases h; exact hl1

end Raft
end RaftModel
