import RaftProofs.ProtoL

/-!
`InvL` is preserved by every event of P (given the vote-layer invariant of the pre-state), hence
holds in every reachable state.
-/
namespace RaftModel.P

theorem mem_outbox_append {l : List OMsg} {x m : OMsg} (h : m ∈ l ++ [x]) : m ∈ l ∨ m = x := by
  simpa using h

/-- election safety at the vote layer: two nodes in the leader role with the same term are equal -/
theorem leader_unique (v : VSys) (hV : InvV v)
    (i j : Nat) (hi : (v.nodes i).role = 2) (hj : (v.nodes j).role = 2)
    (ht : (v.nodes j).term = (v.nodes i).term) : j = i := by
  have l1 := (hV.ld j hj).1
  have l2 := (hV.ld i hi).1
  rw [ht] at l1
  exact hV.eu _ l1 _ l2 rfl

/-- nobody was elected before for the term a candidate wins: an earlier election of that term was
decided under a configuration whose quorums meet the winner's (guard of `win`), the common voter
voted once, so the earlier winner is this candidate — which has not been elected yet -/
theorem win_fresh_elected (s : PSys) (hV : InvV (vsys s)) (hL : InvL s) (i : Nat) (cfg : Cfg) (q : List Nat)
    (hrole : (s.nodes i).role = 1) (hq : cfg.isQuorum q = true)
    (hall : ∀ x ∈ q, (⟨(s.nodes i).term, x, i⟩ : Grant) ∈ s.grants)
    (hadj : ∀ p ∈ s.ecfgs, p.1 = (s.nodes i).term → adjOk cfg p.2 = true) :
    ∀ j, ((s.nodes i).term, j) ∉ s.elected := by
  intro j hj
  obtain ⟨_, cj, qj, hcj, hqj, hgj⟩ := hV.el _ hj
  obtain ⟨v, hv1, hv2⟩ := adj_intersect cfg cj (hadj _ hcj rfl) q qj hq hqj
  have g1 := hall v hv1
  have g2 := hgj v hv2
  have : i = j := hV.gc v ⟨_, v, i⟩ ⟨_, v, j⟩ (Or.inr ⟨g1, rfl⟩) (Or.inr ⟨g2, rfl⟩) rfl
  subst this
  exact hL.cand i hrole hj

/-- `win`: the ghost log of the new term is the winner's log -/
theorem invL_win (s : PSys) (hV : InvV (vsys s))
    (h : InvL s) (i : Nat) (cfg : Cfg) (hrole : (s.nodes i).role = 1)
    (hfresh : ∀ j, ((s.nodes i).term, j) ∉ s.elected) :
    InvL { s with nodes := upd s.nodes i { s.nodes i with role := 2 },
                  llog := updT s.llog (s.nodes i).term (s.nodes i).log,
                  elog := updT s.elog (s.nodes i).term (s.nodes i).log,
                  elected := ((s.nodes i).term, i) :: s.elected,
                  ecfgs := ((s.nodes i).term, cfg) :: s.ecfgs } := by
  have hempty : s.llog (s.nodes i).term = [] := h.nole _ hfresh
  have hext : ∀ t, ∃ r, updT s.llog (s.nodes i).term (s.nodes i).log t = s.llog t ++ r := by
    intro t
    by_cases ht : t = (s.nodes i).term
    · subst ht; exact ⟨(s.nodes i).log, by simp [updT, hempty]⟩
    · exact ⟨[], by simp [updT, ht]⟩
  have hmono : ∀ l, PFL s.llog l → PFL (updT s.llog (s.nodes i).term (s.nodes i).log) l :=
    fun l hl => PFL_mono hext hl
  have hplog := keep_log s h i
  constructor
  · intro l hl
    apply hmono
    rcases hl with ⟨j, hj⟩ | ⟨a, ha, hj⟩ | ⟨m, hm, hj⟩ | ⟨t, hj⟩ | ⟨p, hp, hj⟩ | ⟨t, hj⟩
    · by_cases hji : j = i
      · subst hji
        have : nodeLists (s.nodes j) l := by simpa [upd, nodeLists] using hj
        exact h.pfl l (Or.inl ⟨j, this⟩)
      · simp only [upd, hji, if_false] at hj; exact h.pfl l (Or.inl ⟨j, hj⟩)
    · rw [hj]; exact h.pfl _ (listsOf_acks s a ha)
    · rw [hj]; exact h.pfl _ (listsOf_snap s m hm)
    · by_cases ht : t = (s.nodes i).term
      · subst ht; simp only [updT, if_true] at hj; rw [hj]; exact hplog
      · simp only [updT, ht, if_false] at hj; rw [hj]; exact h.pfl _ (listsOf_llog s t)
    · exact h.pfl l (Or.inr (Or.inr (Or.inr (Or.inr (Or.inl ⟨p, hp, hj⟩)))))
    · by_cases ht : t = (s.nodes i).term
      · subst ht; simp only [updT, if_true] at hj; rw [hj]; exact hplog
      · simp only [updT, ht, if_false] at hj
        exact h.pfl l (Or.inr (Or.inr (Or.inr (Or.inr (Or.inr ⟨t, hj⟩)))))
  · intro m hm
    have := h.msg m hm
    have hmt : m.term ≠ (s.nodes i).term := by
      intro he; obtain ⟨j, hj⟩ := this.hl; rw [he] at hj; exact hfresh j hj
    refine ⟨?_, ?_, ?_, ?_⟩
    · obtain ⟨j, hj⟩ := this.hl; exact ⟨j, List.mem_cons_of_mem _ hj⟩
    · simp only [updT, hmt, if_false]; exact this.len
    · simp only [updT, hmt, if_false]; exact this.slice
    · simp only [updT, hmt, if_false]; exact this.anchor
  · intro t e he
    by_cases ht : t = (s.nodes i).term
    · subst ht; simp only [updT, if_true] at he
      exact ⟨pfl_term_pos h hplog he, (h.tle i).1 e he⟩
    · simp only [updT, ht, if_false] at he; exact h.lterm t e he
  · intro t ht
    by_cases hte : t = (s.nodes i).term
    · subst hte; exact absurd List.mem_cons_self (ht i)
    · simp only [updT, hte, if_false]
      exact h.nole t (fun j hj => ht j (List.mem_cons_of_mem _ hj))
  · intro j hr
    by_cases hji : j = i
    · subst hji; simp [upd, updT]
    · simp only [upd, hji, if_false] at hr ⊢
      have hne' : (s.nodes j).term ≠ (s.nodes i).term := by
        intro he
        have := (hV.ld j (by simpa [vsys, vproj] using hr)).1
        simp only [vsys, vproj] at this
        rw [he] at this
        exact hfresh j this
      simp only [updT, hne', if_false]
      exact h.ll j hr
  · intro j
    by_cases hji : j = i
    · subst hji; simp only [upd, if_true]; exact h.tle j
    · simp only [upd, hji, if_false]; exact h.tle j
  · exact h.stle
  · intro j hr
    by_cases hji : j = i
    · subst hji; simp [upd] at hr
    · simp only [upd, hji, if_false] at hr ⊢
      intro hmem
      simp only [List.mem_cons, Prod.mk.injEq] at hmem
      rcases hmem with ⟨_, h2⟩ | hmem
      · exact hji h2
      · exact h.cand j hr hmem
  · intro j hr
    by_cases hji : j = i
    · subst hji; simp only [upd, if_true] at hr ⊢; exact h.pos j (by rw [hrole]; decide)
    · simp only [upd, hji, if_false] at hr ⊢; exact h.pos j hr

/-- `leaderAppend`: the leader's log and the ghost log of its term grow by the same entry -/
theorem invL_lappend (s : PSys) (hV : InvV (vsys s)) (h : InvL s) (i : Nat) (e : LEntry)
    (hrole : (s.nodes i).role = 2) (het : e.term = (s.nodes i).term) :
    InvL { s with nodes := upd s.nodes i { s.nodes i with log := (s.nodes i).log ++ [e] },
                  llog := updT s.llog (s.nodes i).term ((s.nodes i).log ++ [e]) } := by
  have hll := h.ll i hrole
  have hext : ∀ t, ∃ r, updT s.llog (s.nodes i).term ((s.nodes i).log ++ [e]) t = s.llog t ++ r := by
    intro t
    by_cases ht : t = (s.nodes i).term
    · subst ht; exact ⟨[e], by simp [updT, hll]⟩
    · exact ⟨[], by simp [updT, ht]⟩
  have hmono : ∀ l, PFL s.llog l → PFL (updT s.llog (s.nodes i).term ((s.nodes i).log ++ [e])) l :=
    fun l hl => PFL_mono hext hl
  have hplog := keep_log s h i
  have hnew : PFL (updT s.llog (s.nodes i).term ((s.nodes i).log ++ [e])) ((s.nodes i).log ++ [e]) := by
    apply PFL_snoc (hmono _ hplog)
    rw [het]; simp only [updT, if_true]
    exact List.take_of_length_le (by simp)
  have hpos : 0 < (s.nodes i).term := h.pos i (by rw [hrole]; decide)
  constructor
  · intro l hl
    rcases hl with ⟨j, hj⟩ | ⟨a, ha, hj⟩ | ⟨m, hm, hj⟩ | ⟨t, hj⟩ | ⟨p, hp, hj⟩ | ⟨t, hj⟩
    · by_cases hji : j = i
      · subst hji
        simp only [upd, if_true, nodeLists] at hj
        rcases hj with hj | hj
        · rw [hj]; exact hnew
        · exact hmono l (h.pfl l (Or.inl ⟨j, Or.inr (by simpa [nodeLists] using hj)⟩))
      · simp only [upd, hji, if_false] at hj; exact hmono l (h.pfl l (Or.inl ⟨j, hj⟩))
    · rw [hj]; exact hmono _ (h.pfl _ (listsOf_acks s a ha))
    · rw [hj]; exact hmono _ (h.pfl _ (listsOf_snap s m hm))
    · by_cases ht : t = (s.nodes i).term
      · subst ht; simp only [updT, if_true] at hj; rw [hj]; exact hnew
      · simp only [updT, ht, if_false] at hj; rw [hj]; exact hmono _ (h.pfl _ (listsOf_llog s t))
    · exact hmono l (h.pfl l (Or.inr (Or.inr (Or.inr (Or.inr (Or.inl ⟨p, hp, hj⟩))))))
    · exact hmono l (h.pfl l (Or.inr (Or.inr (Or.inr (Or.inr (Or.inr ⟨t, hj⟩))))))
  · intro m hm
    have := h.msg m hm
    by_cases hmt : m.term = (s.nodes i).term
    · have hlen := this.len
      rw [hmt, ← hll] at hlen
      refine ⟨this.hl, ?_, ?_, ?_⟩
      · simp only [updT, hmt, if_true, List.length_append, List.length_singleton]; omega
      · simp only [updT, hmt, if_true]
        have hs := this.slice
        rw [hmt, ← hll] at hs
        rw [List.drop_append_of_le_length (by omega), List.take_append_of_le_length (by simp; omega)]
        exact hs
      · simp only [updT, hmt, if_true]
        have ha := this.anchor
        rw [hmt, ← hll] at ha
        rw [ha]
        unfold termAt
        by_cases hp0 : m.prev = 0
        · simp [hp0]
        · simp only [hp0, if_false]
          rw [List.getElem?_append_left (by omega)]
    · exact ⟨this.hl, by simp only [updT, hmt, if_false]; exact this.len,
        by simp only [updT, hmt, if_false]; exact this.slice,
        by simp only [updT, hmt, if_false]; exact this.anchor⟩
  · intro t x hx
    by_cases ht : t = (s.nodes i).term
    · subst ht; simp only [updT, if_true, List.mem_append, List.mem_singleton] at hx
      rcases hx with hx | hx
      · exact ⟨pfl_term_pos h hplog hx, (h.tle i).1 x hx⟩
      · subst hx; omega
    · simp only [updT, ht, if_false] at hx; exact h.lterm t x hx
  · intro t ht
    by_cases hte : t = (s.nodes i).term
    · subst hte
      have := (hV.ld i (by simpa [vsys, vproj] using hrole)).1
      exact absurd (by simpa [vsys, vproj] using this) (ht i)
    · simp only [updT, hte, if_false]; exact h.nole t ht
  · intro j hr
    by_cases hji : j = i
    · subst hji; simp [upd, updT]
    · simp only [upd, hji, if_false] at hr ⊢
      have hne' : (s.nodes j).term ≠ (s.nodes i).term := by
        intro he
        exact hji (leader_unique (vsys s) hV i j (by simpa [vsys, vproj] using hrole)
          (by simpa [vsys, vproj] using hr) (by simpa [vsys, vproj] using he))
      simp only [updT, hne', if_false]
      exact h.ll j hr
  · intro j
    by_cases hji : j = i
    · subst hji; simp only [upd, if_true]
      refine ⟨?_, (h.tle j).2.1, (h.tle j).2.2⟩
      intro x hx
      simp only [List.mem_append, List.mem_singleton] at hx
      rcases hx with hx | hx
      · exact (h.tle j).1 x hx
      · subst hx; omega
    · simp only [upd, hji, if_false]; exact h.tle j
  · exact h.stle
  · intro j hr
    by_cases hji : j = i
    · subst hji; simp [upd, hrole] at hr
    · simp only [upd, hji, if_false] at hr ⊢; exact h.cand j hr
  · intro j hr
    by_cases hji : j = i
    · subst hji; simp only [upd, if_true] at hr ⊢; exact hpos
    · simp only [upd, hji, if_false] at hr ⊢; exact h.pos j hr

theorem upd_self (f : Nat → PNode) (i : Nat) : upd f i (f i) = f := by
  funext j; by_cases h : j = i <;> simp [upd, h]

/-- node lists when only scalar fields changed -/
theorem nl_of_fields {n' : PNode} {l : List LEntry} (hl : nodeLists n' l) (n : PNode)
    (h1 : n'.log = n.log) (h2 : n'.dlog = n.dlog)
    (h3 : n'.pending = n.pending) (h4 : n'.outbox = n.outbox) (h5 : n'.dacks = n.dacks) :
    nodeLists n l := by
  revert hl
  unfold nodeLists; rw [h1, h2, h3, h4, h5]; exact id

/-- node lists when one message was appended to the outbox -/
theorem nl_outbox_append {n' : PNode} {l : List LEntry} (hl : nodeLists n' l) (n : PNode) (x : OMsg)
    (h1 : n'.log = n.log) (h2 : n'.dlog = n.dlog)
    (h3 : n'.pending = n.pending) (h4 : n'.outbox = n.outbox ++ [x]) (h5 : n'.dacks = n.dacks) :
    nodeLists n l ∨ (∃ t f idx, x = OMsg.ack t f idx l) ∨
      (∃ t v c gh, x = OMsg.grant t v c gh ∧ gh.vlog = l) := by
  revert hl
  unfold nodeLists; rw [h1, h2, h3, h4, h5]
  rintro (h | h | h | ⟨t, f, idx, h⟩ | h | ⟨t, v, c, gh, h, hv⟩)
  · exact Or.inl (Or.inl h)
  · exact Or.inl (Or.inr (Or.inl h))
  · exact Or.inl (Or.inr (Or.inr (Or.inl h)))
  · rcases mem_outbox_append h with h | h
    · exact Or.inl (Or.inr (Or.inr (Or.inr (Or.inl ⟨t, f, idx, h⟩))))
    · exact Or.inr (Or.inl ⟨t, f, idx, h.symm⟩)
  · exact Or.inl (Or.inr (Or.inr (Or.inr (Or.inr (Or.inl h)))))
  · rcases mem_outbox_append h with h | h
    · exact Or.inl (Or.inr (Or.inr (Or.inr (Or.inr (Or.inr ⟨t, v, c, gh, h, hv⟩)))))
    · exact Or.inr (Or.inr ⟨t, v, c, gh, h.symm, hv⟩)

theorem keep_pendt (s : PSys) (h : InvL s) (i : Nat) :
    ∀ im ∈ (s.nodes i).pending, ∀ e ∈ im.log, e.term ≤ im.term := (h.tle i).2.2

set_option maxHeartbeats 1600000 in
theorem invL_step (s s' : PSys) (e : Event)
    (hV : InvV (vsys s)) (hI : InvL s) (h : applyEvent s e = .ok s') : InvL s' := by
  have keepA : ∀ a ∈ s.acks, a ∈ s.acks ∨ PFL s.llog a.pre := fun a ha => Or.inl ha
  have keepS : ∀ m ∈ s.snaps, m ∈ s.snaps ∨ (PFL s.llog m.pre ∧ ∀ e ∈ m.pre, e.term ≤ m.term) := fun m hm => Or.inl hm
  have keepM : ∀ m ∈ s.apps, m ∈ s.apps ∨ MsgOk s m := fun m hm => Or.inl hm
  have keepG : ∀ p ∈ s.rgv, p ∈ s.rgv ∨ PFL s.llog p.2.vlog := fun p hp => Or.inl hp
  cases e with
  | bump i t =>
    simp only [applyEvent, ok] at h
    split at h
    · rename_i hg; cases h
      refine invL_node s hI i _ _ rfl rfl rfl rfl keepA keepS keepM keepG
        (fun l hl => keep_node s hI i l (nl_of_fields hl (s.nodes i) rfl rfl rfl rfl rfl))
        ?_ (hI.tle i).2.1 (keep_pendt s hI i) (by simp) (by simp) (by simp)
      intro e he; have := (hI.tle i).1 e he; simp only; omega
    · cases h
  | campaign i =>
    simp only [applyEvent, ok] at h
    split at h
    · rename_i hg; cases h
      refine invL_node s hI i _ _ rfl rfl rfl rfl keepA keepS keepM keepG ?_
        (hI.tle i).1 (hI.tle i).2.1 (keep_pendt s hI i) (by simp) ?_ (fun _ => hg.2.2.2.2)
      · intro l hl
        -- two messages appended: a vote request and the self-grant (recording the own log)
        have h1 := nl_outbox_append hl { s.nodes i with vote := i, role := 1, outbox := (s.nodes i).outbox ++ [.voteReq (s.nodes i).term i (lastTerm (s.nodes i).log) (s.nodes i).log.length] } (.grant (s.nodes i).term i i ⟨(s.nodes i).log, !(s.elected.any (fun p => p.1 = (s.nodes i).term)), lastTerm (s.nodes i).log, (s.nodes i).log.length⟩) rfl rfl rfl (by simp) rfl
        rcases h1 with h1 | ⟨t, f, idx, h1⟩ | ⟨t, v, c, gh, h1, hv⟩
        · have h2 := nl_outbox_append h1 (s.nodes i) _ rfl rfl rfl rfl rfl
          rcases h2 with h2 | ⟨t, f, idx, h2⟩ | ⟨t, v, c, gh, h2, _⟩
          · exact keep_node s hI i l h2
          · cases h2
          · cases h2
        · cases h1
        · cases h1; rw [← hv]; exact keep_log s hI i
      · intro _ hmem
        obtain ⟨hs, _⟩ := hV.el _ hmem
        have := hV.gu i _ (Or.inr ⟨hs, rfl⟩)
        simp only [vsys, vproj] at this
        have hv := this.2.2 trivial
        rw [hg.2.1] at hv
        have := hg.2.2.2.1
        omega
    · cases h
  | grant i c =>
    simp only [applyEvent, ok] at h
    split at h
    · split at h
      · rename_i hg; cases h
        refine invL_node s hI i _ _ rfl rfl rfl rfl keepA keepS keepM keepG ?_
          (hI.tle i).1 (hI.tle i).2.1 (keep_pendt s hI i) (by simp) (by simp) (by simp)
        intro l hl
        have h1 := nl_outbox_append hl (s.nodes i) _ rfl rfl rfl rfl rfl
        rcases h1 with h1 | ⟨t, f, idx, h1⟩ | ⟨t, v, c', gh, h1, hv⟩
        · exact keep_node s hI i l h1
        · cases h1
        · cases h1; rw [← hv]; exact keep_log s hI i
      · cases h
    · cases h
  | rdy i =>
    simp only [applyEvent, ok] at h
    split at h
    · cases h
      refine invL_node s hI i _ _ rfl rfl rfl rfl keepA keepS keepM keepG ?_
        (hI.tle i).1 (hI.tle i).2.1 ?_ (hI.ll i) (hI.cand i) (hI.pos i)
      · intro l hl
        simp only [nodeLists, List.mem_append, List.mem_singleton] at hl
        rcases hl with hl | hl | ⟨im, him, hl⟩ | hl | hl | hl
        · exact keep_node s hI i l (Or.inl hl)
        · exact keep_node s hI i l (Or.inr (Or.inl hl))
        · rcases him with him | him
          · exact keep_node s hI i l (Or.inr (Or.inr (Or.inl ⟨im, him, hl⟩)))
          · subst him
            rcases hl with hl | ⟨t, f, idx, hl⟩
            · rw [hl]; exact keep_log s hI i
            · simp only [image, List.mem_filter] at hl
              exact keep_node s hI i l (Or.inr (Or.inr (Or.inr (Or.inl ⟨t, f, idx, hl.1⟩))))
        · exact keep_node s hI i l (Or.inr (Or.inr (Or.inr (Or.inl hl))))
        · exact keep_node s hI i l (Or.inr (Or.inr (Or.inr (Or.inr (Or.inl hl)))))
        · exact keep_node s hI i l (Or.inr (Or.inr (Or.inr (Or.inr (Or.inr hl)))))
      · intro im him
        simp only [List.mem_append, List.mem_singleton] at him
        rcases him with him | him
        · exact keep_pendt s hI i im him
        · subst him; exact (hI.tle i).1
    · cases h
  | persist i k =>
    simp only [applyEvent, ok] at h
    split at h
    · split at h
      · rename_i im him
        cases h
        have hmem : im ∈ (s.nodes i).pending := List.mem_of_getElem? him
        refine invL_node s hI i _ _ rfl rfl rfl rfl keepA keepS keepM keepG ?_
          (hI.tle i).1 (keep_pendt s hI i im hmem)
          (fun x hx => keep_pendt s hI i x (List.mem_of_mem_drop hx)) (hI.ll i) (hI.cand i) (hI.pos i)
        intro l hl
        simp only [nodeLists] at hl
        rcases hl with hl | hl | ⟨x, hx, hl⟩ | hl | ⟨t, f, idx, hl⟩ | hl
        · exact keep_node s hI i l (Or.inl hl)
        · exact keep_node s hI i l (Or.inr (Or.inr (Or.inl ⟨im, hmem, Or.inl hl⟩)))
        · exact keep_node s hI i l (Or.inr (Or.inr (Or.inl ⟨x, List.mem_of_mem_drop hx, hl⟩)))
        · exact keep_node s hI i l (Or.inr (Or.inr (Or.inr (Or.inl hl))))
        · exact keep_node s hI i l (Or.inr (Or.inr (Or.inl ⟨im, hmem, Or.inr ⟨t, f, idx, hl⟩⟩)))
        · exact keep_node s hI i l (Or.inr (Or.inr (Or.inr (Or.inr (Or.inr hl)))))
      · cases h
    · cases h
  | release i key =>
    simp only [applyEvent, ok] at h
    split at h
    · split at h
      · rename_i m hm
        split at h
        · rename_i hg
          have hmem : m ∈ (s.nodes i).dacks := List.mem_of_find?_eq_some hm
          cases m with
          | ack t f idx pre =>
            simp only [addReleased] at h; cases h
            refine invL_node s hI i (s.nodes i) _ (by simp [upd_self]) rfl rfl rfl ?_ keepS keepM keepG
              (keep_node s hI i) (hI.tle i).1 (hI.tle i).2.1 (keep_pendt s hI i) (hI.ll i) (hI.cand i) (hI.pos i)
            intro a ha
            simp only [List.mem_cons] at ha
            rcases ha with ha | ha
            · subst ha
              exact Or.inr (keep_node s hI i pre (Or.inr (Or.inr (Or.inr (Or.inr (Or.inl ⟨t, f, idx, hmem⟩))))))
            · exact Or.inl ha
          | voteReq t c lt li => simp [OMsg.isAck] at hg
          | grant t vv c gh => simp [OMsg.isAck] at hg
        · cases h
      · cases h
    · split at h
      · rename_i k hk
        split at h
        · rename_i m hm
          split at h
          · rename_i hg
            have hmem : m ∈ (s.nodes i).outbox := List.mem_of_getElem? hm
            have hnl : ∀ l, nodeLists { s.nodes i with outbox := (s.nodes i).outbox.eraseIdx k } l → PFL s.llog l := by
              intro l hl
              simp only [nodeLists] at hl
              rcases hl with hl | hl | hl | ⟨t, f, idx, hl⟩ | hl | ⟨t, v, c, gh, hl, hv⟩
              · exact keep_node s hI i l (Or.inl hl)
              · exact keep_node s hI i l (Or.inr (Or.inl hl))
              · exact keep_node s hI i l (Or.inr (Or.inr (Or.inl hl)))
              · exact keep_node s hI i l (Or.inr (Or.inr (Or.inr (Or.inl ⟨t, f, idx, List.mem_of_mem_eraseIdx hl⟩))))
              · exact keep_node s hI i l (Or.inr (Or.inr (Or.inr (Or.inr (Or.inl hl)))))
              · exact keep_node s hI i l (Or.inr (Or.inr (Or.inr (Or.inr (Or.inr ⟨t, v, c, gh, List.mem_of_mem_eraseIdx hl, hv⟩)))))
            cases m with
            | voteReq t c lt li =>
              simp only [addReleased] at h; cases h
              exact invL_node s hI i _ _ rfl rfl rfl rfl keepA keepS keepM keepG hnl
                (hI.tle i).1 (hI.tle i).2.1 (keep_pendt s hI i) (hI.ll i) (hI.cand i) (hI.pos i)
            | grant t vv c gh =>
              simp only [addReleased] at h; cases h
              refine invL_node s hI i _ _ rfl rfl rfl rfl keepA keepS keepM ?_ hnl
                (hI.tle i).1 (hI.tle i).2.1 (keep_pendt s hI i) (hI.ll i) (hI.cand i) (hI.pos i)
              intro p hp
              simp only [List.mem_cons] at hp
              rcases hp with hp | hp
              · subst hp
                exact Or.inr (keep_node s hI i _ (Or.inr (Or.inr (Or.inr (Or.inr (Or.inr ⟨t, vv, c, gh, hmem, rfl⟩))))))
              · exact Or.inl hp
            | ack t f idx pre => simp [OMsg.isAck] at hg
          · cases h
        · cases h
      · cases h
  | crash i =>
    simp only [applyEvent, ok] at h
    split at h
    · cases h
      refine invL_node s hI i _ _ rfl rfl rfl rfl keepA keepS keepM keepG ?_
        (hI.tle i).1 (hI.tle i).2.1 (by simp) (by simp) (by simp) (by simp)
      intro l hl
      simp only [nodeLists, List.not_mem_nil, false_and, exists_false, or_false, false_or] at hl
      rcases hl with hl | hl | hl
      · exact keep_node s hI i l (Or.inl hl)
      · exact keep_node s hI i l (Or.inr (Or.inl hl))
      · exact keep_node s hI i l (Or.inr (Or.inr (Or.inr (Or.inr (Or.inl hl)))))
    · cases h
  | restart i =>
    simp only [applyEvent, ok] at h
    split at h
    · cases h
      refine invL_node s hI i _ _ rfl rfl rfl rfl keepA keepS keepM keepG ?_
        (hI.tle i).2.1 (hI.tle i).2.1 (by simp) (by simp) (by simp) (by simp)
      intro l hl
      simp only [nodeLists, List.not_mem_nil, false_and, exists_false, false_or, List.mem_filter] at hl
      rcases hl with hl | hl | ⟨t, f, idx, hl, _⟩ | hl | ⟨t, v, c, gh, ⟨hl, hk⟩, _⟩
      · exact keep_node s hI i l (Or.inr (Or.inl hl))
      · exact keep_node s hI i l (Or.inr (Or.inl hl))
      · exact keep_node s hI i l (Or.inr (Or.inr (Or.inr (Or.inr (Or.inl ⟨t, f, idx, hl⟩)))))
      · exact keep_node s hI i l (Or.inr (Or.inr (Or.inr (Or.inr (Or.inl hl)))))
      · simp [OMsg.isAck] at hk
    · cases h
  | read r =>
    simp only [applyEvent, ok] at h
    split at h
    · cases h; exact ⟨hI.pfl, fun m hm => ⟨(hI.msg m hm).hl, (hI.msg m hm).len, (hI.msg m hm).slice, (hI.msg m hm).anchor⟩, hI.lterm, hI.nole, hI.ll, hI.tle, hI.stle, hI.cand, hI.pos⟩
    · cases h
  | win i cfg q =>
    simp only [applyEvent, ok] at h
    split at h
    · rename_i hg; cases h
      have hall : ∀ x ∈ q, (⟨(s.nodes i).term, x, i⟩ : Grant) ∈ s.grants := by
        have := hg.2.2.2.2.2.1
        simp only [List.all_eq_true, List.contains_iff_mem] at this
        exact this
      have hadj : ∀ p ∈ s.ecfgs, p.1 = (s.nodes i).term → adjOk cfg p.2 = true := by
        have := hg.2.2.2.2.2.2.2.2.1
        simp only [List.all_eq_true, Bool.or_eq_true, decide_eq_true_eq] at this
        intro p hp hpt
        rcases this p hp with h1 | h1
        · exact absurd hpt h1
        · exact h1
      exact invL_win s hV hI i cfg hg.2.1 (win_fresh_elected s hV hI i cfg q hg.2.1 hg.2.2.2.1 hall hadj)
    · cases h
  | stepDown i =>
    simp only [applyEvent, ok] at h
    split at h
    · cases h
      exact invL_node s hI i _ _ rfl rfl rfl rfl keepA keepS keepM keepG
        (fun l hl => keep_node s hI i l (nl_of_fields hl (s.nodes i) rfl rfl rfl rfl rfl))
        (hI.tle i).1 (hI.tle i).2.1 (keep_pendt s hI i) (by simp) (by simp) (by simp)
    · cases h
  | leaderAppend i e =>
    simp only [applyEvent, ok] at h
    split at h
    · rename_i hg; cases h
      exact invL_lappend s hV hI i e hg.2.1 hg.2.2
    · cases h
  | sendApp i m =>
    simp only [applyEvent, ok] at h
    split at h
    · rename_i hg; cases h
      have hll := hI.ll i hg.2.1
      have hok : MsgOk s m := by
        have hes := hg.2.2.2.2.2.2.1
        have hlen : m.es.length ≤ (s.nodes i).log.length - m.prev := by
          have := congrArg List.length hes
          rw [List.length_take, List.length_drop] at this
          omega
        refine ⟨⟨i, ?_⟩, ?_, ?_, ?_⟩
        · have := (hV.ld i (by simpa [vsys, vproj] using hg.2.1)).1
          simp only [vsys, vproj] at this
          rw [hg.2.2.1]; exact this
        · rw [hg.2.2.1, ← hll]; have := hg.2.2.2.2.1; omega
        · rw [hg.2.2.1, ← hll]; exact hes
        · rw [hg.2.2.1, ← hll]; exact hg.2.2.2.2.2.1
      refine invL_node s hI i (s.nodes i) _ (by simp [upd_self]) rfl rfl rfl keepA keepS ?_ keepG
        (keep_node s hI i) (hI.tle i).1 (hI.tle i).2.1 (keep_pendt s hI i) (hI.ll i) (hI.cand i) (hI.pos i)
      intro m' hm'
      simp only [List.mem_cons] at hm'
      rcases hm' with hm' | hm'
      · subst hm'; exact Or.inr hok
      · exact Or.inl hm'
    · cases h
  | recvApp i m =>
    simp only [applyEvent, ok] at h
    split at h
    · rename_i hg; cases h
      have hm : m ∈ s.apps := by simpa [List.contains_iff_mem] using hg.2.1
      have hok := hI.msg m hm
      have hL : PFL s.llog (s.llog m.term) := hI.pfl _ (listsOf_llog s m.term)
      have hanchor : termAt (s.nodes i).log m.prev = termAt (s.llog m.term) m.prev := by
        rw [hg.2.2.2.2.2.1]; exact hok.anchor
      have hpre := anchor_take (keep_log s hI i) hL hg.2.2.2.2.1 (by have := hok.len; omega) hanchor
      have hspec := mergeAt_spec s.llog (s.llog m.term) hL m.es (s.nodes i).log m.prev (keep_log s hI i)
        hg.2.2.2.2.1 hpre hok.slice hok.len
      have hlp : PFL s.llog (mergeAt (s.nodes i).log m.prev m.es) := by
        rcases hspec with h1 | h1
        · rw [h1]; exact keep_log s hI i
        · rw [h1]; exact PFL_take hL _
      have hlt : ∀ e ∈ mergeAt (s.nodes i).log m.prev m.es, e.term ≤ (s.nodes i).term := by
        intro e he
        rcases hspec with h1 | h1
        · rw [h1] at he; exact (hI.tle i).1 e he
        · rw [h1] at he
          have := (hI.lterm m.term e (List.mem_of_mem_take he)).2
          rw [hg.2.2.1] at this; exact this
      refine invL_node s hI i _ _ rfl rfl rfl rfl keepA keepS keepM keepG ?_ hlt
        (hI.tle i).2.1 (keep_pendt s hI i) (by simp) (by simp) (by simp)
      intro l hl
      have h1 := nl_outbox_append hl { s.nodes i with role := 0, log := mergeAt (s.nodes i).log m.prev m.es } _ rfl rfl rfl rfl rfl
      rcases h1 with h1 | ⟨t, f, idx, h1⟩ | ⟨t, v, c, gh, h1, _⟩
      · simp only [nodeLists] at h1
        rcases h1 with h1 | h1
        · rw [h1]; exact hlp
        · exact keep_node s hI i l (Or.inr (by simpa [nodeLists] using h1))
      · cases h1; exact PFL_take hlp _
      · cases h1
    · cases h
  | ackCommitted i =>
    simp only [applyEvent, ok] at h
    split at h
    · cases h
      refine invL_node s hI i _ _ rfl rfl rfl rfl keepA keepS keepM keepG ?_
        (hI.tle i).1 (hI.tle i).2.1 (keep_pendt s hI i) (hI.ll i) (hI.cand i) (hI.pos i)
      intro l hl
      have h1 := nl_outbox_append hl (s.nodes i) _ rfl rfl rfl rfl rfl
      rcases h1 with h1 | ⟨t, f, idx, h1⟩ | ⟨t, v, c, gh, h1, _⟩
      · exact keep_node s hI i l h1
      · cases h1; exact PFL_take (keep_log s hI i) _
      · cases h1
    · cases h
  | ackSelf i idx =>
    simp only [applyEvent, ok] at h
    split at h
    · cases h
      refine invL_node s hI i _ _ rfl rfl rfl rfl keepA keepS keepM keepG ?_
        (hI.tle i).1 (hI.tle i).2.1 (keep_pendt s hI i) (hI.ll i) (hI.cand i) (hI.pos i)
      intro l hl
      have h1 := nl_outbox_append hl (s.nodes i) _ rfl rfl rfl rfl rfl
      rcases h1 with h1 | ⟨t, f, idx', h1⟩ | ⟨t, v, c, gh, h1, _⟩
      · exact keep_node s hI i l h1
      · cases h1; exact PFL_take (keep_log s hI i) _
      · cases h1
    · cases h
  | commitLeader i c cfg q =>
    simp only [applyEvent, ok] at h
    split at h
    · cases h
      exact invL_node s hI i _ _ rfl rfl rfl rfl keepA keepS keepM keepG
        (fun l hl => keep_node s hI i l (nl_of_fields hl (s.nodes i) rfl rfl rfl rfl rfl))
        (hI.tle i).1 (hI.tle i).2.1 (keep_pendt s hI i) (hI.ll i) (hI.cand i) (hI.pos i)
    · cases h
  | commitApp i c m =>
    simp only [applyEvent, ok] at h
    split at h
    · cases h
      exact invL_node s hI i _ _ rfl rfl rfl rfl keepA keepS keepM keepG
        (fun l hl => keep_node s hI i l (nl_of_fields hl (s.nodes i) rfl rfl rfl rfl rfl))
        (hI.tle i).1 (hI.tle i).2.1 (keep_pendt s hI i) (hI.ll i) (hI.cand i) (hI.pos i)
    · cases h
  | commitHB i c m =>
    simp only [applyEvent, ok] at h
    split at h
    · cases h
      exact invL_node s hI i _ _ rfl rfl rfl rfl keepA keepS keepM keepG
        (fun l hl => keep_node s hI i l (nl_of_fields hl (s.nodes i) rfl rfl rfl rfl rfl))
        (hI.tle i).1 (hI.tle i).2.1 (keep_pendt s hI i) (hI.ll i) (hI.cand i) (hI.pos i)
    · cases h
  | commitClaim i m =>
    simp only [applyEvent, ok] at h
    split at h
    · cases h
      exact invL_node s hI i _ _ rfl rfl rfl rfl keepA keepS keepM keepG
        (fun l hl => keep_node s hI i l (nl_of_fields hl (s.nodes i) rfl rfl rfl rfl rfl))
        (hI.tle i).1 (hI.tle i).2.1 (keep_pendt s hI i) (hI.ll i) (hI.cand i) (hI.pos i)
    · cases h
  | sendHB i to c =>
    simp only [applyEvent, ok] at h
    split at h
    · cases h
      exact invL_node s hI i (s.nodes i) _ (by simp [upd_self]) rfl rfl rfl keepA keepS keepM keepG
        (keep_node s hI i) (hI.tle i).1 (hI.tle i).2.1 (keep_pendt s hI i) (hI.ll i) (hI.cand i) (hI.pos i)
    · cases h
  | claim i idx =>
    simp only [applyEvent, ok] at h
    split at h
    · cases h
      exact invL_node s hI i (s.nodes i) _ (by simp [upd_self]) rfl rfl rfl keepA keepS keepM keepG
        (keep_node s hI i) (hI.tle i).1 (hI.tle i).2.1 (keep_pendt s hI i) (hI.ll i) (hI.cand i) (hI.pos i)
    · cases h
  | sendSnap i idx =>
    simp only [applyEvent, ok] at h
    split at h
    · cases h
      refine invL_node s hI i (s.nodes i) _ (by simp [upd_self]) rfl rfl rfl keepA ?_ keepM keepG
        (keep_node s hI i) (hI.tle i).1 (hI.tle i).2.1 (keep_pendt s hI i) (hI.ll i) (hI.cand i) (hI.pos i)
      intro m hm
      simp only [List.mem_cons] at hm
      rcases hm with hm | hm
      · subst hm
        exact Or.inr ⟨PFL_take (keep_log s hI i) _, fun e he => (hI.tle i).1 e (List.mem_of_mem_take he)⟩
      · exact Or.inl hm
    · cases h
  | installSnap i t idx sterm =>
    simp only [applyEvent, ok] at h
    split at h
    · rename_i m hm
      split at h
      · rename_i hg; cases h
        have hmem : m ∈ s.snaps := List.mem_of_find?_eq_some hm
        have hp : PFL s.llog m.pre := hI.pfl _ (listsOf_snap s m hmem)
        refine invL_node s hI i _ _ rfl rfl rfl rfl keepA keepS keepM keepG ?_ ?_
          (hI.tle i).2.1 (keep_pendt s hI i) (by simp) (by simp) (by simp)
        · intro l hl
          have h1 := nl_outbox_append hl { s.nodes i with role := 0, log := m.pre, commit := m.idx } _ rfl rfl rfl rfl rfl
          rcases h1 with h1 | ⟨t', f, idx', h1⟩ | ⟨t', v, c, gh, h1, _⟩
          · simp only [nodeLists] at h1
            rcases h1 with h1 | h1
            · rw [h1]; exact hp
            · exact keep_node s hI i l (Or.inr (by simpa [nodeLists] using h1))
          · cases h1; exact hp
          · cases h1
        · intro e he; have := hI.stle m hmem e he; rw [hg.2.1] at this; exact this
      · cases h
    · cases h
  | commitSnap i t idx sterm =>
    simp only [applyEvent, ok] at h
    split at h
    · split at h
      · cases h
        exact invL_node s hI i _ _ rfl rfl rfl rfl keepA keepS keepM keepG
          (fun l hl => keep_node s hI i l (nl_of_fields hl (s.nodes i) rfl rfl rfl rfl rfl))
          (hI.tle i).1 (hI.tle i).2.1 (keep_pendt s hI i) (hI.ll i) (hI.cand i) (hI.pos i)
      · cases h
    · cases h
  | bootstrap i donor idx =>
    simp only [applyEvent, ok] at h
    split at h
    · rename_i hg; cases h
      have hp : PFL s.llog ((s.nodes donor).dlog.take idx) := PFL_take (keep_dlog s hI donor) _
      have ht : ∀ e ∈ (s.nodes donor).dlog.take idx, e.term ≤ (s.nodes donor).dterm :=
        fun e he => (hI.tle donor).2.1 e (List.mem_of_mem_take he)
      refine invL_node s hI i _ _ rfl rfl rfl rfl keepA keepS keepM keepG ?_ ht ht
        (keep_pendt s hI i) ?_ ?_ ?_
      · intro l hl
        simp only [nodeLists] at hl
        rcases hl with hl | hl | hl | hl | hl | hl
        · rw [hl]; exact hp
        · rw [hl]; exact hp
        · exact keep_node s hI i l (Or.inr (Or.inr (Or.inl hl)))
        · exact keep_node s hI i l (Or.inr (Or.inr (Or.inr (Or.inl hl))))
        · exact keep_node s hI i l (Or.inr (Or.inr (Or.inr (Or.inr (Or.inl hl)))))
        · exact keep_node s hI i l (Or.inr (Or.inr (Or.inr (Or.inr (Or.inr hl)))))
      · simp [hg.2.2.2.2.2.2.2.2.2.2.1]
      · simp [hg.2.2.2.2.2.2.2.2.2.2.1]
      · simp [hg.2.2.2.2.2.2.2.2.2.2.1]
    · cases h

/-- **InvL holds in every reachable state** of P under a fixed configuration with a voter -/
theorem invL_reachR (s : PSys) (h : Reach s) : InvL s := by
  induction h with
  | init => exact invL_init
  | step e hr hs ih => exact invL_step _ _ e (invV_reachR _ hr) ih hs

theorem invL_reach (c0 : Cfg) (_hne : c0.incoming ≠ [] ∨ c0.outgoing ≠ []) (s : PSys) (h : ReachC c0 s) :
    InvL s := invL_reachR s (reach_of_reachC h)

end RaftModel.P
