import RaftProofs.ClusterCommit5c3G
import RaftProofs.ClusterCommit5S

/-!
Cluster-level commit safety **with `batch_append`** (copy of `ClusterCommit4J.lean` over the bundles without `NoBatch`), part 4J: prefixes of a history (the hypotheses `Hyp3wB` are closed under
taking a non-empty prefix), the cluster invariant `CI` ("every progress of a leader is within its log
or its queue is poisoned by a `MsgSnapshot`; every pending read index is committed; every `MsgAppend`
that is queued or in the transport is anchored; every `MsgReadIndexResp` comes from a leader whose
commit index covered it"), and how `CI` on a prefix gives the hypotheses `Hyp3aB` of the main induction
for that prefix.
-/
namespace RaftModel
namespace ClusterB
open Node Raft Raft.CC Raft.CP RaftProps.C02 RaftProps.C05 Raft.CB Raft.Bt Cluster

variable {cfg : JointConfig} {c0 : Nat} {h : List Sys}

/-! ### prefixes -/

/-- the hypotheses without gaps (and without `NoBatch`) are closed under taking a non-empty prefix
(`History.take`, `get_take`, `take_get` are those of `ClusterCommit4J.lean`) -/
theorem Hyp3wB.take (H : Hyp3wB cfg c0 h) {k : Nat} (hk : 0 < k) : Hyp3wB cfg c0 (h.take k) where
  hist := History.take H.hist k hk
  fix := fun s hs => H.fix s (List.mem_of_mem_take hs)
  ne := H.ne
  nd1 := H.nd1
  nd2 := H.nd2
  init := fun s h0 => H.init s (get_take h0).1
  steps := fun n a b ha hb => H.steps n a b (get_take ha).1 (get_take hb).1
  nosnap := fun s hs => H.nosnap s (List.mem_of_mem_take hs)
  mv := H.mv
  nolone := H.nolone
  shape := fun s hs => H.shape s (List.mem_of_mem_take hs)
  initc := fun s h0 => H.initc s (get_take h0).1
  c0z := H.c0z
  snapt0 := fun s0 h0 => H.snapt0 s0 (get_take h0).1
  nosq := fun s hs => H.nosq s (List.mem_of_mem_take hs)

/-! ### the cluster invariant -/

/-- the two facts about one node -/
structure NodeI (st : NState) : Prop where
  po : st.raft.state = .leader →
    QSnap st.raft.msgs ∨ PAll st.raft.raftLog.lastIndex st.raft.prs
  rd : st.raft.state = .leader → ∀ p ∈ st.raft.readOnly.pendingReadIndex,
    p.2.index ≤ st.raft.raftLog.committed

/-- a `MsgAppend` is anchored inside its sender's log -/
def Anch (c0 : Nat) (x : Message) : Prop := x.logTerm ≠ 0 ∨ x.index ≤ c0

theorem RirSrc.mono {n n' : Nat} {x : Message} (hs : RirSrc h n x) (hle : n ≤ n') :
    RirSrc h n' x := by
  obtain ⟨n0, s0, w, stw, h1, h2⟩ := hs
  exact ⟨n0, s0, w, stw, Nat.le_trans h1 hle, h2⟩

/-- **the cluster invariant** for the state `s = h[n]` -/
structure CI (h : List Sys) (c0 n : Nat) (s : Sys) : Prop where
  node : ∀ i st, s.node i = some st → NodeI st
  qa : ∀ i st, s.node i = some st → ∀ x ∈ st.raft.msgs, x.msgType = .msgAppend →
    QSnap st.raft.msgs ∨ Anch c0 x
  qr : ∀ i st, s.node i = some st → ∀ x ∈ st.raft.msgs, x.msgType = .msgReadIndexResp →
    RirSrc h n x
  na : ∀ x ∈ s.net, x.msgType = .msgAppend → Anch c0 x
  nr : ∀ x ∈ s.net, x.msgType = .msgReadIndexResp → RirSrc h n x

/-- **`SaneAnchors` from the cluster invariant**: no `MsgSnapshot` is queued (`nosq`), so a queued
`MsgAppend` is anchored (`Anch c0`), and with `c0 = 0` an anchor with `log_term = 0` is at index 0 -/
theorem sane_of_ci (H : Hyp3wB cfg c0 h) {s : Sys} (hs : s ∈ h) {m : Nat} (hci : CI h c0 m s) :
    SaneAnchors s := by
  intro i st hi x hx hty hz
  rcases hci.qa i st hi x hx hty with ⟨y, hy, hyt⟩ | c | c
  · exact absurd hyt (H.nosq s hs i st hi y hy)
  · exact absurd hz c
  · have := H.c0z; omega

/-- `Hyp2wB` for a prefix all of whose states satisfy `CI` -/
theorem hyp2wB_take (H : Hyp3wB cfg c0 h) {k : Nat} (hk : 0 < k)
    (hci : ∀ m s, m < k → h[m]? = some s → CI h c0 m s) : Hyp2wB cfg c0 (h.take k) where
  hist := History.take H.hist k hk
  fix := fun s hs => H.fix s (List.mem_of_mem_take hs)
  ne := H.ne
  nd1 := H.nd1
  nd2 := H.nd2
  init := fun s h0 => H.init s (get_take h0).1
  steps := fun n a b ha hb => H.steps n a b (get_take ha).1 (get_take hb).1
  nosnap := fun s hs => H.nosnap s (List.mem_of_mem_take hs)
  mv := H.mv
  sane := by
    intro s hs
    obtain ⟨m, hm⟩ := List.mem_iff_getElem?.1 hs
    obtain ⟨hm', hlt⟩ := get_take hm
    exact sane_of_ci H (mem_of_get hm') (hci m s hlt hm')
  nolone := H.nolone
  shape := fun s hs => H.shape s (List.mem_of_mem_take hs)
  initc := fun s h0 => H.initc s (get_take h0).1
  c0z := H.c0z

/-- the hypotheses of the main induction for a prefix all of whose states satisfy `CI` -/
theorem hyp3a_take (H : Hyp3wB cfg c0 h) {k : Nat} (hk : 0 < k)
    (hci : ∀ m s, m < k → h[m]? = some s → CI h c0 m s) : Hyp3aB cfg c0 (h.take k) where
  toHyp2wB := hyp2wB_take H hk hci
  anch := by
    intro s hs x hx hty
    obtain ⟨m, hm⟩ := List.mem_iff_getElem?.1 hs
    obtain ⟨hm', hlt⟩ := get_take hm
    exact (hci m s hlt hm').na x hx hty
  rirs := by
    intro n s hn x hx hty
    obtain ⟨hn', hlt⟩ := get_take hn
    obtain ⟨n0, s0, w, stw, h1, h2, h3⟩ := (hci n s hlt hn').nr x hx hty
    exact ⟨n0, s0, w, stw, h1, by rw [take_get (by omega)]; exact h2, h3⟩
  snapt0 := fun s0 h0 => H.snapt0 s0 (get_take h0).1

end ClusterB
end RaftModel
