import RaftProofs.ProtoC4

/-!
Safety consequences of the commit-layer invariants, for any state that satisfies them:
agreement of leader commits, State Machine Safety for every pair of (volatile, durable, pending)
node states, Leader Completeness for nodes in the leader role, snapshots, and the ghost
"committed log" that every reported entry belongs to and that only grows.
-/
namespace RaftModel.P

/-- any two leader commits agree on their common prefix -/
theorem commits_agree {s : PSys} (hB : InvB s) (hC : InvC s)
    {p p' : Nat × Nat} (hp : p ∈ s.cmts) (hp' : p' ∈ s.cmts) {k : Nat} (hk : k ≤ p.2) (hk' : k ≤ p'.2) :
    (s.llog p.1).take k = (s.llog p'.1).take k := by
  rcases Nat.le_total p.1 p'.1 with h | h
  · exact (cmt_prefix_le hB hC.c3 hC.lc hp h (hC.c3.cq p' hp').2.2.2.1 hk).symm
  · exact cmt_prefix_le hB hC.c3 hC.lc hp' h (hC.c3.cq p hp).2.2.2.1 hk'

/-- two committed prefixes (of any two logs, as of any terms) agree -/
theorem cmtPre_agree {s : PSys} (hB : InvB s) (hC : InvC s)
    {t t' k k' : Nat} {l l' : List LEntry} (h : CmtPre s t k l) (h' : CmtPre s t' k' l') {m : Nat}
    (hm : m ≤ k) (hm' : m ≤ k') : l.take m = l'.take m := by
  rcases h with h | ⟨p, hp, h1, _, h3⟩
  · have : m = 0 := by omega
    subst this; simp
  rcases h' with h' | ⟨p', hp', h1', _, h3'⟩
  · have : m = 0 := by omega
    subst this; simp
  rw [take_of_take_eq h3 hm, take_of_take_eq h3' hm']
  exact commits_agree hB hC hp hp' (by omega) (by omega)

/-- **State Machine Safety**: the logs of any two nodes agree up to any index both report committed -/
theorem sm_safety {s : PSys} (hB : InvB s) (hC : InvC s) (i j k : Nat)
    (hi : k ≤ (s.nodes i).commit) (hj : k ≤ (s.nodes j).commit) :
    (s.nodes i).log.take k = (s.nodes j).log.take k :=
  cmtPre_agree hB hC (hC.c3.cm i) (hC.c3.cm j) hi hj

/-- ... also against what any node holds durably (what it restarts from) -/
theorem sm_safety_durable {s : PSys} (hB : InvB s) (hC : InvC s) (i j k : Nat)
    (hi : k ≤ (s.nodes i).commit) (hj : k ≤ (s.nodes j).dcommit) :
    (s.nodes i).log.take k = (s.nodes j).dlog.take k :=
  cmtPre_agree hB hC (hC.c3.cm i) (hC.c3.cmd j) hi hj

/-- ... and against every released snapshot -/
theorem snapshot_committed {s : PSys} (hB : InvB s) (hC : InvC s) (m : Snap) (hm : m ∈ s.snaps)
    (i : Nat) (hi : m.idx ≤ (s.nodes i).commit) : (s.nodes i).log.take m.idx = m.pre := by
  obtain ⟨hel, hcm, hlen, hpre, _⟩ := hC.c3.csn m hm
  have h1 : CmtPre s m.term m.idx m.pre := by
    rcases hcm with h0 | ⟨p, hp, h1, h2⟩
    · exact Or.inl h0
    · refine Or.inr ⟨p, hp, h1, h2, ?_⟩
      rw [hpre, List.take_take, Nat.min_self]
      exact cmt_prefix_le hB hC.c3 hC.lc hp h2 hel h1
  have := cmtPre_agree hB hC (hC.c3.cm i) h1 hi (Nat.le_refl _)
  rw [this, hpre, List.take_take, Nat.min_self]

/-- **Leader Completeness**: a node in the leader role holds every prefix committed by a leader of a
term not beyond its own -/
theorem leader_complete {s : PSys} (hV : InvV (vsys s)) (hL : InvL s) (hB : InvB s)
    (hC : InvC s) (i : Nat) (hi : (s.nodes i).role = 2) (p : Nat × Nat) (hp : p ∈ s.cmts)
    (ht : p.1 ≤ (s.nodes i).term) : (s.nodes i).log.take p.2 = (s.llog p.1).take p.2 := by
  rw [hL.ll i hi]
  have hel : Elected s (s.nodes i).term := ⟨i, (hV.ld i (by simpa [vsys, vproj] using hi)).1⟩
  exact cmt_prefix hB hC.c3 hC.lc hp ht hel

/-- the ghost log of every elected term holds every prefix committed in an earlier term -/
theorem leader_complete_ghost {s : PSys} (hB : InvB s) (hC : InvC s) (p : Nat × Nat)
    (hp : p ∈ s.cmts) (t : Nat) (ht : p.1 ≤ t) (hel : Elected s t) :
    (s.llog t).take p.2 = (s.llog p.1).take p.2 :=
  cmt_prefix hB hC.c3 hC.lc hp ht hel

/-! ### the committed log -/

/-- entry `e` is committed at (1-based) index `k`: some leader commit covers `k` and the log of that
leader holds `e` there -/
def Committed (s : PSys) (k : Nat) (e : LEntry) : Prop :=
  0 < k ∧ ∃ p ∈ s.cmts, k ≤ p.2 ∧ (s.llog p.1)[k - 1]? = some e

/-- at most one entry is ever committed at an index -/
theorem committed_unique {s : PSys} (hB : InvB s) (hC : InvC s) {k : Nat} {e e' : LEntry}
    (h : Committed s k e) (h' : Committed s k e') : e = e' := by
  obtain ⟨hk, p, hp, h1, h2⟩ := h
  obtain ⟨_, p', hp', h1', h2'⟩ := h'
  have := commits_agree hB hC hp hp' h1 h1'
  have := getElem?_of_take_eq this (show k - 1 < k by omega)
  rw [h2, h2'] at this
  injection this

/-- every entry a node reports committed (index within its commit index) is a committed entry -/
theorem reported_is_committed {s : PSys} (hC : InvC s) (i k : Nat) (hk : 0 < k)
    (hi : k ≤ (s.nodes i).commit) : ∃ e, (s.nodes i).log[k - 1]? = some e ∧ Committed s k e := by
  rcases hC.c3.cm i with h0 | ⟨p, hp, h1, _, h3⟩
  · omega
  · have hlen := (hC.c3.cq p hp).2.1
    have hx : k - 1 < (s.llog p.1).length := by omega
    refine ⟨(s.llog p.1)[k - 1], ?_, hk, p, hp, by omega, List.getElem?_eq_getElem hx⟩
    rw [getElem?_of_take_eq h3 (show k - 1 < (s.nodes i).commit by omega)]
    exact List.getElem?_eq_getElem hx

/-- the same for what a node holds durably -/
theorem durable_is_committed {s : PSys} (hC : InvC s) (i k : Nat) (hk : 0 < k)
    (hi : k ≤ (s.nodes i).dcommit) : ∃ e, (s.nodes i).dlog[k - 1]? = some e ∧ Committed s k e := by
  rcases hC.c3.cmd i with h0 | ⟨p, hp, h1, _, h3⟩
  · omega
  · have hlen := (hC.c3.cq p hp).2.1
    have hx : k - 1 < (s.llog p.1).length := by omega
    refine ⟨(s.llog p.1)[k - 1], ?_, hk, p, hp, by omega, List.getElem?_eq_getElem hx⟩
    rw [getElem?_of_take_eq h3 (show k - 1 < (s.nodes i).dcommit by omega)]
    exact List.getElem?_eq_getElem hx

/-- every entry inside a released snapshot is a committed entry -/
theorem snapshot_is_committed {s : PSys} (hB : InvB s) (hC : InvC s) (m : Snap) (hm : m ∈ s.snaps)
    (k : Nat) (hk : 0 < k) (hi : k ≤ m.idx) : ∃ e, m.pre[k - 1]? = some e ∧ Committed s k e := by
  obtain ⟨hel, hcm, hlen, hpre, _⟩ := hC.c3.csn m hm
  rcases hcm with h0 | ⟨p, hp, h1, h2⟩
  · omega
  · have hl := (hC.c3.cq p hp).2.1
    have hx : k - 1 < (s.llog p.1).length := by omega
    refine ⟨(s.llog p.1)[k - 1], ?_, hk, p, hp, by omega, List.getElem?_eq_getElem hx⟩
    have h3 := cmt_prefix_le hB hC.c3 hC.lc hp h2 hel h1
    rw [hpre, List.getElem?_take, if_pos (by omega), getElem?_of_take_eq h3 (show k - 1 < m.idx by omega)]
    exact List.getElem?_eq_getElem hx

/-- leader commits are never forgotten -/
theorem cmts_step (s s' : PSys) (e : Event) (h : applyEvent s e = .ok s') : ∀ p ∈ s.cmts, p ∈ s'.cmts := by
  cases e with
  | read r =>
    simp only [applyEvent, ok] at h
    split at h
    · cases h; exact fun p hp => hp
    · cases h
  | commitLeader i c cfg q =>
    simp only [applyEvent, ok] at h
    split at h
    · cases h; intro p hp; exact List.mem_cons_of_mem _ hp
    · cases h
  | release i key =>
    simp only [applyEvent, ok] at h
    split at h
    · split at h
      · split at h
        · cases h; intro p hp; rw [(addReleased_llog _ _).2.2.2.1]; exact hp
        · cases h
      · cases h
    · split at h
      · split at h
        · split at h
          · cases h; intro p hp; rw [(addReleased_llog _ _).2.2.2.1]; exact hp
          · cases h
        · cases h
      · cases h
  | grant i c | persist i k | installSnap i t idx sterm | commitSnap i t idx sterm =>
    simp only [applyEvent, ok] at h
    split at h
    · split at h
      · cases h; exact fun p hp => hp
      · cases h
    · cases h
  | bump i t | campaign i | rdy i | crash i | restart i | stepDown i | sendApp i m | recvApp i m
  | ackCommitted i | ackSelf i idx | win i cfg q | leaderAppend i e | commitApp i c m | commitHB i c m
  | commitClaim i m | sendHB i to c | claim i idx | sendSnap i idx | bootstrap i donor idx =>
    simp only [applyEvent, ok] at h
    split at h
    · cases h; exact fun p hp => hp
    · cases h

/-- **a committed entry stays committed** (the committed log only grows) -/
theorem committed_step {s s' : PSys} (hC : InvC s) (g : Grow s s') (e : Event)
    (h : applyEvent s e = .ok s') {k : Nat} {x : LEntry} (hk : Committed s k x) : Committed s' k x := by
  obtain ⟨h0, p, hp, h1, h2⟩ := hk
  obtain ⟨_, hlen, _, hel, _⟩ := hC.c3.cq p hp
  refine ⟨h0, p, cmts_step s s' e h p hp, h1, ?_⟩
  have := g.take_eq hel hlen
  rw [getElem?_of_take_eq this (show k - 1 < p.2 by omega)]
  exact h2

/-- every leader of a later term holds the committed prefix: the retention condition is met for good -/
theorem ncle_of_committed {s : PSys} (hB : InvB s) (hC : InvC s) {p : Nat × Nat}
    (hp : p ∈ s.cmts) (T : Nat) : NCle s p.1 p.2 T :=
  fun t' h1 _ hel => cmt_prefix hB hC.c3 hC.lc hp (Nat.le_of_lt h1) hel

/-- **a committed prefix is durable on a deciding quorum, for good**: for every leader commit there
is a deciding quorum each of whose members holds the committed prefix in its durable log — in the
state in which the commit happened and in every later state, whatever was truncated, overwritten,
crashed or restarted in between -/
theorem committed_durable_on_quorum {s : PSys} (hA : InvA s) (hB : InvB s) (hC : InvC s)
    (p : Nat × Nat) (hp : p ∈ s.cmts) :
    ∃ cfg q, (p, cfg) ∈ s.ccfgs ∧ cfg.isQuorum q = true ∧
      ∀ v ∈ q, (s.nodes v).dlog.take p.2 = (s.llog p.1).take p.2 := by
  obtain ⟨_, _, _, _, cfg, q, hcfg, hq, hacks⟩ := hC.c3.cq p hp
  refine ⟨cfg, q, hcfg, hq, ?_⟩
  intro v hv
  obtain ⟨a, ha, hat, haf, hai⟩ := hacks v hv
  have hsub := hA.sub a ha
  rw [haf, hat] at hsub
  exact hC.c1.retd v p.1 v a.idx a.pre hsub p.2 hai (ncle_of_committed hB hC hp _)

/-- ... and, while such a member is up, in its volatile log as well -/
theorem committed_held_by_quorum {s : PSys} (hA : InvA s) (hB : InvB s) (hC : InvC s)
    (p : Nat × Nat) (hp : p ∈ s.cmts) :
    ∃ cfg q, (p, cfg) ∈ s.ccfgs ∧ cfg.isQuorum q = true ∧ ∀ v ∈ q, (s.nodes v).up = true →
      (s.nodes v).log.take p.2 = (s.llog p.1).take p.2 := by
  obtain ⟨_, _, _, _, cfg, q, hcfg, hq, hacks⟩ := hC.c3.cq p hp
  refine ⟨cfg, q, hcfg, hq, ?_⟩
  intro v hv hup
  obtain ⟨a, ha, hat, haf, hai⟩ := hacks v hv
  have hsub := hA.sub a ha
  rw [haf, hat] at hsub
  exact hC.c1.ret v p.1 v a.idx a.pre (hA.o1 v hup _ hsub rfl) p.2 hai (ncle_of_committed hB hC hp _)

/-- every commit index of every node lies within a recorded leader commit of a term not beyond the node's -/
theorem commit_within_leader_commit {s : PSys} (hC : InvC s) (i : Nat)
    (h0 : 0 < (s.nodes i).commit) :
    ∃ p ∈ s.cmts, (s.nodes i).commit ≤ p.2 ∧ p.1 ≤ (s.nodes i).term := by
  rcases hC.c3.cm i with h | ⟨p, hp, h1, h2, _⟩
  · omega
  · exact ⟨p, hp, h1, h2⟩

end RaftModel.P
