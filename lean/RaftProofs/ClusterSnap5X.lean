import RaftProofs.ClusterSnap5W

/-!
[Copy of `ClusterSnap4K.lean` for the development `Snap5` — see `ClusterSnap5A.lean`.]

Commit safety of `ClusterSem` with compaction **and snapshots**, part 4K (the `Snap5` version of
`ClusterSnap3C`): **the cluster invariant `Snap5.CI2` holds in every state of a history under
`Snap5.Hyp3w`** (`ci_all`) — by induction along the history, where the step from `h[n]` to `h[n+1]`
uses the whole commit layer (`Snap5.Hyp3a`, main induction `Snap5.sm_all`) on the prefix `h[0..n]` —
and hence **the two proof gaps `anch` and `rirs` of the snapshot layer are discharged**:
`Snap5.Hyp3w.toHyp3a`.

What is new with snapshots between nodes: a leader's progress may be in the `Snapshot` state — its
pending snapshot is the index of a `MsgSnapshot` the leader queued, which is the commit index its
storage recorded (`SnapSend`, `snapshotCore_index`, `Sm.scm`), hence within the log, so `become_probe`
resumes within the log —; the delivery of a `MsgSnapshot` and the installation of a pending snapshot
are described completely by `SnapOut` / `PersistOut` (the node is a follower, resp. nothing but the
storage changes); and an anchor at a restored snapshot point carries that point's term, which is the
term of a real entry (`Full.sT`, `Full.der`), hence not `0` (`snap_point_term_ne_zero`).
-/
namespace RaftModel
namespace Cluster
namespace Snap5
open Node Raft Raft.CC Raft.CS RaftProps.C02 RaftProps.C05 Snap

variable {cfg : JointConfig} {c0 : Nat} {h : List Sys}

/-- **snapshot terms are non-zero**: the term a node knows for a snapshot point above `c0` is the
term of a real entry -/
theorem snap_point_term_ne_zero (H : Hyp2w cfg c0 h) {n : Nat} {s : Sys} (hn : h[n]? = some s)
    {v : Nat} {st : NState} (hv : s.node v = some st) {t : Nat}
    (ht : st.raft.raftLog.abs.snapTerm = some t) (hi : c0 < st.raft.raftLog.abs.snapIdx) :
    t ≠ 0 := by
  obtain ⟨sx, _, hall⟩ := H.inv_at
  have I := (ghost_inv H n s hn).node v st hv
  obtain ⟨e, he, het⟩ := I.log.sT t ht hi
  obtain ⟨g, ⟨m1, s1, loc, hs1, hat⟩, hg, _⟩ := I.log.der _ e he
  rw [← het]
  exact (hall s1 (mem_of_get hs1)).nz loc g hat _ e hg

theorem NodeI2.boot {c : Config} {store : MemStorage} {rnd : Option Nat} {st : NState}
    (hb : Node.boot c store rnd = .ok (.ok st)) : NodeI2 st ∧ st.raft.msgs = [] := by
  have hbt := CV.boot_booted c store rnd st hb
  refine ⟨⟨fun hs => ?_, fun hs => ?_, fun x hx => ?_⟩, hbt.msgs⟩
  · rw [hbt.state] at hs; cases hs
  · rw [hbt.state] at hs; cases hs
  · rw [hbt.msgs] at hx; cases hx

/-- a node whose role, tracker, pending reads and queue are untouched, and whose log did not shrink -/
theorem NodeI2.congr {st st' : NState} (hI : NodeI2 st) (hs : st'.raft.state = st.raft.state)
    (hp : st'.raft.prs = st.raft.prs) (hro : st'.raft.readOnly = st.raft.readOnly)
    (hm : ∀ x ∈ st'.raft.msgs, x ∈ st.raft.msgs)
    (hl : st.raft.raftLog.lastIndex ≤ st'.raft.raftLog.lastIndex)
    (hc : st.raft.raftLog.committed ≤ st'.raft.raftLog.committed) : NodeI2 st' := by
  refine ⟨fun c p hp' => ?_, fun c p hp' => ?_, fun x hx hty => ?_⟩
  · rw [hs] at c; rw [hp] at hp'
    obtain ⟨h1, h2, h3⟩ := hI.po c p hp'
    exact ⟨Nat.le_trans h1 hl, by omega, fun hst => Nat.le_trans (h3 hst) hl⟩
  · rw [hs] at c; rw [hro] at hp'
    exact Nat.le_trans (hI.rd c p hp') hc
  · exact Nat.le_trans (hI.qs x (hm x hx) hty) hc

theorem NodeI2.nonleader {st : NState} (hs : st.raft.state ≠ .leader)
    (hq : ∀ x ∈ st.raft.msgs, x.msgType = .msgSnapshot →
      x.snapshot.metadata.index ≤ st.raft.raftLog.committed) : NodeI2 st :=
  ⟨fun c => absurd c hs, fun c => absurd c hs, hq⟩

theorem ci_init (H : Hyp3w cfg c0 h) {s : Sys} (h0 : h[0]? = some s) : CI2 h c0 0 s := by
  have hinit := hist_init H.hist s h0
  have hq : ∀ i st, s.node i = some st → NodeI2 st ∧ st.raft.msgs = [] := by
    intro i st hi
    obtain ⟨c, store, rnd, _, hb⟩ := hinit.2 i st hi
    exact NodeI2.boot hb
  refine ⟨fun i st hi => (hq i st hi).1, fun i st hi x hx => ?_, fun i st hi x hx => ?_,
    fun x hx => ?_, fun x hx => ?_⟩
  · rw [(hq i st hi).2] at hx; cases hx
  · rw [(hq i st hi).2] at hx; cases hx
  · rw [hinit.1] at hx; cases hx
  · rw [hinit.1] at hx; cases hx

/-- a `call` / `deliver` step that is not the delivery of a snapshot, without a pending snapshot:
what it leaves at the stepping node -/
theorem ci_call (H : Hyp3w cfg c0 h) {n : Nat} {a b : Sys} (ha : h[n]? = some a)
    (hb : h[n + 1]? = some b)
    (H' : Hyp3a cfg c0 (h.take (n + 1))) (ca : CI2 h c0 n a)
    {k : Nat} {st st' : NState} {rnd : Option Nat} {op : NodeOp} {res : OpRes}
    (hka : a.node k = some st) (hkb : b.node k = some st')
    (hop : appOp op = true ∨ ∃ m, op = .step m ∧ m ∈ a.net ∧ m.to = k)
    (hco : ∀ j, op = .compact j → CompactOk st.raft.raftLog j)
    (hns : ∀ m, op = .step m → m.msgType ≠ .msgSnapshot)
    (hpn : st.raft.raftLog.unstable.snapshot = none)
    (hss : SnapSend st st')
    (hcall : Node.call st rnd op = .ok (res, st')) :
    NodeI2 st' ∧ (∀ x ∈ st'.raft.msgs, x.msgType = .msgAppend → Anch c0 x) ∧
    (∀ x ∈ st'.raft.msgs, x.msgType = .msgReadIndexResp → RirSrc h (n + 1) x) := by
  have H2 := H.toHyp2w
  obtain ⟨s0, _, hall⟩ := H2.inv_at
  have Ib := hall _ (mem_of_get hb)
  have ha' : (h.take (n + 1))[n]? = some a := by rw [take_get (Nat.lt_succ_self n)]; exact ha
  have oa := node_ok H2 ha hka
  have ob := node_ok H2 hb hkb
  have hop' : op ≠ .drain ∧ ∀ m, op ≠ .rstep m := by
    rcases hop with g1 | ⟨m, g1, _⟩
    · constructor
      · intro hc; rw [hc] at g1; cases g1
      · intro m hc; rw [hc] at g1; cases g1
    · rw [g1]
      exact ⟨(by intro hc; cases hc), (by intro m' hc; cases hc)⟩
  have hB : ∀ m, op = .step m → st.raft.state = .leader → m.msgType = .msgAppendResponse →
      m.reject = false → (m.term = 0 ∨ m.term = st.raft.term) →
      m.index ≤ st.raft.raftLog.lastIndex := by
    intro m hm hs hty hrej ht
    rcases hop with g1 | ⟨m', g1, g2, _⟩
    · rw [hm] at g1; cases g1
    · rw [hm] at g1; cases g1
      exact ack_bound H' ha' hka hs g2 ⟨hty, hrej⟩ ht
  have hpr := call_pr2 st st' rnd op res oa.inv oa.nb hop' hco hpn hns (ca.node k st hka) hB hcall
  have g := (call_facts H2 ha hka hop hco hns hpn hcall).1
  have hcm := call_commit_le oa.inv hop' hco hpn hcall
  have hscm : st.raft.raftLog.store.hardState.commit ≤ st.raft.raftLog.committed :=
    (sm_all H' ha').scm k st hka
  -- every queued `MsgSnapshot` names an index within the commit index
  have hqs : ∀ x ∈ st'.raft.msgs, x.msgType = .msgSnapshot →
      x.snapshot.metadata.index ≤ st'.raft.raftLog.committed := by
    intro x hx hty
    by_cases hold : x ∈ st.raft.msgs
    · exact Nat.le_trans ((ca.node k st hka).qs x hold hty) hcm
    · rw [snapshotCore_index (hss x hx hold hty)]
      exact Nat.le_trans hscm hcm
  refine ⟨⟨fun hs p hp => ?_, hpr.rd, hqs⟩, fun x hx hty => ?_, fun x hx hty => ?_⟩
  · rcases hpr.po hs with c | c
    · exact c.elim
    · obtain ⟨h1, h2, h3⟩ := c p hp
      refine ⟨h1, h2, fun hst => ?_⟩
      rcases h3 hst with d | ⟨y, hy, hyt, hyi⟩
      · exact d
      · rw [← hyi]
        exact Nat.le_trans (hqs y hy hyt) ob.inv.committed_le_last
  · have hold : x ∈ st.raft.msgs → Anch c0 x := fun hxo => ca.qa k st hka x hxo hty
    by_cases hcomp : ∃ j, op = .compact j
    · obtain ⟨j, rfl⟩ := hcomp
      have ho := compact_out oa.inv hpn (hco j rfl) hcall
      exact hold (by rw [← ho.msgs]; exact hx)
    have hnc : ∀ j, op ≠ .compact j := fun j hj => hcomp ⟨j, hj⟩
    have hsi : st'.raft.raftLog.abs.snapIdx = st.raft.raftLog.abs.snapIdx := by
      cases call_step0 H2 ha hka hop hnc hns hpn hcall with
      | same hl => rw [hl]
      | grew es hg => rw [hg.abs]
      | acc m _ _ _ hacc _ _ _ _ => exact hacc.snap.1
    rcases hpr.qa x hx hty with c | c | c
    · exact hold c
    · exact c.elim
    · rcases hpr.qf x hx hty with f | f | f
      · exact hold f
      · exact f.elim
      · rcases g.qlk x hx (by rw [hty]; rfl) with d | d
        · exact hold d
        · by_cases hc0 : x.index ≤ c0
          · exact .inr hc0
          · left
            have hterm := (d.app hty).2
            rw [ob.inv.term_abs] at hterm
            have hfi : st'.raft.raftLog.abs.snapIdx ≤ x.index := by
              rw [oa.inv.firstIndex_abs] at f
              simp only [LLog.firstIndex] at f
              omega
            have hli : x.index ≤ st'.raft.raftLog.abs.lastIndex := by
              rw [← ob.inv.lastIndex_abs]; exact c
            by_cases hlt : st'.raft.raftLog.abs.snapIdx < x.index
            · obtain ⟨e, he⟩ := st'.raft.raftLog.abs.entryAt_exists (i := x.index) hlt hli
              rw [st'.raft.raftLog.abs.term_of_entry he] at hterm
              injection hterm with hterm
              rw [← hterm]
              exact Ib.nz (.log k) _ (at_log hkb) x.index e he
            · -- the anchor is the snapshot point: its term is the term of a real entry
              have heq : x.index = st'.raft.raftLog.abs.snapIdx := by omega
              unfold LLog.term at hterm
              split at hterm
              · omega
              · try rw [if_pos heq] at hterm
                cases hst : st'.raft.raftLog.abs.snapTerm with
                | none => rw [hst] at hterm; cases hterm
                | some t' =>
                  rw [hst] at hterm
                  injection hterm with hterm
                  rw [← hterm]
                  exact snap_point_term_ne_zero H2 hb hkb hst (by omega)
  · have hold : x ∈ st.raft.msgs → RirSrc h (n + 1) x :=
      fun hxo => (ca.qr k st hka x hxo hty).mono (Nat.le_succ n)
    rcases hpr.qr x hx hty with c | c
    · exact hold c
    · rcases g.qlk x hx (by rw [hty]; rfl) with d | d
      · exact hold d
      · exact ⟨n + 1, _, k, st', Nat.le_refl _, hb, hkb, d.lead, d.term.symm, c⟩

/-- **one step of the history keeps the cluster invariant** -/
theorem ci_step (H : Hyp3w cfg c0 h) {n : Nat} {a b : Sys} (ha : h[n]? = some a)
    (hb : h[n + 1]? = some b) (H' : Hyp3a cfg c0 (h.take (n + 1))) (ca : CI2 h c0 n a) :
    CI2 h c0 (n + 1) b := by
  have H2 := H.toHyp2w
  obtain ⟨k, st, st', hka, hkb, hoth, hs⟩ := H2.toHyp.stp ha hb
  have oa := node_ok H2 ha hka
  have ob := node_ok H2 hb hkb
  -- it suffices to look at the stepping node
  have key : NodeI2 st' → (∀ x ∈ st'.raft.msgs, x.msgType = .msgAppend → Anch c0 x) →
      (∀ x ∈ st'.raft.msgs, x.msgType = .msgReadIndexResp → RirSrc h (n + 1) x) →
      CI2 h c0 (n + 1) b := by
    intro hN hA hR
    refine ⟨fun i sti hi => ?_, fun i sti hi x hx hty => ?_, fun i sti hi x hx hty => ?_,
      fun x hx hty => ?_, fun x hx hty => ?_⟩
    · by_cases hik : i = k
      · subst hik; rw [hkb] at hi; cases hi; exact hN
      · rw [hoth i hik] at hi; exact ca.node i sti hi
    · by_cases hik : i = k
      · subst hik; rw [hkb] at hi; cases hi; exact hA x hx hty
      · rw [hoth i hik] at hi; exact ca.qa i sti hi x hx hty
    · by_cases hik : i = k
      · subst hik; rw [hkb] at hi; cases hi; exact hR x hx hty
      · rw [hoth i hik] at hi; exact (ca.qr i sti hi x hx hty).mono (Nat.le_succ n)
    · rcases hs.net_sub x hx with c | c
      · exact ca.na x c hty
      · exact ca.qa k st hka x c hty
    · rcases hs.net_sub x hx with c | c
      · exact (ca.nr x c hty).mono (Nat.le_succ n)
      · exact (ca.qr k st hka x c hty).mono (Nat.le_succ n)
  have same : st'.raft.state = st.raft.state → st'.raft.prs = st.raft.prs →
      st'.raft.readOnly = st.raft.readOnly → st'.raft.msgs = st.raft.msgs →
      st.raft.raftLog.lastIndex ≤ st'.raft.raftLog.lastIndex →
      st.raft.raftLog.committed ≤ st'.raft.raftLog.committed → CI2 h c0 (n + 1) b := by
    intro e1 e2 e3 e4 e5 e6
    refine key ((ca.node k st hka).congr e1 e2 e3 (fun x hx => by rw [← e4]; exact hx) e5 e6)
      (fun x hx hty => ca.qa k st hka x (by rw [← e4]; exact hx) hty)
      (fun x hx hty => (ca.qr k st hka x (by rw [← e4]; exact hx) hty).mono (Nat.le_succ n))
  cases hs with
  | call rnd op res hop hco _ hns hpn hss hcall _ _ _ =>
    obtain ⟨g1, g2, g3⟩ := ci_call H ha hb H' ca hka hkb hop hco hns hpn hss hcall
    exact key g1 g2 g3
  | snap rnd m hm _ hty _ hout _ =>
    cases hout with
    | skip hr =>
      exact same (by rw [hr]) (by rw [hr]) (by rw [hr]) (by rw [hr]) (by rw [hr]; exact Nat.le_refl _)
        (by rw [hr]; exact Nat.le_refl _)
    | handled y hsf _ _ _ hq hack _ _ _ _ hcase =>
      have hcm : st.raft.raftLog.committed ≤ st'.raft.raftLog.committed := by
        cases hcase with
        | kept _ _ hc _ => exact Nat.le_of_eq hc.symm
        | ffwd _ _ hle hc _ _ _ => rw [hc]; exact hle
        | restored hle _ _ hc _ _ => rw [hc]; exact hle
      have hmem : ∀ x ∈ st'.raft.msgs, x.msgType ≠ .msgAppendResponse → x ∈ st.raft.msgs := by
        intro x hx hne
        rw [hq] at hx
        rcases List.mem_append.1 hx with c | c
        · exact c
        · rw [List.mem_singleton.1 c] at hne; exact absurd hack.1 hne
      refine key (NodeI2.nonleader (by rw [hsf]; intro hc; cases hc) (fun x hx hty => ?_))
        (fun x hx hty => ca.qa k st hka x (hmem x hx (by rw [hty]; intro hc; cases hc)) hty)
        (fun x hx hty => (ca.qr k st hka x (hmem x hx (by rw [hty]; intro hc; cases hc))
          hty).mono (Nat.le_succ n))
      exact Nat.le_trans ((ca.node k st hka).qs x (hmem x hx (by rw [hty]; intro hc; cases hc)) hty)
        hcm
  | psnap rnd _ hout _ _ =>
    cases hout with
    | noop hr =>
      exact same (by rw [hr]) (by rw [hr]) (by rw [hr]) (by rw [hr]) (by rw [hr]; exact Nat.le_refl _)
        (by rw [hr]; exact Nat.le_refl _)
    | done sn L _ hr hinv habs hc _ _ _ _ _ _ =>
      refine same (by rw [hr]) (by rw [hr]) (by rw [hr]) (by rw [hr]) ?_ ?_
      · rw [hr]
        show st.raft.raftLog.lastIndex ≤ L.lastIndex
        rw [hinv.lastIndex_abs, oa.inv.lastIndex_abs, habs]
        exact Nat.le_refl _
      · rw [hr]
        show st.raft.raftLog.committed ≤ L.committed
        rw [hc]; exact Nat.le_refl _
  | send _ _ hq hsame _ hr =>
    refine key ⟨fun c p hp => ?_, fun c p hp => ?_, fun x hx => by rw [hq] at hx; cases hx⟩
      (fun x hx => by rw [hq] at hx; cases hx) (fun x hx => by rw [hq] at hx; cases hx)
    · rw [hsame.2.2] at c
      rw [hr] at hp
      rw [hsame.1]
      exact (ca.node k st hka).po c p hp
    · rw [hsame.2.2] at c
      rw [hr] at hp
      rw [hsame.1]
      exact (ca.node k st hka).rd c p hp
  | restart c rnd hboot _ _ =>
    obtain ⟨g1, g2⟩ := NodeI2.boot hboot
    exact key g1 (fun x hx => by rw [g2] at hx; cases hx) (fun x hx => by rw [g2] at hx; cases hx)

/-- **the cluster invariant holds in every state of a history** -/
theorem ci_all (H : Hyp3w cfg c0 h) : ∀ (n : Nat) (s : Sys), h[n]? = some s → CI2 h c0 n s := by
  intro n
  induction n using Nat.strongRecOn with
  | _ n ih =>
    intro s hn
    cases n with
    | zero => exact ci_init H hn
    | succ n =>
      have hlt : n + 1 < h.length := by
        rcases Nat.lt_or_ge (n + 1) h.length with c | c
        · exact c
        · rw [List.getElem?_eq_none c] at hn; cases hn
      have ha : h[n]? = some h[n] := List.getElem?_eq_some_iff.2 ⟨by omega, rfl⟩
      have H' : Hyp3a cfg c0 (h.take (n + 1)) :=
        hyp3a_take H (Nat.succ_pos n) (fun m s hm hs => ih m hm s hs)
      exact ci_step H ha hn H' (ih n (Nat.lt_succ_self n) _ ha)

/-- **the former proof gaps `anch` and `rirs` of the snapshot layer are theorems**: the hypotheses of
the main induction follow from the hypotheses without gaps about the appends and read-index responses
of the transport -/
theorem Hyp3w.toHyp3a (H : Hyp3w cfg c0 h) : Hyp3a cfg c0 h := by
  have hpos : 0 < h.length := List.length_pos_iff.2 (History.ne_nil H.hist)
  have := hyp3a_take H hpos (fun m s _ hs => ci_all H m s hs)
  rw [List.take_length] at this
  exact this

end Snap5
end Cluster
end RaftModel
