import RaftProofs.ClusterSnapB
import RaftProofs.ClusterSnap7I
import RaftProofs.ClusterSnap8_A
import RaftProofs.ClusterSnap8_A2

/-! SCRIPTED COPY (C01n, `RaftProps/C01n.gen/copy_snap.py` + `patches_snap.py`) of the theorems of
`RaftProofs/ClusterSnapB.lean` into `RaftModel.Cluster.Snap.J`: the compaction stack over bundles with `mv` + `sane`
(C05d's `SaneAnchors`) in place of `nb` (`NoBatch`). -/
namespace RaftModel
namespace Cluster
namespace Snap
namespace J
open Node Raft Raft.CC RaftProps.C02 RaftProps.C05

variable {cfg : JointConfig} {c0 : Nat} {h : List Sys}


/-- **the hypotheses of the commit layer** on top of `Hyp` without the former proof gap `norir`
(cf. `Cluster.Hyp2w`; `shape` is gone) — the bundle every lemma of this development takes:
* `nolone`: no joint quorum of `cfg` fits into a single node;
* `nopend` (**proof gap** of the compaction-only stage, goes together with `nosnap`): no node ever has a
  pending snapshot;
* `first0`: in the initial state every storage has the first index `c0 + 1` (the common snapshot point;
  later states may have compacted further);
* `initc`: in the initial state every commit index is `c0`. -/
structure Hyp2w (cfg : JointConfig) (c0 : Nat) (h : List Sys) : Prop extends Hyp cfg h where
  nolone : ∀ i Q, IsJointQuorum cfg Q → ∃ k ∈ Q, k ≠ i
  nopend : ∀ s ∈ h, ∀ i st, s.node i = some st → st.raft.raftLog.unstable.snapshot = none
  first0 : ∀ s : Sys, h[0]? = some s → ∀ i st, s.node i = some st →
    st.raft.raftLog.store.firstIndex = c0 + 1
  initc : ∀ s : Sys, h[0]? = some s → ∀ i st, s.node i = some st → st.raft.raftLog.committed = c0

/-- **the hypotheses of the commit layer as first stated** (`RaftProps/C01e.lean`) on top of `Hyp`
(cf. `Cluster.Hyp2`; `shape` is gone) — `Hyp2w` and `norir`, discharged in `RaftProps/C01g.lean`:
* `nolone`: no joint quorum of `cfg` fits into a single node;
* `nopend` (**proof gap** of the compaction-only stage, goes together with `nosnap`): no node ever has a
  pending snapshot;
* `first0`: in the initial state every storage has the first index `c0 + 1` (the common snapshot point;
  later states may have compacted further);
* `initc`: in the initial state every commit index is `c0`;
* `norir` (**proof gap**): no `MsgReadIndexResp` is ever in the transport. -/
structure Hyp2 (cfg : JointConfig) (c0 : Nat) (h : List Sys) : Prop extends Hyp cfg h where
  nolone : ∀ i Q, IsJointQuorum cfg Q → ∃ k ∈ Q, k ≠ i
  nopend : ∀ s ∈ h, ∀ i st, s.node i = some st → st.raft.raftLog.unstable.snapshot = none
  first0 : ∀ s : Sys, h[0]? = some s → ∀ i st, s.node i = some st →
    st.raft.raftLog.store.firstIndex = c0 + 1
  initc : ∀ s : Sys, h[0]? = some s → ∀ i st, s.node i = some st → st.raft.raftLog.committed = c0
  norir : ∀ s ∈ h, ∀ x ∈ s.net, x.msgType ≠ .msgReadIndexResp

theorem Hyp2.toHyp2w {cfg : JointConfig} {c0 : Nat} {h : List Sys} (H : Hyp2 cfg c0 h) :
    Hyp2w cfg c0 h :=
  { toHyp := H.toHyp, nolone := H.nolone, nopend := H.nopend, first0 := H.first0, initc := H.initc }

/-- **a leader's term is in its storage** -/
theorem leader_floor {cfg : JointConfig} {c0 : Nat} {h : List Sys} (H : Hyp2w cfg c0 h) {s : Sys}
    (hs : s ∈ h) {k τ : Nat} (hl : leads s k τ) : TermFloor s k τ := by
  obtain ⟨st, hk, hst, hterm⟩ := hl
  have hall := hist_all H.hist
  have I1 := hall.1 s hs
  have I2 := hall.2.1 cfg H.fix s hs
  obtain ⟨Q, hQ, hQg⟩ := I2.lead k st hk hst
  obtain ⟨j, hj, hjk⟩ := H.nolone k Q hQ
  rcases hQg j hj with e | ⟨g, hg, g1, g2, g3, g4, g5⟩
  · exact absurd e hjk
  · -- the grant `g` answers a request of `k` that is in the transport
    have hrv : CV.isRVm g = true := by simp [CV.isRVm, g1, g2]
    obtain ⟨stj, _, hok, _⟩ := I1.net g hg hrv
    obtain ⟨q, hq, q1, q2, q3⟩ := hok.2.2.2.2 g1
    have hrvq : CV.isRVm q = true := by simp [CV.isRVm, q1]
    obtain ⟨stk, hstk, hokq, hges⟩ := I1.net q hq hrvq
    rw [q2, g4, hk] at hstk
    cases hstk
    refine ⟨st, hk, Nat.le_of_eq hterm.symm, ?_⟩
    rw [q3, g5, hterm] at hges
    rcases hges with c | ⟨c, _⟩ <;> omega



theorem Hyp2w.inv_at (H : Hyp2w cfg c0 h) :
    ∃ s0, h[0]? = some s0 ∧ ∀ s ∈ h, InvL (Owner h) (EntriesOf s0) s := H.toHyp.invL

theorem Hyp2.inv_at (H : Hyp2 cfg c0 h) :
    ∃ s0, h[0]? = some s0 ∧ ∀ s ∈ h, InvL (Owner h) (EntriesOf s0) s := H.toHyp.invL

/-- one step keeps `Dead` -/
theorem Dead.step (H : Hyp2w cfg c0 h) {n : Nat} {a b : Sys} (ha : h[n]? = some a)
    (hb : h[n + 1]? = some b) {l t : Nat} (hd : Dead a l t) : Dead b l t := by
  obtain ⟨s0, _, hall⟩ := H.inv_at
  obtain ⟨st, hk, hst, hdd⟩ := hd
  have hstep := H.steps n a b ha hb
  obtain ⟨st', hk', hmem, hrel⟩ := C06_cluster_step_term_vote a b hstep.step l st hk
  have hst' : t ≤ st'.raft.raftLog.store.hardState.term := by
    have hge : t ≤ st.raft.term := by rcases hdd with c | ⟨c, _⟩ <;> omega
    rcases hrel with ⟨g, _⟩ | ⟨g1, _, g3, _⟩ | ⟨g, _⟩ <;> omega
  refine ⟨st', hk', hst', ?_⟩
  rcases nodeRelB H.toHyp ha hb l st st' hk hk' with c | c
  · have rt := c.rt
    have hle := rt.le
    by_cases hlt : t < st'.raft.term
    · exact .inl hlt
    · right
      have hge : t ≤ st.raft.term := by rcases hdd with c | ⟨c, _⟩ <;> omega
      have e1 : st'.raft.term = t := by omega
      have e0 : st.raft.term = t := by omega
      have hrole : st.raft.state = .follower ∨ st.raft.state = .preCandidate := by
        rcases hdd with c | ⟨_, c⟩
        · omega
        · exact c
      refine ⟨e1, ?_⟩
      cases hs' : st'.raft.state with
      | follower => exact .inl rfl
      | preCandidate => exact .inr rfl
      | candidate =>
        rcases rt.cand hs' with c | ⟨_, c⟩
        · omega
        · rcases hrole with r | r <;> rw [r] at c <;> cases c
      | leader =>
        rcases rt.lead hs' with c | ⟨_, c | c⟩
        · omega
        · rcases hrole with r | r <;> rw [r] at c <;> cases c
        · rcases hrole with r | r <;> rw [r] at c <;> cases c
  · obtain ⟨st1, st2, cf, rnd, h1, _, h3, h4⟩ := c
    rw [h4, node_setNode_self] at hk'
    cases hk'
    rw [hk] at h1; cases h1
    have hbt := CV.boot_booted cf _ rnd st' h3
    by_cases hlt : t < st'.raft.term
    · exact .inl hlt
    · right
      rw [hbt.term] at hlt ⊢
      exact ⟨by omega, .inl hbt.state⟩

theorem Dead.later (H : Hyp2w cfg c0 h) {l t : Nat} :
    ∀ (d n : Nat) (a b : Sys), h[n]? = some a → h[n + d]? = some b → Dead a l t → Dead b l t := by
  intro d
  induction d with
  | zero => intro n a b ha hb hd; rw [Nat.add_zero, ha] at hb; cases hb; exact hd
  | succ d ih =>
    intro n a b ha hb hd
    have hlt : n + 1 < h.length := by
      rcases Nat.lt_or_ge (n + 1) h.length with c | c
      · exact c
      · have : h.length ≤ n + (d + 1) := by omega
        rw [List.getElem?_eq_none this] at hb; cases hb
    have h1 : h[n + 1]? = some h[n + 1] := List.getElem?_eq_some_iff.2 ⟨hlt, rfl⟩
    exact ih (n + 1) _ b h1 (by rw [← hb]; congr 1; omega) (Dead.step H ha h1 hd)

/-- **the leader of a term is never restarted while the term is still led later** -/
theorem no_restart_between (H : Hyp2w cfg c0 h) {n d : Nat} {s s' : Sys} {l t : Nat}
    (hn : h[n]? = some s) (hn' : h[n + d]? = some s') (hl : leads s l t) (hl' : leads s' l t) :
    ∀ m a b, n ≤ m → m < n + d → h[m]? = some a → h[m + 1]? = some b → ¬ IsRestart l a b := by
  intro m a b hm1 hm2 ha hb hr
  -- after the restart the node is dead for `t`
  have hfl : TermFloor a l t :=
    (leader_floor H (mem_of_get hn) hl).later H.hist hn ha hm1
  obtain ⟨st1, st2, cf, rnd, h1, _, h3, h4⟩ := hr
  obtain ⟨st, hk, _, hk2⟩ := hfl
  rw [hk] at h1; cases h1
  have hbt := CV.boot_booted cf _ rnd st2 h3
  have hdead : Dead b l t := by
    refine ⟨st2, by rw [h4]; exact node_setNode_self a l st2, by rw [hbt.hs]; exact hk2, ?_⟩
    by_cases hlt : t < st2.raft.term
    · exact .inl hlt
    · right
      rw [hbt.term] at hlt ⊢
      exact ⟨by omega, .inl hbt.state⟩
  have : Dead s' l t :=
    Dead.later H (n + d - (m + 1)) (m + 1) b s' hb (by rw [← hn']; congr 1; omega) hdead
  exact this.not_leads hl'

/-- **the logs of the leader of a term at two points of the history**: same node, and the later log
extends the earlier one -/
theorem leader_log_ext (H : Hyp2w cfg c0 h) {n d : Nat} {s s' : Sys} {l l' t : Nat} {st st' : NState}
    (hn : h[n]? = some s) (hn' : h[n + d]? = some s')
    (hk : s.node l = some st) (hk' : s'.node l' = some st')
    (hs : st.raft.state = .leader) (hs' : st'.raft.state = .leader)
    (ht : st.raft.term = t) (ht' : st'.raft.term = t) :
    l = l' ∧ st.raft.raftLog.lastIndex ≤ st'.raft.raftLog.lastIndex ∧
    (∀ k e, st.raft.raftLog.abs.entryAt k = some e → st'.raft.raftLog.abs.snapIdx < k →
      st'.raft.raftLog.abs.entryAt k = some e) ∧
    (∀ k e', st'.raft.raftLog.abs.entryAt k = some e' → k ≤ st.raft.raftLog.lastIndex →
      st.raft.raftLog.abs.entryAt k = some e') := by
  have hll : l = l' :=
    C02_cluster_election_safety cfg H.ne H.nd1 H.nd2 h H.hist H.fix s s' (mem_of_get hn)
      (mem_of_get hn') l l' t ⟨st, hk, hs, ht⟩ ⟨st', hk', hs', ht'⟩
  subst hll
  refine ⟨rfl, ?_⟩
  exact C05_cluster_leader_append_only_batch cfg H.ne H.nd1 H.nd2 h H.hist H.fix H.init H.csteps
    (.inr ⟨H.mv, H.sane⟩) l d n
    s s' st st' hn hn'
    (no_restart_between H hn hn' ⟨st, hk, hs, ht⟩ ⟨st', hk', hs', ht'⟩) hk hk' hs hs'
    (ht'.trans ht.symm)



/-- the transition a contract-abiding step induces -/
theorem trans_of_cstep {own : Nat → Nat → Prop} {ini : Entry → Prop} {a b : Sys}
    (I : InvL own ini a) (hnb : NoBatch a) (hstep : CStep a b) :
    ∃ k st st' pers crash, Trans a b k st st' pers crash := by
  cases hstep with
  | call i st st' rnd op res h1 h2 h3 h4 =>
    exact ⟨i, st, st', _, _, trans_call I hnb h1 (.inl h2) h3 h4⟩
  | deliver i st st' rnd m res h1 h2 _ h4 =>
    exact ⟨i, st, st', _, _, trans_call I hnb h1 (.inr ⟨m, rfl, h2⟩) (fun j hc => by cases hc) h4⟩
  | send i st st' h1 h2 h3 => exact ⟨i, st, st', _, _, trans_send I h1 h2 h3⟩
  | restart i st st' c rnd h1 _ h3 => exact ⟨i, st, st', _, _, trans_restart I h1 h3⟩

theorem owner_uniq (H : Hyp2w cfg c0 h) : ∀ i j t, Owner h i t → Owner h j t → i = j :=
  owner_unique cfg H.ne H.nd1 H.nd2 h H.hist H.fix

theorem entry_floor (H : Hyp2w cfg c0 h) :
    ∀ (n : Nat) (s : Sys), h[n]? = some s → ∀ loc g, At s loc g → ∀ i e, g.entryAt i = some e →
      ∀ k, Owner h k e.term → FloorAt s k e.term := by
  obtain ⟨s0, h0, hall⟩ := H.inv_at
  refine hist_induct h _ ?_ ?_
  · intro s hs loc g hat i e he k hown st hk
    rw [h0] at hs; cases hs
    have I := hall s0 (mem_of_get h0)
    obtain ⟨_, sto, hboot, _, _, _⟩ := H.init s0 h0
    obtain ⟨c, rnd, hb⟩ := hboot k st hk
    have hbt := CV.boot_booted c _ rnd st hb
    have hnc : ¬ CanLead st.raft e.term := fun hc => I.fresh k e.term st hown hk hc loc g hat i e he rfl
    have hge : e.term ≤ st.raft.term := by
      apply Classical.byContradiction
      intro hlt
      exact hnc (.inl (by omega))
    exact ⟨hge, by rw [hbt.hs, ← hbt.term]; exact hge⟩
  · intro n a b ha hb ih loc' g' hat i e he k hown
    have I := hall a (mem_of_get ha)
    have hstep := H.steps n a b ha hb
    obtain ⟨κ, st, st', pers, crash, T⟩ := trans_of_cstepB H.toHyp ha hb
    rcases T.prov loc' g' hat i e he with ⟨loc, g, hA, hE, _⟩ | ⟨_, hl, ht, _⟩
    · exact (ih loc g hA i e hE k hown).step hstep.step
    · -- a fresh entry: its owner is the node that just appended it, which leads the term
      have hlead : leads b κ e.term := ⟨st', T.hk', hl, ht.symm⟩
      have hk : k = κ := owner_uniq H k κ e.term hown ⟨b, mem_of_get hb, hlead⟩
      subst hk
      obtain ⟨st2, h1, h2, h3⟩ := leader_floor H (mem_of_get hb) hlead
      intro st3 hk3
      rw [h1] at hk3; cases hk3
      exact ⟨h2, h3⟩



theorem past_all (H : Hyp2w cfg c0 h) : ∀ (n : Nat) (s : Sys), h[n]? = some s → Past h n s := by
  obtain ⟨s0, h0, hall⟩ := H.inv_at
  have hfloor := entry_floor H
  refine hist_induct h _ ?_ ?_
  · intro s hs
    have I := hall s (mem_of_get hs)
    refine ⟨?_, ?_, ?_⟩
    · intro m sm hm hsm l1 g1 l2 g2 h1 h2
      have : m = 0 := by omega
      subst this
      rw [hs] at hsm; cases hsm
      exact I.agree l1 g1 l2 g2 h1 h2
    · intro m sm hm hsm loc g hat q e he k st hk hl ht
      have : m = 0 := by omega
      subst this
      rw [hs] at hsm; cases hsm
      exact I.lead k st hk hl loc g hat q e he ht.symm
    · intro m sm hm hsm loc g hat q e he k st hown hk hc
      have : m = 0 := by omega
      subst this
      rw [hs] at hsm; cases hsm
      exact I.fresh k e.term st hown hk hc loc g hat q e he rfl
  · intro n a b ha hb ih
    have Ia := hall a (mem_of_get ha)
    have Ib := hall b (mem_of_get hb)
    have hstep := H.steps n a b ha hb
    obtain ⟨κ, st, st', pers, crash, T⟩ := trans_of_cstepB H.toHyp ha hb
    have hownb : ∀ i t, leads b i t → Owner h i t := fun i t hl => ⟨b, mem_of_get hb, hl⟩
    -- a node of `b` is the stepping node or an untouched one
    have node' : ∀ j stj', b.node j = some stj' →
        (j = κ ∧ st' = stj') ∨ (j ≠ κ ∧ a.node j = some stj') := by
      intro j stj' hj
      by_cases hjk : j = κ
      · subst hjk
        rw [T.hk'] at hj
        cases hj
        exact .inl ⟨rfl, rfl⟩
      · exact .inr ⟨hjk, by rw [← T.oth j hjk]; exact hj⟩
    -- the `fresh` clause first (the other two use it at `n`)
    have hfresh : ∀ m sm, m ≤ n + 1 → h[m]? = some sm → ∀ loc g, At sm loc g → ∀ q e,
        g.entryAt q = some e → ∀ k stk, Owner h k e.term → b.node k = some stk →
        CanLead stk.raft e.term → False := by
      intro m sm hm hsm loc g hat q e he k stk hown hk hc
      by_cases hmn : m = n + 1
      · subst hmn
        rw [hb] at hsm; cases hsm
        exact Ib.fresh k e.term stk hown hk hc loc g hat q e he rfl
      · have hm' : m ≤ n := by omega
        rcases node' k stk hk with ⟨rfl, rfl⟩ | ⟨_, hka⟩
        · rcases T.rt with ⟨rt, _⟩ | ⟨hf, hte, _, _⟩
          · exact ih.fresh m sm hm' hsm loc g hat q e he k st hown T.hk (hc.back rt)
          · -- restarted: its term is the stored one, which is at least the entry's term
            have hfl := (hfloor m sm hsm loc g hat q e he k hown).steps
              ((hist_all H.hist).2.2 m n sm a hm' hsm ha) st T.hk
            rcases hc with c | ⟨_, c⟩
            · omega
            · rw [hf] at c; cases c
        · exact ih.fresh m sm hm' hsm loc g hat q e he k stk hown hka hc
    have hlead : ∀ m sm, m ≤ n + 1 → h[m]? = some sm → ∀ loc g, At sm loc g → ∀ q e,
        g.entryAt q = some e → ∀ k stk, b.node k = some stk → stk.raft.state = .leader →
        stk.raft.term = e.term → q ≤ stk.raft.raftLog.lastIndex := by
      intro m sm hm hsm loc g hat q e he k stk hk hl ht
      by_cases hmn : m = n + 1
      · subst hmn
        rw [hb] at hsm; cases hsm
        exact Ib.lead k stk hk hl loc g hat q e he ht.symm
      · have hm' : m ≤ n := by omega
        rcases node' k stk hk with ⟨rfl, rfl⟩ | ⟨_, hka⟩
        · have hown : Owner h k e.term := by
            rw [← ht]; exact hownb k _ ⟨st', T.hk', hl, rfl⟩
          rcases T.rt with ⟨rt, _⟩ | ⟨hf, _⟩
          · rcases rt.lead hl with c | ⟨c1, c2 | c2⟩
            · exact (ih.fresh m sm hm' hsm loc g hat q e he k st hown T.hk (.inl (by omega))).elim
            · exact (ih.fresh m sm hm' hsm loc g hat q e he k st hown T.hk
                (.inr ⟨by omega, c2⟩)).elim
            · have := ih.lead m sm hm' hsm loc g hat q e he k st T.hk c2 (by omega)
              have := T.keep c2 hl c1.symm
              omega
          · rw [hf] at hl; cases hl
        · exact ih.lead m sm hm' hsm loc g hat q e he k stk hka hl ht
    refine ⟨?_, hlead, hfresh⟩
    intro m sm hm hsm l1 g1 l2 g2 h1 h2
    by_cases hmn : m = n + 1
    · subst hmn
      rw [hb] at hsm; cases hsm
      exact Ib.agree l1 g1 l2 g2 h1 h2
    · have hm' : m ≤ n := by omega
      intro i e1 e2 he1 he2 hterm
      rcases T.prov l2 g2 h2 i e2 he2 with ⟨loc, x, hA, hE, hP, _⟩ | ⟨_, hl, ht, hi, _, _⟩
      · obtain ⟨heq, hpp⟩ := ih.agree m sm hm' hsm l1 g1 loc x h1 hA i e1 e2 he1 hE hterm
        exact ⟨heq, fun p p' hp hp' => hpp p p' hp (hP p' hp')⟩
      · -- a fresh link: nothing of its index and term existed before
        exfalso
        have hown : Owner h κ e1.term := by
          rw [hterm, ht]; exact hownb κ _ ⟨st', T.hk', hl, rfl⟩
        rcases T.rt with ⟨rt, _⟩ | ⟨hf, _⟩
        · rcases rt.lead hl with c | ⟨c1, c2 | c2⟩
          · exact ih.fresh m sm hm' hsm l1 g1 h1 i e1 he1 κ st hown T.hk (.inl (by omega))
          · exact ih.fresh m sm hm' hsm l1 g1 h1 i e1 he1 κ st hown T.hk (.inr ⟨by omega, c2⟩)
          · have := ih.lead m sm hm' hsm l1 g1 h1 i e1 he1 κ st T.hk c2 (by omega)
            omega
        · rw [hf] at hl; cases hl

/-- **Log Matching across time**: any two chains of any two states of the history agree -/
theorem agree_all (H : Hyp2w cfg c0 h) (n n' : Nat) (s s' : Sys) (hn : h[n]? = some s)
    (hn' : h[n']? = some s') (l1 l2 : Loc) (g1 g2 : LLog) (h1 : At s l1 g1) (h2 : At s' l2 g2) :
    Agree g1 g2 := by
  rcases Nat.le_total n n' with hle | hle
  · exact (past_all H n' s' hn').agree n s hle hn l1 g1 l2 g2 h1 h2
  · exact ((past_all H n s hn).agree n' s' hle hn' l2 g2 l1 g1 h2 h1).symm


end J
end Snap
end Cluster
end RaftModel

