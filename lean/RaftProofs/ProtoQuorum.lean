import RaftModel.Proto
import RaftProofs.Quorum

/-!
Quorum intersection for the joint configurations of P (`Cfg.isQuorum`), from the counting lemma of
C11 (`RaftModel.quorums_intersect`).
-/
namespace RaftModel.P

theorem majOf_iff (vs q : List Nat) : majOf vs q = true ↔ RaftModel.IsQuorum vs q := by
  unfold majOf countIn RaftModel.IsQuorum RaftModel.majority
  rw [decide_eq_true_eq, List.countP_eq_length_filter]
  have : (vs.filter fun v => q.contains v) = vs.filter fun v => decide (v ∈ q) := by
    apply List.filter_congr
    intro x _
    simp [List.contains_iff_mem]
  rw [this]

/-- a configuration with at least one voter: any two deciding quorums share a voter -/
theorem Cfg.quorums_intersect (c : Cfg) (hne : c.incoming ≠ [] ∨ c.outgoing ≠ []) (q1 q2 : List Nat)
    (h1 : c.isQuorum q1 = true) (h2 : c.isQuorum q2 = true) : ∃ v, v ∈ q1 ∧ v ∈ q2 := by
  unfold Cfg.isQuorum at h1 h2
  simp only [Bool.and_eq_true, Bool.or_eq_true, List.isEmpty_iff] at h1 h2
  rcases hne with h | h
  · have a1 := h1.1.resolve_left h
    have a2 := h2.1.resolve_left h
    obtain ⟨v, _, hv1, hv2⟩ := RaftModel.quorums_intersect _ q1 q2 ((majOf_iff _ _).1 a1) ((majOf_iff _ _).1 a2)
    exact ⟨v, hv1, hv2⟩
  · have a1 := h1.2.resolve_left h
    have a2 := h2.2.resolve_left h
    obtain ⟨v, _, hv1, hv2⟩ := RaftModel.quorums_intersect _ q1 q2 ((majOf_iff _ _).1 a1) ((majOf_iff _ _).1 a2)
    exact ⟨v, hv1, hv2⟩

end RaftModel.P
