import RaftModel.Proto
import RaftProofs.Quorum

/-!
Quorum intersection for the joint configurations of P (`Cfg.isQuorum`), from the counting lemma of
C11 (`RaftModel.quorums_intersect`).
-/
namespace RaftModel.P

theorem majOf_iff (vs q : List Nat) : majOf vs q = true ↔ RaftModel.IsQuorum vs q := by
  unfold majOf countIn RaftModel.IsQuorum RaftModel.majority
  rw [decide_eq_true_eq, List.countP_eq_length_filter]
  have : (vs.filter fun v => q.contains v) = vs.filter fun v => decide (v ∈ q) := by
    apply List.filter_congr
    intro x _
    simp [List.contains_iff_mem]
  rw [this]

/-- a configuration with at least one voter: any two deciding quorums share a voter -/
theorem Cfg.quorums_intersect (c : Cfg) (hne : c.incoming ≠ [] ∨ c.outgoing ≠ []) (q1 q2 : List Nat)
    (h1 : c.isQuorum q1 = true) (h2 : c.isQuorum q2 = true) : ∃ v, v ∈ q1 ∧ v ∈ q2 := by
  unfold Cfg.isQuorum at h1 h2
  simp only [Bool.and_eq_true, Bool.or_eq_true, List.isEmpty_iff] at h1 h2
  rcases hne with h | h
  · have a1 := h1.1.resolve_left h
    have a2 := h2.1.resolve_left h
    obtain ⟨v, _, hv1, hv2⟩ := RaftModel.quorums_intersect _ q1 q2 ((majOf_iff _ _).1 a1) ((majOf_iff _ _).1 a2)
    exact ⟨v, hv1, hv2⟩
  · have a1 := h1.2.resolve_left h
    have a2 := h2.2.resolve_left h
    obtain ⟨v, _, hv1, hv2⟩ := RaftModel.quorums_intersect _ q1 q2 ((majOf_iff _ _).1 a1) ((majOf_iff _ _).1 a2)
    exact ⟨v, hv1, hv2⟩

end RaftModel.P

namespace RaftModel.P

/-- pigeonhole: two duplicate-free sub-lists of a duplicate-free list that are together longer than
it share an element -/
theorem sublists_meet (U A B : List Nat) (hA : A ⊆ U) (hB : B ⊆ U)
    (hAn : A.Nodup) (hBn : B.Nodup) (hlen : U.length < A.length + B.length) : ∃ v, v ∈ A ∧ v ∈ B := by
  apply Classical.byContradiction
  intro hno
  have hdis : ∀ a ∈ A, ∀ b ∈ B, a ≠ b := by
    intro a ha b hb hab
    subst hab
    exact hno ⟨a, ha, hb⟩
  have hnd : (A ++ B).Nodup := List.nodup_append.2 ⟨hAn, hBn, hdis⟩
  have hsub : A ++ B ⊆ U := by
    intro x hx
    rcases List.mem_append.1 hx with h | h
    · exact hA h
    · exact hB h
  have := hnd.length_le_of_subset hsub
  simp only [List.length_append] at this
  omega

theorem halfMeets_intersect (h1 h2 q1 q2 : List Nat) (hm : halfMeets h1 h2 = true)
    (a1 : majOf h1 q1 = true) (a2 : majOf h2 q2 = true) : ∃ v, v ∈ q1 ∧ v ∈ q2 := by
  unfold halfMeets at hm
  simp only [Bool.and_eq_true, decide_eq_true_eq, Bool.not_eq_true'] at hm
  obtain ⟨⟨⟨⟨_, _⟩, hn1⟩, hn2⟩, hlt⟩ := hm
  unfold majOf countIn at a1 a2
  simp only [decide_eq_true_eq] at a1 a2
  have hU1 : ∀ x, x ∈ h1.filter (fun v => q1.contains v) → x ∈ h1 ++ h2.filter (fun v => !h1.contains v) :=
    fun x hx => List.mem_append_left _ ((List.mem_filter.1 hx).1)
  have hU2 : ∀ x, x ∈ h2.filter (fun v => q2.contains v) → x ∈ h1 ++ h2.filter (fun v => !h1.contains v) := by
    intro x hx
    have hx2 := (List.mem_filter.1 hx).1
    by_cases h : x ∈ h1
    · exact List.mem_append_left _ h
    · exact List.mem_append_right _ (List.mem_filter.2 ⟨hx2, by simpa using h⟩)
  obtain ⟨v, hv1, hv2⟩ := sublists_meet (h1 ++ h2.filter (fun v => !h1.contains v)) _ _ hU1 hU2
    (hn1.filter _) (hn2.filter _) (by rw [List.length_append]; omega)
  refine ⟨v, ?_, ?_⟩
  · have := (List.mem_filter.1 hv1).2; simpa using this
  · have := (List.mem_filter.1 hv2).2; simpa using this

/-- **quorums of adjacent configurations meet** -/
theorem adj_intersect (c1 c2 : Cfg) (h : adjOk c1 c2 = true) (q1 q2 : List Nat)
    (h1 : c1.isQuorum q1 = true) (h2 : c2.isQuorum q2 = true) : ∃ v, v ∈ q1 ∧ v ∈ q2 := by
  unfold adjOk at h
  unfold Cfg.isQuorum at h1 h2
  simp only [Bool.and_eq_true, Bool.or_eq_true, List.isEmpty_iff] at h1 h2 h
  have ne_of : ∀ a b : List Nat, halfMeets a b = true → a ≠ [] ∧ b ≠ [] := by
    intro a b hm
    unfold halfMeets at hm
    simp only [Bool.and_eq_true, decide_eq_true_eq, Bool.not_eq_true', List.isEmpty_eq_false_iff] at hm
    exact ⟨hm.1.1.1.1, hm.1.1.1.2⟩
  rcases h with ((h | h) | h) | h
  · have := ne_of _ _ h
    exact halfMeets_intersect _ _ q1 q2 h (h1.1.resolve_left this.1) (h2.1.resolve_left this.2)
  · have := ne_of _ _ h
    exact halfMeets_intersect _ _ q1 q2 h (h1.1.resolve_left this.1) (h2.2.resolve_left this.2)
  · have := ne_of _ _ h
    exact halfMeets_intersect _ _ q1 q2 h (h1.2.resolve_left this.1) (h2.1.resolve_left this.2)
  · have := ne_of _ _ h
    exact halfMeets_intersect _ _ q1 q2 h (h1.2.resolve_left this.1) (h2.2.resolve_left this.2)

/-- `adjOk` is symmetric in what it gives: quorums meet either way round -/
theorem adj_intersect' (c1 c2 : Cfg) (h : adjOk c1 c2 = true) (q1 q2 : List Nat)
    (h1 : c1.isQuorum q1 = true) (h2 : c2.isQuorum q2 = true) : ∃ v, v ∈ q2 ∧ v ∈ q1 := by
  obtain ⟨v, a, b⟩ := adj_intersect c1 c2 h q1 q2 h1 h2
  exact ⟨v, b, a⟩

end RaftModel.P
