import RaftProofs.ClusterSnap3D
import RaftProofs.ClusterCommit7A
import RaftProofs.ClusterCommit5c4M

/-!
Commit safety of `ClusterSem` **with log compaction AND `batch_append`**, part 7A (C01n): the joined
bundle and the first building blocks.

* `Snap7.Hyp3wB`: the fields of `Snap.Hyp3w` (C01g part 1: compaction under `CompactOk`, no snapshots
  between nodes) **without `nb`**, plus `c0z : c0 = 0` (needed by the batching layer, C01f);
* it contains both lines of development: `Hyp3wB.of_hyp3w` (C01g's bundle with `c0 = 0`),
  `Hyp3wB.of_hyp3wL` (C01m's bundle: batching, no compaction); it is closed under prefixes
  (`Hyp3wB.take`, the shape needed by the circle-breaking induction of C01f / C01g);
* `call_prb'`: the per-call relation of the batching layer (`Raft.PB.call_prb`, C01f) **for every
  `NodeOp`, `compact` included** (the batching counterpart of `Snap.call_pr'`);
* `Hyp3wB.invLB_partial`: Log Matching and the clean-queue invariant of C05d on a history with batching
  and compaction, **conditional** on C05d's `SaneAnchors` (which C01f / C01m derive only for histories
  without compaction).
-/
namespace RaftModel
namespace Cluster
namespace Snap7
open Node Raft Raft.CC Raft.CP Raft.PB RaftProps.C02 RaftProps.C05 Snap

/-- **the hypotheses of the commit layer with compaction and with `batch_append` allowed**:
`Snap.Hyp3w` (flattened) without `nb`, plus `c0 = 0` -/
structure Hyp3wB (cfg : JointConfig) (c0 : Nat) (h : List Sys) : Prop where
  hist : History h
  fix : ∀ s ∈ h, FixedCfg cfg s
  ne : cfg.incoming ≠ []
  nd1 : cfg.incoming.Nodup
  nd2 : cfg.outgoing.Nodup
  init : ∀ s : Sys, h[0]? = some s → InitOk s
  steps : ∀ (n : Nat) (a b : Sys), h[n]? = some a → h[n + 1]? = some b → Snap.KStep a b
  nosnap : ∀ s ∈ h, NoSnapNet s
  nolone : ∀ i Q, IsJointQuorum cfg Q → ∃ k ∈ Q, k ≠ i
  nopend : ∀ s ∈ h, ∀ i st, s.node i = some st → st.raft.raftLog.unstable.snapshot = none
  first0 : ∀ s : Sys, h[0]? = some s → ∀ i st, s.node i = some st →
    st.raft.raftLog.store.firstIndex = c0 + 1
  initc : ∀ s : Sys, h[0]? = some s → ∀ i st, s.node i = some st → st.raft.raftLog.committed = c0
  c0z : c0 = 0
  snapt0 : ∀ s0, h[0]? = some s0 → ∀ i sti, s0.node i = some sti → ∀ t0,
    sti.raft.raftLog.abs.snapTerm = some t0 → ∀ j stj, s0.node j = some stj → t0 ≤ stj.raft.term

variable {cfg : JointConfig} {c0 : Nat} {h : List Sys}

/-- C01g's bundle (compaction, no batching) with `c0 = 0` is a special case -/
theorem Hyp3wB.of_hyp3w (H : Snap.Hyp3w cfg 0 h) : Hyp3wB cfg 0 h :=
  { hist := H.hist, fix := H.fix, ne := H.ne, nd1 := H.nd1, nd2 := H.nd2, init := H.init,
    steps := H.steps, nosnap := H.nosnap, nolone := H.nolone, nopend := H.nopend,
    first0 := H.first0, initc := H.initc, c0z := rfl, snapt0 := H.snapt0 }

/-- C01m's bundle (batching, no compaction) is a special case -/
theorem Hyp3wB.of_hyp3wL (H : ClusterB.Hyp3wL cfg c0 h) : Hyp3wB cfg c0 h :=
  { hist := H.hist, fix := H.fix, ne := H.ne, nd1 := H.nd1, nd2 := H.nd2, init := H.init,
    steps := fun n a b ha hb => Snap.KStep.of_old (H.steps n a b ha hb),
    nosnap := H.nosnap, nolone := H.nolone,
    nopend := fun s hs i st hi => (H.shape s hs i st hi).1,
    first0 := fun s h0 i st hi => (H.shape s (Snap.mem_of_get h0) i st hi).2,
    initc := H.initc, c0z := H.c0z, snapt0 := H.snapt0 }

/-- **conditional**: with `NoBatch` in every state the bundle is C01g's -/
theorem Hyp3wB.toHyp3w_partial (H : Hyp3wB cfg c0 h) (nb : ∀ s ∈ h, NoBatch s) :
    Snap.Hyp3w cfg c0 h :=
  { hist := H.hist, fix := H.fix, ne := H.ne, nd1 := H.nd1, nd2 := H.nd2, init := H.init,
    steps := H.steps, nb := nb, nosnap := H.nosnap, nolone := H.nolone, nopend := H.nopend,
    first0 := H.first0, initc := H.initc, snapt0 := H.snapt0 }

/-- the bundle is closed under non-empty prefixes -/
theorem Hyp3wB.take (H : Hyp3wB cfg c0 h) {k : Nat} (hk : 0 < k) : Hyp3wB cfg c0 (h.take k) where
  hist := History.take H.hist k hk
  fix := fun s hs => H.fix s (List.mem_of_mem_take hs)
  ne := H.ne
  nd1 := H.nd1
  nd2 := H.nd2
  init := fun s h0 => H.init s (get_take h0).1
  steps := fun n a b ha hb => H.steps n a b (get_take ha).1 (get_take hb).1
  nosnap := fun s hs => H.nosnap s (List.mem_of_mem_take hs)
  nolone := H.nolone
  nopend := fun s hs => H.nopend s (List.mem_of_mem_take hs)
  first0 := fun s h0 => H.first0 s (get_take h0).1
  initc := fun s h0 => H.initc s (get_take h0).1
  c0z := H.c0z
  snapt0 := fun s0 h0 => H.snapt0 s0 (get_take h0).1

theorem Hyp3wB.csteps (H : Hyp3wB cfg c0 h) :
    ∀ (n : Nat) (a b : Sys), h[n]? = some a → h[n + 1]? = some b → CStep a b :=
  fun n a b ha hb => (H.steps n a b ha hb).cstep

/-! ### `compact` in the per-call relation of the batching layer -/

/-- **one call of a node, `compact` included, batching allowed** (`Raft.PB.call_prb` with its premise
"the op is not a compaction" replaced by the storage contract `CompactOk`; the batching counterpart of
`Snap.call_pr'`, without the hypothesis `batchAppend = false`) -/
theorem call_prb' (st st' : NState) (rnd : Option Nat) (op : NodeOp) (res : OpRes)
    (hinv : st.raft.raftLog.Inv)
    (hop : op ≠ .drain ∧ ∀ m, op ≠ .rstep m)
    (hc : ∀ k, op = .compact k → CompactOk st.raft.raftLog k)
    (hsn : st.raft.raftLog.unstable.snapshot = none)
    (hms : ∀ m, op = .step m → m.msgType ≠ .msgSnapshot)
    (hpo : st.raft.state = .leader →
      QSnap st.raft.msgs ∨ PAll st.raft.raftLog.lastIndex st.raft.prs)
    (hrd : st.raft.state = .leader → ∀ p ∈ st.raft.readOnly.pendingReadIndex,
      p.2.index ≤ st.raft.raftLog.committed)
    (hB : ∀ m, op = .step m → st.raft.state = .leader → m.msgType = .msgAppendResponse →
      m.reject = false → (m.term = 0 ∨ m.term = st.raft.term) →
      m.index ≤ st.raft.raftLog.lastIndex)
    (h : Node.call st rnd op = .ok (res, st')) : PRb st.raft st'.raft := by
  by_cases hco : ∃ j, op = .compact j
  · obtain ⟨j, rfl⟩ := hco
    have ho := compact_out hinv hsn (hc j rfl) h
    obtain ⟨f1, f2, f3⟩ := Snap.compact_frame hinv hsn (hc j rfl) h
    exact PRb.of_same (PWb.start hinv hpo hrd).pr ho.state f1 f2 ho.msgs
      (Nat.le_of_eq f3.symm) (Nat.le_of_eq ho.committed.symm)
  · exact call_prb st st' rnd op res hinv hop (fun k hk => hco ⟨k, hk⟩) hsn hms hpo hrd hB h

/-! ### Log Matching with batching and compaction, conditional on `SaneAnchors` -/

/-- **conditional** (C05d applied to the joined bundle): Log Matching (`InvL`) and the clean-queue
invariant (`InvB`) hold in every state of a history with batching and compaction, *provided* no
`MsgAppend` is ever queued with an anchor in the void (`SaneAnchors`).  C01f / C01m derive
`SaneAnchors` from the commit layer for histories without compaction; with compaction that derivation
is what is missing (see `RaftProps/C01n.REPORT.md`). -/
theorem Hyp3wB.invLB_partial (H : Hyp3wB cfg c0 h) (hsane : ∀ s ∈ h, SaneAnchors s) :
    ∃ s0, h[0]? = some s0 ∧ ∀ s ∈ h, InvL (Owner h) (EntriesOf s0) s ∧ InvB s :=
  RaftProps.C05.cluster_invB_batch cfg H.ne H.nd1 H.nd2 h H.hist H.fix H.init H.csteps
    (ClusterB.multiVoter_of_nolone H.nolone) hsane

end Snap7
end Cluster
end RaftModel
