import RaftProofs.ClusterVoteF

/-!
Cluster-level election safety, part G: the configuration-independent invariant `Inv1` of the cluster
semantics (`RaftModel.Cluster`): node ids, the real-vote messages in the queues and in the transport
are backed by the in-memory and the *stored* `(term, vote)` of their sender, and no node has two
different promises for one term.
-/
namespace RaftModel
namespace Cluster
open Node Raft Raft.CV

/-! ### the association list of nodes -/

theorem lookup_filter_ne {α : Type} (i j : Nat) (hj : j ≠ i) :
    ∀ l : List (Nat × α), (l.filter (fun p => p.1 != i)).lookup j = l.lookup j := by
  intro l
  induction l with
  | nil => rfl
  | cons p rest ih =>
    obtain ⟨k, v⟩ := p
    rw [List.filter_cons]
    by_cases hk : k = i
    · have h1 : ¬ (((k, v).1 != i) = true) := by simp [hk]
      rw [if_neg h1]
      have h2 : (j == k) = false := by rw [hk]; simpa using hj
      rw [List.lookup_cons, h2]
      exact ih
    · have h1 : ((k, v).1 != i) = true := by simpa using hk
      rw [if_pos h1, List.lookup_cons, List.lookup_cons, ih]

theorem node_setNode_self (s : Sys) (i : Nat) (st : NState) : (s.setNode i st).node i = some st := by
  simp [Sys.node, Sys.setNode]

theorem node_setNode_ne (s : Sys) (i j : Nat) (st : NState) (h : j ≠ i) :
    (s.setNode i st).node j = s.node j := by
  have h2 : (j == i) = false := by simpa using h
  simp only [Sys.node, Sys.setNode, List.lookup, h2]
  exact lookup_filter_ne i j h _

theorem node_setNode (s : Sys) (i j : Nat) (st : NState) :
    (s.setNode i st).node j = if j = i then some st else s.node j := by
  by_cases h : j = i
  · subst h; simp [node_setNode_self]
  · simp [h, node_setNode_ne s i j st h]

/-! ### the invariant -/

/-- whom a real-vote message promises the sender's vote to: a request, the sender itself; a granted
response, the addressee -/
def tgt (x : Message) : Nat := if x.msgType = .msgRequestVote then x.frm else x.to

/-- the stored pair is at least `(t, v)` -/
def GeS (st : NState) (t v : Nat) : Prop :=
  t < st.raft.raftLog.store.hardState.term ∨
  (st.raft.raftLog.store.hardState.term = t ∧ st.raft.raftLog.store.hardState.vote = v)

/-- a vote request of `c` for term `t` is in the transport -/
def Req (net : List Message) (c t : Nat) : Prop :=
  ∃ q ∈ net, q.msgType = .msgRequestVote ∧ q.frm = c ∧ q.term = t

/-- a granted vote response `j → c` for term `t` is in the transport -/
def Grant (net : List Message) (j c t : Nat) : Prop :=
  ∃ g ∈ net, g.msgType = .msgRequestVoteResponse ∧ g.reject = false ∧ g.frm = j ∧ g.to = c ∧ g.term = t

/-- a real-vote message of node `i` (state `st`) is backed by the node's in-memory `(term, vote)` -/
def RVok (net : List Message) (st : NState) (i : Nat) (x : Message) : Prop :=
  x.frm = i ∧ x.term ≠ 0 ∧ tgt x ≠ 0 ∧ Ge st.raft x.term (tgt x) ∧
  (x.msgType = .msgRequestVoteResponse → Req net x.to x.term)

structure Inv1 (s : Sys) : Prop where
  ids : ∀ i st, s.node i = some st → st.raft.id = i ∧ i ≠ 0
  queue : ∀ i st, s.node i = some st → ∀ x ∈ st.raft.msgs, isRVm x = true → RVok s.net st i x
  net : ∀ x ∈ s.net, isRVm x = true →
    ∃ st, s.node x.frm = some st ∧ RVok s.net st x.frm x ∧ GeS st x.term (tgt x)
  once : ∀ i st, s.node i = some st → ∀ x y, (x ∈ s.net ∨ x ∈ st.raft.msgs) →
    (y ∈ s.net ∨ y ∈ st.raft.msgs) → isRVm x = true → isRVm y = true → x.frm = i → y.frm = i →
    x.term = y.term → tgt x = tgt y

theorem Ge.mono {r r' : Raft} {t v : Nat} (h : Ge r t v) (hv : v ≠ 0) (htv : TV r r') : Ge r' t v :=
  (GeV.mono (fun _ => h) htv) hv

theorem Req.mono {net net' : List Message} {c t : Nat} (h : Req net c t)
    (hsub : ∀ x ∈ net, x ∈ net') : Req net' c t := by
  obtain ⟨q, hq, h1⟩ := h
  exact ⟨q, hsub q hq, h1⟩

theorem Grant.mono {net net' : List Message} {j c t : Nat} (h : Grant net j c t)
    (hsub : ∀ x ∈ net, x ∈ net') : Grant net' j c t := by
  obtain ⟨q, hq, h1⟩ := h
  exact ⟨q, hsub q hq, h1⟩

theorem RVok.mono {net net' : List Message} {st st' : NState} {i : Nat} {x : Message}
    (h : RVok net st i x) (htv : TV st.raft st'.raft) (hsub : ∀ x ∈ net, x ∈ net') :
    RVok net' st' i x :=
  ⟨h.1, h.2.1, h.2.2.1, Ge.mono h.2.2.2.1 h.2.2.1 htv, fun hx => (h.2.2.2.2 hx).mono hsub⟩

theorem GeS.mono {a r : NState} {t v : Nat} (h : GeS a t v) (hr : HsRel a.raft r.raft)
    (hge : Ge r.raft t v) : GeS r t v := by
  unfold GeS at *
  rcases hr with ⟨h1, h2⟩ | ⟨h1, h2, _⟩ | ⟨h1, h2⟩
  · rw [h1, h2]; exact h
  · rw [h1, h2]; exact hge
  · rcases h with g | ⟨g, _⟩
    · left; omega
    · left; omega

theorem tgt_req {x : Message} (h : x.msgType = .msgRequestVote) : tgt x = x.frm := by
  unfold tgt; rw [if_pos h]

theorem tgt_resp {x : Message} (h : x.msgType = .msgRequestVoteResponse) : tgt x = x.to := by
  unfold tgt; rw [if_neg (by rw [h]; decide)]

/-- a message queued during a call is backed -/
theorem fresh_ok {net : List Message} {st st' : NState} {i : Nat} {m x : Message}
    (hid : st.raft.id = i) (hi : i ≠ 0) (hrv : isRVm x = true)
    (hf : Fresh st.raft m st'.raft x)
    (hm : m.msgType = .msgRequestVote → m ∈ net ∧ m.frm ≠ 0) : RVok net st' i x := by
  obtain ⟨f1, f2, f3, f4⟩ := hf
  rcases isRVm_type hrv with g | ⟨g, _⟩
  · obtain ⟨_, _, q3⟩ := f3 g
    have ht : tgt x = i := by rw [tgt_req g, f1, hid]
    refine ⟨f1.trans hid, f2, by rw [ht]; exact hi, ?_, fun hc => by rw [g] at hc; cases hc⟩
    rw [ht, ← hid]; exact q3 (by rw [hid]; exact hi)
  · obtain ⟨q1, q2, q3, _, q5⟩ := f4 g
    obtain ⟨m1, m2⟩ := hm q1
    have ht : tgt x = m.frm := by rw [tgt_resp g, q2]
    refine ⟨f1.trans hid, f2, by rw [ht]; exact m2, ?_, fun _ => ⟨m, m1, q1, q2.symm, q3.symm⟩⟩
    rw [ht, ← q2]; exact q5 (by rw [q2]; exact m2)

/-- old and new promises of one call agree -/
theorem once_step {net : List Message} {a r : Raft} {i : Nat} {m x y : Message}
    (hx : x.frm = i → isRVm x = true → ((x ∈ net ∨ x ∈ a.msgs) ∧ tgt x ≠ 0 ∧ Ge a x.term (tgt x)) ∨ Fresh a m r x)
    (hy : y.frm = i → isRVm y = true → ((y ∈ net ∨ y ∈ a.msgs) ∧ tgt y ≠ 0 ∧ Ge a y.term (tgt y)) ∨ Fresh a m r y)
    (hold : ∀ x y, (x ∈ net ∨ x ∈ a.msgs) → (y ∈ net ∨ y ∈ a.msgs) → isRVm x = true →
      isRVm y = true → x.frm = i → y.frm = i → x.term = y.term → tgt x = tgt y)
    (hxr : isRVm x = true) (hyr : isRVm y = true) (hxi : x.frm = i) (hyi : y.frm = i)
    (ht : x.term = y.term) : tgt x = tgt y := by
  -- an old promise against a new one
  have key : ∀ u v : Message, isRVm v = true → tgt u ≠ 0 → Ge a u.term (tgt u) → Fresh a m r v →
      u.term = v.term → tgt u = tgt v := by
    intro u v hv hu0 hge hf hterm
    obtain ⟨_, _, f3, f4⟩ := hf
    rcases isRVm_type hv with g | ⟨g, _⟩
    · obtain ⟨_, q2, _⟩ := f3 g
      exfalso
      rcases hge with e | ⟨e, _⟩ <;> omega
    · obtain ⟨_, _, _, q4, _⟩ := f4 g
      rw [tgt_resp g]
      rcases q4 with e | ⟨e1, e2⟩
      · exfalso
        rcases hge with e' | ⟨e', _⟩ <;> omega
      · rcases hge with e' | ⟨_, e'⟩
        · exfalso; omega
        · rcases e2 with e2 | e2
          · exact absurd (e'.symm.trans e2) hu0
          · exact e'.symm.trans e2
  rcases hx hxi hxr with ⟨x1, x2, x3⟩ | fx <;> rcases hy hyi hyr with ⟨y1, y2, y3⟩ | fy
  · exact hold x y x1 y1 hxr hyr hxi hyi ht
  · exact key x y hyr x2 x3 fy ht
  · exact (key y x hxr y2 y3 fx ht.symm).symm
  · -- two new ones
    obtain ⟨a1, _, a3, a4⟩ := fx
    obtain ⟨b1, _, b3, b4⟩ := fy
    rcases isRVm_type hxr with g | ⟨g, _⟩ <;> rcases isRVm_type hyr with g' | ⟨g', _⟩
    · rw [tgt_req g, tgt_req g', a1, b1]
    · exact absurd (b4 g').1 (a3 g).1
    · exact absurd (a4 g).1 (b3 g').1
    · rw [tgt_resp g, tgt_resp g', (a4 g).2.1, (b4 g').2.1]

theorem hsPersisted_ge {st : NState} {t v : Nat} (hp : hsPersisted st) (h : Ge st.raft t v) :
    GeS st t v := by
  unfold GeS; rw [hp.1, hp.2]; exact h

/-- a call of node `i` (`call` or `deliver`): the transport is unchanged -/
theorem Inv1.step_node {s : Sys} {i : Nat} {st st' : NState} {m : Message} (hinv : Inv1 s)
    (hn : s.node i = some st) (hns : NStep st.raft m st'.raft)
    (hm : m.msgType = .msgRequestVote → m ∈ s.net ∧ m.frm ≠ 0) : Inv1 (s.setNode i st') := by
  obtain ⟨hid, hi0⟩ := hinv.ids i st hn
  have hnode : ∀ j, (s.setNode i st').node j = if j = i then some st' else s.node j :=
    fun j => node_setNode s i j st'
  have hsub : ∀ x ∈ s.net, x ∈ s.net := fun _ h => h
  -- every real-vote message of node `i` after the call is an old backed one or a new one
  have hcls : ∀ x, (x ∈ s.net ∨ x ∈ st'.raft.msgs) → x.frm = i → isRVm x = true →
      ((x ∈ s.net ∨ x ∈ st.raft.msgs) ∧ tgt x ≠ 0 ∧ Ge st.raft x.term (tgt x)) ∨
      Fresh st.raft m st'.raft x := by
    intro x hx hxi hrv
    rcases hx with g | g
    · obtain ⟨stx, h1, h2, _⟩ := hinv.net x g hrv
      rw [hxi, hn] at h1; cases h1
      exact Or.inl ⟨Or.inl g, h2.2.2.1, h2.2.2.2.1⟩
    · rcases hns.msgs x g hrv with q | q
      · have h2 := hinv.queue i st hn x q hrv
        exact Or.inl ⟨Or.inr q, h2.2.2.1, h2.2.2.2.1⟩
      · exact Or.inr q
  refine ⟨?_, ?_, ?_, ?_⟩
  · intro j stj hj
    rw [hnode] at hj
    split at hj
    · rename_i hji; subst hji; cases hj
      exact ⟨hns.id.trans hid, hi0⟩
    · exact hinv.ids j stj hj
  · intro j stj hj x hx hrv
    rw [hnode] at hj
    split at hj
    · rename_i hji; subst hji; cases hj
      rcases hns.msgs x hx hrv with q | q
      · exact (hinv.queue j st hn x q hrv).mono hns.tv hsub
      · exact fresh_ok hid hi0 hrv q hm
    · exact hinv.queue j stj hj x hx hrv
  · intro x hx hrv
    show ∃ stx, (s.setNode i st').node x.frm = some stx ∧ RVok s.net stx x.frm x ∧ _
    rw [hnode]
    obtain ⟨stx, h1, h2, h3⟩ := hinv.net x hx hrv
    by_cases hxi : x.frm = i
    · rw [if_pos hxi]
      rw [hxi, hn] at h1; cases h1
      have h2' : RVok s.net st' x.frm x := h2.mono hns.tv hsub
      exact ⟨st', rfl, h2', GeS.mono h3 hns.hs h2'.2.2.2.1⟩
    · rw [if_neg hxi]
      exact ⟨stx, h1, h2, h3⟩
  · intro j stj hj x y hx hy hxr hyr hxj hyj ht
    rw [hnode] at hj
    split at hj
    · rename_i hji; subst hji; cases hj
      exact once_step (fun a b => hcls x hx a b) (fun a b => hcls y hy a b)
        (hinv.once j st hn) hxr hyr hxj hyj ht
    · exact hinv.once j stj hj x y hx hy hxr hyr hxj hyj ht

/-- **`Inv1` is preserved by every step of the cluster** -/
theorem Inv1.step {s s' : Sys} (hinv : Inv1 s) (hstep : Step s s') : Inv1 s' := by
  cases hstep with
  | call i st st' rnd op res hn hop hc =>
    have hns := call_nstep st st' rnd op res hc
    have hloc : isRVt (opMsg op).msgType = false := by
      cases op <;> first | rfl | cases hop
    exact Inv1.step_node hinv hn hns (fun hq => by rw [hq] at hloc; cases hloc)
  | deliver i st st' rnd m res hn hm hto hc =>
    have hns := call_nstep st st' rnd (.step m) res hc
    refine Inv1.step_node hinv hn hns (fun hq => ?_)
    have hq' : m.msgType = .msgRequestVote := hq
    have hrv : isRVm m = true := by unfold isRVm; simp [hq']
    obtain ⟨stm, _, hok, _⟩ := hinv.net m hm hrv
    have := hok.2.2.1
    rw [tgt_req hq'] at this
    exact ⟨hm, this⟩
  | send i st st' hn hp hc =>
    obtain ⟨hcore, hmsgs⟩ := drain_eq st st' hc
    have e1 : st'.raft.term = st.raft.term := congrArg NCore.term hcore
    have e2 : st'.raft.vote = st.raft.vote := congrArg NCore.vote hcore
    have e3 : st'.raft.id = st.raft.id := congrArg NCore.id hcore
    have e8 : st'.raft.raftLog.store.hardState = st.raft.raftLog.store.hardState := congrArg NCore.hs hcore
    have htv : TV st.raft st'.raft := TV.of_eq e1 e2
    have hsub : ∀ x ∈ s.net, x ∈ s.net ++ st.raft.msgs := fun x hx => List.mem_append_left _ hx
    have hnode : ∀ j, ({ (s.setNode i st') with net := s.net ++ st.raft.msgs } : Sys).node j =
        if j = i then some st' else s.node j := fun j => node_setNode s i j st'
    have hges : ∀ t v, GeS st t v → GeS st' t v := by
      intro t v h; unfold GeS at *; rw [e8]; exact h
    refine ⟨?_, ?_, ?_, ?_⟩
    · intro j stj hj
      rw [hnode] at hj
      split at hj
      · rename_i hji; subst hji; cases hj
        rw [e3]; exact hinv.ids j st hn
      · exact hinv.ids j stj hj
    · intro j stj hj x hx hrv
      rw [hnode] at hj
      split at hj
      · cases hj; rw [hmsgs] at hx; cases hx
      · exact (hinv.queue j stj hj x hx hrv).mono (TV.refl _) hsub
    · intro x hx hrv
      show ∃ stx, _ ∧ RVok (s.net ++ st.raft.msgs) stx x.frm x ∧ _
      rw [hnode]
      rcases List.mem_append.1 hx with hx | hx
      · obtain ⟨stx, h1, h2, h3⟩ := hinv.net x hx hrv
        by_cases hxi : x.frm = i
        · rw [if_pos hxi]
          rw [hxi, hn] at h1; cases h1
          exact ⟨st', rfl, h2.mono htv hsub, hges _ _ h3⟩
        · rw [if_neg hxi]
          exact ⟨stx, h1, h2.mono (TV.refl _) hsub, h3⟩
      · have h2 := hinv.queue i st hn x hx hrv
        have hxi : x.frm = i := h2.1
        rw [if_pos hxi]
        refine ⟨st', rfl, by rw [hxi]; exact h2.mono htv hsub, hges _ _ (hsPersisted_ge hp h2.2.2.2.1)⟩
    · intro j stj hj x y hx hy hxr hyr hxj hyj ht
      rw [hnode] at hj
      have hx' : x ∈ s.net ∨ x ∈ st.raft.msgs ∨ x ∈ stj.raft.msgs := by
        rcases hx with g | g
        · rcases List.mem_append.1 g with g | g
          · exact Or.inl g
          · exact Or.inr (Or.inl g)
        · exact Or.inr (Or.inr g)
      have hy' : y ∈ s.net ∨ y ∈ st.raft.msgs ∨ y ∈ stj.raft.msgs := by
        rcases hy with g | g
        · rcases List.mem_append.1 g with g | g
          · exact Or.inl g
          · exact Or.inr (Or.inl g)
        · exact Or.inr (Or.inr g)
      split at hj
      · rename_i hji; subst hji; cases hj
        rw [hmsgs] at hx' hy'
        have hx2 : x ∈ s.net ∨ x ∈ st.raft.msgs := by
          rcases hx' with g | g | g
          · exact Or.inl g
          · exact Or.inr g
          · cases g
        have hy2 : y ∈ s.net ∨ y ∈ st.raft.msgs := by
          rcases hy' with g | g | g
          · exact Or.inl g
          · exact Or.inr g
          · cases g
        exact hinv.once j st hn x y hx2 hy2 hxr hyr hxj hyj ht
      · rename_i hji
        have hx2 : x ∈ s.net ∨ x ∈ stj.raft.msgs := by
          rcases hx' with g | g | g
          · exact Or.inl g
          · exact absurd ((hinv.queue i st hn x g hxr).1.symm.trans hxj).symm hji
          · exact Or.inr g
        have hy2 : y ∈ s.net ∨ y ∈ stj.raft.msgs := by
          rcases hy' with g | g | g
          · exact Or.inl g
          · exact absurd ((hinv.queue i st hn y g hyr).1.symm.trans hyj).symm hji
          · exact Or.inr g
        exact hinv.once j stj hj x y hx2 hy2 hxr hyr hxj hyj ht
  | restart i st st' c rnd hn hci hb =>
    have hbt := boot_booted c _ rnd st' hb
    have hnode : ∀ j, (s.setNode i st').node j = if j = i then some st' else s.node j :=
      fun j => node_setNode s i j st'
    refine ⟨?_, ?_, ?_, ?_⟩
    · intro j stj hj
      rw [hnode] at hj
      split at hj
      · rename_i hji; subst hji; cases hj
        exact ⟨hbt.id.trans hci, by rw [← hci]; exact hbt.idnz⟩
      · exact hinv.ids j stj hj
    · intro j stj hj x hx hrv
      rw [hnode] at hj
      split at hj
      · cases hj; rw [hbt.msgs] at hx; cases hx
      · exact hinv.queue j stj hj x hx hrv
    · intro x hx hrv
      show ∃ stx, (s.setNode i st').node x.frm = some stx ∧ RVok s.net stx x.frm x ∧ _
      rw [hnode]
      obtain ⟨stx, h1, h2, h3⟩ := hinv.net x hx hrv
      by_cases hxi : x.frm = i
      · rw [if_pos hxi]
        rw [hxi, hn] at h1; cases h1
        have hge : Ge st'.raft x.term (tgt x) := by
          unfold Ge; rw [hbt.term, hbt.vote]; exact h3
        refine ⟨st', rfl, ⟨h2.1, h2.2.1, h2.2.2.1, hge, h2.2.2.2.2⟩, ?_⟩
        unfold GeS; rw [hbt.hs]; exact h3
      · rw [if_neg hxi]
        exact ⟨stx, h1, h2, h3⟩
    · intro j stj hj x y hx hy hxr hyr hxj hyj ht
      rw [hnode] at hj
      split at hj
      · rename_i hji; subst hji; cases hj
        rw [hbt.msgs] at hx hy
        have hx2 : x ∈ s.net ∨ x ∈ st.raft.msgs := by
          rcases hx with g | g
          · exact Or.inl g
          · cases g
        have hy2 : y ∈ s.net ∨ y ∈ st.raft.msgs := by
          rcases hy with g | g
          · exact Or.inl g
          · cases g
        exact hinv.once j st hn x y hx2 hy2 hxr hyr hxj hyj ht
      · exact hinv.once j stj hj x y hx hy hxr hyr hxj hyj ht

end Cluster
end RaftModel
