import RaftProofs.ClusterCommit5c2X
import RaftProofs.ClusterCommit3A

/-!
Cluster-level commit safety **with `batch_append`** (copy of `ClusterCommit3B.lean` over the bundles without `NoBatch`), part 3B: the induction step for **what a node has marked committed**
(`nctm_step`): it is covered by a past commit event of a term not above the node's.
-/
namespace RaftModel
namespace ClusterB
open Node Raft Raft.CC RaftProps.C02 RaftProps.C05 RaftProps.C04 Raft.CB Raft.Bt Cluster

variable {cfg : JointConfig} {c0 : Nat} {h : List Sys}

/-- the commit index is never below the common snapshot point -/
theorem c0_le_committed (H : Hyp2wB cfg c0 h) {n : Nat} {s : Sys} (hn : h[n]? = some s) {v : Nat}
    {st : NState} (hv : s.node v = some st) : c0 ≤ st.raft.raftLog.committed := by
  have o := node_okB H hn hv
  have := o.inv.dummy_le_committed
  rw [o.inv.firstIndex_abs] at this
  simp only [LLog.firstIndex] at this
  rw [o.snapIdx] at this
  omega

/-- a `call` / `deliver` step keeps the entries up to the commit index -/
theorem call_keeps_committed (H : Hyp2wB cfg c0 h) {n : Nat} {a b : Sys} (ha : h[n]? = some a)
    (hb : h[n + 1]? = some b) {k : Nat} {st st' : NState} (hk : a.node k = some st)
    (hs : CallStep a k st st') :
    EqUpTo st'.raft.raftLog.abs st.raft.raftLog.abs st.raft.raftLog.committed := by
  have o := node_okB H ha hk
  intro j hj
  cases hs with
  | same hl => rw [hl]
  | grew es hg =>
    rw [hg.abs]
    refine RaftProps.C05.c05_append_entryAt _ _ _ ?_
    have := o.inv.committed_le_last
    rw [o.inv.lastIndex_abs] at this
    omega
  | acc m _ _ _ hacc _ hci _ _ => exact hacc.low j (by omega)

/-- a commit index taken over from a sender whose own commit index is covered -/
theorem covered_of_src {n cL τ τ' c' : Nat} {L g : LLog} (hcov : Covered h c0 n cL τ L)
    (hle : c' ≤ cL) (hτ : τ ≤ τ') (heq : EqUpTo g L c') : Covered h c0 (n + 1) c' τ' g := by
  rcases hcov with c | ⟨E0, h1, h2, h3, h4, h5⟩
  · exact .inl (by omega)
  · exact .inr ⟨E0, h1, by omega, by omega, by omega, heq.trans (h5.mono hle)⟩

theorem nctm_step (H : Hyp3aB cfg c0 h) {n : Nat} (S : SAll h c0 n) {a b : Sys}
    (ha : h[n]? = some a) (hb : h[n + 1]? = some b) :
    ∀ v st', b.node v = some st' →
      Covered h c0 (n + 1) st'.raft.raftLog.committed st'.raft.term st'.raft.raftLog.abs := by
  intro v st' hvb
  have H2 := H.toHyp2wB
  have Sa := S n a (Nat.le_refl _) ha
  obtain ⟨k, stk, stk', hka, hkb, hoth, hs⟩ := stp_of H2 ha hb
  by_cases hvk : v = k
  · subst hvk
    rw [hkb] at hvb; cases hvb
    cases hs with
    | restart c rnd hboot hnet =>
      have hbt := CV.boot_booted c _ rnd st' hboot
      have o := node_okB H2 ha hka
      obtain ⟨_, habs, _⟩ := boot_log c _ rnd st' o.inv.storeWF hboot
      rw [habs, hbt.term]
      rcases boot_committed c _ rnd st' hboot with e | ⟨_, e⟩
      · rw [e]; exact (Sa.ncts v stk hka).mono (Nat.le_succ _) (Nat.le_refl _)
      · left
        rw [e, (H.shape a (mem_of_get ha) v stk hka).2]
        omega
    | send hp hu hq hsame hnet =>
      rw [hsame.1, hsame.2.1]
      exact (Sa.nctm v stk hka).mono (Nat.le_succ _) (Nat.le_refl _)
    | call rnd op res hop hnc hca hcall hnet =>
      obtain ⟨s0, _, hall⟩ := H2.inv_at
      have I := hall a (mem_of_get ha)
      have hL := (call_factsB H2 ha hb hka hkb hnet hop hnc hcall).2.1
      obtain ⟨hsrc, _, _⟩ := call_moreB H2 ha hb hka hkb hnet hop hnc hcall
      have hcs := call_step H2 ha hb hka hkb hnet hop hnc hcall
      have hkeep := call_keeps_committed H2 ha hb hka hcs
      have hc0 := c0_le_committed H2 ha hka
      by_cases hch : st'.raft.raftLog.committed = stk.raft.raftLog.committed
      · rw [hch]
        rcases Sa.nctm v stk hka with c | ⟨E0, h1, h2, h3, h4, h5⟩
        · exact .inl c
        · exact .inr ⟨E0, h1, by omega, h3, Nat.le_trans h4 hL.rt.le, hkeep.trans h5⟩
      have hgt : stk.raft.raftLog.committed < st'.raft.raftLog.committed := by
        have := hsrc.1; omega
      by_cases hlead : st'.raft.state = .leader
      · -- the step is a commit event of this node
        right
        refine ⟨⟨n, v, st'.raft.term, st'.raft.raftLog.committed, st'.raft.raftLog.abs,
          st'.raft.raftLog.persisted⟩, ?_, Nat.lt_succ_self _, Nat.le_refl _, Nat.le_refl _,
          fun _ _ => rfl⟩
        exact ⟨a, b, stk, st', ha, hb, hka, hkb, hlead, rfl, hgt, rfl, rfl, rfl⟩
      rcases hop with h2 | ⟨m, rfl, hm, hto⟩
      · rcases hsrc.2 with c | c | ⟨m, r1, c, _⟩
        · exact absurd c hch
        · exact absurd c hlead
        · rw [c] at h2; cases h2
      · by_cases hty : m.msgType = .msgAppend
        · have hok := I.msgOk hm hty
          have hag := I.agree .net (msgLog m) (.log v) _ ⟨m, hm, hty, rfl⟩ ⟨stk, hka, rfl⟩
          obtain ⟨L, cL, src⟩ := app_src H S ha hm hty
          cases append_call (I.inv v stk hka) hty hok hag hcall with
          | noacc _ hc _ => exact absurd hc hch
          | acc hacc hc _ _ ht _ =>
            have hanc := anchor_eq H ha hka hm hty src hacc.anchor
            have hagr := hacc.agree src.contig src.ents hanc
            have hmt : m.term = st'.raft.term := by
              rcases ht with c | c
              · exact c
              · exact absurd c src.tnz
            refine covered_of_src src.cov (c' := st'.raft.raftLog.committed) ?_
              (Nat.le_of_eq hmt) (fun j hj => hagr j ?_)
            · have := src.commit; omega
            · omega
        · by_cases hhb : m.msgType = .msgHeartbeat
          · obtain ⟨L, cL, src⟩ := hb_src H S ha hm hhb
            rcases hb_call (I.inv v stk hka) hhb hcall with c | ⟨c1, c2, c3, c4, _⟩
            · exact absurd c hch
            · have hceq : st'.raft.raftLog.committed = m.commit := by omega
              have htnz : m.term ≠ 0 := by
                obtain ⟨m0, s, l, st0, _, a2, a3, a4, a5, _⟩ := src.ll
                rw [← a5]
                exact (hall s (mem_of_get a2)).tz l st0 a3 (.inr a4)
              have hmt : m.term = st'.raft.term := by
                rcases c2 with c | c
                · exact c
                · exact absurd c htnz
              rcases src.ack with c | ⟨x, hx, hack, hfrm, hxt, hxi⟩
              · omega
              · have hx0 : x.index ≠ 0 := by omega
                have hfrm' : x.frm = v := hfrm.trans hto
                have hle := ack_term_le H2 ha hka (.inl hx) hack hfrm' hx0
                have hxt' : x.term = stk.raft.term := by omega
                obtain ⟨L1, hl1, hreach, heq1⟩ :=
                  Sa.a2m v stk hka x (.inl hx) hack hfrm' (by omega) hxt'
                refine covered_of_src src.cov (c' := st'.raft.raftLog.committed)
                  (by have := src.commit; omega) (Nat.le_of_eq hmt) (fun j hj => ?_)
                rw [c4, heq1 j (by omega)]
                exact ll_eq H2 hl1 (by rw [hxt]; exact src.ll) (by omega)
                  (by have := src.cle; have := src.commit; omega)
          · rcases hsrc.2 with c | c | ⟨m', r1, c, hls, ev, hrecv⟩
            · exact absurd c hch
            · exact absurd c hlead
            · cases c
              cases ev with
              | append ht _ _ => exact absurd ht hty
              | heartbeat ht _ _ => exact absurd ht hhb
              | snapshot ht _ => exact absurd ht (H.nosnap a (mem_of_get ha) m hm)
              | byVote ht hz hterm hc' _ =>
                -- the commit point of a (pre-)vote message: the sender's log holds it, covered
                have hq := (call_factsB H2 ha hb hka hkb hnet (.inr ⟨m, rfl, hm, hto⟩) hnc hcall).2.2.1
                have hlog : st'.raft.raftLog.abs = stk.raft.raftLog.abs := by
                  rcases hq.l with c | ⟨es, c⟩ | c
                  · exact c
                  · exact absurd c.leader hlead
                  · have c' : m.msgType = .msgAppend := c
                    rw [c'] at ht; cases ht
                have oa := node_okB H2 ha hka
                have hterm' : stk.raft.raftLog.abs.term m.commit = .ok m.commitTerm := by
                  rw [← hls.abs, ← (hls.inv oa.inv).term_abs]; exact hterm
                rcases vote_src H2 S ha hm ht with c | ⟨n0, s0, w, stw, hn0, hs0, hw, d1, d2, d3, d4⟩
                · omega
                · have ow := node_okB H2 hs0 hw
                  obtain ⟨e1, he1, ht1⟩ := stk.raft.raftLog.abs.entry_of_term hterm' hz
                    (by rw [oa.snapIdx]; omega)
                  obtain ⟨e2, he2, ht2⟩ := stw.raft.raftLog.abs.entry_of_term d2 hz
                    (by rw [ow.snapIdx]; omega)
                  have heq := logs_eq_below H2 ha hs0 hka hw he1 he2 (ht1.trans ht2.symm)
                  have hτ : stw.raft.term ≤ st'.raft.term := by
                    rcases hrecv with c | ⟨c1, c2⟩ | ⟨c1, c2⟩
                    · by_cases hp : m.msgType = .msgRequestPreVote
                      · have := d3.1 hp; omega
                      · have := d3.2.1 hp; omega
                    · have := d3.1 c1; omega
                    · have := d3.2.2 (.inl c1)
                      rw [c2] at this; cases this
                  refine covered_of_src d4 (c' := st'.raft.raftLog.committed) (by omega) hτ
                    (fun j hj => ?_)
                  rw [hlog]
                  exact heq j (by omega)
              | readIndexResp ht hterm hc' _ =>
                -- a read index of a leader of the message's term: the sender's commit index covered it
                have hq := (call_factsB H2 ha hb hka hkb hnet (.inr ⟨m, rfl, hm, hto⟩) hnc hcall).2.2.1
                have hlog : st'.raft.raftLog.abs = stk.raft.raftLog.abs := by
                  rcases hq.l with c | ⟨es, c⟩ | c
                  · exact c
                  · exact absurd c.leader hlead
                  · have c' : m.msgType = .msgAppend := c
                    rw [c'] at ht; cases ht
                have oa := node_okB H2 ha hka
                have hterm' : stk.raft.raftLog.abs.term m.index = .ok m.term := by
                  rw [← hls.abs, ← (hls.inv oa.inv).term_abs]; exact hterm
                obtain ⟨n0, s0, w, stw, hn0, hs0, hw, hwl, hwt, hwi⟩ := H.rirs n a ha m hm ht
                have ow := node_okB H2 hs0 hw
                have htnz : m.term ≠ 0 := by
                  rw [← hwt]; exact (hall s0 (mem_of_get hs0)).tz w stw hw (.inr hwl)
                obtain ⟨e1, he1, ht1⟩ := stk.raft.raftLog.abs.entry_of_term hterm' htnz
                  (by rw [oa.snapIdx]; omega)
                have hLw : LeaderLog h n m.term stw.raft.raftLog.abs :=
                  ⟨n0, s0, w, stw, hn0, hs0, hw, hwl, hwt, rfl⟩
                have hreach : m.index ≤ stw.raft.raftLog.abs.lastIndex := by
                  rw [← ow.inv.lastIndex_abs]
                  exact Nat.le_trans hwi ow.inv.committed_le_last
                have hhas : Has stw.raft.raftLog.abs m.index m.term := by
                  obtain ⟨si, hsi, hprov⟩ := entry_prov H2
                  rcases hprov n a ha (.log v) _ (at_log hka) m.index e1 he1 with c | c
                  · have := init_entry_term H2 hsi c hs0 (l := w) (t := m.term) ⟨stw, hw, hwl, hwt⟩
                    omega
                  · obtain ⟨m', s', l', stl, c1, c2, c3, c4, c5, c6, _⟩ := c
                    have hL' : LeaderLog h n m.term stl.raft.raftLog.abs :=
                      ⟨m', s', l', stl, c1, c2, c3, c4, c5.trans ht1, rfl⟩
                    have := ll_eq H2 hL' hLw (stl.raft.raftLog.abs.entryAt_lt c6).2 hreach
                    exact ⟨e1, this.symm.trans c6, ht1⟩
                have heq := eq_ll H2 ha hka hLw ⟨e1, he1, ht1⟩ hhas
                have hτ : stw.raft.term ≤ st'.raft.term := by
                  rw [hwt]
                  rcases hrecv with c | ⟨c1, _⟩ | ⟨c1, _⟩
                  · exact c
                  · rw [c1] at ht; cases ht
                  · rw [c1] at ht; cases ht
                refine covered_of_src (((S n0 s0 hn0 hs0).nctm w stw hw).mono hn0 (Nat.le_refl _))
                  (c' := st'.raft.raftLog.committed) (by omega) hτ (fun j hj => ?_)
                rw [hlog]
                exact heq j (by omega)
  · have hva : a.node v = some st' := by rw [← hoth v hvk]; exact hvb
    exact (Sa.nctm v st' hva).mono (Nat.le_succ _) (Nat.le_refl _)

end ClusterB
end RaftModel
