import RaftProofs.ClusterCommit5c2W

/-!
Cluster-level commit safety **with `batch_append`** (copy of `ClusterCommit2X.lean` over the bundles without `NoBatch`), part 2X: the induction step for **the promise of an acknowledgement in the
logical log** (`a2m_step`).
-/
namespace RaftModel
namespace ClusterB
open Node Raft Raft.CC RaftProps.C02 RaftProps.C05 Raft.CB Raft.Bt Cluster

variable {cfg : JointConfig} {c0 : Nat} {h : List Sys}

/-- the snapshot point of a leader's log -/
theorem LeaderLog.snap (H : Hyp2wB cfg c0 h) {N t : Nat} {L : LLog} (hL : LeaderLog h N t L) :
    L.snapIdx = c0 := by
  obtain ⟨m, s, l, st, _, a2, a3, _, _, rfl⟩ := hL
  exact (node_okB H a2 a3).snapIdx

/-- two leaders' logs that hold the same entry at `c` are equal up to `c` -/
theorem ll_eq_below (H : Hyp2wB cfg c0 h) {N N' t t' : Nat} {L L' : LLog} (h1 : LeaderLog h N t L)
    (h2 : LeaderLog h N' t' L') {c τ : Nat} (hh : Has L c τ) (hh' : Has L' c τ) :
    EqUpTo L L' c := by
  obtain ⟨m, s, l, st, _, a2, a3, _, _, rfl⟩ := h1
  exact eq_ll H a2 a3 h2 hh hh'

/-- an acknowledgement of a node that is around carries a term the node has reached -/
theorem ack_term_le (H : Hyp2wB cfg c0 h) {n : Nat} {a : Sys} (ha : h[n]? = some a) {v : Nat}
    {st : NState} (hv : a.node v = some st) {x : Message} (hx : x ∈ a.net ∨ x ∈ st.raft.msgs)
    (hack : isAck x) (hfrm : x.frm = v) (hidx : x.index ≠ 0) : x.term ≤ st.raft.term := by
  obtain ⟨hq, hn⟩ := ack_inv H n a ha
  rcases hx with c | c
  · exact ((hn x c hack hidx).1 st (by rw [hfrm]; exact hv)).1
  · exact (hq v st hv x c hack hidx).2.1

theorem a2m_step (H : Hyp3aB cfg c0 h) {n : Nat} (S : SAll h c0 n) {a b : Sys}
    (ha : h[n]? = some a) (hb : h[n + 1]? = some b) :
    ∀ v st', b.node v = some st' → ∀ x, (x ∈ b.net ∨ x ∈ st'.raft.msgs) → isAck x → x.frm = v →
      c0 < x.index → x.term = st'.raft.term → Promise h (n + 1) x st'.raft.raftLog.abs := by
  intro v st' hvb x hx hack hfrm hidx hterm
  have H2 := H.toHyp2wB
  have Sa := S n a (Nat.le_refl _) ha
  have hx0 : x.index ≠ 0 := by omega
  obtain ⟨k, stk, stk', hka, hkb, hoth, hs⟩ := stp_of H2 ha hb
  by_cases hvk : v = k
  · subst hvk
    rw [hkb] at hvb; cases hvb
    cases hs with
    | restart c rnd hboot hnet =>
      have hbt := CV.boot_booted c _ rnd st' hboot
      obtain ⟨_, habs, _⟩ := boot_log c _ rnd st' (node_okB H2 ha hka).inv.storeWF hboot
      have hxa : x ∈ a.net := by
        rcases hx with c | c
        · rw [hnet] at c; exact c
        · rw [hbt.msgs] at c; cases c
      rw [habs]
      exact (Sa.a2s v stk hka x hxa hack hfrm hidx (by rw [hterm, hbt.term])).mono (Nat.le_succ _)
    | send hp hu hq hsame hnet =>
      have hxa : x ∈ a.net ∨ x ∈ stk.raft.msgs := by
        rcases hx with c | c
        · rw [hnet] at c; exact List.mem_append.1 c
        · rw [hq] at c; cases c
      rw [hsame.1]
      exact (Sa.a2m v stk hka x hxa hack hfrm hidx (by rw [hterm, hsame.2.1])).mono (Nat.le_succ _)
    | call rnd op res hop hnc hca hcall hnet =>
      have hL := (call_factsB H2 ha hb hka hkb hnet hop hnc hcall).2.1
      by_cases hold : x ∈ a.net ∨ x ∈ stk.raft.msgs
      · have hle := ack_term_le H2 ha hka hold hack hfrm hx0
        have hteq : x.term = stk.raft.term := by have := hL.rt.le; omega
        obtain ⟨L1, hl1, hreach, heq⟩ := Sa.a2m v stk hka x hold hack hfrm hidx hteq
        refine ⟨L1, hl1.mono (Nat.le_succ _), hreach, ?_⟩
        cases call_step H2 ha hb hka hkb hnet hop hnc hcall with
        | same hl => rw [hl]; exact heq
        | grew es hg =>
          intro j hj
          rw [← heq j hj, hg.abs]
          refine RaftProps.C05.c05_append_entryAt _ _ _ ?_
          -- the old log reaches the acknowledged index
          obtain ⟨e, he⟩ := L1.entryAt_exists (i := x.index) (by rw [hl1.snap H2]; exact hidx) hreach
          rw [← heq x.index (Nat.le_refl _)] at he
          exact Nat.le_trans hj (stk.raft.raftLog.abs.entryAt_lt he).2
        | acc m hm hty hto hacc _ _ _ ht =>
          obtain ⟨L, cL, src⟩ := app_src H S ha hm hty
          have hmt : m.term = x.term := by
            rcases ht with c | c
            · rw [c, hterm]
            · exact absurd c src.tnz
          have hcomp : ∀ j, j ≤ x.index → ∀ e, L.entryAt j = some e →
              stk.raft.raftLog.abs.entryAt j = some e := by
            intro j hj e he
            rw [heq j hj, ← ll_eq H2 (by rw [← hmt]; exact src.ll) hl1 (L.entryAt_lt he).2
              (Nat.le_trans hj hreach)]
            exact he
          intro j hj
          rw [hacc.keep src.contig src.ents hcomp j hj]
          exact heq j hj
      · -- a fresh acknowledgement
        have hxq : x ∈ st'.raft.msgs ∧ x ∉ stk.raft.msgs := by
          rcases hx with c | c
          · rw [hnet] at c; exact absurd (.inl c) hold
          · exact ⟨c, fun d => hold (.inr d)⟩
        obtain ⟨_, _, _, m, _, hm, hty, hmt, hcase⟩ :=
          fresh_ack2 H2 ha hb hka hkb hnet hop hnc hcall hxq.1 hxq.2 hack hx0
        obtain ⟨L, cL, src⟩ := app_src H S ha hm hty
        have hLl : LeaderLog h (n + 1) x.term L := by
          rw [← hmt]; exact src.ll.mono (Nat.le_succ _)
        rcases hcase with ⟨hacc, hxi⟩ | ⟨hl, hxi, _⟩
        · have hanc := anchor_eq H ha hka hm hty src hacc.anchor
          have hag := hacc.agree src.contig src.ents hanc
          exact ⟨L, hLl, by rw [hxi]; exact src.last, fun j hj => hag j (by omega)⟩
        · rw [hl]
          rcases Sa.nctm v stk hka with c | ⟨E0, hE0, hp0, hc1, ht0, hq0⟩
          · omega
          · obtain ⟨hEl0, hEh0, _⟩ := Ev.leaderLog H2 hE0
            obtain ⟨e0, he0, _⟩ := id hEh0
            have hE0c : E0.c ≤ E0.gE.lastIndex := (E0.gE.entryAt_lt he0).2
            have ht0' : E0.t ≤ x.term := by
              have := hL.rt.le; omega
            by_cases hlt : E0.t < x.term
            · -- the sender, leader of a later term, holds the event's entry
              have hLh : Has L E0.c E0.t :=
                ll_has H2 S (by rw [← hmt] at hlt ⊢; exact src.ll) hE0 (Nat.le_of_lt hlt)
                  (fun hc => by omega)
              obtain ⟨eL, heL, _⟩ := id hLh
              have hLE := ll_eq_below H2 src.ll hEl0 hLh hEh0
              refine ⟨L, hLl, ?_, ?_⟩
              · rw [hxi]; exact Nat.le_trans hc1 (L.entryAt_lt heL).2
              · rw [hxi]
                exact hq0.trans ((hLE.mono hc1).symm)
            · have hteq : E0.t = x.term := by omega
              refine ⟨E0.gE, ?_, ?_, ?_⟩
              · rw [← hteq]; exact hEl0.mono (by omega)
              · rw [hxi]; omega
              · rw [hxi]; exact hq0
  · have hva : a.node v = some st' := by rw [← hoth v hvk]; exact hvb
    obtain ⟨o1, _, _⟩ := sm_other H2 ha hb Sa hka hs hvk hva
    exact (Sa.a2m v st' hva x (o1 x hx hack hx0 hfrm) hack hfrm hidx hterm).mono (Nat.le_succ _)

end ClusterB
end RaftModel
