import RaftProofs.ClusterRead4I

/-!
Cluster-level ReadIndex safety for **forwarded** reads, part 4J: **a request context occurs (pending,
queued, in a heartbeat / heartbeat response) only after it was registered** (`occ_issued`, copy of
`RaftProofs/ClusterReadJ.lean` with `Reg` in place of `RegAt` and a case for delivered `MsgReadIndex`s;
read states are not tracked here — they may come from a `MsgReadIndexResp`).
-/
namespace RaftModel
namespace Cluster
namespace R4
open Node Raft Raft.CC Raft.RD.R4 RaftProps.C02 RaftProps.C05

variable {cfg : JointConfig} {c0 : Nat} {h : List Sys}

/-- a heartbeat or a heartbeat response -/
def IsHb (x : Message) : Prop := x.msgType = .msgHeartbeat ∨ x.msgType = .msgHeartbeatResponse

theorem IsHb.rd {x : Message} (hx : IsHb x) : isRd x = true := by
  unfold isRd
  rcases hx with c | c <;> rw [c] <;> rfl

/-- the context `K` occurs at the node state `r` -/
def OccR (r : Raft) (K : Bytes) : Prop :=
  (∃ rs, (K, rs) ∈ r.readOnly.pendingReadIndex) ∨ K ∈ r.readOnly.readIndexQueue ∨
  (∃ x ∈ r.msgs, IsHb x ∧ x.context = K)

/-- the context `K` occurs in the state `s`: pending or queued at a node, or in a heartbeat or
heartbeat response of a queue or of the transport -/
def Occ (s : Sys) (K : Bytes) : Prop :=
  (∃ v st, s.node v = some st ∧ OccR st.raft K) ∨ ∃ x ∈ s.net, IsHb x ∧ x.context = K

/-- `K` was registered by a step before index `k` -/
def Issued (h : List Sys) (k : Nat) (K : Bytes) : Prop := ∃ n i, n < k ∧ Reg h n i K

theorem Issued.mono {k k' : Nat} {K : Bytes} (hi : Issued h k K) (hle : k ≤ k') : Issued h k' K := by
  obtain ⟨n, i, h1, h2⟩ := hi
  exact ⟨n, i, by omega, h2⟩

/-- occurrence after a step that kept the read path (`RS`) up to a state `r1`, did not touch `rcore`
afterwards, and queued no heartbeat / heartbeat response after `r1` -/
theorem OccR.back {a r1 r : Raft} {K : Bytes} (hs : RS a r1) (hcore : rcore r = rcore r1)
    (hmsgs : ∀ x ∈ r.msgs, IsHb x → x ∈ r1.msgs) (ho : OccR r K) : OccR a K := by
  have e1 : r.readOnly = r1.readOnly := congrArg RCore.ro hcore
  rcases ho with ⟨rs, g⟩ | g | ⟨x, g1, g2, g3⟩
  · rw [e1] at g
    rcases RS.ro_cases hs with ⟨q, _⟩ | ⟨q, _⟩
    · rw [q] at g; exact .inl ⟨rs, g⟩
    · rw [q] at g; cases g
  · rw [e1] at g
    rcases RS.ro_cases hs with ⟨q, _⟩ | ⟨_, q⟩
    · rw [q] at g; exact .inr (.inl g)
    · rw [q] at g; cases g
  · have : x ∈ rdOf r1.msgs := mem_rdOf.2 ⟨hmsgs x g1 g2, g2.rd⟩
    rw [hs.rd] at this
    exact .inr (.inr ⟨x, (mem_rdOf.1 this).1, g2, g3⟩)

theorem occ_issued (H : Hyp3w cfg c0 h)
    (safe : ∀ s ∈ h, ∀ i st, s.node i = some st → st.raft.readOnly.option = .safe) :
    ∀ (k : Nat) (s : Sys), h[k]? = some s → ∀ K, K ≠ [] → Occ s K → Issued h k K := by
  have H2 := H.toHyp2w
  refine hist_induct h _ ?_ ?_
  · intro s h0 K _ hocc
    exfalso
    have hinit := hist_init H2.hist s h0
    rcases hocc with ⟨v, st, hv, ho⟩ | ⟨x, hx, _⟩
    · obtain ⟨c, store, rnd, _, hb⟩ := hinit.2 v st hv
      obtain ⟨f1, f2, f3⟩ := boot_fresh c store rnd st hb
      have f4 := (CV.boot_booted c store rnd st hb).msgs
      rcases ho with ⟨rs, g⟩ | g | ⟨x, g, _⟩
      · rw [f1] at g; cases g
      · rw [f2] at g; cases g
      · rw [f4] at g; cases g
    · rw [hinit.1] at hx; cases hx
  · intro n a b ha hb ih K hK hocc
    have up : Occ a K → Issued h (n + 1) K := fun g => (ih K hK g).mono (Nat.le_succ n)
    -- only the node that moved matters
    have wrap : ∀ (k : Nat) (st st' : NState), a.node k = some st →
        (OccR st'.raft K → Issued h (n + 1) K) → Occ (a.setNode k st') K → Issued h (n + 1) K := by
      intro k st st' hk key hocc
      rcases hocc with ⟨v, stv, hv, hoc⟩ | ⟨x, hx, g⟩
      · rcases node_cases hv with ⟨e1, e2⟩ | ⟨_, e2⟩
        · subst e1; subst e2; exact key hoc
        · exact up (.inl ⟨v, stv, e2, hoc⟩)
      · exact up (.inr ⟨x, hx, g⟩)
    cases rd_step H ha hb with
    | call k st st' m hk hbe hm ho hrir =>
      subst hbe
      refine wrap k st st' hk (fun hoc => up ?_) hocc
      rcases hoc with ⟨rs, g⟩ | g | ⟨x, g1, g2, g3⟩
      · obtain ⟨_, ⟨rs0, q, _⟩, _⟩ := ho.pend K rs g
        exact .inl ⟨k, st, hk, .inl ⟨rs0, q⟩⟩
      · obtain ⟨d, hd⟩ := ho.queue
        rw [hd] at g
        exact .inl ⟨k, st, hk, .inr (.inl (List.mem_of_mem_drop g))⟩
      · rcases ho.msgs x g1 with c | c | c | c | c
        · exact .inl ⟨k, st, hk, .inr (.inr ⟨x, c, g2, g3⟩)⟩
        · have := g2.rd; unfold isRd at this; rw [c] at this; cases this
        · rcases c.2 with c | c
          · exact absurd (g3.symm.trans c) hK
          · rw [g3] at c; exact .inl ⟨k, st, hk, .inr (.inl c)⟩
        · rcases hm with q | ⟨q, _⟩
          · rw [c.2.1] at q; cases q
          · exact .inr ⟨m, q, .inl c.2.1, c.2.2.1.symm.trans g3⟩
        · rcases g2 with q | q <;> rw [c.1] at q <;> cases q
    | read k st st' K' rnd res hk hbe hcall ho =>
      subst hbe
      refine wrap k st st' hk (fun hoc => ?_) hocc
      cases ho with
      | frame hf =>
        exact up (.inl ⟨k, st, hk, OccR.back (RS.refl _) hf.1
          (fun x hx hh => by
            have : x ∈ rdOf st'.raft.msgs := mem_rdOf.2 ⟨hx, hh.rd⟩
            rw [hf.rd] at this
            exact (mem_rdOf.1 this).1) hoc⟩)
      | fwd hfo hlead hcore hmsgs =>
        refine up (.inl ⟨k, st, hk, OccR.back (RS.refl _) hcore (fun x hx hh => ?_) hoc⟩)
        rw [hmsgs] at hx
        rcases List.mem_append.1 hx with c | c
        · exact c
        · exfalso
          rw [List.mem_singleton.1 c] at hh
          have := (sendFill_ri st.raft
            { msgType := .msgReadIndex, to := st.raft.leaderId, entries := [{ data := K' }] } rfl).1
          rcases hh with q | q <;> rw [this] at q <;> cases q
      | now hs =>
        exfalso
        rcases hs with c | c
        · rw [not_singleton H2 (mem_of_get ha) hk] at c; cases c
        · exact c (safe a (mem_of_get ha) k st hk)
      | reg hl hc ro hadd hcore hmsgs =>
        have e1 : st'.raft.readOnly = ro := congrArg RCore.ro hcore
        -- `K'` is pending after the call: it was pending before, or this call registers it
        have hK' : K = K' → Issued h (n + 1) K := by
          intro e
          subst e
          rcases addRequest_spec hadd with ⟨_, rs, q2⟩ | ⟨q1, _, q3, _⟩
          · exact up (.inl ⟨k, st, hk, .inl ⟨rs, q2⟩⟩)
          · refine ⟨n, k, Nat.lt_succ_self n, .inl ⟨a, _, st, st', rnd, res, ha, hb, hk, hcall, rfl, q1, ?_⟩⟩
            rw [e1, q3]
            exact ⟨_, List.mem_append_right _ (List.mem_singleton.2 rfl)⟩
        rcases hoc with ⟨rs, g⟩ | g | ⟨x, g1, g2, g3⟩
        · rw [e1] at g
          rcases addRequest_spec hadd with ⟨q1, _⟩ | ⟨_, _, q3, _⟩
          · rw [q1] at g; exact up (.inl ⟨k, st, hk, .inl ⟨rs, g⟩⟩)
          · rw [q3] at g
            rcases List.mem_append.1 g with g | g
            · exact up (.inl ⟨k, st, hk, .inl ⟨rs, g⟩⟩)
            · rw [List.mem_singleton] at g
              injection g with g
              exact hK' g
        · rw [e1] at g
          rcases addRequest_spec hadd with ⟨q1, _⟩ | ⟨_, _, _, q4⟩
          · rw [q1] at g; exact up (.inl ⟨k, st, hk, .inr (.inl g)⟩)
          · rw [q4] at g
            rcases List.mem_append.1 g with g | g
            · exact up (.inl ⟨k, st, hk, .inr (.inl g)⟩)
            · exact hK' (List.mem_singleton.1 g)
        · rcases hmsgs x g1 with c | ⟨_, c⟩
          · exact up (.inl ⟨k, st, hk, .inr (.inr ⟨x, c, g2, g3⟩)⟩)
          · exact hK' (g3.symm.trans c)
    | ri k st st' m rnd res hk hbe hm hto hty hcall ho =>
      subst hbe
      refine wrap k st st' hk (fun hoc => ?_) hocc
      cases ho with
      | keep hs _ =>
        exact up (.inl ⟨k, st, hk, OccR.back hs rfl (fun x hx _ => hx) hoc⟩)
      | fwd r1 hs hfo hcore y hmsgs hy =>
        refine up (.inl ⟨k, st, hk, OccR.back hs hcore (fun x hx hh => ?_) hoc⟩)
        rw [hmsgs] at hx
        rcases List.mem_append.1 hx with c | c
        · exact c
        · exfalso
          rw [List.mem_singleton.1 c] at hh
          rcases hh with q | q <;> rw [hy.1] at q <;> cases q
      | now hs =>
        exfalso
        rcases hs with c | c
        · rw [not_singleton H2 (mem_of_get ha) hk] at c; cases c
        · exact c (safe a (mem_of_get ha) k st hk)
      | reg hl hc ro hadd hcore hmsgs =>
        have e1 : st'.raft.readOnly = ro := congrArg RCore.ro hcore
        obtain ⟨en, hen, hcase⟩ := addRequest_specD hadd
        have hK' : K = en.data → Issued h (n + 1) K := by
          intro e
          subst e
          rcases hcase with ⟨_, rs, q2⟩ | ⟨q1, _, q3, _⟩
          · exact up (.inl ⟨k, st, hk, .inl ⟨rs, q2⟩⟩)
          · refine ⟨n, k, Nat.lt_succ_self n, .inr ⟨m, st.raft.raftLog.committed,
              a, _, st, st', rnd, res, ha, hb, hk, hm, hto, hty, hcall, rfl, q1, ?_⟩⟩
            rw [e1, q3]
            exact ⟨_, List.mem_append_right _ (List.mem_singleton.2 rfl), rfl⟩
        rcases hoc with ⟨rs, g⟩ | g | ⟨x, g1, g2, g3⟩
        · rw [e1] at g
          rcases hcase with ⟨q1, _⟩ | ⟨_, _, q3, _⟩
          · rw [q1] at g; exact up (.inl ⟨k, st, hk, .inl ⟨rs, g⟩⟩)
          · rw [q3] at g
            rcases List.mem_append.1 g with g | g
            · exact up (.inl ⟨k, st, hk, .inl ⟨rs, g⟩⟩)
            · rw [List.mem_singleton] at g
              injection g with g
              exact hK' g
        · rw [e1] at g
          rcases hcase with ⟨q1, _⟩ | ⟨_, _, _, q4⟩
          · rw [q1] at g; exact up (.inl ⟨k, st, hk, .inr (.inl g)⟩)
          · rw [q4] at g
            rcases List.mem_append.1 g with g | g
            · exact up (.inl ⟨k, st, hk, .inr (.inl g)⟩)
            · exact hK' (List.mem_singleton.1 g)
        · rcases hmsgs x g1 with c | ⟨_, c⟩
          · exact up (.inl ⟨k, st, hk, .inr (.inr ⟨x, c, g2, g3⟩)⟩)
          · apply hK'
            unfold reqCtx at c
            rw [hen] at c
            injection c with c
            exact g3.symm.trans c
    | send k st st' hk hbe hst =>
      subst hbe
      apply up
      rcases hocc with ⟨v, stv, hv, hoc⟩ | ⟨x, hx, g⟩
      · have hv' : (a.setNode k st').node v = some stv := hv
        rcases node_cases hv' with ⟨e1, e2⟩ | ⟨_, e2⟩
        · subst e1; subst e2
          refine .inl ⟨v, st, hk, ?_⟩
          unfold OccR at hoc
          rw [hst] at hoc
          rcases hoc with ⟨rs, g⟩ | g | ⟨x, g1, _⟩
          · exact .inl ⟨rs, g⟩
          · exact .inr (.inl g)
          · cases g1
        · exact .inl ⟨v, stv, e2, hoc⟩
      · have hx' : x ∈ a.net ++ st.raft.msgs := hx
        rcases List.mem_append.1 hx' with c | c
        · exact .inr ⟨x, c, g⟩
        · exact .inl ⟨k, st, hk, .inr (.inr ⟨x, c, g⟩)⟩
    | restart k st st' hk hbe hf hq =>
      subst hbe
      refine wrap k st st' hk (fun hoc => ?_) hocc
      exfalso
      rcases hoc with ⟨rs, g⟩ | g | ⟨x, g, _⟩
      · rw [hf.1] at g; cases g
      · rw [hf.2.1] at g; cases g
      · rw [hq] at g; cases g

end R4
end Cluster
end RaftModel
