import RaftProofs.ClusterSnap3B

/-!
Commit safety of `ClusterSem` with log compaction, part 3C (the compaction version of
`ClusterCommit4L`): **the cluster invariant `Cluster.CI` holds in every state of a history under
`Snap.Hyp3w`** (`ci_all`) — by induction along the history, where the step from `h[n]` to `h[n+1]` uses
the whole commit layer with compaction (`Snap.Hyp3a`, main induction `Snap.sm_all`) on the prefix
`h[0..n]` — and hence **the two proof gaps `anch` and `norir` of the compaction layer are discharged**:
`Snap.Hyp3w.toHyp3a`.

What is new with compaction: a `MsgAppend` a leader queues is anchored at `next_idx - 1`, its anchor
term is `term(next_idx - 1)`, and `RaftLog::term` answers `0` below the snapshot point.  The per-call
relation (`PR.qf`) says that `first_index ≤ next_idx` whenever an append is queued — otherwise
`RaftLog::entries` answers `Compacted` and a `MsgSnapshot` is queued instead —, so the anchor is a
retained entry (its term is not `0`) or the snapshot point itself, whose term is known only as long as
it is the common initial snapshot point `c0` (`snapTerm_c0`; a compaction forgets it, and `term` then
answers `Compacted`, which again makes `maybe_send_append` take the snapshot path).
-/
namespace RaftModel
namespace Cluster
namespace Snap
open Node Raft Raft.CC Raft.CP RaftProps.C02 RaftProps.C05

variable {cfg : JointConfig} {c0 : Nat} {h : List Sys}

theorem ci_init (H : Hyp3w cfg c0 h) {s : Sys} (h0 : h[0]? = some s) : CI h c0 0 s := by
  have hinit := hist_init H.hist s h0
  have hq : ∀ i st, s.node i = some st → NodeI st ∧ st.raft.msgs = [] := by
    intro i st hi
    obtain ⟨c, store, rnd, _, hb⟩ := hinit.2 i st hi
    exact NodeI.boot hb
  refine ⟨fun i st hi => (hq i st hi).1, fun i st hi x hx => ?_, fun i st hi x hx => ?_,
    fun x hx => ?_, fun x hx => ?_⟩
  · rw [(hq i st hi).2] at hx; cases hx
  · rw [(hq i st hi).2] at hx; cases hx
  · rw [hinit.1] at hx; cases hx
  · rw [hinit.1] at hx; cases hx

/-- a call that is not a compaction keeps the snapshot point of the logical log -/
theorem call_snapIdx (H : Hyp2w cfg c0 h) {n : Nat} {a : Sys} (ha : h[n]? = some a) {k : Nat}
    {st st' : NState} {rnd : Option Nat} {op : NodeOp} {res : OpRes} (h1 : a.node k = some st)
    (hop : appOp op = true ∨ ∃ m, op = .step m ∧ m ∈ a.net ∧ m.to = k)
    (hnc : ∀ j, op ≠ .compact j) (h4 : Node.call st rnd op = .ok (res, st')) :
    st'.raft.raftLog.abs.snapIdx = st.raft.raftLog.abs.snapIdx := by
  cases call_step0 H ha h1 hop hnc h4 with
  | same hl => rw [hl]
  | grew es hg => rw [hg.abs]
  | acc m _ _ _ hacc _ _ _ _ => exact hacc.snap.1

/-- a `call` / `deliver` step keeps the cluster invariant -/
theorem ci_call (H : Hyp3w cfg c0 h) {n : Nat} {a : Sys} (ha : h[n]? = some a)
    (H' : Hyp3a cfg c0 (h.take (n + 1))) (ca : CI h c0 n a)
    {k : Nat} {st st' : NState} {rnd : Option Nat} {op : NodeOp} {res : OpRes}
    (h1 : a.node k = some st)
    (hop : appOp op = true ∨ ∃ m, op = .step m ∧ m ∈ a.net ∧ m.to = k)
    (hco : ∀ j, op = .compact j → CompactOk st.raft.raftLog j)
    (h4 : Node.call st rnd op = .ok (res, st'))
    (hb : h[n + 1]? = some (a.setNode k st')) : CI h c0 (n + 1) (a.setNode k st') := by
  have H2 := H.toHyp2w
  obtain ⟨s0, _, hall⟩ := H2.inv_at
  have I := hall a (mem_of_get ha)
  have Ib := hall _ (mem_of_get hb)
  have ha' : (h.take (n + 1))[n]? = some a := by rw [take_get (Nat.lt_succ_self n)]; exact ha
  have hkb : (a.setNode k st').node k = some st' := node_setNode_self a k st'
  have hop' : op ≠ .drain ∧ ∀ m, op ≠ .rstep m := by
    rcases hop with g1 | ⟨m, g1, _⟩
    · constructor
      · intro hc; rw [hc] at g1; cases g1
      · intro m hc; rw [hc] at g1; cases g1
    · rw [g1]
      exact ⟨(by intro hc; cases hc), (by intro m' hc; cases hc)⟩
  have hms : ∀ m, op = .step m → m.msgType ≠ .msgSnapshot := by
    intro m hm
    rcases hop with g1 | ⟨m', g1, g2, _⟩
    · rw [hm] at g1; cases g1
    · rw [hm] at g1; cases g1; exact H.nosnap a (mem_of_get ha) m g2
  have hB : ∀ m, op = .step m → st.raft.state = .leader → m.msgType = .msgAppendResponse →
      m.reject = false → (m.term = 0 ∨ m.term = st.raft.term) →
      m.index ≤ st.raft.raftLog.lastIndex := by
    intro m hm hs hty hrej ht
    rcases hop with g1 | ⟨m', g1, g2, _⟩
    · rw [hm] at g1; cases g1
    · rw [hm] at g1; cases g1
      exact ack_bound H' ha' h1 hs g2 ⟨hty, hrej⟩ ht
  have hpr := call_pr' st st' rnd op res (I.inv k st h1) (H.nb a (mem_of_get ha) k st h1) hop' hco
    (H.nopend a (mem_of_get ha) k st h1) hms (ca.node k st h1).po (ca.node k st h1).rd hB h4
  have g := (call_facts H2 ha h1 hop hco h4).1
  have oa := node_ok H2 ha h1
  have ob := node_ok H2 hb hkb
  have hsnq : QSnap st.raft.msgs → QSnap st'.raft.msgs := by
    rintro ⟨y, hy, hty⟩
    exact ⟨y, hpr.sn y hy hty, hty⟩
  -- the nodes
  have hnode : ∀ i sti, (a.setNode k st').node i = some sti →
      (i = k ∧ sti = st') ∨ (i ≠ k ∧ a.node i = some sti) := by
    intro i sti hi
    by_cases hik : i = k
    · subst hik
      rw [node_setNode_self] at hi; cases hi
      exact .inl ⟨rfl, rfl⟩
    · rw [node_setNode_ne a k i st' hik] at hi
      exact .inr ⟨hik, hi⟩
  refine ⟨fun i sti hi => ?_, fun i sti hi x hx hty => ?_, fun i sti hi x hx hty => ?_,
    ca.na, fun x hx hty => (ca.nr x hx hty).mono (Nat.le_succ n)⟩
  · rcases hnode i sti hi with ⟨_, rfl⟩ | ⟨_, c⟩
    · exact ⟨hpr.po, hpr.rd⟩
    · exact ca.node i sti c
  · rcases hnode i sti hi with ⟨_, rfl⟩ | ⟨_, c⟩
    · have hold : x ∈ st.raft.msgs → QSnap sti.raft.msgs ∨ Anch c0 x := by
        intro hxo
        rcases ca.qa k st h1 x hxo hty with d | d
        · exact .inl (hsnq d)
        · exact .inr d
      by_cases hcomp : ∃ j, op = .compact j
      · -- a compaction queues nothing
        obtain ⟨j, rfl⟩ := hcomp
        have ho := compact_out (I.inv k st h1) (H.nopend a (mem_of_get ha) k st h1) (hco j rfl) h4
        exact hold (by rw [← ho.msgs]; exact hx)
      have hnc : ∀ j, op ≠ .compact j := fun j hj => hcomp ⟨j, hj⟩
      have hsi := call_snapIdx H2 ha h1 hop hnc h4
      rcases hpr.qa x hx hty with c | c | c
      · exact hold c
      · exact .inl c
      · rcases hpr.qf x hx hty with f | f | f
        · exact hold f
        · exact .inl f
        · rcases g.qlk x hx (by rw [hty]; rfl) with d | d
          · exact hold d
          · right
            by_cases hc0 : x.index ≤ c0
            · exact .inr hc0
            · left
              have hterm := (d.app hty).2
              rw [ob.inv.term_abs] at hterm
              -- the anchor is not below the snapshot point
              have hfi : sti.raft.raftLog.abs.snapIdx ≤ x.index := by
                rw [oa.inv.firstIndex_abs] at f
                simp only [LLog.firstIndex] at f
                omega
              have hli : x.index ≤ sti.raft.raftLog.abs.lastIndex := by
                rw [← ob.inv.lastIndex_abs]; exact c
              by_cases hlt : sti.raft.raftLog.abs.snapIdx < x.index
              · obtain ⟨e, he⟩ := sti.raft.raftLog.abs.entryAt_exists (i := x.index) hlt hli
                rw [sti.raft.raftLog.abs.term_of_entry he] at hterm
                injection hterm with hterm
                rw [← hterm]
                exact Ib.nz (.log k) _ (at_log hkb) x.index e he
              · -- the anchor is the snapshot point: its term is known only if it is `c0`
                exfalso
                have heq : x.index = sti.raft.raftLog.abs.snapIdx := by omega
                unfold LLog.term at hterm
                split at hterm
                · omega
                · try rw [if_pos heq] at hterm
                  cases hst : sti.raft.raftLog.abs.snapTerm with
                  | none => rw [hst] at hterm; cases hterm
                  | some t' =>
                    have := snapTerm_c0 H2 (n + 1) _ hb k sti hkb t' hst
                    omega
    · exact ca.qa i sti c x hx hty
  · rcases hnode i sti hi with ⟨_, rfl⟩ | ⟨_, c⟩
    · have hold : x ∈ st.raft.msgs → RirSrc h (n + 1) x :=
        fun hxo => (ca.qr k st h1 x hxo hty).mono (Nat.le_succ n)
      rcases hpr.qr x hx hty with c | c
      · exact hold c
      · rcases g.qlk x hx (by rw [hty]; rfl) with d | d
        · exact hold d
        · exact ⟨n + 1, _, k, sti, Nat.le_refl _, hb, hkb, d.lead, d.term.symm, c⟩
    · exact (ca.qr i sti c x hx hty).mono (Nat.le_succ n)

/-- **one step of the history keeps the cluster invariant** -/
theorem ci_step (H : Hyp3w cfg c0 h) {n : Nat} {a b : Sys} (ha : h[n]? = some a)
    (hb : h[n + 1]? = some b) (H' : Hyp3a cfg c0 (h.take (n + 1))) (ca : CI h c0 n a) :
    CI h c0 (n + 1) b := by
  have hnosnap := H.nosnap b (mem_of_get hb)
  cases H.steps n a b ha hb with
  | call k st st' rnd op res h1 h2 h3 _ h4 =>
    exact ci_call H ha H' ca h1 (.inl h2) h3 h4 hb
  | deliver k st st' rnd m res h1 h2 h3 h4 =>
    exact ci_call H ha H' ca h1 (.inr ⟨m, rfl, h2, h3⟩) (fun j hc => by cases hc) h4 hb
  | send k st st' h1 h2 _ h3 =>
    have hf : st'.raft.msgs = [] ∧ st'.raft.raftLog = st.raft.raftLog ∧
        st'.raft.state = st.raft.state ∧ st'.raft.prs = st.raft.prs ∧
        st'.raft.readOnly = st.raft.readOnly := by
      unfold Node.call at h3
      simp only [applyOp] at h3
      cases h3; exact ⟨rfl, rfl, rfl, rfl, rfl⟩
    obtain ⟨f1, f2, f3, f4, f5⟩ := hf
    -- the queue that is handed over holds no `MsgSnapshot`
    have hns : ¬ QSnap st.raft.msgs := by
      rintro ⟨y, hy, hty⟩
      exact hnosnap y (List.mem_append_right _ hy) hty
    have hnode : ∀ i sti, ({ (a.setNode k st') with net := a.net ++ st.raft.msgs } : Sys).node i =
        some sti → (i = k ∧ sti = st') ∨ (i ≠ k ∧ a.node i = some sti) := by
      intro i sti hi
      have hi' : (a.setNode k st').node i = some sti := hi
      by_cases hik : i = k
      · subst hik
        rw [node_setNode_self] at hi'; cases hi'
        exact .inl ⟨rfl, rfl⟩
      · rw [node_setNode_ne a k i st' hik] at hi'
        exact .inr ⟨hik, hi'⟩
    refine ⟨fun i sti hi => ?_, fun i sti hi x hx hty => ?_, fun i sti hi x hx hty => ?_,
      fun x hx hty => ?_, fun x hx hty => ?_⟩
    · rcases hnode i sti hi with ⟨_, rfl⟩ | ⟨_, c⟩
      · refine ⟨fun hs => ?_, fun hs => ?_⟩
        · rw [f3] at hs
          rcases (ca.node k st h1).po hs with d | d
          · exact absurd d hns
          · right; rw [f2, f4]; exact d
        · rw [f3] at hs
          rw [f2, f5]; exact (ca.node k st h1).rd hs
      · exact ca.node i sti c
    · rcases hnode i sti hi with ⟨_, rfl⟩ | ⟨_, c⟩
      · rw [f1] at hx; cases hx
      · exact ca.qa i sti c x hx hty
    · rcases hnode i sti hi with ⟨_, rfl⟩ | ⟨_, c⟩
      · rw [f1] at hx; cases hx
      · exact (ca.qr i sti c x hx hty).mono (Nat.le_succ n)
    · have hx' : x ∈ a.net ++ st.raft.msgs := hx
      rcases List.mem_append.1 hx' with c | c
      · exact ca.na x c hty
      · rcases ca.qa k st h1 x c hty with d | d
        · exact absurd d hns
        · exact d
    · have hx' : x ∈ a.net ++ st.raft.msgs := hx
      rcases List.mem_append.1 hx' with c | c
      · exact (ca.nr x c hty).mono (Nat.le_succ n)
      · exact (ca.qr k st h1 x c hty).mono (Nat.le_succ n)
  | restart k st st' c rnd h1 h2 h3 =>
    obtain ⟨g1, g2⟩ := NodeI.boot h3
    have hnode : ∀ i sti, (a.setNode k st').node i = some sti →
        (i = k ∧ sti = st') ∨ (i ≠ k ∧ a.node i = some sti) := by
      intro i sti hi
      by_cases hik : i = k
      · subst hik
        rw [node_setNode_self] at hi; cases hi
        exact .inl ⟨rfl, rfl⟩
      · rw [node_setNode_ne a k i st' hik] at hi
        exact .inr ⟨hik, hi⟩
    refine ⟨fun i sti hi => ?_, fun i sti hi x hx hty => ?_, fun i sti hi x hx hty => ?_,
      ca.na, fun x hx hty => (ca.nr x hx hty).mono (Nat.le_succ n)⟩
    · rcases hnode i sti hi with ⟨_, rfl⟩ | ⟨_, c⟩
      · exact g1
      · exact ca.node i sti c
    · rcases hnode i sti hi with ⟨_, rfl⟩ | ⟨_, c⟩
      · rw [g2] at hx; cases hx
      · exact ca.qa i sti c x hx hty
    · rcases hnode i sti hi with ⟨_, rfl⟩ | ⟨_, c⟩
      · rw [g2] at hx; cases hx
      · exact (ca.qr i sti c x hx hty).mono (Nat.le_succ n)

/-- **the cluster invariant holds in every state of a history** -/
theorem ci_all (H : Hyp3w cfg c0 h) : ∀ (n : Nat) (s : Sys), h[n]? = some s → CI h c0 n s := by
  intro n
  induction n using Nat.strongRecOn with
  | _ n ih =>
    intro s hn
    cases n with
    | zero => exact ci_init H hn
    | succ n =>
      have hlt : n + 1 < h.length := by
        rcases Nat.lt_or_ge (n + 1) h.length with c | c
        · exact c
        · rw [List.getElem?_eq_none c] at hn; cases hn
      have ha : h[n]? = some h[n] := List.getElem?_eq_some_iff.2 ⟨by omega, rfl⟩
      have H' : Hyp3a cfg c0 (h.take (n + 1)) :=
        hyp3a_take H (Nat.succ_pos n) (fun m s hm hs => ih m hm s hs)
      exact ci_step H ha hn H' (ih n (Nat.lt_succ_self n) _ ha)

/-- **the former proof gaps `anch` and `norir` of the compaction layer are theorems**: the hypotheses
of the main induction follow from the hypotheses without gaps about the transport -/
theorem Hyp3w.toHyp3a (H : Hyp3w cfg c0 h) : Hyp3a cfg c0 h := by
  have hpos : 0 < h.length := List.length_pos_iff.2 (History.ne_nil H.hist)
  have := hyp3a_take H hpos (fun m s _ hs => ci_all H m s hs)
  rw [List.take_length] at this
  exact this

/-- the hypotheses of the development without compaction and without the gaps (`Cluster.Hyp3w`,
`RaftProps/C01d.lean`) imply those with compaction -/
theorem Hyp3w.of_old (H : Cluster.Hyp3w cfg c0 h) : Hyp3w cfg c0 h :=
  { hist := H.hist, fix := H.fix, ne := H.ne, nd1 := H.nd1, nd2 := H.nd2, init := H.init,
    steps := fun n a b ha hb => KStep.of_old (H.steps n a b ha hb),
    nb := H.nb, nosnap := H.nosnap, nolone := H.nolone,
    nopend := fun s hs i st hi => (H.shape s hs i st hi).1,
    first0 := fun s h0 i st hi => (H.shape s (mem_of_get h0) i st hi).2,
    initc := H.initc, snapt0 := H.snapt0 }

end Snap
end Cluster
end RaftModel
