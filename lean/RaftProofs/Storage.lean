import RaftModel.StorageSpec

/-!
Helper lemmas for C19 (`MemStorage` honours the `Storage` contract): contiguity of entry lists,
position arithmetic vs. selection by log index, `limit_size`, and the per-operation refinement
lemmas.  Core Lean only.
-/
namespace RaftModel

/-! ### contiguous entry lists -/

theorem contigFrom_cons (n : Nat) (e : Entry) (es : List Entry) :
    contigFrom n (e :: es) = true ↔ e.index = n ∧ contigFrom (n + 1) es = true := by
  simp [contigFrom]

theorem contigFrom_getElem {n : Nat} {l : List Entry} (h : contigFrom n l = true) (i : Nat)
    (hi : i < l.length) : l[i].index = n + i := by
  induction l generalizing n i with
  | nil => simp at hi
  | cons e es ih =>
    rw [contigFrom_cons] at h
    cases i with
    | zero => simpa using h.1
    | succ j =>
      have := ih h.2 j (by simpa using hi)
      simp only [List.getElem_cons_succ]; omega

theorem contigFrom_getElem? {n : Nat} {l : List Entry} (h : contigFrom n l = true) (i : Nat)
    (e : Entry) (he : l[i]? = some e) : e.index = n + i := by
  obtain ⟨hi, rfl⟩ := List.getElem?_eq_some_iff.1 he
  exact contigFrom_getElem h i hi

theorem contigFrom_mem {n : Nat} {l : List Entry} (h : contigFrom n l = true) (e : Entry)
    (he : e ∈ l) : n ≤ e.index ∧ e.index < n + l.length := by
  obtain ⟨i, hi, rfl⟩ := List.getElem_of_mem he
  have := contigFrom_getElem h i hi
  omega

theorem contigFrom_append (n : Nat) (a b : List Entry) :
    contigFrom n (a ++ b) = (contigFrom n a && contigFrom (n + a.length) b) := by
  induction a generalizing n with
  | nil => simp [contigFrom]
  | cons e es ih =>
    simp only [List.cons_append, contigFrom, ih, List.length_cons, Bool.and_assoc]
    congr 3; omega

theorem contigFrom_take {n : Nat} {l : List Entry} (h : contigFrom n l = true) (k : Nat) :
    contigFrom n (l.take k) = true := by
  have := contigFrom_append n (l.take k) (l.drop k)
  rw [List.take_append_drop, h] at this
  simp only [Bool.true_eq, Bool.and_eq_true] at this
  exact this.1

theorem contigFrom_drop {n : Nat} {l : List Entry} (h : contigFrom n l = true) (k : Nat)
    (hk : k ≤ l.length) : contigFrom (n + k) (l.drop k) = true := by
  have := contigFrom_append n (l.take k) (l.drop k)
  rw [List.take_append_drop, h] at this
  simp only [Bool.true_eq, Bool.and_eq_true, List.length_take] at this
  rw [Nat.min_eq_left hk] at this
  exact this.2

/-- selecting by index below `m` is taking a prefix by position -/
theorem contigFrom_filter_lt {n : Nat} {l : List Entry} (h : contigFrom n l = true) (m : Nat) :
    l.filter (fun e => decide (e.index < m)) = l.take (m - n) := by
  induction l generalizing n with
  | nil => simp
  | cons e es ih =>
    rw [contigFrom_cons] at h
    by_cases hm : e.index < m
    · have : m - n = (m - (n + 1)) + 1 := by omega
      rw [List.filter_cons_of_pos (by simpa using hm), this, List.take_succ_cons, ih h.2]
    · have h0 : m - n = 0 := by omega
      rw [List.filter_cons_of_neg (by simpa using hm), h0, List.take_zero]
      rw [List.filter_eq_nil_iff]
      intro a ha
      have := contigFrom_mem h.2 a ha
      simp; omega

/-- selecting by index from `m` on is dropping a prefix by position -/
theorem contigFrom_filter_ge {n : Nat} {l : List Entry} (h : contigFrom n l = true) (m : Nat) :
    l.filter (fun e => decide (m ≤ e.index)) = l.drop (m - n) := by
  induction l generalizing n with
  | nil => simp
  | cons e es ih =>
    rw [contigFrom_cons] at h
    by_cases hm : m ≤ e.index
    · have h0 : m - n = 0 := by omega
      rw [h0, List.drop_zero, List.filter_eq_self]
      intro a ha
      rcases List.mem_cons.1 ha with rfl | ha
      · simpa using hm
      · have := contigFrom_mem h.2 a ha
        simp; omega
    · have : m - n = (m - (n + 1)) + 1 := by omega
      rw [List.filter_cons_of_neg (by simpa using hm), this, List.drop_succ_cons, ih h.2]

theorem filter_and_eq {α} (p q : α → Bool) (l : List α) :
    l.filter (fun a => p a && q a) = (l.filter p).filter q := by
  rw [List.filter_filter]
  congr 1; funext a; exact Bool.and_comm _ _

/-- selecting the indexes in `[low, high)` is a position slice -/
theorem contigFrom_range {n : Nat} {l : List Entry} (h : contigFrom n l = true) (low high : Nat)
    (hl : n ≤ low) :
    l.filter (fun e => decide (low ≤ e.index) && decide (e.index < high)) =
      (l.drop (low - n)).take (high - low) := by
  refine Eq.trans (filter_and_eq (fun e : Entry => decide (low ≤ e.index))
    (fun e => decide (e.index < high)) l) ?_
  rw [contigFrom_filter_ge h]
  by_cases hk : low - n ≤ l.length
  · have h2 := contigFrom_drop h (low - n) hk
    rw [contigFrom_filter_lt h2]
    congr 1; omega
  · rw [List.drop_of_length_le (by omega)]; simp

theorem contigFrom_find? {n : Nat} {l : List Entry} (h : contigFrom n l = true) (idx : Nat)
    (hn : n ≤ idx) : l.find? (fun e => e.index == idx) = l[idx - n]? := by
  induction l generalizing n with
  | nil => simp
  | cons e es ih =>
    rw [contigFrom_cons] at h
    by_cases he : e.index = idx
    · have h0 : idx - n = 0 := by omega
      rw [List.find?_cons_of_pos (by simpa using he), h0]; rfl
    · have : idx - n = (idx - (n + 1)) + 1 := by omega
      rw [List.find?_cons_of_neg (by simpa using he), this, List.getElem?_cons_succ]
      exact ih h.2 (by omega)

theorem contigFrom_find?_lt {n : Nat} {l : List Entry} (h : contigFrom n l = true) (idx : Nat)
    (hn : idx < n) : l.find? (fun e => e.index == idx) = none := by
  rw [List.find?_eq_none]
  intro a ha
  have := contigFrom_mem h a ha
  simp; omega

theorem contigFrom_getLast? {n : Nat} {l : List Entry} (h : contigFrom n l = true) (e : Entry)
    (he : l.getLast? = some e) : e.index + 1 = n + l.length := by
  rw [List.getLast?_eq_getElem?] at he
  have := contigFrom_getElem? h _ e he
  have hl : l.length ≠ 0 := by
    intro h0; rw [List.length_eq_zero_iff] at h0; subst h0; simp at he
  omega

/-! ### `limit_size` -/

@[simp] theorem totalSize_nil : totalSize [] = 0 := rfl
@[simp] theorem totalSize_cons (e : Entry) (l : List Entry) :
    totalSize (e :: l) = e.computeSize + totalSize l := by simp [totalSize]
theorem totalSize_append (a b : List Entry) : totalSize (a ++ b) = totalSize a + totalSize b := by
  simp [totalSize, List.sum_append]

theorem computeSize_pos (e : Entry) (h : e.index ≠ 0) : 0 < e.computeSize := by
  unfold Entry.computeSize
  rw [if_pos h]
  omega

theorem totalSize_eq_zero (l : List Entry) (hp : ∀ e ∈ l, 0 < e.computeSize)
    (h0 : totalSize l = 0) : l = [] := by
  cases l with
  | nil => rfl
  | cons e es =>
    have := hp e (List.mem_cons_self)
    rw [totalSize_cons] at h0
    omega

theorem limitCount_le (max size : Nat) (l : List Entry) : limitCount max size l ≤ l.length := by
  induction l generalizing size with
  | nil => simp [limitCount]
  | cons e es ih =>
    simp only [limitCount, List.length_cons]
    split
    · have := ih (size + e.computeSize); omega
    · split
      · have := ih (size + e.computeSize); omega
      · omega

theorem limitCount_pos (max : Nat) (e : Entry) (es : List Entry) :
    1 ≤ limitCount max 0 (e :: es) := by
  simp only [limitCount, if_true]; omega

/-- everything `limit_size`'s `take_while` accepts stays within `max`, unless all that precedes the
last accepted entry (accumulator included) has size 0 -/
theorem limitCount_within (max size : Nat) (l : List Entry) :
    size + totalSize (l.take (limitCount max size l)) ≤ max ∨
    size + totalSize ((l.take (limitCount max size l)).dropLast) = 0 ∨
    limitCount max size l = 0 := by
  induction l generalizing size with
  | nil => right; right; rfl
  | cons e es ih =>
    simp only [limitCount]
    by_cases h0 : size = 0
    · simp only [h0, if_true]
      rcases ih (0 + e.computeSize) with h | h | h
      · left
        rw [Nat.add_comm 1, List.take_succ_cons, totalSize_cons]; omega
      · right; left
        rw [Nat.add_comm 1, List.take_succ_cons]
        cases hk : limitCount max (0 + e.computeSize) es with
        | zero => simp
        | succ k =>
          rw [hk] at h
          cases es with
          | nil => simp [limitCount] at hk
          | cons e' es' =>
            rw [List.take_succ_cons] at h ⊢
            rw [List.dropLast_cons_cons, totalSize_cons]
            omega
      · right; left
        rw [h]; simp
    · simp only [h0, if_false]
      by_cases hle : size + e.computeSize ≤ max
      · simp only [hle, if_true]
        rcases ih (size + e.computeSize) with h | h | h
        · left
          rw [Nat.add_comm 1, List.take_succ_cons, totalSize_cons]; omega
        · omega
        · left
          rw [h]; simp; omega
      · simp only [hle, if_false]
        right; right; trivial

/-- the entry after the accepted prefix would exceed `max` (and the accepted part is not size 0) -/
theorem limitCount_maximal (max size : Nat) (l : List Entry)
    (hk : limitCount max size l < l.length) :
    size + totalSize (l.take (limitCount max size l)) ≠ 0 ∧
    max < size + totalSize (l.take (limitCount max size l)) +
      (l[limitCount max size l]'hk).computeSize := by
  induction l generalizing size with
  | nil => simp at hk
  | cons e es ih =>
    simp only [limitCount] at hk ⊢
    by_cases h0 : size = 0
    · simp only [h0, if_true] at hk ⊢
      have hk' : limitCount max (0 + e.computeSize) es < es.length := by
        simp only [List.length_cons] at hk; omega
      have := ih (0 + e.computeSize) hk'
      simp only [Nat.add_comm 1 (limitCount _ _ _), List.take_succ_cons, totalSize_cons,
        List.getElem_cons_succ]
      omega
    · simp only [h0, if_false] at hk ⊢
      by_cases hle : size + e.computeSize ≤ max
      · simp only [hle, if_true] at hk ⊢
        have hk' : limitCount max (size + e.computeSize) es < es.length := by
          simp only [List.length_cons] at hk; omega
        have := ih (size + e.computeSize) hk'
        simp only [Nat.add_comm 1 (limitCount _ _ _), List.take_succ_cons, totalSize_cons,
          List.getElem_cons_succ]
        omega
      · simp only [hle, if_false]
        simp only [List.take_zero, totalSize_nil, List.getElem_cons_zero]
        omega

/-- **`util::limit_size`**: the result is a prefix; it is non-empty when the input is; without a
limit (`None` / `NO_LIMIT`) it is everything; with a limit `m` its total size is within `m` unless
everything before its last entry has size 0 (in particular: unless it is a single entry); and it is
maximal: the next entry, if any, would push the total beyond `m`. -/
theorem limitSize_spec (ents : List Entry) (max : Option Nat) :
    (∃ k, limitSize ents max = ents.take k) ∧
    (ents ≠ [] → limitSize ents max ≠ []) ∧
    (max = none ∨ max = some NO_LIMIT → limitSize ents max = ents) ∧
    (∀ m, max = some m → m ≠ NO_LIMIT →
      totalSize (limitSize ents max) ≤ m ∨ totalSize (limitSize ents max).dropLast = 0) ∧
    (∀ m, max = some m → ∀ e rest, ents = limitSize ents max ++ e :: rest →
      totalSize (limitSize ents max) ≠ 0 ∧ m < totalSize (limitSize ents max) + e.computeSize) := by
  unfold limitSize
  by_cases h1 : ents.length ≤ 1
  · simp only [h1, if_true]
    refine ⟨⟨ents.length, by simp⟩, fun h => h, fun _ => trivial, ?_, ?_⟩
    · intro m _ _
      right
      have hd : ents.dropLast = [] := by
        cases ents with
        | nil => rfl
        | cons a t =>
          cases t with
          | nil => rfl
          | cons b t' => simp at h1
      rw [hd]; rfl
    · intro m _ e rest he
      have := congrArg List.length he
      simp at this
  · simp only [h1, if_false]
    cases max with
    | none =>
      refine ⟨⟨ents.length, by simp⟩, fun h => h, fun _ => rfl, fun m hm => by simp at hm, fun m hm => by simp at hm⟩
    | some m =>
      by_cases hm : m = NO_LIMIT
      · simp only [hm, if_true]
        refine ⟨⟨ents.length, by simp⟩, fun h => h, fun _ => trivial, ?_, ?_⟩
        · intro m' h1' h2'; simp at h1'; omega
        · intro m' _ e rest he
          have := congrArg List.length he
          simp at this
      · simp only [hm, if_false]
        refine ⟨⟨_, rfl⟩, ?_, ?_, ?_, ?_⟩
        · intro hne
          cases ents with
          | nil => exact absurd rfl hne
          | cons e es =>
            have := limitCount_pos m e es
            intro hnil
            have hl := congrArg List.length hnil
            simp only [List.length_take, List.length_nil, List.length_cons] at hl
            omega
        · intro h; rcases h with h | h
          · simp at h
          · simp at h; exact absurd h hm
        · intro m' hm' _
          simp only [Option.some.injEq] at hm'; subst hm'
          rcases limitCount_within m 0 ents with h | h | h
          · left; omega
          · right; omega
          · right; rw [h]; simp
        · intro m' hm' e rest he
          simp only [Option.some.injEq] at hm'; subst hm'
          have hlen := congrArg List.length he
          simp only [List.length_append, List.length_take, List.length_cons] at hlen
          have hle := limitCount_le m 0 ents
          have hk : limitCount m 0 ents < ents.length := by
            rw [Nat.min_eq_left hle] at hlen; omega
          have hmax := limitCount_maximal m 0 ents hk
          have hd : List.drop (limitCount m 0 ents) ents = e :: rest :=
            List.append_cancel_left ((List.take_append_drop _ ents).trans he)
          rw [List.drop_eq_getElem_cons hk] at hd
          have hget := (List.cons.inj hd).1
          rw [hget] at hmax
          omega

/-! ### `MemStorageCore`: representation facts -/
namespace MemStorage

theorem firstIndex_of_nil {s : MemStorage} (h : s.entries = []) :
    s.firstIndex = s.snapshotMetadata.index + 1 := by simp [firstIndex, h]

theorem firstIndex_of_cons {s : MemStorage} {e : Entry} {es : List Entry} (h : s.entries = e :: es) :
    s.firstIndex = e.index := by simp [firstIndex, h]

theorem lastIndex_of_nil {s : MemStorage} (h : s.entries = []) :
    s.lastIndex = s.snapshotMetadata.index := by simp [lastIndex, h]

theorem inv_iff (s : MemStorage) : s.Inv ↔
    s.snapshotMetadata.index < s.firstIndex ∧ contigFrom s.firstIndex s.entries = true := by
  unfold Inv LogSpec.WF abs
  constructor
  · intro h; exact ⟨h.1, h.2.1⟩
  · intro h; exact ⟨h.1, h.2, fun hn => firstIndex_of_nil hn⟩

theorem Inv.lastIndex_succ {s : MemStorage} (h : s.Inv) :
    s.lastIndex + 1 = s.firstIndex + s.entries.length := by
  obtain ⟨_, h2⟩ := (inv_iff s).1 h
  cases hl : s.entries.getLast? with
  | none =>
    have hn : s.entries = [] := List.getLast?_eq_none_iff.1 hl
    rw [lastIndex_of_nil hn, firstIndex_of_nil hn, hn]; rfl
  | some e =>
    have := contigFrom_getLast? h2 e hl
    simp only [lastIndex, hl]; exact this

theorem Inv.lastIdx {s : MemStorage} (h : s.Inv) : s.abs.lastIdx = s.lastIndex := by
  have := h.lastIndex_succ
  simp only [LogSpec.lastIdx, abs]; omega

theorem Inv.getElem? {s : MemStorage} (h : s.Inv) (i : Nat) (hi : i < s.entries.length) :
    ∃ e, s.entries[i]? = some e ∧ e.index = s.firstIndex + i := by
  obtain ⟨_, h2⟩ := (inv_iff s).1 h
  exact ⟨s.entries[i], List.getElem?_eq_getElem hi, contigFrom_getElem h2 i hi⟩

theorem Inv.head? {s : MemStorage} (_h : s.Inv) (hne : 0 < s.entries.length) :
    ∃ e, s.entries.head? = some e ∧ e.index = s.firstIndex := by
  cases hs : s.entries with
  | nil => rw [hs] at hne; simp at hne
  | cons e es => exact ⟨e, rfl, (firstIndex_of_cons hs).symm⟩

theorem inv_new : MemStorage.new.Inv := by decide

/-! ### per-operation refinement -/

theorem append_refines (s : MemStorage) (h : s.Inv) (b0 : Entry) (b : List Entry)
    (hp : s.abs.pre (.append (b0 :: b)) = true) :
    ∃ s', s.append (b0 :: b) = .ok s' ∧ s'.Inv ∧ s'.abs = s.abs.step (.append (b0 :: b)) ∧
      s'.firstIndex = s.firstIndex ∧ s'.lastIndex = b0.index + b.length := by
  have hlast := h.lastIndex_succ
  obtain ⟨h1, h2⟩ := (inv_iff s).1 h
  simp only [LogSpec.pre, Bool.and_eq_true, abs, LogSpec.lastIdx] at hp
  obtain ⟨⟨hc, hf⟩, hl⟩ := hp
  replace hf := of_decide_eq_true hf
  replace hl := of_decide_eq_true hl
  have hd : b0.index - s.firstIndex ≤ s.entries.length := by omega
  let s' : MemStorage := { s with entries := s.entries.take (b0.index - s.firstIndex) ++ b0 :: b }
  have hfi : s'.firstIndex = s.firstIndex := by
    by_cases h0 : b0.index - s.firstIndex = 0
    · have : s'.entries = b0 :: b := by simp [s', h0]
      rw [firstIndex_of_cons this]; omega
    · cases hs : s.entries with
      | nil => rw [hs] at hd; simp at hd; omega
      | cons e es =>
        have : s'.entries = e :: (es.take (b0.index - s.firstIndex - 1) ++ b0 :: b) := by
          have : b0.index - s.firstIndex = (b0.index - s.firstIndex - 1) + 1 := by omega
          simp only [s', hs]; rw [this, List.take_succ_cons]; simp
        rw [firstIndex_of_cons this, firstIndex_of_cons hs]
  have hcont : contigFrom s.firstIndex s'.entries = true := by
    simp only [s', contigFrom_append, Bool.and_eq_true]
    refine ⟨contigFrom_take h2 _, ?_⟩
    rw [List.length_take, Nat.min_eq_left hd]
    have : s.firstIndex + (b0.index - s.firstIndex) = b0.index := by omega
    rw [this]; exact hc
  have hinv : s'.Inv := by
    rw [inv_iff, hfi]; exact ⟨h1, hcont⟩
  refine ⟨s', ?_, hinv, ?_, hfi, ?_⟩
  · simp only [append]
    rw [if_neg (by omega), if_neg (by omega), if_neg (by omega)]
  · simp only [abs, LogSpec.step, hfi, LogSpec.mk.injEq, true_and]
    simp only [s']
    rw [contigFrom_filter_lt h2]
    simp
  · have := hinv.lastIndex_succ
    rw [hfi] at this
    have hlen : s'.entries.length = (b0.index - s.firstIndex) + (b.length + 1) := by
      simp only [s', List.length_append, List.length_take, List.length_cons, Nat.min_eq_left hd]
    omega

theorem compact_refines (s : MemStorage) (h : s.Inv) (ci : Nat)
    (hp : s.abs.pre (.compact ci) = true) :
    ∃ s', s.compact ci = .ok s' ∧ s'.Inv ∧ s'.abs = s.abs.step (.compact ci) ∧
      s'.firstIndex = max s.firstIndex ci ∧ s'.lastIndex = s.lastIndex := by
  have hlast := h.lastIndex_succ
  obtain ⟨h1, h2⟩ := (inv_iff s).1 h
  simp only [LogSpec.pre, Bool.or_eq_true, abs, LogSpec.lastIdx] at hp
  replace hp : ci ≤ s.firstIndex ∨ ci ≤ s.firstIndex + s.entries.length - 1 :=
    hp.elim (fun h => Or.inl (of_decide_eq_true h)) (fun h => Or.inr (of_decide_eq_true h))
  by_cases hle : ci ≤ s.firstIndex
  · refine ⟨s, ?_, h, ?_, by omega, rfl⟩
    · simp only [compact, if_pos hle]
    · simp only [LogSpec.step]; rw [if_pos (show ci ≤ s.abs.firstIdx from hle)]
  · have hci : ci ≤ s.firstIndex + s.entries.length - 1 := by omega
    have hlen : 0 < s.entries.length := by omega
    obtain ⟨e0, he0, hi0⟩ := h.head? hlen
    obtain ⟨e, hge, hie⟩ := h.getElem? (ci - s.firstIndex) (by omega)
    let s' : MemStorage := { s with entries := s.entries.drop (ci - s.firstIndex) }
    have hdrop : s'.entries = e :: s.entries.drop (ci - s.firstIndex + 1) := by
      obtain ⟨hi, rfl⟩ := List.getElem?_eq_some_iff.1 hge
      exact List.drop_eq_getElem_cons hi
    have hfi : s'.firstIndex = ci := by rw [firstIndex_of_cons hdrop]; omega
    have hinv : s'.Inv := by
      rw [inv_iff]
      refine ⟨?_, ?_⟩
      · show s.snapshotMetadata.index < s'.firstIndex
        rw [hfi]; omega
      · rw [hfi]
        have := contigFrom_drop h2 (ci - s.firstIndex) (by omega)
        have e2 : s.firstIndex + (ci - s.firstIndex) = ci := by omega
        rw [e2] at this; exact this
    refine ⟨s', ?_, hinv, ?_, by omega, ?_⟩
    · simp only [compact, if_neg hle, he0, hi0]
      rw [if_neg (by omega), if_neg (by omega), if_neg (by omega)]
    · simp only [LogSpec.step]; rw [if_neg (show ¬ ci ≤ s.abs.firstIdx from hle)]
      simp only [abs]
      rw [hfi, contigFrom_filter_ge h2]
    · have := hinv.lastIndex_succ
      rw [hfi] at this
      have hl' : s'.entries.length = s.entries.length - (ci - s.firstIndex) := by
        simp only [s', List.length_drop]
      omega

theorem applySnapshot_refines (s : MemStorage) (_h : s.Inv) (snap : Snapshot) :
    ∃ s', s.step (.applySnapshot snap) = .ok s' ∧ s'.Inv ∧
      s'.abs = s.abs.step (.applySnapshot snap) := by
  by_cases hlt : snap.metadata.index < s.firstIndex
  · refine ⟨s, ?_, _h, ?_⟩
    · simp only [step, applySnapshot, if_pos hlt]
    · simp only [LogSpec.step]; rw [if_pos (show snap.metadata.index < s.abs.firstIdx from hlt)]
  · refine ⟨{ s with
      snapshotMetadata := snap.metadata,
      hardState := { s.hardState with term := max s.hardState.term snap.metadata.term,
                                      commit := snap.metadata.index },
      entries := [],
      confState := snap.metadata.confState }, ?_, ?_, ?_⟩
    · simp only [step, applySnapshot, if_neg hlt]
    · rw [inv_iff]; simp [firstIndex, contigFrom]
    · simp only [LogSpec.step]
      rw [if_neg (show ¬ snap.metadata.index < s.abs.firstIdx from hlt)]; rfl

theorem commitTo_refines (s : MemStorage) (h : s.Inv) (i : Nat)
    (hp : s.abs.pre (.commitTo i) = true) :
    ∃ s', s.commitTo i = .ok s' ∧ s'.Inv ∧ s'.abs = s.abs.step (.commitTo i) ∧
      s'.hardState.commit = i := by
  have hlast := h.lastIndex_succ
  obtain ⟨h1, h2⟩ := (inv_iff s).1 h
  simp only [LogSpec.pre, Bool.and_eq_true, abs, LogSpec.lastIdx] at hp
  replace hp := And.intro (of_decide_eq_true hp.1) (of_decide_eq_true hp.2)
  have hlen : 0 < s.entries.length := by omega
  obtain ⟨e0, he0, hi0⟩ := h.head? hlen
  obtain ⟨e, hge, hie⟩ := h.getElem? (i - s.firstIndex) (by omega)
  have hne : s.entries.isEmpty = false := by
    cases hs : s.entries with
    | nil => rw [hs] at hlen; simp at hlen
    | cons a t => rfl
  have hfind : s.abs.entryAt i = some e := by
    simp only [LogSpec.entryAt, abs]
    rw [contigFrom_find? h2 i hp.1]; exact hge
  refine ⟨{ s with hardState := { s.hardState with commit := i, term := e.term } }, ?_, ?_, ?_, rfl⟩
  · simp only [commitTo, hasEntryAt, hne, he0, hi0]
    have c1 : decide (s.firstIndex ≤ i) = true := by simp; omega
    have c2 : decide (i ≤ s.lastIndex) = true := by simp; omega
    simp only [c1, c2, Bool.not_false, Bool.and_self, Bool.not_true, Bool.false_eq_true, if_false]
    rw [if_neg (by omega), hge]
  · rw [inv_iff]; exact ⟨h1, h2⟩
  · simp only [LogSpec.step, hfind]; rfl

/-! ### queries -/

theorem term_refines (s : MemStorage) (h : s.Inv) (idx : Nat) : s.term idx = s.abs.term idx := by
  have hlast := h.lastIndex_succ
  obtain ⟨h1, h2⟩ := (inv_iff s).1 h
  unfold term LogSpec.term LogSpec.termAt
  by_cases hs : idx = s.snapshotMetadata.index
  · rw [if_pos hs, if_pos (show idx = s.abs.snapIdx from hs)]; rfl
  · rw [if_neg hs, if_neg (show ¬ idx = s.abs.snapIdx from hs)]
    by_cases hc : idx < s.firstIndex
    · rw [if_pos hc]
      have : s.abs.entryAt idx = none := contigFrom_find?_lt h2 idx hc
      rw [this]; simp only [Option.map_none]; rw [if_pos (show idx < s.abs.firstIdx from hc)]
    · rw [if_neg hc]
      have hf : s.abs.entryAt idx = s.entries[idx - s.firstIndex]? :=
        contigFrom_find? h2 idx (by omega)
      rw [hf]
      by_cases hu : s.lastIndex < idx
      · rw [if_pos hu]
        have : s.entries[idx - s.firstIndex]? = none := List.getElem?_eq_none (by omega)
        rw [this]; simp only [Option.map_none]; rw [if_neg (show ¬ idx < s.abs.firstIdx from hc)]
      · rw [if_neg hu]
        obtain ⟨e, hge, _⟩ := h.getElem? (idx - s.firstIndex) (by omega)
        rw [hge]; rfl

theorem entries_refines (s : MemStorage) (h : s.Inv) (low high : Nat) (maxSize : Option Nat)
    (canAsync : Bool) (hl : s.firstIndex ≤ low) (hlh : low ≤ high) (hh : high ≤ s.lastIndex + 1)
    (hne : s.entries ≠ []) (ht : (s.triggerLogUnavailable && canAsync) = false) :
    s.entriesQ low high maxSize canAsync = .ok (s.abs.entries low high maxSize) := by
  have hlast := h.lastIndex_succ
  obtain ⟨h1, h2⟩ := (inv_iff s).1 h
  have hlen : 0 < s.entries.length := List.length_pos_iff.2 hne
  obtain ⟨e0, he0, hi0⟩ := h.head? hlen
  simp only [entriesQ, ht, he0, hi0, Bool.false_eq_true, if_false]
  rw [if_neg (by omega), if_neg (by omega), if_neg (by omega), if_neg (by omega), if_neg (by omega),
    if_neg (by omega)]
  simp only [LogSpec.entries, LogSpec.range, abs]
  rw [contigFrom_range h2 low high hl]

theorem _root_.RaftModel.LogSpec.commitOk_iff (l : LogSpec) : l.commitOk = true ↔
    l.hs.commit = l.snapIdx ∨ (l.firstIdx ≤ l.hs.commit ∧ l.hs.commit ≤ l.lastIdx) := by
  simp [LogSpec.commitOk]

theorem snapshotCore_refines (s : MemStorage) (h : s.Inv) (hc : s.abs.commitOk = true) :
    ∃ t, s.abs.termAt s.hardState.commit = some t ∧
      s.snapshotCore = .ok { data := [], metadata :=
        { index := s.hardState.commit, term := t, confState := s.confState } } := by
  have hlast := h.lastIndex_succ
  have hli := h.lastIdx
  obtain ⟨h1, h2⟩ := (inv_iff s).1 h
  rw [LogSpec.commitOk_iff] at hc
  unfold snapshotCore LogSpec.termAt
  by_cases hs : s.hardState.commit = s.snapshotMetadata.index
  · refine ⟨s.snapshotMetadata.term, ?_, ?_⟩
    · rw [if_pos (show s.hardState.commit = s.abs.snapIdx from hs)]; rfl
    · simp only [hs, if_true]
  · have hr : s.firstIndex ≤ s.hardState.commit ∧ s.hardState.commit ≤ s.lastIndex := by
      rcases hc with hc | hc
      · exact absurd hc hs
      · rw [hli] at hc; exact hc
    have hlen : 0 < s.entries.length := by omega
    obtain ⟨e0, he0, hi0⟩ := h.head? hlen
    obtain ⟨e, hge, _⟩ := h.getElem? (s.hardState.commit - s.firstIndex) (by omega)
    refine ⟨e.term, ?_, ?_⟩
    · rw [if_neg (show ¬ s.hardState.commit = s.abs.snapIdx from hs)]
      have : s.abs.entryAt s.hardState.commit = some e := by
        simp only [LogSpec.entryAt, abs]
        rw [contigFrom_find? h2 _ hr.1]; exact hge
      rw [this]; rfl
    · simp only [he0, hi0]
      rw [if_neg hs, if_pos (by omega), if_neg (by omega), hge]

theorem snapshot_refines (s : MemStorage) (h : s.Inv) (hc : s.abs.commitOk = true) (req : Nat)
    (hns : s.triggerSnapUnavailable = false) :
    ∃ snap, s.abs.snapshot req = some snap ∧ s.snapshot req = (s, .ok snap) := by
  obtain ⟨t, ht, hcore⟩ := snapshotCore_refines s h hc
  refine ⟨{ data := [], metadata :=
    { index := max s.hardState.commit req, term := t, confState := s.confState } }, ?_, ?_⟩
  · simp only [LogSpec.snapshot]
    rw [show s.abs.hs.commit = s.hardState.commit from rfl, ht]; rfl
  · simp only [snapshot, hns, hcore, Bool.false_eq_true, if_false]
    by_cases hr : s.hardState.commit < req
    · rw [if_pos hr, Nat.max_eq_right (by omega)]
    · rw [if_neg hr, Nat.max_eq_left (by omega)]

/-- one call from a state satisfying the invariant, under the documented precondition: no panic,
the invariant is re-established, and the meaning changes as the specification says -/
theorem step_refines (s : MemStorage) (h : s.Inv) (op : StorageOp) (hp : s.abs.pre op = true) :
    ∃ s', s.step op = .ok s' ∧ s'.Inv ∧ s'.abs = s.abs.step op := by
  cases op with
  | setHardState hs => exact ⟨_, rfl, (inv_iff _).2 ((inv_iff s).1 h), rfl⟩
  | setConfState cs => exact ⟨_, rfl, (inv_iff _).2 ((inv_iff s).1 h), rfl⟩
  | commitTo i =>
    obtain ⟨s', e, i', a, _⟩ := commitTo_refines s h i hp
    exact ⟨s', e, i', a⟩
  | applySnapshot snap => exact applySnapshot_refines s h snap
  | compact ci =>
    obtain ⟨s', e, i', a, _⟩ := compact_refines s h ci hp
    exact ⟨s', e, i', a⟩
  | append ents =>
    cases ents with
    | nil => exact ⟨s, rfl, h, rfl⟩
    | cons b0 b =>
      obtain ⟨s', e, i', a, _⟩ := append_refines s h b0 b hp
      exact ⟨s', e, i', a⟩
  | triggerSnapUnavailable => exact ⟨_, rfl, (inv_iff _).2 ((inv_iff s).1 h), rfl⟩
  | triggerLogUnavailable v => exact ⟨_, rfl, (inv_iff _).2 ((inv_iff s).1 h), rfl⟩
  | snapshot req =>
    have hc : s.abs.commitOk = true := hp
    by_cases hns : s.triggerSnapUnavailable = true
    · refine ⟨{ s with triggerSnapUnavailable := false }, ?_, (inv_iff _).2 ((inv_iff s).1 h), rfl⟩
      simp only [step, snapshot, hns, if_true]
    · have hns' : s.triggerSnapUnavailable = false := by simpa using hns
      obtain ⟨snap, _, e⟩ := snapshot_refines s h hc req hns'
      refine ⟨s, ?_, h, rfl⟩
      simp only [step, e]

end MemStorage

/-! ### the specification keeps the stored commit index meaningful -/
namespace LogSpec

theorem pre_of_preC (l : LogSpec) (op : StorageOp) (h : l.preC op = true) : l.pre op = true := by
  cases op with
  | compact ci =>
    simp only [preC, pre, Bool.or_eq_true, Bool.and_eq_true] at h ⊢
    rcases h with h | h
    · exact Or.inl h
    · exact Or.inr h.1
  | append ents =>
    cases ents with
    | nil => rfl
    | cons b0 b =>
      simp only [preC, Bool.and_eq_true] at h
      exact h.1
  | snapshot req => exact h
  | setHardState hs => rfl
  | setConfState cs => rfl
  | commitTo i => exact h
  | applySnapshot snap => rfl
  | triggerSnapUnavailable => rfl
  | triggerLogUnavailable v => rfl

theorem WF.filter_lt_length {l : LogSpec} (hw : l.WF) (m : Nat) (h1 : l.firstIdx ≤ m)
    (h2 : m ≤ l.lastIdx + 1) :
    (l.ents.filter (fun e => decide (e.index < m))).length = m - l.firstIdx := by
  rw [contigFrom_filter_lt hw.2.1, List.length_take]
  simp only [lastIdx] at h2
  have := hw.1
  omega

theorem WF.filter_ge_length {l : LogSpec} (hw : l.WF) (m : Nat) :
    (l.ents.filter (fun e => decide (m ≤ e.index))).length = l.ents.length - (m - l.firstIdx) := by
  rw [contigFrom_filter_ge hw.2.1, List.length_drop]

theorem commitOk_step (l : LogSpec) (hw : l.WF) (hc : l.commitOk = true) (op : StorageOp)
    (hp : l.preC op = true) : (l.step op).commitOk = true := by
  rw [commitOk_iff] at hc ⊢
  cases op with
  | setHardState hs =>
    simp only [preC, Bool.or_eq_true, Bool.and_eq_true, beq_iff_eq, decide_eq_true_eq] at hp
    exact hp
  | setConfState cs => exact hc
  | commitTo i =>
    simp only [preC, pre, Bool.and_eq_true, decide_eq_true_eq] at hp
    simp only [step]
    cases l.entryAt i with
    | none => exact hc
    | some e => exact Or.inr hp
  | applySnapshot snap =>
    simp only [step]
    by_cases hlt : snap.metadata.index < l.firstIdx
    · rw [if_pos hlt]; exact hc
    · rw [if_neg hlt]; exact Or.inl rfl
  | compact ci =>
    simp only [preC, Bool.or_eq_true, Bool.and_eq_true, decide_eq_true_eq] at hp
    simp only [step]
    by_cases hle : ci ≤ l.firstIdx
    · rw [if_pos hle]; exact hc
    · rw [if_neg hle]
      have hp' := hp.resolve_left hle
      have hlen := hw.filter_ge_length ci
      simp only [lastIdx] at hc hp' ⊢
      rw [hlen]
      have := hw.1
      omega
  | append ents =>
    cases ents with
    | nil => exact hc
    | cons b0 b =>
      simp only [preC, pre, Bool.or_eq_true, Bool.and_eq_true, beq_iff_eq, decide_eq_true_eq] at hp
      obtain ⟨⟨⟨_, hf⟩, hl⟩, hcm⟩ := hp
      have hlen := hw.filter_lt_length b0.index hf hl
      simp only [step, lastIdx, List.length_append, List.length_cons] at hc ⊢
      rw [hlen]
      simp only [lastIdx] at hl
      omega
  | triggerSnapUnavailable => exact hc
  | triggerLogUnavailable v => exact hc
  | snapshot req => exact hc

end LogSpec

end RaftModel
