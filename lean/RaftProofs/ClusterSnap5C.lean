import RaftProofs.ClusterSnap5A

/-!
[Copy of `ClusterSnap2C.lean` for the development `Snap5` (with `request_snapshot`): `NoReq` is replaced by
`ReqOk`, `SnapCase.restored` is widened — see `ClusterSnap5A.lean`, `RaftProps/C01i.lean`.]

Commit safety of `ClusterSem` **with log compaction and snapshots**, part 2C: the contract-abiding
steps `Snap5.KStep`, one step seen from the stepping node (`Snap5.Stp`: an ordinary call, the delivery
of a `MsgSnapshot`, the installation of a pending snapshot, a `send`, a restart), the standing
hypotheses `Snap5.Hyp`, and the first cluster invariants.

Everything of this development lives in the namespace `RaftModel.Cluster.Snap5`; a name that is not
redefined here refers to the declaration of `RaftModel.Cluster.Snap` (compaction only) or of
`RaftModel.Cluster`.
-/
namespace RaftModel
namespace Cluster
namespace Snap5
open Node Raft Raft.CC Snap

/-- **what a node may queue as `MsgSnapshot`**: the snapshot its storage holds — at the storage's
recorded commit index, with the term of that index, *not relabelled*: the storage answers
`snapshot(request_index)` only when its snapshot index is at least `request_index` (what
`MemStorage::snapshot` does not enforce, see `C01e_snapshot_request_index_counterexample`) -/
def SnapSend (st st' : NState) : Prop :=
  ∀ x ∈ st'.raft.msgs, x ∉ st.raft.msgs → x.msgType = .msgSnapshot →
    st.raft.raftLog.store.snapshotCore = .ok x.snapshot

/-- **a step of `ClusterSem` whose application obeys the storage and Ready contracts, snapshots
included**: the rules of `Snap.KStep` with these extra premises —
* `call` / `deliver`: `SnapSend` (no relabelled snapshots);
* a snapshot is installed at once: while a snapshot is pending (`unstable.snapshot`), the only call the
  application makes is `persist_snap`, and no message is offered to the node (**simplification**, see
  the report);
* `persist_snap` installs a pending snapshot only when term and vote are persisted (the `HardState` —
  term, vote, commit — is written as a whole: `apply_snapshot` writes the commit index);
* a call that is not the delivery of a `MsgSnapshot` leaves no snapshot pending (**proof gap**: a fact
  of the model — only `restore` sets `unstable.snapshot` — that is not derived here);
* `compact k` only up to the commit index **the storage records** (`k ≤ hard_state.commit`, the applied
  index the application wrote: "compact only what has been applied").  Needed with snapshots: a node
  that compacts beyond its recorded commit index, crashes and restarts has a snapshot point *at* its
  commit index whose term it has forgotten; a snapshot at that index then replaces its log — and drops
  entries it has acknowledged. -/
inductive KStep : Sys → Sys → Prop where
  | call (s : Sys) (i : Nat) (st st' : NState) (rnd : Option Nat) (op : NodeOp) (res : OpRes) :
      s.node i = some st → appOp op = true → (∀ k, op = .compact k → CompactOk st.raft.raftLog k) →
      (∀ k, op = .commitApply k → k ≤ st.raft.raftLog.persisted ∧ hsPersisted st) →
      (op = .persistSnap → st.raft.raftLog.unstable.snapshot ≠ none → hsPersisted st) →
      (st.raft.raftLog.unstable.snapshot ≠ none → op = .persistSnap) →
      (st.raft.raftLog.unstable.snapshot = none → st'.raft.raftLog.unstable.snapshot = none) →
      (∀ k, op = .compact k → k ≤ st.raft.raftLog.store.hardState.commit) →
      SnapSend st st' →
      Node.call st rnd op = .ok (res, st') →
      KStep s (s.setNode i st')
  | deliver (s : Sys) (i : Nat) (st st' : NState) (rnd : Option Nat) (m : Message) (res : OpRes) :
      s.node i = some st → m ∈ s.net → m.to = i →
      st.raft.raftLog.unstable.snapshot = none →
      (m.msgType ≠ .msgSnapshot → st'.raft.raftLog.unstable.snapshot = none) → SnapSend st st' →
      Node.call st rnd (.step m) = .ok (res, st') →
      KStep s (s.setNode i st')
  | send (s : Sys) (i : Nat) (st st' : NState) :
      s.node i = some st → hsPersisted st →
      (st.raft.state ≠ .leader →
        st.raft.raftLog.unstable.entries = [] ∧ st.raft.raftLog.unstable.snapshot = none) →
      Node.call st none .drain = .ok (.ok, st') →
      KStep s { (s.setNode i st') with net := s.net ++ st.raft.msgs }
  | restart (s : Sys) (i : Nat) (st st' : NState) (c : Config) (rnd : Option Nat) :
      s.node i = some st → c.id = i → Node.boot c st.raft.raftLog.store rnd = .ok (.ok st') →
      st'.raft.raftLog.unstable.snapshot = none →
      KStep s (s.setNode i st')

theorem KStep.cstep {s s' : Sys} (h : KStep s s') : CStep s s' := by
  cases h with
  | call i st st' rnd op res h1 h2 h3 _ _ _ _ _ _ h4 =>
    exact CStep.call s i st st' rnd op res h1 h2 h3 h4
  | deliver i st st' rnd m res h1 h2 h3 _ _ _ h4 => exact CStep.deliver s i st st' rnd m res h1 h2 h3 h4
  | send i st st' h1 h2 _ h3 => exact CStep.send s i st st' h1 h2 h3
  | restart i st st' c rnd h1 h2 h3 _ => exact CStep.restart s i st st' c rnd h1 h2 h3

theorem KStep.step {s s' : Sys} (h : KStep s s') : Step s s' := h.cstep.step

/-- a node that has asked for a snapshot (`request_snapshot`) has a log that ends at or before the
requested index (an invariant: the requested index is the last index at the time of the request and the
log of a node with a pending request does not grow; derived in `ClusterSnap5Y`, `reqok_all`) -/
def ReqOk (s : Sys) : Prop := ∀ i st, s.node i = some st →
  st.raft.pendingRequestSnapshot ≠ 0 → st.raft.raftLog.lastIndex ≤ st.raft.pendingRequestSnapshot

/-- one step `a → b`, node `k` going from `st` to `st'` -/
inductive Stp (a b : Sys) (k : Nat) (st st' : NState) : Prop
  /-- a call of the application, or the delivery of a message that is not a `MsgSnapshot`; no snapshot
  is pending -/
  | call (rnd : Option Nat) (op : NodeOp) (res : OpRes)
      (hop : appOp op = true ∨ ∃ m, op = .step m ∧ m ∈ a.net ∧ m.to = k)
      (hco : ∀ j, op = .compact j → CompactOk st.raft.raftLog j)
      (hca : ∀ j, op = .commitApply j → j ≤ st.raft.raftLog.persisted ∧ hsPersisted st)
      (hns : ∀ m, op = .step m → m.msgType ≠ .msgSnapshot)
      (hpn : st.raft.raftLog.unstable.snapshot = none)
      (hss : SnapSend st st')
      (hcall : Node.call st rnd op = .ok (res, st')) (hnet : b.net = a.net)
      (hpn' : st'.raft.raftLog.unstable.snapshot = none)
      (hcs : ∀ j, op = .compact j → j ≤ st.raft.raftLog.store.hardState.commit)
  /-- the delivery of a `MsgSnapshot` -/
  | snap (rnd : Option Nat) (m : Message) (hm : m ∈ a.net) (hto : m.to = k)
      (hty : m.msgType = .msgSnapshot) (hpn : st.raft.raftLog.unstable.snapshot = none)
      (hout : SnapOut st st' rnd m) (hnet : b.net = a.net)
  /-- the installation of the pending snapshot -/
  | psnap (rnd : Option Nat) (hp : hsPersisted st) (hout : PersistOut st st' rnd)
      (hpend : st.raft.raftLog.unstable.snapshot ≠ none) (hnet : b.net = a.net)
  | send (hp : hsPersisted st)
      (hu : st.raft.state ≠ .leader →
        st.raft.raftLog.unstable.entries = [] ∧ st.raft.raftLog.unstable.snapshot = none)
      (hq : st'.raft.msgs = [])
      (hsame : st'.raft.raftLog = st.raft.raftLog ∧ st'.raft.term = st.raft.term ∧
        st'.raft.state = st.raft.state)
      (hnet : b.net = a.net ++ st.raft.msgs)
      (hr : st'.raft = { st.raft with nextRand := none, msgs := [], readStates := [] })
  | restart (c : Config) (rnd : Option Nat)
      (hboot : Node.boot c st.raft.raftLog.store rnd = .ok (.ok st')) (hnet : b.net = a.net)
      (hpn' : st'.raft.raftLog.unstable.snapshot = none)

/-- every contract-abiding step is such a step -/
theorem stp_of_kstep {a b : Sys} (hstep : KStep a b) (hreq : ReqOk a)
    (hinv : ∀ i st, a.node i = some st → st.raft.raftLog.Inv) :
    ∃ k st st', a.node k = some st ∧ b.node k = some st' ∧ (∀ v, v ≠ k → b.node v = a.node v) ∧
      Stp a b k st st' := by
  cases hstep with
  | call k st st' rnd op res h1 h2 h3 h5 h6 h7 h9 h10 h8 h4 =>
    refine ⟨k, st, st', h1, node_setNode_self a k st', fun v hv => node_setNode_ne a k v st' hv, ?_⟩
    by_cases hpend : st.raft.raftLog.unstable.snapshot = none
    · exact .call rnd op res (.inl h2) h3 h5 (fun m hm => by rw [hm] at h2; cases h2) hpend h8 h4 rfl
        (h9 hpend) h10
    · have hop := h7 hpend
      subst hop
      exact .psnap rnd (h6 rfl hpend) (persist_out (hinv k st h1) h4) hpend rfl
  | deliver k st st' rnd m res h1 h2 h3 h5 h9 h6 h4 =>
    refine ⟨k, st, st', h1, node_setNode_self a k st', fun v hv => node_setNode_ne a k v st' hv, ?_⟩
    by_cases hty : m.msgType = .msgSnapshot
    · exact .snap rnd m h2 h3 hty h5 (snap_call hty (hreq k st h1) h4) rfl
    · exact .call rnd (.step m) res (.inr ⟨m, rfl, h2, h3⟩) (fun j hc => by cases hc)
        (fun j hc => by cases hc) (fun m' hm' => by cases hm'; exact hty) h5 h6 h4 rfl (h9 hty)
        (fun j hc => by cases hc)
  | send k st st' h1 h2 h2' h3 =>
    have hf : st'.raft.msgs = [] ∧ st'.raft.raftLog = st.raft.raftLog ∧
        st'.raft.term = st.raft.term ∧ st'.raft.state = st.raft.state ∧
        st'.raft = { st.raft with nextRand := none, msgs := [], readStates := [] } := by
      unfold Node.call at h3
      simp only [applyOp] at h3
      cases h3; exact ⟨rfl, rfl, rfl, rfl, rfl⟩
    exact ⟨k, st, st', h1, node_setNode_self a k st', fun v hv => node_setNode_ne a k v st' hv,
      .send h2 h2' hf.1 ⟨hf.2.1, hf.2.2.1, hf.2.2.2.1⟩ rfl hf.2.2.2.2⟩
  | restart k st st' c rnd h1 h2 h3 h4 =>
    exact ⟨k, st, st', h1, node_setNode_self a k st', fun v hv => node_setNode_ne a k v st' hv,
      .restart c rnd h3 rfl h4⟩

/-- the transport after the step: what was there, plus (for a `send`) the queue of the stepping node -/
theorem Stp.net_sub {a b : Sys} {k : Nat} {st st' : NState} (hs : Stp a b k st st') :
    ∀ x ∈ b.net, x ∈ a.net ∨ x ∈ st.raft.msgs := by
  intro x hx
  cases hs with
  | call _ _ _ _ _ _ _ _ _ _ hnet _ => rw [hnet] at hx; exact .inl hx
  | snap _ _ _ _ _ _ _ hnet => rw [hnet] at hx; exact .inl hx
  | psnap _ _ _ _ hnet => rw [hnet] at hx; exact .inl hx
  | send _ _ _ _ hnet _ => rw [hnet] at hx; exact List.mem_append.1 hx
  | restart _ _ _ hnet _ => rw [hnet] at hx; exact .inl hx

theorem Stp.net_mono {a b : Sys} {k : Nat} {st st' : NState} (hs : Stp a b k st st') :
    ∀ x ∈ a.net, x ∈ b.net := by
  intro x hx
  cases hs with
  | call _ _ _ _ _ _ _ _ _ _ hnet _ => rw [hnet]; exact hx
  | snap _ _ _ _ _ _ _ hnet => rw [hnet]; exact hx
  | psnap _ _ _ _ hnet => rw [hnet]; exact hx
  | send _ _ _ _ hnet _ => rw [hnet]; exact List.mem_append_left _ hx
  | restart _ _ _ hnet _ => rw [hnet]; exact hx

/-- the per-call relation of a `call` step that is not the delivery of a snapshot -/
theorem kstep_g {s : Sys} {i : Nat} {st st' : NState} {rnd : Option Nat} {op : NodeOp} {res : OpRes}
    (hm : MOKc s) (hnb : NoBatch s) (hi : s.node i = some st)
    (hop : appOp op = true ∨ ∃ m, op = .step m ∧ m ∈ s.net)
    (hns : ∀ m, op = .step m → m.msgType ≠ .msgSnapshot)
    (h : Node.call st rnd op = .ok (res, st')) :
    G (Anet s.net) st.raft (CV.opMsg op) st'.raft := by
  have hop' : op ≠ .drain ∧ ∀ m, op ≠ .rstep m := by
    rcases hop with h1 | ⟨m, h1, _⟩
    · constructor
      · intro hc; rw [hc] at h1; cases h1
      · intro m hc; rw [hc] at h1; cases h1
    · rw [h1]
      exact ⟨(by intro hc; cases hc), (by intro m' hc; cases hc)⟩
  refine call_g (Anet s.net) Anet.anti st st' rnd op res (hnb i st hi) (hm i st hi) hop' hns ?_ h
  intro m hm' t hack
  rcases hop with h1 | ⟨m', h1, h2⟩
  · rw [hm'] at h1; cases h1
  · rw [hm'] at h1; cases h1
    exact ⟨m, h2, ⟨hack.1, hack.2.1⟩, rfl, hack.2.2, Nat.le_refl _⟩

/-- the matched tables stay backed by the transport -/
theorem mokc_step {a b : Sys} (hm : MOKc a) (hnb : NoBatch a) {k : Nat} {st st' : NState}
    (hka : a.node k = some st) (hkb : b.node k = some st')
    (hoth : ∀ v, v ≠ k → b.node v = a.node v) (hs : Stp a b k st st') : MOKc b := by
  have hsub := hs.net_mono
  intro j stj hj
  by_cases hjk : j = k
  · subst hjk
    rw [hkb] at hj; cases hj
    cases hs with
    | call rnd op res hop _ _ hns _ _ hcall hnet _ =>
      have hop1 : appOp op = true ∨ ∃ m, op = .step m ∧ m ∈ a.net := by
        rcases hop with g | ⟨m, g1, g2, _⟩
        · exact .inl g
        · exact .inr ⟨m, g1, g2⟩
      rw [hnet]
      exact (kstep_g hm hnb hka hop1 hns hcall).mok
    | snap rnd m _ _ _ _ hout hnet =>
      rw [hnet]
      cases hout with
      | skip hr =>
        constructor
        rw [hr]
        exact (hm j st hka).h
      | handled x hsf _ _ _ _ _ _ _ _ _ _ => exact ⟨fun hl => by rw [hsf] at hl; cases hl⟩
    | psnap rnd _ hout _ hnet =>
      rw [hnet]
      have h0 := hm j st hka
      cases hout with
      | noop hr => constructor; rw [hr]; exact h0.h
      | done sn L _ hr _ _ _ hp _ _ _ _ _ =>
        constructor
        rw [hr]
        intro hl v x hx
        rcases h0.h hl v x hx with c | ⟨c1, c2⟩ | c
        · exact .inl c
        · exact .inr (.inl ⟨c1, by show x ≤ L.persisted; rw [hp]; omega⟩)
        · exact .inr (.inr c)
    | send _ _ _ _ hnet hr =>
      have h0 := (hm j st hka).mono (fun _ _ _ => Anet.mono (net' := b.net) hsub)
      constructor
      rw [hr]
      exact h0.h
    | restart c rnd hboot _ _ =>
      have hb := CV.boot_booted c _ rnd st' hboot
      exact ⟨fun hs => by rw [hb.state] at hs; cases hs⟩
  · rw [hoth j hjk] at hj
    exact (hm j stj hj).mono (fun _ _ _ => Anet.mono hsub)

/-- **the standing hypotheses** on a history of `ClusterSem` (all explicit, see the report): those of
`Snap.Hyp` with `Snap5.KStep` steps, **without** "no `MsgSnapshot` in the transport", and with
`reqok`: the log of a node with a pending snapshot request ends at or before the requested index
(`Snap2.Hyp` has `noreq` here; `reqok` is an invariant, discharged in `ClusterSnap5Y`) -/
structure Hyp (cfg : JointConfig) (h : List Sys) : Prop where
  hist : History h
  fix : ∀ s ∈ h, FixedCfg cfg s
  ne : cfg.incoming ≠ []
  nd1 : cfg.incoming.Nodup
  nd2 : cfg.outgoing.Nodup
  init : ∀ s : Sys, h[0]? = some s → InitOk s
  steps : ∀ (n : Nat) (a b : Sys), h[n]? = some a → h[n + 1]? = some b → KStep a b
  nb : ∀ s ∈ h, NoBatch s
  reqok : ∀ s ∈ h, ReqOk s

variable {cfg : JointConfig} {h : List Sys}

theorem Hyp.csteps (H : Hyp cfg h) :
    ∀ (n : Nat) (a b : Sys), h[n]? = some a → h[n + 1]? = some b → CStep a b :=
  fun n a b ha hb => (H.steps n a b ha hb).cstep

/-- the Log Matching invariant in every state -/
theorem Hyp.invL (H : Hyp cfg h) :
    ∃ s0, h[0]? = some s0 ∧ ∀ s ∈ h, InvL (Owner h) (EntriesOf s0) s :=
  RaftProps.C05.cluster_inv cfg H.ne H.nd1 H.nd2 h H.hist H.fix H.init H.csteps H.nb

/-- every step of the history, seen from the stepping node -/
theorem Hyp.stp (H : Hyp cfg h) {n : Nat} {a b : Sys} (ha : h[n]? = some a)
    (hb : h[n + 1]? = some b) :
    ∃ k st st', a.node k = some st ∧ b.node k = some st' ∧ (∀ v, v ≠ k → b.node v = a.node v) ∧
      Stp a b k st st' := by
  obtain ⟨s0, _, hall⟩ := H.invL
  exact stp_of_kstep (H.steps n a b ha hb) (H.reqok a (mem_of_get ha))
    (hall a (mem_of_get ha)).inv

/-- the matched tables are backed by the transport in every state -/
theorem Hyp.mokc (H : Hyp cfg h) : ∀ (n : Nat) (s : Sys), h[n]? = some s → MOKc s := by
  refine hist_induct h (fun _ s => MOKc s) (fun s h0 => MOKc.init (hist_init H.hist s h0)) ?_
  intro n a b ha hb ih
  obtain ⟨k, st, st', hka, hkb, hoth, hs⟩ := H.stp ha hb
  exact mokc_step ih (H.nb a (mem_of_get ha)) hka hkb hoth hs

/-- **provenance** (as `Snap.provenance`): `K` selects a kind of message that is not an append
response; `hfresh` says what an ordinary call establishes for every message of that kind it queues -/
theorem provenance (H : Hyp cfg h) (K : Message → Prop)
    (hK : ∀ x, K x → x.msgType ≠ .msgAppendResponse)
    (Φ : Nat → Nat → Message → Prop)
    (hfresh : ∀ n a b i st st' rnd op res, h[n]? = some a → h[n + 1]? = some b →
      a.node i = some st → b.node i = some st' → Node.call st rnd op = .ok (res, st') →
      (appOp op = true ∨ ∃ m, op = .step m ∧ m ∈ a.net ∧ m.to = i) →
      (∀ j, op = .compact j → CompactOk st.raft.raftLog j) →
      (∀ m, op = .step m → m.msgType ≠ .msgSnapshot) →
      st.raft.raftLog.unstable.snapshot = none → SnapSend st st' →
      b.net = a.net →
      ∀ x ∈ st'.raft.msgs, K x → x ∈ st.raft.msgs ∨ Φ (n + 1) i x) :
    ∀ n s, h[n]? = some s →
      (∀ i st, s.node i = some st → ∀ x ∈ st.raft.msgs, K x → Gen Φ n i x) ∧
      (∀ x ∈ s.net, K x → ∃ i, Gen Φ n i x) := by
  refine hist_induct h _ ?_ ?_
  · intro s h0
    have hinit : Init s := hist_init H.hist s h0
    refine ⟨fun i st hi x hx _ => ?_, fun x hx _ => ?_⟩
    · rw [init_queue hinit i st hi] at hx; cases hx
    · rw [hinit.1] at hx; cases hx
  · intro n a b ha hb ⟨ihq, ihn⟩
    obtain ⟨k, st, st', hka, hkb, hoth, hs⟩ := H.stp ha hb
    have up : ∀ {i x}, Gen Φ n i x → Gen Φ (n + 1) i x := fun g => g.mono (Nat.le_succ n)
    -- the queue of the stepping node: old messages, or fresh ones of an ordinary call
    have hqk : ∀ x ∈ st'.raft.msgs, K x → Gen Φ (n + 1) k x := by
      intro x hx hk
      cases hs with
      | call rnd op res hop hco _ hns hpn hss hcall hnet _ =>
        rcases hfresh n a b k st st' rnd op res ha hb hka hkb hcall hop hco hns hpn hss hnet x hx hk
          with g | g
        · exact up (ihq k st hka x g hk)
        · exact ⟨n + 1, Nat.le_refl _, g⟩
      | snap rnd m _ _ _ _ hout _ =>
        rcases hout.msgs x hx with g | g
        · exact up (ihq k st hka x g hk)
        · exact absurd g.1 (hK x hk)
      | psnap rnd _ hout _ _ => rw [hout.msgs] at hx; exact up (ihq k st hka x hx hk)
      | send _ _ hq _ _ _ => rw [hq] at hx; cases hx
      | restart c rnd hboot _ _ => rw [(CV.boot_booted c _ rnd st' hboot).msgs] at hx; cases hx
    refine ⟨fun i sti hi x hx hk => ?_, fun x hx hk => ?_⟩
    · by_cases hik : i = k
      · subst hik
        rw [hkb] at hi; cases hi
        exact hqk x hx hk
      · rw [hoth i hik] at hi
        exact up (ihq i sti hi x hx hk)
    · rcases hs.net_sub x hx with g | g
      · exact (ihn x g hk).imp (fun _ g => up g)
      · exact ⟨k, up (ihq k st hka x g hk)⟩

/-- **the leader's commit step** (as `Snap.Hyp.commit_step`) -/
theorem Hyp.commit_step (H : Hyp cfg h) (n : Nat) (a b : Sys)
    (ha : h[n]? = some a) (hb : h[n + 1]? = some b) (l : Nat) (sta stb : NState)
    (hla : a.node l = some sta) (hlb : b.node l = some stb) (hs : stb.raft.state = .leader)
    (hc : sta.raft.raftLog.committed < stb.raft.raftLog.committed) :
    stb.raft.raftLog.term stb.raft.raftLog.committed = .ok stb.raft.term ∧
    ∃ Q, IsJointQuorum cfg Q ∧ ∀ j ∈ Q,
      (j = l ∧ stb.raft.raftLog.committed ≤ stb.raft.raftLog.persisted) ∨
      Anet a.net j stb.raft.term stb.raft.raftLog.committed := by
  have hm := H.mokc n a ha
  have hnb := H.nb a (mem_of_get ha)
  have hfix := H.fix b (mem_of_get hb) l stb hlb
  obtain ⟨hid, _⟩ := ((hist_all H.hist).1 b (mem_of_get hb)).ids l stb hlb
  obtain ⟨k, st, st', hka, hkb, hoth, hstp⟩ := H.stp ha hb
  -- the relation of the step at node `l`
  have key : (∃ m, G (Anet a.net) sta.raft m stb.raft) ∨
      stb.raft.raftLog.committed = sta.raft.raftLog.committed ∨ stb.raft.state ≠ .leader := by
    by_cases hlk : l = k
    · subst hlk
      rw [hka] at hla; cases hla
      rw [hkb] at hlb; cases hlb
      cases hstp with
      | call rnd op res hop _ _ hns _ _ hcall _ _ =>
        have hop1 : appOp op = true ∨ ∃ m, op = .step m ∧ m ∈ a.net := by
          rcases hop with g | ⟨m, g1, g2, _⟩
          · exact .inl g
          · exact .inr ⟨m, g1, g2⟩
        exact .inl ⟨_, kstep_g hm hnb hka hop1 hns hcall⟩
      | snap rnd m _ _ _ _ hout _ =>
        cases hout with
        | skip hr => exact .inr (.inl (by rw [hr]))
        | handled x hsf _ _ _ _ _ _ _ _ _ _ => exact .inr (.inr (by rw [hsf]; intro hc; cases hc))
      | psnap rnd _ hout _ _ =>
        cases hout with
        | noop hr => exact .inr (.inl (by rw [hr]))
        | done sn L _ hr _ _ hcm _ _ _ _ _ _ => exact .inr (.inl (by rw [hr]; exact hcm))
      | send _ _ _ hsame _ _ => exact .inr (.inl (by rw [hsame.1]))
      | restart c rnd hboot _ _ =>
        exact .inr (.inr (by rw [(CV.boot_booted c _ rnd stb hboot).state]; intro hcc; cases hcc))
    · rw [hoth l hlk, hla] at hlb; cases hlb
      exact .inr (.inl rfl)
  rcases key with ⟨_, g⟩ | g | g
  · rcases g.lc hs with e | ⟨⟨Q, hQ, hQm⟩, hterm⟩
    · omega
    · refine ⟨hterm, Q, by rw [← hfix]; exact hQ, fun j hj => ?_⟩
      obtain ⟨x, hx, hle⟩ := hQm j hj
      rcases g.mok.h hs j x hx with d | ⟨d1, d2⟩ | d
      · omega
      · left; exact ⟨d1.trans hid, Nat.le_trans hle d2⟩
      · right; exact Anet.anti _ _ _ _ hle d
  · omega
  · exact absurd hs g

end Snap5
end Cluster
end RaftModel
