import RaftProofs.RaftNodeC16
import RaftProps.C20b
import RaftProps.C16

/-!
Helper lemmas for C05 on the node model (`RaftProps/C05b.lean`): which functions of `src/raft.rs`
leave the *logical log* `raftLog.abs` alone (`LS`, an anchored relation in the style of
`RaftNodeC16.Frame`), and what the two callers of `append_entry` do to it (`Appended`).
-/
namespace RaftModel

/-- `l'` represents the same logical log as `l`: same entries / snapshot point, same last index,
the representation invariant is kept, the commit index did not move backwards.  Cursors
(`committed`, `applied`, `persisted`), the apply limit and the storage's test triggers may differ. -/
structure LogSame (l l' : RaftLog) : Prop where
  abs : l'.abs = l.abs
  last : l'.lastIndex = l.lastIndex
  inv : l.Inv → l'.Inv
  commit : l.committed ≤ l'.committed

theorem LogSame.rfl {l : RaftLog} : LogSame l l := ⟨Eq.refl _, Eq.refl _, id, Nat.le_refl _⟩

theorem LogSame.trans {a b c : RaftLog} (h1 : LogSame a b) (h2 : LogSame b c) : LogSame a c :=
  ⟨h2.abs.trans h1.abs, h2.last.trans h1.last, fun h => h2.inv (h1.inv h),
   Nat.le_trans h1.commit h2.commit⟩

theorem c05_commitTo_same {l l' : RaftLog} {to : Nat} (h : l.commitTo to = .ok l') :
    LogSame l l' := by
  obtain ⟨he, hle⟩ := RaftProps.C20.commitTo_ok_abs l l' to h
  refine ⟨by rw [he]; rfl, by rw [he]; rfl, fun hi => (RaftProps.C20.commitTo_ok_inv hi to h).1, hle⟩

theorem c05_maybeCommit_same {l l' : RaftLog} {mi t : Nat} {b : Bool}
    (h : l.maybeCommit mi t = .ok (l', b)) : LogSame l l' := by
  unfold RaftLog.maybeCommit at h
  split at h
  · split at h
    · split at h
      · split at h
        · rename_i l2 hct
          cases h
          exact c05_commitTo_same hct
        · cases h
        · cases h
      · cases h; exact LogSame.rfl
    · cases h; exact LogSame.rfl
    · cases h
  · cases h; exact LogSame.rfl

theorem c05_limit_same (l : RaftLog) (n : Nat) :
    LogSame l { l with maxApplyUnpersistedLogLimit := n } :=
  ⟨rfl, rfl, fun h => RaftProps.C20.Inv_limit h n, Nat.le_refl _⟩

theorem c05_snapshot_same (l : RaftLog) (ri : Nat) : LogSame l (l.snapshot ri).1 := by
  have hst := (RaftProps.C20.storeSnapshot_spec l.store ri).1
  have key : LogSame l ({ l with store := (l.store.snapshot ri).1 } : RaftLog) := by
    rcases hst with h1 | h1
    · rw [h1]; exact LogSame.rfl
    · rw [h1]
      exact ⟨rfl, rfl, fun h => RaftProps.C20.Inv_store_trigger h false, Nat.le_refl _⟩
  unfold RaftLog.snapshot
  split
  · split
    · exact LogSame.rfl
    · exact key
  · exact key

namespace Raft

/-- anchored: the node `r` holds the same logical log as the node `a` -/
def LS (a r : Raft) : Prop := LogSame a.raftLog r.raftLog

theorem LS.rfl {r : Raft} : LS r r := LogSame.rfl

theorem LS.trans {a b c : Raft} (h1 : LS a b) (h2 : LS b c) : LS a c := LogSame.trans h1 h2

theorem LS.abs {a r : Raft} (h : LS a r) : r.raftLog.abs = a.raftLog.abs := LogSame.abs h
theorem LS.last {a r : Raft} (h : LS a r) : r.raftLog.lastIndex = a.raftLog.lastIndex := LogSame.last h
theorem LS.inv {a r : Raft} (h : LS a r) (hi : a.raftLog.Inv) : r.raftLog.Inv := LogSame.inv h hi
theorem LS.commit {a r : Raft} (h : LS a r) : a.raftLog.committed ≤ r.raftLog.committed :=
  LogSame.commit h

/-- any structure update that keeps `raftLog` keeps `LS` -/
theorem LS.mk' {a r : Raft} {x1 x2 x3 : Nat} {x4 : List ReadState} {x6 x7 x8 : Nat}
    {x9 : StateRole} {x10 : Bool} {x11 : Nat}
    {x12 : Option Nat} {x13 : Nat} {x14 : ReadOnly} {x15 x16 : Nat} {x17 x18 x19 x20 x21 : Bool}
    {x22 x23 x24 x25 x26 : Nat} {x27 : Int} {x28 : UncommittedState} {x29 : Nat}
    {x30 : ProgressTracker} {x31 : List Message} {x32 : Option Nat} (h0 : LS a r) :
    LS a { term := x1, vote := x2, id := x3, readStates := x4, raftLog := r.raftLog,
           maxInflight := x6, maxMsgSize := x7, pendingRequestSnapshot := x8, state := x9,
           promotable := x10, leaderId := x11, leadTransferee := x12,
           pendingConfIndex := x13, readOnly := x14, electionElapsed := x15,
           heartbeatElapsed := x16, checkQuorum := x17, preVote := x18,
           skipBcastCommit := x19, batchAppend := x20, disableProposalForwarding := x21,
           heartbeatTimeout := x22, electionTimeout := x23, randomizedElectionTimeout := x24,
           minElectionTimeout := x25, maxElectionTimeout := x26, priority := x27,
           uncommittedState := x28, maxCommittedSizePerReady := x29, prs := x30, msgs := x31,
           nextRand := x32 } := h0

/-- a structure update of `raftLog` by a `LogSame` log -/
theorem LS.log {a r : Raft} {l : RaftLog} (hl : LogSame r.raftLog l) (h0 : LS a r) :
    LS a { r with raftLog := l } := LogSame.trans h0 hl

macro "ls_pre" h:ident : tactic =>
  `(tactic| (frame_dec $h:ident <;> (iterate 2 (try (apply LS.mk')))))

macro "ls_auto" h:ident "[" ls:Lean.Parser.Tactic.SolveByElim.arg,* "]" : tactic =>
  `(tactic| (ls_pre $h:ident <;> (solve_by_elim (maxDepth := 14) [LS.rfl, $ls,*, LS.mk'])))

theorem send_ls {a r r' : Raft} {m : Message} (h : r.send m = .ok r') (h0 : LS a r) :
    LS a r' := by
  rw [send_eq r r' m h]; exact h0

theorem prepareSendSnapshot_ls {a r r' : Raft} {m m' : Message} {pr pr' : Progress} {to : Nat}
    {b : Bool} (h : r.prepareSendSnapshot m pr to = .ok (r', m', pr', b)) (h0 : LS a r) :
    LS a r' := by
  unfold Raft.prepareSendSnapshot at h
  split at h
  · cases h; exact h0
  · simp only [] at h
    have hs := c05_snapshot_same r.raftLog pr.pendingRequestSnapshot
    split at h
    · cases h; exact LS.log hs h0
    · cases h
    · cases h
    · split at h
      · cases h
      · cases h; exact LS.log hs h0

theorem tryBatching_ls {a r r' : Raft} {to : Nat} {pr pr' : Progress} {ents : List Entry} {b : Bool}
    (h : r.tryBatching to pr ents = .ok (r', pr', b)) (h0 : LS a r) : LS a r' := by
  unfold Raft.tryBatching at h
  split at h
  · cases h; exact h0
  · cases h
  · cases h

theorem maybeSendAppend_ls {a r r' : Raft} {to : Nat} {pr pr' : Progress} {ae b : Bool}
    (h : r.maybeSendAppend to pr ae = .ok (r', pr', b)) (h0 : LS a r) : LS a r' := by
  unfold Raft.maybeSendAppend at h
  ls_auto h [send_ls, prepareSendSnapshot_ls, tryBatching_ls]

theorem sendAppendPr_ls {a r r' : Raft} {to : Nat} {pr pr' : Progress}
    (h : r.sendAppendPr to pr = .ok (r', pr')) (h0 : LS a r) : LS a r' := by
  unfold Raft.sendAppendPr at h
  ls_auto h [maybeSendAppend_ls]

theorem sendAppendAggressivelyPr_ls {a r' : Raft} {to : Nat} {pr' : Progress} :
    ∀ (fuel : Nat) (r : Raft) (pr : Progress),
      sendAppendAggressivelyPr fuel r to pr = .ok (r', pr') → LS a r → LS a r' := by
  intro fuel
  induction fuel with
  | zero => intro r pr h; simp [sendAppendAggressivelyPr] at h
  | succ n ih =>
    intro r pr h h0
    unfold sendAppendAggressivelyPr at h
    split at h
    · rename_i r1 pr1 hm
      exact ih r1 pr1 h (maybeSendAppend_ls hm h0)
    · rename_i r1 pr1 hm
      cases h; exact maybeSendAppend_ls hm h0
    · cases h
    · cases h

theorem sendHeartbeat_ls {a r r' : Raft} {to : Nat} {pr : Progress} {ctx : Option Bytes}
    (h : r.sendHeartbeat to pr ctx = .ok r') (h0 : LS a r) : LS a r' := by
  unfold Raft.sendHeartbeat at h
  exact send_ls h h0

theorem sendAppend_ls {a r r' : Raft} {to : Nat}
    (h : r.sendAppend to = .ok r') (h0 : LS a r) : LS a r' := by
  unfold Raft.sendAppend at h
  ls_auto h [sendAppendPr_ls]

theorem sendAppendAggressively_ls {a r r' : Raft} {to : Nat}
    (h : r.sendAppendAggressively to = .ok r') (h0 : LS a r) : LS a r' := by
  unfold Raft.sendAppendAggressively at h
  ls_auto h [sendAppendAggressivelyPr_ls]

theorem sendTimeoutNow_ls {a r r' : Raft} {to : Nat}
    (h : r.sendTimeoutNow to = .ok r') (h0 : LS a r) : LS a r' := by
  unfold Raft.sendTimeoutNow at h
  exact send_ls h h0

theorem foldl_ls {α : Type} {a r' : Raft} (step : Res Raft → α → Res Raft)
    (hstep : ∀ acc x r1, step acc x = .ok r1 → ∃ r0, acc = .ok r0 ∧ (LS a r0 → LS a r1)) :
    ∀ (l : List α) (acc : Res Raft), l.foldl step acc = .ok r' →
      (∀ r, acc = .ok r → LS a r) → LS a r' := by
  intro l
  induction l with
  | nil => intro acc h h0; exact h0 r' h
  | cons x rest ih =>
    intro acc h h0
    simp only [List.foldl_cons] at h
    refine ih (step acc x) h ?_
    intro r1 h1
    obtain ⟨r0, e0, hf⟩ := hstep acc x r1 h1
    exact hf (h0 r0 e0)

theorem forEachPeer_ls {a r r' : Raft} {f : Raft → Nat → Progress → Res (Raft × Progress)}
    (hf : ∀ r id pr r' pr', f r id pr = .ok (r', pr') → LS a r → LS a r')
    (h : r.forEachPeer f = .ok r') (h0 : LS a r) : LS a r' := by
  unfold Raft.forEachPeer at h
  refine foldl_ls _ ?_ _ _ h (by intro r1 e; cases e; exact h0)
  intro acc id r1 h1
  cases acc with
  | err e => cases h1
  | panic s => cases h1
  | ok r0 =>
    refine ⟨r0, rfl, fun h0 => ?_⟩
    change (if id = r0.id then Res.ok r0 else _) = _ at h1
    ls_auto h1 [hf]

theorem bcastAppend_ls {a r r' : Raft} (h : r.bcastAppend = .ok r') (h0 : LS a r) :
    LS a r' := by
  unfold Raft.bcastAppend at h
  exact forEachPeer_ls (fun r id pr r' pr' h => sendAppendPr_ls h) h h0

theorem bcastHeartbeatWithCtx_ls {a r r' : Raft} {ctx : Option Bytes}
    (h : r.bcastHeartbeatWithCtx ctx = .ok r') (h0 : LS a r) : LS a r' := by
  unfold Raft.bcastHeartbeatWithCtx at h
  refine forEachPeer_ls (fun r id pr r' pr' h h0 => ?_) h h0
  ls_auto h [sendHeartbeat_ls]

theorem bcastHeartbeat_ls {a r r' : Raft} (h : r.bcastHeartbeat = .ok r') (h0 : LS a r) :
    LS a r' := by
  unfold Raft.bcastHeartbeat at h
  exact bcastHeartbeatWithCtx_ls h h0

theorem maybeCommit_ls {a r r' : Raft} {b : Bool} (h : r.maybeCommit = .ok (r', b))
    (h0 : LS a r) : LS a r' := by
  unfold Raft.maybeCommit at h
  split at h
  · cases h
  · cases h
  · split at h
    · cases h
    · cases h
    · rename_i log hm
      cases h
      exact LS.log (c05_maybeCommit_same hm) h0
    · cases h; exact h0

theorem maybeIncreaseUncommittedSize_ls {a r r' : Raft} {es : List Entry} {b : Bool}
    (h : r.maybeIncreaseUncommittedSize es = (r', b)) (h0 : LS a r) : LS a r' := by
  unfold Raft.maybeIncreaseUncommittedSize at h
  split at h
  cases h
  exact h0

theorem handleReadyReadIndex_ls {a r r' : Raft} {req : Message} {i : Nat} {om : Option Message}
    (h : r.handleReadyReadIndex req i = .ok (r', om)) (h0 : LS a r) : LS a r' := by
  unfold Raft.handleReadyReadIndex at h
  ls_auto h [send_ls]

theorem respondReadStates_ls {a r r' : Raft} {rss : List ReadIndexStatus}
    (h : r.respondReadStates rss = .ok r') (h0 : LS a r) : LS a r' := by
  unfold Raft.respondReadStates at h
  refine foldl_ls _ ?_ _ _ h (by intro r1 e; cases e; exact h0)
  intro acc rs r1 h1
  cases acc with
  | err e => cases h1
  | panic s => cases h1
  | ok r0 =>
    refine ⟨r0, rfl, fun h0 => ?_⟩
    change (r0.handleReadyReadIndex rs.req rs.index).bind _ = _ at h1
    ls_auto h1 [handleReadyReadIndex_ls, send_ls]

/-! ### leader side -/

theorem checkQuorumActive_ls {a r r' : Raft} {b : Bool} (h : r.checkQuorumActive = (r', b))
    (h0 : LS a r) : LS a r' := by
  unfold Raft.checkQuorumActive at h
  split at h
  cases h
  exact h0

theorem handleAppendResponseAccepted_ls {a r r' : Raft} {m : Message} {pr : Progress} {op : Bool}
    (h : r.handleAppendResponseAccepted m pr op = .ok r') (h0 : LS a r) : LS a r' := by
  unfold Raft.handleAppendResponseAccepted at h
  ls_auto h [maybeCommit_ls, bcastAppend_ls, sendAppend_ls,
    sendAppendAggressively_ls, sendTimeoutNow_ls]

theorem handleAppendResponse_ls {a r r' : Raft} {m : Message}
    (h : r.handleAppendResponse m = .ok r') (h0 : LS a r) : LS a r' := by
  unfold Raft.handleAppendResponse at h
  ls_auto h [handleAppendResponseAccepted_ls, sendAppend_ls]

theorem handleHeartbeatResponse_ls {a r r' : Raft} {m : Message}
    (h : r.handleHeartbeatResponse m = .ok r') (h0 : LS a r) : LS a r' := by
  unfold Raft.handleHeartbeatResponse at h
  ls_auto h [sendAppendPr_ls, respondReadStates_ls]

theorem handleTransferLeader_ls {a r r' : Raft} {m : Message}
    (h : r.handleTransferLeader m = .ok r') (h0 : LS a r) : LS a r' := by
  unfold Raft.handleTransferLeader at h
  repeat' (first | split at h | (simp only at h; split at h))
  all_goals ls_auto h [sendTimeoutNow_ls, sendAppendPr_ls]

theorem handleSnapshotStatus_ls {a r : Raft} {m : Message} (h0 : LS a r) :
    LS a (r.handleSnapshotStatus m) := by
  unfold Raft.handleSnapshotStatus
  split
  · exact h0
  · split
    · exact h0
    · exact h0

theorem handleUnreachable_ls {a r : Raft} {m : Message} (h0 : LS a r) :
    LS a (r.handleUnreachable m) := by
  unfold Raft.handleUnreachable
  split
  · exact h0
  · split
    · exact h0
    · exact h0

theorem filterProposalEntry_ls {a r r' : Raft} {i : Nat} {e e' : Entry}
    (h : r.filterProposalEntry i e = some (r', e')) (h0 : LS a r) : LS a r' := by
  unfold Raft.filterProposalEntry at h
  ls_auto h [send_ls]

theorem filterProposal_ls {a : Raft} : ∀ (es : List Entry) (r r' : Raft) (i : Nat)
    (oes : Option (List Entry)), r.filterProposal i es = (r', oes) → LS a r → LS a r' := by
  intro es
  induction es with
  | nil => intro r r' i oes h h0; simp [Raft.filterProposal] at h; rw [← h.1]; exact h0
  | cons e es ih =>
    intro r r' i oes h h0
    unfold Raft.filterProposal at h
    split at h
    · cases h; exact h0
    · rename_i r1 e1 h1
      have h2 := filterProposalEntry_ls h1 h0
      split at h
      · rename_i r2 es2 h3
        cases h; exact ih _ _ _ _ h3 h2
      · rename_i r2 h3
        cases h; exact ih _ _ _ _ h3 h2

/-! ### follower side, role changes, votes, term preamble -/

theorem sendRequestSnapshot_ls {a r r' : Raft} (h : r.sendRequestSnapshot = .ok r')
    (h0 : LS a r) : LS a r' := by
  unfold Raft.sendRequestSnapshot at h
  ls_auto h [send_ls]

theorem handleHeartbeat_ls {a r r' : Raft} {m : Message}
    (h : r.handleHeartbeat m = .ok r') (h0 : LS a r) : LS a r' := by
  unfold Raft.handleHeartbeat at h
  split at h
  · cases h
  · cases h
  · rename_i log hc
    have h1 : LS a { r with raftLog := log } := LS.log (c05_commitTo_same hc) h0
    ls_auto h [send_ls, sendRequestSnapshot_ls]

theorem reset_raftLog (r : Raft) (t : Nat) : (r.reset t).raftLog = r.raftLog := by
  unfold Raft.reset
  simp only [Raft.mapProgress, Raft.abortLeaderTransfer, Raft.resetRandomizedElectionTimeout]
  by_cases h : r.term ≠ t <;> simp [h]

theorem reset_ls {a r : Raft} (t : Nat) (h0 : LS a r) : LS a (r.reset t) := by
  unfold LS; rw [reset_raftLog]; exact h0

theorem becomeFollower_ls {a r : Raft} (t l : Nat) (h0 : LS a r) : LS a (r.becomeFollower t l) := by
  unfold LS
  rw [RaftProps.C20.becomeFollower_raftLog]
  exact LogSame.trans h0 (c05_limit_same _ 0)

theorem becomeCandidate_ls {a r r' : Raft} (h : r.becomeCandidate = .ok r') (h0 : LS a r) :
    LS a r' := by
  unfold Raft.becomeCandidate at h
  split at h
  · cases h
  · split at h
    · cases h
    · cases h
      exact LS.mk' (r := r.reset (r.term + 1)) (reset_ls _ h0)

theorem becomePreCandidate_ls {a r r' : Raft} (h : r.becomePreCandidate = .ok r') (h0 : LS a r) :
    LS a r' := by
  unfold Raft.becomePreCandidate at h
  split at h
  · cases h
  · cases h; exact h0

theorem sendVoteRequests_ls {a r r' : Raft} {ct : CampaignType} {vm : MsgType} {t : Nat}
    (h : r.sendVoteRequests ct vm t = .ok r') (h0 : LS a r) : LS a r' := by
  unfold Raft.sendVoteRequests at h
  split at h
  · cases h
  · cases h
  · split at h
    · cases h
    · cases h
    · refine foldl_ls _ ?_ _ _ h (by intro r1 e; cases e; exact h0)
      intro acc id r1 h1
      cases acc with
      | err e => cases h1
      | panic s => cases h1
      | ok r0 =>
        refine ⟨r0, rfl, fun h0 => ?_⟩
        change (if id = r0.id then Res.ok r0 else _) = _ at h1
        ls_auto h1 [send_ls]

theorem maybeCommitByVote_ls {a r r' : Raft} {m : Message} (h : r.maybeCommitByVote m = .ok r')
    (h0 : LS a r) : LS a r' := by
  unfold Raft.maybeCommitByVote at h
  split at h
  · cases h; exact h0
  · simp only at h
    split at h
    · cases h; exact h0
    · split at h
      · cases h
      · cases h
      · cases h; exact h0
      · rename_i log hm
        have h1 : LS a { r with raftLog := log } := LS.log (c05_maybeCommit_same hm) h0
        split at h
        · cases h; exact h1
        · split at h
          · cases h
          · cases h
          · cases h; exact becomeFollower_ls _ _ h1
          · cases h; exact h1

theorem stepVoteGrant_ls {a r r' : Raft} {m : Message} {t : MsgType}
    (h : r.stepVoteGrant m t = .ok r') (h0 : LS a r) : LS a r' := by
  unfold Raft.stepVoteGrant at h
  ls_auto h [send_ls]

theorem stepVoteReject_ls {a r r' : Raft} {m : Message} {t : MsgType}
    (h : r.stepVoteReject m t = .ok r') (h0 : LS a r) : LS a r' := by
  unfold Raft.stepVoteReject at h
  ls_auto h [send_ls, maybeCommitByVote_ls]

theorem stepVote_ls {a r r' : Raft} {m : Message} (h : r.stepVote m = .ok r') (h0 : LS a r) :
    LS a r' := by
  unfold Raft.stepVote at h
  ls_auto h [stepVoteGrant_ls, stepVoteReject_ls]

theorem stepTerm_ls {a r r' : Raft} {m : Message} {b : Bool} (h : r.stepTerm m = .ok (r', b))
    (h0 : LS a r) : LS a r' := by
  unfold Raft.stepTerm at h
  ls_auto h [send_ls, becomeFollower_ls]

/-! ### `append_entry` and its two callers (`step_leader`'s `MsgPropose`, `become_leader`) -/

/-- what `append_entry` does to the proposed entries before appending them (raft.rs:1047-1051):
term := the leader's term, index := consecutive from `i` -/
def stampFrom (t : Nat) : Nat → List Entry → List Entry
  | _, [] => []
  | i, e :: es => { e with term := t, index := i } :: stampFrom t (i + 1) es

theorem stampFrom_length (t : Nat) : ∀ (es : List Entry) (i : Nat), (stampFrom t i es).length = es.length := by
  intro es
  induction es with
  | nil => intro i; rfl
  | cons e es ih => intro i; simp [stampFrom, ih]

theorem stampFrom_getElem? (t : Nat) : ∀ (es : List Entry) (i k : Nat),
    (stampFrom t i es)[k]? = (es[k]?).map (fun e => { e with term := t, index := i + k }) := by
  intro es
  induction es with
  | nil => intro i k; simp [stampFrom]
  | cons e es ih =>
    intro i k
    cases k with
    | zero => simp [stampFrom]
    | succ k =>
      simp only [stampFrom, List.getElem?_cons_succ, ih]
      congr 1
      funext x
      congr 1
      omega

theorem stampFrom_contig (t : Nat) (es : List Entry) (i : Nat) : ContigFrom i (stampFrom t i es) := by
  intro k e hk
  rw [stampFrom_getElem?] at hk
  cases h : es[k]? with
  | none => rw [h] at hk; cases hk
  | some x => rw [h] at hk; cases hk; rfl

theorem stampFrom_term (t : Nat) (es : List Entry) (i : Nat) : ∀ e ∈ stampFrom t i es, e.term = t := by
  intro e he
  obtain ⟨k, hk, rfl⟩ := List.getElem_of_mem he
  have := stampFrom_getElem? t es i k
  rw [List.getElem?_eq_getElem hk] at this
  cases h : es[k]? with
  | none => rw [h] at this; cases this
  | some x => rw [h] at this; simp only [Option.map_some, Option.some.injEq] at this; rw [this]

/-- the model's `zip (range n)` formulation is `stampFrom` -/
theorem stamp_eq (t li : Nat) (es : List Entry) :
    ((List.range es.length).zip es |>.map (fun (p : Nat × Entry) =>
      { p.2 with term := t, index := li + 1 + p.1 })) = stampFrom t (li + 1) es := by
  have key : ∀ (es : List Entry) (s : Nat),
      ((List.range' s es.length).zip es |>.map (fun (p : Nat × Entry) =>
        { p.2 with term := t, index := li + 1 + p.1 })) = stampFrom t (li + 1 + s) es := by
    intro es
    induction es with
    | nil => intro s; rfl
    | cons e es ih =>
      intro s
      simp only [List.length_cons, List.range'_succ, List.zip_cons_cons, List.map_cons, stampFrom]
      rw [ih (s + 1)]
      rfl
  rw [List.range_eq_range']
  exact key es 0

/-- one `append_entry` of the entries `es` happened between `a` and `r`, and nothing else touched
the logical log: it grew by `es` at its end -/
structure Appended (a r : Raft) (es : List Entry) : Prop where
  ne : es ≠ []
  abs : r.raftLog.abs = { a.raftLog.abs with ents := a.raftLog.abs.ents ++ es }
  contig : ContigFrom (a.raftLog.lastIndex + 1) es
  terms : ∀ e ∈ es, e.term = r.term
  last : r.raftLog.lastIndex = a.raftLog.lastIndex + es.length
  inv : r.raftLog.Inv
  commit : a.raftLog.committed ≤ r.raftLog.committed
  leader : r.state = .leader

/-- re-anchor on the left -/
theorem Appended.anchor {a r r' : Raft} {es : List Entry} (h0 : LS a r)
    (h : Appended r r' es) : Appended a r' es :=
  ⟨h.ne, by rw [h.abs, h0.abs], by rw [← h0.last]; exact h.contig, h.terms,
   by rw [h.last, h0.last], h.inv, Nat.le_trans h0.commit h.commit, h.leader⟩

/-- extend on the right by a step that keeps the logical log, the term and the role -/
theorem Appended.right {a r r' : Raft} {es : List Entry} (h : Appended a r es)
    (h1 : LS r r') (h2 : Frame r r') : Appended a r' es :=
  ⟨h.ne, by rw [h1.abs, h.abs], h.contig, by rw [h2.term]; exact h.terms,
   by rw [h1.last, h.last], h1.inv h.inv, Nat.le_trans h.commit h1.commit,
   by rw [h2.state]; exact h.leader⟩

/-- **`append_entry`** on a leader whose log satisfies the invariant: refused by the
uncommitted-size limit (nothing changes), or the entries — stamped with the leader's term and
consecutive indexes after `last_index` — are appended to the logical log -/
theorem appendEntry_cases {r r' : Raft} {es : List Entry} {b : Bool} (hinv : r.raftLog.Inv)
    (hs : r.state = .leader) (h : r.appendEntry es = .ok (r', b)) :
    (b = false ∧ r' = r) ∨
    (b = true ∧ es = [] ∧ LS r r' ∧ Frame r r') ∨
    (b = true ∧ Appended r r' (stampFrom r.term (r.raftLog.lastIndex + 1) es) ∧ Frame r r') := by
  unfold Raft.appendEntry at h
  split at h
  · cases h; exact .inl ⟨rfl, rfl⟩
  · rename_i r1 hinc
    have hl1 : r1.raftLog = r.raftLog := by
      unfold Raft.maybeIncreaseUncommittedSize at hinc
      split at hinc
      cases hinc; rfl
    have hf1 : Frame r r1 := maybeIncreaseUncommittedSize_frame hinc Frame.rfl
    simp only [] at h
    have hst := stamp_eq r1.term r1.raftLog.lastIndex es
    simp only [] at hst
    rw [hst] at h
    right
    cases es with
    | nil =>
      simp only [stampFrom, RaftLog.append] at h
      cases h
      refine .inl ⟨rfl, rfl, ?_, Frame.mk' hf1⟩
      show LogSame r.raftLog r1.raftLog
      rw [hl1]; exact LogSame.rfl
    | cons e es =>
      right
      have hinv1 : r1.raftLog.Inv := by rw [hl1]; exact hinv
      have hcl := hinv1.committed_le_last
      have hpo := hinv1.persisted_lt_off
      have hls := hinv1.last_succ
      obtain ⟨l', happ, hlast, habs, _, hcm, _, _, hinv'⟩ :=
        RaftProps.C14.C14_append_spec r1.raftLog hinv1
          { e with term := r1.term, index := r1.raftLog.lastIndex + 1 }
          (stampFrom r1.term (r1.raftLog.lastIndex + 1 + 1) es)
          (stampFrom_contig r1.term (e :: es) (r1.raftLog.lastIndex + 1))
          (by show r1.raftLog.committed < r1.raftLog.lastIndex + 1; omega)
          (Nat.le_refl _)
      simp only [stampFrom] at h
      rw [happ] at h
      cases h
      have hls1 : LS r r1 := by show LogSame r.raftLog r1.raftLog; rw [hl1]; exact LogSame.rfl
      rw [← hf1.term, ← hl1]
      refine ⟨rfl, Appended.anchor hls1
        ⟨by simp [stampFrom], ?_, stampFrom_contig _ _ _, ?_, ?_, ?_, ?_, ?_⟩, Frame.mk' hf1⟩
      · show l'.abs = _
        rw [habs]
        have hla := hinv1.lastIndex_abs
        simp only [LLog.lastIndex] at hla
        simp only [LLog.truncateAppend, stampFrom]
        rw [show r1.raftLog.lastIndex + 1 - 1 - r1.raftLog.abs.snapIdx = r1.raftLog.abs.ents.length by omega,
          List.take_of_length_le (Nat.le_refl _)]
      · intro x hx
        exact stampFrom_term r1.term (e :: es) _ x hx
      · show l'.lastIndex = _
        rw [hlast]
        simp only [stampFrom_length, List.length_cons]
        omega
      · exact hinv' (by show r1.raftLog.persisted < r1.raftLog.lastIndex + 1; omega)
      · show r1.raftLog.committed ≤ l'.committed; omega
      · show r1.state = .leader
        rw [hf1.state]; exact hs

/-- the empty entry a new leader appends (raft.rs:1274) -/
def leaderNoop (t i : Nat) : Entry := { term := t, index := i }

/-- the node won an election between `a` and `r`: it is now leader and its log grew by exactly the
empty entry of its new term -/
def Won (a r : Raft) : Prop := Appended a r [leaderNoop r.term (a.raftLog.lastIndex + 1)]

theorem Won.right {a r r' : Raft} (h : Won a r) (h1 : LS r r') (h2 : Frame r r') : Won a r' := by
  unfold Won
  rw [h2.term]
  exact Appended.right h h1 h2

/-- **`become_leader`**: the only change to the logical log is the appended empty entry -/
theorem becomeLeader_won {a r r' : Raft} (hinv : a.raftLog.Inv) (h0 : LS a r)
    (h : r.becomeLeader = .ok r') : Won a r' := by
  unfold Raft.becomeLeader at h
  split at h
  · cases h
  · simp only [] at h
    split at h
    · cases h
    · split at h
      · cases h
      · rename_i pr hpr
        have hl : LS a (r.reset r.term) := reset_ls _ h0
        split at h
        · rename_i r2 happ
          cases h
          rcases appendEntry_cases (by exact hl.inv hinv) (by rfl) happ with ⟨hb, _⟩ | ⟨_, he, _⟩ | ⟨_, hA, hfr⟩
          · cases hb
          · cases he
          · have hA' := Appended.anchor (a := a) (by exact hl) hA
            unfold Won
            rw [hfr.term, ← LS.last hl]
            exact hA'
        · cases h
        · cases h
        · cases h

/-! ### elections: `poll`, `campaign`, `hup` either keep the logical log or win -/

theorem pollWith_grew {a r r' : Raft} {onPreWin : Raft → Res Raft} {frm : Nat} {t : MsgType}
    {v : Bool} {res : VoteResult}
    (hpre : ∀ r r', LS a r → onPreWin r = .ok r' → LS a r' ∨ Won a r')
    (hinv : a.raftLog.Inv) (h0 : LS a r) (h : pollWith onPreWin r frm t v = .ok (r', res)) :
    LS a r' ∨ Won a r' := by
  unfold Raft.pollWith at h
  simp only at h
  generalize hres : (r.prs.recordVote frm v).tallyVotes.2.2 = res0 at h
  cases res0 with
  | won =>
    simp only at h
    split at h
    · rw [Res.bind_eq_ok_iff] at h
      obtain ⟨r2, h1, h2⟩ := h
      cases h2
      exact hpre _ _ (by exact h0) h1
    · rw [Res.bind_eq_ok_iff] at h
      obtain ⟨r2, h1, h2⟩ := h
      cases h2
      rw [Res.bind_eq_ok_iff] at h1
      obtain ⟨r3, h3, h4⟩ := h1
      have hw := becomeLeader_won hinv (by exact h0) h3
      exact .inr (hw.right (bcastAppend_ls h4 LS.rfl) (bcastAppend_frame h4 Frame.rfl))
  | lost =>
    simp only at h
    cases h
    exact .inl (becomeFollower_ls _ _ (by exact h0))
  | pending =>
    simp only at h
    cases h
    exact .inl h0

theorem campaignWith_grew {a r r' : Raft}
    {poll : Raft → Nat → MsgType → Bool → Res (Raft × VoteResult)} {ct : CampaignType}
    (hpoll : ∀ r frm t v r' res, LS a r → poll r frm t v = .ok (r', res) → LS a r' ∨ Won a r')
    (h0 : LS a r) (h : campaignWith poll r ct = .ok r') : LS a r' ∨ Won a r' := by
  unfold Raft.campaignWith at h
  rw [Res.bind_eq_ok_iff] at h
  obtain ⟨⟨r1, vm, t⟩, h1, h2⟩ := h
  have hl1 : LS a r1 := by
    split at h1
    · rw [Res.bind_eq_ok_iff] at h1
      obtain ⟨r0, h3, h4⟩ := h1
      split at h4
      · cases h4
      · cases h4; exact becomePreCandidate_ls h3 h0
    · rw [Res.bind_eq_ok_iff] at h1
      obtain ⟨r0, h3, h4⟩ := h1
      cases h4; exact becomeCandidate_ls h3 h0
  simp only at h2
  rw [Res.bind_eq_ok_iff] at h2
  obtain ⟨⟨r2, res⟩, h5, h6⟩ := h2
  simp only at h6
  rcases hpoll _ _ _ _ _ _ hl1 h5 with hl2 | hw
  · split at h6
    · cases h6; exact .inl hl2
    · exact .inl (sendVoteRequests_ls h6 hl2)
  · split at h6
    · cases h6; exact .inr hw
    · exact .inr (hw.right (sendVoteRequests_ls h6 LS.rfl)
        (RaftProps.C16.sendVoteRequests_frame h6 Frame.rfl))

theorem campaignAfterPreVote_grew {a r r' : Raft} (hinv : a.raftLog.Inv) (h0 : LS a r)
    (h : r.campaignAfterPreVote = .ok r') : LS a r' ∨ Won a r' := by
  unfold Raft.campaignAfterPreVote at h
  refine campaignWith_grew ?_ h0 h
  intro r1 frm t v r2 res hl hp
  exact pollWith_grew (fun _ _ _ hc => by cases hc) hinv hl hp

theorem poll_grew {a r r' : Raft} {frm : Nat} {t : MsgType} {v : Bool} {res : VoteResult}
    (hinv : a.raftLog.Inv) (h0 : LS a r) (h : r.poll frm t v = .ok (r', res)) :
    LS a r' ∨ Won a r' := by
  unfold Raft.poll at h
  exact pollWith_grew (fun _ _ hl hc => campaignAfterPreVote_grew hinv hl hc) hinv h0 h

theorem campaign_grew {a r r' : Raft} {ct : CampaignType} (hinv : a.raftLog.Inv) (h0 : LS a r)
    (h : r.campaign ct = .ok r') : LS a r' ∨ Won a r' := by
  unfold Raft.campaign at h
  exact campaignWith_grew (fun _ _ _ _ _ _ hl hp => poll_grew hinv hl hp) h0 h

/-- **`hup`**: the logical log is kept, or the node (not a leader before) wins on the spot (its own
vote is a quorum) and appends the empty entry of its new term -/
theorem hup_grew {a r r' : Raft} {tl : Bool} (hinv : a.raftLog.Inv) (h0 : LS a r)
    (h : r.hup tl = .ok r') : LS a r' ∨ (Won a r' ∧ r.state ≠ .leader) := by
  unfold Raft.hup at h
  split at h
  · cases h; exact .inl h0
  · rename_i hnl
    have key : ∀ ct, r.campaign ct = .ok r' → LS a r' ∨ (Won a r' ∧ r.state ≠ .leader) := by
      intro ct hc
      rcases campaign_grew hinv h0 hc with c | c
      · exact .inl c
      · exact .inr ⟨c, hnl⟩
    split at h
    · cases h; exact .inl h0
    · split at h
      · cases h
      · cases h
      · cases h; exact .inl h0
      · split at h
        · cases h; exact .inl h0
        · split at h
          · exact key _ h
          · split at h
            · exact key _ h
            · exact key _ h

/-! ### `step_leader` -/

theorem filterProposal_length : ∀ (es : List Entry) (r r' : Raft) (i : Nat) (es' : List Entry),
    r.filterProposal i es = (r', some es') → es'.length = es.length := by
  intro es
  induction es with
  | nil => intro r r' i es' h; simp [Raft.filterProposal] at h; rw [← h.2]
  | cons e es ih =>
    intro r r' i es' h
    unfold Raft.filterProposal at h
    split at h
    · cases h
    · split at h
      · rename_i r2 es2 h3
        cases h
        simp only [List.length_cons, ih _ _ _ _ h3]
      · cases h

/-- **`step_leader`**: only `MsgPropose` changes the logical log, and only by appending the
proposed entries (as many as proposed, stamped with the leader's term, consecutive indexes) -/
theorem stepLeader_log {a r r' : Raft} {m : Message} {e : Option RaftError}
    (hinv : a.raftLog.Inv) (h0 : LS a r) (hs : r.state = .leader)
    (h : r.stepLeader m = .ok (r', e)) :
    LS a r' ∨
    (m.msgType = .msgPropose ∧ e = none ∧ ∃ es, es.length = m.entries.length ∧
      Appended a r' (stampFrom r.term (a.raftLog.lastIndex + 1) es)) := by
  unfold Raft.stepLeader at h
  split at h
  · refine .inl ?_
    ls_auto h [bcastHeartbeat_ls]
  · refine .inl ?_
    ls_auto h [checkQuorumActive_ls, becomeFollower_ls]
  · rename_i hm
    split at h
    · cases h
    · split at h
      · cases h; exact .inl h0
      · split at h
        · cases h; exact .inl h0
        · split at h
          · rename_i r1 hf
            cases h
            exact .inl (filterProposal_ls _ _ _ _ _ hf h0)
          · rename_i r1 es hf
            have hl1 : LS a r1 := filterProposal_ls _ _ _ _ _ hf h0
            have hf1 : Frame r r1 := filterProposal_frame _ _ _ _ _ hf Frame.rfl
            have hlen := filterProposal_length _ _ _ _ _ hf
            split at h
            · rename_i r2 happ
              cases h
              rcases appendEntry_cases (hl1.inv hinv) (hf1.state.trans hs) happ with
                ⟨_, he⟩ | ⟨hb, _⟩ | ⟨hb, _⟩
              · rw [he]; exact .inl hl1
              · cases hb
              · cases hb
            · rename_i r2 happ
              rw [Res.bind_eq_ok_iff] at h
              obtain ⟨r3, hb, h3⟩ := h
              cases h3
              rcases appendEntry_cases (hl1.inv hinv) (hf1.state.trans hs) happ with
                ⟨hb', _⟩ | ⟨_, _, hl2, _⟩ | ⟨_, hA, hf2⟩
              · cases hb'
              · exact .inl (bcastAppend_ls hb (hl1.trans hl2))
              · refine .inr ⟨hm, rfl, es, hlen, ?_⟩
                have hA' := (Appended.anchor hl1 hA).right (bcastAppend_ls hb LS.rfl)
                  (bcastAppend_frame hb Frame.rfl)
                rw [hf1.term, hl1.last] at hA'
                exact hA'
            · cases h
            · cases h
  · refine .inl ?_
    ls_auto h [handleReadyReadIndex_ls, send_ls, bcastHeartbeatWithCtx_ls]
  · refine .inl ?_
    ls_auto h [handleAppendResponse_ls]
  · refine .inl ?_
    ls_auto h [handleHeartbeatResponse_ls]
  · cases h; exact .inl (handleSnapshotStatus_ls h0)
  · cases h; exact .inl (handleUnreachable_ls h0)
  · refine .inl ?_
    ls_auto h [handleTransferLeader_ls]
  · cases h; exact .inl h0

/-! ### snapshots: `restore`, `handle_snapshot` -/

/-- the logical log was replaced by the snapshot `sn` between `a` and `r` -/
structure Restored (a r : Raft) (sn : Snapshot) : Prop where
  abs : r.raftLog.abs = LLog.ofSnapshot sn
  inv : r.raftLog.Inv
  ge : a.raftLog.committed ≤ sn.metadata.index
  commit : sn.metadata.index ≤ r.raftLog.committed

theorem Restored.right {a r r' : Raft} {sn : Snapshot} (h : Restored a r sn) (h1 : LS r r') :
    Restored a r' sn :=
  ⟨by rw [h1.abs, h.abs], h1.inv h.inv, h.ge, Nat.le_trans h.commit h1.commit⟩

theorem postConfChange_nonleader_ls {a r r' : Raft} {cs : ConfState} (hs : r.state ≠ .leader)
    (h : r.postConfChange = .ok (r', cs)) (h0 : LS a r) : LS a r' := by
  unfold Raft.postConfChange at h
  have hb : (r.state == StateRole.leader) = false := by
    cases hst : r.state <;> simp_all
  simp only [hb, Bool.and_false, hs, ne_eq, not_false_eq_true, true_or, if_true, if_false,
    Bool.false_eq_true] at h
  cases h
  exact h0

/-- **`restore`**: the logical log is kept (stale snapshot, step-down of a non-follower, snapshot
without this node, fast-forward of the commit index) or replaced by the snapshot -/
theorem restore_log {a r r' : Raft} {snap : Snapshot} {b : Bool} (hinv : a.raftLog.Inv)
    (h0 : LS a r) (h : r.restore snap = .ok (r', b)) :
    LS a r' ∨ (b = true ∧ Restored a r' snap) := by
  unfold Raft.restore at h
  simp only [] at h
  split at h
  · cases h; exact .inl h0
  · rename_i hge
    split at h
    · split at h
      · cases h
      · cases h; exact .inl (becomeFollower_ls _ _ h0)
    · rename_i hfol
      split at h
      · cases h; exact .inl h0
      · split at h
        · cases h
        · cases h
        · split at h
          · rename_i log hc
            cases h; exact .inl (LS.log (c05_commitTo_same hc) h0)
          · cases h
          · cases h
        · split at h
          · cases h
          · cases h
          · rename_i log hr
            split at h
            · cases h
            · rename_i prs hprs
              rw [Res.bind_eq_ok_iff] at h
              obtain ⟨⟨r1, ncs⟩, hpc, h2⟩ := h
              simp only [] at h2
              split at h2
              · cases h2
              · split at h2
                · cases h2
                · split at h2
                  · cases h2
                  · rw [Res.bind_eq_ok_iff] at h2
                    obtain ⟨⟨pr', ub⟩, _, h3⟩ := h2
                    cases h3
                    have hri := h0.inv hinv
                    obtain ⟨l', hr', hinv', habs', hcm', _, _⟩ :=
                      (RaftProps.C14.C14_restore_spec r.raftLog hri snap).1 (by omega)
                    rw [hr] at hr'
                    cases hr'
                    have hst : ¬ (({ r with raftLog := log, prs := prs } : Raft).state = .leader) := by
                      show ¬ (r.state = .leader)
                      intro hc
                      rw [hc] at hfol
                      exact hfol (by decide)
                    have hl1 : LS { r with raftLog := log, prs := prs } r1 :=
                      postConfChange_nonleader_ls hst hpc LS.rfl
                    have hR0 : Restored a { r with raftLog := log, prs := prs } snap :=
                      ⟨habs', hinv', Nat.le_trans h0.commit (by omega), by show _ ≤ log.committed; omega⟩
                    exact .inr ⟨rfl, (hR0.right hl1).right (by exact LS.rfl)⟩

theorem handleSnapshot_log {a r r' : Raft} {m : Message} (hinv : a.raftLog.Inv) (h0 : LS a r)
    (h : r.handleSnapshot m = .ok r') : LS a r' ∨ Restored a r' m.snapshot := by
  unfold Raft.handleSnapshot at h
  rw [Res.bind_eq_ok_iff] at h
  obtain ⟨⟨r1, ok⟩, hr, h2⟩ := h
  simp only [] at h2
  rcases restore_log hinv h0 hr with hl | ⟨_, hR⟩
  · split at h2
    · exact .inl (send_ls h2 hl)
    · exact .inl (send_ls h2 hl)
  · split at h2
    · exact .inr (hR.right (send_ls h2 LS.rfl))
    · exact .inr (hR.right (send_ls h2 LS.rfl))

/-! ### `step_follower`, `step_candidate`, `step` -/

/-- **`step_follower`**: the logical log is kept except by `MsgAppend` (`handle_append_entries`),
`MsgSnapshot` (`restore`) and a `MsgTimeoutNow` campaign that is won on the spot -/
theorem stepFollower_log {a r r' : Raft} {m : Message} {e : Option RaftError}
    (hinv : a.raftLog.Inv) (h0 : LS a r) (hs : r.state = .follower)
    (h : r.stepFollower m = .ok (r', e)) :
    LS a r' ∨ (m.msgType = .msgTimeoutNow ∧ Won a r') ∨
    (m.msgType = .msgAppend ∧ ∃ r0, LS a r0 ∧ r0.state = .follower ∧
      r0.handleAppendEntries m = .ok r') ∨
    (m.msgType = .msgSnapshot ∧ Restored a r' m.snapshot) := by
  unfold Raft.stepFollower at h
  split at h
  · refine .inl ?_
    ls_auto h [send_ls]
  · rename_i hm
    rw [Res.bind_eq_ok_iff] at h
    obtain ⟨r1, h1, h2⟩ := h
    cases h2
    exact .inr (.inr (.inl ⟨hm, { r with electionElapsed := 0, leaderId := m.frm }, h0, hs, h1⟩))
  · rw [Res.bind_eq_ok_iff] at h
    obtain ⟨r1, h1, h2⟩ := h
    cases h2
    exact .inl (handleHeartbeat_ls h1 (by exact h0))
  · rename_i hm
    rw [Res.bind_eq_ok_iff] at h
    obtain ⟨r1, h1, h2⟩ := h
    cases h2
    rcases handleSnapshot_log hinv (by exact h0) h1 with c | c
    · exact .inl c
    · exact .inr (.inr (.inr ⟨hm, c⟩))
  · refine .inl ?_
    ls_auto h [send_ls]
  · rename_i hm
    split at h
    · rw [Res.bind_eq_ok_iff] at h
      obtain ⟨r1, h1, h2⟩ := h
      cases h2
      rcases hup_grew hinv h0 h1 with c | ⟨c, _⟩
      · exact .inl c
      · exact .inr (.inl ⟨hm, c⟩)
    · cases h; exact .inl h0
  · refine .inl ?_
    ls_auto h [send_ls]
  · split at h
    · simp only [] at h
      split at h
      · rename_i log b hmc
        cases h
        exact .inl (LS.log (r := { r with readStates := _ }) (c05_maybeCommit_same hmc) (by exact h0))
      · cases h
      · cases h
    · cases h; exact .inl h0
  · cases h; exact .inl h0

/-- **`step_candidate`**: the logical log is kept except by `MsgAppend` / `MsgSnapshot` (after
`become_follower`) and by the vote response that makes the node leader -/
theorem stepCandidate_log {a r r' : Raft} {m : Message} {e : Option RaftError}
    (hinv : a.raftLog.Inv) (h0 : LS a r) (h : r.stepCandidate m = .ok (r', e)) :
    LS a r' ∨
    ((m.msgType = .msgRequestVoteResponse ∨ m.msgType = .msgRequestPreVoteResponse) ∧ Won a r') ∨
    (m.msgType = .msgAppend ∧ ∃ r0, LS a r0 ∧ r0.state = .follower ∧
      r0.handleAppendEntries m = .ok r') ∨
    (m.msgType = .msgSnapshot ∧ Restored a r' m.snapshot) := by
  have votes : ∀ (hm : m.msgType = .msgRequestVoteResponse ∨ m.msgType = .msgRequestPreVoteResponse),
      ((r.poll m.frm m.msgType (!m.reject)).bind (fun (p : Raft × VoteResult) =>
        (p.1.maybeCommitByVote m).bind (fun r => Res.ok (r, (none : Option RaftError))))) = .ok (r', e) →
      LS a r' ∨
      ((m.msgType = .msgRequestVoteResponse ∨ m.msgType = .msgRequestPreVoteResponse) ∧ Won a r') ∨
      (m.msgType = .msgAppend ∧ ∃ r0, LS a r0 ∧ r0.state = .follower ∧
        r0.handleAppendEntries m = .ok r') ∨
      (m.msgType = .msgSnapshot ∧ Restored a r' m.snapshot) := by
    intro hm h
    rw [Res.bind_eq_ok_iff] at h
    obtain ⟨⟨r1, res⟩, h1, h2⟩ := h
    simp only [] at h2
    rw [Res.bind_eq_ok_iff] at h2
    obtain ⟨r2, h3, h4⟩ := h2
    cases h4
    rcases poll_grew hinv h0 h1 with c | c
    · exact .inl (maybeCommitByVote_ls h3 c)
    · have := RaftProps.C16.maybeCommitByVote_leader c.leader h3
      rw [this]
      exact .inr (.inl ⟨hm, c⟩)
  unfold Raft.stepCandidate at h
  split at h
  · cases h; exact .inl h0
  · rename_i hm
    split at h
    · cases h
    · rw [Res.bind_eq_ok_iff] at h
      obtain ⟨r1, h1, h2⟩ := h
      cases h2
      exact .inr (.inr (.inl ⟨hm, _, becomeFollower_ls _ _ h0,
        RaftProps.C20.becomeFollower_state _ _ _, h1⟩))
  · split at h
    · cases h
    · rw [Res.bind_eq_ok_iff] at h
      obtain ⟨r1, h1, h2⟩ := h
      cases h2
      exact .inl (handleHeartbeat_ls h1 (becomeFollower_ls _ _ h0))
  · rename_i hm
    split at h
    · cases h
    · rw [Res.bind_eq_ok_iff] at h
      obtain ⟨r1, h1, h2⟩ := h
      cases h2
      rcases handleSnapshot_log hinv (becomeFollower_ls _ _ h0) h1 with c | c
      · exact .inl c
      · exact .inr (.inr (.inr ⟨hm, c⟩))
  · rename_i hm
    split at h
    · cases h; exact .inl h0
    · split at h
      · cases h; exact .inl h0
      · exact votes (.inr hm) h
  · rename_i hm
    split at h
    · cases h; exact .inl h0
    · split at h
      · cases h; exact .inl h0
      · exact votes (.inl hm) h
  · cases h; exact .inl h0

/-- **`Raft::step`: every way the logical log can change.**  For a node whose log satisfies the
invariant and any message, after `step` returns the logical log is the same (`LS`: same entries and
snapshot point, invariant kept, commit index not decreased), or
* a leader appended the proposed entries (`MsgPropose`, same term), or
* a non-leader (or a leader deposed by the message's higher term, which the new term then is at
  least) campaigned and won on the spot
  and appended the empty entry of its new term (`MsgHup`, `MsgTimeoutNow`, a (pre-)vote response), or
* a follower (possibly just made one by the term preamble / `become_follower`) ran
  `handle_append_entries` (`MsgAppend`), or restored a snapshot (`MsgSnapshot`). -/
theorem step_log {r r' : Raft} {m : Message} {e : Option RaftError} (hinv : r.raftLog.Inv)
    (h : r.step m = .ok (r', e)) :
    LS r r' ∨
    (m.msgType = .msgPropose ∧ r.state = .leader ∧ r'.term = r.term ∧ e = none ∧
      ∃ es, es.length = m.entries.length ∧
        Appended r r' (stampFrom r.term (r.raftLog.lastIndex + 1) es)) ∨
    ((m.msgType = .msgHup ∨ m.msgType = .msgTimeoutNow ∨ m.msgType = .msgRequestVoteResponse ∨
        m.msgType = .msgRequestPreVoteResponse) ∧
      (r.state ≠ .leader ∨ (r.term < m.term ∧ m.term ≤ r'.term)) ∧ Won r r') ∨
    (m.msgType = .msgAppend ∧ (r.state ≠ .leader ∨ (r.term < m.term ∧ m.term ≤ r'.term)) ∧
      ∃ r0, LS r r0 ∧ r0.state = .follower ∧ r0.handleAppendEntries m = .ok r') ∨
    (m.msgType = .msgSnapshot ∧ (r.state ≠ .leader ∨ (r.term < m.term ∧ m.term ≤ r'.term)) ∧
      Restored r r' m.snapshot) := by
  have hstep := h
  unfold Raft.step at h
  split at h
  · cases h
  · cases h
  · rename_i r1 ht
    cases h
    exact .inl (stepTerm_ls ht LS.rfl)
  · rename_i r1 ht
    have hl1 : LS r r1 := stepTerm_ls ht LS.rfl
    have hc := RaftProps.C20.stepTerm_ok_cases r r1 m ht
    have hnl : r1.state ≠ .leader → (r.state ≠ .leader ∨ (r.term < m.term ∧ m.term ≤ r'.term)) := by
      intro h1
      rcases hc with c | ⟨c, l, c2⟩
      · rw [c] at h1; exact .inl h1
      · refine .inr ⟨c, ?_⟩
        have ht1 : r1.term = m.term := by rw [c2]; exact (becomeFollower_term_vote r m.term l).1
        rcases RaftProps.C16.step_after_preamble ht hstep with c3 | c3
        · omega
        · rcases c3 with ⟨_, _, c4, _⟩ | ⟨_, c4, _⟩ <;> omega
    split at h
    · rename_i hm
      rw [Res.bind_eq_ok_iff] at h
      obtain ⟨r2, h1, h2⟩ := h
      cases h2
      rcases hup_grew hinv hl1 h1 with c | ⟨c, c2⟩
      · exact .inl c
      · exact .inr (.inr (.inl ⟨.inl hm, hnl c2, c⟩))
    · split at h
      · rename_i r2 hv
        cases h; exact .inl (stepVote_ls hv hl1)
      · cases h
      · cases h
    · split at h
      · rename_i r2 hv
        cases h; exact .inl (stepVote_ls hv hl1)
      · cases h
      · cases h
    · split at h
      · rename_i hst
        have hn : r1.state ≠ .leader := by rw [hst]; decide
        rcases stepCandidate_log hinv hl1 h with c | ⟨hm, c⟩ | ⟨hm, c⟩ | ⟨hm, c⟩
        · exact .inl c
        · refine .inr (.inr (.inl ⟨?_, hnl hn, c⟩))
          rcases hm with hm | hm
          · exact .inr (.inr (.inl hm))
          · exact .inr (.inr (.inr hm))
        · exact .inr (.inr (.inr (.inl ⟨hm, hnl hn, c⟩)))
        · exact .inr (.inr (.inr (.inr ⟨hm, hnl hn, c⟩)))
      · rename_i hst
        have hn : r1.state ≠ .leader := by rw [hst]; decide
        rcases stepCandidate_log hinv hl1 h with c | ⟨hm, c⟩ | ⟨hm, c⟩ | ⟨hm, c⟩
        · exact .inl c
        · refine .inr (.inr (.inl ⟨?_, hnl hn, c⟩))
          rcases hm with hm | hm
          · exact .inr (.inr (.inl hm))
          · exact .inr (.inr (.inr hm))
        · exact .inr (.inr (.inr (.inl ⟨hm, hnl hn, c⟩)))
        · exact .inr (.inr (.inr (.inr ⟨hm, hnl hn, c⟩)))
      · rename_i hst
        have hn : r1.state ≠ .leader := by rw [hst]; decide
        rcases stepFollower_log hinv hl1 hst h with c | ⟨hm, c⟩ | ⟨hm, c⟩ | ⟨hm, c⟩
        · exact .inl c
        · exact .inr (.inr (.inl ⟨.inr (.inl hm), hnl hn, c⟩))
        · exact .inr (.inr (.inr (.inl ⟨hm, hnl hn, c⟩)))
        · exact .inr (.inr (.inr (.inr ⟨hm, hnl hn, c⟩)))
      · rename_i hst
        have hr : r1 = r := by
          rcases hc with c | ⟨_, l, c⟩
          · exact c
          · rw [c, RaftProps.C20.becomeFollower_state] at hst; cases hst
        subst hr
        rcases stepLeader_log hinv LS.rfl hst h with c | ⟨hm, he, es, hlen, c⟩
        · exact .inl c
        · exact .inr (.inl ⟨hm, hst, RaftProps.C16.stepLeader_term h, he, es, hlen, c⟩)

end Raft
end RaftModel
