import RaftProofs.ClusterFlow2A

/-!
Flow control with compaction, snapshots and `request_snapshot` (C13d), part 2B: **what an
acknowledgement in the transport promises** (`Flow.ack_promise` of `ClusterFlowM.lean`) under
`Snap5.Hyp3r`, from the invariants of the snapshot layer: `Snap5.ack_prov` (provenance of the accepting
append responses, also those that answer a `MsgSnapshot`) and the component `a2m` of the main induction
`Snap5.Sm` (`Snap5.sm_all`).  The agreement is between the **ghost (uncompacted) logs** `Snap.FL` of the
acknowledging node and of the leader; `Full.ents` turns it into the agreement of the logical logs at
every index above both snapshot points.
-/
namespace RaftModel
namespace Cluster
namespace Snap5
namespace Flow2
open Node Raft Raft.CC RaftProps.C02 RaftProps.C05 Snap

variable {cfg : JointConfig} {c0 : Nat} {h : List Sys}

/-- equal ghost logs up to `i` give equal logical logs at the indexes `≤ i` that both retain -/
theorem real_of_ghost (H : Hyp2w cfg c0 h) {n m : Nat} {s s' : Sys} (hn : h[n]? = some s)
    (hm : h[m]? = some s') {v w : Nat} {st st' : NState} (hv : s.node v = some st)
    (hw : s'.node w = some st') {i : Nat}
    (heq : ∀ k, k ≤ i → (FL h c0 st).entryAt k = (FL h c0 st').entryAt k) :
    ∀ k, k ≤ i → st.raft.raftLog.abs.snapIdx < k → st'.raft.raftLog.abs.snapIdx < k →
      st.raft.raftLog.abs.entryAt k = st'.raft.raftLog.abs.entryAt k := by
  intro k hk h1 h2
  have I := (ghost_inv H n s hn).node v st hv
  have I' := (ghost_inv H m s' hm).node w st' hw
  rw [← I.log.ents k h1, ← I'.log.ents k h2]
  exact heq k hk

/-- the same for the stored log of the first node -/
theorem real_of_ghost_store (H : Hyp2w cfg c0 h) {n m : Nat} {s s' : Sys} (hn : h[n]? = some s)
    (hm : h[m]? = some s') {v w : Nat} {st st' : NState} (hv : s.node v = some st)
    (hw : s'.node w = some st') {i : Nat}
    (heq : ∀ k, k ≤ i → (FS h c0 st).entryAt k = (FL h c0 st').entryAt k) :
    ∀ k, k ≤ i → (storeLog st.raft.raftLog.store).snapIdx < k →
      st'.raft.raftLog.abs.snapIdx < k →
      (storeLog st.raft.raftLog.store).entryAt k = st'.raft.raftLog.abs.entryAt k := by
  intro k hk h1 h2
  have I := (ghost_inv H n s hn).node v st hv
  have I' := (ghost_inv H m s' hm).node w st' hw
  rw [← I.sto.ents k h1, ← I'.log.ents k h2]
  exact heq k hk

/-- **what an acknowledgement in the transport promises** (under `Snap5.Hyp3r`): the acknowledging
node queued it in a state `h[n1]`, being in the acknowledgement's term, and at some point `h[m]`,
`m ≤ n1`, a node `l` led that term with a log that reaches the acknowledged index and whose ghost log
agrees with the ghost log of the acknowledging node (of `h[n1]`) up to the acknowledged index — hence so
do the logical logs wherever both retain the index -/
theorem ack_promise (H : Hyp3r cfg c0 h) {n : Nat} {s : Sys} (hn : h[n]? = some s) {a : Message}
    (ha : a ∈ s.net) (hack : isAck a) (hidx : c0 < a.index) :
    ∃ n1 s1 stj, n1 ≤ n ∧ h[n1]? = some s1 ∧ s1.node a.frm = some stj ∧ a ∈ stj.raft.msgs ∧
      stj.raft.term = a.term ∧
      ∃ m sm l stl, m ≤ n1 ∧ h[m]? = some sm ∧ sm.node l = some stl ∧
        stl.raft.state = .leader ∧ stl.raft.term = a.term ∧
        a.index ≤ stl.raft.raftLog.lastIndex ∧
        (∀ k, k ≤ a.index → (FL h c0 stj).entryAt k = (FL h c0 stl).entryAt k) ∧
        (∀ k, k ≤ a.index → stj.raft.raftLog.abs.snapIdx < k → stl.raft.raftLog.abs.snapIdx < k →
          stj.raft.raftLog.abs.entryAt k = stl.raft.raftLog.abs.entryAt k) := by
  have H3 := H.toHyp3w.toHyp3a
  have H2 := H.toHyp3w.toHyp2w
  have hx0 : a.index ≠ 0 := by omega
  obtain ⟨i, n1, hle, s1, stj, h1, h2, h3, h4, h5⟩ := (ack_prov H2 n s hn).2 a ha ⟨hack, hx0⟩
  obtain ⟨L, hL, hlast, heq⟩ := (sm_all H3 h1).a2m i stj h2 a (.inr h3) hack h5 hidx h4
  obtain ⟨m, sm, l, stl, hm, a2, a3, a4, a5, rfl⟩ := hL
  subst h5
  rw [fl_last H2 a2 a3, ← (node_ok H2 a2 a3).inv.lastIndex_abs] at hlast
  exact ⟨n1, s1, stj, hle, h1, h2, h3, h4.symm, m, sm, l, stl, hm, a2, a3, a4, a5, hlast, heq,
    real_of_ghost H2 h1 a2 h2 a3 heq⟩

end Flow2
end Snap5
end Cluster
end RaftModel
