import RaftProofs.ClusterCommit5F

/-! Commit layer without `batch_append = false`, part G: `post_conf_change`, `apply_conf_change`, `on_persist_entries`, `commit_apply`, the group-commit switches (copy of `ClusterCommitM/N`). -/
namespace RaftModel
namespace Raft
namespace CB
open CC VoteOb


/-- the leader part of `post_conf_change` / the group-commit switches: `maybe_commit`, then sends -/
theorem commitThenSend_gb {A : Nat → Nat → Nat → Prop} {a r r1 r' : Raft} {m : Message} {b : Bool}
    (hA : ∀ j t x y, y ≤ x → A j t x → A j t y)
    (hs : r.state = .leader) (hmc : r.maybeCommit = .ok (r1, b)) (hsf : SFb r1 r')
    (h0 : Gb A a m r) : Gb A a m r' ∧ r'.state = .leader := by
  obtain ⟨e1, _, _⟩ := maybeCommit_keeps hmc
  exact ⟨(maybeCommit_gb hmc h0).sf hA hsf (.inl (e1.trans hs)), hsf.state.trans (e1.trans hs)⟩

theorem postConfChange_gb {A : Nat → Nat → Nat → Prop} {a r r' : Raft} {m : Message} {cs : ConfState}
    (hA : ∀ j t x y, y ≤ x → A j t x → A j t y)
    (h : r.postConfChange = .ok (r', cs)) (h0 : Gb A a m r) (ho : Old a r) : Gb A a m r' := by
  unfold Raft.postConfChange at h
  simp only at h
  split at h
  · cases h; exact becomeFollower_gb _ _ (Gb.mk' h0) (Old.mk' ho)
  · split at h
    · cases h; exact Gb.mk' h0
    · rename_i hl
      have hs : r.state = .leader := by
        cases hr : r.state <;> simp [hr] at hl ⊢
      obtain ⟨r1, hr1, h⟩ := Res.bind_eq_ok h
      have h1 : Gb A a m r1 ∧ r1.state = .leader := by
        split at hr1
        · rename_i r3 hm
          exact commitThenSend_gb (r := { r with promotable := Joint.contains r.prs.voters r.id })
            hA hs hm (bcastAppend_sfb hr1 SFb.rfl) (Gb.mk' h0)
        · rename_i r3 hm
          refine commitThenSend_gb (r := { r with promotable := Joint.contains r.prs.voters r.id })
            hA hs hm ?_ (Gb.mk' h0)
          refine forEachPeer_sfb (fun r id pr r' pr' hh _ _ hh0 => ?_) hr1 SFb.rfl
          obtain ⟨⟨r4, pr4, b4⟩, h4, h5⟩ := Res.bind_eq_ok hh
          cases h5
          exact maybeSendAppend_sfb h4 hh0
        · cases hr1
        · cases hr1
      obtain ⟨g1, s1⟩ := h1
      obtain ⟨r2, hr2, h⟩ := Res.bind_eq_ok h
      have hsf2 : SFb r1 r2 := by
        sfb_auto hr2 [respondReadStates_sfb]
      have g2 := g1.sf hA hsf2 (.inl s1)
      split at h
      · split at h
        · cases h; exact Gb.mk' g2
        · cases h; exact g2
      · cases h; exact g2

/-! ### `apply_conf_change` -/
theorem applyConfChange_gb {A : Nat → Nat → Nat → Prop} {r r' : Raft} {m : Message}
    {cc : ConfChangeV2} {res : Except ErrKind ConfState}
    (hA : ∀ j t x y, y ≤ x → A j t x → A j t y) (hmok : MOK A r)
    (h : r.applyConfChange cc = .ok (r', res)) : Gb A r m r' := by
  unfold Raft.applyConfChange at h
  simp only [] at h
  split at h
  · cases h; exact Gb.start hmok
  · rename_i cfg changes _
    obtain ⟨⟨r1, cs⟩, h1, h⟩ := Res.bind_eq_ok h
    cases h
    refine postConfChange_gb
      (r := ({ r with prs := r.prs.applyConf cfg changes r.raftLog.lastIndex } : Raft)) hA h1
      (Gb.of_old Old.rfl rfl ⟨fun hs j x hx => ?_⟩ (fun _ => .inl rfl)) Old.rfl
    rcases applyConf_mfun _ _ _ _ j x hx with g | g
    · exact .inl g
    · exact hmok.h hs j x g


/-- `persisted` moves up (and nothing else of the log) -/
theorem Gb.persistUp {A : Nat → Nat → Nat → Prop} {a r : Raft} {m : Message} {p : Nat}
    (h0 : Gb A a m r) (hp : r.raftLog.persisted ≤ p) :
    Gb A a m { r with raftLog := { r.raftLog with persisted := p } } := by
  refine ⟨h0.id, ⟨fun hs j x hx => ?_⟩, h0.lc, ?_, ?_, h0.qvk, ?_⟩
  · rcases h0.mok.h hs j x hx with g | ⟨g1, g2⟩ | g
    · exact .inl g
    · exact .inr (.inl ⟨g1, Nat.le_trans g2 hp⟩)
    · exact .inr (.inr g)
  · intro x hx hty
    exact (h0.qlk x hx hty).imp (fun g => g) (fun g => g.imp (fun g => ⟨g.lead, g.term, g.frm, g.app, g.hb⟩) (fun g => ⟨g.1, g.2.1, g.2.2⟩))
  · intro x hx hty
    exact (h0.qak x hx hty).imp (fun g => g) (fun g => ⟨g.term, g.frm, g.src⟩)
  · intro x hx hty
    exact (h0.qrq x hx hty).imp (fun g => g) (fun g => ⟨g.term, g.last, g.lt⟩)

theorem onPersistEntries_gb {A : Nat → Nat → Nat → Prop} {r r' : Raft} {m : Message}
    {index term : Nat}
    (hA : ∀ j t x y, y ≤ x → A j t x → A j t y) (hmok : MOK A r)
    (h : r.onPersistEntries index term = .ok r') : Gb A r m r' := by
  unfold Raft.onPersistEntries at h
  split at h
  · cases h
  · cases h
  · rename_i log update hmp
    simp only [] at h
    rcases maybePersist_shape hmp with ⟨hb, hl, hlt⟩ | ⟨hb, hl⟩
    · subst hb; subst hl
      have g1 : Gb A r m ({ r with raftLog := { r.raftLog with persisted := index } } : Raft) :=
        (Gb.start hmok).persistUp (Nat.le_of_lt hlt)
      split at h
      · rename_i hc
        have hs : r.state = .leader := hc.2
        split at h
        · cases h; exact g1
        · rename_i pr hg
          split at h
          · cases h
          · cases h
          · rename_i pr2 updated hu
            cases updated with
            | false =>
              simp only [Bool.false_eq_true, if_false] at h
              cases h
              have hm := (maybeUpdate_matched hu).1 rfl
              exact g1.setPrs (mfun_set _ _ _ (fun old ho => by
                have : ({ r with raftLog := { r.raftLog with persisted := index } } : Raft).prs.get
                    r.id = some pr := hg
                rw [this] at ho; cases ho; exact hm)) rfl
            | true =>
              simp only [if_true] at h
              obtain ⟨e1, e2⟩ := (maybeUpdate_matched hu).2 rfl
              have g2 : Gb A r m ({ ({ r with raftLog := { r.raftLog with persisted := index } } : Raft)
                  with prs := r.prs.set r.id pr2 } : Raft) :=
                g1.setMatched (id := r.id) (.inr (.inl ⟨rfl, Nat.le_of_eq e1⟩)) (fun old ho => by
                  have : r.prs.get r.id = some pr := hg
                  have ho' : r.prs.get r.id = some old := ho
                  rw [this] at ho'; cases ho'; omega)
              split at h
              · rename_i r3 hmc
                obtain ⟨k1, k2, _⟩ := maybeCommit_keeps hmc
                have g3 := maybeCommit_gb hmc g2
                split at h
                · exact g3.sf hA (bcastAppend_sfb h SFb.rfl) (.inl (k1.trans hs))
                · cases h; exact g3
              · rename_i r3 hmc
                cases h; exact maybeCommit_gb hmc g2
              · cases h
              · cases h
      · cases h; exact g1
    · subst hb; subst hl
      simp only [Bool.false_eq_true, false_and, if_false] at h
      cases h
      exact Gb.mk' (Gb.start hmok)

/-- with nothing queued and the commit index of the start, the log may be re-represented (storage
writes, `applied`, `persisted` moving up) -/
theorem Gb.old_relog {A : Nat → Nat → Nat → Prop} {a r r' : Raft} {m : Message}
    (h0 : Gb A a m r) (ho : Old a r) (hcm : r.raftLog.committed = a.raftLog.committed)
    (hid : r'.id = r.id) (hs : r'.state = r.state) (ht : r'.term = r.term)
    (hp : mfun r'.prs = mfun r.prs) (hq : r'.msgs = r.msgs)
    (hc : r'.raftLog.committed = r.raftLog.committed)
    (hpe : r.raftLog.persisted ≤ r'.raftLog.persisted) :
    Gb A a m r' ∧ Old a r' ∧ r'.raftLog.committed = a.raftLog.committed := by
  have ho' : Old a r' := by unfold Old; rw [hq]; exact ho
  refine ⟨Gb.of_old ho' (hid.trans h0.id) ⟨fun hl j x hx => ?_⟩ (fun _ => .inl (hc.trans hcm)), ho',
    hc.trans hcm⟩
  rw [hs] at hl
  rw [hp] at hx
  rcases h0.mok.h hl j x hx with g | ⟨g1, g2⟩ | g
  · exact .inl g
  · exact .inr (.inl ⟨g1.trans hid.symm, Nat.le_trans g2 hpe⟩)
  · right; right; rw [ht]; exact g

theorem commitApplyInternal_gb {A : Nat → Nat → Nat → Prop} {a r r' : Raft} {m : Message}
    {applied : Nat} {skip : Bool}
    (h : r.commitApplyInternal applied skip = .ok r') (h0 : Gb A a m r) (ho : Old a r)
    (hcm : r.raftLog.committed = a.raftLog.committed) :
    Gb A a m r' ∧ Old a r' ∧ r'.raftLog.committed = a.raftLog.committed := by
  unfold Raft.commitApplyInternal at h
  simp only [] at h
  split at h
  · cases h
  · cases h
  · rename_i log hlog
    have hshape : log = r.raftLog ∨ log = { r.raftLog with applied := applied } := by
      split at hlog
      · exact appliedTo_shape hlog
      · split at hlog
        · cases hlog
        · cases hlog; exact .inr rfl
    have g1 : Gb A a m ({ r with raftLog := log } : Raft) ∧ Old a ({ r with raftLog := log } : Raft) ∧
        ({ r with raftLog := log } : Raft).raftLog.committed = a.raftLog.committed := by
      rcases hshape with e | e <;> rw [e]
      · exact ⟨h0, ho, hcm⟩
      · exact h0.old_relog ho hcm rfl rfl rfl rfl rfl rfl (Nat.le_refl _)
    split at h
    · split at h
      · rename_i r2 ha
        cases h
        obtain ⟨k1, k2, k3⟩ := appendEntry_gb ha g1.1 g1.2.1 g1.2.2
        exact ⟨Gb.mk' k1, Old.mk' k2, k3⟩
      · cases h
      · cases h
      · cases h
    · cases h; exact g1

theorem enableGroupCommit_gb {A : Nat → Nat → Nat → Prop} {r r' : Raft} {m : Message} {b : Bool}
    (hA : ∀ j t x y, y ≤ x → A j t x → A j t y) (hmok : MOK A r)
    (h : r.enableGroupCommit b = .ok r') : Gb A r m r' := by
  unfold Raft.enableGroupCommit at h
  simp only [] at h
  have g1 : Gb A r m ({ r with prs := { r.prs with groupCommit := b } } : Raft) :=
    (Gb.start hmok).setPrs rfl rfl
  split at h
  · rename_i hc
    split at h
    · rename_i r3 hmc
      exact (commitThenSend_gb (r := { r with prs := { r.prs with groupCommit := b } })
        hA hc.1 hmc (bcastAppend_sfb h SFb.rfl) g1).1
    · rename_i r3 hmc
      cases h; exact maybeCommit_gb hmc g1
    · cases h
    · cases h
  · cases h; exact g1

theorem assignCommitGroups_gb {A : Nat → Nat → Nat → Prop} {r r' : Raft} {m : Message}
    {ids : List (Nat × Nat)}
    (hA : ∀ j t x y, y ≤ x → A j t x → A j t y) (hmok : MOK A r)
    (h : r.assignCommitGroups ids = .ok r') : Gb A r m r' := by
  unfold Raft.assignCommitGroups at h
  obtain ⟨r1, hr1, h⟩ := Res.bind_eq_ok h
  have h1 : SFb r r1 := by
    refine foldl_sfb _ ?_ _ _ hr1 (by intro r2 e; cases e; exact SFb.rfl)
    intro acc p r2 h2
    cases acc with
    | err e => cases h2
    | panic s => cases h2
    | ok r0 =>
      refine ⟨r0, rfl, fun h0 => ?_⟩
      change (if p.2 = 0 then Res.panic _ else Res.ok _) = _ at h2
      split at h2
      · cases h2
      · cases h2
        refine ⟨?_, h0.q⟩
        rw [← h0.core]
        have := mfun_modifyProgress r0 p.1 (fun pr => { pr with commitGroupId := p.2 }) (fun _ => rfl)
        unfold score
        rw [this]
        rfl
  have hq : r1.msgs = r.msgs := by
    have : ∀ (l : List (Nat × Nat)) (acc : Res Raft) (r2 : Raft),
        l.foldl (fun (acc : Res Raft) (p : Nat × Nat) => acc.bind (fun r =>
          if p.2 = 0 then .panic "raft.assign_commit_groups.assert"
          else .ok (r.modifyProgress p.1 (fun pr => { pr with commitGroupId := p.2 })))) acc = .ok r2 →
        ∃ r0, acc = .ok r0 ∧ r2.msgs = r0.msgs := by
      intro l
      induction l with
      | nil => intro acc r2 hh; exact ⟨r2, hh, rfl⟩
      | cons p rest ih =>
        intro acc r2 hh
        simp only [List.foldl_cons] at hh
        obtain ⟨r0, e0, e1⟩ := ih _ _ hh
        cases acc with
        | err e => cases e0
        | panic s => cases e0
        | ok r3 =>
          change (if p.2 = 0 then Res.panic _ else Res.ok _) = _ at e0
          split at e0
          · cases e0
          · cases e0; exact ⟨r3, rfl, e1⟩
    obtain ⟨r0, e0, e1⟩ := this _ _ _ hr1
    cases e0; exact e1
  have g1 : Gb A r m r1 := (Gb.start hmok).sf hA h1 (.inr (fun x hx => by rw [hq] at hx; exact hx))
  split at h
  · rename_i hc
    split at h
    · rename_i r3 hmc
      exact (commitThenSend_gb hA hc.1 hmc
        (bcastAppend_sfb h SFb.rfl) g1).1
    · rename_i r3 hmc
      cases h; exact maybeCommit_gb hmc g1
    · cases h
    · cases h
  · cases h; exact g1


end CB
end Raft
end RaftModel
