import RaftProofs.ClusterSnap7B

/-!
Commit safety of `ClusterSem` with log compaction AND `batch_append`, part 7C (C01n): **a concrete
history with batching on AND a real compaction** (kernel-evaluated) that satisfies the joined bundle
`Snap7.Hyp3wB`.

The history of `RaftProofs/ClusterCommit5c4M.lean` (`c01w_hist`, 25 states: node 1 leads term 1, the
application switches `batch_append` on, two proposals are glued by `try_batching` onto the queued
`MsgAppend` for node 2, node 2 acknowledges the batched message, node 1 commits index 3) continued by
three steps: the application of node 1 — leader, `batch_append = true`, commit index 3 —
**compacts its log up to index 2** (`compact 2`: the snapshot point moves from 0 to 1), then, still
batching, is proposed another entry (index 4; the `MsgAppend`s it queues are anchored at index 3, above
the new snapshot point) and a second one, which `try_batching` glues onto the queued `MsgAppend` for
node 2 **after the compaction**.
-/
namespace RaftModel
namespace Cluster
namespace Snap7
open Node Raft Raft.CC ClusterB RaftProps.C02 RaftProps.C05

def nx_a16 := c02x_st (Node.call c01w_a15 none (.compact 2))
def nx_a17 := c02x_st (Node.call nx_a16 none (.propose [] [3]))
def nx_a18 := c02x_st (Node.call nx_a17 none (.propose [] [4]))

def nx_s25 : Sys := c01w_s24.setNode 1 nx_a16
def nx_s26 : Sys := nx_s25.setNode 1 nx_a17
def nx_s27 : Sys := nx_s26.setNode 1 nx_a18

def nx_tail : List Sys := [nx_s25, nx_s26, nx_s27]
def nx_hist : List Sys := c01w_hist ++ nx_tail

set_option maxRecDepth 100000 in
theorem nx_ksteps_tail : Chained Snap.KStep (c01w_s24 :: nx_tail) := by
  refine ⟨?_, ?_, ?_, trivial⟩
  · exact Snap.KStep.call _ 1 c01w_a15 nx_a16 none (.compact 2) _ rfl rfl
      (fun k hc => by cases hc; exact ⟨by decide, by decide⟩) (fun k hc => by cases hc)
      (Snap.c02x_out' _ (by decide))
  · exact Snap.KStep.call _ 1 nx_a16 nx_a17 none (.propose [] [3]) _ rfl rfl
      (fun k hc => by cases hc) (fun k hc => by cases hc) (c02x_out _ (by decide))
  · exact Snap.KStep.call _ 1 nx_a17 nx_a18 none (.propose [] [4]) _ rfl rfl
      (fun k hc => by cases hc) (fun k hc => by cases hc) (c02x_out _ (by decide))

theorem nx_hist_eq : nx_hist =
    (c01x_hist ++ [c01w_s15, c01w_s16, c01w_s17, c01w_s18, c01w_s19, c01w_s20, c01w_s21, c01w_s22,
      c01w_s23]) ++ c01w_s24 :: nx_tail := by
  simp [nx_hist, c01w_hist, c01w_tail]

theorem nx_ksteps : Chained Snap.KStep nx_hist := by
  rw [nx_hist_eq]
  refine Cluster.chained_append _ _ _ ?_ nx_ksteps_tail
  have := Chained.mono (fun _ _ hc => Snap.KStep.of_old hc) _ c01w_ksteps_all
  simpa [c01w_hist, c01w_tail] using this

theorem nx_history : History nx_hist := by
  rw [nx_hist_eq]
  refine chained_history _ c01w_s24 ?_ _ (Chained.mono (fun _ _ hc => hc.step) _ nx_ksteps_tail)
  have := c01w_history
  simpa [c01w_hist, c01w_tail] using this

/-- what `Snap7.Hyp3wB` assumes about one state: fixed voters, no `MsgSnapshot` in the transport, no
pending snapshot -/
def nx_chk (s : Sys) : Bool :=
  c02x_fixed s && s.net.all (fun x => decide (x.msgType ≠ .msgSnapshot)) &&
  s.nodes.all (fun p => Snap.cx_nodeOk p.2)

theorem nx_chk_ok (s : Sys) (h : nx_chk s = true) :
    FixedCfg c02x_cfg s ∧ (∀ x ∈ s.net, x.msgType ≠ .msgSnapshot) ∧
    ∀ i st, s.node i = some st → st.raft.raftLog.unstable.snapshot = none := by
  unfold nx_chk at h
  simp only [Bool.and_eq_true] at h
  obtain ⟨⟨h1, h3⟩, h4⟩ := h
  refine ⟨c02x_fixed_ok s h1, fun x hx => ?_, fun i st hi => ?_⟩
  · rw [List.all_eq_true] at h3
    exact of_decide_eq_true (h3 x hx)
  · rw [List.all_eq_true] at h4
    have := h4 _ (c02_lookup_mem s.nodes i st hi)
    unfold Snap.cx_nodeOk at this
    simpa [Option.isNone_iff_eq_none] using this

set_option maxRecDepth 100000 in
theorem nx_chk_tail : ∀ s ∈ nx_tail, nx_chk s = true := by
  intro s hs
  simp only [nx_tail, List.mem_cons, List.not_mem_nil, or_false] at hs
  rcases hs with rfl | rfl | rfl <;> decide

theorem nx_all : ∀ s ∈ nx_hist,
    FixedCfg c02x_cfg s ∧ (∀ x ∈ s.net, x.msgType ≠ .msgSnapshot) ∧
    ∀ i st, s.node i = some st → st.raft.raftLog.unstable.snapshot = none := by
  intro s hs
  rcases List.mem_append.1 hs with c | c
  · exact ⟨c01w_hyp3wB.fix s c, fun x hx => c01w_hyp3wB.nosnap s c x hx,
      fun i st hi => (c01w_hyp3wB.shape s c i st hi).1⟩
  · exact nx_chk_ok s (nx_chk_tail s c)

/-- **the history satisfies every hypothesis of the joined bundle** -/
theorem nx_hyp3wB : Hyp3wB c02x_cfg 0 nx_hist := by
  have h0 : nx_hist[0]? = some c02x_s0 := rfl
  have h0' : c01w_hist[0]? = some c02x_s0 := rfl
  have W := c01w_hyp3wB
  exact
    { hist := nx_history, fix := fun s hs => (nx_all s hs).1, ne := W.ne, nd1 := W.nd1,
      nd2 := W.nd2,
      init := fun s hs => W.init s (by rw [h0'] ; rw [h0] at hs; exact hs),
      steps := chained_at _ nx_ksteps,
      nosnap := fun s hs x hx => (nx_all s hs).2.1 x hx,
      nolone := W.nolone,
      nopend := fun s hs i st hi => (nx_all s hs).2.2 i st hi,
      first0 := fun s hs i st hi =>
        (W.shape s (Snap.mem_of_get (by rw [h0']; rw [h0] at hs; exact hs)) i st hi).2,
      initc := fun s hs => W.initc s (by rw [h0']; rw [h0] at hs; exact hs),
      c0z := rfl,
      snapt0 := fun s hs => W.snapt0 s (by rw [h0']; rw [h0] at hs; exact hs) }

end Snap7
end Cluster
end RaftModel
