import RaftProofs.ClusterLogA
import RaftProofs.RaftNodePD
import RaftProofs.ClusterVoteF

/-!
Cluster-level Log Matching, helper lemmas part B: the anchored per-call relation `K a r` ("`r` is an
intermediate state of a call that started in `a`, the logical log and the storage's entries are those
of `a`, and every `MsgAppend` queued since is a sub-log of that logical log") and its preservation by
the sending / replication helpers and the leader- and follower-side handlers of the node model.  The
proofs follow `RaftProofs/RaftNodeC05.lean` (`LS`) line by line.

Batching (`batch_append`, `try_batching`) is excluded: `K` carries `batchAppend = false`.
-/
namespace RaftModel

/-! ### `entries` returns the log's own entries, whatever the storage's test trigger -/

theorem entriesQ_untrigger {s : MemStorage} {lo hi : Nat} {mx : Option Nat} {ca : Bool}
    {es : List Entry} (h : s.entriesQ lo hi mx ca = .ok es) :
    ({ s with triggerLogUnavailable := false } : MemStorage).entriesQ lo hi mx ca = .ok es := by
  unfold MemStorage.entriesQ at h ⊢
  have hf : ({ s with triggerLogUnavailable := false } : MemStorage).firstIndex = s.firstIndex := rfl
  have hl : ({ s with triggerLogUnavailable := false } : MemStorage).lastIndex = s.lastIndex := rfl
  rw [hf, hl]
  split at h
  · cases h
  · rename_i h1
    rw [if_neg h1]
    split at h
    · cases h
    · rename_i h2
      rw [if_neg h2]
      split at h
      · cases h
      · simp only [Bool.false_and, Bool.false_eq_true, if_false]
        exact h

theorem sliceStore_untrigger {l : RaftLog} {lo hi : Nat} {mx : Option Nat} {ca : Bool}
    {x : List Entry × Bool} (h : l.sliceStore lo hi mx ca = .ok x) :
    ({ l with store := { l.store with triggerLogUnavailable := false } } : RaftLog).sliceStore
      lo hi mx ca = .ok x := by
  unfold RaftLog.sliceStore at h ⊢
  dsimp only at h ⊢
  split at h
  · rename_i h1
    rw [if_pos h1]
    split at h
    · rename_i es heq
      rw [entriesQ_untrigger heq]
      exact h
    · cases h
    · cases h
    · cases h
    · cases h
  · rename_i h1
    rw [if_neg h1]
    exact h

theorem slice_untrigger {l : RaftLog} {lo hi : Nat} {mx : Option Nat} {ca : Bool}
    {es : List Entry} (h : l.slice lo hi mx ca = .ok es) :
    ({ l with store := { l.store with triggerLogUnavailable := false } } : RaftLog).slice
      lo hi mx ca = .ok es := by
  unfold RaftLog.slice at h ⊢
  have hm : ({ l with store := { l.store with triggerLogUnavailable := false } } :
      RaftLog).mustCheckOutOfBounds lo hi = l.mustCheckOutOfBounds lo hi := rfl
  rw [hm]
  split at h
  · cases h
  · dsimp only at h ⊢
    split at h
    · rename_i h1
      rw [if_pos h1]; exact h
    · rename_i h1
      rw [if_neg h1]
      split at h
      · rename_i es1 heq
        rw [sliceStore_untrigger heq]
        exact h
      · rename_i es1 heq
        rw [sliceStore_untrigger heq]
        exact h
      · cases h
      · cases h
  · cases h
  · cases h

theorem entries_untrigger {l : RaftLog} {idx : Nat} {mx : Option Nat} {ca : Bool}
    {es : List Entry} (h : l.entries idx mx ca = .ok es) :
    ({ l with store := { l.store with triggerLogUnavailable := false } } : RaftLog).entries
      idx mx ca = .ok es := by
  unfold RaftLog.entries at h ⊢
  have hl : ({ l with store := { l.store with triggerLogUnavailable := false } } :
      RaftLog).lastIndex = l.lastIndex := rfl
  rw [hl]
  split at h
  · rename_i h1
    rw [if_pos h1]; exact h
  · rename_i h1
    rw [if_neg h1]
    exact slice_untrigger h

theorem Inv_untrigger {l : RaftLog} (h : l.Inv) :
    RaftLog.Inv { l with store := { l.store with triggerLogUnavailable := false } } :=
  ⟨⟨h.storeWF.contig, h.storeWF.snap_lt⟩, h.unstWF, h.first_le_off, h.off_le_last, h.ents_empty,
    h.dummy_le_committed, h.committed_le_last, h.persisted_lt_off, h.persisted_le_store⟩

/-- **what `entries` returns are the log's own entries**, numbered from `idx` -/
theorem entries_own {l : RaftLog} (h : l.Inv) {idx : Nat} {mx : Option Nat} {ca : Bool}
    {es : List Entry} (he : l.entries idx mx ca = .ok es) :
    ContigFrom idx es ∧ ∀ e ∈ es, l.abs.entryAt e.index = some e := by
  refine ⟨(RaftProps.C13.C13_entries_contiguous_bounded l h idx mx ca es he).1, ?_⟩
  have h0 := Inv_untrigger h
  have he0 := entries_untrigger he
  have habs : ({ l with store := { l.store with triggerLogUnavailable := false } } : RaftLog).abs =
      l.abs := rfl
  have hc := RaftProps.C14.C14_entries_cases _ h0 idx mx ca (by simp)
  have hfl := RaftProps.C14.first_le_last_succ h0
  intro e hmem
  rcases Nat.lt_or_ge ({ l with store := { l.store with triggerLogUnavailable := false } } :
      RaftLog).lastIndex idx with h1 | h1
  · rw [hc.1 h1] at he0; cases he0; cases hmem
  · rcases Nat.lt_or_ge idx ({ l with store := { l.store with triggerLogUnavailable := false } } :
        RaftLog).firstIndex with h2 | h2
    · rw [hc.2.1 h2] at he0; cases he0
    · rw [hc.2.2 h2 h1] at he0
      cases he0
      rw [habs] at hmem
      obtain ⟨k, hk⟩ := (limitSize_spec (l.abs.range idx _) mx).1
      rw [hk] at hmem
      have he2 : e ∈ l.abs.ents := by
        unfold LLog.range at hmem
        exact List.mem_of_mem_drop (List.mem_of_mem_take (List.mem_of_mem_take hmem))
      exact RaftProps.C05.c05_entryAt_of_mem _ (RaftProps.C14.abs_contig h) e he2

theorem abs_Contig {l : RaftLog} (h : l.Inv) : l.abs.Contig := by
  have := RaftProps.C14.abs_contig h
  unfold LLog.Contig
  exact this

/-! ### same logical log, same stored entries -/

/-- `LogSame` and the storage holds the same entries and snapshot point -/
structure LogSameS (l l' : RaftLog) : Prop where
  same : LogSame l l'
  ents : l'.store.entries = l.store.entries
  smeta : l'.store.snapshotMetadata = l.store.snapshotMetadata

theorem LogSameS.rfl {l : RaftLog} : LogSameS l l := ⟨LogSame.rfl, Eq.refl _, Eq.refl _⟩

theorem LogSameS.trans {a b c : RaftLog} (h1 : LogSameS a b) (h2 : LogSameS b c) : LogSameS a c :=
  ⟨h1.same.trans h2.same, h2.ents.trans h1.ents, h2.smeta.trans h1.smeta⟩

theorem LogSameS.of_store {l l' : RaftLog} (h : LogSame l l') (hs : l'.store = l.store) :
    LogSameS l l' := ⟨h, by rw [hs], by rw [hs]⟩

theorem logS_commitTo {l l' : RaftLog} {to : Nat} (h : l.commitTo to = .ok l') : LogSameS l l' :=
  .of_store (c05_commitTo_same h) (RaftModel.C06.commitTo_store h)

theorem logS_maybeCommit {l l' : RaftLog} {mi t : Nat} {b : Bool}
    (h : l.maybeCommit mi t = .ok (l', b)) : LogSameS l l' :=
  .of_store (c05_maybeCommit_same h) (Raft.CV.maybeCommit_store h)

theorem logS_limit (l : RaftLog) (n : Nat) :
    LogSameS l { l with maxApplyUnpersistedLogLimit := n } :=
  .of_store (c05_limit_same l n) rfl

theorem logS_snapshot (l : RaftLog) (ri : Nat) : LogSameS l (l.snapshot ri).1 := by
  refine ⟨c05_snapshot_same l ri, ?_, ?_⟩
  all_goals
    have hst := (RaftProps.C20.storeSnapshot_spec l.store ri).1
    unfold RaftLog.snapshot
    split
    · split
      · rfl
      · rcases hst with h1 | h1 <;> (dsimp only; rw [h1])
    · rcases hst with h1 | h1 <;> (dsimp only; rw [h1])

namespace Raft

/-- a freshly queued `MsgAppend`: numbered from its anchor, and a sub-log of `g` -/
def SubW (x : Message) (g : LLog) : Prop :=
  ContigFrom (x.index + 1) x.entries ∧ Sub (msgLog x) g

/-- anchored: `r` holds the logical log and the stored entries of `a`, batching is off as in `a`, and
every queued `MsgAppend` was queued in `a` or is a sub-log of that logical log -/
structure KP (a : Raft) (l : RaftLog) (b : Bool) (ms : List Message) : Prop where
  ls : LogSameS a.raftLog l
  ba : b = a.batchAppend
  q : ∀ x ∈ ms, x.msgType = .msgAppend → x ∈ a.msgs ∨ SubW x a.raftLog.abs

/-- `KP` of the three fields of `r` it reads (a definition, so that structure updates of the other
fields are transparent to it) -/
def K0 (a r : Raft) : Prop := KP a r.raftLog r.batchAppend r.msgs

theorem K0.ls {a r : Raft} (h : K0 a r) : LogSameS a.raftLog r.raftLog := KP.ls h
theorem K0.ba {a r : Raft} (h : K0 a r) : r.batchAppend = a.batchAppend := KP.ba h
theorem K0.q {a r : Raft} (h : K0 a r) :
    ∀ x ∈ r.msgs, x.msgType = .msgAppend → x ∈ a.msgs ∨ SubW x a.raftLog.abs := KP.q h
theorem K0.abs {a r : Raft} (h : K0 a r) : r.raftLog.abs = a.raftLog.abs := h.ls.same.abs
theorem K0.inv {a r : Raft} (h : K0 a r) (hi : a.raftLog.Inv) : r.raftLog.Inv := h.ls.same.inv hi

/-- the per-call relation, under the standing assumptions on the start state: its log satisfies the
representation invariant and batching is off -/
def K (a r : Raft) : Prop := a.raftLog.Inv → a.batchAppend = false → K0 a r

theorem K.rfl {r : Raft} : K r r := fun _ _ => ⟨LogSameS.rfl, Eq.refl _, fun _ hx _ => .inl hx⟩

/-- any structure update that keeps `raftLog`, `batchAppend` and `msgs` keeps `K` -/
theorem K.mk' {a r : Raft} {x1 x2 x3 : Nat} {x4 : List ReadState} {x6 x7 x8 : Nat}
    {x9 : StateRole} {x10 : Bool} {x11 : Nat}
    {x12 : Option Nat} {x13 : Nat} {x14 : ReadOnly} {x15 x16 : Nat} {x17 x18 x19 x21 : Bool}
    {x22 x23 x24 x25 x26 : Nat} {x27 : Int} {x28 : UncommittedState} {x29 : Nat}
    {x30 : ProgressTracker} {x32 : Option Nat} (h0 : K a r) :
    K a { term := x1, vote := x2, id := x3, readStates := x4, raftLog := r.raftLog,
          maxInflight := x6, maxMsgSize := x7, pendingRequestSnapshot := x8, state := x9,
          promotable := x10, leaderId := x11, leadTransferee := x12,
          pendingConfIndex := x13, readOnly := x14, electionElapsed := x15,
          heartbeatElapsed := x16, checkQuorum := x17, preVote := x18,
          skipBcastCommit := x19, batchAppend := r.batchAppend, disableProposalForwarding := x21,
          heartbeatTimeout := x22, electionTimeout := x23, randomizedElectionTimeout := x24,
          minElectionTimeout := x25, maxElectionTimeout := x26, priority := x27,
          uncommittedState := x28, maxCommittedSizePerReady := x29, prs := x30, msgs := r.msgs,
          nextRand := x32 } := fun hi hb => ⟨(h0 hi hb).ls, (h0 hi hb).ba, (h0 hi hb).q⟩

/-- a structure update of `raftLog` by a log that represents the same logical log over the same
stored entries -/
theorem K.log {a r : Raft} {l : RaftLog} (hl : LogSameS r.raftLog l) (h0 : K a r) :
    K a { r with raftLog := l } :=
  fun hi hb => ⟨(h0 hi hb).ls.trans hl, (h0 hi hb).ba, (h0 hi hb).q⟩

theorem K.mkSend {a r : Raft} {m : Message} {x1 x2 x3 : Nat} {x4 : List ReadState} {x6 x7 x8 : Nat}
    {x9 : StateRole} {x10 : Bool} {x11 : Nat}
    {x12 : Option Nat} {x13 : Nat} {x14 : ReadOnly} {x15 x16 : Nat} {x17 x18 x19 x21 : Bool}
    {x22 x23 x24 x25 x26 : Nat} {x27 : Int} {x28 : UncommittedState} {x29 : Nat}
    {x30 : ProgressTracker} {x32 : Option Nat} (hm : decide (m.msgType ≠ .msgAppend) = true)
    (h0 : K a r) :
    K a { term := x1, vote := x2, id := x3, readStates := x4, raftLog := r.raftLog,
          maxInflight := x6, maxMsgSize := x7, pendingRequestSnapshot := x8, state := x9,
          promotable := x10, leaderId := x11, leadTransferee := x12,
          pendingConfIndex := x13, readOnly := x14, electionElapsed := x15,
          heartbeatElapsed := x16, checkQuorum := x17, preVote := x18,
          skipBcastCommit := x19, batchAppend := r.batchAppend, disableProposalForwarding := x21,
          heartbeatTimeout := x22, electionTimeout := x23, randomizedElectionTimeout := x24,
          minElectionTimeout := x25, maxElectionTimeout := x26, priority := x27,
          uncommittedState := x28, maxCommittedSizePerReady := x29, prs := x30,
          msgs := r.msgs ++ [r.sendFill m],
          nextRand := x32 } := by
  intro hi hb
  have h0 := h0 hi hb
  refine ⟨h0.ls, h0.ba, fun x hx hty => ?_⟩
  rcases List.mem_append.1 hx with hx | hx
  · exact h0.q x hx hty
  · rw [List.mem_singleton.1 hx, sendFill_msgType] at hty
    simp only [ne_eq, decide_not, Bool.not_eq_eq_eq_not, Bool.not_true, decide_eq_false_iff_not] at hm
    exact absurd hty hm

macro "k_pre" h:ident : tactic =>
  `(tactic| (frame_dec $h:ident <;> (iterate 2 (try (apply K.mk')))))

macro "k_auto" h:ident "[" ls:Lean.Parser.Tactic.SolveByElim.arg,* "]" : tactic =>
  `(tactic| (k_pre $h:ident <;> (solve_by_elim (maxDepth := 14) [K.rfl, $ls,*, K.mk', K.mkSend])))

/-- queueing a message that is not a `MsgAppend` -/
theorem send_k {a r r' : Raft} {m : Message} (h : r.send m = .ok r')
    (hm : decide (m.msgType ≠ .msgAppend) = true) (h0 : K a r) : K a r' := by
  rw [send_eq r r' m h]
  intro hi hb
  have h0 := h0 hi hb
  refine ⟨h0.ls, h0.ba, fun x hx hty => ?_⟩
  rcases List.mem_append.1 hx with hx | hx
  · exact h0.q x hx hty
  · rw [List.mem_singleton.1 hx, sendFill_msgType] at hty
    simp only [ne_eq, decide_not, Bool.not_eq_eq_eq_not, Bool.not_true, decide_eq_false_iff_not] at hm
    exact absurd hty hm

theorem sendHeartbeat_k {a r r' : Raft} {to : Nat} {pr : Progress} {ctx : Option Bytes}
    (h : r.sendHeartbeat to pr ctx = .ok r') (h0 : K a r) : K a r' := by
  unfold Raft.sendHeartbeat at h
  exact send_k h rfl h0

theorem sendTimeoutNow_k {a r r' : Raft} {to : Nat}
    (h : r.sendTimeoutNow to = .ok r') (h0 : K a r) : K a r' := by
  unfold Raft.sendTimeoutNow at h
  exact send_k h rfl h0

theorem handleReadyReadIndex_k {a r r' : Raft} {req : Message} {i : Nat} {om : Option Message}
    (h : r.handleReadyReadIndex req i = .ok (r', om)) (h0 : K a r) :
    K a r' ∧ ∀ m', om = some m' → m'.msgType = .msgReadIndexResp := by
  unfold Raft.handleReadyReadIndex at h
  split at h
  · split at h
    · cases h
    · cases h; exact ⟨K.mk' h0, fun _ hc => by cases hc⟩
  · cases h; exact ⟨h0, fun _ hc => by cases hc; rfl⟩

theorem sendRequestSnapshot_k {a r r' : Raft} (h : r.sendRequestSnapshot = .ok r')
    (h0 : K a r) : K a r' := by
  unfold Raft.sendRequestSnapshot at h
  k_auto h [send_k]

/-! ### `maybe_send_append` and its callers -/

theorem prepareSendSnapshot_k {a r r' : Raft} {m m' : Message} {pr pr' : Progress} {to : Nat}
    {b : Bool} (h : r.prepareSendSnapshot m pr to = .ok (r', m', pr', b)) (h0 : K a r) :
    K a r' := by
  unfold Raft.prepareSendSnapshot at h
  split at h
  · cases h; exact h0
  · simp only [] at h
    have hs := logS_snapshot r.raftLog pr.pendingRequestSnapshot
    split at h
    · cases h; exact K.log hs h0
    · cases h
    · cases h
    · split at h
      · cases h
      · cases h; exact K.log hs h0

theorem viaSnapshot_k {a r r' : Raft} {to : Nat} {pr pr' : Progress} {sent : Bool}
    (h : RaftProps.C13.viaSnapshot r to pr = .ok (r', pr', sent)) (h0 : K a r) : K a r' := by
  unfold RaftProps.C13.viaSnapshot at h
  split at h
  · rename_i r1 m1 pr1 heq
    obtain ⟨_, h2⟩ := prepareSendSnapshot_msgs heq
    rw [Res.bind_eq_ok_iff] at h
    obtain ⟨r2, hs, h4⟩ := h
    cases h4
    exact send_k hs (by rw [h2 rfl]; rfl) (prepareSendSnapshot_k heq h0)
  · rename_i r1 m1 pr1 heq
    cases h
    exact prepareSendSnapshot_k heq h0
  · cases h
  · cases h

/-- **`maybe_send_append`** (batching off): what it queues is a `MsgSnapshot`, or a `MsgAppend` that is
a slice of the sender's logical log anchored at `(next_idx - 1, term(next_idx - 1))` -/
theorem maybeSendAppend_k {a r r' : Raft} {to : Nat} {pr pr' : Progress} {ae b : Bool}
    (h : r.maybeSendAppend to pr ae = .ok (r', pr', b)) (h0 : K a r) : K a r' := by
  rcases RaftProps.C13.C13_send_classification r r' to pr pr' ae b h with
    ⟨_, he, _⟩ | ⟨_, _, hn, t, es, ht, hes, _, _, _, hcase⟩ | ⟨_, _, he, _⟩ | ⟨_, _, hv⟩
  · rw [he]; exact h0
  · intro hinv hnb
    have h0 := h0 hinv hnb
    rcases hcase with ⟨hb, _⟩ | ⟨_, he⟩
    · rw [h0.ba, hnb] at hb; cases hb
    · rw [he]
      refine ⟨h0.ls, h0.ba, fun x hx hty => ?_⟩
      rcases List.mem_append.1 hx with hx | hx
      · exact h0.q x hx hty
      · right
        rw [List.mem_singleton.1 hx]
        have hri := h0.inv hinv
        obtain ⟨hc, hown⟩ := entries_own hri hes
        rw [hri.term_abs, h0.abs] at ht
        rw [h0.abs] at hown
        refine ⟨?_, ?_⟩
        · show ContigFrom (pr.nextIdx - 1 + 1) es
          rw [show pr.nextIdx - 1 + 1 = pr.nextIdx by omega]; exact hc
        · exact sub_of_slice a.raftLog.abs pr.nextIdx t es (by omega) hc hown ht
  · rw [he]; exact h0
  · exact viaSnapshot_k hv h0

theorem sendAppendPr_k {a r r' : Raft} {to : Nat} {pr pr' : Progress}
    (h : r.sendAppendPr to pr = .ok (r', pr')) (h0 : K a r) : K a r' := by
  unfold Raft.sendAppendPr at h
  k_auto h [maybeSendAppend_k]

theorem sendAppendAggressivelyPr_k {a r' : Raft} {to : Nat} {pr' : Progress}:
    ∀ (fuel : Nat) (r : Raft) (pr : Progress),
      sendAppendAggressivelyPr fuel r to pr = .ok (r', pr') → K a r → K a r' := by
  intro fuel
  induction fuel with
  | zero => intro r pr h; simp [sendAppendAggressivelyPr] at h
  | succ n ih =>
    intro r pr h h0
    unfold sendAppendAggressivelyPr at h
    split at h
    · rename_i r1 pr1 hm
      exact ih r1 pr1 h (maybeSendAppend_k hm h0)
    · rename_i r1 pr1 hm
      cases h; exact maybeSendAppend_k hm h0
    · cases h
    · cases h

theorem sendAppend_k {a r r' : Raft} {to : Nat}
    (h : r.sendAppend to = .ok r') (h0 : K a r) : K a r' := by
  unfold Raft.sendAppend at h
  k_auto h [sendAppendPr_k]

theorem sendAppendAggressively_k {a r r' : Raft} {to : Nat}
    (h : r.sendAppendAggressively to = .ok r') (h0 : K a r) : K a r' := by
  unfold Raft.sendAppendAggressively at h
  k_auto h [sendAppendAggressivelyPr_k]

theorem foldl_k {α : Type} {a r' : Raft} (step : Res Raft → α → Res Raft)
    (hstep : ∀ acc x r1, step acc x = .ok r1 → ∃ r0, acc = .ok r0 ∧ (K a r0 → K a r1)) :
    ∀ (l : List α) (acc : Res Raft), l.foldl step acc = .ok r' →
      (∀ r, acc = .ok r → K a r) → K a r' := by
  intro l
  induction l with
  | nil => intro acc h h0; exact h0 r' h
  | cons x rest ih =>
    intro acc h h0
    simp only [List.foldl_cons] at h
    refine ih (step acc x) h ?_
    intro r1 h1
    obtain ⟨r0, e0, hf⟩ := hstep acc x r1 h1
    exact hf (h0 r0 e0)

theorem forEachPeer_k {a r r' : Raft} {f : Raft → Nat → Progress → Res (Raft × Progress)}
    (hf : ∀ r id pr r' pr', f r id pr = .ok (r', pr') → K a r → K a r')
    (h : r.forEachPeer f = .ok r') (h0 : K a r) : K a r' := by
  unfold Raft.forEachPeer at h
  refine foldl_k _ ?_ _ _ h (by intro r1 e; cases e; exact h0)
  intro acc id r1 h1
  cases acc with
  | err e => cases h1
  | panic s => cases h1
  | ok r0 =>
    refine ⟨r0, rfl, fun h0 => ?_⟩
    change (if id = r0.id then Res.ok r0 else _) = _ at h1
    k_auto h1 [hf]

theorem bcastAppend_k {a r r' : Raft}
    (h : r.bcastAppend = .ok r') (h0 : K a r) : K a r' := by
  unfold Raft.bcastAppend at h
  exact forEachPeer_k (fun r id pr r' pr' h => sendAppendPr_k h) h h0

theorem bcastHeartbeatWithCtx_k {a r r' : Raft} {ctx : Option Bytes}
    (h : r.bcastHeartbeatWithCtx ctx = .ok r') (h0 : K a r) : K a r' := by
  unfold Raft.bcastHeartbeatWithCtx at h
  refine forEachPeer_k (fun r id pr r' pr' h h0 => ?_) h h0
  k_auto h [sendHeartbeat_k]

theorem bcastHeartbeat_k {a r r' : Raft} (h : r.bcastHeartbeat = .ok r') (h0 : K a r) :
    K a r' := by
  unfold Raft.bcastHeartbeat at h
  exact bcastHeartbeatWithCtx_k h h0

theorem maybeCommit_k {a r r' : Raft} {b : Bool} (h : r.maybeCommit = .ok (r', b))
    (h0 : K a r) : K a r' := by
  unfold Raft.maybeCommit at h
  split at h
  · cases h
  · cases h
  · split at h
    · cases h
    · cases h
    · rename_i log hm
      cases h
      exact K.mk' (r := { r with raftLog := log }) (K.log (logS_maybeCommit hm) h0)
    · cases h; exact h0

theorem respondReadStates_k {a r r' : Raft} {rss : List ReadIndexStatus}
    (h : r.respondReadStates rss = .ok r') (h0 : K a r) : K a r' := by
  unfold Raft.respondReadStates at h
  refine foldl_k _ ?_ _ _ h (by intro r1 e; cases e; exact h0)
  intro acc rs r1 h1
  cases acc with
  | err e => cases h1
  | panic s => cases h1
  | ok r0 =>
    refine ⟨r0, rfl, fun h0 => ?_⟩
    change (r0.handleReadyReadIndex rs.req rs.index).bind _ = _ at h1
    rw [Res.bind_eq_ok_iff] at h1
    obtain ⟨⟨r2, om⟩, h2, h3⟩ := h1
    obtain ⟨hk, hty⟩ := handleReadyReadIndex_k h2 h0
    dsimp only at h3
    split at h3
    · rename_i m' _
      exact send_k h3 (by rw [hty _ rfl]; rfl) hk
    · cases h3; exact hk

/-! ### leader side -/

theorem checkQuorumActive_k {a r r' : Raft} {b : Bool} (h : r.checkQuorumActive = (r', b))
    (h0 : K a r) : K a r' := by
  unfold Raft.checkQuorumActive at h
  split at h
  cases h
  exact K.mk' h0

theorem handleAppendResponseAccepted_k {a r r' : Raft} {m : Message} {pr : Progress} {op : Bool}
    (h : r.handleAppendResponseAccepted m pr op = .ok r') (h0 : K a r) : K a r' := by
  unfold Raft.handleAppendResponseAccepted at h
  k_auto h [maybeCommit_k, bcastAppend_k, sendAppend_k,
    sendAppendAggressively_k, sendTimeoutNow_k]

theorem handleAppendResponse_k {a r r' : Raft} {m : Message}
    (h : r.handleAppendResponse m = .ok r') (h0 : K a r) : K a r' := by
  unfold Raft.handleAppendResponse at h
  k_auto h [handleAppendResponseAccepted_k, sendAppend_k]

theorem handleHeartbeatResponse_k {a r r' : Raft} {m : Message}
    (h : r.handleHeartbeatResponse m = .ok r') (h0 : K a r) : K a r' := by
  unfold Raft.handleHeartbeatResponse at h
  k_auto h [sendAppendPr_k, respondReadStates_k]

theorem handleTransferLeader_k {a r r' : Raft} {m : Message}
    (h : r.handleTransferLeader m = .ok r') (h0 : K a r) : K a r' := by
  unfold Raft.handleTransferLeader at h
  repeat' (first | split at h | (simp only at h; split at h))
  all_goals k_auto h [sendTimeoutNow_k, sendAppendPr_k]

theorem handleSnapshotStatus_k {a r : Raft} {m : Message} (h0 : K a r) :
    K a (r.handleSnapshotStatus m) := by
  unfold Raft.handleSnapshotStatus
  split
  · exact h0
  · split
    · exact h0
    · exact K.mk' h0

theorem handleUnreachable_k {a r : Raft} {m : Message} (h0 : K a r) :
    K a (r.handleUnreachable m) := by
  unfold Raft.handleUnreachable
  split
  · exact h0
  · split
    · exact K.mk' h0
    · exact h0

theorem filterProposalEntry_k {a r r' : Raft} {i : Nat} {e e' : Entry}
    (h : r.filterProposalEntry i e = some (r', e')) (h0 : K a r) : K a r' := by
  unfold Raft.filterProposalEntry at h
  k_auto h [send_k]

theorem filterProposal_k {a : Raft} : ∀ (es : List Entry) (r r' : Raft) (i : Nat)
    (oes : Option (List Entry)), r.filterProposal i es = (r', oes) → K a r → K a r' := by
  intro es
  induction es with
  | nil => intro r r' i oes h h0; simp [Raft.filterProposal] at h; rw [← h.1]; exact h0
  | cons e es ih =>
    intro r r' i oes h h0
    unfold Raft.filterProposal at h
    split at h
    · cases h; exact h0
    · rename_i r1 e1 h1
      have h2 := filterProposalEntry_k h1 h0
      split at h
      · rename_i r2 es2 h3
        cases h; exact ih _ _ _ _ h3 h2
      · rename_i r2 h3
        cases h; exact ih _ _ _ _ h3 h2

/-! ### follower side, role changes, votes, term preamble -/

theorem handleHeartbeat_k {a r r' : Raft} {m : Message}
    (h : r.handleHeartbeat m = .ok r') (h0 : K a r) : K a r' := by
  unfold Raft.handleHeartbeat at h
  split at h
  · cases h
  · cases h
  · rename_i log hc
    have h1 : K a { r with raftLog := log } := K.log (logS_commitTo hc) h0
    k_auto h [send_k, sendRequestSnapshot_k]

theorem reset_batchAppend (r : Raft) (t : Nat) : (r.reset t).batchAppend = r.batchAppend := by
  unfold Raft.reset
  simp only [Raft.mapProgress, Raft.abortLeaderTransfer, Raft.resetRandomizedElectionTimeout]
  by_cases h : r.term ≠ t <;> simp [h]

theorem reset_k {a r : Raft} (t : Nat) (h0 : K a r) : K a (r.reset t) := fun hi hb =>
  ⟨by rw [reset_raftLog]; exact (h0 hi hb).ls, by rw [reset_batchAppend]; exact (h0 hi hb).ba,
   by rw [reset_msgs]; exact (h0 hi hb).q⟩

theorem becomeFollower_batchAppend (r : Raft) (t l : Nat) :
    (r.becomeFollower t l).batchAppend = r.batchAppend := by
  unfold Raft.becomeFollower
  exact reset_batchAppend r t

theorem becomeFollower_k {a r : Raft} (t l : Nat) (h0 : K a r) : K a (r.becomeFollower t l) :=
  fun hi hb =>
  ⟨by rw [RaftProps.C20.becomeFollower_raftLog]; exact (h0 hi hb).ls.trans (logS_limit _ 0),
   by rw [becomeFollower_batchAppend]; exact (h0 hi hb).ba,
   by rw [becomeFollower_msgs]; exact (h0 hi hb).q⟩

theorem becomeCandidate_k {a r r' : Raft} (h : r.becomeCandidate = .ok r') (h0 : K a r) :
    K a r' := by
  unfold Raft.becomeCandidate at h
  split at h
  · cases h
  · split at h
    · cases h
    · cases h
      exact K.mk' (r := r.reset (r.term + 1)) (reset_k _ h0)

theorem becomePreCandidate_k {a r r' : Raft} (h : r.becomePreCandidate = .ok r') (h0 : K a r) :
    K a r' := by
  unfold Raft.becomePreCandidate at h
  split at h
  · cases h
  · cases h; exact K.mk' h0

theorem sendVoteRequests_k {a r r' : Raft} {ct : CampaignType} {vm : MsgType} {t : Nat}
    (hvm : vm ≠ .msgAppend)
    (h : r.sendVoteRequests ct vm t = .ok r') (h0 : K a r) : K a r' := by
  unfold Raft.sendVoteRequests at h
  split at h
  · cases h
  · cases h
  · split at h
    · cases h
    · cases h
    · refine foldl_k _ ?_ _ _ h (by intro r1 e; cases e; exact h0)
      intro acc id r1 h1
      cases acc with
      | err e => cases h1
      | panic s => cases h1
      | ok r0 =>
        refine ⟨r0, rfl, fun h0 => ?_⟩
        change (if id = r0.id then Res.ok r0 else _) = _ at h1
        split at h1
        · cases h1; exact h0
        · exact send_k h1 (by simp [hvm]) h0

theorem maybeCommitByVote_k {a r r' : Raft} {m : Message} (h : r.maybeCommitByVote m = .ok r')
    (h0 : K a r) : K a r' := by
  unfold Raft.maybeCommitByVote at h
  split at h
  · cases h; exact h0
  · simp only at h
    split at h
    · cases h; exact h0
    · split at h
      · cases h
      · cases h
      · cases h; exact h0
      · rename_i log hm
        have h1 : K a { r with raftLog := log } := K.log (logS_maybeCommit hm) h0
        split at h
        · cases h; exact h1
        · split at h
          · cases h
          · cases h
          · cases h; exact becomeFollower_k _ _ h1
          · cases h; exact h1

theorem voteResp_ne {t rt : MsgType} (h : voteRespMsgType t = some rt) : rt ≠ .msgAppend := by
  unfold voteRespMsgType at h
  split at h <;> (try cases h) <;> decide

theorem stepVoteGrant_k {a r r' : Raft} {m : Message} {t : MsgType} (ht : t ≠ .msgAppend)
    (h : r.stepVoteGrant m t = .ok r') (h0 : K a r) : K a r' := by
  unfold Raft.stepVoteGrant at h
  split at h
  · rename_i r1 hs
    have h1 : K a r1 := send_k hs (by simp [ht]) h0
    split at h
    · cases h; exact K.mk' h1
    · cases h; exact h1
  · cases h
  · cases h

theorem stepVoteReject_k {a r r' : Raft} {m : Message} {t : MsgType} (ht : t ≠ .msgAppend)
    (h : r.stepVoteReject m t = .ok r') (h0 : K a r) : K a r' := by
  unfold Raft.stepVoteReject at h
  split at h
  · cases h
  · cases h
  · split at h
    · rename_i r1 hs
      have h1 : K a r1 := send_k hs (by simp [ht]) h0
      split at h
      · exact maybeCommitByVote_k h h1
      · cases h; exact h1
    · cases h
    · cases h

theorem stepVote_k {a r r' : Raft} {m : Message} (h : r.stepVote m = .ok r') (h0 : K a r) :
    K a r' := by
  unfold Raft.stepVote at h
  split at h
  · cases h
  · rename_i rt hrt
    have hne := voteResp_ne hrt
    split at h
    · exact stepVoteGrant_k hne h h0
    · exact stepVoteReject_k hne h h0
    · cases h
    · cases h

theorem stepTerm_k {a r r' : Raft} {m : Message} {b : Bool} (h : r.stepTerm m = .ok (r', b))
    (h0 : K a r) : K a r' := by
  unfold Raft.stepTerm at h
  k_auto h [send_k, becomeFollower_k]

end Raft
end RaftModel
