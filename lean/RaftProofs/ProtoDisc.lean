import RaftProofs.ProtoDiscStep

/-!
# PD: PC's local conditions follow from what single library calls enforce

On every state reachable in PD (`RaftModel/ProtoDisc.lean`) the local conditions PC checks at a `win`,
a `commitLeader` and a read answer — the applied index is not beyond the commit index, at most one
membership-change entry lies beyond the applied index in the winner's log / in the prefix a leader
commits, a leader's version never decreases — are **implied**, for the applied index PD tracks.  What
stays a run-time check is the table lookup `vtab[version]? = some cfg` (the determinism of
`apply_conf_change`).  So every PD history is a PC history (`reach_pc`), hence a P history, and PD
refuses `win` / `commitLeader` / `resp` / `rstate` only because the reported applied index is not the
tracked one, the configuration is not the one of the tracked version, or the configuration-free part
of P's guard fails.

Files: `ProtoDiscDefs` (`One`, the events of PD unpacked, `reach_pc`), `ProtoDiscInv` (the invariant
`InvD`: APPL, INV1 for volatile / pending / durable logs, MINV for released appends, PCONF, HUP/INV2,
LVER; frame lemmas; the events of P that PD does not refine), `ProtoDiscStep` (`InvD` is inductive).
-/
namespace RaftModel.P

/-- **the local condition of PC's `win` is implied** (all but the table lookup) -/
theorem win_local_redundant (D : DSys) (hr : ReachPD D) (i : Nat) (cfg : Cfg) (q : List Nat)
    (hcore : winCore D.pc.base i cfg q = true)
    (htab : D.pc.vtab[confCount ((D.pc.base.nodes i).log.take (D.applied i))]? = some cfg) :
    winLocalB D.pc i cfg (D.applied i) = true := by
  have hD := invD_reach hr
  obtain ⟨_, hrole, _⟩ := winCore_unpack hcore
  simp only [winLocalB, Bool.and_eq_true, decide_eq_true_eq]
  exact ⟨⟨hD.appl i, hD.hup i (by rw [hrole]; decide)⟩, htab⟩

/-- **the local condition of PC's `commitLeader` is implied** (all but the table lookup) -/
theorem commit_local_redundant (D : DSys) (hr : ReachPD D) (i c : Nat) (cfg : Cfg) (q : List Nat)
    (hcore : commitCore D.pc.base i c cfg q = true)
    (htab : D.pc.vtab[confCount ((D.pc.base.nodes i).log.take (D.applied i))]? = some cfg) :
    commitLocalB D.pc i c cfg (D.applied i) = true := by
  have hD := invD_reach hr
  obtain ⟨_, hrole, _⟩ := commitCore_unpack hcore
  simp only [commitLocalB, Bool.and_eq_true, decide_eq_true_eq]
  refine ⟨⟨⟨hD.appl i, ?_⟩, htab⟩, hD.lver i hrole⟩
  have h1 := hD.hup i (by rw [hrole]; decide)
  have h2 := confCount_take_le (D.pc.base.nodes i).log c
  unfold One at h1
  omega

/-- **the local condition of PC's `resp` / leader-local `rstate` is implied** (all but the table lookup) -/
theorem read_local_redundant (D : DSys) (hr : ReachPD D) (i rid idx : Nat) (cfg : Cfg)
    (hcore : respCore D.pc.base i rid idx cfg = true)
    (_htab : D.pc.vtab[confCount ((D.pc.base.nodes i).log.take (D.applied i))]? = some cfg) :
    D.applied i ≤ (D.pc.base.nodes i).commit ∧
    verMono D.pc (D.pc.base.nodes i).term (confCount ((D.pc.base.nodes i).log.take (D.applied i))) = true := by
  have hD := invD_reach hr
  obtain ⟨_, hrole, _⟩ := respCore_unpack hcore
  exact ⟨hD.appl i, hD.lver i hrole⟩

/-! ### the Boolean local conditions and the propositional ones of `RaftProofs/ProtoCfg.lean` -/

theorem winLocalB_iff (S : CSys) (i : Nat) (cfg : Cfg) (applied : Nat) :
    winLocalB S i cfg applied = true ↔ winLocal S i cfg applied := by
  simp only [winLocalB, winLocal, Bool.and_eq_true, decide_eq_true_eq, and_assoc]

theorem commitLocalB_iff (S : CSys) (i c : Nat) (cfg : Cfg) (applied : Nat) :
    commitLocalB S i c cfg applied = true ↔ commitLocal S i c cfg applied := by
  simp only [commitLocalB, commitLocal, Bool.and_eq_true, decide_eq_true_eq, and_assoc]

/-! ### the facts behind: what holds of every node in every reachable state of PD -/

/-- the applied index is never beyond the commit index -/
theorem applied_le_commit (D : DSys) (hr : ReachPD D) (i : Nat) : D.applied i ≤ (D.pc.base.nodes i).commit :=
  (invD_reach hr).appl i

/-- every log a node can continue from — volatile, pending image, durable image — holds at most one
membership-change entry beyond its commit index -/
theorem one_conf_beyond_commit (D : DSys) (hr : ReachPD D) (i : Nat) :
    confCount (D.pc.base.nodes i).log ≤
      confCount ((D.pc.base.nodes i).log.take (D.pc.base.nodes i).commit) + 1 ∧
    (∀ im ∈ (D.pc.base.nodes i).pending, confCount im.log ≤ confCount (im.log.take im.commit) + 1) ∧
    confCount (D.pc.base.nodes i).dlog ≤
      confCount ((D.pc.base.nodes i).dlog.take (D.pc.base.nodes i).dcommit) + 1 :=
  ⟨(invD_reach hr).v i, (invD_reach hr).p i, (invD_reach hr).d i⟩

/-- a candidate's and a leader's log hold at most one membership-change entry beyond the applied index -/
theorem one_conf_beyond_applied (D : DSys) (hr : ReachPD D) (i : Nat) (hrole : (D.pc.base.nodes i).role ≠ 0) :
    confCount (D.pc.base.nodes i).log ≤ confCount ((D.pc.base.nodes i).log.take (D.applied i)) + 1 :=
  (invD_reach hr).hup i hrole

/-! ### PD accepts `win` / `commitLeader` / `resp` / `rstate` iff the reported applied index is the
tracked one, the configuration is the one of the tracked version, and the configuration-free part of
P's guard holds -/

theorem winD_mk {D : DSys} {i : Nat} {cfg : Cfg} {q : List Nat} {applied : Nat} {S : CSys}
    (ha : applied = D.applied i) (hS : applyEventC D.pc (.win i cfg q applied) = .ok S) :
    applyEventD D (.win i cfg q applied) =
      .ok { D with pc := S, pconf := updN D.pconf i (D.pc.base.nodes i).log.length } := by
  simp only [applyEventD]
  rw [if_pos ha, hS]

theorem commitD_mk {D : DSys} {i c : Nat} {cfg : Cfg} {q : List Nat} {applied : Nat} {S : CSys}
    (ha : applied = D.applied i) (hS : applyEventC D.pc (.commitLeader i c cfg q applied) = .ok S) :
    applyEventD D (.commitLeader i c cfg q applied) = .ok { D with pc := S } := by
  simp only [applyEventD]
  rw [if_pos ha, hS]
  rfl

theorem respD_mk {D : DSys} {i rid idx : Nat} {cfg : Cfg} {applied : Nat} {S : CSys}
    (ha : applied = D.applied i) (hS : applyEventC D.pc (.resp i rid idx cfg applied) = .ok S) :
    applyEventD D (.resp i rid idx cfg applied) = .ok { D with pc := S } := by
  simp only [applyEventD]
  rw [if_pos ha, hS]
  rfl

theorem rstateD_mk {D : DSys} {j rid idx : Nat} {cfg : Cfg} {applied : Nat} {S : CSys}
    (ha : applied = D.applied j ∨ D.pc.base.rd.resps.contains ⟨rid, j, idx⟩ = true)
    (hS : applyEventC D.pc (.rstate j rid idx cfg applied) = .ok S) :
    applyEventD D (.rstate j rid idx cfg applied) = .ok { D with pc := S } := by
  simp only [applyEventD]
  rw [if_pos ha, hS]
  rfl

/-- **on reachable states PD accepts `win` iff the reported applied index is the tracked one, the
configuration is the one of its version, and the configuration-free part of P's guard holds** -/
theorem winD_accepts_iff (D : DSys) (hr : ReachPD D) (i : Nat) (cfg : Cfg) (q : List Nat) (applied : Nat) :
    (∃ D', applyEventD D (.win i cfg q applied) = .ok D') ↔
      (applied = D.applied i ∧
       D.pc.vtab[confCount ((D.pc.base.nodes i).log.take (D.applied i))]? = some cfg ∧
       winCore D.pc.base i cfg q = true) := by
  constructor
  · rintro ⟨D', h⟩
    obtain ⟨ha, S, hS, _⟩ := stepD_win h
    obtain ⟨hloc, hcore⟩ := (winC_accepts_iff D.pc (reach_pc hr) i cfg q applied).1 ⟨S, hS⟩
    subst ha
    exact ⟨rfl, hloc.2.2, hcore⟩
  · rintro ⟨ha, htab, hcore⟩
    subst ha
    have hloc := (winLocalB_iff _ _ _ _).1 (win_local_redundant D hr i cfg q hcore htab)
    exact ⟨_, winD_mk rfl (winC_accepts D.pc (reach_pc hr) i cfg q _ hloc hcore)⟩

/-- **... the same for `commitLeader`** -/
theorem commitD_accepts_iff (D : DSys) (hr : ReachPD D) (i c : Nat) (cfg : Cfg) (q : List Nat) (applied : Nat) :
    (∃ D', applyEventD D (.commitLeader i c cfg q applied) = .ok D') ↔
      (applied = D.applied i ∧
       D.pc.vtab[confCount ((D.pc.base.nodes i).log.take (D.applied i))]? = some cfg ∧
       commitCore D.pc.base i c cfg q = true) := by
  constructor
  · rintro ⟨D', h⟩
    obtain ⟨ha, S, hS, _⟩ := stepD_commitLeader h
    obtain ⟨hloc, hcore⟩ := (commitC_accepts_iff D.pc (reach_pc hr) i c cfg q applied).1 ⟨S, hS⟩
    subst ha
    exact ⟨rfl, hloc.2.2.1, hcore⟩
  · rintro ⟨ha, htab, hcore⟩
    subst ha
    have hloc := (commitLocalB_iff _ _ _ _ _).1 (commit_local_redundant D hr i c cfg q hcore htab)
    exact ⟨_, commitD_mk rfl (commitC_accepts D.pc (reach_pc hr) i c cfg q _ hloc hcore)⟩

/-- **... for `resp`** -/
theorem respD_accepts_iff (D : DSys) (hr : ReachPD D) (i rid idx : Nat) (cfg : Cfg) (applied : Nat) :
    (∃ D', applyEventD D (.resp i rid idx cfg applied) = .ok D') ↔
      (applied = D.applied i ∧
       D.pc.vtab[confCount ((D.pc.base.nodes i).log.take (D.applied i))]? = some cfg ∧
       respCore D.pc.base i rid idx cfg = true) := by
  constructor
  · rintro ⟨D', h⟩
    obtain ⟨ha, S, hS, _⟩ := stepD_resp h
    obtain ⟨hloc, hcore⟩ := (respC_accepts_iff D.pc (reach_pc hr) i rid idx cfg applied).1 ⟨S, hS⟩
    subst ha
    exact ⟨rfl, hloc.2.1, hcore⟩
  · rintro ⟨ha, htab, hcore⟩
    subst ha
    obtain ⟨h1, h2⟩ := read_local_redundant D hr i rid idx cfg hcore htab
    obtain ⟨S, hS⟩ := (respC_accepts_iff D.pc (reach_pc hr) i rid idx cfg _).2 ⟨⟨h1, htab, h2⟩, hcore⟩
    exact ⟨_, respD_mk rfl hS⟩

/-- **... and for `rstate`**: the request is known and was issued on this running node, and the answer
is a released response or the guard of a leader-local read holds for the tracked applied index -/
theorem rstateD_accepts_iff (D : DSys) (hr : ReachPD D) (j rid idx : Nat) (cfg : Cfg) (applied : Nat) :
    (∃ D', applyEventD D (.rstate j rid idx cfg applied) = .ok D') ↔
      (∃ r, D.pc.base.rd.issued.find? (fun r => r.rid = rid) = some r ∧ (D.pc.base.nodes j).up = true ∧ r.node = j ∧
        (D.pc.base.rd.resps.contains ⟨rid, j, idx⟩ = true ∨
          (applied = D.applied j ∧
           D.pc.vtab[confCount ((D.pc.base.nodes j).log.take (D.applied j))]? = some cfg ∧
           respCore D.pc.base j rid idx cfg = true))) := by
  constructor
  · rintro ⟨D', h⟩
    obtain ⟨ha, S, hS, _⟩ := stepD_rstate h
    obtain ⟨r, h1, h2, h3, h4⟩ := (rstateC_accepts_iff D.pc (reach_pc hr) j rid idx cfg applied).1 ⟨S, hS⟩
    refine ⟨r, h1, h2, h3, ?_⟩
    by_cases hin : D.pc.base.rd.resps.contains ⟨rid, j, idx⟩ = true
    · exact Or.inl hin
    · obtain ⟨hloc, hcore⟩ := h4.resolve_left hin
      have ha' := ha.resolve_right hin
      subst ha'
      exact Or.inr ⟨rfl, hloc.2.1, hcore⟩
  · rintro ⟨r, h1, h2, h3, h4⟩
    rcases h4 with hin | ⟨ha, htab, hcore⟩
    · obtain ⟨S, hS⟩ := (rstateC_accepts_iff D.pc (reach_pc hr) j rid idx cfg applied).2
        ⟨r, h1, h2, h3, Or.inl hin⟩
      exact ⟨_, rstateD_mk (Or.inr hin) hS⟩
    · subst ha
      obtain ⟨h5, h6⟩ := read_local_redundant D hr j rid idx cfg hcore htab
      obtain ⟨S, hS⟩ := (rstateC_accepts_iff D.pc (reach_pc hr) j rid idx cfg _).2
        ⟨r, h1, h2, h3, Or.inr ⟨⟨h5, htab, h6⟩, hcore⟩⟩
      exact ⟨_, rstateD_mk (Or.inl rfl) hS⟩

end RaftModel.P
