import RaftProofs.ClusterSnap5I

/-!
[Copy of `ClusterSnap2J.lean` for the development `Snap5` (with `request_snapshot`): `NoReq` is replaced by
`ReqOk`, `SnapCase.restored` is widened — see `ClusterSnap5A.lean`, `RaftProps/C01i.lean`.]

Commit safety of `ClusterSem` with compaction and snapshots, part 2J (as `ClusterSnapJ`): two ghost
logs of the history that share an entry are equal below it, the ghost logs of the leader of one term
extend each other, and the facts about a commit event.
-/
namespace RaftModel
namespace Cluster
namespace Snap5
open Node Raft Raft.CC RaftProps.C02 RaftProps.C05 Snap

variable {cfg : JointConfig} {c0 : Nat} {h : List Sys}

/-- two uncompacted logs of the history that hold entries of the same term at `q` are equal up to `q` -/
theorem full_eq_below (H : Hyp2w cfg c0 h) {g1 g2 F1 F2 : LLog}
    (h1 : Full (HistChain h) c0 g1 F1) (h2 : Full (HistChain h) c0 g2 F2) {q : Nat} {e1 e2 : Entry}
    (he1 : F1.entryAt q = some e1) (he2 : F2.entryAt q = some e2) (ht : e1.term = e2.term) :
    ∀ k, k ≤ q → F1.entryAt k = F2.entryAt k :=
  eq_below (agree_of_derived (hist_agree H) h1.der h2.der) (h1.snap.trans h2.snap.symm) he1 he2 ht

/-- the ghost logs of two nodes of the history -/
theorem flogs_eq_below (H : Hyp2w cfg c0 h) {n n' : Nat} {s s' : Sys} (hn : h[n]? = some s)
    (hn' : h[n']? = some s') {i j : Nat} {st st' : NState} (hi : s.node i = some st)
    (hj : s'.node j = some st') {q : Nat} {e1 e2 : Entry}
    (h1 : (FL h c0 st).entryAt q = some e1) (h2 : (FL h c0 st').entryAt q = some e2)
    (ht : e1.term = e2.term) :
    ∀ k, k ≤ q → (FL h c0 st).entryAt k = (FL h c0 st').entryAt k :=
  full_eq_below H ((ghost_inv H n s hn).node i st hi).log ((ghost_inv H n' s' hn').node j st' hj).log
    h1 h2 ht

/-- **the ghost log of a leader only grows** while it leads its term -/
theorem leader_ghost_ext (H : Hyp2w cfg c0 h) (i : Nat) :
    ∀ (d n : Nat) (s s' : Sys) (st st' : NState), h[n]? = some s → h[n + d]? = some s' →
      (∀ m a b, n ≤ m → m < n + d → h[m]? = some a → h[m + 1]? = some b → ¬ IsRestart i a b) →
      s.node i = some st → s'.node i = some st' →
      st.raft.state = .leader → st'.raft.state = .leader → st'.raft.term = st.raft.term →
      st.raft.raftLog.abs.lastIndex ≤ st'.raft.raftLog.abs.lastIndex ∧
      ∀ k, k ≤ st.raft.raftLog.abs.lastIndex →
        (FL h c0 st').entryAt k = (FL h c0 st).entryAt k := by
  obtain ⟨s0, _, hall⟩ := H.inv_at
  intro d
  induction d with
  | zero =>
    intro n s s' st st' hn hn' _ hi hi' _ _ _
    rw [Nat.add_zero, hn] at hn'
    cases hn'
    rw [hi] at hi'
    cases hi'
    exact ⟨Nat.le_refl _, fun _ _ => rfl⟩
  | succ d ih =>
    intro n s s' st st' hn hn' hnr hi hi' hl hl' ht
    have hlt : n + 1 < h.length := by
      rcases Nat.lt_or_ge (n + 1) h.length with c | c
      · exact c
      · have : h.length ≤ n + (d + 1) := by omega
        rw [List.getElem?_eq_none this] at hn'; cases hn'
    have h1 : h[n + 1]? = some h[n + 1] := List.getElem?_eq_some_iff.2 ⟨hlt, rfl⟩
    have hstep := H.csteps n s _ hn h1
    have hsm : s ∈ h := mem_of_get hn
    obtain ⟨st1, hi1⟩ := step_node_some hstep.step i st hi
    have hn1' : h[n + 1 + d]? = some s' := by rw [← hn']; congr 1; omega
    have hnr1 : ∀ m a b, n + 1 ≤ m → m < n + 1 + d → h[m]? = some a → h[m + 1]? = some b →
        ¬ IsRestart i a b := fun m a b hm1 hm2 ha hb => hnr m a b (by omega) (by omega) ha hb
    rcases cstep_nodeRel (hall s hsm) (H.nb s hsm) hstep i st st1 hi hi1 with c | c
    · have hrest := rt_path h hall H.nb H.csteps i d (n + 1) _ s' st1 st' h1 hn1' hnr1 hi1 hi'
      have ht1 : st1.raft.term = st.raft.term := by
        have := c.rt.le; have := hrest.le; omega
      have hl1 : st1.raft.state = .leader := by
        rcases hrest.lead hl' with c1 | ⟨_, c2 | c2⟩
        · omega
        · rcases c.rt.cand c2 with c3 | ⟨_, c4⟩
          · omega
          · rw [hl] at c4; cases c4
        · exact c2
      obtain ⟨r1, r2⟩ := ih (n + 1) _ s' st1 st' h1 hn1' hnr1 hi1 hi' hl1 hl' (ht.trans ht1.symm)
      -- the first step
      have first : st.raft.raftLog.abs.lastIndex ≤ st1.raft.raftLog.abs.lastIndex ∧
          ∀ k, k ≤ st.raft.raftLog.abs.lastIndex →
            (FL h c0 st1).entryAt k = (FL h c0 st).entryAt k := by
        cases fnode_step H hn h1 hi hi1 with
        | same hl0 hli => exact ⟨Nat.le_of_eq hli.symm, fun k _ => hl0 k⟩
        | grew es hg hl0 _ =>
          refine ⟨?_, hl0⟩
          rw [hg.abs]; unfold LLog.lastIndex; simp only [List.length_append]; omega
        | acc m _ _ _ _ _ _ _ hs _ => rw [hs] at hl1; cases hl1
        | restart _ hs _ => rw [hs] at hl1; cases hl1
        | restored m _ _ _ _ _ _ _ hs _ => rw [hs] at hl1; cases hl1
      exact ⟨Nat.le_trans first.1 r1,
        fun k hk => (r2 k (Nat.le_trans hk first.1)).trans (first.2 k hk)⟩
    · exact absurd c (hnr n s _ (Nat.le_refl _) (by omega) hn h1)

/-- the ghost logs of the leader of term `t` at two points of the history hold the same entry at every
index both reach -/
theorem leader_flogs_eq (H : Hyp2w cfg c0 h) {n n' : Nat} {s s' : Sys} (hn : h[n]? = some s)
    (hn' : h[n']? = some s') {l l' t : Nat} {st st' : NState} (hk : s.node l = some st)
    (hk' : s'.node l' = some st') (hs : st.raft.state = .leader) (hs' : st'.raft.state = .leader)
    (ht : st.raft.term = t) (ht' : st'.raft.term = t) {k : Nat}
    (h1 : k ≤ st.raft.raftLog.abs.lastIndex) (h2 : k ≤ st'.raft.raftLog.abs.lastIndex) :
    (FL h c0 st).entryAt k = (FL h c0 st').entryAt k := by
  have hll : l = l' :=
    C02_cluster_election_safety cfg H.ne H.nd1 H.nd2 h H.hist H.fix s s' (mem_of_get hn)
      (mem_of_get hn') l l' t ⟨st, hk, hs, ht⟩ ⟨st', hk', hs', ht'⟩
  subst hll
  rcases Nat.le_total n n' with hle | hle
  · obtain ⟨d, rfl⟩ := Nat.exists_eq_add_of_le hle
    exact ((leader_ghost_ext H l d n s s' st st' hn hn'
      (no_restart_between H hn hn' ⟨st, hk, hs, ht⟩ ⟨st', hk', hs', ht'⟩) hk hk' hs hs'
      (ht'.trans ht.symm)).2 k h1).symm
  · obtain ⟨d, rfl⟩ := Nat.exists_eq_add_of_le hle
    exact (leader_ghost_ext H l d n' s' s st' st hn' hn
      (no_restart_between H hn' hn ⟨st', hk', hs', ht'⟩ ⟨st, hk, hs, ht⟩) hk' hk hs' hs
      (ht.trans ht'.symm)).2 k h2

/-- the common snapshot point is not beyond the snapshot point of any node -/
theorem c0_le_snap (H : Hyp2w cfg c0 h) {n : Nat} {s : Sys} (hn : h[n]? = some s) {v : Nat}
    {st : NState} (hv : s.node v = some st) : c0 ≤ st.raft.raftLog.abs.snapIdx :=
  ((ghost_inv H n s hn).node v st hv).log.le

/-- what a commit event gives: the committing leader's state after the step -/
theorem Ev.facts (H : Hyp2w cfg c0 h) {E : Ev} (hE : E.ok h) :
    ∃ a b sta stb, h[E.nE]? = some a ∧ h[E.nE + 1]? = some b ∧ a.node E.l = some sta ∧
      b.node E.l = some stb ∧ stb.raft.state = .leader ∧ stb.raft.term = E.t ∧
      E.c = stb.raft.raftLog.committed ∧ E.gE = stb.raft.raftLog.abs ∧
      EvF h c0 E = FL h c0 stb ∧
      E.pE = stb.raft.raftLog.persisted ∧ sta.raft.raftLog.committed < E.c ∧ c0 < E.c ∧
      Has (EvF h c0 E) E.c E.t ∧ stb.raft.raftLog.abs.snapIdx < E.c ∧
      ∃ Q, IsJointQuorum cfg Q ∧ ∀ j ∈ Q, (j = E.l ∧ E.c ≤ E.pE) ∨ Anet a.net j E.t E.c := by
  obtain ⟨a, b, sta, stb, ha, hb, hla, hlb, hs, ht, hc, e1, e2, e3⟩ := hE
  obtain ⟨hterm, Q, hQ, hq⟩ := H.toHyp.commit_step E.nE a b ha hb E.l sta stb hla hlb hs hc
  have oa := node_ok H ha hla
  have ob := node_ok H hb hlb
  have Ib := (ghost_inv H (E.nE + 1) b hb).node E.l stb hlb
  have hc0 : c0 < E.c := by
    have := oa.snap_le
    have := c0_le_snap H ha hla
    omega
  -- the step keeps the snapshot point below the new commit index
  have hsb : stb.raft.raftLog.abs.snapIdx < E.c := by
    rw [e1]
    cases node_step H ha hb hla hlb with
    | same hl => rw [hl]; have := oa.snap_le; omega
    | grew es hg => rw [hg.abs]; have := oa.snap_le; show sta.raft.raftLog.abs.snapIdx < _; omega
    | acc m _ _ _ _ _ _ hsf _ => rw [hsf] at hs; cases hs
    | restart _ hsf _ => rw [hsf] at hs; cases hs
    | compacted k ho => rw [ho.committed] at hc; omega
    | restored m _ _ _ _ _ _ _ hsf _ => rw [hsf] at hs; cases hs
  have hev : EvF h c0 E = FL h c0 stb := by unfold EvF FL; rw [e2]
  refine ⟨a, b, sta, stb, ha, hb, hla, hlb, hs, ht, e1, e2, hev, e3, by rw [e1]; exact hc, hc0, ?_,
    hsb, Q, hQ, fun j hj => ?_⟩
  · -- the entry at the new commit index carries the leader's term
    rw [ob.inv.term_abs] at hterm
    have hle := ob.inv.committed_le_last
    rw [ob.inv.lastIndex_abs] at hle
    obtain ⟨e, he⟩ := stb.raft.raftLog.abs.entryAt_exists (i := stb.raft.raftLog.committed)
      (by rw [← e1]; exact hsb) hle
    rw [stb.raft.raftLog.abs.term_of_entry he] at hterm
    rw [hev, e1]
    exact ⟨e, Ib.log.entry he, by injection hterm with hterm; rw [hterm, ht]⟩
  · rw [e1, e3, ← ht]; exact hq j hj


end Snap5
end Cluster
end RaftModel
