import RaftProofs.ProtoDiscInv

/-!
`InvD` is preserved by every event of PD.
-/
namespace RaftModel.P

/-- an event of P that PD does not refine preserves the invariant -/
theorem invD_quiet (D : DSys) (b : PSys) (i : Nat) (hD : InvD D) (hL : InvL D.pc.base) (g : Grow D.pc.base b)
    (hq : Quiet D.pc.base b i) : InvD { D with pc := { D.pc with base := b } } := by
  refine invD_frame D _ hD i hq.oth (fun _ _ => rfl) (fun _ _ => rfl) ?_ (fun _ _ _ _ h => h) ?_ ?_ ?_ ?_ ?_ ?_ ?_
  · exact minv_keep hL g hD.m (fun m hm => by rw [← hq.ap]; exact hm)
  · exact Nat.le_trans (hD.appl i) hq.cm
  · rcases hq.lg with ⟨h1, _⟩ | ⟨_, h1⟩
    · show One (b.nodes i).log (b.nodes i).commit
      rw [h1]; exact (hD.v i).mono hq.cm
    · exact h1
  · intro im him
    rcases hq.pd im him with h1 | ⟨h1, h2⟩
    · exact hD.p i im h1
    · rw [h1, h2]; exact hD.v i
  · show One (b.nodes i).dlog (b.nodes i).dcommit
    rcases hq.du with ⟨h1, h2⟩ | ⟨im, him, h1, h2⟩ | h1
    · rw [h1, h2]; exact hD.d i
    · rw [h1, h2]; exact hD.p i im him
    · exact h1
  · intro hr
    show confCount (b.nodes i).log = confCount ((b.nodes i).log.take (D.pconf i)) ∧ D.pconf i ≤ (b.nodes i).log.length
    have hr' : (b.nodes i).role = 2 := hr
    rcases hq.lg with ⟨h1, h2 | ⟨h2, _⟩⟩ | ⟨h1, _⟩
    · omega
    · rw [h1]; exact hD.pc i (by rw [← h2]; exact hr')
    · omega
  · intro hr
    show One (b.nodes i).log (D.applied i)
    have hr' : (b.nodes i).role ≠ 0 := hr
    rcases hq.lg with ⟨h1, h2 | ⟨h2, _⟩⟩ | ⟨h1, _⟩
    · exact absurd h2 hr'
    · rw [h1]; exact hD.hup i (by rw [← h2]; exact hr')
    · exact absurd h1 hr'
  · intro hr
    show verMono D.pc (b.nodes i).term (confCount ((b.nodes i).log.take (D.applied i))) = true
    have hr' : (b.nodes i).role = 2 := hr
    rcases hq.lg with ⟨h1, h2 | ⟨h2, h3⟩⟩ | ⟨h1, _⟩
    · omega
    · rw [h1, h3]; exact hD.lver i (by rw [← h2]; exact hr')
    · omega

/-- the events of PC that PD does not refine -/
theorem invD_pc (D D' : DSys) (e : CEvent) (h : applyEventD D (.pc e) = .ok D') (hI : InvAll D.pc.base)
    (hD : InvD D) : InvD D' := by
  obtain ⟨hr, S, hS, hD'⟩ := stepD_pc h
  subst hD'
  cases e with
  | base e =>
    obtain ⟨hw, b, hb, hS'⟩ := baseC_ok hS
    subst hS'
    obtain ⟨i, hq⟩ := quiet_step _ _ e hb hr hw
    exact invD_quiet D b i hD hI.l (grow_step _ _ e hI.v hI.l hb) hq
  | cfgInit cfg =>
    simp only [applyEventC] at hS
    split at hS
    · cases hS
      exact invD_congr D _ hD rfl rfl rfl rfl rfl hD.m
    · cases hS
  | applyConf i idx cfg =>
    simp only [applyEventC] at hS
    split at hS
    · split at hS
      · split at hS
        · cases hS; exact hD
        · cases hS
      · split at hS
        · split at hS
          · cases hS
            exact invD_congr D _ hD rfl rfl rfl rfl rfl hD.m
          · cases hS
        · cases hS
    · cases hS
  | win i cfg q applied => simp [refined] at hr
  | commitLeader i c cfg q applied => simp [refined] at hr
  | resp i rid idx cfg applied => simp [refined] at hr
  | rstate j rid idx cfg applied => simp [refined] at hr

/-- `apply`: the application reports progress -/
theorem invD_apply (D D' : DSys) (i k : Nat) (h : applyEventD D (.apply i k) = .ok D') (hD : InvD D) : InvD D' := by
  obtain ⟨_, h1, h2, hD'⟩ := stepD_apply h
  subst hD'
  have e : updN D.applied i k i = k := by simp [updN]
  refine invD_frame D _ hD i (fun _ _ => rfl) (fun j hj => by simp [updN, hj]) (fun _ _ => rfl) hD.m
    (fun _ _ _ _ h => h) ?_ (hD.v i) (hD.p i) (hD.d i) (hD.pc i) ?_ ?_
  · show updN D.applied i k i ≤ _
    rw [e]; exact h2
  · intro hr
    show One _ (updN D.applied i k i)
    rw [e]; exact (hD.hup i hr).mono h1
  · intro hr
    show verMono D.pc _ (confCount (List.take (updN D.applied i k i) _)) = true
    rw [e]
    exact verMono_mono (hD.lver i hr) (confCount_take_mono _ h1)

/-- the read answers: only the read bookkeeping changes -/
theorem invD_read_like (D : DSys) (S : CSys) (e : Event) (hD : InvD D) (he : e.isRead = true)
    (hS : ∃ b, applyEvent D.pc.base e = .ok b ∧ S = { D.pc with base := b }) : InvD { D with pc := S } := by
  obtain ⟨b, hb, hS⟩ := hS
  subst hS
  cases e with
  | read r =>
    obtain ⟨rd, _, hs⟩ := read_apply hb
    subst hs
    exact invD_congr D _ hD rfl rfl rfl rfl rfl hD.m
  | _ => simp [Event.isRead] at he

theorem invD_resp (D D' : DSys) (i rid idx : Nat) (cfg : Cfg) (applied : Nat)
    (h : applyEventD D (.resp i rid idx cfg applied) = .ok D') (hD : InvD D) : InvD D' := by
  obtain ⟨_, S, hS, hD'⟩ := stepD_resp h
  subst hD'
  refine invD_read_like D S (.read (.resp i rid idx cfg)) hD rfl ?_
  simp only [applyEventC] at hS
  split at hS
  · split at hS
    · rename_i b hb; injection hS with hS; exact ⟨b, hb, hS.symm⟩
    · cases hS
  · cases hS

theorem invD_rstate (D D' : DSys) (j rid idx : Nat) (cfg : Cfg) (applied : Nat)
    (h : applyEventD D (.rstate j rid idx cfg applied) = .ok D') (hD : InvD D) : InvD D' := by
  obtain ⟨_, S, hS, hD'⟩ := stepD_rstate h
  subst hD'
  refine invD_read_like D S (.read (.rstate j rid idx cfg)) hD rfl ?_
  simp only [applyEventC] at hS
  split at hS
  · split at hS
    · rename_i b hb; injection hS with hS; exact ⟨b, hb, hS.symm⟩
    · cases hS
  · cases hS

/-- `restart`: the node resumes from its durable image, with an applied index not beyond the durable
commit index -/
theorem invD_restart (D D' : DSys) (i a : Nat) (h : applyEventD D (.restart i a) = .ok D') (hI : InvAll D.pc.base)
    (hD : InvD D) : InvD D' := by
  obtain ⟨ha, S, hS, hD'⟩ := stepD_restart h
  subst hD'
  obtain ⟨_, b, hb, hS'⟩ := baseC_ok hS
  subst hS'
  have g := grow_step _ _ _ hI.v hI.l hb
  simp only [applyEvent, ok] at hb
  split at hb
  · cases hb
    refine invD_frame_upd D _ hD i _ a (D.pconf i) rfl rfl (updN_self _ _).symm hD.m (fun _ _ _ _ h => h)
      ha (hD.d i) (fun im him => by simp at him) (hD.d i) (fun hr => by simp at hr) (fun hr => by simp at hr)
      (fun hr => by simp at hr)
  · cases hb

/-- `campaign` (`Raft::hup`): no membership-change entry in `(applied, committed]`, at most one beyond
the commit index — so at most one beyond the applied index -/
theorem invD_campaign (D D' : DSys) (i : Nat) (h : applyEventD D (.campaign i) = .ok D') (hD : InvD D) : InvD D' := by
  obtain ⟨_, hcc, S, hS, hD'⟩ := stepD_campaign h
  subst hD'
  obtain ⟨_, b, hb, hS'⟩ := baseC_ok hS
  subst hS'
  simp only [applyEvent, ok] at hb
  split at hb
  · cases hb
    refine invD_frame_upd D _ hD i _ (D.applied i) (D.pconf i) rfl (updN_self _ _).symm (updN_self _ _).symm hD.m
      (fun _ _ _ _ h => h) (hD.appl i) (hD.v i) (hD.p i) (hD.d i) (fun hr => by simp at hr) ?_
      (fun hr => by simp at hr)
    intro _
    have := hD.v i
    unfold One at this ⊢
    show confCount (D.pc.base.nodes i).log ≤ confCount ((D.pc.base.nodes i).log.take (D.applied i)) + 1
    omega
  · cases hb

/-- `sendApp`: a `MsgAppend` carries the leader's commit index, so the prefix it denotes holds at most
one membership-change entry beyond its commit field (the leader's own INV1) -/
theorem invD_sendApp (D D' : DSys) (i : Nat) (m : App) (h : applyEventD D (.sendApp i m) = .ok D')
    (hI : InvAll D.pc.base) (hD : InvD D) : InvD D' := by
  obtain ⟨hc, S, hS, hD'⟩ := stepD_sendApp h
  subst hD'
  obtain ⟨_, b, hb, hS'⟩ := baseC_ok hS
  subst hS'
  simp only [applyEvent, ok] at hb
  split at hb
  · rename_i hg
    cases hb
    refine invD_congr D _ hD rfl rfl rfl rfl rfl ?_
    intro m' hm'
    rcases List.mem_cons.1 hm' with hm' | hm'
    · subst hm'
      show One ((D.pc.base.llog m'.term).take (m'.prev + m'.es.length)) m'.commit
      rw [hg.2.2.1, ← hI.l.ll i hg.2.1, hc]
      exact (hD.v i).take _
    · exact hD.m m' hm'
  · cases hb

/-- `leaderAppend`: a membership-change entry is appended only when `pending_conf_index ≤ applied`,
i.e. when the log holds no membership-change entry beyond the applied index -/
theorem invD_leaderAppend (D D' : DSys) (i : Nat) (e : LEntry) (h : applyEventD D (.leaderAppend i e) = .ok D')
    (hI : InvAll D.pc.base) (hD : InvD D) : InvD D' := by
  obtain ⟨S, hS, hcase⟩ := stepD_leaderAppend h
  obtain ⟨_, b, hb, hS'⟩ := baseC_ok hS
  subst hS'
  have g := grow_step _ _ _ hI.v hI.l hb
  have hcl := commit_le_len hI.c.c3 i
  have happl := hD.appl i
  simp only [applyEvent, ok] at hb
  split at hb
  · rename_i hg
    cases hb
    have htc : ((D.pc.base.nodes i).log ++ [e]).take (D.pc.base.nodes i).commit =
        (D.pc.base.nodes i).log.take (D.pc.base.nodes i).commit := List.take_append_of_le_length hcl
    have hta : ((D.pc.base.nodes i).log ++ [e]).take (D.applied i) =
        (D.pc.base.nodes i).log.take (D.applied i) := List.take_append_of_le_length (by omega)
    obtain ⟨hp1, hp2⟩ := hD.pc i hg.2.1
    have hm := minv_keep hI.l g hD.m (fun m hm => hm)
    rcases hcase with ⟨hc, hpa, hD'⟩ | ⟨hc, hD'⟩
    · subst hD'
      have hca : confCount ((D.pc.base.nodes i).log.take (D.applied i)) = confCount (D.pc.base.nodes i).log :=
        confCount_take_ge hp1 hpa
      have hcc : confCount ((D.pc.base.nodes i).log.take (D.pc.base.nodes i).commit) =
          confCount (D.pc.base.nodes i).log := confCount_take_ge hp1 (by omega)
      refine invD_frame_upd D _ hD i _ (D.applied i) ((D.pc.base.nodes i).log.length + 1) rfl (updN_self _ _).symm rfl
        hm (fun _ _ _ _ h => h) happl ?_ (hD.p i) (hD.d i) ?_ ?_ ?_
      · show One ((D.pc.base.nodes i).log ++ [e]) (D.pc.base.nodes i).commit
        unfold One
        rw [htc, confCount_snoc, hc, hcc]
        simp
      · intro _
        show confCount ((D.pc.base.nodes i).log ++ [e]) =
          confCount (((D.pc.base.nodes i).log ++ [e]).take ((D.pc.base.nodes i).log.length + 1)) ∧
          (D.pc.base.nodes i).log.length + 1 ≤ ((D.pc.base.nodes i).log ++ [e]).length
        rw [List.take_of_length_le (by simp)]
        exact ⟨rfl, by simp⟩
      · intro _
        show One ((D.pc.base.nodes i).log ++ [e]) (D.applied i)
        unfold One
        rw [hta, confCount_snoc, hc, hca]
        simp
      · intro _
        show verMono D.pc (D.pc.base.nodes i).term
          (confCount (((D.pc.base.nodes i).log ++ [e]).take (D.applied i))) = true
        rw [hta]; exact hD.lver i hg.2.1
    · subst hD'
      have hcs : confCount ((D.pc.base.nodes i).log ++ [e]) = confCount (D.pc.base.nodes i).log := by
        rw [confCount_snoc, hc]; simp
      refine invD_frame_upd D _ hD i _ (D.applied i) (D.pconf i) rfl (updN_self _ _).symm (updN_self _ _).symm
        hm (fun _ _ _ _ h => h) happl ?_ (hD.p i) (hD.d i) ?_ ?_ ?_
      · show One ((D.pc.base.nodes i).log ++ [e]) (D.pc.base.nodes i).commit
        unfold One
        rw [htc, hcs]; exact hD.v i
      · intro _
        show confCount ((D.pc.base.nodes i).log ++ [e]) =
          confCount (((D.pc.base.nodes i).log ++ [e]).take (D.pconf i)) ∧
          D.pconf i ≤ ((D.pc.base.nodes i).log ++ [e]).length
        rw [List.take_append_of_le_length hp2, hcs]
        exact ⟨hp1, by simp; omega⟩
      · intro _
        show One ((D.pc.base.nodes i).log ++ [e]) (D.applied i)
        unfold One
        rw [hta, hcs]; exact hD.hup i (by rw [hg.2.1]; decide)
      · intro _
        show verMono D.pc (D.pc.base.nodes i).term
          (confCount (((D.pc.base.nodes i).log ++ [e]).take (D.applied i))) = true
        rw [hta]; exact hD.lver i hg.2.1
  · cases hb

/-- `win`: the winner's term is fresh, so no version is recorded for it yet; `pending_conf_index` is
set to the last index -/
theorem invD_win (D D' : DSys) (i : Nat) (cfg : Cfg) (q : List Nat) (applied : Nat)
    (h : applyEventD D (.win i cfg q applied) = .ok D') (hI : InvAll D.pc.base) (hC : InvCfg D.pc)
    (hD : InvD D) : InvD D' := by
  obtain ⟨happ, S, hS, hD'⟩ := stepD_win h
  subst hD'
  obtain ⟨_, hcore, hadj, hS'⟩ := (winC_split D.pc i cfg q applied S).1 hS
  subst hS'
  subst happ
  have hb := (win_split D.pc.base i cfg q _).2 ⟨hcore, hadj, rfl⟩
  have g := grow_step _ _ _ hI.v hI.l hb
  obtain ⟨hrole, hq, hall, _, _, _, hadj', _⟩ := win_guard hb
  have hf := win_fresh D.pc.base hI.v hI.l i cfg q hrole hq hall hadj'
  have hne : ∀ e ∈ D.pc.evs, e.1 ≠ (D.pc.base.nodes i).term := fun e he heq => hf (heq ▸ (hC.e2 e he).1)
  have hnc : ∀ p ∈ D.pc.cvs, p.1.1 ≠ (D.pc.base.nodes i).term :=
    fun p hp heq => hf (heq ▸ (hI.c.c3.cq p.1 (cvs_mem_cmts hC hp)).2.2.2.1)
  refine invD_frame_upd D _ hD i { D.pc.base.nodes i with role := 2 } (D.applied i) (D.pc.base.nodes i).log.length
    rfl (updN_self _ _).symm rfl (minv_keep hI.l g hD.m (fun m hm => hm)) ?_ (hD.appl i) (hD.v i) (hD.p i) (hD.d i)
    ?_ ?_ ?_
  · intro j _ hr x hx
    obtain ⟨h1, h2⟩ := verMono_unpack hx
    refine verMono_pack ⟨?_, h2⟩
    intro e he ht
    rcases List.mem_cons.1 he with he | he
    · exfalso
      subst he
      exact hf ⟨j, by rw [show (D.pc.base.nodes i).term = (D.pc.base.nodes j).term from ht]
                      exact (hI.v.ld j (by simpa [vsys, vproj] using hr)).1⟩
    · exact h1 e he ht
  · intro _
    exact ⟨by rw [List.take_length], Nat.le_refl _⟩
  · intro _
    exact hD.hup i (by rw [hrole]; decide)
  · intro _
    refine verMono_pack ⟨?_, ?_⟩
    · intro e he ht
      rcases List.mem_cons.1 he with he | he
      · subst he; exact Nat.le_refl _
      · exact absurd ht (hne e he)
    · intro p hp ht
      exact absurd ht (hnc p hp)

/-- `commitLeader`: the version recorded is the leader's current one; nobody else leads this term -/
theorem invD_commitLeader (D D' : DSys) (i c : Nat) (cfg : Cfg) (q : List Nat) (applied : Nat)
    (h : applyEventD D (.commitLeader i c cfg q applied) = .ok D') (hI : InvAll D.pc.base)
    (hD : InvD D) : InvD D' := by
  obtain ⟨happ, S, hS, hD'⟩ := stepD_commitLeader h
  subst hD'
  obtain ⟨_, hcore, _, hS'⟩ := (commitC_split D.pc i c cfg q applied S).1 hS
  subst hS'
  subst happ
  obtain ⟨_, hrole, hlt, _⟩ := commitCore_unpack hcore
  refine invD_frame_upd D _ hD i { D.pc.base.nodes i with commit := c } (D.applied i) (D.pconf i)
    rfl (updN_self _ _).symm (updN_self _ _).symm hD.m ?_ (Nat.le_trans (hD.appl i) (Nat.le_of_lt hlt))
    ((hD.v i).mono (Nat.le_of_lt hlt)) (hD.p i) (hD.d i) (hD.pc i) (hD.hup i) ?_
  · intro j hj hr x hx
    obtain ⟨h1, h2⟩ := verMono_unpack hx
    refine verMono_pack ⟨h1, ?_⟩
    intro p hp ht
    rcases List.mem_cons.1 hp with hp | hp
    · exfalso
      subst hp
      exact hj (leader_unique (vsys D.pc.base) hI.v i j (by simpa [vsys, vproj] using hrole)
        (by simpa [vsys, vproj] using hr) (by simpa [vsys, vproj] using ht.symm))
    · exact h2 p hp ht
  · intro hr
    obtain ⟨h1, h2⟩ := verMono_unpack (hD.lver i hr)
    refine verMono_pack ⟨h1, ?_⟩
    intro p hp ht
    rcases List.mem_cons.1 hp with hp | hp
    · subst hp; exact Nat.le_refl _
    · exact h2 p hp ht

theorem upd_upd (f : Nat → PNode) (i : Nat) (a b : PNode) : upd (upd f i a) i b = upd f i b := by
  funext j; by_cases hj : j = i <;> simp [upd, hj]

theorem One.min_len {l : List LEntry} {c K : Nat} (h : One l c) (hK : l.length ≤ K) : One l (min c K) := by
  by_cases hc : c ≤ K
  · rw [Nat.min_eq_left hc]; exact h
  · rw [Nat.min_eq_right (by omega)]; exact One.of_len hK

/-- `recvAppC` (`handle_append_entries`): the log is unchanged, or becomes the prefix of the leader's
log that the message denotes — which holds at most one membership-change entry beyond the commit
field (MINV) — and the commit index advances to `min(m.commit, last new index)` in the same call -/
theorem invD_recvAppC (D D' : DSys) (i : Nat) (m : App) (h : applyEventD D (.recvAppC i m) = .ok D')
    (hI : InvAll D.pc.base) (hD : InvD D) : InvD D' := by
  obtain ⟨S, hS, hcase⟩ := stepD_recvAppC h
  obtain ⟨_, b, hb, hS'⟩ := baseC_ok hS
  subst hS'
  simp only [applyEvent, ok] at hb
  split at hb
  · rename_i hg
    cases hb
    have hmem : m ∈ D.pc.base.apps := by simpa using hg.2.1
    have ok := hI.l.msg m hmem
    have hpflL : PFL D.pc.base.llog (D.pc.base.llog m.term) := hI.l.pfl _ (listsOf_llog _ _)
    have hpfl : PFL D.pc.base.llog (D.pc.base.nodes i).log := hI.l.pfl _ (listsOf_log _ i)
    have hanchor : (D.pc.base.nodes i).log.take m.prev = (D.pc.base.llog m.term).take m.prev :=
      anchor_take hpfl hpflL hg.2.2.2.2.1 (by have := ok.len; omega) (by rw [hg.2.2.2.2.2.1, ok.anchor])
    have hspec := mergeAt_spec D.pc.base.llog _ hpflL m.es (D.pc.base.nodes i).log m.prev hpfl hg.2.2.2.2.1
      hanchor ok.slice ok.len
    have hpre : One ((D.pc.base.llog m.term).take (m.prev + m.es.length)) (min m.commit (m.prev + m.es.length)) :=
      (hD.m m hmem).min_len (by rw [List.length_take]; omega)
    have hlog : ∀ c', (D.pc.base.nodes i).commit ≤ c' → min m.commit (m.prev + m.es.length) ≤ c' →
        One (mergeAt (D.pc.base.nodes i).log m.prev m.es) c' := by
      intro c' h1 h2
      rcases hspec with h3 | h3
      · rw [h3]; exact (hD.v i).mono h1
      · rw [h3]; exact hpre.mono h2
    rcases hcase with ⟨hlt, S2, hS2, hD'⟩ | ⟨hnlt, hD'⟩
    · subst hD'
      obtain ⟨_, b2, hb2, hS2'⟩ := baseC_ok hS2
      subst hS2'
      simp only [applyEvent] at hb2
      split at hb2
      · cases hb2
        have hlt' : (D.pc.base.nodes i).commit < min m.commit (m.prev + m.es.length) := by
          simpa [upd_same] using hlt
        refine invD_frame_upd D _ hD i _ (D.applied i) (D.pconf i)
          (by show upd (upd D.pc.base.nodes i _) i _ = _; rw [upd_upd]) (updN_self _ _).symm (updN_self _ _).symm
          hD.m (fun _ _ _ _ h => h) ?_ ?_ ?_ ?_ ?_ ?_ ?_
        · show D.applied i ≤ min m.commit (m.prev + m.es.length)
          exact Nat.le_trans (hD.appl i) (Nat.le_of_lt hlt')
        · simp only [upd_same]
          exact hlog _ (Nat.le_of_lt hlt') (Nat.le_refl _)
        · simp only [upd_same]; exact hD.p i
        · simp only [upd_same]; exact hD.d i
        · simp only [upd_same]; intro hr; simp at hr
        · simp only [upd_same]; intro hr; simp at hr
        · simp only [upd_same]; intro hr; simp at hr
      · cases hb2
    · subst hD'
      have hnlt' : min m.commit (m.prev + m.es.length) ≤ (D.pc.base.nodes i).commit := by
        have : ¬ (D.pc.base.nodes i).commit < min m.commit (m.prev + m.es.length) := by
          simpa [upd_same] using hnlt
        omega
      refine invD_frame_upd D _ hD i _ (D.applied i) (D.pconf i) rfl (updN_self _ _).symm (updN_self _ _).symm
        hD.m (fun _ _ _ _ h => h) (hD.appl i) (hlog _ (Nat.le_refl _) hnlt') (hD.p i) (hD.d i)
        (fun hr => by simp at hr) (fun hr => by simp at hr) (fun hr => by simp at hr)
  · cases hb

/-- **every event of PD preserves the invariant** -/
theorem invD_step (D D' : DSys) (e : DEvent) (h : applyEventD D e = .ok D') (hI : InvAll D.pc.base)
    (hC : InvCfg D.pc) (hD : InvD D) : InvD D' := by
  cases e with
  | pc e => exact invD_pc D D' e h hI hD
  | apply i k => exact invD_apply D D' i k h hD
  | restart i a => exact invD_restart D D' i a h hI hD
  | campaign i => exact invD_campaign D D' i h hD
  | win i cfg q applied => exact invD_win D D' i cfg q applied h hI hC hD
  | leaderAppend i e => exact invD_leaderAppend D D' i e h hI hD
  | sendApp i m => exact invD_sendApp D D' i m h hI hD
  | recvAppC i m => exact invD_recvAppC D D' i m h hI hD
  | commitLeader i c cfg q applied => exact invD_commitLeader D D' i c cfg q applied h hI hD
  | resp i rid idx cfg applied => exact invD_resp D D' i rid idx cfg applied h hD
  | rstate j rid idx cfg applied => exact invD_rstate D D' j rid idx cfg applied h hD

/-- **`InvD` holds in every reachable state of PD** -/
theorem invD_reach {D : DSys} (h : ReachPD D) : InvD D := by
  induction h with
  | init => exact invD_init
  | step e hr hs ih =>
    have hpc := reach_pc hr
    exact invD_step _ _ e hs (invAll_reachPC _ hpc) (invCfg_reach hpc) ih

end RaftModel.P
