import RaftProofs.ClusterCommit5B

/-! Commit layer without `batch_append = false`, part C: the generalised per-call relation `Gb` (copy of `ClusterCommitD/E/F`). -/
namespace RaftModel
namespace Raft
namespace CB
open CC

/-- a queued `MsgAppend` of the start queue that was batched onto during the call -/
def BkOK (a r : Raft) (x : Message) : Prop :=
  r.state = .leader ∧ x.commit ≤ r.raftLog.committed ∧ ∃ y ∈ a.msgs, BatOf y x

theorem BkOK.mono {a r r' : Raft} {x : Message} (h : BkOK a r x) (hs : r'.state = r.state)
    (hc : r.raftLog.committed ≤ r'.raftLog.committed) : BkOK a r' x :=
  ⟨hs.trans h.1, Nat.le_trans h.2.1 hc, h.2.2⟩

/-- as `CC.G`; a leader-side message may also be a batched version of a message of the start queue -/
structure Gb (A : Nat → Nat → Nat → Prop) (a : Raft) (m : Message) (r : Raft) : Prop where
  id : r.id = a.id
  mok : MOK A r
  lc : r.state = .leader → r.raftLog.committed = a.raftLog.committed ∨ LCok r
  qlk : ∀ x ∈ r.msgs, lkT x.msgType = true → x ∈ a.msgs ∨ LkOK A r x ∨ BkOK a r x
  qak : ∀ x ∈ r.msgs, isAck x → x ∈ a.msgs ∨ AkOK m r x
  qvk : ∀ x ∈ r.msgs, isVoteMsg x.msgType = true → x ∈ a.msgs ∨ VkOK r x
  qrq : ∀ x ∈ r.msgs, x.msgType = .msgRequestVote → x ∈ a.msgs ∨ RqOK r x

theorem Gb.start {A : Nat → Nat → Nat → Prop} {a : Raft} {m : Message} (hm : MOK A a) : Gb A a m a :=
  ⟨rfl, hm, fun _ => .inl rfl, fun _ h _ => .inl h, fun _ h _ => .inl h, fun _ h _ => .inl h,
    fun _ h _ => .inl h⟩

/-- with nothing queued, only the state clauses matter -/
theorem Gb.of_old {A : Nat → Nat → Nat → Prop} {a r : Raft} {m : Message} (ho : Old a r)
    (hid : r.id = a.id) (hm : MOK A r)
    (hl : r.state = .leader → r.raftLog.committed = a.raftLog.committed ∨ LCok r) : Gb A a m r :=
  ⟨hid, hm, hl, fun x h _ => .inl (ho x h), fun x h _ => .inl (ho x h), fun x h _ => .inl (ho x h),
    fun x h _ => .inl (ho x h)⟩

/-- a state that is not a leader satisfies the state clauses trivially -/
theorem Gb.of_old_nl {A : Nat → Nat → Nat → Prop} {a r : Raft} {m : Message} (ho : Old a r)
    (hid : r.id = a.id) (hs : r.state ≠ .leader) : Gb A a m r :=
  Gb.of_old ho hid ⟨fun h => absurd h hs⟩ (fun h => absurd h hs)

/-- the old relation is a special case -/
theorem Gb.of_g {A : Nat → Nat → Nat → Prop} {a r : Raft} {m : Message} (h : G A a m r) : Gb A a m r :=
  ⟨h.id, h.mok, h.lc, fun x hx hty => (h.qlk x hx hty).imp (fun g => g) (fun g => .inl g), h.qak, h.qvk,
    h.qrq⟩

/-- a batched message is a `MsgAppend`: neither an ack, nor a vote message -/
theorem BatOf.not_ack {y x : Message} (h : BatOf y x) : ¬ isAck x := by
  intro hc; have := h.msgType; rw [hc.1] at this; cases this
theorem BatOf.not_vote {y x : Message} (h : BatOf y x) : isVoteMsg x.msgType ≠ true := by
  rw [h.msgType]; decide
theorem BatOf.not_rq {y x : Message} (h : BatOf y x) : x.msgType ≠ .msgRequestVote := by
  rw [h.msgType]; decide

/-- **lifting a sending helper**: on a leader, or when nothing new was queued -/
theorem Gb.sf {A : Nat → Nat → Nat → Prop} {a r r' : Raft} {m : Message}
    (hA : ∀ j t x y, y ≤ x → A j t x → A j t y)
    (h0 : Gb A a m r) (h1 : SFb r r')
    (hl : r.state = .leader ∨ ∀ x ∈ r'.msgs, x ∈ r.msgs) : Gb A a m r' := by
  have hc := h1.core
  have e1 : r'.state = r.state := h1.state
  have e3 : r'.id = r.id := h1.id
  have e4 : r'.raftLog.committed = r.raftLog.committed := h1.committed
  have e5 : r'.term = r.term := h1.term
  have e6 : r'.raftLog.term = r.raftLog.term := h1.tm
  -- a message of the old queue, a `Sent` one, or a batched version of one of the old queue
  have hq : ∀ x ∈ r'.msgs, x ∈ r.msgs ∨ (r.state = .leader ∧ Sent (score r) x) ∨
      (r.state = .leader ∧ ∃ y ∈ r.msgs, BatOf y x ∧ x.commit = r.raftLog.committed) := by
    intro x hx
    rcases hl with hl | hl
    · rcases h1.q x hx with g | g | g
      · exact .inl g
      · exact .inr (.inl ⟨hl, g⟩)
      · exact .inr (.inr ⟨hl, g⟩)
    · exact .inl (hl x hx)
  refine ⟨e3.trans h0.id, h0.mok.of_core hc, fun hs => ?_, ?_, ?_, ?_, ?_⟩
  · rw [e1] at hs
    rcases h0.lc hs with g | g
    · left; rw [e4]; exact g
    · right; exact g.of_core hc
  · intro x hx hty
    have hold : ∀ y ∈ r.msgs, lkT y.msgType = true → y ∈ a.msgs ∨ LkOK A r' y ∨ BkOK a r' y := by
      intro y hy hty
      rcases h0.qlk y hy hty with g2 | g2 | g2
      · exact .inl g2
      · right; left
        exact ⟨e1.trans g2.lead, g2.term.trans e5.symm, g2.frm.trans e3.symm,
          fun hh => by rw [e4, e6]; exact g2.app hh, fun hh => by rw [e4, e5]; exact g2.hb hh⟩
      · exact .inr (.inr (g2.mono e1 (Nat.le_of_eq e4.symm)))
    rcases hq x hx with g | ⟨hs, g⟩ | ⟨hs, y, hy, hb, hcm⟩
    · exact hold x g hty
    · right; left
      refine ⟨e1.trans hs, g.term.trans e5.symm, g.frm.trans e3.symm,
        fun hh => by rw [e4, e6, (g.app hh).1]; exact ⟨Nat.le_refl _, (g.app hh).2⟩, fun hh => ?_⟩
      obtain ⟨c1, mv, c2, c3, c4⟩ := g.hb hh
      rw [e4, e5]
      refine ⟨c1, ?_⟩
      rcases h0.mok.h hs x.to mv c2 with d | ⟨d, _⟩ | d
      · left; omega
      · exact absurd d c4
      · right; exact hA _ _ _ _ c3 d
    · have hcm' : x.commit ≤ r'.raftLog.committed := by rw [e4, hcm]; exact Nat.le_refl _
      rcases hold y hy (by rw [hb.src]; rfl) with g2 | g2 | g2
      · exact .inr (.inr ⟨e1.trans hs, hcm', y, g2, hb⟩)
      · right; left
        refine ⟨g2.lead, hb.term.trans g2.term, hb.frm.trans g2.frm, fun _ => ?_, fun hh => ?_⟩
        · rw [hb.index, hb.logTerm]; exact ⟨hcm', (g2.app hb.src).2⟩
        · rw [hb.msgType] at hh; cases hh
      · obtain ⟨_, _, z, hz, hb2⟩ := g2
        exact .inr (.inr ⟨e1.trans hs, hcm', z, hz, hb2.trans hb⟩)
  · intro x hx hty
    rcases hq x hx with g | ⟨_, g⟩ | ⟨_, y, _, hb, _⟩
    · rcases h0.qak x g hty with g2 | g2
      · exact .inl g2
      · right
        refine ⟨g2.term.trans e5.symm, g2.frm.trans e3.symm, ?_⟩
        rw [e1, e4]; exact g2.src
    · have := g.ty; rw [hty.1] at this; cases this
    · exact absurd hty hb.not_ack
  · intro x hx hty
    rcases hq x hx with g | ⟨_, g⟩ | ⟨_, y, _, hb, _⟩
    · rcases h0.qvk x g hty with g2 | g2
      · exact .inl g2
      · right; unfold VkOK at *; rw [e4, e6, e5]; exact g2
    · have := g.ty
      cases hm : x.msgType <;> rw [hm] at this hty <;> first | (cases this; done) | (cases hty; done)
    · exact absurd hty hb.not_vote
  · intro x hx hty
    rcases hq x hx with g | ⟨_, g⟩ | ⟨_, y, _, hb, _⟩
    · rcases h0.qrq x g hty with g2 | g2
      · exact .inl g2
      · right
        exact ⟨g2.term.trans e5.symm, g2.last.trans h1.last.symm, h1.lterm.trans g2.lt⟩
    · have := g.ty; rw [hty] at this; cases this
    · exact absurd hty hb.not_rq

/-- any structure update that keeps `id`, `state`, `term`, `raftLog`, `prs` and `msgs` keeps `Gb` -/
theorem Gb.mk' {A : Nat → Nat → Nat → Prop} {a r : Raft} {m : Message} {x2 : Nat}
    {x4 : List ReadState} {x6 x7 x8 : Nat}
    {x10 : Bool} {x11 : Nat}
    {x12 : Option Nat} {x13 : Nat} {x14 : ReadOnly} {x15 x16 : Nat} {x17 x18 x19 x20 x21 : Bool}
    {x22 x23 x24 x25 x26 : Nat} {x27 : Int} {x28 : UncommittedState} {x29 : Nat}
    {x32 : Option Nat} (h0 : Gb A a m r) :
    Gb A a m {term := r.term, vote := x2, id := r.id, readStates := x4, raftLog := r.raftLog,
              maxInflight := x6, maxMsgSize := x7, pendingRequestSnapshot := x8, state := r.state,
              promotable := x10, leaderId := x11, leadTransferee := x12,
              pendingConfIndex := x13, readOnly := x14, electionElapsed := x15,
              heartbeatElapsed := x16, checkQuorum := x17, preVote := x18,
              skipBcastCommit := x19, batchAppend := x20, disableProposalForwarding := x21,
              heartbeatTimeout := x22, electionTimeout := x23, randomizedElectionTimeout := x24,
              minElectionTimeout := x25, maxElectionTimeout := x26, priority := x27,
              uncommittedState := x28, maxCommittedSizePerReady := x29, prs := r.prs,
              msgs := r.msgs, nextRand := x32 } :=
  ⟨h0.id, ⟨h0.mok.h⟩, h0.lc, fun x hx hty => (h0.qlk x hx hty).imp (fun g0 => g0)
      (fun g => g.imp (fun g => ⟨g.lead, g.term, g.frm, g.app, g.hb⟩) (fun g => ⟨g.1, g.2.1, g.2.2⟩)),
    fun x hx hty => (h0.qak x hx hty).imp (fun g0 => g0) (fun g => ⟨g.term, g.frm, g.src⟩),
    h0.qvk, fun x hx hty => (h0.qrq x hx hty).imp (fun g0 => g0) (fun g => ⟨g.term, g.last, g.lt⟩)⟩
theorem becomeFollower_gb {A : Nat → Nat → Nat → Prop} {a r : Raft} {m : Message} (t l : Nat)
    (h0 : Gb A a m r) (ho : Old a r) : Gb A a m (r.becomeFollower t l) :=
  Gb.of_old_nl (ho.becomeFollower t l) ((becomeFollower_id r t l).trans h0.id)
    (by rw [(RaftProps.C16.becomeFollower_proj r t l).1]; intro hc; cases hc)

theorem becomeCandidate_gb {A : Nat → Nat → Nat → Prop} {a r r' : Raft} {m : Message}
    (h : r.becomeCandidate = .ok r') (h0 : Gb A a m r) (ho : Old a r) :
    Gb A a m r' ∧ Old a r' := by
  unfold Raft.becomeCandidate at h
  split at h
  · cases h
  · split at h
    · cases h
    · cases h
      have ho' : Old a (r.reset (r.term + 1)) := ho.reset _
      exact ⟨Gb.of_old_nl (Old.mk' ho') ((reset_id r _).trans h0.id) (by intro hc; cases hc), Old.mk' ho'⟩

theorem becomePreCandidate_gb {A : Nat → Nat → Nat → Prop} {a r r' : Raft} {m : Message}
    (h : r.becomePreCandidate = .ok r') (h0 : Gb A a m r) (ho : Old a r) :
    Gb A a m r' ∧ Old a r' := by
  unfold Raft.becomePreCandidate at h
  split at h
  · cases h
  · cases h
    exact ⟨Gb.of_old_nl (Old.mk' ho) h0.id (by intro hc; cases hc), Old.mk' ho⟩

/-- `append_entry` with nothing queued yet and the commit index still the one of the start -/
theorem appendEntry_gb {A : Nat → Nat → Nat → Prop} {a r r' : Raft} {m : Message} {es : List Entry}
    {b : Bool} (h : r.appendEntry es = .ok (r', b)) (h0 : Gb A a m r) (ho : Old a r)
    (hcm : r.raftLog.committed = a.raftLog.committed) :
    Gb A a m r' ∧ Old a r' ∧ r'.raftLog.committed = a.raftLog.committed := by
  obtain ⟨e1, e2, e3, e4, e5⟩ := appendEntry_spec h
  obtain ⟨e6, _, _⟩ := appendEntry_fields h
  have e7 := appendEntry_persisted h
  have ho' : Old a r' := by unfold Old; rw [e6]; exact ho
  refine ⟨Gb.of_old ho' (e3.trans h0.id) ⟨?_⟩ (fun _ => .inl (e1.trans hcm)), ho', e1.trans hcm⟩
  rw [e5, e2, e3, e7, e4]
  exact h0.mok.h

theorem becomeLeader_gb {A : Nat → Nat → Nat → Prop} {a r r' : Raft} {m : Message}
    (h : r.becomeLeader = .ok r') (h0 : Gb A a m r) (ho : Old a r)
    (hcm : r.raftLog.committed = a.raftLog.committed) :
    Gb A a m r' ∧ Old a r' ∧ r'.raftLog.committed = a.raftLog.committed ∧ r'.state = .leader := by
  unfold Raft.becomeLeader at h
  split at h
  · cases h
  · simp only [] at h
    split at h
    · cases h
    · split at h
      · cases h
      · rename_i pr hg
        split at h
        · rename_i r2 ha
          cases h
          obtain ⟨e1, e2, e3, e4, e5⟩ := appendEntry_spec ha
          obtain ⟨e6, _, _⟩ := appendEntry_fields ha
          have e7 := appendEntry_persisted ha
          have ho' : Old a r' := by
            unfold Old; rw [e6]; exact ho.reset r.term
          have hcm' : r'.raftLog.committed = a.raftLog.committed := by
            rw [e1]
            show (r.reset r.term).raftLog.committed = _
            rw [reset_raftLog]; exact hcm
          have hid : r'.id = r.id := by rw [e3]; exact reset_id r r.term
          refine ⟨Gb.of_old ho' (hid.trans h0.id) ⟨fun _ j x hx => ?_⟩ (fun _ => .inl hcm'), ho', hcm',
            e5⟩
          rw [e2] at hx
          have hm : mfun ((r.reset r.term).prs.set (r.reset r.term).id pr.becomeReplicate) =
              mfun (r.reset r.term).prs :=
            mfun_set _ _ _ (fun old ho => by
              have : (r.reset r.term).prs.get (r.reset r.term).id = some pr := hg
              rw [this] at ho; cases ho; rfl)
          have hx' : mfun (r.reset r.term).prs j = some x := by rw [← hm]; exact hx
          rcases reset_mfun r r.term j x hx' with g | ⟨g1, g2⟩
          · exact .inl g
          · right; left
            refine ⟨g1.trans hid.symm, ?_⟩
            rw [e7]
            show x ≤ (r.reset r.term).raftLog.persisted
            rw [reset_raftLog]; exact Nat.le_of_eq g2
        · cases h
        · cases h
        · cases h

/-- the commit index moves up (and nothing else of the log): `commit_to` / `maybe_commit` -/
theorem Gb.commitUp {A : Nat → Nat → Nat → Prop} {a r r' : Raft} {m : Message} {c : Nat}
    (h0 : Gb A a m r) (hid : r'.id = r.id) (hs : r'.state = r.state) (ht : r'.term = r.term)
    (hp : mfun r'.prs = mfun r.prs) (hq : r'.msgs = r.msgs)
    (hl : r'.raftLog = { r.raftLog with committed := c }) (hc : r.raftLog.committed ≤ c)
    (hlc : r'.state = .leader → LCok r') : Gb A a m r' := by
  have e4 : r'.raftLog.committed = c := by rw [hl]
  have e6 : r'.raftLog.term = r.raftLog.term := by rw [hl]; rfl
  have e7 : r'.raftLog.persisted = r.raftLog.persisted := by rw [hl]
  have e8 : r'.raftLog.lastIndex = r.raftLog.lastIndex := by rw [hl]; rfl
  have e9 : r'.raftLog.lastTerm = r.raftLog.lastTerm := by rw [hl]; rfl
  refine ⟨hid.trans h0.id, ⟨?_⟩, fun h => .inr (hlc h), ?_, ?_, ?_, ?_⟩
  · rw [hs, hp, hid, e7, ht]; exact h0.mok.h
  · intro x hx hty
    rw [hq] at hx
    rcases h0.qlk x hx hty with g | g | g
    · exact .inl g
    · right; left
      exact ⟨hs.trans g.lead, g.term.trans ht.symm, g.frm.trans hid.symm,
        fun hh => by rw [e4, e6]; exact ⟨Nat.le_trans (g.app hh).1 hc, (g.app hh).2⟩,
        fun hh => by rw [e4, ht]; exact ⟨Nat.le_trans (g.hb hh).1 hc, (g.hb hh).2⟩⟩
    · exact .inr (.inr (g.mono hs (by rw [e4]; exact hc)))
  · intro x hx hty
    rw [hq] at hx
    rcases h0.qak x hx hty with g | g
    · exact .inl g
    · right
      refine ⟨g.term.trans ht.symm, g.frm.trans hid.symm, ?_⟩
      rcases g.src with d | ⟨d1, d2, d3, d4⟩
      · exact .inl d
      · right
        refine ⟨hs.trans d1, d2, d3, ?_⟩
        rcases d4 with d | d
        · left; rw [e4]; omega
        · exact .inr d
  · intro x hx hty
    rw [hq] at hx
    rcases h0.qvk x hx hty with g | g
    · exact .inl g
    · right
      unfold VkOK at *
      rcases g with g | ⟨g1, g2⟩
      · exact .inl g
      · right; rw [e4, e6, ht]; exact ⟨by omega, g2⟩
  · intro x hx hty
    rw [hq] at hx
    rcases h0.qrq x hx hty with g | g
    · exact .inl g
    · right; exact ⟨g.term.trans ht.symm, g.last.trans e8.symm, e9.trans g.lt⟩

theorem maybeCommit_gb {A : Nat → Nat → Nat → Prop} {a r r' : Raft} {m : Message} {b : Bool}
    (h : r.maybeCommit = .ok (r', b)) (h0 : Gb A a m r) : Gb A a m r' := by
  cases b with
  | false =>
    obtain ⟨mci, gc, _, hh | hh⟩ := maybeCommit_spec h
    · cases hh.1
    · rw [hh.2]; exact h0
  | true =>
    obtain ⟨mci, gc, hm, e1, e2, e3, e4, _, ⟨Q, hQ, hQm⟩, e5, e6⟩ :=
      RaftProps.C04.C04_leader_commit_rule r r' h
    have hshape : r' = ({ r with raftLog := { r.raftLog with committed := mci } } : Raft).modifyProgress
        r.id (fun pr => pr.updateCommitted mci) := by
      unfold Raft.maybeCommit at h
      rw [hm] at h
      simp only [] at h
      split at h
      · cases h
      · cases h
      · rename_i log hl
        cases h
        have : log = { r.raftLog with committed := mci } := by
          have := e5
          simp only [modifyProgress] at this
          exact this
        subst this
        rfl
      · cases h
    have hp : mfun r'.prs = mfun r.prs := by
      rw [hshape]
      exact mfun_modifyProgress _ _ _ (fun pr => updateCommitted_matched pr mci)
    have hv : r'.prs.voters = r.prs.voters := by rw [hshape]; rfl
    refine h0.commitUp (by rw [hshape]; rfl) (by rw [hshape]; rfl) e6 hp (by rw [hshape]; rfl) e5
      (Nat.le_of_lt e2) (fun _ => ?_)
    refine ⟨⟨Q, by rw [hv]; exact hQ, fun v hv' => ?_⟩, ?_⟩
    · obtain ⟨pr, hg, hle⟩ := hQm v hv'
      refine ⟨pr.matched, ?_, by rw [e1]; exact hle⟩
      rw [hp]; exact mfun_of_get hg
    · rw [e1, e6, e5]
      exact e4

end CB
end Raft
end RaftModel
