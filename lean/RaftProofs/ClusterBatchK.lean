import RaftProofs.ClusterBatchH
import RaftProps.C02c

/-!
Cluster-level Log Matching **with `batch_append`**, part K: the cluster side.

* `prov_node_b`: the provenance of all chains after a call whose effect is an `EffB` (a glued
  `MsgAppend` takes its links from the queued message and from the log);
* `InvB`: the two queue invariants that make batching harmless —
  `lc`: **a leader's queue is clean** (every queued `MsgAppend` is gap-free and tail-compatible with the
  leader's log, or anchored in the void), and
  `dq`: **a candidate whose vote request for its term is in the transport has no `MsgAppend` queued**
  (the `send` step that released the request drained the queue, and a candidate queues none);
* `Prov0` from them: a node that wins an election by somebody else's vote (a cluster with two voters:
  `MultiVoter`) has sent its request (`Inv1` / `Inv2` of Election Safety), so it wins with a queue that
  holds no `MsgAppend` of an earlier leadership;
* `invLB_all`: `InvL ∧ InvB` along a history, with no hypothesis on `batch_append`, under
  `MultiVoter` and `SaneAnchors` (no queued `MsgAppend` is anchored at a position `≠ 0` with term 0).
-/
namespace RaftModel
namespace Cluster
open Node Raft Raft.Bt Raft.CV

/-- **no append anchored in the void**: no queued `MsgAppend` carries `log_term = 0` at an anchor
`index ≠ 0`.  (`RaftLog::term` answers 0 for every index outside the log, so this is what
`prepare_send_entries` builds exactly when `next_idx - 1` lies beyond the sender's last index.) -/
def SaneAnchors (s : Sys) : Prop :=
  ∀ i st, s.node i = some st → ∀ x ∈ st.raft.msgs, x.msgType = .msgAppend →
    x.logTerm = 0 → x.index = 0

theorem SaneAnchors.notWeird {s : Sys} (h : SaneAnchors s) {i : Nat} {st : NState} {x : Message}
    (hi : s.node i = some st) (hx : x ∈ st.raft.msgs) (hty : x.msgType = .msgAppend) :
    ¬ Weird (msgLog x) := by
  intro hw
  obtain ⟨h1, h2⟩ := hw
  have h3 : x.logTerm = 0 := Option.some.inj h1
  exact h2 (h i st hi x hx hty h3)

/-- the configuration has two different voters (so nobody's own vote is a quorum) -/
def MultiVoter (cfg : JointConfig) : Prop :=
  ∃ a b, a ≠ b ∧ Joint.contains cfg a = true ∧ Joint.contains cfg b = true

/-- the queue invariants -/
structure InvB (s : Sys) : Prop where
  lc : ∀ k st, s.node k = some st → st.raft.state = .leader →
    CleanQ st.raft.msgs st.raft.raftLog.abs
  dq : ∀ k st, s.node k = some st → st.raft.state = .candidate → Req s.net k st.raft.term →
    ∀ x ∈ st.raft.msgs, x.msgType ≠ .msgAppend

/-! ### provenance -/

/-- **provenance for a call / a delivery at node `k`**, batching on or off -/
theorem prov_node_b {s : Sys} {k : Nat} {st st' : NState} {m : Message}
    (hk : s.node k = some st) (heff : EffB st.raft st'.raft m)
    (hm : m.msgType = .msgAppend → m ∈ s.net)
    (hsane : ∀ x ∈ st'.raft.msgs, x.msgType = .msgAppend → ¬ Weird (msgLog x)) :
    Prov s (s.setNode k st') k st st' (st'.raft.raftLog.store.hardState.term = st'.raft.term) := by
  have hoth : ∀ j, j ≠ k → (s.setNode k st').node j = s.node j :=
    fun j hj => node_setNode_ne s k j st' hj
  have hself : (s.setNode k st').node k = some st' := node_setNode_self s k st'
  have hatL : At s (.log k) st.raft.raftLog.abs := ⟨st, hk, rfl⟩
  -- the links of the new logical log: `prov_log` reads only the `log` clause of the effect
  have plog : ∀ (i : Nat) (e : Entry), st'.raft.raftLog.abs.entryAt i = some e →
      (∃ loc g, At s loc g ∧ g.entryAt i = some e ∧
        (∀ p, st'.raft.raftLog.abs.prevTerm i = some p → g.prevTerm i = some p) ∧
        (OfK k loc ∨ loc = .net) ∧ (Vol k loc → loc = .log k)) ∨
      (st'.raft.state = .leader ∧ e.term = st'.raft.term ∧ st.raft.raftLog.lastIndex < i) := by
    intro i e he
    rcases heff.log with c | ⟨es, c⟩ | ⟨c1, _, c3⟩
    · obtain ⟨h1, h2⟩ := c i e he
      exact .inl ⟨.log k, _, hatL, h1, h2, .inl rfl, fun _ => rfl⟩
    · have hla : st.raft.raftLog.lastIndex = st.raft.raftLog.abs.lastIndex := by
        have hls := c.last
        have hl' := c.inv.lastIndex_abs
        rw [c.abs] at hl'
        simp only [LLog.lastIndex, List.length_append] at hl' ⊢
        omega
      rcases Nat.lt_or_ge st.raft.raftLog.lastIndex i with hlt | hge
      · right
        refine ⟨c.leader, ?_, hlt⟩
        rw [c.abs, LLog.append_entryAt_new _ _ _ (by omega)] at he
        exact c.terms e (List.mem_of_getElem? he)
      · left
        obtain ⟨h1, h2⟩ := LLog.append_old_link st.raft.raftLog.abs es i (by omega)
        rw [c.abs, h1] at he
        refine ⟨.log k, _, hatL, he, ?_, .inl rfl, fun _ => rfl⟩
        intro p hp
        rw [c.abs, h2] at hp
        exact hp
    · obtain ⟨g, hg, h1, h2⟩ := c3 i e he
      rcases hg with hg | hg
      · subst hg
        exact .inl ⟨.log k, _, hatL, h1, h2, .inl rfl, fun _ => rfl⟩
      · subst hg
        exact .inl ⟨.net, _, ⟨m, hm c1, c1, rfl⟩, h1, h2, .inr rfl, fun hv => (by cases hv)⟩
  have viaLog : ∀ (loc' : Loc) (g' : LLog) (i : Nat) (e : Entry), Vol k loc' →
      st'.raft.raftLog.abs.entryAt i = some e →
      (∀ p, g'.prevTerm i = some p → st'.raft.raftLog.abs.prevTerm i = some p) →
      (∃ loc g, At s loc g ∧ g.entryAt i = some e ∧
        (∀ p, g'.prevTerm i = some p → g.prevTerm i = some p) ∧
        (loc = loc' ∨ OfK k loc ∨ loc = .net) ∧
        (Vol k loc → Vol k loc' ∨ st'.raft.raftLog.store.hardState.term = st'.raft.term)) ∨
      (Vol k loc' ∧ st'.raft.state = .leader ∧ e.term = st'.raft.term ∧
        st.raft.raftLog.lastIndex < i ∧ st'.raft.raftLog.abs.entryAt i = some e ∧
        ∀ p, g'.prevTerm i = some p → st'.raft.raftLog.abs.prevTerm i = some p) := by
    intro loc' g' i e hv he hp
    rcases plog i e he with ⟨loc, g, h1, h2, h3, h4, _⟩ | ⟨h1, h2, h3⟩
    · exact .inl ⟨loc, g, h1, h2, fun p hpp => h3 p (hp p hpp), .inr h4, fun _ => .inl hv⟩
    · exact .inr ⟨hv, h1, h2, h3, he, hp⟩
  intro loc' g' hat i e he
  by_cases hof : OfK k loc'
  · cases loc' with
    | log j =>
      have hj : j = k := hof
      subst hj
      obtain ⟨st2, h1, h2⟩ := hat
      rw [hself] at h1
      cases h1
      subst h2
      exact viaLog _ _ i e rfl he (fun _ hp => hp)
    | store j =>
      have hj : j = k := hof
      subst hj
      obtain ⟨st2, h1, h2⟩ := hat
      rw [hself] at h1
      cases h1
      subst h2
      rcases heff.sto with c | ⟨c, c2⟩
      · obtain ⟨e1, e2⟩ := c i e he
        exact .inl ⟨.store j, _, ⟨st, hk, rfl⟩, e1, e2, .inl rfl, fun hv => (by cases hv)⟩
      · obtain ⟨e1, e2⟩ := c i e he
        exact .inl ⟨.log j, _, hatL, e1, e2, .inr (.inl rfl), fun _ => .inr c2⟩
    | queue j =>
      have hj : j = k := hof
      subst hj
      obtain ⟨st2, x, h1, hx, hty, h2⟩ := hat
      rw [hself] at h1
      cases h1
      subst h2
      rcases heff.q x hx hty with ⟨x0, hx0, hty0, e0⟩ | ⟨_, c | c⟩
      · -- the chain of a message that was queued before
        rw [← e0] at he
        exact .inl ⟨.queue j, _, ⟨st, x0, hk, hx0, hty0, rfl⟩, he,
          fun p hp => (by rw [← e0] at hp; exact hp), .inl rfl, fun hv => .inl hv⟩
      · -- made in this call: a link of the new log, or of a message that was queued before
        obtain ⟨y, hy, e1, e2⟩ := c.der i e he
        rcases hy with rfl | ⟨⟨x0, hx0, hty0, rfl⟩, _⟩
        · exact viaLog _ _ i e rfl e1 e2
        · exact .inl ⟨.queue j, _, ⟨st, x0, hk, hx0, hty0, rfl⟩, e1, e2, .inl rfl,
            fun hv => .inl hv⟩
      · exact absurd c (hsane x hx hty)
    | net => exact absurd hof (by intro h; cases h)
  · by_cases hn : loc' = .net
    · subst hn
      exact prov_same (k := k) (st := st) (st' := st') (by exact hat) he
    · exact prov_same (at_other hoth hof hn hat) he

/-- the transition of a call / a delivery whose effect is known -/
theorem trans_call_b {own : Nat → Nat → Prop} {ini : Entry → Prop} {s : Sys} (I : InvL own ini s)
    {k : Nat} {st st' : NState} {rnd : Option Nat} {op : NodeOp} {res : OpRes}
    (hk : s.node k = some st)
    (hop : appOp op = true ∨ ∃ m, op = .step m ∧ m ∈ s.net)
    (h : Node.call st rnd op = .ok (res, st'))
    (hL : LStepB st.raft st'.raft (CV.opMsg op))
    (hsane : ∀ x ∈ st'.raft.msgs, x.msgType = .msgAppend → ¬ Weird (msgLog x)) :
    Trans s (s.setNode k st') k st st'
      (st'.raft.raftLog.store.hardState.term = st'.raft.term) False := by
  have hN := CV.call_nstep st st' rnd op res h
  have hm : (CV.opMsg op).msgType = .msgAppend → CV.opMsg op ∈ s.net := by
    intro hty
    rcases hop with h1 | ⟨m, h1, h2⟩
    · cases op <;> first | (cases h1; done) | (cases hty; done)
    · rw [h1]; exact h2
  refine ⟨hk, node_setNode_self s k st', fun j hj => node_setNode_ne s k j st' hj,
    prov_node_b hk hL.eff hm hsane, fun hp => Nat.le_of_eq hp.symm, .inl ⟨hL.rt, fun hc => hc⟩,
    fun hc => hc.elim, hN.hs, fun h1 h2 h3 => (hL.eff.keep h1 h2 h3).1, hL.eff.inv, ?_,
    fun x hx => .inl hx⟩
  intro x hx hty
  rcases hL.eff.q x hx hty with ⟨x0, hx0, hty0, e0⟩ | ⟨_, c | c⟩
  · have := I.wfq k st x0 hk hx0 hty0
    have h2 : (msgLog x0).Contig := this
    rw [e0] at h2
    exact h2
  · exact c.contig
  · exact absurd c (hsane x hx hty)

/-! ### who wins an election has sent its request -/

/-- a vote request of `k` for term `t` in the transport: `k`'s term is at least `t` -/
private theorem req_term_le {s : Sys} (I1 : Inv1 s) {k t : Nat} {st : NState} (hk : s.node k = some st)
    (hr : Req s.net k t) : t ≤ st.raft.term := by
  obtain ⟨q, hq, hqt, hqf, hqterm⟩ := hr
  have hrv : isRVm q = true := by unfold isRVm; simp [hqt]
  obtain ⟨stk, hnk, hok, _⟩ := I1.net q hq hrv
  rw [hqf, hk] at hnk
  cases hnk
  have := hok.2.2.2.1
  unfold Ge at this
  rw [hqterm] at this
  rcases this with c | ⟨c, _⟩ <;> omega

/-- in a cluster with two voters, a leader's vote request for its term is in the transport -/
theorem leader_req {cfg : JointConfig} (hnd1 : cfg.incoming.Nodup) (hnd2 : cfg.outgoing.Nodup)
    (hmv : MultiVoter cfg) {s : Sys} (I1 : Inv1 s) (I2 : Inv2 cfg s) {k : Nat} {st : NState}
    (hk : s.node k = some st) (hl : st.raft.state = .leader) : Req s.net k st.raft.term := by
  obtain ⟨Q, hq, hQ⟩ := I2.lead k st hk hl
  by_cases hlone : ∀ j ∈ Q, j = k
  · obtain ⟨a, b, hab, ha, hb⟩ := hmv
    have e1 := RaftProps.C02.lone_joint_quorum_only_voter cfg Q k a hnd1 hnd2 hq hlone ha
    have e2 := RaftProps.C02.lone_joint_quorum_only_voter cfg Q k b hnd1 hnd2 hq hlone hb
    exact absurd (e1.trans e2.symm) hab
  · have hex : ∃ j, j ∈ Q ∧ j ≠ k := by
      apply Classical.byContradiction
      intro hc
      apply hlone
      intro j hj
      apply Classical.byContradiction
      intro hne
      exact hc ⟨j, hj, hne⟩
    obtain ⟨j, hj, hjk⟩ := hex
    obtain ⟨g, hg, hgt, hgr, _, hgto, hgterm⟩ := (hQ j hj).resolve_left hjk
    have hrv : isRVm g = true := by unfold isRVm; simp [hgt, hgr]
    obtain ⟨_, _, hok, _⟩ := I1.net g hg hrv
    have := hok.2.2.2.2 hgt
    rw [hgto, hgterm] at this
    exact this

/-- **the proviso of the per-call layer holds in the cluster**: a node that is leader before the call
has a clean queue (`lc`); a node that is leader only after the call was candidate of the same term
with its request in the transport, so its queue holds no `MsgAppend` (`dq`) -/
theorem prov0_of_inv {cfg : JointConfig} (hnd1 : cfg.incoming.Nodup) (hnd2 : cfg.outgoing.Nodup)
    (hmv : MultiVoter cfg) {s s' : Sys} (B : InvB s) (I1 : Inv1 s) (I1' : Inv1 s')
    (I2' : Inv2 cfg s')
    {k : Nat} {st st' : NState} (hk : s.node k = some st) (hk' : s'.node k = some st')
    (hnet : s'.net = s.net) (rt : RT st.raft st'.raft) :
    (st'.raft.state = .leader →
      st.raft.term = st'.raft.term ∧
        ((st.raft.state = .candidate ∧ ∀ x ∈ st.raft.msgs, x.msgType ≠ .msgAppend) ∨
          st.raft.state = .leader)) ∧
    Prov0 st.raft st'.raft := by
  have key : st'.raft.state = .leader →
      st.raft.term = st'.raft.term ∧
        ((st.raft.state = .candidate ∧ ∀ x ∈ st.raft.msgs, x.msgType ≠ .msgAppend) ∨
          st.raft.state = .leader) := by
    intro hl'
    have hreq : Req s.net k st'.raft.term := by
      have := leader_req hnd1 hnd2 hmv I1' I2' hk' hl'
      rw [hnet] at this
      exact this
    have h1 := req_term_le I1 hk hreq
    have h2 := rt.le
    have hterm : st.raft.term = st'.raft.term := by omega
    refine ⟨hterm, ?_⟩
    rcases rt.lead hl' with c | ⟨_, c | c⟩
    · omega
    · exact .inl ⟨c, B.dq k st hk c (by rw [hterm]; exact hreq)⟩
    · exact .inr c
  refine ⟨key, ?_⟩
  intro hor
  by_cases hl : st.raft.state = .leader
  · exact B.lc k st hk hl
  · have hl' : st'.raft.state = .leader := hor.resolve_left hl
    rcases (key hl').2 with ⟨_, hno⟩ | c
    · exact fun x hx hty => absurd hty (hno x hx)
    · exact absurd c hl

/-! ### the queue invariants along a step -/

/-- a call / a delivery at node `k` keeps the queue invariants -/
theorem InvB.call {cfg : JointConfig} (hnd1 : cfg.incoming.Nodup) (hnd2 : cfg.outgoing.Nodup)
    (hmv : MultiVoter cfg) {s : Sys} (B : InvB s) (I1 : Inv1 s)
    {k : Nat} {st st' : NState} {m : Message} (hk : s.node k = some st)
    (hinvk : st.raft.raftLog.Inv)
    (I1' : Inv1 (s.setNode k st')) (I2' : Inv2 cfg (s.setNode k st'))
    (hL : LStepB st.raft st'.raft m) : InvB (s.setNode k st') := by
  have hself : (s.setNode k st').node k = some st' := node_setNode_self s k st'
  have hnet : (s.setNode k st').net = s.net := rfl
  obtain ⟨hlead, hcl⟩ := prov0_of_inv hnd1 hnd2 hmv B I1 I1' I2' hk hself hnet hL.rt
  have node' : ∀ j stj', (s.setNode k st').node j = some stj' →
      (j = k ∧ st' = stj') ∨ (j ≠ k ∧ s.node j = some stj') := by
    intro j stj' hj
    by_cases hjk : j = k
    · subst hjk
      rw [hself] at hj
      cases hj
      exact .inl ⟨rfl, rfl⟩
    · exact .inr ⟨hjk, by rw [← node_setNode_ne s k j st' hjk]; exact hj⟩
  refine ⟨?_, ?_⟩
  · intro j stj' hj hl'
    rcases node' j stj' hj with ⟨rfl, rfl⟩ | ⟨_, h⟩
    · -- the queue of `k` after the call
      obtain ⟨hterm, hcase⟩ := hlead hl'
      have hc : CleanQ st.raft.msgs st.raft.raftLog.abs := hcl (.inr hl')
      intro x hx hty
      rcases hL.eff.q x hx hty with ⟨x0, hx0, hty0, e0⟩ | ⟨_, c | c⟩
      · rcases hcase with ⟨_, hno⟩ | hlk
        · exact absurd hty0 (hno x0 hx0)
        · have hkeep := hL.eff.keep hlk hl' hterm.symm
          have hpk := hL.eff.pk hlk hl' hterm.symm
          have h1 := (hc x0 hx0 hty0).log
            (by rw [← (hL.eff.inv).lastIndex_abs, ← hinvk.lastIndex_abs]; exact hkeep.1) hpk
          rw [e0] at h1
          exact h1
      · exact .inr ⟨c.contig, c.tc⟩
      · exact .inl c
    · exact B.lc j stj' h hl'
  · intro j stj' hj hcand hreq
    rw [hnet] at hreq
    rcases node' j stj' hj with ⟨rfl, rfl⟩ | ⟨_, h⟩
    · rcases hL.rt.cand hcand with c | ⟨c1, c2⟩
      · have := req_term_le I1 hk hreq
        omega
      · have hno := B.dq j st hk c2 (by rw [c1]; exact hreq)
        intro x hx hty
        rcases hL.eff.q x hx hty with ⟨x0, hx0, hty0, _⟩ | ⟨hl', _⟩
        · exact hno x0 hx0 hty0
        · rw [hcand] at hl'; cases hl'
    · exact B.dq j stj' h hcand hreq

/-- `send` at node `k` keeps the queue invariants: the queue of `k` is empty afterwards, and a vote
request in the queue of `k` is a request of `k` -/
theorem InvB.send {s : Sys} (B : InvB s) (I1 : Inv1 s) {k : Nat} {st st' : NState}
    (hk : s.node k = some st) (h : Node.call st none .drain = .ok (.ok, st')) :
    InvB { (s.setNode k st') with net := s.net ++ st.raft.msgs } := by
  have hl2 : st'.raft.msgs = [] := by
    unfold Node.call at h
    simp only [applyOp] at h
    cases h
    rfl
  have hself : ({ (s.setNode k st') with net := s.net ++ st.raft.msgs } : Sys).node k = some st' :=
    node_setNode_self s k st'
  have node' : ∀ j stj', ({ (s.setNode k st') with net := s.net ++ st.raft.msgs } : Sys).node j =
      some stj' → (j = k ∧ st' = stj') ∨ (j ≠ k ∧ s.node j = some stj') := by
    intro j stj' hj
    by_cases hjk : j = k
    · subst hjk
      rw [hself] at hj
      cases hj
      exact .inl ⟨rfl, rfl⟩
    · refine .inr ⟨hjk, ?_⟩
      have : ({ (s.setNode k st') with net := s.net ++ st.raft.msgs } : Sys).node j = s.node j :=
        node_setNode_ne s k j st' hjk
      rw [← this]; exact hj
  refine ⟨?_, ?_⟩
  · intro j stj' hj hl'
    rcases node' j stj' hj with ⟨_, rfl⟩ | ⟨_, h'⟩
    · intro x hx
      rw [hl2] at hx
      cases hx
    · exact B.lc j stj' h' hl'
  · intro j stj' hj hcand hreq
    rcases node' j stj' hj with ⟨_, rfl⟩ | ⟨hjk, h'⟩
    · intro x hx
      rw [hl2] at hx
      cases hx
    · obtain ⟨q, hq, hqt, hqf, hqterm⟩ := hreq
      have hq' : q ∈ s.net ++ st.raft.msgs := hq
      rcases List.mem_append.1 hq' with c | c
      · exact B.dq j stj' h' hcand ⟨q, c, hqt, hqf, hqterm⟩
      · have hrv : isRVm q = true := by unfold isRVm; simp [hqt]
        have := (I1.queue k st hk q c hrv).1
        exact absurd (hqf.symm.trans this) hjk

/-- a restart of node `k` keeps the queue invariants: it comes back as a follower -/
theorem InvB.restart {s : Sys} (B : InvB s) {k : Nat} {st st' : NState} {c : Config}
    {rnd : Option Nat} (h : Node.boot c st.raft.raftLog.store rnd = .ok (.ok st')) :
    InvB (s.setNode k st') := by
  have hb := CV.boot_booted c _ rnd st' h
  have hself : (s.setNode k st').node k = some st' := node_setNode_self s k st'
  have hnet : (s.setNode k st').net = s.net := rfl
  have node' : ∀ j stj', (s.setNode k st').node j = some stj' →
      (j = k ∧ st' = stj') ∨ (j ≠ k ∧ s.node j = some stj') := by
    intro j stj' hj
    by_cases hjk : j = k
    · subst hjk
      rw [hself] at hj
      cases hj
      exact .inl ⟨rfl, rfl⟩
    · exact .inr ⟨hjk, by rw [← node_setNode_ne s k j st' hjk]; exact hj⟩
  refine ⟨?_, ?_⟩
  · intro j stj' hj hl'
    rcases node' j stj' hj with ⟨_, rfl⟩ | ⟨_, h'⟩
    · rw [hb.state] at hl'; cases hl'
    · exact B.lc j stj' h' hl'
  · intro j stj' hj hcand hreq
    rw [hnet] at hreq
    rcases node' j stj' hj with ⟨_, rfl⟩ | ⟨_, h'⟩
    · rw [hb.state] at hcand; cases hcand
    · exact B.dq j stj' h' hcand hreq

theorem InvB.init {s : Sys} (h : InitOk s) : InvB s := by
  obtain ⟨_, sto, hboot, _⟩ := h
  have hf : ∀ i st, s.node i = some st → st.raft.state = .follower := by
    intro i st h1
    obtain ⟨c, rnd, hb⟩ := hboot i st h1
    exact (CV.boot_booted c _ rnd st hb).state
  refine ⟨?_, ?_⟩
  · intro k st hk hl
    rw [hf k st hk] at hl; cases hl
  · intro k st hk hc
    rw [hf k st hk] at hc; cases hc

/-- **one contract-abiding step preserves `InvL` and `InvB`**, whatever `batch_append` is -/
theorem invLB_cstep {cfg : JointConfig} (hnd1 : cfg.incoming.Nodup) (hnd2 : cfg.outgoing.Nodup)
    (hmv : MultiVoter cfg) {own : Nat → Nat → Prop} {ini : Entry → Prop} {s s' : Sys}
    (huniq : ∀ i j t, own i t → own j t → i = j)
    (hown' : ∀ i t, leads s' i t → own i t)
    (I : InvL own ini s) (B : InvB s) (I1 : Inv1 s) (I1' : Inv1 s') (I2' : Inv2 cfg s')
    (hsane' : SaneAnchors s') (hstep : CStep s s') : InvL own ini s' ∧ InvB s' := by
  -- a call or a delivery
  have callCase : ∀ (k : Nat) (st st' : NState) (rnd : Option Nat) (op : NodeOp) (res : OpRes),
      s.node k = some st → (appOp op = true ∨ ∃ m, op = .step m ∧ m ∈ s.net) →
      (∀ j, op = .compact j → CompactOk st.raft.raftLog j) →
      Node.call st rnd op = .ok (res, st') → s' = s.setNode k st' →
      InvL own ini s' ∧ InvB s' := by
    intro k st st' rnd op res hk hop hc h hs'
    subst hs'
    have hop' : op ≠ .drain ∧ ∀ m, op ≠ .rstep m := by
      rcases hop with h1 | ⟨m, h1, _⟩
      · constructor
        · intro hc; rw [hc] at h1; cases h1
        · intro m hc; rw [hc] at h1; cases h1
      · rw [h1]
        exact ⟨(by intro hc; cases hc), (by intro m' hc; cases hc)⟩
    have hw : ∀ m, op = .step m → m.msgType = .msgAppend → MsgOk m := by
      intro m hm hty
      rcases hop with h1 | ⟨m', h1, h2⟩
      · rw [hm] at h1; cases h1
      · rw [hm] at h1; cases h1
        exact I.msgOk h2 hty
    have hinvk := I.inv k st hk
    have rt := call_rt st st' rnd op res hinvk hop' h
    have hself : (s.setNode k st').node k = some st' := node_setNode_self s k st'
    obtain ⟨_, hcl⟩ := prov0_of_inv hnd1 hnd2 hmv B I1 I1' I2' hk hself rfl rt
    have hL := call_lstep_b st st' rnd op res hinvk hcl hop' hw hc h
    have hsane : ∀ x ∈ st'.raft.msgs, x.msgType = .msgAppend → ¬ Weird (msgLog x) :=
      fun x hx hty => hsane'.notWeird hself hx hty
    exact ⟨I.trans huniq hown' (trans_call_b I hk hop h hL hsane),
      B.call hnd1 hnd2 hmv I1 hk hinvk I1' I2' hL⟩
  cases hstep with
  | call i st st' rnd op res h1 h2 h3 h4 =>
    exact callCase i st st' rnd op res h1 (.inl h2) h3 h4 rfl
  | deliver i st st' rnd m res h1 h2 _ h4 =>
    exact callCase i st st' rnd (.step m) res h1 (.inr ⟨m, rfl, h2⟩) (fun j hc => by cases hc) h4 rfl
  | send i st st' h1 h2 h3 =>
    exact ⟨I.trans huniq hown' (trans_send I h1 h2 h3), B.send I1 h1 h3⟩
  | restart i st st' c rnd h1 _ h3 =>
    exact ⟨I.trans huniq hown' (trans_restart I h1 h3), B.restart h3⟩

/-- **`InvL` and `InvB` hold in every state** of a list of states that starts in an `InitOk` state,
proceeds by contract-abiding steps, has at most one leading node per term, satisfies the invariants
of Election Safety, has two voters and never queues an append anchored in the void -/
theorem invLB_all {cfg : JointConfig} (hnd1 : cfg.incoming.Nodup) (hnd2 : cfg.outgoing.Nodup)
    (hmv : MultiVoter cfg) (h : List Sys)
    (huniq : ∀ i j t, Owner h i t → Owner h j t → i = j)
    (hinit : ∀ s : Sys, h[0]? = some s → InitOk s)
    (hsteps : ∀ (n : Nat) (a b : Sys), h[n]? = some a → h[n + 1]? = some b → CStep a b)
    (hI1 : ∀ s ∈ h, Inv1 s) (hI2 : ∀ s ∈ h, Inv2 cfg s) (hsane : ∀ s ∈ h, SaneAnchors s)
    (s0 : Sys) (h0 : h[0]? = some s0) :
    ∀ (n : Nat) (s : Sys), h[n]? = some s → InvL (Owner h) (EntriesOf s0) s ∧ InvB s := by
  intro n
  induction n with
  | zero =>
    intro s hs
    rw [h0] at hs
    cases hs
    exact ⟨InvL.init (hinit s0 h0), InvB.init (hinit s0 h0)⟩
  | succ n ih =>
    intro s hs
    have hlt : n + 1 < h.length := by
      rcases Nat.lt_or_ge (n + 1) h.length with c | c
      · exact c
      · rw [List.getElem?_eq_none c] at hs; cases hs
    have ha : h[n]? = some h[n] := List.getElem?_eq_some_iff.2 ⟨by omega, rfl⟩
    have hmem : s ∈ h := List.mem_iff_getElem?.2 ⟨n + 1, hs⟩
    have hmema : h[n] ∈ h := List.mem_iff_getElem?.2 ⟨n, ha⟩
    obtain ⟨I, B⟩ := ih _ ha
    exact invLB_cstep hnd1 hnd2 hmv huniq (fun i t hl => ⟨s, hmem, hl⟩) I B (hI1 _ hmema)
      (hI1 s hmem) (hI2 s hmem) (hsane s hmem) (hsteps n _ s ha hs)

end Cluster
end RaftModel
