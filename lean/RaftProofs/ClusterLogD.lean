import RaftProofs.ClusterLogC
import RaftProps.PDGuards

/-!
Cluster-level Log Matching, helper lemmas part D: what `maybe_append` / `handle_append_entries` do to
the logical log in terms of links (`DerivedFrom`), for a batch that is numbered from its anchor and
carries non-zero terms — *without* the anchor condition of `AppendWF` (an append whose anchor lies
beyond the log is either empty, and then changes nothing, or runs into the gap panic of
`truncate_and_append`).
-/
namespace RaftModel

/-- a well-numbered batch with real terms (what the cluster invariant knows of every `MsgAppend`) -/
def MsgOk (m : Message) : Prop :=
  ContigFrom (m.index + 1) m.entries ∧ ∀ e ∈ m.entries, e.term ≠ 0

namespace RaftLog

/-- an append anchored beyond the log with a non-empty batch does not return -/
theorem maybeAppend_gap {l : RaftLog} (h : l.Inv) {idx t c : Nat} {e0 : Entry} {es : List Entry}
    (hgap : l.lastIndex < idx) (hidx : e0.index = idx + 1) (hterm : e0.term ≠ 0)
    {l' : RaftLog} {p : Nat × Nat} : l.maybeAppend idx t c (e0 :: es) ≠ .ok (l', some p) := by
  intro hm
  have hcl := h.committed_le_last
  have hls := h.last_succ
  have hmt : l.matchTerm e0.index e0.term = .ok false := by
    rw [h.matchTerm_abs]
    congr 1
    unfold LLog.matchTerm LLog.term
    rw [if_pos (by right; rw [← h.lastIndex_abs]; omega)]
    simp only [beq_eq_false_iff_ne, ne_eq]
    exact fun hc => hterm hc.symm
  have hfc : l.findConflict (e0 :: es) = .ok e0.index := by
    unfold RaftLog.findConflict; rw [hmt]
  have happ : ∃ s, l.append (e0 :: es) = .panic s := by
    unfold RaftLog.append
    simp only []
    rw [if_neg (by omega), if_neg (by omega)]
    obtain ⟨s, hs⟩ := (RaftProps.C14.C14_truncateAndAppend_spec l.unstable h.unstWF e0 es).2.2.2
      (by omega)
    rw [hs]; exact ⟨s, rfl⟩
  obtain ⟨s, happ⟩ := happ
  unfold RaftLog.maybeAppend at hm
  split at hm
  · cases hm
  · rw [hfc] at hm
    simp only [] at hm
    rw [if_neg (by omega), if_neg (by omega)] at hm
    unfold RaftLog.appendConflict at hm
    rw [if_neg (by omega), if_neg (by omega)] at hm
    rw [show e0.index - (idx + 1) = 0 by omega, List.drop_zero, happ] at hm
    cases hm
  · cases hm
  · cases hm

/-- an accepted `maybe_append` of an empty batch only moves the commit index -/
theorem maybeAppend_nil {l l' : RaftLog} {idx t c : Nat} {p : Nat × Nat}
    (hm : l.maybeAppend idx t c [] = .ok (l', some p)) : LogSame l l' ∧ l'.store = l.store := by
  unfold RaftLog.maybeAppend at hm
  split at hm
  · cases hm
  · have : l.findConflict [] = .ok 0 := rfl
    rw [this] at hm
    simp only [if_true] at hm
    split at hm
    · rename_i l2 hc
      cases hm
      exact ⟨c05_commitTo_same hc, RaftModel.C06.commitTo_store hc⟩
    · cases hm
    · cases hm
  · cases hm
  · cases hm

/-- **an accepted `maybe_append`, in links**: the invariant is kept, the storage is untouched, and
every link of the new logical log is a link of the old one or of the batch anchored at
`(idx, term)` -/
theorem maybeAppend_eff {l l' : RaftLog} (h : l.Inv) {m : Message} {c : Nat} {p : Nat × Nat}
    (hok : MsgOk m) (hci : l.committed ≤ m.index)
    (hm : l.maybeAppend m.index m.logTerm c m.entries = .ok (l', some p)) :
    l'.Inv ∧ l'.store = l.store ∧
    DerivedFrom (fun g => g = l.abs ∨ g = msgLog m) l'.abs := by
  have hsto := Raft.CV.maybeAppend_store hm
  have hsame : LogSame l l' → l'.Inv ∧ l'.store = l.store ∧
      DerivedFrom (fun g => g = l.abs ∨ g = msgLog m) l'.abs := fun hs =>
    ⟨hs.inv h, hsto, by rw [hs.abs]; exact DerivedFrom.of_mem (.inl rfl)⟩
  have hmt : l.abs.matchTerm m.index m.logTerm = true := by
    rcases c04_maybeAppend_spec hm with ⟨hn, _⟩ | ⟨_, _, hmt, _⟩
    · cases hn
    · rw [h.matchTerm_abs] at hmt
      injection hmt
  have hsnap : l.abs.snapIdx ≤ m.index := by
    have h1 := h.dummy_le_committed
    rw [h.firstIndex_abs] at h1
    simp only [LLog.firstIndex] at h1
    omega
  rcases Nat.lt_or_ge l.lastIndex m.index with hgap | hidx
  · -- anchored beyond the log: the batch is empty
    cases hE : m.entries with
    | nil => rw [hE] at hm; exact hsame (maybeAppend_nil hm).1
    | cons e0 es =>
      rw [hE] at hm
      have hi0 : e0.index = m.index + 1 := by
        have := hok.1 0 e0 (by rw [hE]; rfl); omega
      exact absurd hm (maybeAppend_gap h hgap hi0 (hok.2 e0 (by rw [hE]; exact List.mem_cons_self)))
  · obtain ⟨_, hspec⟩ := RaftProps.C14.C14_maybeAppend_spec l h m.index m.logTerm c m.entries
      hok.1 hidx hok.2
    obtain ⟨hnc, hpan, hcf⟩ := hspec hmt
    rcases Nat.eq_zero_or_pos (l.abs.findConflict m.entries) with hz | hpos
    · obtain ⟨hres, hinv'⟩ := hnc hz
      rw [hres] at hm
      cases hm
      exact ⟨hinv', rfl, DerivedFrom.of_mem (.inl rfl)⟩
    · rcases Nat.lt_or_ge l.committed (l.abs.findConflict m.entries) with hgt | hle
      · obtain ⟨l2, hres, habs, _, _, _, _, hinv'⟩ := hcf hgt
        rw [hres] at hm
        cases hm
        refine ⟨hinv', hsto, ?_⟩
        rw [habs]
        rcases l.abs.findConflict_char m.entries (m.index + 1) hok.1 with ⟨h0, _⟩ | ⟨k, hk, hf, hall⟩
        · omega
        · have hle : m.index + 1 + k ≤ l.abs.lastIndex + 1 := by
            rcases Nat.eq_zero_or_pos k with hk0 | hkpos
            · rw [← h.lastIndex_abs]; omega
            · have hmem : m.entries[k - 1] ∈ m.entries.take k := by
                rw [List.mem_take_iff_getElem]
                exact ⟨k - 1, by omega, rfl⟩
              have h1 := hall _ hmem
              have h2 := l.abs.matchTerm_le_last _ _ h1 (hok.2 _ (List.getElem_mem _))
              have h3 := hok.1 (k - 1) m.entries[k - 1] (List.getElem?_eq_some_iff.2 ⟨by omega, rfl⟩)
              omega
          refine derived_truncateAppend l.abs m (l.abs.findConflict m.entries) _ (.inl rfl) (.inr rfl)
            hok.1 hok.2 hsnap hmt (by omega) (by omega) ?_
          rw [hf, show m.index + 1 + k - (m.index + 1) = k by omega]
          exact hall
      · obtain ⟨s, hp⟩ := hpan hpos hle
        rw [hp] at hm
        cases hm

end RaftLog

namespace Raft

/-- the queue after `handle_append_entries`: one `MsgAppendResponse` more -/
theorem handleAppendEntries_msgs {r r' : Raft} {m : Message} (h : r.handleAppendEntries m = .ok r') :
    (∃ resp, r'.msgs = r.msgs ++ [resp] ∧ resp.msgType = .msgAppendResponse) ∧
    r'.batchAppend = r.batchAppend := by
  have key : ∀ (r0 : Raft) (x : Message), x.msgType = .msgAppendResponse → r0.send x = .ok r' →
      (∃ resp, r'.msgs = r0.msgs ++ [resp] ∧ resp.msgType = .msgAppendResponse) ∧
      r'.batchAppend = r0.batchAppend := by
    intro r0 x hx hs
    rw [send_eq _ _ _ hs]
    exact ⟨⟨_, rfl, by rw [sendFill_msgType]; exact hx⟩, rfl⟩
  unfold Raft.handleAppendEntries at h
  split at h
  · unfold Raft.sendRequestSnapshot at h
    simp only [] at h
    split at h
    · exact key _ _ rfl h
    · cases h
    · cases h
  · split at h
    · exact key _ _ rfl h
    · split at h
      · cases h
      · cases h
      · simp only [] at h
        have := key _ _ rfl h
        exact this
      · simp only [] at h
        split at h
        · cases h
        · cases h
        · cases h
        · have := key _ _ rfl h
          exact this

/-- **`handle_append_entries` in links** -/
theorem handleAppendEntries_eff {r r' : Raft} {m : Message} (hinv : r.raftLog.Inv) (hok : MsgOk m)
    (h : r.handleAppendEntries m = .ok r') :
    r'.raftLog.Inv ∧ r'.raftLog.store = r.raftLog.store ∧
    DerivedFrom (fun g => g = r.raftLog.abs ∨ g = msgLog m) r'.raftLog.abs ∧
    (∀ x ∈ r'.msgs, x.msgType = .msgAppend → x ∈ r.msgs) ∧
    r'.batchAppend = r.batchAppend ∧ Frame r r' := by
  obtain ⟨⟨resp, hms, hty⟩, hba⟩ := handleAppendEntries_msgs h
  have hq : ∀ x ∈ r'.msgs, x.msgType = .msgAppend → x ∈ r.msgs := by
    intro x hx hxt
    rw [hms] at hx
    rcases List.mem_append.1 hx with hx | hx
    · exact hx
    · rw [List.mem_singleton.1 hx, hty] at hxt; cases hxt
  have hfr := handleAppendEntries_frame h Frame.rfl
  rcases RaftProps.PDGuards.PD_recvAppC r r' m h with ⟨_, hci, _, ⟨ci, hma⟩, _⟩ | ⟨_, hl⟩
  · obtain ⟨h1, h2, h3⟩ := RaftLog.maybeAppend_eff hinv hok hci hma
    exact ⟨h1, h2, h3, hq, hba, hfr⟩
  · rw [hl]
    exact ⟨hinv, rfl, DerivedFrom.of_mem (.inl rfl), hq, hba, hfr⟩

end Raft
end RaftModel
