import RaftProofs.ClusterCommit5O

/-!
Cluster-level commit safety **with `batch_append`** (copy of `ClusterCommitU.lean` over `Hyp2wB`), part U: **a term is led in one stretch** — once the node that leads term
`t` is restarted (or has otherwise left the leadership of `t` behind), it never leads `t` again; hence
the logs of the leader of one term at two points of a history extend each other.
-/
namespace RaftModel
namespace ClusterB
open Node Raft Raft.CC Raft.CB Raft.Bt Cluster RaftProps.C02 RaftProps.C05

/-- node `l` can no longer lead term `t`: its term floor is `t`, and it is beyond `t` or in the
follower / pre-candidate role at `t` -/
def Dead (s : Sys) (l t : Nat) : Prop :=
  ∃ st, s.node l = some st ∧ t ≤ st.raft.raftLog.store.hardState.term ∧
    (t < st.raft.term ∨ (st.raft.term = t ∧ (st.raft.state = .follower ∨ st.raft.state = .preCandidate)))

theorem Dead.not_leads {s : Sys} {l t : Nat} (h : Dead s l t) : ¬ leads s l t := by
  obtain ⟨st, hk, _, hd⟩ := h
  rintro ⟨st', hk', hs, ht⟩
  rw [hk] at hk'; cases hk'
  rcases hd with c | ⟨_, c | c⟩
  · omega
  · rw [hs] at c; cases c
  · rw [hs] at c; cases c

variable {cfg : JointConfig} {c0 : Nat} {h : List Sys}

/-- **a leader's term is in its storage** (`leader_floor` of `ClusterCommitT.lean` over `Hyp2wB`) -/
theorem leader_floor (H : Hyp2wB cfg c0 h) {s : Sys}
    (hs : s ∈ h) {k τ : Nat} (hl : leads s k τ) : TermFloor s k τ := by
  obtain ⟨st, hk, hst, hterm⟩ := hl
  have hall := hist_all H.hist
  have I1 := hall.1 s hs
  have I2 := hall.2.1 cfg H.fix s hs
  obtain ⟨Q, hQ, hQg⟩ := I2.lead k st hk hst
  obtain ⟨j, hj, hjk⟩ := H.nolone k Q hQ
  rcases hQg j hj with e | ⟨g, hg, g1, g2, g3, g4, g5⟩
  · exact absurd e hjk
  · have hrv : CV.isRVm g = true := by simp [CV.isRVm, g1, g2]
    obtain ⟨stj, _, hok, _⟩ := I1.net g hg hrv
    obtain ⟨q, hq, q1, q2, q3⟩ := hok.2.2.2.2 g1
    have hrvq : CV.isRVm q = true := by simp [CV.isRVm, q1]
    obtain ⟨stk, hstk, hokq, hges⟩ := I1.net q hq hrvq
    rw [q2, g4, hk] at hstk
    cases hstk
    refine ⟨st, hk, Nat.le_of_eq hterm.symm, ?_⟩
    rw [q3, g5, hterm] at hges
    rcases hges with c | ⟨c, _⟩ <;> omega

/-- **one step, one node**, batching allowed (`cstep_nodeRel` without `NoBatch`) -/
theorem nodeRelB (H : HypB cfg h) {n : Nat} {a b : Sys} (ha : h[n]? = some a)
    (hb : h[n + 1]? = some b) (i : Nat) (sta stb : NState)
    (hia : a.node i = some sta) (hib : b.node i = some stb) :
    NodeRel sta stb ∨ IsRestart i a b := by
  obtain ⟨s0, _, hall⟩ := H.invLB
  obtain ⟨all1, all2, _⟩ := hist_all H.hist
  have hma := mem_of_get ha
  have hmb := mem_of_get hb
  exact RaftProps.C05.cstep_nodeRel_batch H.nd1 H.nd2 H.mv (hall a hma).1 (hall a hma).2 (all1 a hma)
    (all1 b hmb) (all2 cfg H.fix b hmb) (H.csteps n a b ha hb) i sta stb hia hib

/-- one step keeps `Dead` -/
theorem Dead.step (H : Hyp2wB cfg c0 h) {n : Nat} {a b : Sys} (ha : h[n]? = some a)
    (hb : h[n + 1]? = some b) {l t : Nat} (hd : Dead a l t) : Dead b l t := by
  obtain ⟨s0, _, hall⟩ := H.inv_at
  obtain ⟨st, hk, hst, hdd⟩ := hd
  have hstep := H.steps n a b ha hb
  obtain ⟨st', hk', hmem, hrel⟩ := C06_cluster_step_term_vote a b hstep.step l st hk
  have hst' : t ≤ st'.raft.raftLog.store.hardState.term := by
    have hge : t ≤ st.raft.term := by rcases hdd with c | ⟨c, _⟩ <;> omega
    rcases hrel with ⟨g, _⟩ | ⟨g1, _, g3, _⟩ | ⟨g, _⟩ <;> omega
  refine ⟨st', hk', hst', ?_⟩
  rcases nodeRelB H.toHypB ha hb l st st' hk hk' with c | c
  · have rt := c.rt
    have hle := rt.le
    by_cases hlt : t < st'.raft.term
    · exact .inl hlt
    · right
      have hge : t ≤ st.raft.term := by rcases hdd with c | ⟨c, _⟩ <;> omega
      have e1 : st'.raft.term = t := by omega
      have e0 : st.raft.term = t := by omega
      have hrole : st.raft.state = .follower ∨ st.raft.state = .preCandidate := by
        rcases hdd with c | ⟨_, c⟩
        · omega
        · exact c
      refine ⟨e1, ?_⟩
      cases hs' : st'.raft.state with
      | follower => exact .inl rfl
      | preCandidate => exact .inr rfl
      | candidate =>
        rcases rt.cand hs' with c | ⟨_, c⟩
        · omega
        · rcases hrole with r | r <;> rw [r] at c <;> cases c
      | leader =>
        rcases rt.lead hs' with c | ⟨_, c | c⟩
        · omega
        · rcases hrole with r | r <;> rw [r] at c <;> cases c
        · rcases hrole with r | r <;> rw [r] at c <;> cases c
  · obtain ⟨st1, st2, cf, rnd, h1, _, h3, h4⟩ := c
    rw [h4, node_setNode_self] at hk'
    cases hk'
    rw [hk] at h1; cases h1
    have hbt := CV.boot_booted cf _ rnd st' h3
    by_cases hlt : t < st'.raft.term
    · exact .inl hlt
    · right
      rw [hbt.term] at hlt ⊢
      exact ⟨by omega, .inl hbt.state⟩

theorem Dead.later (H : Hyp2wB cfg c0 h) {l t : Nat} :
    ∀ (d n : Nat) (a b : Sys), h[n]? = some a → h[n + d]? = some b → Dead a l t → Dead b l t := by
  intro d
  induction d with
  | zero => intro n a b ha hb hd; rw [Nat.add_zero, ha] at hb; cases hb; exact hd
  | succ d ih =>
    intro n a b ha hb hd
    have hlt : n + 1 < h.length := by
      rcases Nat.lt_or_ge (n + 1) h.length with c | c
      · exact c
      · have : h.length ≤ n + (d + 1) := by omega
        rw [List.getElem?_eq_none this] at hb; cases hb
    have h1 : h[n + 1]? = some h[n + 1] := List.getElem?_eq_some_iff.2 ⟨hlt, rfl⟩
    exact ih (n + 1) _ b h1 (by rw [← hb]; congr 1; omega) (hd.step H ha h1)

/-- **the leader of a term is never restarted while the term is still led later** -/
theorem no_restart_between (H : Hyp2wB cfg c0 h) {n d : Nat} {s s' : Sys} {l t : Nat}
    (hn : h[n]? = some s) (hn' : h[n + d]? = some s') (hl : leads s l t) (hl' : leads s' l t) :
    ∀ m a b, n ≤ m → m < n + d → h[m]? = some a → h[m + 1]? = some b → ¬ IsRestart l a b := by
  intro m a b hm1 hm2 ha hb hr
  -- after the restart the node is dead for `t`
  have hfl : TermFloor a l t :=
    (leader_floor H (mem_of_get hn) hl).later H.hist hn ha hm1
  obtain ⟨st1, st2, cf, rnd, h1, _, h3, h4⟩ := hr
  obtain ⟨st, hk, _, hk2⟩ := hfl
  rw [hk] at h1; cases h1
  have hbt := CV.boot_booted cf _ rnd st2 h3
  have hdead : Dead b l t := by
    refine ⟨st2, by rw [h4]; exact node_setNode_self a l st2, by rw [hbt.hs]; exact hk2, ?_⟩
    by_cases hlt : t < st2.raft.term
    · exact .inl hlt
    · right
      rw [hbt.term] at hlt ⊢
      exact ⟨by omega, .inl hbt.state⟩
  have : Dead s' l t :=
    Dead.later H (n + d - (m + 1)) (m + 1) b s' hb (by rw [← hn']; congr 1; omega) hdead
  exact this.not_leads hl'

/-- **the logs of the leader of a term at two points of the history**: same node, and the later log
extends the earlier one -/
theorem leader_log_ext (H : Hyp2wB cfg c0 h) {n d : Nat} {s s' : Sys} {l l' t : Nat} {st st' : NState}
    (hn : h[n]? = some s) (hn' : h[n + d]? = some s')
    (hk : s.node l = some st) (hk' : s'.node l' = some st')
    (hs : st.raft.state = .leader) (hs' : st'.raft.state = .leader)
    (ht : st.raft.term = t) (ht' : st'.raft.term = t) :
    l = l' ∧ st.raft.raftLog.lastIndex ≤ st'.raft.raftLog.lastIndex ∧
    (∀ k e, st.raft.raftLog.abs.entryAt k = some e → st'.raft.raftLog.abs.snapIdx < k →
      st'.raft.raftLog.abs.entryAt k = some e) ∧
    (∀ k e', st'.raft.raftLog.abs.entryAt k = some e' → k ≤ st.raft.raftLog.lastIndex →
      st.raft.raftLog.abs.entryAt k = some e') := by
  have hll : l = l' :=
    C02_cluster_election_safety cfg H.ne H.nd1 H.nd2 h H.hist H.fix s s' (mem_of_get hn)
      (mem_of_get hn') l l' t ⟨st, hk, hs, ht⟩ ⟨st', hk', hs', ht'⟩
  subst hll
  refine ⟨rfl, ?_⟩
  exact C05_cluster_leader_append_only_batch cfg H.ne H.nd1 H.nd2 h H.hist H.fix H.init H.csteps
    H.toHypB.batchOk l d n
    s s' st st' hn hn'
    (no_restart_between H hn hn' ⟨st, hk, hs, ht⟩ ⟨st', hk', hs', ht'⟩) hk hk' hs hs'
    (ht'.trans ht.symm)

end ClusterB
end RaftModel
