import RaftProofs.ClusterSnap5T

/-!
[Copy of `ClusterSnap2U.lean` for the development `Snap5` (with `request_snapshot`): `NoReq` is replaced by
`ReqOk`, `SnapCase.restored` is widened — see `ClusterSnap5A.lean`, `RaftProps/C01i.lean`.]

Commit safety of `ClusterSem` with compaction and snapshots, part 2U: what the main induction says about
**snapshots** —
* `commit_step_pend`: a node that is leader after a step that moved its commit index has no pending
  snapshot;
* `snap_msg_committed`: every `MsgSnapshot` of the transport names an index and a term that a leader
  has committed (**a released snapshot is a committed prefix**);
* `snap_point_agree`: the snapshot point of every node — after a compaction, after the restoration of
  a snapshot, pending or installed — carries the term every other node whose commit index reaches it
  holds (or has compacted away) there;
* `snap_point_term`: … read off the real log of that other node.
-/
namespace RaftModel
namespace Cluster
namespace Snap5
open Node Raft Raft.CC RaftProps.C02 RaftProps.C05 Snap

variable {cfg : JointConfig} {c0 : Nat} {h : List Sys}

/-- a node that is leader after a step that moved its commit index has no pending snapshot -/
theorem commit_step_pend (H : Hyp2w cfg c0 h) {n : Nat} {a b : Sys} (ha : h[n]? = some a)
    (hb : h[n + 1]? = some b) {l : Nat} {sta stb : NState} (hla : a.node l = some sta)
    (hlb : b.node l = some stb) (hs : stb.raft.state = .leader)
    (hc : sta.raft.raftLog.committed < stb.raft.raftLog.committed) :
    stb.raft.raftLog.unstable.snapshot = none := by
  obtain ⟨k, stk, stk', hka, hkb, hoth, hst⟩ := H.stp ha hb
  by_cases hlk : l = k
  · subst hlk
    rw [hka] at hla; cases hla
    rw [hkb] at hlb; cases hlb
    cases hst with
    | call rnd op res hop hco hca hns hpn hss hcall hnet hpn' _ => exact hpn'
    | snap rnd m hm hto hty hpn hout hnet =>
      cases hout with
      | skip hr => rw [hr] at hc; exact absurd hc (Nat.lt_irrefl _)
      | handled x hsf => rw [hsf] at hs; cases hs
    | psnap rnd hp hout hpend hnet =>
      rw [(persist_same hout).1] at hc; exact absurd hc (Nat.lt_irrefl _)
    | send hp hu hq hsame hnet _ => rw [hsame.1] at hc; exact absurd hc (Nat.lt_irrefl _)
    | restart c rnd hboot hnet hpn' => exact hpn'
  · rw [hoth l hlk, hla] at hlb; cases hlb
    exact absurd hc (Nat.lt_irrefl _)

/-- **a released snapshot is a committed prefix**: a `MsgSnapshot` of the transport of `h[n]` names an
index above `c0` that is covered by a commit event before `n` of a term not above the message's term,
whose ghost log holds an entry of the snapshot's term at the snapshot's index -/
theorem snap_msg_committed (H : Hyp3a cfg c0 h) {n : Nat} {a : Sys} (ha : h[n]? = some a)
    {x : Message} (hx : x ∈ a.net) (hty : x.msgType = .msgSnapshot) :
    c0 < x.snapshot.metadata.index ∧
    ∃ E : Ev, E.ok h ∧ E.nE < n ∧ x.snapshot.metadata.index ≤ E.c ∧ E.t ≤ x.term ∧
      Has (EvF h c0 E) x.snapshot.metadata.index x.snapshot.metadata.term := by
  obtain ⟨L, src⟩ := snap_src H (sall H n) ha hx hty
  refine ⟨src.hi, ?_⟩
  rcases src.cov with c | ⟨E, h1, h2, h3, h4, h5⟩
  · have := src.hi; omega
  · exact ⟨E, h1, h2, h3, h4, Has.of_eq (h5 _ (Nat.le_refl _)).symm src.has⟩

/-- **snapshot-point agreement** (ghost form): if the log of a node (in any state) starts at a snapshot
point `i > c0` whose term `t` it knows — after the restoration of a snapshot, pending or installed, or
after a restart —, then every node, in any state, whose commit index reaches `i` holds an entry of term
`t` at `i` in its uncompacted log -/
theorem snap_point_agree (H : Hyp3a cfg c0 h)
    {m1 : Nat} {s1 : Sys} (hm1 : h[m1]? = some s1) {v1 : Nat} {st1 : NState}
    (hv1 : s1.node v1 = some st1) {t : Nat} (ht : st1.raft.raftLog.abs.snapTerm = some t)
    (hi : c0 < st1.raft.raftLog.abs.snapIdx)
    {m2 : Nat} {s2 : Sys} (hm2 : h[m2]? = some s2) {v2 : Nat} {st2 : NState}
    (hv2 : s2.node v2 = some st2)
    (hk2 : st1.raft.raftLog.abs.snapIdx ≤ st2.raft.raftLog.committed) :
    Has (FL h c0 st2) st1.raft.raftLog.abs.snapIdx t := by
  have H2 := H.toHyp2w
  have I1 := (ghost_inv H2 m1 s1 hm1).node v1 st1 hv1
  have o1 := node_ok H2 hm1 hv1
  obtain ⟨e, he, het⟩ := I1.log.sT t ht hi
  exact ⟨e, by rw [← sms_ghost H hm1 hv1 hm2 hv2 o1.snap_le hk2]; exact he, het⟩

/-- what an entry of term `t` at `i` in the uncompacted log says about the real log: the entry, if the
index is retained; the term of the snapshot point, if `i` is the snapshot point and its term is known -/
theorem has_real (H : Hyp2w cfg c0 h) {m : Nat} {s : Sys} (hm : h[m]? = some s) {v : Nat} {st : NState}
    (hv : s.node v = some st) {i t : Nat} (hh : Has (FL h c0 st) i t) :
    (st.raft.raftLog.abs.snapIdx < i → Has st.raft.raftLog.abs i t) ∧
    (st.raft.raftLog.abs.snapIdx = i → c0 < i → ∀ t', st.raft.raftLog.abs.snapTerm = some t' → t' = t) := by
  have I := (ghost_inv H m s hm).node v st hv
  obtain ⟨e, he, het⟩ := hh
  refine ⟨fun hlt => ⟨e, by rw [← I.log.ents i hlt]; exact he, het⟩, fun heq hi t' ht' => ?_⟩
  obtain ⟨e', he', het'⟩ := I.log.sT t' ht' (by omega)
  rw [heq, he] at he'
  cases he'
  omega

end Snap5
end Cluster
end RaftModel
