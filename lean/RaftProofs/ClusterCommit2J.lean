import RaftProofs.ClusterCommit2I

/-!
Cluster-level commit safety, part 2J: **who writes the stored commit index** (`call_hs`): only
`commit_apply k` (to `k`, when the storage holds index `k`); every other call of the node leaves
`hard_state.commit` of the storage alone (no pending snapshot).
-/
namespace RaftModel
namespace Raft
namespace CC
open Node CV

theorem append_hs {s s' : MemStorage} {ents : List Entry} (h : s.append ents = .ok s') :
    s'.hardState = s.hardState := by
  unfold MemStorage.append at h
  split at h
  · cases h; rfl
  · split at h
    · cases h
    · split at h
      · cases h
      · simp only [] at h
        split at h
        · cases h
        · cases h; rfl

theorem stabilise_hs {l l' : RaftLog} (h : l.stabilise = .ok l') :
    l'.store.hardState = l.store.hardState := by
  unfold RaftLog.stabilise at h
  split at h
  · cases h; rfl
  · split at h
    · rename_i st ha
      rw [C06.stableEntries_store h]
      exact append_hs ha
    · cases h
    · cases h

/-- what one call does to the stored hard state: nothing; `commit_apply k` writes `commit := k`;
`stabilize` writes term and vote -/
def HsOut (st st' : NState) (op : NodeOp) : Prop :=
  st'.raft.raftLog.store.hardState = st.raft.raftLog.store.hardState ∨
  (∃ k, op = .commitApply k ∧ st'.raft.raftLog.store.hardState =
    { st.raft.raftLog.store.hardState with commit := k }) ∨
  (op = .stabilize ∧
    st'.raft.raftLog.store.hardState.commit = st.raft.raftLog.store.hardState.commit)

/-- **the stored hard state after one call** -/
theorem call_hs (st st' : NState) (rnd : Option Nat) (op : NodeOp) (res : OpRes)
    (hop : op ≠ .drain ∧ ∀ m, op ≠ .rstep m)
    (hsn : st.raft.raftLog.unstable.snapshot = none)
    (h : Node.call st rnd op = .ok (res, st')) : HsOut st st' op := by
  unfold Node.call at h
  have hrefl : VInv st.raft mLocal ({ st.raft with nextRand := rnd } : Raft) :=
    (VInv.refl st.raft mLocal).vf (by simp [VF, ncore])
  have ofV : ∀ {m : Message} {r : Raft}, VInv st.raft m r → st'.raft = r → HsOut st st' op :=
    fun hv hr => .inl (by rw [hr, hv.hs])
  cases op with
  | tick =>
    simp only [applyOp] at h
    split at h
    · rename_i raft b heq
      cases h
      exact ofV (Res.Post.of_eq (tick_vinv _) heq).rebaseRand rfl
    · cases h
    · cases h
  | step m =>
    simp only [applyOp] at h
    obtain ⟨raft, e, hx, hr⟩ := unitRes_ok h
    exact ofV (Res.Post.of_eq (rawStep_vinv _ m) hx).rebaseRand hr
  | rstep m => exact absurd rfl (hop.2 m)
  | propose c d =>
    simp only [applyOp] at h
    obtain ⟨raft, e, hx, hr⟩ := unitRes_ok h
    exact ofV (Res.Post.of_eq (localStep_vinv _ _ rfl) hx).rebaseRand hr
  | proposeCc t c d =>
    simp only [applyOp] at h
    obtain ⟨raft, e, hx, hr⟩ := unitRes_ok h
    exact ofV (Res.Post.of_eq (localStep_vinv _ _ rfl) hx).rebaseRand hr
  | readIndex c =>
    simp only [applyOp] at h
    obtain ⟨raft, hx, hr⟩ := okRes_ok h
    exact ofV (Res.Post.of_eq (localStepIgnore_vinv _ _ rfl) hx).rebaseRand hr
  | transferLeader x =>
    simp only [applyOp] at h
    obtain ⟨raft, hx, hr⟩ := okRes_ok h
    exact ofV (Res.Post.of_eq (localStepIgnore_vinv _ _ rfl) hx).rebaseRand hr
  | campaign =>
    simp only [applyOp] at h
    obtain ⟨raft, e, hx, hr⟩ := unitRes_ok h
    exact ofV (Res.Post.of_eq (localStep_vinv _ _ rfl) hx).rebaseRand hr
  | ping =>
    simp only [applyOp] at h
    obtain ⟨raft, hx, hr⟩ := okRes_ok h
    exact ofV (hrefl.vf (Res.Post.of_eq (ping_vf _) hx)) hr
  | requestSnapshot =>
    simp only [applyOp] at h
    obtain ⟨raft, e, hx, hr⟩ := unitRes_ok h
    exact ofV (hrefl.vf (Res.Post.of_eq (P := fun x => VF _ x.1) (requestSnapshot_vf _) hx)) hr
  | reportUnreachable x =>
    simp only [applyOp] at h
    obtain ⟨raft, hx, hr⟩ := okRes_ok h
    exact ofV (Res.Post.of_eq (localStepIgnore_vinv _ _ rfl) hx).rebaseRand hr
  | reportSnapshot x f =>
    simp only [applyOp] at h
    obtain ⟨raft, hx, hr⟩ := okRes_ok h
    exact ofV (Res.Post.of_eq (localStepIgnore_vinv _ _ rfl) hx).rebaseRand hr
  | applyConfChange cc =>
    simp only [applyOp] at h
    split at h
    · rename_i raft cs heq
      cases h
      exact ofV (Res.Post.of_eq (applyConfChange_vinv _ cc) heq).rebaseRand rfl
    · rename_i raft e heq
      cases h
      exact ofV (Res.Post.of_eq (applyConfChange_vinv _ cc) heq).rebaseRand rfl
    · cases h
    · cases h
  | stabilize =>
    simp only [applyOp, Node.stabilize] at h
    split at h
    · rename_i l hl0
      have hl : ({ st.raft with nextRand := rnd } : Raft).raftLog.stabilise = .ok l := hl0
      cases h
      right; right
      refine ⟨rfl, ?_⟩
      show l.store.hardState.commit = _
      rw [stabilise_hs hl]
    · cases h
    · cases h
  | onPersistEntries i t =>
    simp only [applyOp] at h
    obtain ⟨raft, hx, hr⟩ := okRes_ok h
    exact ofV (hrefl.vf (Res.Post.of_eq (onPersistEntries_vf _ _ _) hx)) hr
  | persistSnap =>
    simp only [applyOp] at h
    unfold Node.persistSnap at h
    simp only [] at h
    have hsn' : ({ st.raft with nextRand := rnd } : Raft).raftLog.unstable.snapshot = none := hsn
    rw [hsn'] at h
    simp only [] at h
    cases h
    exact .inl rfl
  | commitApply k =>
    simp only [applyOp, Node.commitApply] at h
    split at h
    · rename_i r2 hb
      rw [Res.bind_eq_ok_iff] at hb
      obtain ⟨r1, h1, h2⟩ := hb
      have hv1 : VInv st.raft mLocal r1 := by
        split at h1
        · split at h1
          · cases h1; exact hrefl.vf (reduceUncommittedSize_vf _ _)
          · cases h1; exact hrefl
          · cases h1
        · cases h1; exact hrefl
      have hv2 : VInv st.raft mLocal r2 := hv1.vf (Res.Post.of_eq (commitApply_vf _ _) h2)
      cases h
      split
      · refine .inr (.inl ⟨k, rfl, ?_⟩)
        show ({ r2.raftLog.store.hardState with commit := k } : HardState) = _
        rw [hv2.hs]
      · exact .inl (by rw [hv2.hs])
    · cases h
    · cases h
  | compact k =>
    simp only [applyOp] at h
    split at h
    · rename_i store hc
      cases h
      exact .inl (by show store.hardState = _; rw [compact_hs hc])
    · cases h
    · cases h
  | drain => exact absurd rfl hop.1
  | triggerSnap =>
    simp only [applyOp] at h
    cases h; exact .inl rfl
  | triggerLog b =>
    simp only [applyOp] at h
    cases h; exact .inl rfl
  | setPriority p =>
    simp only [applyOp] at h
    cases h; exact .inl rfl
  | setBatchAppend b =>
    simp only [applyOp] at h
    cases h; exact .inl rfl
  | skipBcastCommit b =>
    simp only [applyOp] at h
    cases h; exact .inl rfl
  | setCheckQuorum b =>
    simp only [applyOp] at h
    cases h; exact .inl rfl
  | adjustMaxInflight id cap =>
    simp only [applyOp] at h
    obtain ⟨raft, hx, hr⟩ := okRes_ok h
    exact ofV (hrefl.vf (Res.Post.of_eq (adjustMaxInflightMsgs_vf _ _ _) hx)) hr
  | maybeFreeInflightBuffers =>
    simp only [applyOp] at h
    cases h; exact .inl rfl
  | enableGroupCommit b =>
    simp only [applyOp] at h
    obtain ⟨raft, hx, hr⟩ := okRes_ok h
    exact ofV (hrefl.vf (Res.Post.of_eq (enableGroupCommit_vf _ _) hx)) hr
  | assignCommitGroups v =>
    simp only [applyOp] at h
    obtain ⟨raft, hx, hr⟩ := okRes_ok h
    exact ofV (hrefl.vf (Res.Post.of_eq (assignCommitGroups_vf _ _) hx)) hr
  | clearCommitGroup =>
    simp only [applyOp] at h
    cases h; exact .inl rfl
  | checkGroupCommitConsistent =>
    simp only [applyOp] at h
    split at h
    · cases h; exact .inl rfl
    · cases h; exact .inl rfl
    · cases h
    · cases h
  | setMaxApplyUnpersistedLogLimit x =>
    simp only [applyOp] at h
    cases h; exact .inl rfl
  | setMaxCommittedSizePerReady x =>
    simp only [applyOp] at h
    cases h; exact .inl rfl
  | onEntriesFetched to term aggr =>
    rcases onEntriesFetched_ok h with h | ⟨-, -, -, raft, hx, h⟩
    · cases h; exact .inl rfl
    · cases h
      rcases hx with hx | hx
      · exact ofV (hrefl.vf (Res.Post.of_eq (sendAppendAggressively_vf _ _) hx)) rfl
      · exact ofV (hrefl.vf (Res.Post.of_eq (sendAppend_vf _ _) hx)) rfl

end CC
end Raft
end RaftModel
