import RaftProofs.ClusterSnap3C
import RaftProofs.ClusterCommit4M

/-!
Commit safety of `ClusterSem` with log compaction, part 3D: **a concrete history with a
`MsgReadIndexResp` in the transport and, later, a real compaction** (kernel-evaluated) that satisfies
`Snap.Hyp3w` — the hypotheses of `RaftProps/C01g.lean`, under which neither `norir` nor `anch` is
assumed.

The history of `ClusterCommit4M` (`c01y_hist`: node 1 leads term 1 with commit index 1; node 3 asks for
a read index, node 1 answers with a `MsgReadIndexResp`, whose delivery moves the commit index of node 3
from 0 to 1) continued by nine steps as in `ClusterSnapU`: node 1 is proposed an entry (index 2),
persists it and sends its `MsgAppend`; node 2 is delivered it, persists and sends its accepting
response; node 1 is delivered the response and moves its commit index to 2; finally the application of
node 1 **compacts its log up to index 2** (`compact 2`).
-/
namespace RaftModel
namespace Cluster
namespace Snap
open Node Raft Raft.CC RaftProps.C02 RaftProps.C05

def gx_a13 := c02x_st (Node.call c01y_a12 none (.propose [] [1]))
def gx_a14 := c02x_st (Node.call gx_a13 none .stabilize)
def gx_a15 := c02x_st (Node.call gx_a14 none (.onPersistEntries 2 1))
def gx_a16 := c02x_st (Node.call gx_a15 none .drain)

def gx_app := gx_a15.raft.msgs.head!
def gx_b9 := c02x_st (Node.call c01y_b8 none (.step gx_app))
def gx_b10 := c02x_st (Node.call gx_b9 none .stabilize)
def gx_b11 := c02x_st (Node.call gx_b10 none .drain)

def gx_ack := gx_b10.raft.msgs.head!
def gx_a17 := c02x_st (Node.call gx_a16 none (.step gx_ack))

def gx_a18 := c02x_st (Node.call gx_a17 none (.compact 2))

def gx_s26 : Sys := c01y_s25.setNode 1 gx_a13
def gx_s27 : Sys := gx_s26.setNode 1 gx_a14
def gx_s28 : Sys := gx_s27.setNode 1 gx_a15
def gx_s29 : Sys := { (gx_s28.setNode 1 gx_a16) with net := gx_s28.net ++ gx_a15.raft.msgs }
def gx_s30 : Sys := gx_s29.setNode 2 gx_b9
def gx_s31 : Sys := gx_s30.setNode 2 gx_b10
def gx_s32 : Sys := { (gx_s31.setNode 2 gx_b11) with net := gx_s31.net ++ gx_b10.raft.msgs }
def gx_s33 : Sys := gx_s32.setNode 1 gx_a17
def gx_s34 : Sys := gx_s33.setNode 1 gx_a18

def gx_tail : List Sys := [gx_s26, gx_s27, gx_s28, gx_s29, gx_s30, gx_s31, gx_s32, gx_s33, gx_s34]
def gx_hist : List Sys := c01y_hist ++ gx_tail

set_option maxRecDepth 100000 in
theorem gx_ksteps_tail : Chained KStep (c01y_s25 :: gx_tail) := by
  refine ⟨?_, ?_, ?_, ?_, ?_, ?_, ?_, ?_, ?_, trivial⟩
  · exact KStep.call _ 1 c01y_a12 gx_a13 none (.propose [] [1]) _ rfl rfl
      (fun k hc => by cases hc) (fun k hc => by cases hc) (c02x_out _ (by decide))
  · exact KStep.call _ 1 gx_a13 gx_a14 none .stabilize _ rfl rfl
      (fun k hc => by cases hc) (fun k hc => by cases hc) (c02x_out _ (by decide))
  · exact KStep.call _ 1 gx_a14 gx_a15 none (.onPersistEntries 2 1) _ rfl rfl
      (fun k hc => by cases hc) (fun k hc => by cases hc) (c02x_out _ (by decide))
  · exact KStep.send _ 1 gx_a15 gx_a16 rfl ⟨by decide, by decide⟩
      (fun hc => absurd (by decide) hc) rfl
  · exact KStep.deliver _ 2 c01y_b8 gx_b9 none gx_app _ rfl
      (List.mem_append_right _ (c02x_head_mem _ (by decide))) (by decide) (c02x_out _ (by decide))
  · exact KStep.call _ 2 gx_b9 gx_b10 none .stabilize _ rfl rfl
      (fun k hc => by cases hc) (fun k hc => by cases hc) (c02x_out _ (by decide))
  · exact KStep.send _ 2 gx_b10 gx_b11 rfl ⟨by decide, by decide⟩
      (fun _ => ⟨by decide, rfl⟩) rfl
  · exact KStep.deliver _ 1 gx_a16 gx_a17 none gx_ack _ rfl
      (List.mem_append_right _ (c02x_head_mem _ (by decide))) (by decide) (c02x_out _ (by decide))
  · exact KStep.call _ 1 gx_a17 gx_a18 none (.compact 2) _ rfl rfl
      (fun k hc => by cases hc; exact ⟨by decide, by decide⟩) (fun k hc => by cases hc)
      (c02x_out _ (by decide))

theorem gx_hist_eq : gx_hist =
    (c01x_hist ++ [c01y_s15, c01y_s16, c01y_s17, c01y_s18, c01y_s19, c01y_s20, c01y_s21, c01y_s22,
      c01y_s23, c01y_s24]) ++ c01y_s25 :: gx_tail := by
  simp [gx_hist, c01y_hist, c01y_tail]

theorem gx_ksteps : Chained KStep gx_hist := by
  rw [gx_hist_eq]
  refine chained_append _ _ _ ?_ gx_ksteps_tail
  have := Chained.mono (fun _ _ hc => KStep.of_old hc) _ c01y_ksteps_all
  simpa [c01y_hist, c01y_tail] using this

theorem gx_history : History gx_hist := by
  rw [gx_hist_eq]
  refine chained_history _ c01y_s25 ?_ _ (Chained.mono (fun _ _ hc => hc.step) _ gx_ksteps_tail)
  have := c01y_history
  simpa [c01y_hist, c01y_tail] using this

/-- what `Snap.Hyp3w` assumes about the transport and the nodes of one state: no `MsgSnapshot`, no
pending snapshot -/
def gx_chk (s : Sys) : Bool :=
  c02x_fixed s && c05x_nobatch s && s.net.all (fun x => decide (c01y_msgOk x)) &&
  s.nodes.all (fun p => cx_nodeOk p.2)

theorem gx_chk_ok (s : Sys) (h : gx_chk s = true) :
    FixedCfg c02x_cfg s ∧ NoBatch s ∧ (∀ x ∈ s.net, x.msgType ≠ .msgSnapshot) ∧
    ∀ i st, s.node i = some st → st.raft.raftLog.unstable.snapshot = none := by
  unfold gx_chk at h
  simp only [Bool.and_eq_true] at h
  obtain ⟨⟨⟨h1, h2⟩, h3⟩, h4⟩ := h
  refine ⟨c02x_fixed_ok s h1, c05x_nobatch_ok s h2, fun x hx => ?_, fun i st hi => ?_⟩
  · rw [List.all_eq_true] at h3
    exact of_decide_eq_true (h3 x hx)
  · rw [List.all_eq_true] at h4
    have := h4 _ (c02_lookup_mem s.nodes i st hi)
    unfold cx_nodeOk at this
    simpa [Option.isNone_iff_eq_none] using this

set_option maxRecDepth 100000 in
theorem gx_chk_tail : ∀ s ∈ gx_tail, gx_chk s = true := by
  intro s hs
  simp only [gx_tail, List.mem_cons, List.not_mem_nil, or_false] at hs
  rcases hs with rfl | rfl | rfl | rfl | rfl | rfl | rfl | rfl | rfl <;> decide

theorem gx_chk_all : ∀ s ∈ gx_hist, gx_chk s = true := by
  intro s hs
  rcases List.mem_append.1 hs with c | c
  · have h1 := c01y_chk_all s c
    unfold c01y_chk at h1
    unfold gx_chk
    simp only [Bool.and_eq_true] at h1 ⊢
    obtain ⟨⟨⟨a1, a2⟩, a3⟩, a4⟩ := h1
    refine ⟨⟨⟨a1, a2⟩, a3⟩, ?_⟩
    rw [List.all_eq_true] at a4 ⊢
    intro p hp
    have := a4 p hp
    unfold c01x_nodeOk at this
    simp only [Bool.and_eq_true] at this
    exact this.1.1
  · exact gx_chk_tail s c

set_option maxRecDepth 100000 in
/-- **the history satisfies every hypothesis of `RaftProps/C01g.lean`** -/
theorem gx_hyp3w : Hyp3w c02x_cfg 0 gx_hist := by
  have h0 : gx_hist[0]? = some c02x_s0 := rfl
  have hall := fun s hs => gx_chk_ok s (gx_chk_all s hs)
  have hboot : ∀ i st, c02x_s0.node i = some st →
      (i = 1 ∧ st = c02x_boot 1) ∨ (i = 2 ∧ st = c02x_boot 2) ∨ (i = 3 ∧ st = c02x_boot 3) := by
    intro i st hi
    have hm := c02_lookup_mem _ i st hi
    simp only [c02x_s0, List.mem_cons, Prod.mk.injEq, List.not_mem_nil, or_false] at hm
    rcases hm with ⟨rfl, rfl⟩ | ⟨rfl, rfl⟩ | ⟨rfl, rfl⟩
    · exact .inl ⟨rfl, rfl⟩
    · exact .inr (.inl ⟨rfl, rfl⟩)
    · exact .inr (.inr ⟨rfl, rfl⟩)
  refine ⟨⟨⟨gx_history, fun s hs => (hall s hs).1, by decide, by decide, by decide, ?_,
    chained_at _ gx_ksteps, fun s hs => (hall s hs).2.1, fun s hs x hx => (hall s hs).2.2.1 x hx⟩,
    c01x_nolone, fun s hs i st hi => (hall s hs).2.2.2 i st hi, ?_, ?_⟩, ?_⟩
  · intro s hs
    rw [h0] at hs; cases hs
    exact c05x_initOk
  · intro s hs i st hi
    rw [h0] at hs; cases hs
    rcases hboot i st hi with ⟨rfl, rfl⟩ | ⟨rfl, rfl⟩ | ⟨rfl, rfl⟩ <;> decide
  · intro s hs i st hi
    rw [h0] at hs; cases hs
    rcases hboot i st hi with ⟨rfl, rfl⟩ | ⟨rfl, rfl⟩ | ⟨rfl, rfl⟩ <;> decide
  · intro s hs i st hi t0 ht0 j st0 _
    rw [h0] at hs; cases hs
    have hz : ∀ i, i = 1 ∨ i = 2 ∨ i = 3 → (c02x_boot i).raft.raftLog.abs.snapTerm = some 0 := by
      intro i hi
      rcases hi with rfl | rfl | rfl <;> decide
    have : t0 = 0 := by
      rcases hboot i st hi with ⟨rfl, rfl⟩ | ⟨rfl, rfl⟩ | ⟨rfl, rfl⟩
      · rw [hz 1 (.inl rfl)] at ht0; cases ht0; rfl
      · rw [hz 2 (.inr (.inl rfl))] at ht0; cases ht0; rfl
      · rw [hz 3 (.inr (.inr rfl))] at ht0; cases ht0; rfl
    omega

end Snap
end Cluster
end RaftModel
