import RaftProofs.ClusterLogF

/-!
Cluster-level Log Matching, helper lemmas part G: the storage-side steps of the emulated application
(`stabilize`, `persist_snap`, `commit_apply`, `compact`) and `RawNode::new` as effects on the logical
log and on the stored entries.
-/
namespace RaftModel

/-- the storage contract for `compact k` that the representation invariant needs: nothing beyond the
commit index and nothing that is not yet persisted is compacted away (the documented contract —
"compact only what has been applied", design assumption A5 — implies `k ≤ applied ≤ committed`
outside the restart window, and with the default `max_apply_unpersisted_log_limit = 0` also
`applied ≤ persisted`; this is the weaker form the proofs use) -/
def CompactOk (l : RaftLog) (k : Nat) : Prop := k ≤ l.committed ∧ k ≤ l.persisted

/-- replacing the storage by one with the same entries and snapshot point -/
theorem Inv_store_core {l : RaftLog} (h : l.Inv) (s' : MemStorage)
    (he : s'.entries = l.store.entries) (hm : s'.snapshotMetadata = l.store.snapshotMetadata) :
    RaftLog.Inv { l with store := s' } ∧ ({ l with store := s' } : RaftLog).abs = l.abs ∧
    ({ l with store := s' } : RaftLog).lastIndex = l.lastIndex := by
  have hf : s'.firstIndex = l.store.firstIndex := by unfold MemStorage.firstIndex; rw [he, hm]
  have hl : s'.lastIndex = l.store.lastIndex := by unfold MemStorage.lastIndex; rw [he, hm]
  have hfi : ({ l with store := s' } : RaftLog).firstIndex = l.firstIndex := by
    unfold RaftLog.firstIndex; dsimp only; rw [hf]
  have hli : ({ l with store := s' } : RaftLog).lastIndex = l.lastIndex := by
    unfold RaftLog.lastIndex; dsimp only; rw [hl]
  refine ⟨⟨⟨by rw [he, hf]; exact h.storeWF.contig, by rw [hm, hf]; exact h.storeWF.snap_lt⟩,
    h.unstWF, ?_, ?_, ?_, by rw [hfi]; exact h.dummy_le_committed,
    by rw [hli]; exact h.committed_le_last, h.persisted_lt_off, ?_⟩, ?_, hli⟩
  · intro hs; show s'.firstIndex ≤ _; rw [hf]; exact h.first_le_off hs
  · intro hs; show _ ≤ s'.lastIndex + 1; rw [hl]; exact h.off_le_last hs
  · intro hs hn; show _ = s'.lastIndex + 1; rw [hl]; exact h.ents_empty hs hn
  · show _ ≤ s'.lastIndex; rw [hl]; exact h.persisted_le_store
  · unfold RaftLog.abs
    dsimp only
    rw [he, hm, hf]

/-- with nothing unstable the logical log is the storage's own log -/
theorem abs_eq_storeLog {l : RaftLog} (h : l.Inv) (hs : l.unstable.snapshot = none)
    (he : l.unstable.entries = []) : l.abs = storeLog l.store := by
  have h1 := h.ents_empty hs he
  have h2 := h.storeWF.last_succ
  rw [RaftLog.abs_none hs]
  unfold storeLog
  rw [he, List.append_nil, List.take_of_length_le (by omega)]

/-- `MemStorage::compact` as a compaction of the storage's log -/
theorem storeLog_compact {s s' : MemStorage} (hw : s.WF) (ci : Nat) (hci : ci ≤ s.lastIndex)
    (h : s.compact ci = .ok s') : Sub (storeLog s') (storeLog s) := by
  obtain ⟨s2, h2, _, hfirst, _, hsnap, hents⟩ := RaftProps.C14.store_compact_ok hw ci (.inl hci)
  rw [h] at h2
  cases h2
  have hsl := hw.last_succ
  have hp := hw.first_pos
  by_cases hle : ci ≤ s.firstIndex
  · have : storeLog s' = storeLog s := by
      unfold storeLog
      rw [hfirst, hsnap, hents, Nat.max_eq_left hle, show ci - s.firstIndex = 0 by omega]
      rfl
    rw [this]; exact Sub.refl _
  · have hsn := hw.snap_lt
    have : storeLog s' = (storeLog s).compactTo (ci - 1) := by
      unfold storeLog LLog.compactTo
      dsimp only
      rw [hfirst, hsnap, hents, Nat.max_eq_right (by omega),
        if_neg (show ¬ ci - 1 ≤ s.firstIndex - 1 by omega),
        if_neg (show ¬ ci - 1 = s.snapshotMetadata.index by omega)]
      congr 2
      omega
    rw [this]
    apply Sub.compactTo
    unfold storeLog LLog.lastIndex
    dsimp only
    omega

namespace Raft
open Node

/-- an effect that only touched fields the effect does not read -/
theorem Eff.of_fields {r r' : Raft} {m : Message} (hinv : r.raftLog.Inv)
    (hl : r'.raftLog = r.raftLog) (hm : r'.msgs = r.msgs) : Eff r r' m :=
  ⟨by rw [hl]; exact hinv, .inl (by rw [hl]; exact Sub.refl _), .inl (by rw [hl]; exact Sub.refl _),
    fun x hx _ => .inl (by rw [← hm]; exact hx),
    fun _ _ _ => ⟨by rw [hl]; exact Nat.le_refl _, fun i e he _ => by rw [hl]; exact he⟩⟩

/-- … or the storage's bookkeeping fields (hard state, configuration, test triggers) -/
theorem Eff.of_store_core {r r' : Raft} {m : Message} (hinv : r.raftLog.Inv) (s' : MemStorage)
    (hl : r'.raftLog = { r.raftLog with store := s' }) (he : s'.entries = r.raftLog.store.entries)
    (hsm : s'.snapshotMetadata = r.raftLog.store.snapshotMetadata) (hm : r'.msgs = r.msgs) :
    Eff r r' m := by
  obtain ⟨h1, h2, h3⟩ := Inv_store_core hinv s' he hsm
  refine ⟨by rw [hl]; exact h1, .inl ?_, .inl (by rw [hl, h2]; exact Sub.refl _),
    fun x hx _ => .inl (by rw [← hm]; exact hx),
    fun _ _ _ => ⟨by rw [hl, h3]; exact Nat.le_refl _, fun i e hh _ => by rw [hl, h2]; exact hh⟩⟩
  rw [hl]
  show Sub (storeLog s') _
  rw [storeLog_eq_of_core he hsm]; exact Sub.refl _

/-- an effect followed by an update of the storage's bookkeeping fields that keeps the stored term -/
theorem Eff.then_store_core {r r1 r2 : Raft} {m : Message} (h : Eff r r1 m) (s' : MemStorage)
    (hl : r2.raftLog = { r1.raftLog with store := s' })
    (he : s'.entries = r1.raftLog.store.entries)
    (hsm : s'.snapshotMetadata = r1.raftLog.store.snapshotMetadata)
    (hhs : s'.hardState.term = r1.raftLog.store.hardState.term)
    (hm : r2.msgs = r1.msgs) (hs : r2.state = r1.state) (ht : r2.term = r1.term) : Eff r r2 m := by
  obtain ⟨h1, h2, h3⟩ := Inv_store_core h.inv s' he hsm
  have hsl : storeLog r2.raftLog.store = storeLog r1.raftLog.store := by
    rw [hl]; exact storeLog_eq_of_core he hsm
  have habs : r2.raftLog.abs = r1.raftLog.abs := by rw [hl]; exact h2
  have hlast : r2.raftLog.lastIndex = r1.raftLog.lastIndex := by rw [hl]; exact h3
  refine ⟨by rw [hl]; exact h1, ?_, ?_, ?_, ?_⟩
  · rw [hsl]
    rcases h.sto with c | ⟨c, c2⟩
    · exact .inl c
    · exact .inr ⟨c, by rw [hl, ht]; exact hhs.trans c2⟩
  · rw [habs]
    rcases h.log with c | ⟨es, c⟩ | ⟨c1, c2, c3⟩
    · exact .inl c
    · exact .inr (.inl ⟨es, ⟨c.ne, habs.trans c.abs, c.contig, by rw [ht]; exact c.terms,
        hlast.trans c.last, by rw [hl]; exact h1, by rw [hl]; exact c.commit,
        hs.trans c.leader⟩⟩)
    · exact .inr (.inr ⟨c1, by rw [hs]; exact c2, c3⟩)
  · rw [hm, habs]; exact h.q
  · rw [hs, ht, habs, hlast]; exact h.keep

/-! ### `stabilize` -/

theorem stabilize_eff {st st' : NState} {res : OpRes} {m : Message} (hinv : st.raft.raftLog.Inv)
    (h : Node.stabilize st = .ok (res, st')) : Eff st.raft st'.raft m ∧ RT st.raft st'.raft := by
  unfold Node.stabilize at h
  simp only [] at h
  split at h
  · rename_i l hl0
    have hl : st.raft.raftLog.stabilise = .ok l := hl0
    cases h
    refine ⟨?_, RT.rfl.ts rfl rfl⟩
    -- the log after the storage append
    have hl' : l.Inv ∧ l.abs = st.raft.raftLog.abs ∧ l.lastIndex = st.raft.raftLog.lastIndex ∧
        (Sub (storeLog l.store) (storeLog st.raft.raftLog.store) ∨
          Sub (storeLog l.store) st.raft.raftLog.abs) := by
      cases hs : st.raft.raftLog.unstable.snapshot with
      | none =>
        obtain ⟨l2, e2, i2, a2, _, _, _, u2, s2, _⟩ := RaftProps.C14.stabilise_ok hinv hs
        rw [hl] at e2
        cases e2
        refine ⟨i2, a2, by rw [i2.lastIndex_abs, hinv.lastIndex_abs, a2], .inr ?_⟩
        rw [← abs_eq_storeLog i2 s2 u2, a2]; exact Sub.refl _
      | some sn =>
        by_cases hne : st.raft.raftLog.unstable.entries = []
        · have : st.raft.raftLog.stabilise = .ok st.raft.raftLog := by
            unfold RaftLog.stabilise; rw [hne]; rfl
          rw [this] at hl
          cases hl
          exact ⟨hinv, rfl, rfl, .inl (Sub.refl _)⟩
        · obtain ⟨s, hp⟩ := RaftProps.C14.stabilise_pending_panics hinv sn hs hne
          rw [hp] at hl; cases hl
    obtain ⟨i1, a1, la1, s1⟩ := hl'
    obtain ⟨i2, a2, la2⟩ := Inv_store_core i1
      (l.store.setHardState { l.store.hardState with term := st.raft.term, vote := st.raft.vote })
      rfl rfl
    refine ⟨i2, ?_, .inl (by show Sub (RaftLog.abs _) _; rw [a2, a1]; exact Sub.refl _),
      fun x hx _ => .inl hx,
      fun _ _ _ => ⟨by show _ ≤ RaftLog.lastIndex _; rw [la2, la1]; exact Nat.le_refl _,
        fun i e he _ => by show (RaftLog.abs _).entryAt i = _; rw [a2, a1]; exact he⟩⟩
    have hsl : storeLog (l.store.setHardState
        { l.store.hardState with term := st.raft.term, vote := st.raft.vote }) = storeLog l.store :=
      storeLog_eq_of_core rfl rfl
    rcases s1 with s1 | s1
    · exact .inl (by show Sub (storeLog _) _; rw [hsl]; exact s1)
    · exact .inr ⟨by show Sub (storeLog _) _; rw [hsl]; exact s1, rfl⟩
  · cases h
  · cases h

/-! ### `persist_snap` -/

theorem persistSnap_eff {st st' : NState} {res : OpRes} {m : Message} (hinv : st.raft.raftLog.Inv)
    (h : Node.persistSnap st = .ok (res, st')) : Eff st.raft st'.raft m ∧ RT st.raft st'.raft := by
  unfold Node.persistSnap at h
  simp only [] at h
  split at h
  · cases h; exact ⟨Eff.of_fields hinv rfl rfl, RT.rfl⟩
  · rename_i sn hsn
    split at h
    · cases h; exact ⟨Eff.of_fields hinv rfl rfl, RT.rfl⟩
    · cases h
    · rename_i store hap
      split at h
      · cases h
      · cases h
      · rename_i l hl
        split at h
        · rename_i raft hop
          cases h
          have hvf := Res.Post.of_eq (CV.onPersistSnap_vf _ _) hop
          have hge : st.raft.raftLog.store.firstIndex ≤ sn.metadata.index := by
            unfold MemStorage.applySnapshot at hap
            dsimp only at hap
            split at hap
            · cases hap
            · omega
          have hents : store.entries = [] := by
            unfold MemStorage.applySnapshot at hap
            dsimp only at hap
            split at hap
            · cases hap
            · cases hap; rfl
          unfold Raft.onPersistSnap at hop
          split at hop
          · rename_i l2 b hmp
            cases hop
            have hps : st.raft.raftLog.persistSnapshot = .ok l2 := by
              unfold RaftLog.persistSnapshot
              rw [hsn]
              simp only []
              rw [hap]
              simp only []
              rw [hl]
              simp only []
              rw [hmp]
            obtain ⟨l3, e3, i3, a3, _⟩ := RaftProps.C14.persistSnapshot_ok hinv sn hsn hge
            rw [hps] at e3
            cases e3
            have hst2 : l2.store = store := by
              rw [RaftModel.C06.maybePersistSnap_store hmp, RaftModel.C06.stableSnap_store hl]
            have hlast : l2.lastIndex = st.raft.raftLog.lastIndex := by
              rw [i3.lastIndex_abs, hinv.lastIndex_abs, a3]
            refine ⟨⟨i3, .inl (Sub.of_no_entries (by show l2.store.entries = []; rw [hst2]; exact hents)),
              .inl (by show Sub l2.abs _; rw [a3]; exact Sub.refl _), fun x hx _ => .inl hx,
              fun _ _ _ => ⟨(by show _ ≤ l2.lastIndex; rw [hlast]; exact Nat.le_refl _),
                fun i e he _ => (by show l2.abs.entryAt i = _; rw [a3]; exact he)⟩⟩, ?_⟩
            exact RT.rfl.ts rfl rfl
          · cases hop
          · cases hop
        · cases h
        · cases h

/-! ### `commit_apply` -/

theorem commitApplyInternal_k {r r' : Raft} {applied : Nat} {skip : Bool}
    (hinv : r.raftLog.Inv) (h : r.commitApplyInternal applied skip = .ok r') :
    K0 r r' ∨ ∃ es, AppendedK r r' es := by
  unfold Raft.commitApplyInternal at h
  simp only [] at h
  split at h
  · cases h
  · cases h
  · rename_i log hlog
    obtain ⟨a', hl, _, _⟩ := RaftProps.PDGuards.applyCursor_cases _ _ _ _ hlog
    have hinv1 : log.Inv := by
      rw [hl]
      exact hinv.set_cursors r.raftLog.committed r.raftLog.persisted a' hinv.dummy_le_committed
        hinv.committed_le_last hinv.persisted_lt_off hinv.persisted_le_store
    have hk1 : K0 r ({ r with raftLog := log } : Raft) :=
      ⟨⟨⟨by rw [hl]; rfl, by rw [hl]; rfl, fun _ => hinv1, by rw [hl]; exact Nat.le_refl _⟩,
        by rw [hl], by rw [hl]⟩, rfl, fun x hx _ => .inl hx⟩
    split at h
    · rename_i hcond
      split at h
      · rename_i r2 happe
        cases h
        rcases appendEntry_k (r := { r with raftLog := log }) hinv1 hcond.2.2.2 happe with
          ⟨hb, _⟩ | ⟨_, he, _⟩ | ⟨_, hA, _⟩
        · cases hb
        · cases he
        · right
          have hA' := AppendedK.anchor hk1 hA
          exact ⟨_, ⟨⟨hA'.app.ne, hA'.app.abs, hA'.app.contig, hA'.app.terms, hA'.app.last,
            hA'.app.inv, hA'.app.commit, hA'.app.leader⟩,
            ⟨hA'.qs.ents, hA'.qs.smeta, hA'.qs.ba, hA'.qs.q⟩⟩⟩
      · cases h
      · cases h
      · cases h
    · cases h
      exact .inl hk1

theorem commitApply_eff {st st' : NState} {k : Nat} {res : OpRes} {m : Message} (hinv : st.raft.raftLog.Inv)
    (h : Node.commitApply st k = .ok (res, st')) :
    Eff st.raft st'.raft m ∧ RT st.raft st'.raft := by
  unfold Node.commitApply at h
  simp only [] at h
  split at h
  · rename_i r2 hb
    rw [Res.bind_eq_ok_iff] at hb
    obtain ⟨r1, h1, h2⟩ := hb
    have hr1 : r1.raftLog = st.raft.raftLog ∧ r1.msgs = st.raft.msgs ∧ r1.state = st.raft.state ∧
        r1.term = st.raft.term := by
      have hred : ∀ ents, (st.raft.reduceUncommittedSize ents).raftLog = st.raft.raftLog ∧
          (st.raft.reduceUncommittedSize ents).msgs = st.raft.msgs ∧
          (st.raft.reduceUncommittedSize ents).state = st.raft.state ∧
          (st.raft.reduceUncommittedSize ents).term = st.raft.term := by
        intro ents
        unfold Raft.reduceUncommittedSize
        split <;> exact ⟨rfl, rfl, rfl, rfl⟩
      split at h1
      · split at h1
        · cases h1; exact hred _
        · cases h1; exact ⟨rfl, rfl, rfl, rfl⟩
        · cases h1
      · cases h1; exact ⟨rfl, rfl, rfl, rfl⟩
    obtain ⟨e1, e2, e3, e4⟩ := hr1
    have hvf := Res.Post.of_eq (CV.commitApply_vf _ _) h2
    have hrt : RT st.raft r2 := RT.rfl.ts (hvf.term.trans e4) (hvf.state.trans e3)
    have heff : Eff st.raft r2 m := by
      have hinv1 : r1.raftLog.Inv := by rw [e1]; exact hinv
      unfold Raft.commitApply at h2
      have : Eff r1 r2 m := by
        rcases commitApplyInternal_k hinv1 h2 with c | ⟨es, c⟩
        · exact c.eff hinv1
        · exact c.eff
      exact this.rebase e1 e2 e3 e4
    cases h
    split
    · refine ⟨?_, hrt.ts rfl rfl⟩
      exact heff.then_store_core _ rfl rfl rfl rfl rfl rfl rfl
    · exact ⟨heff, hrt⟩
  · cases h
  · cases h

end Raft
end RaftModel
