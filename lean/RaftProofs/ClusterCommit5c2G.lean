import RaftProofs.ClusterCommit5c2F

/-!
Cluster-level commit safety **with `batch_append`** (copy of `ClusterCommit2G.lean` over `Hyp2wB`), part 2G: **a candidate's vote requests describe the end of its log**
(`req_inv`): while a node is candidate of term `T`, every real vote request of it for `T` — queued or
in the transport — carries its last index and last term.
-/
namespace RaftModel
namespace ClusterB
open Node Raft Raft.CC Raft.CB Raft.Bt Cluster RaftProps.C02 RaftProps.C05

variable {cfg : JointConfig} {c0 : Nat} {h : List Sys}

def ReqInv (s : Sys) : Prop :=
  ∀ x st, s.node x = some st → st.raft.state = .candidate →
    ∀ q, (q ∈ s.net ∨ q ∈ st.raft.msgs) → q.msgType = .msgRequestVote → q.frm = x →
      q.term = st.raft.term →
      q.index = st.raft.raftLog.lastIndex ∧ st.raft.raftLog.lastTerm = .ok q.logTerm

theorem req_inv (H : Hyp2wB cfg c0 h) : ∀ (n : Nat) (s : Sys), h[n]? = some s → ReqInv s := by
  have hall1 := (hist_all H.hist).1
  refine hist_induct h _ ?_ ?_
  · intro s h0 x st hx hs
    obtain ⟨c, store, rnd, _, hb⟩ := (hist_init H.hist s h0).2 x st hx
    rw [(CV.boot_booted c store rnd st hb).state] at hs; cases hs
  · intro n a b ha hb ih
    have I1 := hall1 a (mem_of_get ha)
    have hstep := H.steps n a b ha hb
    -- a real vote request of `x` that was around before the step, at a term `x` had not reached
    have noOld : ∀ x st q, a.node x = some st → (q ∈ a.net ∨ q ∈ st.raft.msgs) →
        q.msgType = .msgRequestVote → q.frm = x → q.term ≤ st.raft.term := by
      intro x st q hx hq hty hfrm
      have hrv : CV.isRVm q = true := by simp [CV.isRVm, hty]
      have hge : CV.Ge st.raft q.term (tgt q) := by
        rcases hq with g | g
        · obtain ⟨stq, h1, hok, _⟩ := I1.net q g hrv
          rw [hfrm, hx] at h1; cases h1
          exact hok.2.2.2.1
        · exact (I1.queue x st hx q g hrv).2.2.2.1
      rcases hge with c | ⟨c, _⟩ <;> omega
    have callCase : ∀ (k : Nat) (st st' : NState) (rnd : Option Nat) (op : NodeOp) (res : OpRes),
        a.node k = some st → (appOp op = true ∨ ∃ m, op = .step m ∧ m ∈ a.net ∧ m.to = k) →
        (∀ j, op ≠ .compact j) → Node.call st rnd op = .ok (res, st') → b = a.setNode k st' →
        ReqInv b := by
      intro k st st' rnd op res h1 hop hnc h4 hbe
      intro x stx hx hs q hq hty hfrm hterm
      by_cases hxk : x = k
      · subst hxk
        have hxb : b.node x = some st' := by rw [hbe]; exact node_setNode_self a x st'
        rw [hxb] at hx; cases hx
        obtain ⟨g, hL, _, _⟩ := call_factsB H ha hb h1 hxb (by rw [hbe]; rfl) hop hnc h4
        have hnet : b.net = a.net := by rw [hbe]; rfl
        -- a request queued in this call is accurate
        have fresh : q ∈ st'.raft.msgs → q ∉ st.raft.msgs →
            q.index = st'.raft.raftLog.lastIndex ∧ st'.raft.raftLog.lastTerm = .ok q.logTerm := by
          intro hq1 hq2
          rcases g.qrq q hq1 hty with c | c
          · exact absurd c hq2
          · exact ⟨c.last, c.lt⟩
        rcases hL.rt.cand hs with c | ⟨c1, c2⟩
        · -- the node became candidate of a new term in this step: every request of it is fresh
          have hold : ¬ (q ∈ a.net ∨ q ∈ st.raft.msgs) := by
            intro hc
            have := noOld x st q h1 hc hty hfrm
            omega
          rcases hq with g1 | g1
          · rw [hnet] at g1; exact absurd (.inl g1) hold
          · exact fresh g1 (fun hc => hold (.inr hc))
        · -- it was candidate of the term before: its log is untouched
          have hns := node_step H ha hb h1 hxb
          have hi1 := (node_okB H ha h1).inv
          have hi2 := (node_okB H hb hxb).inv
          have habs : st'.raft.raftLog.abs = st.raft.raftLog.abs := by
            cases hns with
            | same hl => exact hl
            | grew es hg => rw [hg.leader] at hs; cases hs
            | acc m _ _ _ _ _ _ hs' _ => rw [hs'] at hs; cases hs
            | restart _ hs' _ => rw [hs'] at hs; cases hs
          have e1 : st'.raft.raftLog.lastIndex = st.raft.raftLog.lastIndex := by
            rw [hi1.lastIndex_abs, hi2.lastIndex_abs, habs]
          have e2 : st'.raft.raftLog.lastTerm = st.raft.raftLog.lastTerm := by
            rw [hi1.lastTerm_abs, hi2.lastTerm_abs, habs]
          by_cases hold : q ∈ a.net ∨ q ∈ st.raft.msgs
          · have := ih x st h1 c2 q hold hty hfrm (by omega)
            rw [e1, e2]; exact this
          · rcases hq with g1 | g1
            · rw [hnet] at g1; exact absurd (.inl g1) hold
            · exact fresh g1 (fun hc => hold (.inr hc))
      · have hxa : a.node x = some stx := by
          rw [hbe, node_setNode_ne a k x st' hxk] at hx; exact hx
        have hnet : b.net = a.net := by rw [hbe]; rfl
        rw [hnet] at hq
        exact ih x stx hxa hs q hq hty hfrm hterm
    cases hstep with
    | call k st st' rnd op res h1 h2 h3 _ h4 =>
      exact callCase k st st' rnd op res h1 (.inl h2) h3 h4 rfl
    | deliver k st st' rnd m res h1 h2 h3 h4 =>
      exact callCase k st st' rnd (.step m) res h1 (.inr ⟨m, rfl, h2, h3⟩)
        (fun j hc => by cases hc) h4 rfl
    | send k st st' h1 h2 _ h3 =>
      have hf : st'.raft.msgs = [] ∧ st'.raft.state = st.raft.state ∧
          st'.raft.raftLog = st.raft.raftLog ∧ st'.raft.term = st.raft.term := by
        unfold Node.call at h3
        simp only [applyOp] at h3
        cases h3; exact ⟨rfl, rfl, rfl, rfl⟩
      obtain ⟨f1, f2, f3, f4⟩ := hf
      intro x stx hx hs q hq hty hfrm hterm
      have hx' : (a.setNode k st').node x = some stx := hx
      have hq' : q ∈ a.net ++ st.raft.msgs ∨ q ∈ stx.raft.msgs := hq
      by_cases hxk : x = k
      · subst hxk
        rw [node_setNode_self] at hx'; cases hx'
        rw [f3]
        rw [f2] at hs
        rw [f4] at hterm
        refine ih x st h1 hs q ?_ hty hfrm hterm
        rcases hq' with g | g
        · exact (List.mem_append.1 g).imp (fun c => c) (fun c => c)
        · rw [f1] at g; cases g
      · rw [node_setNode_ne a k x st' hxk] at hx'
        refine ih x stx hx' hs q ?_ hty hfrm hterm
        rcases hq' with g | g
        · rcases List.mem_append.1 g with c | c
          · exact .inl c
          · -- a queued real vote request carries its sender
            have hrv : CV.isRVm q = true := by simp [CV.isRVm, hty]
            have := (I1.queue k st h1 q c hrv).1
            exact absurd (hfrm.symm.trans this) hxk
        · exact .inr g
    | restart k st st' c rnd h1 h2 h3 =>
      intro x stx hx hs q hq hty hfrm hterm
      by_cases hxk : x = k
      · subst hxk
        rw [node_setNode_self] at hx; cases hx
        rw [(CV.boot_booted c _ rnd st' h3).state] at hs; cases hs
      · rw [node_setNode_ne a k x st' hxk] at hx
        exact ih x stx hx hs q hq hty hfrm hterm

end ClusterB
end RaftModel
