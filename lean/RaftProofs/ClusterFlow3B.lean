import RaftProofs.ClusterFlow3A
import RaftProofs.RaftNodeC04
import RaftProofs.ClusterVoteH

/-!
C13e helper lemmas, part B: the entry points of a node that do not go through the response handlers of
`Raft::step` — the local calls at a leader (`tick`, `propose`, `propose_conf_change`, `read_index`, `ping`),
the persistence / group-commit calls, `on_entries_fetched`, the knobs and the emulated application's steps —
queue no `MsgAppend` for a peer whose progress is held (`NA`), and the lifting to `Node.call`.
-/
namespace RaftModel
namespace Raft
namespace F3
open RaftProps.C13 Node

variable {pb : Bool}

/-- the conclusion at the level of one function: with the progress of `j` held before, the appends to `j`
of the queue are the same afterwards -/
def NA (pb : Bool) (j : Nat) (r r' : Raft) : Prop :=
  ∀ pr, r.prs.get j = some pr → Held pb pr → apOf j r'.msgs = apOf j r.msgs

theorem SK.na {j : Nat} {r r' : Raft} (h : SK pb j r r') : NA pb j r r' :=
  fun pr hg hh => (h pr hg hh).2

/-- held the same way afterwards, or the node left the leader role without queueing anything for `j` -/
def WK (pb : Bool) (j : Nat) (r r' : Raft) : Prop :=
  SK pb j r r' ∨ (r'.state ≠ .leader ∧ NA pb j r r')

theorem WK.na {j : Nat} {r r' : Raft} (h : WK pb j r r') : NA pb j r r' := by
  rcases h with h | h
  · exact h.na
  · exact h.2

theorem SK.of_get {j : Nat} {r r' : Raft} (hp : r'.prs.get j = r.prs.get j) (hm : r'.msgs = r.msgs) :
    SK pb j r r' := by
  intro pr hg _
  exact ⟨⟨pr, by rw [hp]; exact hg, SameHeld.refl pr⟩, by rw [hm]⟩

theorem SK.then_na {j : Nat} {a b c : Raft} (h1 : SK pb j a b) (h2 : NA pb j b c) : NA pb j a c := by
  intro pr hg hh
  obtain ⟨⟨pr1, hg1, hs1⟩, hm1⟩ := h1 pr hg hh
  exact (h2 pr1 hg1 (hs1.held hh)).trans hm1

theorem SK.then_wk {j : Nat} {a b c : Raft} (h1 : SK pb j a b) (h2 : WK pb j b c) : WK pb j a c := by
  rcases h2 with h2 | ⟨h2, h3⟩
  · exact Or.inl (h1.trans h2)
  · exact Or.inr ⟨h2, h1.then_na h3⟩

theorem lookup_mapv {α : Type} (g : Nat → α → α) (j : Nat) (l : List (Nat × α)) :
    (l.map (fun p => (p.1, g p.1 p.2))).lookup j = (l.lookup j).map (g j) := by
  induction l with
  | nil => rfl
  | cons a l ih =>
    obtain ⟨k, v⟩ := a
    simp only [List.map_cons, List.lookup_cons]
    by_cases h : j = k
    · subst h; simp
    · have : (j == k) = false := by simp [h]
      simp only [this]
      exact ih

theorem mapProgress_sk (j : Nat) (r : Raft) (f : Nat → Progress → Progress)
    (hf : ∀ id pr, SameHeld pb pr (f id pr)) : SK pb j r (r.mapProgress f) := by
  intro pr hg _
  refine ⟨⟨f j pr, ?_, hf j pr⟩, rfl⟩
  show ((r.prs.progress.map (fun p => (p.1, f p.1 p.2))).lookup j) = some (f j pr)
  rw [lookup_mapv]
  have : r.prs.progress.lookup j = some pr := hg
  rw [this]; rfl

theorem modifyProgress_sk (j : Nat) (r : Raft) (id : Nat) (f : Progress → Progress)
    (hf : ∀ pr, SameHeld pb pr (f pr)) : SK pb j r (r.modifyProgress id f) := by
  intro pr hg _
  have hg' : r.prs.progress.lookup j = some pr := hg
  by_cases h : j = id
  · subst h
    refine ⟨⟨f pr, ?_, hf pr⟩, rfl⟩
    show (NatMap.modify j f r.prs.progress).lookup j = some (f pr)
    rw [NatMap.lookup_modify_self, hg']; rfl
  · refine ⟨⟨pr, ?_, SameHeld.refl pr⟩, rfl⟩
    show (NatMap.modify id f r.prs.progress).lookup j = some pr
    rw [NatMap.lookup_modify_ne id j h, hg']

theorem setPr_sk (j : Nat) (r : Raft) (id : Nat) (p q : Progress) (hg : r.prs.get id = some p)
    (hs : j ≠ id ∨ SameHeld pb p q) : SK pb j r { r with prs := r.prs.set id q } := by
  intro pr hq hh
  by_cases h : j = id
  · subst h
    rw [hg] at hq; cases hq
    rcases hs with hs | hs
    · exact absurd rfl hs
    · exact ⟨⟨q, ProgressTracker.get_set_self _ _ _ _ hg, hs⟩, rfl⟩
  · refine ⟨⟨pr, ?_, SameHeld.refl pr⟩, rfl⟩
    show (r.prs.set id q).get j = some pr
    rw [ProgressTracker.get_set_ne _ _ _ _ h]; exact hq

theorem checkQuorumActive_sk (j : Nat) (r : Raft) : SK pb j r r.checkQuorumActive.1 := by
  have h : r.checkQuorumActive.1 =
      r.mapProgress (fun id pr => if id = r.id then { pr with recentActive := true }
        else { pr with recentActive := false }) := by
    simp only [checkQuorumActive, ProgressTracker.quorumRecentlyActive, mapProgress]
    congr 2
    apply List.map_congr_left
    intro p _
    split <;> rfl
  rw [h]
  apply mapProgress_sk
  intro id pr
  split <;> exact ⟨rfl, rfl, fun _ _ => rfl⟩

theorem updateCommitted_same (pr : Progress) (c : Nat) : SameHeld pb pr (pr.updateCommitted c) := by
  unfold Progress.updateCommitted
  split <;> exact ⟨rfl, rfl, fun _ _ => rfl⟩

theorem maybeCommit_sk (j : Nat) (r : Raft) : Res.Post (fun x => SK pb j r x.1) r.maybeCommit := by
  apply Res.post_intro
  intro ⟨r', b⟩ h
  obtain ⟨mci, gc, _, h2 | h2⟩ := RaftModel.Raft.maybeCommit_spec h
  · rw [h2.2.2.2.2]
    exact SK.trans (SK.of_eq rfl rfl) (modifyProgress_sk j _ _ _ (fun pr => updateCommitted_same pr mci))
  · rw [h2.2]; exact SK.refl j r

/-- `maybe_commit` followed by `bcast_append` when the commit index moved -/
theorem commitBcast_sk (j : Nat) (r : Raft) :
    Res.Post (fun x => SK pb j r x)
      (match r.maybeCommit with
        | .ok (r, true) => r.bcastAppend
        | .ok (r, false) => .ok r
        | .err e => .err e
        | .panic s => .panic s) := by
  have hc := maybeCommit_sk (pb := pb) j r
  split
  · rename_i r1 heq
    rw [heq] at hc
    exact Res.post_mono (bcastAppend_sk j r1) (fun a ha => SK.trans hc ha)
  · rename_i r1 heq
    rw [heq] at hc
    exact Res.post_ok hc
  · trivial
  · trivial

theorem commitBcast2_sk (j : Nat) (r : Raft) :
    Res.Post (fun x => SK pb j r x)
      (match r.maybeCommit with
        | .ok (r, true) => if r.shouldBcastCommit then r.bcastAppend else .ok r
        | .ok (r, false) => .ok r
        | .err e => .err e
        | .panic s => .panic s) := by
  have hc := maybeCommit_sk (pb := pb) j r
  split
  · rename_i r1 heq
    rw [heq] at hc
    split
    · exact Res.post_mono (bcastAppend_sk j r1) (fun a ha => SK.trans hc ha)
    · exact Res.post_ok hc
  · rename_i r1 heq
    rw [heq] at hc
    exact Res.post_ok hc
  · trivial
  · trivial

theorem send_sk (j : Nat) (r : Raft) (m : Message) (hm : m.msgType ≠ .msgAppend) :
    Res.Post (SK pb j r) (r.send m) := by
  apply Res.post_intro
  intro r' h
  rw [send_eq r r' _ h]
  intro pr hg _
  refine ⟨⟨pr, hg, SameHeld.refl pr⟩, ?_⟩
  show apOf j (r.msgs ++ [_]) = apOf j r.msgs
  rw [apOf_append, apOf_single_ty j _ (by rw [sendFill_msgType]; exact hm)]
  simp

theorem appendEntry_sk (j : Nat) (r : Raft) (es : List Entry) :
    Res.Post (fun x => SK pb j r x.1) (r.appendEntry es) := by
  apply Res.post_intro
  intro ⟨r', b⟩ h
  have hp := (RaftModel.Raft.appendEntry_spec h).2.1
  have hm1 : ∀ r1 b, r.maybeIncreaseUncommittedSize es = (r1, b) → r1.msgs = r.msgs := by
    intro r1 b hq
    rcases hX : r.uncommittedState.maybeIncreaseUncommittedSize es with ⟨u, b'⟩
    simp only [maybeIncreaseUncommittedSize, hX] at hq
    cases hq; rfl
  have hm : r'.msgs = r.msgs := by
    unfold appendEntry at h
    split at h
    · cases h; rfl
    · rename_i r1 heq
      have := hm1 _ _ heq
      dsimp only at h
      split at h
      · cases h; exact this
      · cases h
      · cases h
  exact SK.of_eq hp hm

theorem filterProposalEntry_sk (j : Nat) (r : Raft) (i : Nat) (e : Entry) :
    ∀ x, r.filterProposalEntry i e = some x → SK pb j r x.1 := by
  intro x h
  unfold filterProposalEntry at h
  dsimp only at h
  split at h
  · cases h
  · cases h; exact SK.refl j _
  · split at h <;> (try split at h) <;> cases h <;> exact SK.of_eq rfl rfl

theorem filterProposal_sk (j : Nat) : ∀ (es : List Entry) (r : Raft) (i : Nat),
    SK pb j r (r.filterProposal i es).1 := by
  intro es
  induction es with
  | nil => intro r i; exact SK.refl j _
  | cons e rest ih =>
    intro r i
    unfold filterProposal
    split
    · exact SK.refl j _
    · rename_i r1 e1 he
      have h1 : SK pb j r r1 := filterProposalEntry_sk j r i e _ he
      have h2 := ih r1 (i + 1)
      split
      · rename_i r2 es2 hf
        rw [hf] at h2
        exact h1.trans h2
      · rename_i r2 hf
        rw [hf] at h2
        exact h1.trans h2

theorem becomeFollower_na (j : Nat) (r : Raft) (t l : Nat) :
    (r.becomeFollower t l).state ≠ .leader ∧ NA pb j r (r.becomeFollower t l) := by
  refine ⟨by simp [becomeFollower], fun pr _ _ => ?_⟩
  have : (r.becomeFollower t l).msgs = r.msgs := by
    simp only [becomeFollower]
    exact RaftModel.Raft.reset_msgs r t
  rw [this]

/-- the local messages of a leader covered here -/
theorem stepLeader_local_wk (j : Nat) (r : Raft) (m : Message)
    (hm : m.msgType = .msgBeat ∨ m.msgType = .msgCheckQuorum ∨ m.msgType = .msgPropose ∨
      m.msgType = .msgReadIndex) :
    Res.Post (fun x => WK pb j r x.1) (r.stepLeader m) := by
  unfold stepLeader
  rcases hm with hm | hm | hm | hm <;> rw [hm] <;> dsimp only
  · exact Res.post_bind (bcastHeartbeat_sk j r) (fun a ha => Res.post_ok (Or.inl ha))
  · have hq := checkQuorumActive_sk (pb := pb) j r
    split
    · exact Res.post_ok (Or.inr ⟨(becomeFollower_na (pb := pb) j _ _ _).1, hq.then_na (becomeFollower_na (pb := pb) j _ _ _).2⟩)
    · exact Res.post_ok (Or.inl hq)
  · split
    · trivial
    · split
      · exact Res.post_ok (Or.inl (SK.refl j r))
      · split
        · exact Res.post_ok (Or.inl (SK.refl j r))
        · have hf := filterProposal_sk (pb := pb) j m.entries r 0
          split
          · rename_i r1 heq
            rw [heq] at hf
            exact Res.post_ok (Or.inl hf)
          · rename_i r1 es heq
            rw [heq] at hf
            have ha := appendEntry_sk (pb := pb) j r1 es
            split
            · rename_i r2 h2
              rw [h2] at ha
              exact Res.post_ok (Or.inl (hf.trans ha))
            · rename_i r2 h2
              rw [h2] at ha
              exact Res.post_bind (bcastAppend_sk j r2)
                (fun a hb => Res.post_ok (Or.inl (hf.trans (SK.trans ha hb))))
            · trivial
            · trivial
  · have answer : ∀ r0 : Raft, Res.Post (fun x => WK pb j r0 x.1)
        ((r0.handleReadyReadIndex m r0.raftLog.committed).bind (fun (r, om) =>
          match om with
          | some m' => (r.send m').bind (fun r => .ok (r, none))
          | none => (.ok (r, none) : Res (Raft × Option RaftError)))) := by
      intro r0
      unfold handleReadyReadIndex
      split
      · split
        · trivial
        · simp only [Res.bind]; exact Res.post_ok (Or.inl (SK.of_eq rfl rfl))
      · simp only [Res.bind]
        split
        · rename_i a heq
          exact Or.inl (Res.Post.of_eq (send_sk (pb := pb) j r0 _ (by simp)) heq)
        · trivial
        · trivial
    split
    · trivial
    · trivial
    · exact Res.post_ok (Or.inl (SK.refl j r))
    · split
      · exact answer r
      · split
        · split
          · trivial
          · apply Res.post_bind (P := fun _ => True)
            · exact Res.post_intro (fun _ _ => trivial)
            · intro ro _
              exact Res.post_bind (bcastHeartbeatWithCtx_sk j _ _)
                (fun a ha => Res.post_ok (Or.inl (SK.trans (SK.of_eq rfl rfl) ha)))
        · exact answer r

/-- `Raft::step` of a local message (term 0) at a leader is `step_leader` -/
theorem step_local_eq (r : Raft) (m : Message) (hl : r.state = .leader) (ht : m.term = 0)
    (hm : m.msgType = .msgBeat ∨ m.msgType = .msgCheckQuorum ∨ m.msgType = .msgPropose ∨
      m.msgType = .msgReadIndex) : r.step m = r.stepLeader m := by
  unfold step stepTerm
  rcases hm with hm | hm | hm | hm <;> simp [ht, hm, hl]

theorem step_local_wk (j : Nat) (r : Raft) (m : Message) (hl : r.state = .leader) (ht : m.term = 0)
    (hm : m.msgType = .msgBeat ∨ m.msgType = .msgCheckQuorum ∨ m.msgType = .msgPropose ∨
      m.msgType = .msgReadIndex) :
    Res.Post (fun x => WK pb j r x.1) (r.step m) := by
  rw [step_local_eq r m hl ht hm]
  exact stepLeader_local_wk j r m hm

theorem stepIgnore_local_wk (j : Nat) (r : Raft) (m : Message) (hl : r.state = .leader) (ht : m.term = 0)
    (hm : m.msgType = .msgBeat ∨ m.msgType = .msgCheckQuorum ∨ m.msgType = .msgPropose ∨
      m.msgType = .msgReadIndex) :
    Res.Post (fun x => WK pb j r x) (r.stepIgnore m) := by
  unfold stepIgnore
  exact Res.post_bind (step_local_wk j r m hl ht hm) (fun a ha => Res.post_ok ha)

/-- a tick of a leader -/
theorem tick_leader_na (j : Nat) (r : Raft) (hl : r.state = .leader) :
    Res.Post (fun x => NA pb j r x.1) r.tick := by
  unfold tick
  rw [hl]
  dsimp only
  unfold tickHeartbeat
  dsimp only
  apply Res.post_bind (P := fun x => WK pb j r x.1)
  · split
    · apply Res.post_bind (P := fun x => WK pb j r x.1)
      · split
        · refine Res.post_bind (stepIgnore_local_wk (pb := pb) j _ _ ?_ ?_ ?_) ?_
          · exact hl
          · simp [newMessage]
          · exact Or.inr (Or.inl (by simp [newMessage]))
          intro a ha
          exact Res.post_ok (SK.then_wk (SK.of_eq rfl rfl) ha)
        · exact Res.post_ok (Or.inl (SK.of_eq rfl rfl))
      · intro a ha
        split
        · rename_i hc
          rcases ha with ha | ha
          · exact Res.post_ok (Or.inl (ha.trans (SK.of_eq rfl rfl)))
          · exact absurd hc.1 ha.1
        · exact Res.post_ok ha
    · exact Res.post_ok (Or.inl (SK.of_eq rfl rfl))
  · intro a ha
    split
    · exact Res.post_ok ha.na
    · rename_i hs
      have hs' : a.1.state = .leader := Classical.not_not.mp hs
      rcases ha with ha | ha
      · split
        · refine Res.post_bind (stepIgnore_local_wk (pb := pb) j _ _ ?_ ?_ ?_) ?_
          · exact hs'
          · simp [newMessage]
          · exact Or.inl (by simp [newMessage])
          intro b hb
          exact Res.post_ok (SK.then_na ha (SK.then_na (SK.of_eq rfl rfl) hb.na))
        · exact Res.post_ok ha.na
      · exact absurd hs' ha.1

/-! ### the other local messages of a leader -/

theorem NA.of_msgs {j : Nat} {r r' : Raft} (h : r'.msgs = r.msgs) : NA pb j r r' := by
  intro pr _ _; rw [h]

theorem handleSnapshotStatus_msgs (r : Raft) (m : Message) : (r.handleSnapshotStatus m).msgs = r.msgs := by
  unfold handleSnapshotStatus
  split
  · rfl
  · split <;> rfl

theorem handleUnreachable_msgs (r : Raft) (m : Message) : (r.handleUnreachable m).msgs = r.msgs := by
  unfold handleUnreachable
  split
  · rfl
  · split <;> rfl

theorem handleTransferLeader_sk (j : Nat) (r : Raft) (m : Message) :
    Res.Post (SK pb j r) (r.handleTransferLeader m) := by
  unfold handleTransferLeader
  split
  · exact Res.post_ok (SK.refl j r)
  · dsimp only
    split
    · exact Res.post_ok (SK.refl j r)
    · have cont : ∀ r0 : Raft, Res.Post (SK pb j r0)
          (if m.frm = r0.id then .ok r0
          else
            match ({ r0 with electionElapsed := 0, leadTransferee := some m.frm } : Raft).prs.get m.frm with
            | none => .panic "raft.handle_transfer_leader.unwrap"
            | some pr =>
              if pr.matched = ({ r0 with electionElapsed := 0, leadTransferee := some m.frm } : Raft).raftLog.lastIndex
              then ({ r0 with electionElapsed := 0, leadTransferee := some m.frm } : Raft).sendTimeoutNow m.frm
              else (({ r0 with electionElapsed := 0, leadTransferee := some m.frm } : Raft).sendAppendPr m.frm pr).bind
                (fun (r, pr) => .ok { r with prs := r.prs.set m.frm pr })) := by
        intro r0
        split
        · exact Res.post_ok (SK.refl j r0)
        · split
          · trivial
          · rename_i pr hg
            split
            · unfold sendTimeoutNow
              exact Res.post_mono (send_sk j _ _ (by simp [newMessage]))
                (fun a ha => SK.trans (SK.of_eq rfl rfl) ha)
            · exact Res.post_bind (sendAppendPr_sk j _ m.frm pr)
                (fun a ha => SK.trans (SK.of_eq rfl rfl) (sk_writeback j _ m.frm pr hg a ha))
      split
      · split
        · exact Res.post_ok (SK.refl j r)
        · exact Res.post_mono (cont r.abortLeaderTransfer) (fun a ha => SK.trans (SK.of_eq rfl rfl) ha)
      · exact cont r

theorem stepLeader_more_na (j : Nat) (r : Raft) (m : Message)
    (hm : m.msgType = .msgSnapStatus ∨ m.msgType = .msgUnreachable ∨ m.msgType = .msgTransferLeader) :
    Res.Post (fun x => NA pb j r x.1) (r.stepLeader m) := by
  unfold stepLeader
  rcases hm with hm | hm | hm <;> rw [hm] <;> dsimp only
  · exact Res.post_ok (NA.of_msgs (handleSnapshotStatus_msgs r m))
  · exact Res.post_ok (NA.of_msgs (handleUnreachable_msgs r m))
  · exact Res.post_bind (handleTransferLeader_sk j r m) (fun a ha => Res.post_ok ha.na)

theorem step_more_eq (r : Raft) (m : Message) (hl : r.state = .leader) (ht : m.term = 0)
    (hm : m.msgType = .msgSnapStatus ∨ m.msgType = .msgUnreachable ∨ m.msgType = .msgTransferLeader) :
    r.step m = r.stepLeader m := by
  unfold step stepTerm
  rcases hm with hm | hm | hm <;> simp [ht, hm, hl]

theorem stepIgnore_more_na (j : Nat) (r : Raft) (m : Message) (hl : r.state = .leader) (ht : m.term = 0)
    (hm : m.msgType = .msgSnapStatus ∨ m.msgType = .msgUnreachable ∨ m.msgType = .msgTransferLeader) :
    Res.Post (fun x => NA pb j r x) (r.stepIgnore m) := by
  unfold stepIgnore
  rw [step_more_eq r m hl ht hm]
  exact Res.post_bind (stepLeader_more_na j r m hm) (fun a ha => Res.post_ok ha)

/-- `campaign` at a leader is a no-op -/
theorem step_hup_leader (r : Raft) (hl : r.state = .leader) :
    r.step { msgType := .msgHup } = .ok (r, none) := by
  unfold step stepTerm
  simp [hup, hl, Res.bind]

theorem requestSnapshot_leader (r : Raft) (hl : r.state = .leader) :
    r.requestSnapshot = .ok (r, some .requestSnapshotDropped) := by
  unfold requestSnapshot
  simp [hl]

/-! ### a message of the leader's own term (or without term) that is not a replication response -/

theorem stepVote_na (j : Nat) (r : Raft) (m : Message) (hl : r.state = .leader) :
    Res.Post (NA pb j r) (r.stepVote m) := by
  unfold stepVote
  split
  · trivial
  · rename_i respType hrt
    have hne : respType ≠ .msgAppend := by
      intro hc; subst hc
      unfold voteRespMsgType at hrt
      split at hrt <;> cases hrt
    split
    · unfold stepVoteGrant
      split
      · rename_i r1 hs
        have h1 : SK pb j r r1 := Res.Post.of_eq (send_sk (pb := pb) j r _ hne) hs
        split
        · exact Res.post_ok (SK.trans h1 (SK.of_eq rfl rfl)).na
        · exact Res.post_ok h1.na
      · trivial
      · trivial
    · unfold stepVoteReject
      split
      · trivial
      · trivial
      · split
        · rename_i r1 hs
          have h1 : SK pb j r r1 := Res.Post.of_eq (send_sk (pb := pb) j r _ hne) hs
          have hl1 : r1.state = .leader := by rw [send_eq r r1 _ hs]; exact hl
          split
          · unfold maybeCommitByVote
            split
            · exact Res.post_ok h1.na
            · dsimp only
              split
              · exact Res.post_ok h1.na
              · rename_i hc
                exact absurd (Or.inr hl1) hc
          · exact Res.post_ok h1.na
        · trivial
        · trivial
    · trivial
    · trivial

theorem stepTerm_same (r : Raft) (m : Message) (ht : m.term = 0 ∨ m.term = r.term) :
    r.stepTerm m = .ok (r, true) := by
  unfold stepTerm
  rcases ht with ht | ht
  · simp [ht]
  · by_cases h0 : m.term = 0
    · simp [h0]
    · simp [h0, ht]

theorem step_same_na (j : Nat) (r : Raft) (m : Message) (hl : r.state = .leader)
    (ht : m.term = 0 ∨ m.term = r.term) (h1 : m.msgType ≠ .msgAppendResponse)
    (h2 : m.msgType ≠ .msgHeartbeatResponse) :
    Res.Post (fun x => NA pb j r x.1) (r.step m) := by
  have hloc := stepLeader_local_wk (pb := pb) j r m
  have hmore := stepLeader_more_na (pb := pb) j r m
  unfold step
  rw [stepTerm_same r m ht]
  dsimp only
  cases hmt : m.msgType
  case msgAppendResponse => exact absurd hmt h1
  case msgHeartbeatResponse => exact absurd hmt h2
  case msgHup => simp only [hup, hl, if_true, Res.bind]; exact NA.of_msgs rfl
  case msgRequestVote =>
    dsimp only
    have := stepVote_na (pb := pb) j r m hl
    split
    · rename_i r1 heq; rw [heq] at this; exact this
    · trivial
    · trivial
  case msgRequestPreVote =>
    dsimp only
    have := stepVote_na (pb := pb) j r m hl
    split
    · rename_i r1 heq; rw [heq] at this; exact this
    · trivial
    · trivial
  all_goals
    rw [hmt] at hloc hmore
    simp only [hl]
    first
      | (refine Res.post_mono (hloc ?_) (fun a ha => ha.na); decide)
      | (refine hmore ?_; decide)
      | (unfold stepLeader; rw [hmt]; exact NA.of_msgs rfl)

/-! ### the remaining entry points that are not `Raft::step` -/

theorem maybeUpdate_same (pr pr2 : Progress) (n : Nat) (b : Bool) (h : pr.maybeUpdate n = .ok (pr2, b))
    (hp : pb = false) : SameHeld pb pr pr2 := by
  unfold Progress.maybeUpdate at h
  dsimp only at h
  split at h
  · cases h
  · cases h
    refine ⟨?_, ?_, fun hc => by rw [hp] at hc; cases hc⟩ <;> (split <;> split <;> rfl)

theorem onPersistEntries_sk (j : Nat) (r : Raft) (index term : Nat) (hj : pb = false ∨ j ≠ r.id) :
    Res.Post (SK pb j r) (r.onPersistEntries index term) := by
  unfold onPersistEntries
  split
  · trivial
  · trivial
  · dsimp only
    split
    · split
      · exact Res.post_ok (SK.of_eq rfl rfl)
      · rename_i pr hg
        split
        · trivial
        · trivial
        · rename_i pr2 upd hu
          have hs : SK pb j r { r with prs := r.prs.set r.id pr2 } :=
            setPr_sk j r r.id pr pr2 hg (by
              rcases hj with hj | hj
              · exact Or.inr (maybeUpdate_same pr pr2 _ _ hu hj)
              · exact Or.inl hj)
          split
          · exact Res.post_mono (commitBcast2_sk j _)
              (fun a ha => SK.trans (SK.trans hs (SK.of_eq rfl rfl)) ha)
          · exact Res.post_ok (SK.trans hs (SK.of_eq rfl rfl))
    · exact Res.post_ok (SK.of_eq rfl rfl)

theorem onPersistSnap_sk (j : Nat) (r : Raft) (index : Nat) :
    Res.Post (SK pb j r) (r.onPersistSnap index) := by
  unfold onPersistSnap
  split
  · exact Res.post_ok (SK.of_eq rfl rfl)
  · trivial
  · trivial

theorem commitApply_sk (j : Nat) (r : Raft) (k : Nat) : Res.Post (SK pb j r) (r.commitApply k) := by
  unfold commitApply commitApplyInternal
  dsimp only
  split
  · trivial
  · trivial
  · rename_i log _
    split
    · have ha := appendEntry_sk (pb := pb) j ({ r with raftLog := log } : Raft) [{ etype := 2 }]
      split
      · rename_i r1 heq
        rw [heq] at ha
        exact Res.post_ok (SK.trans (SK.of_eq rfl rfl) (SK.trans ha (SK.of_eq rfl rfl)))
      · trivial
      · trivial
      · trivial
    · exact Res.post_ok (SK.of_eq rfl rfl)

theorem reduceUncommittedSize_sk (j : Nat) (r : Raft) (ents : List Entry) :
    SK pb j r (r.reduceUncommittedSize ents) := by
  unfold reduceUncommittedSize
  split
  · exact SK.refl j _
  · exact SK.of_eq rfl rfl

theorem enableGroupCommit_sk (j : Nat) (r : Raft) (b : Bool) :
    Res.Post (SK pb j r) (r.enableGroupCommit b) := by
  unfold enableGroupCommit
  dsimp only
  split
  · exact Res.post_mono (commitBcast_sk j _) (fun a ha => SK.trans (SK.of_get rfl rfl) ha)
  · exact Res.post_ok (SK.of_get rfl rfl)

theorem assignFold_sk (j : Nat) (ids : List (Nat × Nat)) : ∀ (acc : Res Raft) (r : Raft),
    Res.Post (SK pb j r) acc →
    Res.Post (SK pb j r) (ids.foldl (fun (acc : Res Raft) (p : Nat × Nat) =>
      acc.bind (fun r =>
        if p.2 = 0 then .panic "raft.assign_commit_groups.assert"
        else .ok (r.modifyProgress p.1 (fun pr => { pr with commitGroupId := p.2 })))) acc) := by
  induction ids with
  | nil => intro acc r h; exact h
  | cons p t ih =>
    intro acc r h
    simp only [List.foldl_cons]
    apply ih
    apply Res.post_bind h
    intro a ha
    split
    · trivial
    · exact Res.post_ok (SK.trans ha (modifyProgress_sk j _ _ _ (fun _ => ⟨rfl, rfl, fun _ _ => rfl⟩)))

theorem assignCommitGroups_sk (j : Nat) (r : Raft) (ids : List (Nat × Nat)) :
    Res.Post (SK pb j r) (r.assignCommitGroups ids) := by
  unfold assignCommitGroups
  dsimp only
  apply Res.post_bind (assignFold_sk j ids (.ok r) r (SK.refl j _))
  intro a ha
  split
  · exact Res.post_mono (commitBcast_sk j _) (fun b hb => SK.trans ha hb)
  · exact Res.post_ok ha

theorem adjustMaxInflightMsgs_sk (j : Nat) (r : Raft) (id cap : Nat) :
    Res.Post (SK pb j r) (r.adjustMaxInflightMsgs id cap) := by
  unfold adjustMaxInflightMsgs
  split
  · exact Res.post_ok (SK.refl j _)
  · rename_i pr hg
    split
    · exact Res.post_ok (setPr_sk j r id pr _ hg (Or.inr ⟨rfl, rfl, fun _ _ => rfl⟩))
    · trivial

/-! ### one call of a node -/

/-- the conclusion for one call: with the progress of `j` held before the call, every `MsgAppend` for `j`
of the queue after the call was in the queue before, in the same order (sublist of the projection; equality
except for `drain`, which empties the queue) -/
def CallNA (pb : Bool) (j : Nat) (st st' : NState) : Prop :=
  ∀ pr, st.raft.prs.get j = some pr → Held pb pr →
    (apOf j st'.raft.msgs).Sublist (apOf j st.raft.msgs)

theorem callNA_na {j : Nat} {st st' : NState} {rnd : Option Nat}
    (h : NA pb j ({ st.raft with nextRand := rnd } : Raft) st'.raft) : CallNA pb j st st' := by
  intro pr hg hh
  have := h pr hg hh
  rw [this]
  exact List.Sublist.refl _

theorem callNA_sk {j : Nat} {st st' : NState} {rnd : Option Nat}
    (h : SK pb j ({ st.raft with nextRand := rnd } : Raft) st'.raft) : CallNA pb j st st' :=
  callNA_na (rnd := rnd) h.na

theorem callNA_eq {j : Nat} {st st' : NState} (hm : st'.raft.msgs = st.raft.msgs) : CallNA pb j st st' := by
  intro pr _ _
  rw [hm]
  exact List.Sublist.refl _

theorem post_fst' {α β : Type} {P : α → Prop} {x : Res (α × β)} {a : α} {b : β}
    (hp : Res.Post (fun y => P y.1) x) (h : x = .ok (a, b)) : P a :=
  Res.Post.of_eq (P := fun y => P y.1) hp h

/-- the calls covered by `call_na_partial` at a leader of term `t`: all but `apply_conf_change`, and a
stepped message only when it carries no term or the leader's term and is not one of the two replication
responses -/
def covered (t : Nat) : NodeOp → Bool
  | .step m | .rstep m =>
    (m.term == 0 || m.term == t) && m.msgType != .msgAppendResponse &&
      m.msgType != .msgHeartbeatResponse
  | .applyConfChange _ => false
  | _ => true

/-- **one call of a node that is leader before the call** — every covered `NodeOp` -/
theorem call_na_partial (j : Nat) (st st' : NState) (rnd : Option Nat) (op : NodeOp) (res : OpRes)
    (h : Node.call st rnd op = .ok (res, st')) (hc : covered st.raft.term op = true)
    (hl : st.raft.state = .leader) (hj : pb = false ∨ j ≠ st.raft.id) : CallNA pb j st st' := by
  unfold Node.call at h
  cases op with
  | tick =>
    simp only [applyOp] at h
    split at h
    · rename_i raft b heq
      cases h
      have heq' : ({ st.raft with nextRand := rnd } : Raft).tick = .ok (raft, b) := heq
      exact callNA_na (rnd := rnd) (post_fst' (tick_leader_na j _ hl) heq')
    · cases h
    · cases h
  | step m =>
    have hc' : (m.term = 0 ∨ m.term = st.raft.term) ∧ m.msgType ≠ .msgAppendResponse ∧
        m.msgType ≠ .msgHeartbeatResponse := by
      simpa [covered, and_assoc] using hc
    simp only [applyOp] at h
    obtain ⟨raft, e, hx, hr⟩ := CV.unitRes_ok h
    unfold RawNode.step at hx
    split at hx
    · cases hx; exact callNA_eq (by rw [hr])
    · split at hx
      · rw [← hr] at hx
        exact callNA_na (rnd := rnd) (post_fst' (step_same_na (pb := pb) j
          ({ st.raft with nextRand := rnd } : Raft) m hl hc'.1 hc'.2.1 hc'.2.2) hx)
      · cases hx; exact callNA_eq (by rw [hr])
  | rstep m =>
    have hc' : (m.term = 0 ∨ m.term = st.raft.term) ∧ m.msgType ≠ .msgAppendResponse ∧
        m.msgType ≠ .msgHeartbeatResponse := by
      simpa [covered, and_assoc] using hc
    simp only [applyOp] at h
    obtain ⟨raft, e, hx, hr⟩ := CV.unitRes_ok h
    rw [← hr] at hx
    exact callNA_na (rnd := rnd) (post_fst' (step_same_na (pb := pb) j
      ({ st.raft with nextRand := rnd } : Raft) m hl hc'.1 hc'.2.1 hc'.2.2) hx)
  | propose c d =>
    simp only [applyOp] at h
    obtain ⟨raft, e, hx, hr⟩ := CV.unitRes_ok h
    rw [← hr] at hx
    unfold RawNode.propose at hx
    refine callNA_na (rnd := rnd) (WK.na (post_fst' (step_local_wk (pb := pb) j
      ({ st.raft with nextRand := rnd } : Raft) _ ?_ ?_ ?_) hx))
    · exact hl
    · rfl
    · exact Or.inr (Or.inr (Or.inl rfl))
  | proposeCc t c d =>
    simp only [applyOp] at h
    obtain ⟨raft, e, hx, hr⟩ := CV.unitRes_ok h
    rw [← hr] at hx
    unfold RawNode.proposeConfChange at hx
    refine callNA_na (rnd := rnd) (WK.na (post_fst' (step_local_wk (pb := pb) j
      ({ st.raft with nextRand := rnd } : Raft) _ ?_ ?_ ?_) hx))
    · exact hl
    · rfl
    · exact Or.inr (Or.inr (Or.inl rfl))
  | readIndex c =>
    simp only [applyOp] at h
    obtain ⟨raft, hx, hr⟩ := CV.okRes_ok h
    rw [← hr] at hx
    unfold RawNode.readIndex at hx
    refine callNA_na (rnd := rnd) (WK.na (Res.Post.of_eq (stepIgnore_local_wk (pb := pb) j
      ({ st.raft with nextRand := rnd } : Raft) _ ?_ ?_ ?_) hx))
    · exact hl
    · rfl
    · exact Or.inr (Or.inr (Or.inr rfl))
  | transferLeader x =>
    simp only [applyOp] at h
    obtain ⟨raft, hx, hr⟩ := CV.okRes_ok h
    rw [← hr] at hx
    unfold RawNode.transferLeader at hx
    refine callNA_na (rnd := rnd) (Res.Post.of_eq (stepIgnore_more_na (pb := pb) j
      ({ st.raft with nextRand := rnd } : Raft) _ ?_ ?_ ?_) hx)
    · exact hl
    · rfl
    · exact Or.inr (Or.inr rfl)
  | campaign =>
    simp only [applyOp] at h
    obtain ⟨raft, e, hx, hr⟩ := CV.unitRes_ok h
    unfold RawNode.campaign at hx
    rw [step_hup_leader ({ st.raft with nextRand := rnd } : Raft) hl] at hx
    cases hx
    exact callNA_eq (by rw [hr])
  | ping =>
    simp only [applyOp] at h
    obtain ⟨raft, hx, hr⟩ := CV.okRes_ok h
    rw [← hr] at hx
    exact callNA_sk (rnd := rnd) (Res.Post.of_eq (ping_sk j _) hx)
  | requestSnapshot =>
    simp only [applyOp] at h
    obtain ⟨raft, e, hx, hr⟩ := CV.unitRes_ok h
    unfold RawNode.requestSnapshot at hx
    rw [requestSnapshot_leader ({ st.raft with nextRand := rnd } : Raft) hl] at hx
    cases hx
    exact callNA_eq (by rw [hr])
  | reportUnreachable x =>
    simp only [applyOp] at h
    obtain ⟨raft, hx, hr⟩ := CV.okRes_ok h
    rw [← hr] at hx
    unfold RawNode.reportUnreachable at hx
    refine callNA_na (rnd := rnd) (Res.Post.of_eq (stepIgnore_more_na (pb := pb) j
      ({ st.raft with nextRand := rnd } : Raft) _ ?_ ?_ ?_) hx)
    · exact hl
    · rfl
    · exact Or.inr (Or.inl rfl)
  | reportSnapshot x f =>
    simp only [applyOp] at h
    obtain ⟨raft, hx, hr⟩ := CV.okRes_ok h
    rw [← hr] at hx
    unfold RawNode.reportSnapshot at hx
    refine callNA_na (rnd := rnd) (Res.Post.of_eq (stepIgnore_more_na (pb := pb) j
      ({ st.raft with nextRand := rnd } : Raft) _ ?_ ?_ ?_) hx)
    · exact hl
    · rfl
    · exact Or.inl rfl
  | applyConfChange cc => cases hc
  | stabilize =>
    simp only [applyOp, Node.stabilize] at h
    split at h
    · cases h; exact callNA_eq rfl
    · cases h
    · cases h
  | onPersistEntries i t =>
    simp only [applyOp] at h
    obtain ⟨raft, hx, hr⟩ := CV.okRes_ok h
    rw [← hr] at hx
    exact callNA_sk (rnd := rnd) (Res.Post.of_eq (onPersistEntries_sk j _ i t hj) hx)
  | persistSnap =>
    simp only [applyOp, Node.persistSnap] at h
    split at h
    · cases h; exact callNA_eq rfl
    · split at h
      · cases h; exact callNA_eq rfl
      · cases h
      · split at h
        · cases h
        · cases h
        · split at h
          · rename_i raft hop'
            cases h
            have := Res.Post.of_eq (onPersistSnap_sk (pb := pb) j _ _) hop'
            exact callNA_sk (rnd := rnd) (SK.trans (SK.of_eq rfl rfl) this)
          · cases h
          · cases h
  | commitApply k =>
    simp only [applyOp, Node.commitApply] at h
    split at h
    · rename_i r2 hb
      rw [Res.bind_eq_ok_iff] at hb
      obtain ⟨r1, h1, h2⟩ := hb
      have m1 : SK pb j ({ st.raft with nextRand := rnd } : Raft) r1 := by
        split at h1
        · split at h1
          · cases h1; exact reduceUncommittedSize_sk j _ _
          · cases h1; exact SK.refl j _
          · cases h1
        · cases h1; exact SK.refl j _
      have m2 := SK.trans m1 (Res.Post.of_eq (commitApply_sk (pb := pb) j r1 k) h2)
      cases h
      refine callNA_sk (rnd := rnd) ?_
      dsimp only
      split
      · exact SK.trans m2 (SK.of_eq rfl rfl)
      · exact m2
    · cases h
    · cases h
  | compact k =>
    simp only [applyOp] at h
    split at h
    · cases h; exact callNA_eq rfl
    · cases h
    · cases h
  | drain =>
    simp only [applyOp] at h
    cases h
    intro pr _ _
    exact List.nil_sublist _
  | triggerSnap => simp only [applyOp] at h; cases h; exact callNA_eq rfl
  | triggerLog b => simp only [applyOp] at h; cases h; exact callNA_eq rfl
  | setPriority p => simp only [applyOp] at h; cases h; exact callNA_eq rfl
  | setBatchAppend b => simp only [applyOp] at h; cases h; exact callNA_eq rfl
  | skipBcastCommit b => simp only [applyOp] at h; cases h; exact callNA_eq rfl
  | setCheckQuorum b => simp only [applyOp] at h; cases h; exact callNA_eq rfl
  | adjustMaxInflight id cap =>
    simp only [applyOp] at h
    obtain ⟨raft, hx, hr⟩ := CV.okRes_ok h
    rw [← hr] at hx
    exact callNA_sk (rnd := rnd) (Res.Post.of_eq (adjustMaxInflightMsgs_sk j _ id cap) hx)
  | maybeFreeInflightBuffers => simp only [applyOp] at h; cases h; exact callNA_eq rfl
  | enableGroupCommit b =>
    simp only [applyOp] at h
    obtain ⟨raft, hx, hr⟩ := CV.okRes_ok h
    rw [← hr] at hx
    exact callNA_sk (rnd := rnd) (Res.Post.of_eq (enableGroupCommit_sk j _ b) hx)
  | assignCommitGroups v =>
    simp only [applyOp] at h
    obtain ⟨raft, hx, hr⟩ := CV.okRes_ok h
    rw [← hr] at hx
    exact callNA_sk (rnd := rnd) (Res.Post.of_eq (assignCommitGroups_sk j _ v) hx)
  | clearCommitGroup => simp only [applyOp] at h; cases h; exact callNA_eq rfl
  | checkGroupCommitConsistent =>
    simp only [applyOp] at h
    split at h
    · cases h; exact callNA_eq rfl
    · cases h; exact callNA_eq rfl
    · cases h
    · cases h
  | setMaxApplyUnpersistedLogLimit x => simp only [applyOp] at h; cases h; exact callNA_eq rfl
  | setMaxCommittedSizePerReady x => simp only [applyOp] at h; cases h; exact callNA_eq rfl
  | onEntriesFetched to term aggr =>
    rcases CV.onEntriesFetched_ok h with h | ⟨-, -, -, raft, hx, h⟩
    · cases h; exact callNA_eq rfl
    · cases h
      rcases hx with hx | hx
      · exact callNA_sk (rnd := rnd) (Res.Post.of_eq (sendAppendAggressively_sk j _ to) hx)
      · exact callNA_sk (rnd := rnd) (Res.Post.of_eq (sendAppend_sk j _ to) hx)

end F3
end Raft
end RaftModel
