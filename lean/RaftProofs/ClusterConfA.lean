import RaftProps.C09b
import RaftProofs.ClusterVoteH

/-!
C09 at the cluster level, helper lemmas part A: the changer's view of a node's tracker
(`prs.toCC`: the configuration — voters, outgoing voters, learners, staged learners, auto-leave — and
the key set of the progress map) is kept by every function of the node model except
`apply_conf_change` and `restore`.  The relation is `TC` of `RaftProofs/RaftNodeC09.lean`
(anchored: `TC a r` = "`r` has the tracker view of `a`"); the lemmas below extend the ones proved
there (`send`, `bcast_append`, `maybe_commit`, `post_conf_change`, …) to the leader handlers, the
role changes, the campaign, the three role arms of `step`, `step` itself and `tick`.
-/
namespace RaftModel
namespace Raft
open VoteOb

theorem TC.trans {a b c : Raft} (h1 : TC a b) (h2 : TC b c) : TC a c := by
  unfold TC at *; rw [h2, h1]

/-- a structure update of `prs` that keeps the configuration and the progress map -/
theorem TC.prs {a r : Raft} {p : ProgressTracker} (hc : p.conf = r.prs.conf)
    (hp : p.progress = r.prs.progress) (h0 : TC a r) : TC a { r with prs := p } := by
  show p.toCC = _
  unfold TC at h0
  rw [← h0]
  unfold ProgressTracker.toCC
  rw [hc, hp]

theorem TC.modify {a r : Raft} (id : Nat) (f : Progress → Progress) (h0 : TC a r) :
    TC a (r.modifyProgress id f) := by
  unfold TC; rw [c09_modifyProgress_toCC]; exact h0

theorem TC.map {a r : Raft} (f : Nat → Progress → Progress) (h0 : TC a r) :
    TC a (r.mapProgress f) := by
  unfold TC; rw [c09_mapProgress_toCC]; exact h0

theorem sendAppendAggressivelyPr_tc {a r' : Raft} {to : Nat} {pr' : Progress} :
    ∀ (fuel : Nat) (r : Raft) (pr : Progress),
      sendAppendAggressivelyPr fuel r to pr = .ok (r', pr') → TC a r → TC a r' := by
  intro fuel
  induction fuel with
  | zero => intro r pr h; simp [sendAppendAggressivelyPr] at h
  | succ n ih =>
    intro r pr h h0
    unfold sendAppendAggressivelyPr at h
    split at h
    · rename_i r1 pr1 hm
      exact ih r1 pr1 h (maybeSendAppend_tc hm h0)
    · rename_i r1 pr1 hm
      cases h; exact maybeSendAppend_tc hm h0
    · cases h
    · cases h

theorem sendHeartbeat_tc {a r r' : Raft} {to : Nat} {pr : Progress} {ctx : Option Bytes}
    (h : r.sendHeartbeat to pr ctx = .ok r') (h0 : TC a r) : TC a r' := by
  unfold Raft.sendHeartbeat at h
  exact send_tc h h0

theorem sendAppend_tc {a r r' : Raft} {to : Nat}
    (h : r.sendAppend to = .ok r') (h0 : TC a r) : TC a r' := by
  unfold Raft.sendAppend at h
  tc_auto h [sendAppendPr_tc]

theorem sendAppendAggressively_tc {a r r' : Raft} {to : Nat}
    (h : r.sendAppendAggressively to = .ok r') (h0 : TC a r) : TC a r' := by
  unfold Raft.sendAppendAggressively at h
  tc_auto h [sendAppendAggressivelyPr_tc]

theorem sendTimeoutNow_tc {a r r' : Raft} {to : Nat}
    (h : r.sendTimeoutNow to = .ok r') (h0 : TC a r) : TC a r' := by
  unfold Raft.sendTimeoutNow at h
  exact send_tc h h0

theorem bcastHeartbeatWithCtx_tc {a r r' : Raft} {ctx : Option Bytes}
    (h : r.bcastHeartbeatWithCtx ctx = .ok r') (h0 : TC a r) : TC a r' := by
  unfold Raft.bcastHeartbeatWithCtx at h
  refine forEachPeer_tc (fun r id pr r' pr' h h0 => ?_) h h0
  tc_auto h [sendHeartbeat_tc]

theorem bcastHeartbeat_tc {a r r' : Raft} (h : r.bcastHeartbeat = .ok r') (h0 : TC a r) :
    TC a r' := by
  unfold Raft.bcastHeartbeat at h
  exact bcastHeartbeatWithCtx_tc h h0

theorem maybeIncreaseUncommittedSize_tc {a r r' : Raft} {es : List Entry} {b : Bool}
    (h : r.maybeIncreaseUncommittedSize es = (r', b)) (h0 : TC a r) : TC a r' := by
  unfold Raft.maybeIncreaseUncommittedSize at h
  split at h
  cases h
  exact h0

theorem appendEntry_tc {a r r' : Raft} {es : List Entry} {b : Bool}
    (h : r.appendEntry es = .ok (r', b)) (h0 : TC a r) : TC a r' := by
  unfold Raft.appendEntry at h
  split at h
  · cases h; exact h0
  · rename_i r1 hinc
    have h1 : TC a r1 := maybeIncreaseUncommittedSize_tc hinc h0
    simp only [] at h
    split at h
    · cases h; exact TC.mk' h1
    · cases h
    · cases h

theorem resetVotes_tc {a r : Raft} (h0 : TC a r) : TC a { r with prs := r.prs.resetVotes } :=
  TC.prs rfl rfl h0

theorem recordVote_tc {a r : Raft} (frm : Nat) (v : Bool) (h0 : TC a r) :
    TC a { r with prs := r.prs.recordVote frm v } :=
  TC.prs (c02_recordVote_conf _ _ _) (by unfold ProgressTracker.recordVote; split <;> rfl) h0

theorem becomeCandidate_tc {a r r' : Raft} (h : r.becomeCandidate = .ok r') (h0 : TC a r) :
    TC a r' := by
  unfold Raft.becomeCandidate at h
  split at h
  · cases h
  · split at h
    · cases h
    · cases h
      exact TC.mk' (reset_tc _ h0)

theorem becomePreCandidate_tc {a r r' : Raft} (h : r.becomePreCandidate = .ok r') (h0 : TC a r) :
    TC a r' := by
  unfold Raft.becomePreCandidate at h
  split at h
  · cases h
  · cases h
    exact TC.prs rfl rfl h0

theorem becomeLeader_tc {a r r' : Raft} (h : r.becomeLeader = .ok r') (h0 : TC a r) :
    TC a r' := by
  unfold Raft.becomeLeader at h
  have hr := reset_tc r.term h0
  tc_auto h [appendEntry_tc, hr]

theorem sendVoteRequests_tc {a r r' : Raft} {ct : CampaignType} {vm : MsgType} {term : Nat}
    (h : r.sendVoteRequests ct vm term = .ok r') (h0 : TC a r) : TC a r' := by
  unfold Raft.sendVoteRequests at h
  split at h
  · cases h
  · cases h
  · split at h
    · cases h
    · cases h
    · refine foldl_tc _ ?_ _ _ h (by intro r1 e; cases e; exact h0)
      intro acc id r1 h1
      cases acc with
      | err e => cases h1
      | panic s => cases h1
      | ok r0 =>
        refine ⟨r0, rfl, fun h0 => ?_⟩
        change (if id = r0.id then Res.ok r0 else _) = _ at h1
        tc_auto h1 [send_tc]

theorem pollWith_tc {a r r' : Raft} {f : Raft → Res Raft} {frm : Nat} {t : MsgType} {v : Bool}
    {res : VoteResult} (hf : ∀ r1 r2, f r1 = .ok r2 → TC a r1 → TC a r2)
    (h : pollWith f r frm t v = .ok (r', res)) (h0 : TC a r) : TC a r' := by
  have hv : TC a (voted r frm v) := recordVote_tc frm v h0
  obtain ⟨_, p2⟩ := c02_pollWith_cases h
  rcases p2 with ⟨_, _, hf1⟩ | ⟨_, _, hwon⟩ | ⟨_, e⟩ | ⟨_, e⟩
  · exact hf _ _ hf1 hv
  · unfold wonBy at hwon
    rw [Res.bind_eq_ok_iff] at hwon
    obtain ⟨r1, hb, hbc⟩ := hwon
    exact bcastAppend_tc hbc (becomeLeader_tc hb hv)
  · subst e; exact becomeFollower_tc _ _ hv
  · subst e; exact hv

theorem campaignWith_tc {a r r' : Raft} {ct : CampaignType}
    {poll : Raft → Nat → MsgType → Bool → Res (Raft × VoteResult)}
    (hp : ∀ r1 f t v r2 res, poll r1 f t v = .ok (r2, res) → TC a r1 → TC a r2)
    (h : campaignWith poll r ct = .ok r') (h0 : TC a r) : TC a r' := by
  unfold Raft.campaignWith at h
  simp only [] at h
  rw [Res.bind_eq_ok_iff] at h
  obtain ⟨⟨r1, vm, term⟩, hs, h⟩ := h
  have h1 : TC a r1 := by
    split at hs
    · rw [Res.bind_eq_ok_iff] at hs
      obtain ⟨r0, hb, hs⟩ := hs
      split at hs
      · cases hs
      · cases hs; exact becomePreCandidate_tc hb h0
    · rw [Res.bind_eq_ok_iff] at hs
      obtain ⟨r0, hb, hs⟩ := hs
      cases hs; exact becomeCandidate_tc hb h0
  simp only [] at h
  rw [Res.bind_eq_ok_iff] at h
  obtain ⟨⟨r2, res⟩, hpoll, h⟩ := h
  have h2 := hp _ _ _ _ _ _ hpoll h1
  simp only [] at h
  split at h
  · cases h; exact h2
  · exact sendVoteRequests_tc h h2

theorem campaignAfterPreVote_tc {a r r' : Raft} (h : r.campaignAfterPreVote = .ok r')
    (h0 : TC a r) : TC a r' := by
  unfold Raft.campaignAfterPreVote at h
  refine campaignWith_tc (fun r1 f t v r2 res hp h1 => ?_) h h0
  exact pollWith_tc (fun _ _ hx => by cases hx) hp h1

theorem poll_tc {a r r' : Raft} {frm : Nat} {t : MsgType} {v : Bool} {res : VoteResult}
    (h : r.poll frm t v = .ok (r', res)) (h0 : TC a r) : TC a r' := by
  unfold Raft.poll at h
  exact pollWith_tc (fun _ _ hx => campaignAfterPreVote_tc hx) h h0

theorem campaign_tc {a r r' : Raft} {ct : CampaignType} (h : r.campaign ct = .ok r')
    (h0 : TC a r) : TC a r' := by
  unfold Raft.campaign at h
  exact campaignWith_tc (fun r1 f t v r2 res hp h1 => poll_tc hp h1) h h0

theorem hup_tc {a r r' : Raft} {b : Bool} (h : r.hup b = .ok r') (h0 : TC a r) : TC a r' := by
  rcases c02_hup_cases h with e | ⟨_, _, ct, hc, _⟩
  · subst e; exact h0
  · exact campaign_tc hc h0

theorem maybeCommitByVote_tc {a r r' : Raft} {m : Message} (h : r.maybeCommitByVote m = .ok r')
    (h0 : TC a r) : TC a r' := by
  unfold Raft.maybeCommitByVote at h
  tc_auto h [becomeFollower_tc]

/-! ### leader side -/

theorem checkQuorumActive_tc {a r r' : Raft} {b : Bool} (h : r.checkQuorumActive = (r', b))
    (h0 : TC a r) : TC a r' := by
  unfold Raft.checkQuorumActive at h
  split at h
  rename_i prs b1 hq
  cases h
  have hp : prs = (r.prs.quorumRecentlyActive r.id).1 := by rw [hq]
  subst hp
  show (r.prs.quorumRecentlyActive r.id).1.toCC = _
  unfold TC at h0
  rw [← h0]
  unfold ProgressTracker.quorumRecentlyActive ProgressTracker.toCC
  simp only [List.map_map, Tracker.mk.injEq, true_and]
  apply List.map_congr_left
  intro p _
  simp only [Function.comp]
  split <;> rfl

theorem handleAppendResponseAccepted_tc {a r r' : Raft} {m : Message} {pr : Progress} {op : Bool}
    (h : r.handleAppendResponseAccepted m pr op = .ok r') (h0 : TC a r) : TC a r' := by
  unfold Raft.handleAppendResponseAccepted at h
  tc_auto h [maybeCommit_tc, bcastAppend_tc, sendAppend_tc,
    sendAppendAggressively_tc, sendTimeoutNow_tc]

theorem handleAppendResponse_tc {a r r' : Raft} {m : Message}
    (h : r.handleAppendResponse m = .ok r') (h0 : TC a r) : TC a r' := by
  unfold Raft.handleAppendResponse at h
  tc_auto h [handleAppendResponseAccepted_tc, sendAppend_tc]

theorem handleHeartbeatResponse_tc {a r r' : Raft} {m : Message}
    (h : r.handleHeartbeatResponse m = .ok r') (h0 : TC a r) : TC a r' := by
  unfold Raft.handleHeartbeatResponse at h
  tc_auto h [sendAppendPr_tc, respondReadStates_tc]

theorem handleTransferLeader_tc {a r r' : Raft} {m : Message}
    (h : r.handleTransferLeader m = .ok r') (h0 : TC a r) : TC a r' := by
  unfold Raft.handleTransferLeader at h
  repeat' (first | split at h | (simp only at h; split at h))
  all_goals tc_auto h [sendTimeoutNow_tc, sendAppendPr_tc, Raft.abortLeaderTransfer]

theorem handleSnapshotStatus_tc {a r : Raft} {m : Message} (h0 : TC a r) :
    TC a (r.handleSnapshotStatus m) := by
  unfold Raft.handleSnapshotStatus
  split
  · exact h0
  · split
    · exact h0
    · exact TC.set _ _ h0

theorem handleUnreachable_tc {a r : Raft} {m : Message} (h0 : TC a r) :
    TC a (r.handleUnreachable m) := by
  unfold Raft.handleUnreachable
  split
  · exact h0
  · split
    · exact TC.set _ _ h0
    · exact h0

end Raft
end RaftModel
