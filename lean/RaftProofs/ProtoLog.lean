import RaftModel.Proto

/-!
List-level lemmas of the log layer: the *prefix-from-leader* property `PFL` and the follower-side
merge rule `mergeAt` (`maybe_append`: keep while terms agree, truncate at the first conflict).
-/
namespace RaftModel.P

/-- prefix-from-leader: every prefix of `l` ending in an entry of term `t` is a prefix of the (ghost)
log of the leader of `t` -/
def PFL (llog : Nat → List LEntry) (l : List LEntry) : Prop :=
  ∀ i e, l[i]? = some e → l.take (i + 1) = (llog e.term).take (i + 1)

theorem PFL_nil (llog : Nat → List LEntry) : PFL llog [] := by
  intro i e h; simp at h

theorem PFL_take {llog l} (h : PFL llog l) (n : Nat) : PFL llog (l.take n) := by
  intro i e hi
  rw [List.getElem?_take] at hi
  split at hi
  · rename_i hlt
    have := h i e hi
    rw [List.take_take, Nat.min_eq_left (by omega)]
    exact this
  · cases hi

/-- two lists satisfying PFL that carry the same term at position `i` agree up to `i` -/
theorem PFL_agree {llog l L} (hl : PFL llog l) (hL : PFL llog L) {i : Nat} {x e : LEntry}
    (hx : l[i]? = some x) (he : L[i]? = some e) (ht : x.term = e.term) :
    l.take (i + 1) = L.take (i + 1) := by
  rw [hl i x hx, hL i e he, ht]

/-- under PFL the leader log of the entry's term is long enough -/
theorem PFL_len {llog} {l : List LEntry} (h : PFL llog l) :
    ∀ (i : Nat) (e : LEntry), l[i]? = some e → i < (llog e.term).length := by
  intro i e hi
  have h1 := h i e hi
  have h2 : (l.take (i + 1)).length = i + 1 := by
    have := (List.getElem?_eq_some_iff.mp hi).1
    rw [List.length_take]; omega
  rw [h1, List.length_take] at h2
  omega

/-- under PFL an entry sits at the same position in the leader log of its term -/
theorem PFL_mem {llog} {l : List LEntry} (h : PFL llog l) :
    ∀ (i : Nat) (e : LEntry), l[i]? = some e → (llog e.term)[i]? = some e := by
  intro i e hi
  have h1 := h i e hi
  have hlt := (List.getElem?_eq_some_iff.mp hi).1
  have : (l.take (i + 1))[i]? = some e := by rw [List.getElem?_take]; simp [hi]
  rw [h1, List.getElem?_take] at this
  simpa using this

/-- PFL is stable when ghost leader logs only grow by extension -/
theorem PFL_mono {llog llog' : Nat → List LEntry} {l}
    (hext : ∀ t, ∃ r, llog' t = llog t ++ r) (h : PFL llog l) : PFL llog' l := by
  intro i e hi
  obtain ⟨r, hr⟩ := hext e.term
  rw [h i e hi, hr, List.take_append_of_le_length]
  have := PFL_len h i e hi; omega

theorem PFL_snoc {llog : Nat → List LEntry} {l : List LEntry} {n : LEntry} (h : PFL llog l)
    (hn : (llog n.term).take (l.length + 1) = l ++ [n]) : PFL llog (l ++ [n]) := by
  intro i e hi
  by_cases hlt : i < l.length
  · rw [List.getElem?_append_left hlt] at hi
    rw [List.take_append_of_le_length (by omega)]
    exact h i e hi
  · have hge : l.length ≤ i := by omega
    rw [List.getElem?_append_right hge] at hi
    have hi0 : i - l.length = 0 := by
      cases hk : i - l.length with
      | zero => rfl
      | succ k => rw [hk] at hi; simp at hi
    rw [hi0] at hi
    simp at hi
    subst hi
    have : i = l.length := by omega
    subst this
    rw [hn]
    exact List.take_of_length_le (by simp)

theorem termAt_pos {l : List LEntry} {k : Nat} (hk : 0 < k) (e : LEntry) (h : l[k - 1]? = some e) :
    termAt l k = e.term := by
  unfold termAt
  rw [if_neg (by omega), h]

/-- equal anchor terms (at a position inside both lists) give equal prefixes -/
theorem anchor_take {llog l L} {prev : Nat} (hl : PFL llog l) (hL : PFL llog L)
    (h1 : prev ≤ l.length) (h2 : prev ≤ L.length) (ht : termAt l prev = termAt L prev) :
    l.take prev = L.take prev := by
  by_cases h0 : prev = 0
  · subst h0; simp
  have hp : 0 < prev := by omega
  have hx : ∃ x, l[prev - 1]? = some x := ⟨l[prev - 1]'(by omega), List.getElem?_eq_getElem (by omega)⟩
  have hy : ∃ y, L[prev - 1]? = some y := ⟨L[prev - 1]'(by omega), List.getElem?_eq_getElem (by omega)⟩
  obtain ⟨x, hx⟩ := hx
  obtain ⟨y, hy⟩ := hy
  rw [termAt_pos hp x hx, termAt_pos hp y hy] at ht
  have := PFL_agree hl hL hx hy ht
  have e : prev - 1 + 1 = prev := by omega
  rw [e] at this
  exact this

theorem mergeAt_spec (llog : Nat → List LEntry) (L : List LEntry) (hL : PFL llog L) :
    ∀ (es : List LEntry) (l : List LEntry) (pos : Nat), PFL llog l → pos ≤ l.length →
      l.take pos = L.take pos → es = (L.drop pos).take es.length → pos + es.length ≤ L.length →
      mergeAt l pos es = l ∨ mergeAt l pos es = L.take (pos + es.length) := by
  intro es
  induction es with
  | nil => intro l pos _ _ _ _ _; left; rfl
  | cons e es ih =>
    intro l pos hl hpos hpre hes hlen
    have hLe : L[pos]? = some e := by
      have h0 : (e :: es)[0]? = some e := rfl
      rw [hes] at h0
      rw [List.getElem?_take] at h0
      simp at h0
      exact h0
    have hposL : pos < L.length := (List.getElem?_eq_some_iff.mp hLe).1
    have hdrop : L.drop pos = e :: L.drop (pos + 1) := by
      rw [List.drop_eq_getElem_cons hposL]
      congr 1
      exact (List.getElem?_eq_some_iff.mp hLe).2
    have hes' : es = (L.drop (pos + 1)).take es.length := by
      rw [hdrop] at hes
      simp only [List.length_cons, List.take_succ_cons] at hes
      injection hes
    have hconf : l.take pos ++ (e :: es) = L.take (pos + (e :: es).length) := by
      rw [hpre, hes, List.length_take]
      have : min (e :: es).length (L.drop pos).length = (e :: es).length := by
        rw [List.length_drop]; simp only [List.length_cons] at hlen ⊢; omega
      rw [this, List.take_add]
    unfold mergeAt
    cases hx : l[pos]? with
    | none => right; simpa using hconf
    | some x =>
      simp only
      by_cases ht : x.term = e.term
      · simp only [ht, if_true]
        have hagree := PFL_agree hl hL hx hLe ht
        have hpos' : pos + 1 ≤ l.length := by
          have := (List.getElem?_eq_some_iff.mp hx).1; omega
        have := ih l (pos + 1) hl hpos' hagree hes' (by simp only [List.length_cons] at hlen; omega)
        rcases this with h | h
        · left; exact h
        · right; rw [h]; simp only [List.length_cons]; congr 1; omega
      · simp only [ht, if_false]; right; exact hconf

/-- `mergeAt` never touches the part of the log before the first conflict, and leaves the log alone
when there is none -/
theorem mergeAt_prefix : ∀ (es : List LEntry) (l : List LEntry) (pos : Nat), pos ≤ l.length →
    (conflictAt l pos es = 0 → mergeAt l pos es = l) ∧
    (0 < conflictAt l pos es → pos < conflictAt l pos es ∧
      (mergeAt l pos es).take (conflictAt l pos es - 1) = l.take (conflictAt l pos es - 1)) := by
  intro es
  induction es with
  | nil => intro l pos _; simp [conflictAt, mergeAt]
  | cons e es ih =>
    intro l pos hpos
    unfold conflictAt mergeAt
    cases hx : l[pos]? with
    | none =>
      simp only
      refine ⟨by omega, fun _ => ⟨by omega, ?_⟩⟩
      simp only [Nat.add_sub_cancel]
      have hge := List.getElem?_eq_none_iff.mp hx
      have hp : pos = l.length := by omega
      subst hp
      rw [List.take_of_length_le (Nat.le_refl _), List.take_left']
      rfl
    | some x =>
      simp only
      have hlt := (List.getElem?_eq_some_iff.mp hx).1
      by_cases ht : x.term = e.term
      · simp only [ht, if_true]
        have := ih l (pos + 1) (by omega)
        refine ⟨this.1, fun h => ⟨by have := (this.2 h).1; omega, (this.2 h).2⟩⟩
      · simp only [ht, if_false]
        refine ⟨by omega, fun _ => ⟨by omega, ?_⟩⟩
        simp only [Nat.add_sub_cancel]
        rw [List.take_append_of_le_length (by simp [List.length_take]; omega)]
        rw [List.take_take]; simp

end RaftModel.P
