import RaftProofs.ClusterCommit2L

/-!
Cluster-level commit safety, part 2M: **what one call does to the stored entries** (`call_sto`): only
`stabilize` (and `compact`, which the contract excludes) changes them.
-/
namespace RaftModel
namespace Raft
namespace CC
open Node CV

/-- the stored entries and the stored snapshot point are the same -/
def SE (a r : Raft) : Prop :=
  r.raftLog.store.entries = a.raftLog.store.entries ∧
  r.raftLog.store.snapshotMetadata = a.raftLog.store.snapshotMetadata

theorem SE.rfl {r : Raft} : SE r r := ⟨Eq.refl _, Eq.refl _⟩

theorem SE.trans {a b c : Raft} (h1 : SE a b) (h2 : SE b c) : SE a c :=
  ⟨h2.1.trans h1.1, h2.2.trans h1.2⟩

theorem SE.of_k0 {a r : Raft} (h : K0 a r) : SE a r := ⟨h.ls.ents, h.ls.smeta⟩

theorem SE.storeLog {a r : Raft} (h : SE a r) : storeLog r.raftLog.store = storeLog a.raftLog.store :=
  storeLog_eq_of_core h.1 h.2

/-- `Raft::step` keeps the stored entries (no `MsgSnapshot`) -/
theorem step_se {r r' : Raft} {m : Message} {e : Option RaftError} (hinv : r.raftLog.Inv)
    (hnb : r.batchAppend = false) (hw : m.msgType = .msgAppend → MsgOk m)
    (hms : m.msgType ≠ .msgSnapshot) (h : r.step m = .ok (r', e)) : SE r r' := by
  rcases step_k hinv hnb h with c | ⟨_, _, _, _, es, _, c⟩ | ⟨_, _, c⟩ | ⟨hm, _, r0, c1, _, c3⟩ | ⟨c, _⟩
  · exact SE.of_k0 c
  · exact ⟨c.qs.ents, c.qs.smeta⟩
  · exact ⟨c.qs.ents, c.qs.smeta⟩
  · obtain ⟨_, e2, _⟩ := handleAppendEntries_eff (c1.inv hinv) (hw hm) c3
    exact (SE.of_k0 c1).trans ⟨by rw [e2], by rw [e2]⟩
  · exact absurd c hms

theorem stepIgnore_se {r r' : Raft} {m : Message} (hinv : r.raftLog.Inv)
    (hnb : r.batchAppend = false) (hw : m.msgType = .msgAppend → MsgOk m)
    (hms : m.msgType ≠ .msgSnapshot) (h : r.stepIgnore m = .ok r') : SE r r' := by
  unfold Raft.stepIgnore at h
  obtain ⟨⟨r1, e⟩, hs, h⟩ := Res.bind_eq_ok h
  cases h
  exact step_se hinv hnb hw hms hs

theorem tick_se {r r' : Raft} {b : Bool} (hinv : r.raftLog.Inv) (hnb : r.batchAppend = false)
    (h : r.tick = .ok (r', b)) : SE r r' := by
  by_cases hs : r.state = .leader
  · exact SE.of_k0 (tick_leader_k hinv hnb hs h)
  · have hel : r.tickElection = .ok (r', b) := by
      unfold Raft.tick at h
      cases hst : r.state <;> rw [hst] at h <;> first | exact h | exact absurd hst hs
    unfold Raft.tickElection at hel
    simp only at hel
    split at hel
    · cases hel; exact SE.rfl
    · obtain ⟨r3, h3, hel⟩ := Res.bind_eq_ok hel
      cases hel
      exact stepIgnore_se (r := ({ r with electionElapsed := 0 } : Raft)) hinv hnb
        (fun hc => by cases hc) (by intro hc; cases hc) h3

/-- **the stored entries after one call**: untouched unless the call is `stabilize` -/
theorem call_sto (st st' : NState) (rnd : Option Nat) (op : NodeOp) (res : OpRes)
    (hinv : st.raft.raftLog.Inv) (hnb : st.raft.batchAppend = false)
    (hop : op ≠ .drain ∧ ∀ m, op ≠ .rstep m)
    (hw : ∀ m, op = .step m → m.msgType = .msgAppend → MsgOk m)
    (hms : ∀ m, op = .step m → m.msgType ≠ .msgSnapshot)
    (hc : ∀ k, op ≠ .compact k)
    (hsn : st.raft.raftLog.unstable.snapshot = none)
    (h : Node.call st rnd op = .ok (res, st')) : SE st.raft st'.raft ∨ op = .stabilize := by
  unfold Node.call at h
  have hinv' : ({ st.raft with nextRand := rnd } : Raft).raftLog.Inv := hinv
  have hnb' : ({ st.raft with nextRand := rnd } : Raft).batchAppend = false := hnb
  have ofR : ∀ {r : Raft}, SE ({ st.raft with nextRand := rnd } : Raft) r → st'.raft = r →
      SE st.raft st'.raft ∨ op = .stabilize := fun hs hr => .inl (by rw [hr]; exact hs)
  cases op with
  | tick =>
    simp only [applyOp] at h
    split at h
    · rename_i raft b heq
      cases h
      exact ofR (tick_se hinv' hnb' heq) rfl
    · cases h
    · cases h
  | step m =>
    simp only [applyOp] at h
    obtain ⟨raft, e, hx, hr⟩ := unitRes_ok h
    refine ofR ?_ hr
    unfold RawNode.step at hx
    split at hx
    · cases hx; exact SE.rfl
    · split at hx
      · exact step_se hinv' hnb' (hw m rfl) (hms m rfl) hx
      · cases hx; exact SE.rfl
  | rstep m => exact absurd rfl (hop.2 m)
  | propose c d =>
    simp only [applyOp] at h
    obtain ⟨raft, e, hx, hr⟩ := unitRes_ok h
    exact ofR (step_se hinv' hnb' (fun hc => by cases hc) (by intro hc; cases hc) hx) hr
  | proposeCc t c d =>
    simp only [applyOp] at h
    obtain ⟨raft, e, hx, hr⟩ := unitRes_ok h
    exact ofR (step_se hinv' hnb' (fun hc => by cases hc) (by intro hc; cases hc) hx) hr
  | readIndex c =>
    simp only [applyOp] at h
    obtain ⟨raft, hx, hr⟩ := okRes_ok h
    exact ofR (stepIgnore_se hinv' hnb' (fun hc => by cases hc) (by intro hc; cases hc) hx) hr
  | transferLeader x =>
    simp only [applyOp] at h
    obtain ⟨raft, hx, hr⟩ := okRes_ok h
    exact ofR (stepIgnore_se hinv' hnb' (fun hc => by cases hc) (by intro hc; cases hc) hx) hr
  | campaign =>
    simp only [applyOp] at h
    obtain ⟨raft, e, hx, hr⟩ := unitRes_ok h
    exact ofR (step_se hinv' hnb' (fun hc => by cases hc) (by intro hc; cases hc) hx) hr
  | ping =>
    simp only [applyOp] at h
    obtain ⟨raft, hx, hr⟩ := okRes_ok h
    exact ofR (SE.of_k0 (ping_k hx K.rfl hinv' hnb')) hr
  | requestSnapshot =>
    simp only [applyOp] at h
    obtain ⟨raft, e, hx, hr⟩ := unitRes_ok h
    exact ofR (SE.of_k0 (requestSnapshot_k hx K.rfl hinv' hnb')) hr
  | reportUnreachable x =>
    simp only [applyOp] at h
    obtain ⟨raft, hx, hr⟩ := okRes_ok h
    exact ofR (stepIgnore_se hinv' hnb' (fun hc => by cases hc) (by intro hc; cases hc) hx) hr
  | reportSnapshot x f =>
    simp only [applyOp] at h
    obtain ⟨raft, hx, hr⟩ := okRes_ok h
    exact ofR (stepIgnore_se hinv' hnb' (fun hc => by cases hc) (by intro hc; cases hc) hx) hr
  | applyConfChange cc =>
    simp only [applyOp] at h
    split at h
    · rename_i raft cs heq
      cases h
      exact ofR (SE.of_k0 (applyConfChange_k heq K.rfl hinv' hnb')) rfl
    · rename_i raft e heq
      cases h
      exact ofR (SE.of_k0 (applyConfChange_k heq K.rfl hinv' hnb')) rfl
    · cases h
    · cases h
  | stabilize => exact .inr rfl
  | onPersistEntries i t =>
    simp only [applyOp] at h
    obtain ⟨raft, hx, hr⟩ := okRes_ok h
    exact ofR (SE.of_k0 (onPersistEntries_k hinv' hnb' hx)) hr
  | persistSnap =>
    simp only [applyOp] at h
    unfold Node.persistSnap at h
    simp only [] at h
    have hsn' : ({ st.raft with nextRand := rnd } : Raft).raftLog.unstable.snapshot = none := hsn
    rw [hsn'] at h
    simp only [] at h
    cases h
    exact .inl SE.rfl
  | commitApply k =>
    simp only [applyOp, Node.commitApply] at h
    split at h
    · rename_i r2 hb
      rw [Res.bind_eq_ok_iff] at hb
      obtain ⟨r1, h1, h2⟩ := hb
      have e1 : r1.raftLog = ({ st.raft with nextRand := rnd } : Raft).raftLog := by
        split at h1
        · split at h1
          · cases h1
            unfold Raft.reduceUncommittedSize
            split <;> rfl
          · cases h1; rfl
          · cases h1
        · cases h1; rfl
      have hinv1 : r1.raftLog.Inv := by rw [e1]; exact hinv
      have s2 : SE r1 r2 := by
        rcases commitApplyInternal_k hinv1 h2 with c | ⟨es, c⟩
        · exact SE.of_k0 c
        · exact ⟨c.qs.ents, c.qs.smeta⟩
      have s12 : SE st.raft r2 := ⟨by rw [s2.1, e1], by rw [s2.2, e1]⟩
      cases h
      left
      split
      · exact s12
      · exact s12
    · cases h
    · cases h
  | compact k => exact absurd rfl (hc k)
  | drain => exact absurd rfl hop.1
  | triggerSnap =>
    simp only [applyOp] at h
    cases h; exact .inl SE.rfl
  | triggerLog b =>
    simp only [applyOp] at h
    cases h; exact .inl SE.rfl
  | setPriority p =>
    simp only [applyOp] at h
    cases h; exact .inl SE.rfl
  | setBatchAppend b =>
    simp only [applyOp] at h
    cases h; exact .inl SE.rfl
  | skipBcastCommit b =>
    simp only [applyOp] at h
    cases h; exact .inl SE.rfl
  | setCheckQuorum b =>
    simp only [applyOp] at h
    cases h; exact .inl SE.rfl
  | adjustMaxInflight id cap =>
    simp only [applyOp] at h
    obtain ⟨raft, hx, hr⟩ := okRes_ok h
    exact ofR (SE.of_k0 (adjustMaxInflightMsgs_k hx K.rfl hinv' hnb')) hr
  | maybeFreeInflightBuffers =>
    simp only [applyOp] at h
    cases h; exact .inl SE.rfl
  | enableGroupCommit b =>
    simp only [applyOp] at h
    obtain ⟨raft, hx, hr⟩ := okRes_ok h
    exact ofR (SE.of_k0 (enableGroupCommit_k hx K.rfl hinv' hnb')) hr
  | assignCommitGroups v =>
    simp only [applyOp] at h
    obtain ⟨raft, hx, hr⟩ := okRes_ok h
    exact ofR (SE.of_k0 (assignCommitGroups_k hx K.rfl hinv' hnb')) hr
  | clearCommitGroup =>
    simp only [applyOp] at h
    cases h; exact .inl SE.rfl
  | checkGroupCommitConsistent =>
    simp only [applyOp] at h
    split at h
    · cases h; exact .inl SE.rfl
    · cases h; exact .inl SE.rfl
    · cases h
    · cases h
  | setMaxApplyUnpersistedLogLimit x =>
    simp only [applyOp] at h
    cases h; exact .inl SE.rfl
  | setMaxCommittedSizePerReady x =>
    simp only [applyOp] at h
    cases h; exact .inl SE.rfl
  | onEntriesFetched to term aggr =>
    rcases onEntriesFetched_ok h with h | ⟨-, -, -, raft, hx, h⟩
    · cases h; exact .inl SE.rfl
    · cases h
      rcases hx with hx | hx
      · exact ofR (SE.of_k0 (sendAppendAggressively_k hx K.rfl hinv' hnb')) rfl
      · exact ofR (SE.of_k0 (sendAppend_k hx K.rfl hinv' hnb')) rfl

end CC
end Raft
end RaftModel
