import RaftProofs.ClusterVoteD

/-!
Cluster-level election safety, helper lemmas part E: the per-call invariant `VInv` through the arms
of `step`, `step` itself, `tick`, the `RawNode` wrappers and `apply_conf_change`.
-/
namespace RaftModel
namespace Raft
namespace CV
open VoteOb

/-- changing the tag of a call whose input is not a real-vote message -/
theorem VInv.retag {a r : Raft} {m1 m2 : Message} (h : VInv a m1 r)
    (h1 : isRVt m1.msgType = false) (h2 : isRVt m2.msgType = false) : VInv a m2 r := by
  have hb : ∀ t j, Backed a m1 t j → Backed a m2 t j := by
    intro t j hb
    rcases hb with g | g | g
    · exact Or.inl g
    · rw [g.1] at h1; cases h1
    · exact Or.inr (Or.inr g)
  refine ⟨h.id, h.hs, h.tv, h.pk, h.nf, ?_, fun hc j hj => hb _ _ (h.cand hc j hj), ?_⟩
  · intro x hx hrv
    rcases h.msgs x hx hrv with g | g
    · exact Or.inl g
    · right
      refine ⟨g.1, g.2.1, fun hc => ⟨?_, (g.2.2.1 hc).2⟩, fun hc => ?_⟩
      · intro hc2; rw [hc2] at h2; cases h2
      · have := (g.2.2.2 hc).1
        rw [this] at h1; cases h1
  · intro hl
    rcases h.lead hl with g | ⟨Q, q1, q2⟩
    · exact Or.inl g
    · exact Or.inr ⟨Q, q1, fun j hj => hb _ _ (q2 j hj)⟩

/-! ### the role arms -/

theorem stepCandidate_vinv {a r : Raft} {m : Message} (h : VInv a m r)
    (hs : r.state = .candidate ∨ r.state = .preCandidate) (hm : m.msgType ≠ .msgRequestVote)
    (hmt : m.msgType = .msgRequestVoteResponse → m.term = 0 ∨ m.term = r.term) :
    Res.Post (fun x => VInv a m x.1) (r.stepCandidate m) := by
  have hp : (r.state = .candidate → m.msgType = .msgRequestVoteResponse) →
      Res.Post (fun x => VInv a m x.1)
      ((r.poll m.frm m.msgType (!m.reject)).bind (fun (r, _) =>
        (r.maybeCommitByVote m).bind (fun r => (.ok (r, none) : Res (Raft × Option RaftError))))) := by
    intro hty
    have hfv : r.state = .candidate → (!m.reject) = true → Backed a m r.term m.frm := by
      intro hc hv
      have hr : m.reject = false := by simpa using hv
      refine Or.inr (Or.inl ⟨hty hc, hr, rfl, ?_⟩)
      rcases hmt (hty hc) with g | g
      · exact Or.inr g
      · exact Or.inl g
    apply Res.post_bind (poll_vinv r m.frm m.msgType (!m.reject) h hs hfv hm)
    rintro ⟨r1, res⟩ ⟨g1, _⟩
    exact Res.post_bind (maybeCommitByVote_vinv m g1) (fun b hb => hb.1)
  unfold stepCandidate
  split
  · exact h
  · split
    · trivial
    · rename_i ht
      have ht' : r.term ≤ m.term := by
        have : r.term = m.term := by
          apply Classical.byContradiction; intro hc; exact ht hc
        omega
      exact Res.post_bind (handleAppendEntries_vf _ m) (fun b hb =>
        (h.becomeFollower m.term m.frm ht').vf hb)
  · split
    · trivial
    · rename_i ht
      have ht' : r.term ≤ m.term := by
        have : r.term = m.term := by
          apply Classical.byContradiction; intro hc; exact ht hc
        omega
      exact Res.post_bind (handleHeartbeat_vf _ m) (fun b hb =>
        (h.becomeFollower m.term m.frm ht').vf hb)
  · split
    · trivial
    · rename_i ht
      have ht' : r.term ≤ m.term := by
        have : r.term = m.term := by
          apply Classical.byContradiction; intro hc; exact ht hc
        omega
      exact Res.post_bind (handleSnapshot_vinv m (h.becomeFollower m.term m.frm ht'))
        (fun b hb => hb.1)
  · rename_i hty
    split
    · exact h
    · rename_i hcond
      split
      · exact h
      · apply hp
        intro hc
        apply Classical.byContradiction
        intro hne
        exact hcond (Or.inr ⟨hc, hne⟩)
  · rename_i hty
    split
    · exact h
    · split
      · exact h
      · exact hp (fun _ => hty)
  · exact h

theorem stepFollower_vinv {a r : Raft} {m : Message} (h : VInv a m r)
    (hm : m.msgType ≠ .msgRequestVote) :
    Res.Post (fun x => VInv a m x.1) (r.stepFollower m) := by
  unfold stepFollower
  split
  · rename_i hty
    split
    · exact h
    · split
      · exact h
      · exact Res.post_bind (send_vf r _ (by simp [hty, isRVt])) (fun b hb => h.vf hb)
  · exact Res.post_bind (handleAppendEntries_vf _ m) (fun b hb =>
      (h.vf (by simp [VF, ncore])).vf hb)
  · exact Res.post_bind (handleHeartbeat_vf _ m) (fun b hb =>
      (h.vf (by simp [VF, ncore])).vf hb)
  · exact Res.post_bind (handleSnapshot_vinv m (h.vf (by simp [VF, ncore]))) (fun b hb => hb.1)
  · rename_i hty
    split
    · exact h
    · exact Res.post_bind (send_vf r _ (by simp [hty, isRVt])) (fun b hb => h.vf hb)
  · split
    · exact Res.post_bind (hup_vinv true h hm) (fun b hb => hb.1)
    · exact h
  · rename_i hty
    split
    · exact h
    · exact Res.post_bind (send_vf r _ (by simp [hty, isRVt])) (fun b hb => h.vf hb)
  · split
    · dsimp only
      split
      · rename_i log _ hmc
        have := maybeCommit_store hmc
        exact h.vf (by simp [VF, ncore, this])
      · trivial
      · trivial
    · exact h
  · exact h

theorem stepLeader_vinv {a r : Raft} {m : Message} (h : VInv a m r) :
    Res.Post (fun x => VInv a m x.1) (r.stepLeader m) := by
  unfold stepLeader
  split
  · exact Res.post_bind (bcastHeartbeat_vf r) (fun b hb => h.vf hb)
  · have h1 := h.vf (checkQuorumActive_vf r)
    generalize r.checkQuorumActive = p at h1 ⊢
    obtain ⟨r1, active⟩ := p
    dsimp only at h1 ⊢
    split
    · exact h1.becomeFollower _ 0 (Nat.le_refl _)
    · exact h1
  · split
    · trivial
    · split
      · exact h
      · split
        · exact h
        · have h1 := h.vf (filterProposal_vf m.entries r 0)
          generalize r.filterProposal 0 m.entries = p at h1 ⊢
          obtain ⟨r1, oes⟩ := p
          dsimp only at h1 ⊢
          split
          · rename_i r2 heq
            cases heq
            exact h1
          · rename_i r2 es heq
            cases heq
            split
            · rename_i r3 heq2
              exact h1.vf (Res.Post.of_eq (P := fun x => VF _ x.1) (appendEntry_vf _ _) heq2)
            · rename_i r3 heq2
              have h2 := h1.vf (Res.Post.of_eq (P := fun x => VF _ x.1) (appendEntry_vf _ _) heq2)
              exact Res.post_bind (bcastAppend_vf r3) (fun b hb => h2.vf hb)
            · trivial
            · trivial
  · split
    · trivial
    · trivial
    · exact h
    · have hans : ∀ r0, VInv a m r0 → Res.Post (fun x => VInv a m x.1)
          ((r0.handleReadyReadIndex m r0.raftLog.committed).bind (fun (r, om) =>
            match om with
            | some m' => (r.send m').bind (fun r => (.ok (r, none) : Res (Raft × Option RaftError)))
            | none => .ok (r, none))) := by
        intro r0 h0
        apply Res.post_bind (handleReadyReadIndex_vf r0 m _)
        rintro ⟨r1, om⟩ ⟨g1, g2⟩
        dsimp only at g1 g2 ⊢
        split
        · rename_i m'
          have hm' : isRVt m'.msgType = false := by rw [g2 m' rfl]; rfl
          exact Res.post_bind (send_vf r1 m' hm') (fun b hb => (h0.vf g1).vf hb)
        · exact h0.vf g1
      dsimp only
      split
      · exact hans r h
      · split
        · split
          · trivial
          · apply Res.post_bind (P := fun _ => True)
            · exact Res.post_intro (fun _ _ => trivial)
            · intro ro _
              exact Res.post_bind (bcastHeartbeatWithCtx_vf _ _) (fun b hb =>
                (h.vf (by simp [VF, ncore])).vf hb)
        · exact hans r h
  · exact Res.post_bind (handleAppendResponse_vf r m) (fun b hb => h.vf hb)
  · exact Res.post_bind (handleHeartbeatResponse_vf r m) (fun b hb => h.vf hb)
  · exact h.vf (handleSnapshotStatus_vf r m)
  · exact h.vf (handleUnreachable_vf r m)
  · exact Res.post_bind (handleTransferLeader_vf r m) (fun b hb => h.vf hb)
  · exact h

/-! ### the term preamble and the vote arm -/

theorem stepTerm_vinv {a r : Raft} {m : Message} (h : VInv a m r) :
    Res.Post (fun x => VInv a m x.1 ∧
        (x.2 = true → (m.msgType = .msgRequestVote ∨ m.msgType = .msgRequestVoteResponse) →
          m.term = 0 ∨ m.term = x.1.term)) (r.stepTerm m) := by
  unfold stepTerm
  split
  · rename_i h0
    exact ⟨h, fun _ _ => Or.inl h0⟩
  · split
    · rename_i hlt
      dsimp only
      split
      · exact ⟨h, fun hc => by cases hc⟩
      · split
        · rename_i hpv
          refine ⟨h, fun _ hty => ?_⟩
          rcases hpv with g | ⟨g, _⟩ <;> rcases hty with q | q <;> rw [q] at g <;> cases g
        · split
          · exact ⟨h.becomeFollower m.term m.frm (by omega),
              fun _ _ => Or.inr (becomeFollower_term_vote r m.term m.frm).1.symm⟩
          · exact ⟨h.becomeFollower m.term 0 (by omega),
              fun _ _ => Or.inr (becomeFollower_term_vote r m.term 0).1.symm⟩
    · split
      · split
        · split
          · rename_i r1 heq
            exact ⟨h.vf (Res.Post.of_eq (P := fun x => VF r x) (send_vf r _ (by simp [newMessage, isRVt])) heq),
              fun hc => by cases hc⟩
          · trivial
          · trivial
        · split
          · split
            · rename_i r1 heq
              exact ⟨h.vf (Res.Post.of_eq (P := fun x => VF r x) (send_vf r _ rfl) heq),
                fun hc => by cases hc⟩
            · trivial
            · trivial
          · exact ⟨h, fun hc => by cases hc⟩
      · rename_i h1 h2 h3
        refine ⟨h, fun _ _ => Or.inr ?_⟩
        show m.term = r.term
        omega

theorem sendFill_resp_fields (r : Raft) (x : Message)
    (hx : x.msgType = .msgRequestVoteResponse ∨ x.msgType = .msgRequestPreVoteResponse)
    (hf : x.frm = 0) :
    (r.sendFill x).msgType = x.msgType ∧ (r.sendFill x).frm = r.id ∧ (r.sendFill x).to = x.to ∧
    (r.sendFill x).term = x.term ∧ (r.sendFill x).reject = x.reject := by
  unfold sendFill
  rcases hx with g | g <;> simp [g, hf, isVoteMsg]

theorem send_term_ne_zero {r r' : Raft} {x : Message} (h : r.send x = .ok r')
    (hx : x.msgType = .msgRequestVoteResponse) : x.term ≠ 0 := by
  unfold Raft.send at h
  intro h0
  simp [hx, h0, isVoteMsg] at h

theorem stepVote_vinv {a r : Raft} {m : Message} (h : VInv a m r)
    (hmt : m.msgType = .msgRequestVote → m.term = 0 ∨ m.term = r.term) :
    Res.Post (fun x => VInv a m x) (r.stepVote m) := by
  unfold stepVote
  split
  · trivial
  · rename_i respType hrt
    have hcases : (m.msgType = .msgRequestVote ∧ respType = .msgRequestVoteResponse) ∨
        (m.msgType = .msgRequestPreVote ∧ respType = .msgRequestPreVoteResponse) := by
      unfold voteRespMsgType at hrt
      split at hrt
      · rename_i g; cases hrt; exact Or.inl ⟨g, rfl⟩
      · rename_i g; cases hrt; exact Or.inr ⟨g, rfl⟩
      · cases hrt
    split
    · -- granted
      rename_i hg
      unfold stepVoteGrant
      split
      · rename_i r1 heq
        have e1 := send_eq r r1 _ heq
        rcases hcases with ⟨hq, hrq⟩ | ⟨hq, hrq⟩
        · -- a real vote: the response is queued and the vote recorded
          rw [if_pos hq]
          have hterm : m.term ≠ 0 := by
            have := send_term_ne_zero heq (by simp [hrq])
            exact this
          have htm : m.term = r.term := by
            rcases hmt hq with g | g
            · exact absurd g hterm
            · exact g
          have hcv := RaftProps.C02.c02_canVote_real hq ((c02_voteGranted_iff r m).1 hg).1
          obtain ⟨f1, f2, f3, f4, f5⟩ := sendFill_resp_fields r
            { msgType := respType, to := m.frm, reject := false, term := m.term }
            (Or.inl (by simp [hrq])) rfl
          have htv : TV r ({ r1 with electionElapsed := 0, vote := m.frm } : Raft) := by
            subst e1
            refine Or.inr ⟨rfl, ?_⟩
            rcases hcv with g | g
            · exact Or.inl g.symm
            · exact Or.inr g.1
          subst e1
          refine Res.post_ok ⟨h.id, h.hs, h.tv.trans htv, h.pk, h.nf, ?_, h.cand, h.lead⟩
          intro x hx hrv
          rcases List.mem_append.1 hx with hx | hx
          · rcases h.msgs x hx hrv with g | g
            · exact Or.inl g
            · exact Or.inr (g.mono htv)
          · right
            simp only [List.mem_singleton] at hx
            subst hx
            refine ⟨f2.trans h.id, by rw [f4]; exact hterm, fun hc => ?_, fun _ => ?_⟩
            · rw [f1] at hc; simp [hrq] at hc
            · refine ⟨hq, f3, f4, ?_, ?_⟩
              · rw [f4, f3]
                show a.term < m.term ∨ (a.term = m.term ∧ (a.vote = 0 ∨ a.vote = m.frm))
                rcases h.tv with g | ⟨g1, g2⟩
                · left; omega
                · right
                  refine ⟨by omega, ?_⟩
                  rcases g2 with g2 | g2
                  · rcases hcv with q | q
                    · right; rw [← g2]; exact q
                    · left; rw [← g2]; exact q.1
                  · exact Or.inl g2
              · intro _
                rw [f4, f3]
                show m.term < r.term ∨ (r.term = m.term ∧ m.frm = m.frm)
                exact Or.inr ⟨htm.symm, rfl⟩
        · -- a pre-vote: nothing is recorded
          have hne : ¬ m.msgType = .msgRequestVote := by rw [hq]; decide
          rw [if_neg hne]
          exact Res.post_ok (h.vf (Res.Post.of_eq (P := fun x => VF r x)
            (send_vf r _ (by simp [hrq, isRVt])) heq))
      · trivial
      · trivial
    · -- refused
      unfold stepVoteReject
      split
      · trivial
      · trivial
      · split
        · rename_i r1 heq
          have e1 := send_eq r r1 _ heq
          have h1 : VInv a m r1 := by
            rcases hcases with ⟨hq, hrq⟩ | ⟨hq, hrq⟩
            · subst e1
              refine h.of_ncore rfl ?_
              intro x hx hrv
              rcases List.mem_append.1 hx with hx | hx
              · rcases h.msgs x hx hrv with g | g
                · exact Or.inl g
                · exact Or.inr (g.mono (TV.refl _))
              · exfalso
                simp only [List.mem_singleton] at hx
                obtain ⟨y, hy, y1, y2, y3⟩ : ∃ y : Message, x = r.sendFill y ∧ y.msgType = respType ∧
                    y.reject = true ∧ y.frm = 0 := ⟨_, hx, rfl, rfl, rfl⟩
                subst hy
                obtain ⟨f1, _, _, _, f5⟩ := sendFill_resp_fields r y (Or.inl (by rw [y1, hrq])) y3
                rw [y1] at f1; rw [y2] at f5
                rcases isRVm_type hrv with g | ⟨_, g⟩
                · rw [f1] at g; simp [hrq] at g
                · rw [f5] at g; cases g
            · exact h.vf (Res.Post.of_eq (P := fun x => VF r x)
                (send_vf r _ (by simp [hrq, isRVt])) heq)
          split
          · exact Res.post_mono (maybeCommitByVote_vinv m h1) (fun x hx => hx.1)
          · exact h1
        · trivial
        · trivial
    · trivial
    · trivial

/-! ### `step`, `tick`, the wrappers -/

theorem step_vinv {a r : Raft} {m : Message} (h : VInv a m r) :
    Res.Post (fun x => VInv a m x.1) (r.step m) := by
  unfold step
  have hst := stepTerm_vinv (m := m) h
  split
  · trivial
  · trivial
  · rename_i r1 heq
    exact (Res.Post.of_eq hst heq).1
  · rename_i r1 heq
    obtain ⟨h1, ht⟩ := Res.Post.of_eq hst heq
    dsimp only at h1 ht
    split
    · rename_i hty
      exact Res.post_bind (hup_vinv false h1 (by rw [hty]; decide)) (fun b hb => hb.1)
    · rename_i hty
      have := stepVote_vinv h1 (fun hq => ht rfl (Or.inl hq))
      split
      · rename_i r2 heq2
        have h2 := Res.Post.of_eq this heq2
        exact h2
      · trivial
      · trivial
    · rename_i hty
      have := stepVote_vinv h1 (fun hq => ht rfl (Or.inl hq))
      split
      · rename_i r2 heq2
        have h2 := Res.Post.of_eq this heq2
        exact h2
      · trivial
      · trivial
    · rename_i hn1 hn2 hn3
      have hm : m.msgType ≠ .msgRequestVote := hn2
      have hmt : m.msgType = .msgRequestVoteResponse → m.term = 0 ∨ m.term = r1.term :=
        fun hq => ht rfl (Or.inr hq)
      split
      · rename_i hs
        exact stepCandidate_vinv h1 (Or.inr hs) hm hmt
      · rename_i hs
        exact stepCandidate_vinv h1 (Or.inl hs) hm hmt
      · exact stepFollower_vinv h1 hm
      · exact stepLeader_vinv h1

theorem stepIgnore_vinv {a r : Raft} {m : Message} (h : VInv a m r) :
    Res.Post (fun x => VInv a m x) (r.stepIgnore m) := by
  unfold stepIgnore
  exact Res.post_bind (step_vinv h) (fun b hb => hb)

/-- the tag of a call that is not `step` of a delivered message -/
def mLocal : Message := {}

theorem tickElection_vinv (a : Raft) :
    Res.Post (fun x => VInv a mLocal x.1) a.tickElection := by
  unfold tickElection
  dsimp only
  have h0 : VInv a mLocal { a with electionElapsed := a.electionElapsed + 1 } :=
    (VInv.refl a mLocal).vf (by simp [VF, ncore])
  split
  · exact h0
  · have h1 : VInv a (newMessage 0 .msgHup (some a.id))
        ({ ({ a with electionElapsed := a.electionElapsed + 1 } : Raft) with electionElapsed := 0 } : Raft) :=
      (VInv.refl a _).vf (by simp [VF, ncore])
    exact Res.post_bind (stepIgnore_vinv h1) (fun b hb => hb.retag rfl rfl)

theorem tickHeartbeat_vinv (a : Raft) :
    Res.Post (fun x => VInv a mLocal x.1) a.tickHeartbeat := by
  unfold tickHeartbeat
  dsimp only
  have h0 : VInv a mLocal ({ a with heartbeatElapsed := a.heartbeatElapsed + 1, electionElapsed := a.electionElapsed + 1 } : Raft) :=
    (VInv.refl a mLocal).vf (by simp [VF, ncore])
  apply Res.post_bind (P := fun x => VInv a mLocal x.1)
  · split
    · apply Res.post_bind (P := fun x => VInv a mLocal x.1)
      · split
        · have h1 : VInv a (newMessage 0 .msgCheckQuorum (some a.id))
              ({ ({ a with heartbeatElapsed := a.heartbeatElapsed + 1, electionElapsed := a.electionElapsed + 1 } : Raft) with electionElapsed := 0 } : Raft) :=
            (VInv.refl a _).vf (by simp [VF, ncore])
          exact Res.post_bind (stepIgnore_vinv h1) (fun b hb => hb.retag rfl rfl)
        · exact h0.vf (by simp [VF, ncore])
      · rintro ⟨r1, b⟩ g
        dsimp only at g ⊢
        split
        · exact g.vf (by simp [VF, ncore, abortLeaderTransfer])
        · exact g
    · exact h0
  · rintro ⟨r1, b⟩ g
    dsimp only at g ⊢
    split
    · exact g
    · split
      · have h1 : VInv a (newMessage 0 .msgBeat (some r1.id)) ({ r1 with heartbeatElapsed := 0 } : Raft) :=
          (g.retag rfl rfl).vf (by simp [VF, ncore])
        exact Res.post_bind (stepIgnore_vinv h1) (fun b hb => hb.retag rfl rfl)
      · exact g

theorem tick_vinv (a : Raft) : Res.Post (fun x => VInv a mLocal x.1) a.tick := by
  unfold tick
  split
  · exact tickElection_vinv a
  · exact tickElection_vinv a
  · exact tickElection_vinv a
  · exact tickHeartbeat_vinv a

theorem rawStep_vinv (a : Raft) (m : Message) :
    Res.Post (fun x => VInv a m x.1) (RawNode.step a m) := by
  unfold RawNode.step
  split
  · exact VInv.refl a m
  · split
    · exact step_vinv (VInv.refl a m)
    · exact VInv.refl a m

/-- `step` / `step_ignore` of a message the application builds itself (not a real-vote message) -/
theorem localStep_vinv (a : Raft) (m : Message) (hm : isRVt m.msgType = false) :
    Res.Post (fun x => VInv a mLocal x.1) (a.step m) :=
  Res.post_mono (step_vinv (VInv.refl a m)) (fun _ hx => hx.retag hm rfl)

theorem localStepIgnore_vinv (a : Raft) (m : Message) (hm : isRVt m.msgType = false) :
    Res.Post (fun x => VInv a mLocal x) (a.stepIgnore m) :=
  Res.post_mono (stepIgnore_vinv (VInv.refl a m)) (fun _ hx => hx.retag hm rfl)

theorem applyConfChange_vinv (a : Raft) (cc : ConfChangeV2) :
    Res.Post (fun x => VInv a mLocal x.1) (a.applyConfChange cc) := by
  unfold applyConfChange
  dsimp only
  split
  · exact VInv.refl a mLocal
  · rename_i cfg changes _
    have hsp : ∀ b, b = Joint.contains (a.prs.applyConf cfg changes a.raftLog.lastIndex).voters a.id →
        VInv a mLocal { ({ a with prs := a.prs.applyConf cfg changes a.raftLog.lastIndex } : Raft) with promotable := b } := by
      intro b hb
      refine ⟨rfl, rfl, TV.refl a, Or.inr hb, fun hne => Or.inl hne, fun x hx _ => Or.inl hx, ?_, ?_⟩
      · intro hc j hj
        exact Or.inr (Or.inr ⟨hc, rfl, hj⟩)
      · intro hl
        exact Or.inl ⟨hl, rfl⟩
    exact Res.post_bind (postConfChange_vinv' hsp) (fun b hb => hb.1)

end CV
end Raft
end RaftModel
