import RaftProofs.ClusterConfG
import RaftProofs.ClusterLogK
import RaftProofs.RaftNodePD

/-!
C09 at the cluster level, part H: the leader discipline `LB` (a leader has `ConfBounded`) through
`tick`, `commit_apply` (auto-leave), the storage-side steps of the emulated application, and through
EVERY `NodeOp` (`call_lb`), for a node whose log satisfies the representation invariant.
-/
namespace RaftModel
namespace Raft
open VoteOb Node RaftProps.C09

/-- a leader stepping its own `MsgCheckQuorum` / `MsgBeat`: it steps down, or the log, the apply cursor
and `pending_conf_index` are kept -/
theorem step_local_cf {r r' : Raft} {m : Message} {e : Option RaftError} (hinv : r.raftLog.Inv)
    (hs : r.state = .leader) (h0 : m.term = 0)
    (hm : m.msgType = .msgCheckQuorum ∨ m.msgType = .msgBeat) (h : r.step m = .ok (r', e)) :
    r'.state = .follower ∨ (CF r r' ∧ LS r r') := by
  obtain ⟨r1, b, ht, hc⟩ := c02_step_cases h
  have hr1 : r1 = r := by
    rcases c02_stepTerm_cases ht with ⟨e1, _⟩ | ⟨_, _, hne, _⟩ | ⟨_, hlt, _⟩
    · exact e1
    · exact absurd h0 hne
    · omega
  subst hr1
  have hnp : m.msgType ≠ .msgPropose := by
    rcases hm with g | g <;> (rw [g]; decide)
  rcases hc with ⟨_, e1⟩ | ⟨_, ⟨hm', _⟩ | ⟨hm', _⟩ | ⟨_, _, _, ⟨hs', _⟩ | ⟨hs', _⟩ | ⟨_, hl⟩⟩⟩
  · subst e1; exact .inr ⟨CF.rfl, LS.rfl⟩
  · rcases hm with g | g <;> (rw [g] at hm'; cases hm')
  · rcases hm with g | g <;> (rcases hm' with q | q <;> (rw [g] at q; cases q))
  · rcases hs' with g | g <;> (rw [hs] at g; cases g)
  · rw [hs] at hs'; cases hs'
  · rcases c09_stepLeader_other hnp hl with hcf | hf
    · rcases stepLeader_log hinv LS.rfl hs hl with hls | ⟨hm', _⟩
      · exact .inr ⟨hcf, hls⟩
      · exact absurd hm' hnp
    · exact .inl hf

theorem stepIgnore_local_cf {r r' : Raft} {m : Message} (hinv : r.raftLog.Inv)
    (hs : r.state = .leader) (h0 : m.term = 0)
    (hm : m.msgType = .msgCheckQuorum ∨ m.msgType = .msgBeat) (h : r.stepIgnore m = .ok r') :
    r'.state = .follower ∨ (CF r r' ∧ LS r r') := by
  unfold Raft.stepIgnore at h
  rw [Res.bind_eq_ok_iff] at h
  obtain ⟨⟨r1, e⟩, hs1, h⟩ := h
  cases h
  exact step_local_cf hinv hs h0 hm hs1

/-- a leader's tick: it steps down, or the log, the apply cursor and `pending_conf_index` are kept -/
theorem tickHeartbeat_cf {r r' : Raft} {b : Bool} (hinv : r.raftLog.Inv) (hs : r.state = .leader)
    (h : r.tickHeartbeat = .ok (r', b)) : r'.state = .follower ∨ (CF r r' ∧ LS r r') := by
  unfold Raft.tickHeartbeat at h
  simp only [] at h
  rw [Res.bind_eq_ok_iff] at h
  obtain ⟨⟨r1, b1⟩, hs1, h⟩ := h
  have h1 : r1.state = .follower ∨ (CF r r1 ∧ LS r r1) := by
    split at hs1
    · rw [Res.bind_eq_ok_iff] at hs1
      obtain ⟨⟨r2, b2⟩, hs2, hs1⟩ := hs1
      have h2 : r2.state = .follower ∨ (CF r r2 ∧ LS r r2) := by
        split at hs2
        · rw [Res.bind_eq_ok_iff] at hs2
          obtain ⟨r3, hs3, hs2⟩ := hs2
          cases hs2
          rcases stepIgnore_local_cf (by exact hinv) (by exact hs) rfl (.inl rfl) hs3 with g | ⟨g1, g2⟩
          · exact .inl g
          · exact .inr ⟨g1, g2⟩
        · cases hs2; exact .inr ⟨CF.mk' CF.rfl, LS.mk' LS.rfl⟩
      simp only [] at hs1
      split at hs1
      · cases hs1
        rcases h2 with g | ⟨g1, g2⟩
        · exact .inl g
        · exact .inr ⟨CF.mk' g1, LS.mk' g2⟩
      · cases hs1; exact h2
    · cases hs1; exact .inr ⟨CF.mk' CF.rfl, LS.mk' LS.rfl⟩
  simp only [] at h
  split at h
  · cases h; exact h1
  · rename_i hl
    have hl' : r1.state = .leader := by
      apply Classical.byContradiction; intro hc; exact hl hc
    rcases h1 with g | ⟨g1, g2⟩
    · rw [g] at hl'; cases hl'
    · split at h
      · rw [Res.bind_eq_ok_iff] at h
        obtain ⟨r3, hs3, h⟩ := h
        cases h
        have hinv1 : r1.raftLog.Inv := g2.inv hinv
        rcases stepIgnore_local_cf (r := { r1 with heartbeatElapsed := 0 }) (by exact hinv1)
          (by exact hl') rfl (.inr rfl) hs3 with q | ⟨q1, q2⟩
        · exact .inl q
        · exact .inr ⟨CF.trans g1 q1, LS.trans g2 q2⟩
      · cases h; exact .inr ⟨g1, g2⟩

/-- **`tick`** keeps the leader discipline -/
theorem tick_lb {r r' : Raft} {b : Bool} (hinv : r.raftLog.Inv)
    (hap : r.raftLog.applied ≤ r.raftLog.lastIndex) (hlb : LB r) (h : r.tick = .ok (r', b)) :
    LB r' := by
  have hE : r.tickElection = .ok (r', b) → LB r' := by
    intro h
    unfold Raft.tickElection at h
    simp only [] at h
    split at h
    · cases h; exact hlb
    · rw [Res.bind_eq_ok_iff] at h
      obtain ⟨r1, hs, h⟩ := h
      cases h
      unfold Raft.stepIgnore at hs
      rw [Res.bind_eq_ok_iff] at hs
      obtain ⟨⟨r2, e⟩, hs2, hs⟩ := hs
      cases hs
      exact step_lb (r := { r with electionElapsed := 0 }) hinv hap hlb hs2
  unfold Raft.tick at h
  split at h
  · exact hE h
  · exact hE h
  · exact hE h
  · rename_i hs
    intro hl'
    rcases tickHeartbeat_cf hinv hs h with g | ⟨g1, g2⟩
    · rw [g] at hl'; cases hl'
    · exact cb_of_same (hlb hs) g2.abs g1

/-- `commit_apply` (the second writer of a leader's log: auto-leave) keeps `ConfBounded`
(cf. `C09_one_pending_change_commit_apply`) -/
theorem cb_commit_apply {r r' : Raft} {applied : Nat} {skip : Bool} (hinv : r.raftLog.Inv)
    (hsk : skip = true → r.raftLog.applied ≤ applied) (hb : ConfBounded r)
    (h : r.commitApplyInternal applied skip = .ok r') : ConfBounded r' := by
  unfold Raft.commitApplyInternal at h
  simp only [] at h
  split at h
  · cases h
  · cases h
  · rename_i log hlog
    obtain ⟨a', hge, hl, ha0⟩ := c09_applyCursor _ _ _ _ hsk hlog
    have habs : log.abs = r.raftLog.abs := by rw [hl]; rfl
    have hinv1 : log.Inv := by
      rw [hl]
      exact hinv.set_cursors r.raftLog.committed r.raftLog.persisted a' hinv.dummy_le_committed
        hinv.committed_le_last hinv.persisted_lt_off hinv.persisted_le_store
    have hli : log.lastIndex = r.raftLog.lastIndex := by rw [hl]; rfl
    have happ : log.applied = a' := by rw [hl]
    have hb1 : ConfBounded { r with raftLog := log } := by
      intro i e he hc hi
      exact hb i e (by rw [← habs]; exact he) hc
        (by have : a' < i := by rw [← happ]; exact hi
            omega)
    split at h
    · rename_i hcond
      obtain ⟨_, hc1, hc2, hc3⟩ := hcond
      have hpa : r.pendingConfIndex ≤ a' := by
        by_cases h0 : applied = 0
        · have : r.pendingConfIndex ≤ applied := hc2
          omega
        · rw [ha0 h0]; exact hc2
      split at h
      · rename_i r2 happe
        cases h
        have hcf : CF _ r2 := appendEntry_cf happe CF.rfl
        rcases appendEntry_cases (r := { r with raftLog := log }) hinv1 hc3 happe with
          ⟨hb', _⟩ | ⟨_, he, _⟩ | ⟨_, hA, _⟩
        · cases hb'
        · cases he
        · have hlast : r2.raftLog.lastIndex = r.raftLog.lastIndex + 1 := by
            rw [hA.last]; simp only [stampFrom, List.length_cons, List.length_nil]
            show log.lastIndex + _ = _
            rw [hli]
          have hap2 : r2.raftLog.applied = a' := by rw [hcf.2]; exact happ
          have new : ∀ x e, r2.raftLog.abs.entryAt x = some e → isConf e → a' < x →
              x = r.raftLog.lastIndex + 1 := by
            intro x e hx hc hgt
            rcases c09_appended_entryAt (a := { r with raftLog := log }) hinv1 hA x e hx with
              ⟨_, h2⟩ | ⟨h1, h2⟩
            · have h2' : r.raftLog.abs.entryAt x = some e := by rw [← habs]; exact h2
              have := hb x e h2' hc (by omega)
              omega
            · have h1' : r.raftLog.lastIndex < x := by rw [← hli]; exact h1
              cases hk : x - log.lastIndex - 1 with
              | zero => rw [hli] at hk; omega
              | succ n =>
                have h2' := h2
                change (stampFrom _ _ _)[x - log.lastIndex - 1]? = some e at h2'
                rw [hk] at h2'
                simp [stampFrom] at h2'
          intro i e he hc hi
          show i ≤ r2.raftLog.lastIndex
          have : a' < i := by rw [← hap2]; exact hi
          rw [hlast, new i e he hc this]
          exact Nat.le_refl _
      · cases h
      · cases h
      · cases h
    · cases h
      exact hb1

/-- `post_conf_change` on a node that is leader afterwards keeps the apply cursor and
`pending_conf_index` -/
theorem postConfChange_cf_leader {a r r' : Raft} {cs : ConfState}
    (h : r.postConfChange = .ok (r', cs)) (hl : r'.state = .leader) (h0 : CF a r) : CF a r' := by
  unfold Raft.postConfChange at h
  simp only [] at h
  split at h
  · cases h
    cases hl
  · split at h
    · cases h
      exact CF.mk' h0
    · rw [Res.bind_eq_ok_iff] at h
      obtain ⟨r1, h1, h⟩ := h
      have t1 : CF a r1 := by
        split at h1
        · rename_i r3 hmc
          exact bcastAppend_cf h1 (maybeCommit_cf hmc (CF.mk' h0))
        · rename_i r3 hmc
          refine forEachPeer_cf ?_ h1 (maybeCommit_cf hmc (CF.mk' h0))
          intro r id pr r' pr' hf h0
          rw [Res.bind_eq_ok_iff] at hf
          obtain ⟨⟨r4, pr4, b4⟩, hf1, hf2⟩ := hf
          cases hf2
          exact maybeSendAppend_cf hf1 h0
        · cases h1
        · cases h1
      rw [Res.bind_eq_ok_iff] at h
      obtain ⟨r2, h2, h⟩ := h
      have t2 : CF a r2 := by
        cf_auto h2 [respondReadStates_cf]
      cf_auto h [Raft.abortLeaderTransfer]

theorem applyConfChange_lb {r r' : Raft} {cc : ConfChangeV2} {x : Except ErrKind ConfState}
    (hlb : LB r) (h : r.applyConfChange cc = .ok (r', x)) : LB r' := by
  intro hl
  have habs := (applyConfChange_ls h LS.rfl).abs
  have hst : r.state = .leader := by
    rcases applyConfChange_state h with ⟨g, _⟩ | g
    · rw [← g]; exact hl
    · rw [g] at hl; cases hl
  have hcf : CF r r' := by
    unfold Raft.applyConfChange at h
    simp only [] at h
    split at h
    · cases h; exact CF.rfl
    · rw [Res.bind_eq_ok_iff] at h
      obtain ⟨⟨r1, cs⟩, hp, h⟩ := h
      cases h
      exact postConfChange_cf_leader hp hl (CF.mk' CF.rfl)
  exact cb_of_same (hlb hst) habs hcf

/-- the storage-side steps: every entry of the new logical log is an entry of the old one; role,
apply cursor and `pending_conf_index` are kept -/
structure StoreStep (r r' : Raft) : Prop where
  sub : ∀ i e, r'.raftLog.abs.entryAt i = some e → r.raftLog.abs.entryAt i = some e
  applied : r'.raftLog.applied = r.raftLog.applied
  pci : r'.pendingConfIndex = r.pendingConfIndex
  state : r'.state = r.state

theorem StoreStep.lb {r r' : Raft} (h : StoreStep r r') (hlb : LB r) : LB r' := by
  intro hl
  exact cb_of_sub (hlb (h.state ▸ hl)) h.sub (Nat.le_of_eq h.applied.symm)
    (Nat.le_of_eq h.pci.symm)

theorem StoreStep.of_abs {r r' : Raft} (ha : r'.raftLog.abs = r.raftLog.abs)
    (h1 : r'.raftLog.applied = r.raftLog.applied) (h2 : r'.pendingConfIndex = r.pendingConfIndex)
    (h3 : r'.state = r.state) : StoreStep r r' :=
  ⟨fun i e he => by rw [← ha]; exact he, h1, h2, h3⟩

theorem stabilize_storeStep {st st' : NState} {res : OpRes} (hinv : st.raft.raftLog.Inv)
    (h : Node.stabilize st = .ok (res, st')) : StoreStep st.raft st'.raft := by
  unfold Node.stabilize at h
  simp only [] at h
  split at h
  · rename_i l hl0
    have hl : st.raft.raftLog.stabilise = .ok l := hl0
    cases h
    have hl' : l.Inv ∧ l.abs = st.raft.raftLog.abs ∧ l.applied = st.raft.raftLog.applied := by
      cases hs : st.raft.raftLog.unstable.snapshot with
      | none =>
        obtain ⟨l2, e2, i2, a2, _, _, ap2, _⟩ := RaftProps.C14.stabilise_ok hinv hs
        rw [hl] at e2
        cases e2
        exact ⟨i2, a2, ap2⟩
      | some sn =>
        by_cases hne : st.raft.raftLog.unstable.entries = []
        · have : st.raft.raftLog.stabilise = .ok st.raft.raftLog := by
            unfold RaftLog.stabilise; rw [hne]; rfl
          rw [this] at hl
          cases hl
          exact ⟨hinv, rfl, rfl⟩
        · obtain ⟨s, hp⟩ := RaftProps.C14.stabilise_pending_panics hinv sn hs hne
          rw [hp] at hl; cases hl
    obtain ⟨i1, a1, ap1⟩ := hl'
    obtain ⟨_, a2, _⟩ := Inv_store_core i1
      (l.store.setHardState { l.store.hardState with term := st.raft.term, vote := st.raft.vote })
      rfl rfl
    exact StoreStep.of_abs (by show RaftLog.abs _ = _; rw [a2, a1]) ap1 rfl rfl
  · cases h
  · cases h

theorem persistSnap_storeStep {st st' : NState} {res : OpRes} (hinv : st.raft.raftLog.Inv)
    (h : Node.persistSnap st = .ok (res, st')) : StoreStep st.raft st'.raft := by
  unfold Node.persistSnap at h
  simp only [] at h
  split at h
  · cases h; exact StoreStep.of_abs rfl rfl rfl rfl
  · rename_i sn hsn
    split at h
    · cases h; exact StoreStep.of_abs rfl rfl rfl rfl
    · cases h
    · rename_i store hap
      split at h
      · cases h
      · cases h
      · rename_i l hl
        split at h
        · rename_i raft hop
          cases h
          have hge : st.raft.raftLog.store.firstIndex ≤ sn.metadata.index := by
            unfold MemStorage.applySnapshot at hap
            dsimp only at hap
            split at hap
            · cases hap
            · omega
          unfold Raft.onPersistSnap at hop
          split at hop
          · rename_i l2 b hmp
            cases hop
            have hps : st.raft.raftLog.persistSnapshot = .ok l2 := by
              unfold RaftLog.persistSnapshot
              rw [hsn]
              simp only []
              rw [hap]
              simp only []
              rw [hl]
              simp only []
              rw [hmp]
            obtain ⟨l3, e3, i3, a3, _, ap3, _⟩ := RaftProps.C14.persistSnapshot_ok hinv sn hsn hge
            rw [hps] at e3
            cases e3
            exact StoreStep.of_abs a3 ap3 rfl rfl
          · cases hop
          · cases hop
        · cases h
        · cases h

theorem compact_storeStep {r : Raft} {k : Nat} {store : MemStorage} (hinv : r.raftLog.Inv)
    (hc : CompactOk r.raftLog k) (h : r.raftLog.store.compact k = .ok store) :
    StoreStep r (withStore r (fun _ => store)) := by
  obtain ⟨l', hcs, _, habs1, habs2, _⟩ :=
    RaftProps.C14.compactStore_ok hinv k hc.1 (by have := hc.2; omega) (.inl (by
      have := hc.2; have := hinv.persisted_le_store; omega))
  have hl' : l' = { r.raftLog with store := store } := by
    unfold RaftLog.compactStore at hcs
    rw [h] at hcs
    cases hcs; rfl
  subst hl'
  refine ⟨?_, rfl, rfl, rfl⟩
  intro i e he
  have he' : ({ r.raftLog with store := store } : RaftLog).abs.entryAt i = some e := he
  cases hs : r.raftLog.unstable.snapshot with
  | none =>
    rw [habs1 hs] at he'
    have hkl : k - 1 ≤ r.raftLog.abs.lastIndex := by
      rw [← hinv.lastIndex_abs]; have := hinv.committed_le_last; have := hc.1; omega
    exact (Sub.compactTo _ _ hkl i e he').1
  | some sn =>
    rw [habs2 sn hs] at he'
    exact he'

theorem withStore_core_storeStep {r : Raft} (hinv : r.raftLog.Inv) (s' : MemStorage)
    (he : s'.entries = r.raftLog.store.entries)
    (hm : s'.snapshotMetadata = r.raftLog.store.snapshotMetadata) :
    StoreStep r { r with raftLog := { r.raftLog with store := s' } } := by
  obtain ⟨_, a2, _⟩ := Inv_store_core hinv s' he hm
  exact StoreStep.of_abs a2 rfl rfl rfl

/-- the node's `commit_apply k` step keeps the leader discipline -/
theorem nodeCommitApply_lb {st st' : NState} {k : Nat} {res : OpRes} (hinv : st.raft.raftLog.Inv)
    (hlb : LB st.raft) (h : Node.commitApply st k = .ok (res, st')) : LB st'.raft := by
  unfold Node.commitApply at h
  simp only [] at h
  split at h
  · rename_i r2 hb
    rw [Res.bind_eq_ok_iff] at hb
    obtain ⟨r1, h1, h2⟩ := hb
    have hr1 : r1.raftLog = st.raft.raftLog ∧ r1.state = st.raft.state ∧
        r1.pendingConfIndex = st.raft.pendingConfIndex := by
      have hred : ∀ ents, (st.raft.reduceUncommittedSize ents).raftLog = st.raft.raftLog ∧
          (st.raft.reduceUncommittedSize ents).state = st.raft.state ∧
          (st.raft.reduceUncommittedSize ents).pendingConfIndex = st.raft.pendingConfIndex := by
        intro ents
        unfold Raft.reduceUncommittedSize
        split <;> exact ⟨rfl, rfl, rfl⟩
      split at h1
      · split at h1
        · cases h1; exact hred _
        · cases h1; exact ⟨rfl, rfl, rfl⟩
        · cases h1
      · cases h1; exact ⟨rfl, rfl, rfl⟩
    have hinv1 : r1.raftLog.Inv := by rw [hr1.1]; exact hinv
    have lb1 : LB r1 := by
      intro hl
      have hb := hlb (hr1.2.1 ▸ hl)
      intro i e he hc hi
      rw [hr1.1] at he hi
      rw [hr1.2.2]
      exact hb i e he hc hi
    have hvf := Res.Post.of_eq (CV.commitApply_vf _ _) h2
    have lb2 : LB r2 := by
      intro hl
      unfold Raft.commitApply at h2
      exact cb_commit_apply hinv1 (fun hc => by cases hc) (lb1 (hvf.state ▸ hl)) h2
    have hinv2 : r2.raftLog.Inv := by
      unfold Raft.commitApply at h2
      rcases commitApplyInternal_k hinv1 h2 with g | ⟨es, g⟩
      · exact g.inv hinv1
      · exact g.app.inv
    cases h
    show LB (if _ then _ else r2)
    split
    · exact (withStore_core_storeStep hinv2 _ rfl rfl).lb lb2
    · exact lb2
  · cases h
  · cases h

theorem assignCommitGroups_cf_ls {r r' : Raft} {ids : List (Nat × Nat)}
    (h : r.assignCommitGroups ids = .ok r') : CF r r' ∧ LS r r' := by
  unfold Raft.assignCommitGroups at h
  simp only [] at h
  rw [Res.bind_eq_ok_iff] at h
  obtain ⟨r1, hf, h⟩ := h
  have h1 : CF r r1 := by
    refine foldl_cf _ ?_ _ _ hf (by intro r2 e; cases e; exact CF.rfl)
    intro acc p r2 h2
    cases acc with
    | err e => cases h2
    | panic s => cases h2
    | ok r0 =>
      refine ⟨r0, rfl, fun h0 => ?_⟩
      change (if p.2 = 0 then Res.panic _ else _) = _ at h2
      split at h2
      · cases h2
      · cases h2; exact h0
  have h2 : LS r r1 := by
    refine foldl_ls _ ?_ _ _ hf (by intro r2 e; cases e; exact LS.rfl)
    intro acc p r2 h2
    cases acc with
    | err e => cases h2
    | panic s => cases h2
    | ok r0 =>
      refine ⟨r0, rfl, fun h0 => ?_⟩
      change (if p.2 = 0 then Res.panic _ else _) = _ at h2
      split at h2
      · cases h2
      · cases h2; exact h0
  constructor
  · cf_auto h [maybeCommit_cf, bcastAppend_cf, h1]
  · ls_auto h [maybeCommit_ls, bcastAppend_ls, h2]

/-- **one call of a node, any `NodeOp`, keeps the leader discipline** — for a node whose log satisfies
the representation invariant and whose apply cursor is within the log; `compact` obeys the storage
contract -/
theorem call_lb (st st' : NState) (rnd : Option Nat) (op : NodeOp) (res : OpRes)
    (hinv : st.raft.raftLog.Inv) (hap : st.raft.raftLog.applied ≤ st.raft.raftLog.lastIndex)
    (hc : ∀ k, op = .compact k → CompactOk st.raft.raftLog k) (hlb : LB st.raft)
    (h : Node.call st rnd op = .ok (res, st')) : LB st'.raft := by
  unfold Node.call at h
  have hinv' : ({ st.raft with nextRand := rnd } : Raft).raftLog.Inv := hinv
  have hap' : ({ st.raft with nextRand := rnd } : Raft).raftLog.applied ≤
      ({ st.raft with nextRand := rnd } : Raft).raftLog.lastIndex := hap
  have hlb' : LB ({ st.raft with nextRand := rnd } : Raft) := hlb
  have viaStore : ∀ raft : Raft, StoreStep ({ st.raft with nextRand := rnd } : Raft) raft → LB raft :=
    fun raft hs => hs.lb hlb'
  have viaAbs : ∀ raft : Raft, raft.raftLog.abs = st.raft.raftLog.abs →
      raft.raftLog.applied = st.raft.raftLog.applied →
      raft.pendingConfIndex = st.raft.pendingConfIndex → raft.state = st.raft.state → LB raft :=
    fun raft a b c d => (StoreStep.of_abs (r := st.raft) a b c d).lb hlb
  have viaIgnore : ∀ (m : Message) (raft : Raft),
      ({ st.raft with nextRand := rnd } : Raft).stepIgnore m = .ok raft → LB raft := by
    intro m raft hx
    unfold Raft.stepIgnore at hx
    rw [Res.bind_eq_ok_iff] at hx
    obtain ⟨⟨r1, e⟩, hs1, hx⟩ := hx
    cases hx
    exact step_lb hinv' hap' hlb' hs1
  cases op with
  | tick =>
    simp only [applyOp] at h
    split at h
    · rename_i raft b heq
      cases h
      exact tick_lb hinv' hap' hlb' heq
    · cases h
    · cases h
  | step m =>
    simp only [applyOp] at h
    obtain ⟨raft, e, hx, hr⟩ := CV.unitRes_ok h
    rw [hr]
    unfold RawNode.step at hx
    split at hx
    · cases hx; exact hlb'
    · split at hx
      · exact step_lb hinv' hap' hlb' hx
      · cases hx; exact hlb'
  | rstep m =>
    simp only [applyOp] at h
    obtain ⟨raft, e, hx, hr⟩ := CV.unitRes_ok h
    rw [hr]
    exact step_lb hinv' hap' hlb' hx
  | propose c d =>
    simp only [applyOp] at h
    obtain ⟨raft, e, hx, hr⟩ := CV.unitRes_ok h
    rw [hr]
    exact step_lb hinv' hap' hlb' hx
  | proposeCc t c d =>
    simp only [applyOp] at h
    obtain ⟨raft, e, hx, hr⟩ := CV.unitRes_ok h
    rw [hr]
    exact step_lb hinv' hap' hlb' hx
  | readIndex c =>
    simp only [applyOp] at h
    obtain ⟨raft, hx, hr⟩ := CV.okRes_ok h
    rw [hr]
    exact viaIgnore _ raft hx
  | transferLeader x =>
    simp only [applyOp] at h
    obtain ⟨raft, hx, hr⟩ := CV.okRes_ok h
    rw [hr]
    exact viaIgnore _ raft hx
  | campaign =>
    simp only [applyOp] at h
    obtain ⟨raft, e, hx, hr⟩ := CV.unitRes_ok h
    rw [hr]
    exact step_lb hinv' hap' hlb' hx
  | ping =>
    simp only [applyOp] at h
    obtain ⟨raft, hx, hr⟩ := CV.okRes_ok h
    rw [hr]
    have hvf := Res.Post.of_eq (CV.ping_vf _) hx
    change Raft.ping _ = _ at hx
    unfold Raft.ping at hx
    have hcf : CF ({ st.raft with nextRand := rnd } : Raft) raft := by
      cf_auto hx [bcastHeartbeat_cf]
    have hls : LS ({ st.raft with nextRand := rnd } : Raft) raft := by
      ls_auto hx [bcastHeartbeat_ls]
    exact viaAbs raft hls.abs hcf.2 hcf.1 hvf.state
  | requestSnapshot =>
    simp only [applyOp] at h
    obtain ⟨raft, e, hx, hr⟩ := CV.unitRes_ok h
    rw [hr]
    have hvf := Res.Post.of_eq (P := fun x => CV.VF _ x.1) (CV.requestSnapshot_vf _) hx
    intro hl
    have hl0 : ({ st.raft with nextRand := rnd } : Raft).state = .leader := hvf.state ▸ hl
    change Raft.requestSnapshot _ = _ at hx
    unfold Raft.requestSnapshot at hx
    rw [if_pos hl0] at hx
    cases hx
    exact hlb' hl0
  | reportUnreachable x =>
    simp only [applyOp] at h
    obtain ⟨raft, hx, hr⟩ := CV.okRes_ok h
    rw [hr]
    exact viaIgnore _ raft hx
  | reportSnapshot x f =>
    simp only [applyOp] at h
    obtain ⟨raft, hx, hr⟩ := CV.okRes_ok h
    rw [hr]
    exact viaIgnore _ raft hx
  | applyConfChange cc =>
    simp only [applyOp] at h
    split at h
    · rename_i raft cs heq
      cases h
      exact applyConfChange_lb hlb' heq
    · rename_i raft e heq
      cases h
      exact applyConfChange_lb hlb' heq
    · cases h
    · cases h
  | stabilize =>
    simp only [applyOp] at h
    exact viaStore _ (stabilize_storeStep
      (st := { st with raft := { st.raft with nextRand := rnd } }) hinv' h)
  | onPersistEntries i t =>
    simp only [applyOp] at h
    obtain ⟨raft, hx, hr⟩ := CV.okRes_ok h
    rw [hr]
    have hvf := Res.Post.of_eq (CV.onPersistEntries_vf _ _ _) hx
    obtain ⟨a1, _, a3, a4⟩ := onPersistEntries_abs hx
    exact viaAbs raft a1 a4 a3 hvf.state
  | persistSnap =>
    simp only [applyOp] at h
    exact viaStore _ (persistSnap_storeStep
      (st := { st with raft := { st.raft with nextRand := rnd } }) hinv' h)
  | commitApply k =>
    simp only [applyOp] at h
    exact nodeCommitApply_lb (st := { st with raft := { st.raft with nextRand := rnd } }) hinv' hlb' h
  | compact k =>
    simp only [applyOp] at h
    split at h
    · rename_i store hcomp
      cases h
      exact viaStore _ (compact_storeStep hinv' (hc k rfl) hcomp)
    · cases h
    · cases h
  | drain =>
    simp only [applyOp] at h
    cases h
    exact viaAbs _ rfl rfl rfl rfl
  | triggerSnap =>
    simp only [applyOp] at h
    cases h
    exact viaStore _ (withStore_core_storeStep hinv' _ rfl rfl)
  | triggerLog b =>
    simp only [applyOp] at h
    cases h
    exact viaStore _ (withStore_core_storeStep hinv' _ rfl rfl)
  | setPriority p =>
    simp only [applyOp] at h
    cases h
    exact viaAbs _ rfl rfl rfl rfl
  | setBatchAppend b =>
    simp only [applyOp] at h
    cases h
    exact viaAbs _ rfl rfl rfl rfl
  | skipBcastCommit b =>
    simp only [applyOp] at h
    cases h
    exact viaAbs _ rfl rfl rfl rfl
  | setCheckQuorum b =>
    simp only [applyOp] at h
    cases h
    exact viaAbs _ rfl rfl rfl rfl
  | adjustMaxInflight id cap =>
    simp only [applyOp] at h
    obtain ⟨raft, hx, hr⟩ := CV.okRes_ok h
    rw [hr]
    unfold Raft.adjustMaxInflightMsgs at hx
    split at hx
    · cases hx; exact hlb'
    · split at hx
      · cases hx; exact viaAbs _ rfl rfl rfl rfl
      · cases hx
  | maybeFreeInflightBuffers =>
    simp only [applyOp] at h
    cases h
    exact viaAbs _ rfl rfl rfl rfl
  | enableGroupCommit b =>
    simp only [applyOp] at h
    obtain ⟨raft, hx, hr⟩ := CV.okRes_ok h
    rw [hr]
    have hvf := Res.Post.of_eq (CV.enableGroupCommit_vf _ _) hx
    unfold Raft.enableGroupCommit at hx
    have hcf : CF ({ st.raft with nextRand := rnd } : Raft) raft := by
      cf_auto hx [maybeCommit_cf, bcastAppend_cf]
    have hls : LS ({ st.raft with nextRand := rnd } : Raft) raft := by
      ls_auto hx [maybeCommit_ls, bcastAppend_ls]
    exact viaAbs raft hls.abs hcf.2 hcf.1 hvf.state
  | assignCommitGroups v =>
    simp only [applyOp] at h
    obtain ⟨raft, hx, hr⟩ := CV.okRes_ok h
    rw [hr]
    have hvf := Res.Post.of_eq (CV.assignCommitGroups_vf _ _) hx
    obtain ⟨hcf, hls⟩ := assignCommitGroups_cf_ls hx
    exact viaAbs raft hls.abs hcf.2 hcf.1 hvf.state
  | clearCommitGroup =>
    simp only [applyOp] at h
    cases h
    exact viaAbs _ rfl rfl rfl rfl
  | checkGroupCommitConsistent =>
    simp only [applyOp] at h
    split at h
    · cases h; exact hlb
    · cases h; exact hlb
    · cases h
    · cases h
  | setMaxApplyUnpersistedLogLimit x =>
    simp only [applyOp] at h
    cases h
    exact viaStore _ (StoreStep.of_abs (c05_limit_same _ x).abs rfl rfl rfl)
  | setMaxCommittedSizePerReady x =>
    simp only [applyOp] at h
    cases h
    exact viaAbs _ rfl rfl rfl rfl
  | onEntriesFetched to term aggr =>
    rcases CV.onEntriesFetched_ok h with h | ⟨-, -, -, raft, hx, h⟩
    · cases h; exact hlb
    · cases h
      rcases hx with hx | hx
      · have hvf := Res.Post.of_eq (CV.sendAppendAggressively_vf _ _) hx
        exact viaAbs raft (sendAppendAggressively_ls hx LS.rfl).abs
          (sendAppendAggressively_cf hx CF.rfl).2 (sendAppendAggressively_cf hx CF.rfl).1 hvf.state
      · have hvf := Res.Post.of_eq (CV.sendAppend_vf _ _) hx
        exact viaAbs raft (sendAppend_ls hx LS.rfl).abs
          (sendAppend_cf hx CF.rfl).2 (sendAppend_cf hx CF.rfl).1 hvf.state

end Raft
end RaftModel
