import RaftProofs.ClusterLogH
import RaftProofs.ClusterVoteH

/-!
Cluster-level Log Matching, part I: the chains of a cluster state (logical logs, stored logs, queued
and transported `MsgAppend`s, with their location), the provenance relation `Prov` between the chains
of two consecutive states, and its proof for the four rules of `Cluster.Step`.
-/
namespace RaftModel
namespace Cluster
open Node Raft

/-- where a list of entries sits -/
inductive Loc where
  | log (i : Nat)
  | store (i : Nat)
  | queue (i : Nat)
  | net
  deriving DecidableEq

/-- the chain `g` sits at `loc` in state `s` -/
def At (s : Sys) : Loc → LLog → Prop
  | .log i, g => ∃ st, s.node i = some st ∧ g = st.raft.raftLog.abs
  | .store i, g => ∃ st, s.node i = some st ∧ g = storeLog st.raft.raftLog.store
  | .queue i, g => ∃ st x, s.node i = some st ∧ x ∈ st.raft.msgs ∧ x.msgType = .msgAppend ∧ g = msgLog x
  | .net, g => ∃ x, x ∈ s.net ∧ x.msgType = .msgAppend ∧ g = msgLog x

/-- the volatile locations of node `k`: what a crash of `k` destroys -/
def Vol (k : Nat) : Loc → Prop
  | .log i => i = k
  | .queue i => i = k
  | _ => False

/-- the locations of node `k` -/
def OfK (k : Nat) : Loc → Prop
  | .log i => i = k
  | .queue i => i = k
  | .store i => i = k
  | .net => False

/-- **provenance**: every link of a chain of `s'` is (at most as informative as) a link of a chain of
`s` — at the same place, or at node `k` or in the transport; a link of a volatile place of `k` moves
to a durable place only in a persisting step (`pers`) — or it is *fresh*: appended by `k`, leader in
`s'`, with its term, beyond the last index it had in `s` -/
def Prov (s s' : Sys) (k : Nat) (st st' : NState) (pers : Prop) : Prop :=
  ∀ loc' g', At s' loc' g' → ∀ i e, g'.entryAt i = some e →
    (∃ loc g, At s loc g ∧ g.entryAt i = some e ∧
      (∀ p, g'.prevTerm i = some p → g.prevTerm i = some p) ∧
      (loc = loc' ∨ OfK k loc ∨ loc = .net) ∧ (Vol k loc → Vol k loc' ∨ pers)) ∨
    (Vol k loc' ∧ st'.raft.state = .leader ∧ e.term = st'.raft.term ∧
      st.raft.raftLog.lastIndex < i ∧ st'.raft.raftLog.abs.entryAt i = some e ∧
      ∀ p, g'.prevTerm i = some p → st'.raft.raftLog.abs.prevTerm i = some p)

/-- the places that do not belong to `k` and are not the transport are untouched -/
theorem at_other {s s' : Sys} {k : Nat} (hoth : ∀ j, j ≠ k → s'.node j = s.node j)
    {loc : Loc} {g : LLog} (hl : ¬ OfK k loc) (hn : loc ≠ .net) (h : At s' loc g) : At s loc g := by
  cases loc with
  | log i =>
    have : i ≠ k := hl
    obtain ⟨st, h1, h2⟩ := h
    exact ⟨st, by rw [← hoth i this]; exact h1, h2⟩
  | store i =>
    have : i ≠ k := hl
    obtain ⟨st, h1, h2⟩ := h
    exact ⟨st, by rw [← hoth i this]; exact h1, h2⟩
  | queue i =>
    have : i ≠ k := hl
    obtain ⟨st, x, h1, h2⟩ := h
    exact ⟨st, x, by rw [← hoth i this]; exact h1, h2⟩
  | net => exact absurd rfl hn

theorem prov_same {s : Sys} {k : Nat} {st st' : NState} {pers : Prop} {loc : Loc} {g : LLog}
    {i : Nat} {e : Entry} (h : At s loc g) (he : g.entryAt i = some e) :
    (∃ loc0 g0, At s loc0 g0 ∧ g0.entryAt i = some e ∧
      (∀ p, g.prevTerm i = some p → g0.prevTerm i = some p) ∧
      (loc0 = loc ∨ OfK k loc0 ∨ loc0 = .net) ∧ (Vol k loc0 → Vol k loc ∨ pers)) ∨
    (Vol k loc ∧ st'.raft.state = .leader ∧ e.term = st'.raft.term ∧
      st.raft.raftLog.lastIndex < i ∧ st'.raft.raftLog.abs.entryAt i = some e ∧
      ∀ p, g.prevTerm i = some p → st'.raft.raftLog.abs.prevTerm i = some p) :=
  .inl ⟨loc, g, h, he, fun _ hp => hp, .inl rfl, fun hv => .inl hv⟩

/-- the links of the new logical log of `k` after a call -/
theorem prov_log {s : Sys} {k : Nat} {st st' : NState} {m : Message}
    (hk : s.node k = some st) (heff : Eff st.raft st'.raft m)
    (hm : m.msgType = .msgAppend → m ∈ s.net) (i : Nat) (e : Entry)
    (he : st'.raft.raftLog.abs.entryAt i = some e) :
    (∃ loc g, At s loc g ∧ g.entryAt i = some e ∧
      (∀ p, st'.raft.raftLog.abs.prevTerm i = some p → g.prevTerm i = some p) ∧
      (OfK k loc ∨ loc = .net) ∧ (Vol k loc → loc = .log k)) ∨
    (st'.raft.state = .leader ∧ e.term = st'.raft.term ∧ st.raft.raftLog.lastIndex < i) := by
  have hatL : At s (.log k) st.raft.raftLog.abs := ⟨st, hk, rfl⟩
  rcases heff.log with c | ⟨es, c⟩ | ⟨c1, _, c3⟩
  · obtain ⟨h1, h2⟩ := c i e he
    exact .inl ⟨.log k, _, hatL, h1, h2, .inl rfl, fun _ => rfl⟩
  · have hla : st.raft.raftLog.lastIndex = st.raft.raftLog.abs.lastIndex := by
      have hls := c.last
      have hl' := c.inv.lastIndex_abs
      rw [c.abs] at hl'
      simp only [LLog.lastIndex, List.length_append] at hl' ⊢
      omega
    rcases Nat.lt_or_ge st.raft.raftLog.lastIndex i with hlt | hge
    · right
      refine ⟨c.leader, ?_, hlt⟩
      rw [c.abs, LLog.append_entryAt_new _ _ _ (by omega)] at he
      exact c.terms e (List.mem_of_getElem? he)
    · left
      obtain ⟨h1, h2⟩ := LLog.append_old_link st.raft.raftLog.abs es i (by omega)
      rw [c.abs, h1] at he
      refine ⟨.log k, _, hatL, he, ?_, .inl rfl, fun _ => rfl⟩
      intro p hp
      rw [c.abs, h2] at hp
      exact hp
  · obtain ⟨g, hg, h1, h2⟩ := c3 i e he
    rcases hg with hg | hg
    · subst hg
      exact .inl ⟨.log k, _, hatL, h1, h2, .inl rfl, fun _ => rfl⟩
    · subst hg
      exact .inl ⟨.net, _, ⟨m, hm c1, c1, rfl⟩, h1, h2, .inr rfl, fun hv => (by cases hv)⟩

/-- **provenance for a call / a delivery at node `k`** -/
theorem prov_node {s : Sys} {k : Nat} {st st' : NState} {m : Message}
    (hk : s.node k = some st) (heff : Eff st.raft st'.raft m)
    (hm : m.msgType = .msgAppend → m ∈ s.net) :
    Prov s (s.setNode k st') k st st' (st'.raft.raftLog.store.hardState.term = st'.raft.term) := by
  have hoth : ∀ j, j ≠ k → (s.setNode k st').node j = s.node j :=
    fun j hj => node_setNode_ne s k j st' hj
  have hself : (s.setNode k st').node k = some st' := node_setNode_self s k st'
  have hatL : At s (.log k) st.raft.raftLog.abs := ⟨st, hk, rfl⟩
  -- the analysis of a link of the new logical log, in `Prov` format for a volatile target
  have viaLog : ∀ (loc' : Loc) (g' : LLog) (i : Nat) (e : Entry), Vol k loc' →
      st'.raft.raftLog.abs.entryAt i = some e →
      (∀ p, g'.prevTerm i = some p → st'.raft.raftLog.abs.prevTerm i = some p) →
      (∃ loc g, At s loc g ∧ g.entryAt i = some e ∧
        (∀ p, g'.prevTerm i = some p → g.prevTerm i = some p) ∧
        (loc = loc' ∨ OfK k loc ∨ loc = .net) ∧
        (Vol k loc → Vol k loc' ∨ st'.raft.raftLog.store.hardState.term = st'.raft.term)) ∨
      (Vol k loc' ∧ st'.raft.state = .leader ∧ e.term = st'.raft.term ∧
        st.raft.raftLog.lastIndex < i ∧ st'.raft.raftLog.abs.entryAt i = some e ∧
        ∀ p, g'.prevTerm i = some p → st'.raft.raftLog.abs.prevTerm i = some p) := by
    intro loc' g' i e hv he hp
    rcases prov_log hk heff hm i e he with ⟨loc, g, h1, h2, h3, h4, _⟩ | ⟨h1, h2, h3⟩
    · exact .inl ⟨loc, g, h1, h2, fun p hpp => h3 p (hp p hpp), .inr h4, fun _ => .inl hv⟩
    · exact .inr ⟨hv, h1, h2, h3, he, hp⟩
  intro loc' g' hat i e he
  by_cases hof : OfK k loc'
  · cases loc' with
    | log j =>
      have hj : j = k := hof
      subst hj
      obtain ⟨st2, h1, h2⟩ := hat
      rw [hself] at h1
      cases h1
      subst h2
      exact viaLog _ _ i e rfl he (fun _ hp => hp)
    | store j =>
      have hj : j = k := hof
      subst hj
      obtain ⟨st2, h1, h2⟩ := hat
      rw [hself] at h1
      cases h1
      subst h2
      rcases heff.sto with c | ⟨c, c2⟩
      · obtain ⟨e1, e2⟩ := c i e he
        exact .inl ⟨.store j, _, ⟨st, hk, rfl⟩, e1, e2, .inl rfl, fun hv => (by cases hv)⟩
      · obtain ⟨e1, e2⟩ := c i e he
        exact .inl ⟨.log j, _, hatL, e1, e2, .inr (.inl rfl), fun _ => .inr c2⟩
    | queue j =>
      have hj : j = k := hof
      subst hj
      obtain ⟨st2, x, h1, hx, hty, h2⟩ := hat
      rw [hself] at h1
      cases h1
      subst h2
      rcases heff.q x hx hty with c | c | c
      · exact .inl ⟨.queue j, _, ⟨st, x, hk, c, hty, rfl⟩, he, fun _ hp => hp, .inl rfl,
          fun hv => .inl hv⟩
      · obtain ⟨e1, e2⟩ := c.2 i e he
        exact .inl ⟨.log j, _, hatL, e1, e2, .inr (.inl rfl), fun _ => .inl rfl⟩
      · obtain ⟨e1, e2⟩ := c.2 i e he
        exact viaLog _ _ i e rfl e1 e2
    | net => exact absurd hof (by intro h; cases h)
  · by_cases hn : loc' = .net
    · subst hn
      exact prov_same (k := k) (st := st) (st' := st') (by exact hat) he
    · exact prov_same (at_other hoth hof hn hat) he

/-- **provenance for `send` at node `k`**: the queue moves to the transport -/
theorem prov_send {s : Sys} {k : Nat} {st st' : NState} (hk : s.node k = some st)
    (hl : st'.raft.raftLog = st.raft.raftLog) (hq : st'.raft.msgs = []) (pers : Prop)
    (hp : pers) :
    Prov s { (s.setNode k st') with net := s.net ++ st.raft.msgs } k st st' pers := by
  have hoth : ∀ j, j ≠ k →
      ({ (s.setNode k st') with net := s.net ++ st.raft.msgs } : Sys).node j = s.node j :=
    fun j hj => node_setNode_ne s k j st' hj
  have hself : ({ (s.setNode k st') with net := s.net ++ st.raft.msgs } : Sys).node k = some st' :=
    node_setNode_self s k st'
  intro loc' g' hat i e he
  by_cases hof : OfK k loc'
  · cases loc' with
    | log j =>
      have hj : j = k := hof
      subst hj
      obtain ⟨st2, h1, h2⟩ := hat
      rw [hself] at h1
      cases h1
      subst h2
      exact .inl ⟨.log j, _, ⟨st, hk, rfl⟩, (by rw [← hl]; exact he),
        fun p hpp => (by rw [← hl]; exact hpp), .inl rfl, fun hv => .inl hv⟩
    | store j =>
      have hj : j = k := hof
      subst hj
      obtain ⟨st2, h1, h2⟩ := hat
      rw [hself] at h1
      cases h1
      subst h2
      exact .inl ⟨.store j, _, ⟨st, hk, rfl⟩, (by rw [← hl]; exact he),
        fun p hpp => (by rw [← hl]; exact hpp), .inl rfl, fun hv => .inl hv⟩
    | queue j =>
      have hj : j = k := hof
      subst hj
      obtain ⟨st2, x, h1, hx, _⟩ := hat
      rw [hself] at h1
      cases h1
      rw [hq] at hx
      cases hx
    | net => exact absurd hof (by intro h; cases h)
  · by_cases hn : loc' = .net
    · subst hn
      obtain ⟨x, hx, hty, h2⟩ := hat
      subst h2
      rcases List.mem_append.1 hx with hx | hx
      · exact prov_same (k := k) (st := st) (st' := st') (loc := .net) ⟨x, hx, hty, rfl⟩ he
      · exact .inl ⟨.queue k, _, ⟨st, x, hk, hx, hty, rfl⟩, he, fun _ hpp => hpp, .inr (.inl rfl),
          fun _ => .inr hp⟩
    · exact prov_same (at_other hoth hof hn hat) he

/-- **provenance for a restart of node `k`**: the logical log is the stored one, the queue is empty -/
theorem prov_restart {s : Sys} {k : Nat} {st st' : NState} (hk : s.node k = some st)
    (hl : st'.raft.raftLog.abs = storeLog st.raft.raftLog.store)
    (hs : storeLog st'.raft.raftLog.store = storeLog st.raft.raftLog.store)
    (hq : st'.raft.msgs = []) : Prov s (s.setNode k st') k st st' False := by
  have hoth : ∀ j, j ≠ k → (s.setNode k st').node j = s.node j :=
    fun j hj => node_setNode_ne s k j st' hj
  have hself : (s.setNode k st').node k = some st' := node_setNode_self s k st'
  have hatS : At s (.store k) (storeLog st.raft.raftLog.store) := ⟨st, hk, rfl⟩
  intro loc' g' hat i e he
  by_cases hof : OfK k loc'
  · cases loc' with
    | log j =>
      have hj : j = k := hof
      subst hj
      obtain ⟨st2, h1, h2⟩ := hat
      rw [hself] at h1
      cases h1
      subst h2
      exact .inl ⟨.store j, _, hatS, (by rw [← hl]; exact he), fun p hp => (by rw [← hl]; exact hp),
        .inr (.inl rfl), fun hv => (by cases hv)⟩
    | store j =>
      have hj : j = k := hof
      subst hj
      obtain ⟨st2, h1, h2⟩ := hat
      rw [hself] at h1
      cases h1
      subst h2
      exact .inl ⟨.store j, _, hatS, (by rw [← hs]; exact he), fun p hp => (by rw [← hs]; exact hp),
        .inl rfl, fun hv => (by cases hv)⟩
    | queue j =>
      have hj : j = k := hof
      subst hj
      obtain ⟨st2, x, h1, hx, _⟩ := hat
      rw [hself] at h1
      cases h1
      rw [hq] at hx
      cases hx
    | net => exact absurd hof (by intro h; cases h)
  · by_cases hn : loc' = .net
    · subst hn
      exact prov_same (k := k) (st := st) (st' := st') (by exact hat) he
    · exact prov_same (at_other hoth hof hn hat) he

end Cluster
end RaftModel
