import RaftProofs.ClusterXferB

/-!
Cluster-level leadership transfer (C17c), part C: **a concrete history with a completed leadership
transfer** (kernel-evaluated) that satisfies every hypothesis of the commit layer (`Hyp3w`).

The history of `RaftProofs/ClusterCommit3H.lean` (node 1 leads term 1, node 2 has acknowledged its whole
log — `matched = last_index = 1` — and index 1 is committed) continued by ten steps: the application of
node 1 calls `transfer_leader(2)`; node 2 is caught up, so node 1 queues a `MsgTimeoutNow` at once and
hands it to the transport; node 2 is delivered it and campaigns for term 2 (a real vote with the transfer
context); it persists its term and vote and sends its requests; node 1 steps down to term 2 and grants
its vote, persists and sends the response; node 2 is told that entry 1 is persisted and, with the vote
of node 1, becomes leader of term 2 — holding the entry that node 1 committed in term 1.
-/
namespace RaftModel
namespace Cluster
open Node Raft Raft.CC RaftProps.C02 RaftProps.C05

def c17x_a9 := c02x_st (Node.call c01x_a8 none (.transferLeader 2))
def c17x_a10 := c02x_st (Node.call c17x_a9 none .drain)
/-- the `MsgTimeoutNow` of node 1 for node 2 -/
def c17x_tn := c17x_a9.raft.msgs.tail.head!
def c17x_b7 := c02x_st (Node.call c01x_b6 none (.step c17x_tn))
def c17x_b8 := c02x_st (Node.call c17x_b7 none .stabilize)
def c17x_b9 := c02x_st (Node.call c17x_b8 none .drain)
/-- the transfer vote request of node 2 for node 1 -/
def c17x_rv := c17x_b8.raft.msgs.head!
def c17x_a11 := c02x_st (Node.call c17x_a10 none (.step c17x_rv))
def c17x_a12 := c02x_st (Node.call c17x_a11 none .stabilize)
def c17x_a13 := c02x_st (Node.call c17x_a12 none .drain)
/-- the granted vote of node 1 -/
def c17x_vr := c17x_a12.raft.msgs.head!
def c17x_b10 := c02x_st (Node.call c17x_b9 none (.onPersistEntries 1 1))
def c17x_b11 := c02x_st (Node.call c17x_b10 none (.step c17x_vr))

def c17x_s15 : Sys := c01x_s14.setNode 1 c17x_a9
def c17x_s16 : Sys :=
  { (c17x_s15.setNode 1 c17x_a10) with net := c17x_s15.net ++ c17x_a9.raft.msgs }
def c17x_s17 : Sys := c17x_s16.setNode 2 c17x_b7
def c17x_s18 : Sys := c17x_s17.setNode 2 c17x_b8
def c17x_s19 : Sys :=
  { (c17x_s18.setNode 2 c17x_b9) with net := c17x_s18.net ++ c17x_b8.raft.msgs }
def c17x_s20 : Sys := c17x_s19.setNode 1 c17x_a11
def c17x_s21 : Sys := c17x_s20.setNode 1 c17x_a12
def c17x_s22 : Sys :=
  { (c17x_s21.setNode 1 c17x_a13) with net := c17x_s21.net ++ c17x_a12.raft.msgs }
def c17x_s23 : Sys := c17x_s22.setNode 2 c17x_b10
def c17x_s24 : Sys := c17x_s23.setNode 2 c17x_b11

def c17x_tail : List Sys :=
  [c17x_s15, c17x_s16, c17x_s17, c17x_s18, c17x_s19, c17x_s20, c17x_s21, c17x_s22, c17x_s23,
   c17x_s24]

def c17x_hist : List Sys := c01x_hist ++ c17x_tail

set_option maxRecDepth 100000 in
theorem c17x_ksteps : Chained KStep (c01x_s14 :: c17x_tail) := by
  refine ⟨?_, ?_, ?_, ?_, ?_, ?_, ?_, ?_, ?_, ?_, trivial⟩
  · exact KStep.call _ 1 c01x_a8 c17x_a9 none (.transferLeader 2) _ rfl rfl
      (fun k hc => by cases hc) (fun k hc => by cases hc) (c02x_out _ (by decide))
  · exact KStep.send _ 1 c17x_a9 c17x_a10 rfl ⟨by decide, by decide⟩
      (fun _ => ⟨by decide, rfl⟩) rfl
  · exact KStep.deliver _ 2 c01x_b6 c17x_b7 none c17x_tn _ rfl
      (List.mem_append_right _ (tail_head_mem _ (by decide))) (by decide) (c02x_out _ (by decide))
  · exact KStep.call _ 2 c17x_b7 c17x_b8 none .stabilize _ rfl rfl
      (fun k hc => by cases hc) (fun k hc => by cases hc) (c02x_out _ (by decide))
  · exact KStep.send _ 2 c17x_b8 c17x_b9 rfl ⟨by decide, by decide⟩
      (fun _ => ⟨by decide, rfl⟩) rfl
  · exact KStep.deliver _ 1 c17x_a10 c17x_a11 none c17x_rv _ rfl
      (List.mem_append_right _ (c02x_head_mem _ (by decide))) (by decide) (c02x_out _ (by decide))
  · exact KStep.call _ 1 c17x_a11 c17x_a12 none .stabilize _ rfl rfl
      (fun k hc => by cases hc) (fun k hc => by cases hc) (c02x_out _ (by decide))
  · exact KStep.send _ 1 c17x_a12 c17x_a13 rfl ⟨by decide, by decide⟩
      (fun _ => ⟨by decide, rfl⟩) rfl
  · exact KStep.call _ 2 c17x_b9 c17x_b10 none (.onPersistEntries 1 1) _ rfl rfl
      (fun k hc => by cases hc) (fun k hc => by cases hc) (c02x_out _ (by decide))
  · exact KStep.deliver _ 2 c17x_b10 c17x_b11 none c17x_vr _ rfl
      (List.mem_append_right _ (c02x_head_mem _ (by decide))) (by decide) (c02x_out _ (by decide))

theorem c17x_hist_eq : c17x_hist =
    (c05x_hist ++ [c01x_s11, c01x_s12, c01x_s13]) ++ c01x_s14 :: c17x_tail := by
  simp [c17x_hist, c01x_hist]

theorem c17x_ksteps_all : Chained KStep c17x_hist := by
  rw [c17x_hist_eq]
  refine chained_append _ _ _ ?_ c17x_ksteps
  have := c01x_ksteps
  simpa [c01x_hist] using this

theorem c17x_history : History c17x_hist := by
  rw [c17x_hist_eq]
  refine chained_history _ c01x_s14 ?_ _ (Chained.mono (fun _ _ hc => hc.step) _ c17x_ksteps)
  have := c01x_history
  simpa [c01x_hist] using this

set_option maxRecDepth 100000 in
theorem c17x_chk_tail : ∀ s ∈ c17x_tail, c01y_chk s = true := by
  intro s hs
  simp only [c17x_tail, List.mem_cons, List.not_mem_nil, or_false] at hs
  rcases hs with rfl | rfl | rfl | rfl | rfl | rfl | rfl | rfl | rfl | rfl <;> decide

theorem c17x_chk_all : ∀ s ∈ c17x_hist, c01y_chk s = true := by
  intro s hs
  rcases List.mem_append.1 hs with c | c
  · exact c01y_chk_all s (List.mem_append_left _ c)
  · exact c17x_chk_tail s c

/-- **the history satisfies every hypothesis of the commit layer without gaps** -/
theorem c17x_hyp3w : Hyp3w c02x_cfg 0 c17x_hist := by
  have h0 : c17x_hist[0]? = some c02x_s0 := rfl
  have hall := fun s hs => c01y_chk_ok s (c17x_chk_all s hs)
  have hnode : ∀ s ∈ c17x_hist, ∀ i st, s.node i = some st →
      st.raft.raftLog.unstable.snapshot = none ∧ st.raft.raftLog.store.firstIndex = 1 ∧
      (st.raft.raftLog.abs.snapTerm = some 0 ∨ st.raft.raftLog.abs.snapTerm = none) := by
    intro s hs i st hi
    have := (hall s hs).2.2.2 i st hi
    unfold c01x_nodeOk at this
    simp only [Bool.and_eq_true, Bool.or_eq_true, decide_eq_true_eq, Option.isNone_iff_eq_none] at this
    exact ⟨this.1.1, this.1.2, this.2⟩
  refine ⟨⟨⟨c17x_history, fun s hs => (hall s hs).1, by decide, by decide, by decide, ?_,
    chained_at _ c17x_ksteps_all, fun s hs => (hall s hs).2.1, fun s hs x hx => (hall s hs).2.2.1 x hx⟩,
    c01x_nolone, fun s hs i st hi => ⟨(hnode s hs i st hi).1, (hnode s hs i st hi).2.1⟩, ?_⟩, ?_⟩
  · intro s hs
    rw [h0] at hs; cases hs
    exact c05x_initOk
  · intro s hs i st hi
    rw [h0] at hs; cases hs
    have hm := c02_lookup_mem _ i st hi
    simp only [c02x_s0, List.mem_cons, Prod.mk.injEq, List.not_mem_nil, or_false] at hm
    rcases hm with ⟨rfl, rfl⟩ | ⟨rfl, rfl⟩ | ⟨rfl, rfl⟩ <;> decide
  · intro s hs i st hi t0 ht0 j st0 _
    rcases (hnode s (mem_of_get hs) i st hi).2.2 with c | c
    · rw [c] at ht0; cases ht0; exact Nat.zero_le _
    · rw [c] at ht0; cases ht0

end Cluster
end RaftModel
