import RaftProofs.ClusterXfer2A
import RaftProofs.ClusterFlow2B

/-!
Leadership transfer with compaction, snapshots and `request_snapshot` (C17d), part 2B: **what backs a
leader's `matched = last_index`** (`Cluster.matched_backed` of `ClusterXferB.lean`) under
`Snap5.Hyp3r`, from the invariants of the snapshot layer (`Snap5.Hyp.mokc`, `Snap5.ack_inv`,
`Snap5.ack_prov`, the components `a2m` / `a2s` of `Snap5.Sm`, `Snap5.ll_eq`).  The agreement of the
target's log / storage with the leader's log is between the ghost (uncompacted) logs `Snap.FL` /
`Snap.FS`, and — by `Full.ents` — between the real logs at every index above both snapshot points.
-/
namespace RaftModel
namespace Cluster
namespace Snap5
namespace Xfer2
open Node Raft Raft.CC RaftProps.C02 RaftProps.C05 Snap Flow2

variable {cfg : JointConfig} {c0 : Nat} {h : List Sys}

/-- the acknowledgement that stands behind `matched = last_index` of the progress that leader `stL` (of
`h[n0]`, term `t`, last index `li`) holds for `j`: `a` is an accepting `MsgAppendResponse` of `j` for
term `t` that covers `li`; `j` queued it at `h[n1]`, `n1 ≤ n0`, in term `t`, with a log that held the
leader's log up to `li`; and the storage of `j` holds the leader's log up to `li` wherever `a` is in the
transport and the stored term of `j` is `t` (ghost logs; real logs above both snapshot points) -/
def XferAck (h : List Sys) (c0 n0 : Nat) (s0 : Sys) (j t li : Nat) (stL : NState) (a : Message) :
    Prop :=
  a ∈ s0.net ∧ a.msgType = .msgAppendResponse ∧ a.reject = false ∧ a.frm = j ∧ a.term = t ∧
  li ≤ a.index ∧
  (∃ (n1 : Nat) (s1 : Sys) (stj : NState), n1 ≤ n0 ∧ h[n1]? = some s1 ∧ s1.node j = some stj ∧
    a ∈ stj.raft.msgs ∧ stj.raft.term = t ∧
    (∀ k, k ≤ li → (FL h c0 stj).entryAt k = (FL h c0 stL).entryAt k) ∧
    (∀ k, k ≤ li → stj.raft.raftLog.abs.snapIdx < k → stL.raft.raftLog.abs.snapIdx < k →
      stj.raft.raftLog.abs.entryAt k = stL.raft.raftLog.abs.entryAt k)) ∧
  (∀ (m : Nat) (s' : Sys) (stj : NState), h[m]? = some s' → a ∈ s'.net → s'.node j = some stj →
    stj.raft.raftLog.store.hardState.term = t →
    (∀ k, k ≤ li → (FS h c0 stj).entryAt k = (FL h c0 stL).entryAt k) ∧
    (∀ k, k ≤ li → (storeLog stj.raft.raftLog.store).snapIdx < k →
      stL.raft.raftLog.abs.snapIdx < k →
      (storeLog stj.raft.raftLog.store).entryAt k = stL.raft.raftLog.abs.entryAt k))

/-- **what backs a leader's `matched = last_index`** for a peer `j` (copy of `Cluster.matched_backed`
over the snapshot layer) -/
theorem matched_backed (H : Hyp3r cfg c0 h) {n0 : Nat} {s0 : Sys} (hn0 : h[n0]? = some s0)
    {l : Nat} {stL : NState} (hl : s0.node l = some stL) (hs : stL.raft.state = .leader)
    {j : Nat} {pr : Progress} (hg : stL.raft.prs.get j = some pr)
    (hm : pr.matched = stL.raft.raftLog.lastIndex) :
    stL.raft.raftLog.lastIndex ≤ c0 ∨
    (j = l ∧ stL.raft.raftLog.lastIndex ≤ stL.raft.raftLog.persisted) ∨
    ∃ a, XferAck h c0 n0 s0 j stL.raft.term stL.raft.raftLog.lastIndex stL a := by
  have H2 := H.toHyp3w.toHyp2w
  have Ha := H.toHyp3w.toHyp3a
  have ol := node_ok H2 hn0 hl
  have hLL : LeaderLog h c0 n0 stL.raft.term (FL h c0 stL) :=
    ⟨n0, s0, l, stL, Nat.le_refl _, hn0, hl, hs, rfl, rfl⟩
  have hmok := (H2.toHyp.mokc n0 s0 hn0 l stL hl).h hs j pr.matched (mfun_of_get hg)
  rw [hm] at hmok
  rcases hmok with c | ⟨c1, c2⟩ | ⟨a, ha, hack, hfrm, hterm, hidx⟩
  · left; omega
  · right; left
    exact ⟨c1.trans ol.id, c2⟩
  · by_cases hc : a.index ≤ c0
    · left; omega
    · right; right
      have hx0 : a.index ≠ 0 := by omega
      have htnz := ((ack_inv H2 n0 s0 hn0).2 a ha hack hx0).2
      have hterm' : a.term = stL.raft.term := by
        rcases hterm with c | c
        · exact c
        · exact absurd c htnz
      -- every promise about `a` reaches the leader's log at `h[n0]`
      have fin : ∀ {m : Nat} {g : LLog}, Promise h c0 m a g →
          ∀ k, k ≤ stL.raft.raftLog.lastIndex → g.entryAt k = (FL h c0 stL).entryAt k := by
        intro m g ⟨L', hL', hle, heq⟩ k hk
        rw [heq k (by omega)]
        rw [hterm'] at hL'
        exact ll_eq H2 hL' hLL (by omega)
          (by rw [fl_last H2 hn0 hl, ← ol.inv.lastIndex_abs]; exact hk)
      obtain ⟨i, n1, hn1, s1, st1, h1, h2, h3, h4, h5⟩ :=
        (ack_prov H2 n0 s0 hn0).2 a ha ⟨hack, hx0⟩
      have hij : i = j := h5.symm.trans hfrm
      subst hij
      have hp := (sm_all Ha h1).a2m i st1 h2 a (.inr h3) hack h5 (by omega) h4
      refine ⟨a, ha, hack.1, hack.2, hfrm, hterm', hidx,
        ⟨n1, s1, st1, hn1, h1, h2, h3, h4.symm.trans hterm', fin hp,
          real_of_ghost H2 h1 hn0 h2 hl (fin hp)⟩, ?_⟩
      intro m s' stj hm' has hj hst
      have hq := fin ((sm_all Ha hm').a2s i stj hj a has hack hfrm (by omega)
        (hterm'.trans hst.symm))
      exact ⟨hq, real_of_ghost_store H2 hm' hn0 hj hl hq⟩

end Xfer2
end Snap5
end Cluster
end RaftModel
