import RaftModel.RaftStep

/-!
Helper lemmas about the node model (`RaftModel.Raft*`): what `send`, `reset`, `become_follower`,
`maybe_commit_by_vote` and the vote arm of `step` do to `term` / `vote`.
-/
namespace RaftModel.Raft

theorem send_eq (r r' : Raft) (m : Message) (h : r.send m = .ok r') :
    r' = { r with msgs := r.msgs ++ [r.sendFill m] } := by
  unfold Raft.send at h
  split at h
  · cases h
  · split at h
    · cases h
    · cases h; rfl

theorem send_term_vote (r r' : Raft) (m : Message) (h : r.send m = .ok r') :
    r'.term = r.term ∧ r'.vote = r.vote := by
  rw [send_eq r r' m h]; exact ⟨rfl, rfl⟩

theorem reset_term_vote (r : Raft) (t : Nat) :
    (r.reset t).term = t ∧ (r.reset t).vote = if r.term ≠ t then 0 else r.vote := by
  unfold Raft.reset
  simp only [Raft.mapProgress, Raft.abortLeaderTransfer, Raft.resetRandomizedElectionTimeout]
  by_cases h : r.term ≠ t <;> simp [h]
  all_goals (simp at h; exact h)

theorem becomeFollower_term_vote (r : Raft) (t l : Nat) :
    (r.becomeFollower t l).term = t ∧
    (r.becomeFollower t l).vote = if r.term ≠ t then 0 else r.vote := by
  unfold Raft.becomeFollower
  exact reset_term_vote r t

theorem becomeFollower_same_term (r : Raft) (l : Nat) :
    (r.becomeFollower r.term l).term = r.term ∧ (r.becomeFollower r.term l).vote = r.vote := by
  have := becomeFollower_term_vote r r.term l
  simpa using this

theorem maybeCommitByVote_term_vote (r r' : Raft) (m : Message)
    (h : r.maybeCommitByVote m = .ok r') : r'.term = r.term ∧ r'.vote = r.vote := by
  unfold Raft.maybeCommitByVote at h
  split at h
  · cases h; exact ⟨rfl, rfl⟩
  · simp only at h
    split at h
    · cases h; exact ⟨rfl, rfl⟩
    · split at h
      · cases h
      · cases h
      · cases h; exact ⟨rfl, rfl⟩
      · split at h
        · cases h; exact ⟨rfl, rfl⟩
        · split at h
          · cases h
          · cases h
          · cases h
            rename_i log _ _ _ _
            exact becomeFollower_same_term { r with raftLog := log } 0
          · cases h; exact ⟨rfl, rfl⟩

theorem stepVoteGrant_prevote (r r' : Raft) (m : Message) (t : MsgType)
    (hm : m.msgType = .msgRequestPreVote) (h : r.stepVoteGrant m t = .ok r') :
    r'.term = r.term ∧ r'.vote = r.vote := by
  unfold Raft.stepVoteGrant at h
  split at h
  · rename_i r1 hs
    simp only [hm] at h
    split at h
    · rename_i hc; cases hc
    · cases h; exact send_term_vote r r' _ hs
  · cases h
  · cases h

theorem stepVoteReject_term_vote (r r' : Raft) (m : Message) (t : MsgType)
    (h : r.stepVoteReject m t = .ok r') : r'.term = r.term ∧ r'.vote = r.vote := by
  unfold Raft.stepVoteReject at h
  split at h
  · cases h
  · cases h
  · split at h
    · rename_i r1 hs
      have h1 := send_term_vote r r1 _ hs
      split at h
      · have h2 := maybeCommitByVote_term_vote r1 r' m h
        exact ⟨h2.1.trans h1.1, h2.2.trans h1.2⟩
      · cases h; exact h1
    · cases h
    · cases h

theorem stepVote_prevote (r r' : Raft) (m : Message) (hm : m.msgType = .msgRequestPreVote)
    (h : r.stepVote m = .ok r') : r'.term = r.term ∧ r'.vote = r.vote := by
  unfold Raft.stepVote at h
  split at h
  · cases h
  · split at h
    · exact stepVoteGrant_prevote r r' m _ hm h
    · exact stepVoteReject_term_vote r r' m _ h
    · cases h
    · cases h

/-- the term preamble never changes term or vote for a pre-vote request -/
theorem stepTerm_prevote (r r' : Raft) (m : Message) (b : Bool)
    (hm : m.msgType = .msgRequestPreVote) (h : r.stepTerm m = .ok (r', b)) :
    r'.term = r.term ∧ r'.vote = r.vote := by
  unfold Raft.stepTerm at h
  simp only [hm] at h
  split at h
  · cases h; exact ⟨rfl, rfl⟩
  · split at h
    · split at h
      · cases h; exact ⟨rfl, rfl⟩
      · simp at h
        cases h.1; exact ⟨rfl, rfl⟩
    · split at h
      · split at h
        · split at h
          · rename_i r1 hs
            cases h; exact send_term_vote r r' _ hs
          · cases h
          · cases h
        · simp at h
          split at h
          · rename_i r1 hs
            cases h; exact send_term_vote r r' _ hs
          · cases h
          · cases h
      · cases h; exact ⟨rfl, rfl⟩

end RaftModel.Raft
