import RaftProofs.ClusterCommitI

/-!
Cluster-level commit safety, helper lemmas part J: `maybe_commit_by_vote`, the vote arm of `step`,
`step_follower`, `step_candidate`.
-/
namespace RaftModel
namespace Raft
namespace CC
open VoteOb

/-- `become_follower` at the same term, on a node that is not the leader: whatever was queued in this
call stays described by the new state -/
theorem becomeFollower_same_g {A : Nat → Nat → Nat → Prop} {a r : Raft} {m : Message} (l : Nat)
    (h0 : G A a m r) (hs : r.state ≠ .leader) : G A a m (r.becomeFollower r.term l) := by
  have hst : (r.becomeFollower r.term l).state = .follower :=
    (RaftProps.C16.becomeFollower_proj r r.term l).1
  have hst' : (r.becomeFollower r.term l).state ≠ .leader := by rw [hst]; intro hc; cases hc
  have hms := becomeFollower_msgs r r.term l
  have hid := becomeFollower_id r r.term l
  have htm : (r.becomeFollower r.term l).term = r.term := (becomeFollower_term_vote r r.term l).1
  have hlog := becomeFollower_raftLog r r.term l
  refine ⟨hid.trans h0.id, ⟨fun h => absurd h hst'⟩, fun h => absurd h hst', ?_, ?_, ?_, ?_⟩
  · intro x hx hty
    rw [hms] at hx
    rcases h0.qlk x hx hty with g | g
    · exact .inl g
    · exact absurd g.lead hs
  · intro x hx hty
    rw [hms] at hx
    rcases h0.qak x hx hty with g | g
    · exact .inl g
    · right
      refine ⟨g.term.trans htm.symm, g.frm.trans hid.symm, ?_⟩
      rcases g.src with d | ⟨_, d2, d3, d4⟩
      · exact .inl d
      · right; rw [becomeFollower_committed]; exact ⟨hst, d2, d3, d4⟩
  · intro x hx hty
    rw [hms] at hx
    rcases h0.qvk x hx hty with g | g
    · exact .inl g
    · right
      unfold VkOK at *
      rw [becomeFollower_committed, hlog, (c04_log_limit_irrelevant _ _).1, htm]
      exact g
  · intro x hx hty
    rw [hms] at hx
    rcases h0.qrq x hx hty with g | g
    · exact .inl g
    · right
      refine ⟨g.term.trans htm.symm, ?_, ?_⟩
      · rw [hlog]; exact g.last
      · rw [hlog]; exact g.lt

theorem maybeCommitByVote_g {A : Nat → Nat → Nat → Prop} {a r r' : Raft} {m mm : Message}
    (h : r.maybeCommitByVote mm = .ok r') (h0 : G A a m r) : G A a m r' := by
  unfold Raft.maybeCommitByVote at h
  split at h
  · cases h; exact h0
  · simp only at h
    split at h
    · cases h; exact h0
    · rename_i hnl
      have hs : r.state ≠ .leader := fun hc => hnl (.inr hc)
      split at h
      · cases h
      · cases h
      · cases h; exact h0
      · rename_i log hmc
        rcases RaftLog.c04_maybeCommit_spec hmc with ⟨_, hlt, _, _, hl⟩ | ⟨hb, _⟩
        · have g1 : G A a m ({ r with raftLog := log } : Raft) :=
            h0.commitUp rfl rfl rfl rfl rfl hl (Nat.le_of_lt hlt) (fun hc => absurd hc hs)
          split at h
          · cases h; exact g1
          · split at h
            · cases h
            · cases h
            · cases h; exact becomeFollower_same_g 0 g1 hs
            · cases h; exact g1
        · cases hb

/-! ### the vote arm -/

theorem sendFill_vote (r : Raft) (x : Message) (ht : isVoteMsg x.msgType = true) :
    (r.sendFill x).commit = x.commit ∧ (r.sendFill x).commitTerm = x.commitTerm ∧
    (r.sendFill x).reject = x.reject ∧ (r.sendFill x).term = x.term := by
  unfold sendFill
  simp only
  split
  · split
    · rename_i hc
      simp [ht] at hc
    · split <;> exact ⟨rfl, rfl, rfl, rfl⟩
  · split
    · rename_i hc
      simp [ht] at hc
    · split <;> exact ⟨rfl, rfl, rfl, rfl⟩

theorem voteResp_type {t rt : MsgType} (h : voteRespMsgType t = some rt) :
    (rt = .msgRequestVoteResponse ∨ rt = .msgRequestPreVoteResponse) := by
  cases t <;> simp [voteRespMsgType] at h <;> simp [← h]

theorem stepVote_g {A : Nat → Nat → Nat → Prop} {a r r' : Raft} {m mm : Message}
    (h : r.stepVote mm = .ok r') (h0 : G A a m r) : G A a m r' := by
  unfold Raft.stepVote at h
  split at h
  · cases h
  · rename_i rt hrt
    have hty := voteResp_type hrt
    have hlk : lkT rt = false := by rcases hty with g | g <;> rw [g] <;> rfl
    have hiv : isVoteMsg rt = true := by rcases hty with g | g <;> rw [g] <;> rfl
    have hna : rt ≠ .msgAppendResponse := by rcases hty with g | g <;> rw [g] <;> (intro hc; cases hc)
    have hnr : rt ≠ .msgRequestVote := by rcases hty with g | g <;> rw [g] <;> (intro hc; cases hc)
    split at h
    · -- grant
      unfold Raft.stepVoteGrant at h
      split at h
      · rename_i r1 hs
        have g1 : G A a m r1 := by
          refine send_g hs h0 hlk (fun hc => ?_) (fun _ => ?_) (fun hc => absurd hc hnr)
          · have := hc.1; rw [sendFill_msgType] at this; exact absurd this hna
          · left; exact (sendFill_vote r _ hiv).1
        split at h
        · cases h; exact G.mk' g1
        · cases h; exact g1
      · cases h
      · cases h
    · -- reject
      unfold Raft.stepVoteReject at h
      split at h
      · cases h
      · cases h
      · rename_i c cterm hci
        have hci' : c = r.raftLog.committed ∧ r.raftLog.term c = .ok cterm := by
          unfold RaftLog.commitInfo at hci
          split at hci
          · rename_i t ht
            cases hci
            exact ⟨rfl, ht⟩
          · cases hci
          · cases hci
        split at h
        · rename_i r1 hs
          have g1 : G A a m r1 := by
            refine send_g hs h0 hlk (fun hc => ?_) (fun _ => ?_) (fun hc => absurd hc hnr)
            · have := hc.1; rw [sendFill_msgType] at this; exact absurd this hna
            · right
              obtain ⟨f1, f2, f3, f4⟩ := sendFill_vote r
                { msgType := rt, to := mm.frm, reject := true, term := r.term, commit := c,
                  commitTerm := cterm } hiv
              rw [f1, f2]
              refine ⟨Nat.le_of_eq hci'.1, hci'.2, fun hc => ?_, fun _ => f4, fun _ => f3⟩
              rw [sendFill_msgType] at hc
              rcases hty with g | g <;> rw [g] at hc <;> cases hc
          split at h
          · exact maybeCommitByVote_g h g1
          · cases h; exact g1
        · cases h
        · cases h
    · cases h
    · cases h

end CC
end Raft
end RaftModel
