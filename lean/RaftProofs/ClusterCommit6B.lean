import RaftProofs.ClusterCommit6A

/-!
Cluster-level commit safety with `batch_append`, with queued `MsgSnapshot`s allowed (C01k), part 6B:
**the bundle `Hyp3wK`** of `RaftProps/C01k.lean`.

`Hyp3wK cfg c0 h` = the fields of `Hyp3wB` (`ClusterCommit5c2P.lean`) without the redundant `mv` and with
`nosq` ("no `MsgSnapshot` is ever queued") replaced by the disjunction `mute` — the shape of C05d's
`BatchOk`:

* nobody ever batches (`NoBatch` in every state — then this is C01d's `Hyp3w`), **or**
* in every state, a node that has a `MsgSnapshot` queued has no `MsgAppend` anchored in the void in its
  queue (`SaneQ`, `ClusterCommit6A.lean`; vacuous under `nosq`).

`Hyp3wK.cases`: a history under `Hyp3wK` is a history under C01d's `Hyp3w` or under `Hyp3wQ`.
-/
namespace RaftModel
namespace ClusterB
open Node Raft Raft.CC Raft.CP RaftProps.C02 RaftProps.C05 Raft.CB Raft.Bt Cluster

/-- **the hypotheses of the commit layer with `batch_append` and queued `MsgSnapshot`s allowed** -/
structure Hyp3wK (cfg : JointConfig) (c0 : Nat) (h : List Sys) : Prop where
  hist : History h
  fix : ∀ s ∈ h, FixedCfg cfg s
  ne : cfg.incoming ≠ []
  nd1 : cfg.incoming.Nodup
  nd2 : cfg.outgoing.Nodup
  init : ∀ s : Sys, h[0]? = some s → InitOk s
  steps : ∀ (n : Nat) (a b : Sys), h[n]? = some a → h[n + 1]? = some b → KStep a b
  nosnap : ∀ s ∈ h, NoSnapNet s
  nolone : ∀ i Q, IsJointQuorum cfg Q → ∃ k ∈ Q, k ≠ i
  shape : ∀ s ∈ h, ∀ i st, s.node i = some st →
    st.raft.raftLog.unstable.snapshot = none ∧ st.raft.raftLog.store.firstIndex = c0 + 1
  initc : ∀ s : Sys, h[0]? = some s → ∀ i st, s.node i = some st → st.raft.raftLog.committed = c0
  c0z : c0 = 0
  snapt0 : ∀ s0, h[0]? = some s0 → ∀ i sti, s0.node i = some sti → ∀ t0,
    sti.raft.raftLog.abs.snapTerm = some t0 → ∀ j stj, s0.node j = some stj → t0 ≤ stj.raft.term
  /-- nobody batches, or the mute nodes (a `MsgSnapshot` is queued) queue no append anchored in the void -/
  mute : (∀ s ∈ h, NoBatch s) ∨ (∀ s ∈ h, SaneQ s)

variable {cfg : JointConfig} {c0 : Nat} {h : List Sys}

/-- C01d's bundle, if nobody batches -/
theorem Hyp3wK.toHyp3w (H : Hyp3wK cfg c0 h) (nb : ∀ s ∈ h, NoBatch s) : Hyp3w cfg c0 h :=
  ⟨⟨⟨H.hist, H.fix, H.ne, H.nd1, H.nd2, H.init, H.steps, nb, H.nosnap⟩, H.nolone, H.shape, H.initc⟩,
    H.snapt0⟩

/-- the bundle of `ClusterCommit6A.lean`, if the mute nodes are sane -/
theorem Hyp3wK.toHyp3wQ (H : Hyp3wK cfg c0 h) (sq : ∀ s ∈ h, SaneQ s) : Hyp3wQ cfg c0 h :=
  { hist := H.hist, fix := H.fix, ne := H.ne, nd1 := H.nd1, nd2 := H.nd2, init := H.init,
    steps := H.steps, nosnap := H.nosnap, mv := multiVoter_of_nolone H.nolone, nolone := H.nolone,
    shape := H.shape, initc := H.initc, c0z := H.c0z, snapt0 := H.snapt0, saneq := sq }

theorem Hyp3wK.cases (H : Hyp3wK cfg c0 h) : Hyp3w cfg c0 h ∨ Hyp3wQ cfg c0 h :=
  H.mute.elim (fun nb => .inl (H.toHyp3w nb)) (fun sq => .inr (H.toHyp3wQ sq))

/-- **C01f's bundle is a special case** (`nosq` makes `SaneQ` vacuous) -/
theorem Hyp3wK.of_hyp3wB (H : Hyp3wB cfg c0 h) : Hyp3wK cfg c0 h :=
  { hist := H.hist, fix := H.fix, ne := H.ne, nd1 := H.nd1, nd2 := H.nd2, init := H.init,
    steps := H.steps, nosnap := H.nosnap, nolone := H.nolone, shape := H.shape, initc := H.initc,
    c0z := H.c0z, snapt0 := H.snapt0, mute := .inr (fun s hs => SaneQ.of_nosq (H.nosq s hs)) }

/-- **C01d's bundle with `c0 = 0` is a special case** — every history of C01d whose nodes start without
a snapshot point, *whether or not a `MsgSnapshot` is ever queued* -/
theorem Hyp3wK.of_hyp3w {cfg : JointConfig} {h : List Sys} (H : Hyp3w cfg 0 h) : Hyp3wK cfg 0 h :=
  { hist := H.hist, fix := H.fix, ne := H.ne, nd1 := H.nd1, nd2 := H.nd2, init := H.init,
    steps := H.steps, nosnap := H.nosnap, nolone := H.nolone, shape := H.shape, initc := H.initc,
    c0z := rfl, snapt0 := H.snapt0, mute := .inl H.nb }

/-- the bundle from `Hyp3wQ` -/
theorem Hyp3wK.of_hyp3wQ (H : Hyp3wQ cfg c0 h) : Hyp3wK cfg c0 h :=
  { hist := H.hist, fix := H.fix, ne := H.ne, nd1 := H.nd1, nd2 := H.nd2, init := H.init,
    steps := H.steps, nosnap := H.nosnap, nolone := H.nolone, shape := H.shape, initc := H.initc,
    c0z := H.c0z, snapt0 := H.snapt0, mute := .inr H.saneq }

end ClusterB
end RaftModel
